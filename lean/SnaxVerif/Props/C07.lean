import SnaxVerif.Lemmas.AccfgPoints
/-!
# C07 — assumed accelerator state is always a subset of the real state

The model (`Model/Accfg.lean`) is the accfg program with state-typed SSA values erased; `knownB` is
the compiler's inference (`infer_state_of` with fix F1 on an IR threaded by
`_weave_states_in_region` with fix F2). The correspondence check compares, for every generated
program, `infer_state_of` of the state operand of every setup and launch of the *real* traced IR with
`annotB` (the facts `knownB` has in front of that statement).
-/
namespace SnaxVerif.C07
open SnaxVerif.Accfg

/-- **C07, every program point.** For every program (any nesting of loops, conditionals, annotated and
unannotated calls, several accelerators), every hardware configuration `cfg` (in particular every
behaviour `cfg.clob` of calls that reconfigure the accelerators behind the compiler's back), every
initial environment and register file, every branch outcome and every trip count: each statement
reached executes in a state in which everything the inference assumes in front of it is true
(register `f` of accelerator `a` holds the current value of the SSA value `x` it is assumed to hold).
`PointsB` unfolds to exactly that, for every iteration `k` of every loop. -/
theorem infer_sound_every_point (cfg : Cfg) (b : Block) (hwf : wfB b = true) (st : St) :
    PointsB cfg b noFacts st :=
  pointsB cfg b hwf noFacts st (by intro a f x h; simp [noFacts] at h) (by intro a f x h; simp [noFacts] at h)

/-- … and after the whole program (what a caller could assume). -/
theorem infer_sound_final (cfg : Cfg) (b : Block) (hwf : wfB b = true) (st : St) :
    Sound (knownB b noFacts) (execB cfg false b st) :=
  infer_sound cfg b hwf st

/-- Values assumed at a loop head hold on every iteration, not only the first. -/
theorem loop_head_every_iteration (cfg : Cfg) (b : Block) (hwf : wfB b = true) (F : Facts) (iv : Var)
    (ha : Avoids F (iv :: defsB b)) (l stp : Int) (n : Nat) (u : St) (hu : Sound F u) :
    Sound (headFacts b F) (iterFrom (iterBody cfg false b iv l stp) n 0 u) :=
  head_iter cfg b hwf F iv ha l stp n 0 u (fun a f x hx => hu a f x (meet_le_left hx))

/-- Values assumed after a conditional hold for both branches: the facts after `scf.if` are below the
facts at the end of either branch. -/
theorem after_if_both_branches (c : Var) (t e : Block) (F : Facts) (a : AccId) (f : Field) (x : Var)
    (h : knownS (.ifS c t e) F a f = some x) : knownB t F a f = some x ∧ knownB e F a f = some x :=
  ⟨meet_le_left (by simpa [knownS] using h), meet_le_right (by simpa [knownS] using h)⟩

/-- After an operation that may reconfigure the accelerator nothing is assumed… -/
theorem call_forgets (tag : Nat) (F : Facts) : knownS (.call tag true) F = noFacts := by simp [knownS]

/-- … also when it is nested in a conditional or a loop: nothing survives that the nested call forgot. -/
theorem nested_call_forgets_if (c : Var) (tag : Nat) (e : Block) (F : Facts) (a : AccId) (f : Field) :
    knownS (.ifS c (.cons (.call tag true) .nil) e) F a f = none := by
  simp only [knownS, knownB, if_true, meet, noFacts]
  split
  · rfl
  · rfl

theorem nested_call_forgets_for (lb ub st iv : Var) (tag : Nat) (F : Facts) (a : AccId) (f : Field) :
    knownS (.forS lb ub st iv (.cons (.call tag true) .nil)) F a f = none := by
  simp only [knownS, knownB, if_true, meet, noFacts]
  split
  · next h => exact h
  · rfl

/-- Non-vacuity: a well-formed program with a loop whose body alternates between two configurations;
the inference keeps `B` (field 1) at the loop head and forgets `A` (field 0). -/
def demo : Block :=
  .cons (.setup 0 [(0, 0), (1, 1)]) <| .cons (.launch 0 []) <|
  .cons (.forS 3 4 5 6 (.cons (.setup 0 [(0, 0), (1, 1)]) <| .cons (.launch 0 []) <|
                         .cons (.setup 0 [(0, 2), (1, 1)]) <| .cons (.launch 0 []) .nil)) .nil

example : wfB demo = true := by decide
example : annotB (fun _ => [0, 1]) demo noFacts =
    [[], [(0, 0), (1, 1)], [(1, 1)], [(0, 0), (1, 1)], [(0, 0), (1, 1)], [(0, 2), (1, 1)]] := by decide

end SnaxVerif.C07
