import SnaxVerif.Lemmas.Tsl
import SnaxVerif.Lemmas.TslResolve
import SnaxVerif.Lemmas.TslStrided
import SnaxVerif.Lemmas.TslDeep2
import SnaxVerif.Lemmas.TslIdem
/-!
# C10 — a tiled-strided layout means the same thing everywhere

`addr s idx` (Model/Tsl.lean) is THE function from logical index to address of a static layout `s`
(mixed-radix digits of every index w.r.t. the inner tile bounds, outermost digit unreduced, dot product with
the steps). The theorems say that every view the compiler derives from a layout computes this function.
Static layouts are embedded into the option-valued layouts of the code by `ofStatic`; `SPos s` is the
property's quantifier "arbitrary positive bounds and steps". Rank, tile depth, bounds, steps, offsets and
indices are unbounded everywhere.

Statements and theorems only; helper lemmas live in `Lemmas/Tsl.lean`.
-/
namespace SnaxVerif.C10
open SnaxVerif SnaxVerif.Tsl

/-- the environment that binds affine dimension `d` to the `d`-th logical index -/
def envOf (idx : List Nat) : Nat → Int := fun d => ((idx.getD d 0 : Nat) : Int)

/-- **Affine map = addr.** `get_affine_map()` succeeds on every static positive layout, and its result
evaluates (Python `//`, `%`) to `addr` at *every* index vector — inside and outside the box — for every
rank, tile depth, bound, step and offset (the map ignores the offset). -/
theorem affineMap_eval (s : SLayout) (off : Option Int) (hpos : SPos s) (idx : List Nat) :
    ∃ e, (ofStatic s off).affineMap = .ok e ∧ e.eval (envOf idx) = some (addr s idx : Int) := by
  unfold Layout.affineMap
  rw [isDynamic_ofStatic]
  obtain ⟨e, he, hev⟩ := affDims_eval (envOf idx) s 0 idx (.const 0) 0 hpos
    (by intro k; simp [envOf]) rfl
  exact ⟨e, he, by simpa using hev⟩

/-- **Canonicalisation preserves addr.** `canonicalize()` of a static layout is again static, keeps the
offset and the logical shape, and addresses every index of the box identically (no positivity needed:
zero steps/bounds are never squashed). -/
theorem canonicalize_addr (s : SLayout) (off : Option Int) :
    ∃ s', (ofStatic s off).canonicalize = ofStatic s' off ∧ shape s' = shape s ∧
      ∀ idx ∈ points (shape s), addr s' idx = addr s idx :=
  ⟨s.map canonS, canonicalize_ofStatic s off, shape_canonS s, addr_canonS s⟩

/-- Canonicalisation may change addresses *outside* the box (unit-bound tiles carry a step that only shows
there): this is why `canonicalize_addr` quantifies over the box. -/
theorem canonicalize_addr_outside_box_fails :
    ¬ ∀ (s : SLayout) (idx : List Nat), addr (s.map canonS) idx = addr s idx := by
  intro h
  exact absurd (h [[⟨4, 1⟩, ⟨1, 2⟩]] [2]) (by decide +kernel)

/-- **Enumeration = addr over the box, in row-major order.** `all_values()` of a static positive layout is
exactly the list of addresses of the points of the logical box in lexicographic (row-major) order. -/
theorem allValues_eq (s : SLayout) (off : Option Int) (hpos : SPos s) :
    (ofStatic s off).allValues = .ok ((points (shape s)).map (addr s)) := by
  have h := allValuesFrom_layout s [] [0] hpos
  simp only [List.append_nil, allValuesFrom, bsum_zero_left] at h
  exact h

/-- **`self_overlaps` is non-injectivity of addr on the box.** -/
theorem selfOverlaps_iff (s : SLayout) (off : Option Int) (hpos : SPos s) :
    ∃ b, (ofStatic s off).selfOverlaps = .ok b ∧
      (b = false ↔ ∀ p ∈ points (shape s), ∀ q ∈ points (shape s), addr s p = addr s q → p = q) := by
  refine ⟨hasDup ((points (shape s)).map (addr s)), ?_, ?_⟩
  · simp [Layout.selfOverlaps, allValues_eq s off hpos, Except.map]
  · rw [hasDup_eq_false_iff, List.nodup_map_iff_inj_on (nodup_points _)]

/-- **`is_dense` is "addr maps the box bijectively onto 0 … N-1"** (stated as: the enumeration is a
permutation of `range N`, `N` = number of points). -/
theorem isDense_iff (s : SLayout) (off : Option Int) (hpos : SPos s) :
    ∃ b, (ofStatic s off).isDense = .ok b ∧
      (b = true ↔ ((points (shape s)).map (addr s)).Perm (List.range (points (shape s)).length)) := by
  let v := (points (shape s)).map (addr s)
  refine ⟨if hasDup v then false else decide (maxL v = v.length - 1), ?_, ?_⟩
  · simp [Layout.isDense, allValues_eq s off hpos, Except.map, v]
  · have h := dense_iff_perm v
    simp only [v, List.length_map] at h ⊢
    rw [← h]
    cases hd : hasDup (List.map (addr s) (points (shape s))) <;> simp

/-- **Subview pointer = base + element size · addr(offsets)** (with fix F13): for every static positive
layout, every mix of static and dynamic offsets that are multiples of their inner tile sizes. -/
theorem subviewPtr_partial (s : SLayout) (el base : Nat) (offs : List (Option Nat)) (dyn vals : List Nat)
    (hpos : SPos s) (hmerge : mergeOffs offs dyn = some vals) (tileAligned : Aligned s vals) :
    subviewPtr true el base (s.map (·.map SStride.toStride)) offs dyn = .ok (base + el * addr s vals) := by
  obtain ⟨terms, ht, hsum⟩ := subviewTerms_aligned s el offs dyn vals hpos hmerge tileAligned
  simp [subviewPtr, ht, Except.map, hsum]

/-- the full statement (no alignment clause, any state of the tree) -/
def subviewPtr_statement (f13 : Bool) : Prop :=
  ∀ (s : SLayout) (el base : Nat) (offs : List (Option Nat)) (dyn vals : List Nat),
    SPos s → mergeOffs offs dyn = some vals → vals.length = s.length →
    subviewPtr f13 el base (s.map (·.map SStride.toStride)) offs dyn = .ok (base + el * addr s vals)

/-- D23 (tree as found): the static offset 8 of `subview %m[8, %j]` on `[2,8]->(128,8), [2,8]->(64,1)` is
ignored: the pointer is `base + 0` instead of `base + 128`. -/
theorem subviewPtr_pristine_fails : ¬ subviewPtr_statement false := by
  intro h
  have := h [[⟨128, 2⟩, ⟨8, 8⟩], [⟨64, 2⟩, ⟨1, 8⟩]] 1 4096 [some 8, none] [0] [8, 0] (by decide +kernel) rfl rfl
  exact absurd this (by decide +kernel)

/-- D23, second half (tree as found): without dynamic offsets the pointer is replaced by the element-size
constant (`subview %m[0, 0]` of an i8 memref at 4096 yields 1). -/
theorem subviewPtr_pristine_const_fails :
    subviewPtr false 1 4096 [[⟨some 128, some 2⟩, ⟨some 8, some 8⟩], [⟨some 64, some 2⟩, ⟨some 1, some 8⟩]]
      [some 0, some 0] [] = .ok 1 := by decide +kernel

/-- the clause `tileAligned` cannot be dropped even with F13: offset 3 inside a tile of 8 loses its inner
digit (pointer `base + 0`, address of element 3 is 24). -/
theorem subviewPtr_unaligned_fails : ¬ subviewPtr_statement true := by
  intro h
  have := h [[⟨128, 2⟩, ⟨8, 8⟩]] 1 0 [none] [3] [3] (by decide +kernel) rfl rfl
  exact absurd this (by decide +kernel)

/-- **Building a layout from plain strides does not change the function.** For positive strides, non-empty
tile-bound lists and positive inner tile bounds, `from_strides` yields a static layout whose tile bounds are
the requested ones, whose offset is the requested one, and whose address at EVERY index vector is the dot
product of strides and indices. (The outermost bound is unconstrained: it may even be 0.) -/
theorem fromStrides_addr (strides : List Nat) (tbs : List (List Nat)) (off : Option Int)
    (hlen : strides.length = tbs.length) (hs : ∀ s ∈ strides, 0 < s)
    (htb : ∀ tb ∈ tbs, tb ≠ [] ∧ ∀ b ∈ tb.tail, 0 < b) :
    ∃ s, fromStrides (strides.map some) (tbs.map (·.map some)) off = ofStatic s off ∧
      (ofStatic s off).tileBounds = tbs.map (·.map some) ∧
      ∀ idx, addr s idx = dot strides idx := by
  refine ⟨List.zipWith fromStrideS strides tbs, ?_, ?_, ?_⟩
  · simp only [fromStrides, ofStatic]
    rw [fromStrides_static strides tbs hs (fun tb h => (htb tb h).2)]
  · simp only [Layout.tileBounds, ofStatic]
    exact tileBounds_zipWith strides tbs hlen
  · intro idx
    exact addr_zipWith strides tbs idx hlen (fun tb h => (htb tb h).1)

/-- the clause "positive inner bounds" cannot be dropped: a 0 inner bound makes the outer step dynamic -/
theorem fromStrides_zero_bound_fails :
    fromStrides [some 1] [[some 2, some 0]] (some 0) = ⟨[[⟨none, some 2⟩, ⟨some 1, some 0⟩]], some 0⟩ := by
  decide +kernel

/-- **Static bounds are the literals.** The bound ops of a static layout evaluate to the layout's bounds
whatever the runtime shape is. -/
theorem boundsAt_static (s : SLayout) (off : Option Int) (runtimeShape : List Nat)
    (hlen : runtimeShape.length = s.length) (hne : ∀ t ∈ s, t ≠ []) :
    boundsAt (ofStatic s off).ts runtimeShape = .ok (s.map (·.map (·.bound))) :=
  Tsl.boundsAt_static s runtimeShape hlen hne

/-- **Static steps are the literals × element size.** The step ops of a static layout evaluate to the layout's
steps times the element size (`in_bytes`), whatever the largest step / the seed of the dynamic chain is. -/
theorem stepsAt_static (s : SLayout) (off : Option Int) (el : Nat) (hs : s ≠ []) (hne : ∀ t ∈ s, t ≠ []) :
    stepsAt (ofStatic s off) (s.map (·.map (·.bound))) el = .ok (s.map (·.map (·.step * el))) :=
  stepsAt_ofStatic s off el hs hne

/-- **Steps in bytes = element size × steps in elements**, for EVERY layout (static or dynamic entries
anywhere), every list of resolved bounds and every element size — errors included. -/
theorem stepsAt_bytes (l : Layout) (bounds : List (List Nat)) (el : Nat) :
    stepsAt l bounds el = (stepsAt l bounds 1).map (·.map (·.map (· * el))) :=
  stepsAt_scale l bounds el

/-- **Dynamic bounds.** A layout whose every dimension is `[?, inner…]` with positive static inner bounds
resolves, at any runtime shape, to `extent / Π inner` for the outermost tile and the literals inside; and
(clause `tileDividesShape`) the resolved bounds of a dimension multiply to its runtime extent. -/
theorem boundsAt_dynamic_partial (ds : List DynDim) (runtimeShape : List Nat)
    (hlen : runtimeShape.length = ds.length) (hpos : ∀ d ∈ ds, ∀ x ∈ d.2, 0 < x.bound) :
    boundsAt (ds.map DynDim.toTStride) runtimeShape = .ok (List.zipWith DynDim.boundsFor ds runtimeShape) ∧
      ∀ (d : DynDim) (n : Nat), (tileDividesShape : prodB d.2 ∣ n) → prodL (d.boundsFor n) = n := by
  refine ⟨boundsAt_dynamic ds runtimeShape hlen hpos, ?_⟩
  intro d n hdvd
  simp only [DynDim.boundsFor, prodL, prodL_bounds]
  exact Nat.div_mul_cancel hdvd

/-- the clause `tileDividesShape` cannot be dropped: `arith.divui` floors (extent 10, tile 4: 2·4 = 8) -/
theorem boundsAt_dynamic_floor_fails :
    ¬ ∀ (d : DynDim) (n : Nat), prodL (d.boundsFor n) = n := by
  intro h
  exact absurd (h (none, [⟨1, 4⟩]) 10) (by decide +kernel)

/-- **Resolved steps form the contiguous chain.** Whenever the step ops are produced (`stepsAt … = .ok steps`):
`v` is the largest static step of the layout (0 if there is none) and sits at flat position `p`; read right to
left (dimensions reversed, tiles from the innermost outwards) every static tile gets `step · el`, and every
dynamic tile gets `seed · Π (extents of the dynamic tiles visited before it)` with
`seed = extent(p) · v · el`. No bound on rank, depth, extents. -/
theorem stepsAt_chain (l : Layout) (bounds : List (List Nat)) (el : Nat) (steps : List (List Nat))
    (h : stepsAt l bounds el = .ok steps) :
    ∃ p v, maxStep l.strides 0 (l.strides.length - 1) 0 = (p, v) ∧
      (∀ x ∈ l.strides, ∀ st, x.step = some st → st ≤ v) ∧
      (v = 0 ∨ (l.strides[p]?).bind (·.step) = some v) ∧
      ∀ (i : Nat) (s : Stride) (b : Nat), ((l.strides.zip bounds.flatten).reverse)[i]? = some (s, b) →
        steps.flatten.reverse[i]? = some (match s.step with
          | some st => st * el
          | none => bounds.flatten.getD p 0 * (v * el) *
              dynProd (((l.strides.zip bounds.flatten).reverse).take i)) := by
  obtain ⟨hlen, hsteps⟩ := stepsAt_ok l bounds el steps h
  rcases hm : maxStep l.strides 0 (l.strides.length - 1) 0 with ⟨p, v⟩
  refine ⟨p, v, rfl, ?_, ?_, ?_⟩
  · have := (maxStep_ge l.strides 0 (l.strides.length - 1) 0).2
    rw [hm] at this
    exact this
  · rcases maxStep_attained l.strides 0 (l.strides.length - 1) 0 with h0 | ⟨j, h1, h2, _⟩
    · left; rw [hm] at h0; exact (Prod.mk.inj h0).2
    · right; rw [hm] at h1 h2; simp only [Nat.zero_add] at h1; rw [h1]; exact h2
  · intro i s b hi
    have hflat : steps.flatten = (stepsRev el (l.strides.zip bounds.flatten).reverse (seedOf l bounds el)).reverse := by
      rw [hsteps, flatten_regroup]
      rw [List.length_reverse, length_stepsRev, List.length_reverse, List.length_zip, ← hlen, Nat.min_self,
        length_flatten_strides]
    rw [hflat, List.reverse_reverse, stepsRev_getElem el _ _ i s b hi]
    simp only [seedOf, hm]
    cases s.step <;> rfl

/-- C10-N1 (open finding, clause "the layout has a static step"): without any static step the seed is 0 and
every step of `[?] -> (?), [?] -> (?)` at shape 12×12 resolves to 0. -/
theorem stepsAt_allDynamic_fails :
    stepsAt ⟨[[⟨none, none⟩], [⟨none, none⟩]], some 0⟩ [[12], [12]] 4 = .ok [[0], [0]] := by
  decide +kernel

/-! ## Deepening round: the loop-nest view, the resolved layout of dynamic layouts, fix FC10a, canonical form of
dynamic layouts -/

/-- **The bound/step ops describe a loop nest that visits exactly `el · addr` over the box.** For every static
positive layout, every element size and every runtime shape: `get_bound_ops` and `get_step_ops` succeed, and the
loop nest over their values (dimension-major, outermost tile first, innermost fastest — the DMA loop nest before
reordering, the allocation extent) enumerates `el · addr s p` for `p` in row-major order over the logical box. -/
theorem loopNest_eq (s : SLayout) (off : Option Int) (el : Nat) (hel : 0 < el) (hpos : SPos s) (hs : s ≠ [])
    (hne : ∀ t ∈ s, t ≠ []) (runtimeShape : List Nat) (hlen : runtimeShape.length = s.length) :
    ∃ bs ss, boundsAt (ofStatic s off).ts runtimeShape = .ok bs ∧ stepsAt (ofStatic s off) bs el = .ok ss ∧
      nestValues (nestOf bs ss) = (points (shape s)).map fun p => el * addr s p :=
  ⟨_, _, Tsl.boundsAt_static s runtimeShape hlen hne, stepsAt_ofStatic s off el hs hne, nest_static s el hel hpos⟩

/-- **Resolving a static layout gives the layout itself**: the static layout described by the ops at run time
(the meaning the DMA / allocation code attaches to a layout) is `s`, so every theorem about `addr s` is a
theorem about what the ops compute. -/
theorem resolve_static (s : SLayout) (off : Option Int) (runtimeShape : List Nat)
    (hlen : runtimeShape.length = s.length) (hs : s ≠ []) (hne : ∀ t ∈ s, t ≠ []) :
    resolve (ofStatic s off) runtimeShape = .ok s :=
  resolve_ofStatic s off runtimeShape hlen hs hne

/-- **The resolved layout of a dynamic layout is one-to-one on the runtime box** (was: oracle only). For every
layout (static and dynamic tiles in any positions), resolved bounds and element size for which the step ops
are produced: if the static tiles alone are one-to-one (`staticInjective`) and stay below the seed of the dynamic
chain (`staticBelowSeed`), then two digit vectors of the runtime box with the same address are equal.
Digit vectors and steps are listed right to left (innermost tile of the last dimension first), as the code
assigns them. -/
theorem resolved_injective_partial (l : Layout) (bounds : List (List Nat)) (el : Nat) (steps : List (List Nat))
    (h : stepsAt l bounds el = .ok steps)
    (staticBelowSeed : statSpan el (l.strides.zip bounds.flatten).reverse < seedOf l bounds el)
    (staticInjective : ∀ ds es, InRange (((l.strides.zip bounds.flatten).reverse).map (·.2)) ds →
      InRange (((l.strides.zip bounds.flatten).reverse).map (·.2)) es →
      statSum el (l.strides.zip bounds.flatten).reverse ds = statSum el (l.strides.zip bounds.flatten).reverse es →
      statDigits (l.strides.zip bounds.flatten).reverse ds = statDigits (l.strides.zip bounds.flatten).reverse es)
    (ds es : List Nat) (hd : InRange (((l.strides.zip bounds.flatten).reverse).map (·.2)) ds)
    (he : InRange (((l.strides.zip bounds.flatten).reverse).map (·.2)) es)
    (heq : dotDigits steps.flatten.reverse ds = dotDigits steps.flatten.reverse es) : ds = es := by
  rw [stepsAt_flat l bounds el steps h] at heq
  exact stepsRev_injective el _ _ staticBelowSeed staticInjective ds es hd he heq

/-- the clause `staticBelowSeed` cannot be dropped: `[?, 2, 4] -> (?, 3, 2)` at extent 16 has one-to-one static
tiles (addresses 0,2,3,4,5,6,7,9) reaching 9, the seed is 3·2 = 6, and the resolved steps (6, 3, 2) send the
digit vectors (innermost first) [3,0,0] and [0,0,1] both to address 6. -/
theorem resolved_injective_fails :
    let l : Layout := ⟨[[⟨none, none⟩, ⟨some 3, some 2⟩, ⟨some 2, some 4⟩]], some 0⟩
    stepsAt l [[2, 2, 4]] 1 = .ok [[6, 3, 2]] ∧ (nestValues [(2, 3), (4, 2)]).Nodup ∧
      seedOf l [[2, 2, 4]] 1 = 6 ∧ statSpan 1 (l.strides.zip [2, 2, 4]).reverse = 9 ∧
      dotDigits [2, 3, 6] [3, 0, 0] = dotDigits [2, 3, 6] [0, 0, 1] := by
  decide +kernel

/-- **Fix FC10a leaves every layout with a static step alone**: if some tile has a positive static step, the
repaired `get_step_ops` computes exactly what the code as found computes (so `stepsAt_static`, `stepsAt_chain`,
`resolved_injective_partial`, … carry over verbatim). -/
theorem stepsAtN1_agrees (l : Layout) (bounds : List (List Nat)) (el : Nat)
    (hasStaticStep : ∃ x ∈ l.strides, ∃ st, x.step = some st ∧ 0 < st) :
    stepsAtN1 l bounds el = stepsAt l bounds el := by
  apply stepsAtN1_eq
  obtain ⟨x, hx, st, hst, hpos⟩ := hasStaticStep
  have := (maxStep_ge l.strides 0 (l.strides.length - 1) 0).2 x hx st hst
  omega

/-- **bytes = element size × elements** also holds for the repaired code, for every layout. -/
theorem stepsAtN1_bytes (l : Layout) (bounds : List (List Nat)) (el : Nat) :
    stepsAtN1 l bounds el = (stepsAtN1 l bounds 1).map (·.map (·.map (· * el))) :=
  stepsAtN1_scale l bounds el

/-- **With fix FC10a a layout without any static step is row-major** (this removes the clause `hasStaticStep`
= finding C10-N1): read right to left, tile `i` gets `el · Π (extents of the tiles before it)`, and for `el > 0`
the resolved layout is one-to-one on the runtime box. Any rank, any depth, any extents. -/
theorem stepsAtN1_allDynamic (l : Layout) (bounds : List (List Nat)) (el : Nat) (steps : List (List Nat))
    (hall : ∀ x ∈ l.strides, x.step = none) (h : stepsAtN1 l bounds el = .ok steps) :
    (∀ (i : Nat) (s : Stride) (b : Nat), ((l.strides.zip bounds.flatten).reverse)[i]? = some (s, b) →
        steps.flatten.reverse[i]? = some (el * prodL ((((l.strides.zip bounds.flatten).reverse).take i).map (·.2)))) ∧
      (0 < el → ∀ ds es, InRange (((l.strides.zip bounds.flatten).reverse).map (·.2)) ds →
        InRange (((l.strides.zip bounds.flatten).reverse).map (·.2)) es →
        dotDigits steps.flatten.reverse ds = dotDigits steps.flatten.reverse es → ds = es) := by
  have hflat := stepsAtN1_flat l bounds el steps h
  have hL := mem_zip_reverse_step l bounds.flatten hall
  have hseed : seedN1 l bounds el = el := by
    simp only [seedN1, maxStep_allDyn l.strides hall, if_true]
  rw [hseed] at hflat
  refine ⟨?_, ?_⟩
  · intro i s b hi
    have hs : s.step = none := hL (s, b) (List.mem_of_getElem? hi)
    rw [hflat, stepsRev_getElem el _ _ i s b hi]
    simp only [hs]
    rw [dynProd_allDyn _ (fun p hp => hL p (List.mem_of_mem_take hp))]
  · intro hel ds es hd he heq
    rw [hflat] at heq
    refine stepsRev_injective el _ el ?_ ?_ ds es hd he heq
    · rw [statSpan_allDyn el _ hL]; exact hel
    · intro ds' es' _ _ _
      rw [statDigits_allDyn _ ds' hL, statDigits_allDyn _ es' hL]

/-- **Canonicalising a dynamic layout** whose dimensions are `[?, inner…] -> (s?, inner…)` (outermost bound
dynamic, outermost step static or dynamic, inner tiles static with positive bounds; any rank and depth):
`canonicalize` rewrites only the static inner tiles, the resolved bounds and the inner address function are
unchanged, and — clause `seedPreserved`: the seed of the dynamic chain (extent × largest static step) is the same
before and after — the layouts resolved at the same runtime shape address EVERY index identically. -/
theorem canonicalize_dynamic_partial (ds : List DynDim) (off : Option Int) (runtimeShape : List Nat)
    (hlen : runtimeShape.length = ds.length) (hpos : ∀ d ∈ ds, ∀ x ∈ d.2, 0 < x.bound) (R Rc : SLayout)
    (hR : resolve ⟨ds.map DynDim.toTStride, off⟩ runtimeShape = .ok R)
    (hRc : resolve (Layout.canonicalize ⟨ds.map DynDim.toTStride, off⟩) runtimeShape = .ok Rc)
    (seedPreserved :
      seedOf ⟨(ds.map canonD).map DynDim.toTStride, off⟩ (List.zipWith DynDim.boundsFor (ds.map canonD) runtimeShape) 1
        = seedOf ⟨ds.map DynDim.toTStride, off⟩ (List.zipWith DynDim.boundsFor ds runtimeShape) 1) :
    Layout.canonicalize ⟨ds.map DynDim.toTStride, off⟩ = ⟨(ds.map canonD).map DynDim.toTStride, off⟩ ∧
      ∀ idx, addr Rc idx = addr R idx := by
  refine ⟨canonicalize_dyn ds off, ?_⟩
  rw [canonicalize_dyn] at hRc
  have hposc : ∀ d ∈ ds.map canonD, ∀ x ∈ d.2, 0 < x.bound := by
    intro d hd x hx
    obtain ⟨d0, hd0, rfl⟩ := List.mem_map.mp hd
    exact canonS_bound_pos d0.2 (hpos d0 hd0) x hx
  have h1 := resolve_dyn ds off runtimeShape hlen hpos R hR
  have h2 := resolve_dyn (ds.map canonD) off runtimeShape (by simpa using hlen) hposc Rc hRc
  rw [seedPreserved, zip_map_canonD] at h2
  intro idx
  rw [h1, h2]
  exact (addr_resolvedOf_canon _ (ds.zip runtimeShape)).2 idx

/-- C10-N3 (open finding, clause `seedPreserved`): `[?, 1, 4] -> (?, 100, 1)` at extent 12 resolves to steps
(100, 100, 1); its canonical form `[?, 4] -> (?, 1)` resolves to (4, 1): the unit tile that carried the largest
static step is dropped, the seed changes from 100 to 4 and index 4 moves from address 100 to address 4. -/
theorem canonicalize_dynamic_seed_fails :
    let l : Layout := ⟨[[⟨none, none⟩, ⟨some 100, some 1⟩, ⟨some 1, some 4⟩]], some 0⟩
    resolve l [12] = .ok [[⟨100, 3⟩, ⟨100, 1⟩, ⟨1, 4⟩]] ∧
      resolve l.canonicalize [12] = .ok [[⟨4, 3⟩, ⟨1, 4⟩]] ∧
      addr [[⟨100, 3⟩, ⟨100, 1⟩, ⟨1, 4⟩]] [4] = 100 ∧ addr [[⟨4, 3⟩, ⟨1, 4⟩]] [4] = 4 := by
  decide +kernel

/-! ## The metadata branch of `get_step_ops` (memref with a `StridedLayoutAttr`, as in snax-copy-to-dma) -/

/-- **`get_step_ops` on a strided memref, dimension by dimension.** For every layout whose dimensions each have
either only dynamic steps or only static steps (what `from_strides` produces), any rank, depth, bounds, run-time
strides `σ`, element size `E` and unit `el`: a dynamic dimension follows the run-time stride of the memref —
its tiles get `σ·E · Π(bounds of the tiles inside)`, the chain `step·bound` being continued from the step taken
from `extract_strided_metadata` — and a static dimension gets its literals × `el`; the seed of the contiguity
chain of pure TSL layouts plays no role. -/
theorem stepsAtStrided_eq (dims : List DimM) (off : Option Int) (el E : Nat) (hne : dims ≠ [])
    (hok : ∀ d ∈ dims, d.Ok) :
    stepsAtStrided ⟨dims.map (·.T), off⟩ (dims.map (·.B)) el E (dims.map (·.σ)) = .ok (dims.map (dimSteps el E)) :=
  stepsAtStrided_dims dims off el E hne hok

/-- **A dimension built by `from_stride` from a DYNAMIC plain stride means that stride at run time**: its
resolved steps are the steps of `from_stride(σ·E, bounds)`, whose address function is `i ↦ σ·E·i` at every
index — for every outermost bound (static, dynamic or unknown), all inner bounds, all run-time values. With
`in_bytes` (`E = el`) this is "element `i` lies `el·σ·i` bytes from the base", the meaning of a plain stride. -/
theorem strided_dynamic_dim (o : Option Nat) (inner : List Nat) (n σ E el : Nat) :
    let d : DimM := ⟨fromStride none (o :: inner.map some), n :: inner, σ⟩
    d.Ok ∧ dimSteps el E d = (fromStrideS (σ * E) (n :: inner)).map (·.step) ∧
      ∀ i, addrDim (fromStrideS (σ * E) (n :: inner)) i = σ * E * i := by
  intro d
  have hT : d.T = dynTiles o inner := fromStride_none o inner
  have hall : ∀ x ∈ d.T, x.step = none := by
    intro x hx
    rw [hT] at hx
    simp only [dynTiles, List.mem_cons, List.mem_map] at hx
    rcases hx with rfl | ⟨b, _, rfl⟩ <;> rfl
  refine ⟨⟨by rw [hT]; simp [dynTiles], by rw [hT]; simp [dynTiles, d], Or.inl hall⟩, ?_, ?_⟩
  · have htest : d.T.all (fun x => x.step.isNone) = true := by
      rw [List.all_eq_true]; intro x hx; simp [hall x hx]
    simp only [dimSteps, htest, if_true]
    rw [← steps_fromStrideS, List.reverse_reverse]
  · intro i
    exact addrDim_fromStrideS (σ * E) (n :: inner) (by simp) i

/-- C10-N4 (open finding, clause `inBytes`: `E = el`): asked for steps in ELEMENTS (`el = 1`) of
`from_strides([?], [[?, 4]])` on a strided i32 memref with run-time stride 10, the metadata branch still
multiplies by the element size 4: steps (160, 40) instead of (40, 10). -/
theorem stepsAtStrided_elements_fails :
    stepsAtStrided ⟨[[⟨none, none⟩, ⟨none, some 4⟩]], some 0⟩ [[2, 4]] 1 4 [10] = .ok [[160, 40]] := by
  decide +kernel

/-! ## Second deepening round -/

/-- **Every enumerating view of the canonical form equals that of the layout.** For a static positive layout
the canonical form is again static and positive, and `all_values`, `self_overlaps` and `is_dense` of
`canonicalize()` are exactly those of the layout (same list, same order) — so all views, not only `addr`, are
invariant under canonicalisation. -/
theorem canonicalize_views (s : SLayout) (off : Option Int) (hpos : SPos s) :
    ∃ s', (ofStatic s off).canonicalize = ofStatic s' off ∧ SPos s' ∧
      (ofStatic s' off).allValues = (ofStatic s off).allValues ∧
      (ofStatic s' off).selfOverlaps = (ofStatic s off).selfOverlaps ∧
      (ofStatic s' off).isDense = (ofStatic s off).isDense := by
  refine ⟨s.map canonS, canonicalize_ofStatic s off, spos_canonS s hpos, allValues_canonS s off hpos, ?_, ?_⟩
  · simp only [Layout.selfOverlaps, allValues_canonS s off hpos]
  · simp only [Layout.isDense, allValues_canonS s off hpos]

/-- **Subview pointer in general (no alignment clause): base + el · addr(offsets rounded down to their tiles).**
For every static positive layout and every mix of static / dynamic offsets (one per dimension), with fix F13:
the lowered pointer is the address of the first element of the tile row that contains the offset. For
tile-aligned offsets this is `subviewPtr_partial`; for the others it says exactly what D23b loses (the inner
digits). -/
theorem subviewPtr_floor (s : SLayout) (el base : Nat) (offs : List (Option Nat)) (dyn vals : List Nat)
    (hpos : SPos s) (hmerge : mergeOffs offs dyn = some vals) (hshape : Shaped s vals) :
    subviewPtr true el base (s.map (·.map SStride.toStride)) offs dyn
      = .ok (base + el * addr s (floorTile s vals)) := by
  obtain ⟨terms, ht, hsum⟩ := subviewTerms_floor s el offs dyn vals hpos hmerge hshape
  simp [subviewPtr, ht, Except.map, hsum]

/-- **A dimension built by `from_stride` from a STATIC plain stride with ANY outermost bound** (static or `?`)
on a strided memref: its resolved steps are the steps of `from_stride(s·el, bounds)` — address `s·el·i` at every
index. Together with `strided_dynamic_dim` and `stepsAtStrided_eq` this covers every layout `from_strides`
builds for snax-copy-to-dma (positive strides and inner bounds). -/
theorem strided_static_dim (st : Nat) (hst : 0 < st) (o : Option Nat) (inner : List Nat)
    (hin : ∀ b ∈ inner, 0 < b) (n σ E el : Nat) :
    let d : DimM := ⟨fromStride (some st) (o :: inner.map some), n :: inner, σ⟩
    d.Ok ∧ dimSteps el E d = (fromStrideS (st * el) (n :: inner)).map (·.step) ∧
      ∀ i, addrDim (fromStrideS (st * el) (n :: inner)) i = st * el * i := by
  intro d
  have hT : d.T = ⟨some (prodL inner * st), o⟩ :: (fromStrideS st inner).map SStride.toStride :=
    fromStride_static_outer st hst o inner hin
  have hall : ∀ x ∈ d.T, ∃ s', x.step = some s' := by
    intro x hx
    rw [hT] at hx
    rcases List.mem_cons.mp hx with rfl | hx
    · exact ⟨_, rfl⟩
    · obtain ⟨y, _, rfl⟩ := List.mem_map.mp hx
      exact ⟨y.step, rfl⟩
  have hlenS : ∀ r : List Nat, (fromStrideS st r).length = r.length := by
    intro r; induction r with
    | nil => rfl
    | cons b r ih => simp [fromStrideS, ih]
  refine ⟨⟨by rw [hT]; simp, by rw [hT]; simp [d, hlenS], Or.inr hall⟩, ?_, ?_⟩
  · have htest : ¬ d.T.all (fun x => x.step.isNone) = true := by
      rw [hT]; simp
    rw [dimSteps, if_neg htest, hT]
    simp only [List.map_cons, List.map_map, fromStrideS, Option.getD_some]
    refine congrArg₂ _ (by rw [Nat.mul_assoc]) ?_
    rw [← steps_scale]
    apply List.map_congr_left
    intro x _
    rfl
  · intro i
    exact addrDim_fromStrideS (st * el) (n :: inner) (by simp) i

/-- what the property's quantifier needs for the textual form: no step or bound is the literal `0` (the
printer writes `?` for it: `str(x) if x else "?"`), and a rank-0 layout has offset 0 (otherwise the printed
form starts with a comma). Dynamic entries, dynamic / negative offsets, unit bounds, any rank and depth are
all included. -/
def Printable (l : Layout) : Prop :=
  (∀ t ∈ l.ts, ∀ x ∈ t, x.step ≠ some 0 ∧ x.bound ≠ some 0) ∧ (l.ts = [] → l.offset = some 0)

instance (l : Layout) : Decidable (Printable l) := by unfold Printable; infer_instance

/-- **print then parse gives an equal layout** (token level, parser with fix F6), including `?` entries
and `offset: ?`. The closing `>` is the one `parse_parameter` expects after the layout. -/
theorem parse_print (l : Layout) (h : Printable l) : parse true (printLayout l ++ [.greater]) = .ok l := by
  obtain ⟨ts, off⟩ := l
  obtain ⟨hp, h0⟩ := h
  cases ts with
  | nil =>
    have : off = some 0 := h0 rfl
    subst this
    rfl
  | cons t ts =>
    have htoks : printLayout ⟨t :: ts, off⟩ ++ [.greater] = printTStride t ++ restToks off ts := by
      rw [← commaSep_rest]; simp [printLayout, tailToks]
    unfold parse
    rw [htoks, parseLayout_loop off ts t [] _ ?_ hp]
    · simp
    · have h1 := length_restToks_ge off ts
      have h2 := length_printTStride_gt t (restToks off ts)
      simp only [List.length_append] at h2 ⊢
      omega

/-- the full statement for a given state of the parser -/
def parse_print_statement (f6 : Bool) : Prop :=
  ∀ l : Layout, Printable l → parse f6 (printLayout l ++ [.greater]) = .ok l

/-- D9 (tree as found): `[?, 4] -> (?, 4), offset: ?` is printed but rejected by `parse_integer`. -/
theorem parse_print_pristine_fails : ¬ parse_print_statement false := by
  intro h
  have := h ⟨[[⟨none, none⟩, ⟨some 4, some 4⟩]], none⟩ (by decide)
  exact absurd this (by decide +kernel)

/-- the clause "no literal 0" cannot be dropped: step 0 prints as `?` and parses back as dynamic -/
theorem parse_print_zero_fails :
    parse true (printLayout ⟨[[⟨some 0, some 2⟩]], some 0⟩ ++ [.greater]) = .ok ⟨[[⟨none, some 2⟩]], some 0⟩ := by
  decide +kernel

/-! ## Third deepening round -/

/-- **`canonicalize()` is idempotent, for every layout — dynamic (`?`) steps and bounds, zero entries and unit
bounds included.** The canonical form is a normal form (`nfT`: no droppable unit bound, no adjacent pair passing
the squash test), so every consumer that canonicalises again (the printer of `set-memory-layout`, C09's chosen
layout, `canonicalize_dynamic_partial`'s resolved form) sees the same layout text. No hypothesis. -/
theorem canonicalize_idempotent (l : Layout) : l.canonicalize.canonicalize = l.canonicalize := by
  simp only [Layout.canonicalize, List.map_map]
  congr 1
  apply List.map_congr_left
  intro t _
  exact canonT_idem t

/-- … and every dimension of the canonical form is in normal form. -/
theorem canonicalize_normal_form (l : Layout) : ∀ t ∈ l.canonicalize.ts, nfT t = true := by
  intro t ht
  simp only [Layout.canonicalize, List.mem_map] at ht
  obtain ⟨t0, _, rfl⟩ := ht
  exact nfT_canonT t0

/-- **`canonicalize()` keeps the rank and never deepens a dimension**: same number of dimensions, same offset, per
dimension at most as many tiles as before, and a dimension that had a tile keeps one ("always keep the innermost
one") — for every layout, dynamic ones included. -/
theorem canonicalize_rank_depth (l : Layout) :
    l.canonicalize.ts.length = l.ts.length ∧ l.canonicalize.offset = l.offset ∧
      ∀ d (h : d < l.ts.length), ∃ t', l.canonicalize.ts[d]? = some t' ∧ t'.length ≤ (l.ts[d]).length ∧
        (l.ts[d] ≠ [] → t' ≠ []) := by
  refine ⟨by simp [Layout.canonicalize], rfl, ?_⟩
  intro d h
  refine ⟨canonT l.ts[d], by simp [Layout.canonicalize, h], canonT_length_le _, canonT_ne_nil _⟩

/-- a single pass is needed: the input of the non-vacuity example below is not a fixed point -/
theorem canonicalize_not_identity :
    ¬ ∀ l : Layout, l.canonicalize = l := by
  intro h
  exact absurd (h ⟨[[⟨some 32, some 2⟩, ⟨some 8, some 1⟩, ⟨some 4, some 4⟩, ⟨some 1, some 4⟩]], none⟩) (by decide +kernel)

/-! ## Non-vacuity: the upstream fixture `[2,4]->(32,4), [2,4]->(16,1)` and a layout with a unit bound -/

example : SPos [[⟨32, 2⟩, ⟨4, 4⟩], [⟨16, 2⟩, ⟨1, 4⟩]] := by decide +kernel
example : addr [[⟨32, 2⟩, ⟨4, 4⟩], [⟨16, 2⟩, ⟨1, 4⟩]] [5, 6] = 54 := by decide +kernel
example : (ofStatic [[⟨32, 2⟩, ⟨4, 4⟩], [⟨16, 2⟩, ⟨1, 4⟩]] (some 5)).isDense = .ok true := by decide +kernel
example : (ofStatic [[⟨32, 2⟩, ⟨8, 1⟩, ⟨4, 4⟩, ⟨1, 4⟩]]).canonicalize = ofStatic [[⟨32, 2⟩, ⟨1, 16⟩]] := by decide +kernel
example : (ofStatic [[⟨2, 2⟩, ⟨1, 3⟩]]).selfOverlaps = .ok true := by decide +kernel
example : Aligned [[⟨128, 2⟩, ⟨8, 8⟩], [⟨64, 2⟩, ⟨1, 8⟩]] [8, 0] := by
  refine ⟨by decide, ⟨1, by decide⟩, by decide, ⟨0, by decide⟩, trivial⟩
example : fromStrides [some 24] [[some 2, some 6, some 4]] (some 0) = ofStatic [[⟨576, 2⟩, ⟨96, 6⟩, ⟨24, 4⟩]] := by
  decide +kernel
example : stepsAt ⟨[[⟨none, none⟩, ⟨some 4, some 4⟩], [⟨none, none⟩, ⟨some 1, some 4⟩]], some 0⟩ [[3, 4], [5, 4]] 4
    = .ok [[320, 16], [64, 4]] := by decide +kernel
example : stepsAtN1 ⟨[[⟨none, none⟩], [⟨none, none⟩]], some 0⟩ [[12], [5]] 4 = .ok [[20], [4]] := by decide +kernel
example : resolve (Layout.canonicalize ⟨[[⟨none, none⟩, ⟨some 4, some 2⟩, ⟨some 1, some 4⟩]], some 0⟩) [24]
    = .ok [[⟨8, 3⟩, ⟨1, 8⟩]] := by decide +kernel
example : stepsAtStrided (fromStrides [none, some 1] [[none, some 4], [none, some 4]] (some 0)) [[2, 4], [4, 4]] 4 4 [40, 1]
    = .ok [[640, 160], [16, 4]] := by decide +kernel
example : Printable ⟨[[⟨none, none⟩, ⟨some 4, some 4⟩], [⟨some 16, some 2⟩, ⟨some 1, some 1⟩]], some (-5)⟩ := by
  decide
example : (Layout.canonicalize ⟨[[⟨none, none⟩, ⟨some 8, some 1⟩, ⟨some 4, some 2⟩, ⟨some 1, some 4⟩]], some 0⟩)
    = ⟨[[⟨none, none⟩, ⟨some 1, some 8⟩]], some 0⟩ := by decide +kernel
example : subviewPtr true 1 4096 [[⟨some 128, some 2⟩, ⟨some 8, some 8⟩], [⟨some 64, some 2⟩, ⟨some 1, some 8⟩]]
    [some 8, none] [0] = .ok (4096 + 128) := by decide +kernel

end SnaxVerif.C10
