import SnaxVerif.Props.C07
import SnaxVerif.Lemmas.AccfgLinksAnnot
import SnaxVerif.Lemmas.AccfgLinksFuel
import SnaxVerif.Lemmas.AccfgLinksOld
/-!
# C07, second half — "Threading of state through control flow links each setup to the setup that really precedes it
on every path", and "whatever the compiler assumes … is true", for the state-typed SSA values themselves.

`Props/C07.lean` proves soundness of the position-based analysis `knownB` on the IR with the state values erased.
Here the state values are IN the model (`Model/AccfgLinks.lean`): `weave` is `_weave_states_in_region`
(convert_linalg_to_accfg.py), `inferL` is `infer_state_of` (trace_acc_state.py) following the links of the traced IR
(owner table `tableOf`), with the `assume` dictionary that cuts the cycle through a loop-carried block argument.

IR well-formedness preconditions, decidable, evaluated by the driver on every converted program: `nodupPB` (a setup
names a field at most once — then Python's last-wins `dict.update` and the register writes agree with `upd`), `wfB`
(SSA: a value used by a setup is not redefined later in its block).

**Two variants of the pass.** `weave` models the pass WITH fixes/FC07a (existing loop-carried state block arguments are
re-linked like created ones: init operand := state in front of the loop, yield operand := state that ends the body,
accelerators already carried by a loop count as touched): all theorems hold for EVERY input program. `weaveOld` models
the pass before the fix (findings DC07a, DC07b): the statements hold only under the named clause
`NoPreThreadedLoops` (`plainPB p`: no `scf.for` of the input already carries a state value) — `…_statement` (full
statement about `weaveOld`), `…_partial`, `…_fails`. The driver uses the variant that matches the status of DC07a in
known_findings.d/C07.json.
-/
namespace SnaxVerif.C07
open SnaxVerif.Accfg SnaxVerif.AccfgLinks

/-- **Threading changes no operation, only links**: erasing the state values (and the empty, input-less setups the
pass inserts in front of loops / yields) of the woven program gives back the input program. All programs, any
nesting, any pre-existing (possibly stale) links. -/
theorem weave_erase (p : PBlock) : erase (weave p) = eraseP p :=
  weaveB_erase p noSig noSig 0 []

/-- … and the inserted empty setups are no-ops for the machine and for the analysis: the traced program as the real
pass emits it (empty setups kept, `eraseAll`) runs and analyses exactly like the input program. -/
theorem inserted_setups_are_noops (cfg : Cfg) (gh : Bool) (p : PBlock) (st : St) (G : Facts) :
    execB cfg gh (eraseAll (weave p)) st = execB cfg gh (eraseP p) st ∧
    knownB (eraseAll (weave p)) G = knownB (eraseP p) G := by
  rw [execB_eraseAll, knownB_eraseAll, weave_erase]
  exact ⟨rfl, rfl⟩

/-- **The key refinement.** For every program `p` (setups with arbitrary pre-existing links, launches, awaits, pure
ops, annotated and unannotated calls, `scf.if`, `scf.for`, any nesting, several accelerators), every accelerator `a`:
in the woven program `weave p`, with `G` the position-based facts (`knownB` of the erased program, starting from
`noFacts`) in front of each statement (`AgreeB` unfolds to exactly this, see `AgreeS`):

* the input state of every setup of `a` infers — by following the links with `inferL`, for every large enough fuel —
  to a dictionary denoting exactly `G a` (no input state ⇒ `G a` is empty: the pass never drops a usable state);
* the state of every launch of `a` that follows its setup in straight-line code infers to `G a`;
* every state value defined — setup result, inserted empty setup, `scf.if` result, loop-carried block argument,
  `scf.for` result — infers to the facts about `a` at its definition point (`upd`, `meet` of the branch ends,
  `headFacts` = what holds at the loop head on EVERY iteration, `meet` of loop entry and body end);
* the yielded / init operands are the states at the end of the branches / of the body / in front of the loop.

`Gives D A v r` = ∃ dictionary `s` without duplicate keys, `∃ N, ∀ m ≥ N, inferL D m A v = some s`, `s` denotes `r`. -/
theorem weave_links_agree (p : PBlock) (hnd : nodupPB p = true) (a : AccId) :
    AgreeB a (tableOf (weave p)) [] (weave p) noFacts :=
  weave_agree p hnd a

/-- The same in the form of the correspondence check (`real_inference_at_points` vs `annotB`): when every launch follows
its setup in straight-line code, the list — in pre-order over all setups and launches of the traced program, inserted
empty setups included — of what `inferL` answers for the statement's state operand, tabulated over the accelerator's
fields, IS the position-based annotation `annotB` of the traced program (for every large enough fuel). -/
theorem weave_annot_agree (fields : AccId → List Field) (p : PBlock) (hnd : nodupPB p = true)
    (hcur : allCurB (weave p) = true) :
    ∃ N, ∀ m, N ≤ m → annotTabB fields (tableOf (weave p)) m (weave p) =
      (annotB fields (eraseAll (weave p)) noFacts).map some :=
  annotTabB_agree fields (tableOf (weave p)) (weave p) noFacts (fun a => weave_agree p hnd a) hcur

/-- the same statement about the pass BEFORE fixes/FC07a: every program, also with pre-existing loop-carried state -/
def weave_links_agree_statement : Prop :=
  ∀ p : PBlock, nodupPB p = true → ∀ a : AccId, AgreeB a (tableOf (weaveOld p)) [] (weaveOld p) noFacts

/-- … holds when no loop of the input carries a state value yet (there the two variants of the pass coincide) -/
theorem weave_links_agree_partial (p : PBlock) (NoPreThreadedLoops : plainPB p = true) (hnd : nodupPB p = true)
    (a : AccId) : AgreeB a (tableOf (weaveOld p)) [] (weaveOld p) noFacts := by
  rw [weaveOld_eq p NoPreThreadedLoops]
  exact weave_agree p hnd a

/-- the fuel of `inferL` is immaterial: an answer obtained with some fuel stays the answer with more fuel (so any
answer the driver computes is the stable one the theorems speak about; running out of fuel is `none`, never a
wrong dictionary) -/
theorem inferL_fuel_irrelevant (D : StateId → Option LDef) {m m' : Nat} (h : m ≤ m')
    {A : List (StateId × LState)} {v : StateId} {s : LState} (hr : inferL D m A v = some s) :
    inferL D m' A v = some s :=
  inferL_mono_le D h hr

/-- … and `fuelOf` IS enough: on every traced program whose owner table passes the two decidable shape checks the
driver evaluates on every case (`rankedChk`: every link goes to a smaller state id except the yield operand of a
loop-carried block argument — the one cycle, which `assume` cuts; `closedChk`: every link target has an owner), the
inference of every state value terminates within `fuelOf` = (number of state values + 2)² steps of recursion depth.
Measure: (block arguments not yet assumed) × K + id. -/
theorem inferL_fuel_suffices (L : LBlock) (hr : rankedChk (ldefsB L) (ldefsB L).length = true)
    (hc : closedChk (ldefsB L) = true) (v : StateId) (hv : tableOf L v ≠ none) :
    ∃ s, inferL (tableOf L) (fuelOf L) [] v = some s :=
  fuelOf_enough L hr hc v hv

/-- **Whatever the compiler assumes holds.** For every program `p`, hardware configuration (every clobber behaviour
of unannotated calls), initial environment and register file, every branch outcome and every trip count: at every
setup and every straight-line launch of the woven program that the execution reaches (`HoldsB`: every iteration `k`
of every loop), every dictionary `inferL` answers — with any fuel — for the statement's input state is true in the
concrete register file: field `f ↦ x` in the dictionary ⇒ register `f` of the accelerator holds the current value
of `x`. -/
theorem assumed_state_holds (cfg : Cfg) (p : PBlock) (hwf : wfB (eraseP p) = true) (hnd : nodupPB p = true)
    (st : St) : HoldsB cfg (tableOf (weave p)) (weave p) st :=
  holdsB cfg (tableOf (weave p)) (weave p) noFacts st (fun a => weave_agree p hnd a)
    (by rw [weave_erase]; exact hwf) (by intro a f x h; simp [noFacts] at h) (by intro a f x h; simp [noFacts] at h)

/-- the statement about the pass before fixes/FC07a, and its provable part -/
def assumed_state_holds_statement : Prop :=
  ∀ (cfg : Cfg) (p : PBlock), wfB (eraseP p) = true → nodupPB p = true → ∀ st : St,
    HoldsB cfg (tableOf (weaveOld p)) (weaveOld p) st

theorem assumed_state_holds_partial (cfg : Cfg) (p : PBlock) (NoPreThreadedLoops : plainPB p = true)
    (hwf : wfB (eraseP p) = true) (hnd : nodupPB p = true) (st : St) :
    HoldsB cfg (tableOf (weaveOld p)) (weaveOld p) st := by
  rw [weaveOld_eq p NoPreThreadedLoops]
  exact assumed_state_holds cfg p hwf hnd st

/-- the links of ANY traced program that satisfy `AgreeB` pass the decidable validation `soundChkB` the driver runs on
the converted real IR of every case (whatever `inferL` answers at a setup / straight-line launch ⊆ `knownB` there) -/
theorem links_validation_complete (L : LBlock) (fuel : Nat)
    (h : ∀ a, AgreeB a (tableOf L) [] L noFacts) : soundChkB (tableOf L) fuel L noFacts = true :=
  agree_soundChkB (tableOf L) fuel L noFacts h

/-- **DC07a** witness: `s0 = setup; launch; r = for iter_args(st = s0) { s1 = setup from st; launch; call @g();
yield s1 }; setup from r`. The yield of the pre-existing loop-carried state is left as it is although the call
behind the setup invalidated it: after the loop the compiler assumes `{0 ↦ x0, 1 ↦ x1}` (state 3 = loop result),
where nothing may be assumed. -/
def staleYield : PBlock :=
  .cons (.setup 0 [(0, 0), (1, 1)] 100 none) <| .cons (.launch 0 [] 100) <|
  .cons (.forS 3 4 5 6 (.cons (.setup 0 [(0, 0), (1, 1)] 102 (some 101)) <| .cons (.launch 0 [] 102) <|
                        .cons (.call 1 true) .nil) [⟨0, 101, 100, 102, 103⟩]) <|
  .cons (.setup 0 [(0, 0)] 104 (some 103)) <| .cons (.launch 0 [] 104) .nil

example : ldefsB (weaveOld staleYield) =
    [(0, .setup none [(0, 0), (1, 1)]), (1, .forArg 0 2), (2, .setup (some 1) [(0, 0), (1, 1)]), (3, .forRes 0 2),
     (4, .setup (some 3) [(0, 0)])] := by decide
example : inferL (tableOf (weaveOld staleYield)) 10 [] 3 = some [(0, 0), (1, 1)] := by decide
/-- the repaired pass yields a fresh empty setup (state 3) instead: nothing is assumed behind the loop -/
example : ldefsB (weave staleYield) =
    [(0, .setup none [(0, 0), (1, 1)]), (1, .forArg 0 3), (2, .setup (some 1) [(0, 0), (1, 1)]), (3, .setup none []),
     (4, .forRes 0 3), (5, .setup (some 4) [(0, 0)])] := by decide
example : inferL (tableOf (weave staleYield)) 10 [] 4 = some [] := by decide
/-- … whereas nothing is known in front of the setup behind the loop (5th entry) -/
example : annotB (fun _ => [0, 1]) (eraseP staleYield) noFacts =
    [[], [(0, 0), (1, 1)], [], [(0, 0), (1, 1)], [], [(0, 0)]] := by decide

theorem weave_links_agree_fails : ¬ weave_links_agree_statement := by
  intro h
  have h1 := links_validation_complete (weaveOld staleYield) (fuelOf (weaveOld staleYield))
    (fun a => h staleYield (by decide) a)
  have h2 : soundChkB (tableOf (weaveOld staleYield)) (fuelOf (weaveOld staleYield)) (weaveOld staleYield) noFacts
      = false := by
    decide +kernel
  rw [h1] at h2
  exact Bool.noConfusion h2

/-- **The pass leaves valid IR** (operands and block arguments of every loop match), for every program. -/
theorem weave_wellformed (p : PBlock) : weaveBad p = false :=
  badB p noSig noSig 0 []

/-- before fixes/FC07a: only when no loop of the input carries state yet -/
theorem weave_wellformed_partial (p : PBlock) (NoPreThreadedLoops : plainPB p = true) : weaveOldBad p = false := by
  rw [weaveOldBad_eq p NoPreThreadedLoops]; exact weave_wellformed p

def weave_wellformed_statement : Prop := ∀ p : PBlock, weaveOldBad p = false

/-- **DC07b** witness: `s0 = setup; launch; call @g(); for iter_args(st = s0) { s1 = setup from st; launch; yield s1 }`:
the stale init operand `s0` stays and the current state (the inserted empty setup) is appended as a second operand
without a block argument. -/
def staleInit : PBlock :=
  .cons (.setup 0 [(0, 0), (1, 1)] 100 none) <| .cons (.launch 0 [] 100) <| .cons (.call 1 true) <|
  .cons (.forS 3 4 5 6 (.cons (.setup 0 [(0, 0), (1, 1)] 102 (some 101)) <| .cons (.launch 0 [] 102) .nil)
          [⟨0, 101, 100, 102, 103⟩]) .nil

example : weaveBad staleInit = false := by decide

theorem weave_wellformed_fails : ¬ weave_wellformed_statement := by
  intro h
  have := h staleInit
  revert this
  decide

/-- Non-vacuity: setup, launch, unannotated call, a loop whose body alternates two configurations and whose first
setup carries a STALE pre-existing link (to the state from before the call), a conditional with a setup in one
branch, a final setup with a stale link. Variables 0,1,2 = data; 3,4,5,6 = lb, ub, step, iv; 7 = condition. -/
def demoP : PBlock :=
  .cons (.setup 0 [(0, 0), (1, 1)] 100 none) <| .cons (.launch 0 [] 100) <|
  .cons (.call 1 true) <|
  .cons (.forS 3 4 5 6 (
      .cons (.setup 0 [(0, 0), (1, 1)] 101 (some 100)) <| .cons (.launch 0 [] 101) <|
      .cons (.setup 0 [(0, 2)] 102 (some 101)) <| .cons (.launch 0 [] 102) .nil) []) <|
  .cons (.ifS 7 (.cons (.setup 0 [(0, 0)] 103 none) <| .cons (.launch 0 [] 103) .nil) .nil) <|
  .cons (.setup 0 [(1, 1)] 104 (some 100)) <| .cons (.launch 0 [] 104) .nil

example : nodupPB demoP = true := by decide
example : plainPB demoP = true := by decide
example : allCurB (weave demoP) = true := by decide
example : rankedChk (ldefsB (weave demoP)) (ldefsB (weave demoP)).length = true ∧ closedChk (ldefsB (weave demoP)) = true := by
  decide
example : wfB (eraseP demoP) = true := by decide
/-- the links the pass creates: the stale link of the first loop setup is replaced by the block argument (id 2) whose
init is the empty setup (id 1) inserted after the call; loop result 5; the conditional yields (result 7, then 6,
else 5); the last setup is linked to 7. -/
example : ldefsB (weave demoP) =
    [(0, .setup none [(0, 0), (1, 1)]), (1, .setup none []), (2, .forArg 1 4), (3, .setup (some 2) [(0, 0), (1, 1)]),
     (4, .setup (some 3) [(0, 2)]), (5, .forRes 1 4), (6, .setup (some 5) [(0, 0)]), (7, .ifRes 6 5),
     (8, .setup (some 7) [(1, 1)])] := by decide
/-- what is assumed in front of every setup / launch (pre-order): nothing after the call and at the loop head (the
body alternates field 0 and the entry state is unknown); `B = x1` survives the loop body but not the zero-trip
path. -/
example : annotLB (tableOf (weave demoP)) (fuelOf (weave demoP)) (weave demoP) =
    [some [], some [(0, 0), (1, 1)], some [], some [], some [(0, 0), (1, 1)], some [(0, 0), (1, 1)],
     some [(0, 2), (1, 1)], some [], some [(0, 0)], some [], some [(1, 1)]] := by decide +kernel

end SnaxVerif.C07
