import SnaxVerif.Lemmas.Alloc
/-!
# C11 — Allocations are big enough and never overlap while live

Statements and theorems only; the model is `Model/Alloc.lean`, helper lemmas are in `Lemmas/Alloc.lean`.

* size of a buffer (`memref-to-snax`): `size_bound_partial` (clauses `Covers` for dimensions with a
  static outermost bound — that is property C09, defect D22 — and `TileDividesShape` for dimensions
  with a dynamic outermost bound, defect D32), `size_bound_fails`, `size_bound_nolayout`;
* static mode: `static_disjoint`;
* minimalloc / auto mode: `lifetime_covers` (code with fix F12), `view_lifetime_orig_fails` (pinned
  commit, defect D13), `minimalloc_safe` and `minimalloc_aligned_partial` under the hypothesis
  `SolverContract` on the external solver, `minimalloc_aligned_fails`, `contract_checker_sound`.
-/
namespace SnaxVerif.C11
open SnaxVerif.Alloc

/-! ## Size -/

/-- The property at full strength for tiled-strided layouts: whenever `memref-to-snax` computes a
size `sz` for a layout on a runtime shape `sh`, every element index inside `sh` occupies bytes
`[offset·el + addr, offset·el + addr + el)` below `sz`. FALSE of the code (D32, D22). -/
def size_bound_statement : Prop :=
  ∀ (l : Layout) (el : Nat) (sh : List Nat) (sz : Int), allocSize l el sh = .ok sz →
    ∃ bs, boundsAll l.dims sh = .ok bs ∧ ∀ idx, InShape idx sh →
      (l.offset : Int) * el + (byteAddr (stepsAll el l.dims bs) bs idx : Nat) + el ≤ sz

/-- Every touched byte lies below the allocated size: for every rank, tile depth, bounds, steps
(static, or dynamic and resolved by the contiguity rule), offset, element size, runtime shape and
index — provided the layout covers the shape (`LayoutCovers`: clause `Covers` on static dimensions,
clause `TileDividesShape` on dynamic ones). -/
theorem size_bound_partial (l : Layout) (el : Nat) (sh : List Nat) (sz : Int)
    (hsz : allocSize l el sh = .ok sz) (hcov : LayoutCovers l.dims sh) :
    ∃ bs, boundsAll l.dims sh = .ok bs ∧ ∀ idx, InShape idx sh →
      (l.offset : Int) * el + (byteAddr (stepsAll el l.dims bs) bs idx : Nat) + el ≤ sz := by
  unfold allocSize at hsz
  cases hb : boundsAll l.dims sh with
  | error e => simp [hb] at hsz
  | ok bs =>
    simp only [hb, Except.ok.injEq] at hsz
    refine ⟨bs, rfl, ?_⟩
    intro idx hidx
    have hbox := inBox_of_covers bs sh idx (boundsAll_covers l.dims sh bs hb hcov) hidx
    have := byteAddr_le_span (stepsAll el l.dims bs) bs idx hbox
    omega

/-- Without any clause: every index inside the box spanned by the RESOLVED bounds (the static bounds, and
`⌊extent / inner tile⌋` for a dynamic outermost bound) is covered by the size. This is the rule by which the
oracle attributes an under-allocation to D32: a violation at an index below `⌊extent / inner⌋ · inner` in
every dynamic dimension cannot be blamed on the floored bound. -/
theorem size_bound_resolved_box (l : Layout) (el : Nat) (sh : List Nat) (sz : Int)
    (hsz : allocSize l el sh = .ok sz) :
    ∃ bs, boundsAll l.dims sh = .ok bs ∧ ∀ idx, InBox bs idx →
      (l.offset : Int) * el + (byteAddr (stepsAll el l.dims bs) bs idx : Nat) + el ≤ sz := by
  unfold allocSize at hsz
  cases hb : boundsAll l.dims sh with
  | error e => simp [hb] at hsz
  | ok bs =>
    simp only [hb, Except.ok.injEq] at hsz
    refine ⟨bs, rfl, ?_⟩
    intro idx hbox
    have := byteAddr_le_span (stepsAll el l.dims bs) bs idx hbox
    omega

/-- D32: a dynamic extent that is not a multiple of the inner tile is under-allocated:
`memref<?xi8, #tsl.tsl<[?, 4] -> (4, 1)>>` with runtime extent 6 gets 4 bytes, element 5 lives at byte 5. -/
theorem size_bound_fails : ¬ size_bound_statement := by
  intro h
  obtain ⟨bs, hbs, hall⟩ := h ⟨[[⟨some 4, none⟩, ⟨some 1, some 4⟩]], 0⟩ 1 [6] 4 (by decide)
  have hb : bs = [[1, 4]] := by
    have : boundsAll [[⟨some 4, none⟩, ⟨some 1, some 4⟩]] [6] = .ok [[1, 4]] := by decide
    rw [this] at hbs
    exact (Except.ok.inj hbs).symm
  subst hb
  have := hall [5] (by simp [InShape])
  revert this
  decide

/-- Memrefs without layout: `el · Π shape` bytes hold every row-major element, for every rank and shape. -/
theorem size_bound_nolayout (el : Nat) (sh idx : List Nat) (h : InShape idx sh) :
    el * rowMajor sh idx + el ≤ noLayoutSize el sh := by
  have := rowMajor_lt sh idx h
  unfold noLayoutSize
  have h2 : el * (rowMajor sh idx + 1) ≤ el * prodL sh := Nat.mul_le_mul_left el this
  rw [Nat.mul_add, Nat.mul_one] at h2
  exact h2

/-! ## Static mode -/

/-- `snax-allocate{mode=static}`: for every table of memories and every sequence of requests that
the pass accepts, every buffer gets the memory, size and alignment it asked for, starts at a
multiple of its (non-zero) alignment, lies inside `[start, start + capacity]` of its memory, and
buffers of the same memory are pairwise disjoint (no address is ever reused). -/
theorem static_disjoint (mems : List Mem) (reqs : List Req) (out : List Placed)
    (h : staticAlloc mems reqs = .ok out) :
    out.map (fun p => (some p.mem, some p.size, p.align)) = reqs.map (fun r => (r.mem, r.size, r.align)) ∧
    (∀ p ∈ out, 0 < p.align ∧ p.addr % p.align = 0 ∧
      ∃ mem, mems[p.mem]? = some mem ∧ mem.start ≤ p.addr ∧ p.addr + p.size ≤ mem.start + mem.cap) ∧
    out.Pairwise (fun p q => p.mem = q.mem → p.addr + p.size ≤ q.addr) := by
  obtain ⟨h1, h2, h3⟩ := staticRun_spec mems reqs (initCur mems) out h
  refine ⟨h3, ?_, h2⟩
  intro p hp
  obtain ⟨hcur, hpos, hmod, mem, hmem, hcap⟩ := h1 p hp
  refine ⟨hpos, hmod, mem, hmem, ?_, hcap⟩
  simpa [initCur, hmem] using hcur

/-! ## Lifetimes (minimalloc / auto mode) -/

/-- The lifetime part of the property for a version `vm` of `MiniMallocate`: every operation (at any
nesting depth) that uses the buffer or any view or cast of it lies, hoisted to its top-level
operation, inside the recorded lifetime `[start, stop]` (the `memref.dealloc` is inserted after
`stop`, and `[start, stop)` is what the solver is told). -/
def lifetime_statement (vm : ViewMode) : Prop :=
  ∀ (p : Prog) (bs : List Buf), lifetimes vm p = .ok bs →
    ∀ b ∈ bs, b.start ≤ b.stop ∧
      ∀ v n t, Alias (flat p) b.res v → (n, t) ∈ flat p → v ∈ n.ops → t ≤ b.stop

/-- With fix F12 the lifetime covers every use through every chain of casts and views, for every
program (any number of buffers, any nesting, any order). -/
theorem lifetime_covers : lifetime_statement .fixed := by
  intro p bs h b hb
  obtain ⟨res, req, fu, S, _, hres, _, _, _, hS, hstop⟩ := lifetimes_spec .fixed p bs h b hb
  have hle := le_endTime (useTops S (flat p)) b.start
  rw [← hstop] at hle
  refine ⟨hle.1, ?_⟩
  intro v n t hal hmem hv
  rw [hres] at hal
  have hvS := aliasSet_fixed_covers res (flat p) S hS v hal
  exact hle.2 t (mem_useTops hmem (usesAny_of_mem hv hvS))

/-- The lifetimes are tight (fixed code): a buffer's lifetime ends at its allocation (it is never used) or
at an operation that really uses the buffer or a view or cast of it — nothing is kept alive longer than
the property requires, and the `memref.dealloc` directly follows the last real use. -/
theorem lifetime_exact (p : Prog) (bs : List Buf) (h : lifetimes .fixed p = .ok bs) :
    ∀ b ∈ bs, b.stop = b.start ∨ ∃ v n, Alias (flat p) b.res v ∧ (n, b.stop) ∈ flat p ∧ v ∈ n.ops := by
  intro b hb
  obtain ⟨res, req, fu, S, _, hres, _, _, _, hS, hstop⟩ := lifetimes_spec .fixed p bs h b hb
  rcases endTime_mem (useTops S (flat p)) b.start with he | he
  · left; rw [hstop, he]
  · right
    rw [← hstop] at he
    obtain ⟨n, hn, hu⟩ := useTops_witness he
    obtain ⟨w, hw, hwS⟩ := usesAny_witness hu
    simp only [aliasSet] at hS
    split at hS
    · simp only [Except.ok.injEq] at hS
      subst hS
      refine ⟨w, n, ?_, hn, hw⟩
      rw [hres]
      exact aliasScan_sound (flat p) res (flat p) [res] (by intro v hv; simp at hv; subst hv; exact Alias.base)
        (fun m hm => hm) w hwS
    · simp at hS

/-- D13: at the pinned commit a use through a subview of the cast is outside the lifetime
(`alloc A; cast; subview; alloc B; cast; use B; use subview`: A's lifetime ends at the subview). -/
theorem view_lifetime_orig_fails : ¬ lifetime_statement .orig := by
  intro h
  let p : Prog := [.op [⟨.other, [], [0]⟩] false, .op [⟨.other, [], [1]⟩] false,
    .alloc 2 ⟨some 0, some 20, 4⟩ (some (some 3)), .op [⟨.ucast, [2], [3]⟩] false,
    .op [⟨.view, [3], [4]⟩] false, .alloc 5 ⟨some 0, some 20, 4⟩ (some (some 6)),
    .op [⟨.ucast, [5], [6]⟩] false, .op [⟨.other, [6], []⟩] false, .op [⟨.other, [4], []⟩] false,
    .op [⟨.other, [], []⟩] true]
  have hl : lifetimes .orig p = .ok [⟨2, 2, 4, 20, 4, 0, 3⟩, ⟨5, 5, 7, 20, 4, 0, 6⟩] := by decide
  have := (h p _ hl ⟨2, 2, 4, 20, 4, 0, 3⟩ (by simp)).2 4 ⟨.other, [4], []⟩ 8
    (Alias.step (n := ⟨.view, [3], [4]⟩) (t := 4) (w := 3) (by decide) (by decide) (by decide)
      (Alias.step (n := ⟨.ucast, [2], [3]⟩) (t := 3) (w := 2) (by decide) (by decide) (by decide)
        Alias.base (by decide)) (by decide))
    (by decide) (by decide)
  revert this
  decide

/-! ### Buffers behind `arith.select` (double buffering) -/

/-- The lifetime statement with the full notion of "still used": also through the result of an
`arith.select` between buffers. FALSE of the code (finding C11-N2): `arith.select` is not in the list of
view-like operations that `MiniMallocate` follows. -/
def lifetime_statement_sel : Prop :=
  ∀ (p : Prog) (bs : List Buf), lifetimes .fixed p = .ok bs →
    ∀ b ∈ bs, ∀ v n t, AliasS (flat p) b.res v → (n, t) ∈ flat p → v ∈ n.ops → t ≤ b.stop

/-- … it holds for every program without a select between memrefs (clause `NoSelect`). -/
theorem lifetime_covers_sel_partial (p : Prog) (bs : List Buf) (h : lifetimes .fixed p = .ok bs)
    (NoSelect : ∀ n ∈ flat p, n.1.kind ≠ .sel) :
    ∀ b ∈ bs, ∀ v n t, AliasS (flat p) b.res v → (n, t) ∈ flat p → v ∈ n.ops → t ≤ b.stop := by
  intro b hb v n t hal hmem hv
  have hA : Alias (flat p) b.res v := by
    clear hmem hv
    induction hal with
    | base => exact Alias.base
    | step hm hf hw _ hvr ih =>
      rcases hf with hf | hf
      · exact Alias.step hm hf hw ih hvr
      · exact absurd hf (NoSelect _ hm)
  exact (lifetime_covers p bs h b hb).2 v n t hA hmem hv

/-- C11-N2: `A; B; s = select c, A, B; alloc D; use D; use s`: the lifetimes of A and B end at the select
(op 5), `s` is used at op 9 while D (allocated at op 6) may sit at A's address. -/
theorem select_lifetime_fails : ¬ lifetime_statement_sel := by
  intro h
  let p : Prog := [.op [⟨.other, [], [0]⟩] false,
    .alloc 1 ⟨some 0, some 16, 4⟩ (some (some 2)), .op [⟨.ucast, [1], [2]⟩] false,
    .alloc 3 ⟨some 0, some 16, 4⟩ (some (some 4)), .op [⟨.ucast, [3], [4]⟩] false,
    .op [⟨.sel, [0, 2, 4], [5]⟩] false,
    .alloc 6 ⟨some 0, some 16, 4⟩ (some (some 7)), .op [⟨.ucast, [6], [7]⟩] false,
    .op [⟨.other, [7], []⟩] false, .op [⟨.other, [5], []⟩] false, .op [⟨.other, [], []⟩] true]
  have hl : lifetimes .fixed p = .ok [⟨1, 1, 5, 16, 4, 0, 2⟩, ⟨3, 3, 5, 16, 4, 0, 4⟩, ⟨6, 6, 8, 16, 4, 0, 7⟩] := by decide
  have := h p _ hl ⟨1, 1, 5, 16, 4, 0, 2⟩ (by simp) 5 ⟨.other, [5], []⟩ 9
    (AliasS.step (n := ⟨.sel, [0, 2, 4], [5]⟩) (t := 5) (w := 2) (by decide) (Or.inr rfl) (by decide)
      (AliasS.step (n := ⟨.ucast, [1], [2]⟩) (t := 2) (w := 1) (by decide) (Or.inl (by decide)) (by decide)
        AliasS.base (by decide)) (by decide))
    (by decide) (by decide)
  revert this
  decide

/-! ## Placement through the external solver -/

/-- `minimalloc` / `auto` mode with fix F12, for every program, memory table and solver answer that
satisfies `SolverContract`: every buffer is placed with its own size inside the window
`[start, start + capacity]` of its memory, and whenever a buffer `A` — or any view or cast of it —
is still used at or after the allocation of a later buffer `B` of the same memory (and `B` is used
at all), the two address ranges are disjoint. -/
theorem minimalloc_safe_of_solverSafe (mems : List Mem) (sol : Nat → List Nat) (p : Prog) (r : MiniResult)
    (h : miniMallocate .fixed mems sol p = .ok r)
    (hc : ∀ m mem, mems[m]? = some mem → SolverSafe (subset r.bufs m) mem.cap (sol m)) :
    r.placed.map (·.1) = r.bufs ∧
    (∀ x ∈ r.placed, x.2.size = x.1.size ∧ ∃ mem, mems[x.1.mem]? = some mem ∧
      mem.start ≤ x.2.addr ∧ x.2.addr + x.2.size ≤ mem.start + mem.cap) ∧
    (∀ x ∈ r.placed, ∀ y ∈ r.placed, x.1.mem = y.1.mem → x.1.start < y.1.start →
      UsedAtOrAfter p x.1.res y.1.start → UsedAtOrAfter p y.1.res y.1.start →
      x.2.addr + x.2.size ≤ y.2.addr ∨ y.2.addr + y.2.size ≤ x.2.addr) := by
  unfold miniMallocate at h
  split at h
  · simp at h
  · rename_i bs hbs
    split at h
    · simp at h
    · split at h
      · simp at h
      · rename_i pl hpl
        simp only [Except.ok.injEq] at h
        subst h
        simp only at hc ⊢
        obtain ⟨hmap, hone⟩ := placeAll_spec mems sol bs bs pl hpl
        refine ⟨hmap, ?_, ?_⟩
        · intro x hx
          obtain ⟨mem, off, hmem, hz, hP⟩ := placeOne_spec mems sol bs x.1 x.2 (hone x hx)
          obtain ⟨_, heach, _⟩ := hc x.1.mem mem hmem
          have := heach _ hz
          rw [hP]
          simp only at this
          exact ⟨rfl, mem, hmem, by simp only; omega, by simp only; omega⟩
        · intro x hx y hy hm hlt hux huy
          have hxb : x.1 ∈ bs := by rw [← hmap]; exact List.mem_map_of_mem hx
          have hyb : y.1 ∈ bs := by rw [← hmap]; exact List.mem_map_of_mem hy
          obtain ⟨memx, offx, hmemx, hzx, hPx⟩ := placeOne_spec mems sol bs x.1 x.2 (hone x hx)
          obtain ⟨memy, offy, hmemy, hzy, hPy⟩ := placeOne_spec mems sol bs y.1 y.2 (hone y hy)
          rw [hm] at hmemx hzx
          have hmm : memx = memy := by rw [hmemx] at hmemy; exact Option.some.inj hmemy
          subst hmm
          obtain ⟨_, _, hpair⟩ := hc y.1.mem memx hmemx
          have hne : x.1 ≠ y.1 := by intro he; rw [he] at hlt; omega
          -- the later buffer's start is a `snax.alloc`, every use sits in another kind of operation
          obtain ⟨_, _, _, _, hyalloc, _⟩ := lifetimes_spec .fixed p bs hbs y.1 hyb
          have hcovx := lifetime_covers p bs hbs x.1 hxb
          have hcovy := lifetime_covers p bs hbs y.1 hyb
          obtain ⟨v, n, u, hal, hmem, hv, hge⟩ := hux
          obtain ⟨v', n', u', hal', hmem', hv', hge'⟩ := huy
          have hu := hcovx.2 v n u hal hmem hv
          have hu' := hcovy.2 v' n' u' hal' hmem' hv'
          have hune : u ≠ y.1.start := by
            intro he
            obtain ⟨j, nodes, t, h1, h2, _⟩ := flatFrom_spec p 0 n u hmem
            simp only [Nat.zero_add] at h1
            rw [← h1, he, hyalloc] at h2
            simp at h2
          have hune' : u' ≠ y.1.start := by
            intro he
            obtain ⟨j, nodes, t, h1, h2, _⟩ := flatFrom_spec p 0 n' u' hmem'
            simp only [Nat.zero_add] at h1
            rw [← h1, he, hyalloc] at h2
            simp at h2
          have := hpair _ hzx _ hzy hne (by simp only; omega)
          rw [hPx, hPy]
          simp only at this ⊢
          omega

/-- The same under the full `SolverContract` (the form in which the external solver is assumed). -/
theorem minimalloc_safe (mems : List Mem) (sol : Nat → List Nat) (p : Prog) (r : MiniResult)
    (h : miniMallocate .fixed mems sol p = .ok r)
    (hc : ∀ m mem, mems[m]? = some mem → SolverContract (subset r.bufs m) mem.cap (sol m)) :
    r.placed.map (·.1) = r.bufs ∧
    (∀ x ∈ r.placed, x.2.size = x.1.size ∧ ∃ mem, mems[x.1.mem]? = some mem ∧
      mem.start ≤ x.2.addr ∧ x.2.addr + x.2.size ≤ mem.start + mem.cap) ∧
    (∀ x ∈ r.placed, ∀ y ∈ r.placed, x.1.mem = y.1.mem → x.1.start < y.1.start →
      UsedAtOrAfter p x.1.res y.1.start → UsedAtOrAfter p y.1.res y.1.start →
      x.2.addr + x.2.size ≤ y.2.addr ∨ y.2.addr + y.2.size ≤ x.2.addr) :=
  minimalloc_safe_of_solverSafe mems sol p r h (fun m mem hm => solverSafe_of_contract (hc m mem hm))

/-! ## A solver that is proved: first fit -/

/-- The first-fit solver (the stand-in for the absent `minimalloc` package that the pass runs with in
this environment, `harness/compat.py`; model `firstFit`, compared with the stub on every solver call of
every run) satisfies the solver contract on every problem it answers: every list of buffers, lifespans,
sizes, non-zero alignments and capacity. So `SolverContract` is satisfiable and, for this solver, proved. -/
theorem firstfit_contract (bufs : List Buf) (cap : Nat) (offs : List Nat)
    (h : firstFit bufs cap = .ok offs) (hal : ∀ b ∈ bufs, 0 < b.align) :
    SolverContract bufs cap offs := by
  obtain ⟨⟨hlen, hcap, hpair⟩, halign⟩ := firstFit_spec bufs cap offs h
  refine ⟨hlen, ?_, hpair⟩
  intro p hp
  exact ⟨halign p hp (hal p.1 (List.of_mem_zip hp).1), hcap p hp⟩

/-- The whole pass with the first-fit solver plugged in, no hypothesis about a solver left: for every
program and memory table on which it succeeds, every buffer keeps its size inside the window of its
memory, and buffers that are live at the same time (through any views or casts, at any nesting depth)
get disjoint address ranges. -/
theorem minimalloc_firstfit_safe (mems : List Mem) (p : Prog) (r : MiniResult)
    (h : miniMallocateFF .fixed mems p = .ok r) :
    r.placed.map (·.1) = r.bufs ∧
    (∀ x ∈ r.placed, x.2.size = x.1.size ∧ ∃ mem, mems[x.1.mem]? = some mem ∧
      mem.start ≤ x.2.addr ∧ x.2.addr + x.2.size ≤ mem.start + mem.cap) ∧
    (∀ x ∈ r.placed, ∀ y ∈ r.placed, x.1.mem = y.1.mem → x.1.start < y.1.start →
      UsedAtOrAfter p x.1.res y.1.start → UsedAtOrAfter p y.1.res y.1.start →
      x.2.addr + x.2.size ≤ y.2.addr ∨ y.2.addr + y.2.size ≤ x.2.addr) := by
  unfold miniMallocateFF at h
  split at h
  · simp at h
  · rename_i bs hbs
    split at h
    · simp at h
    · split at h
      · simp at h
      · rename_i hff
        have hb := miniMallocate_bufs _ _ _ _ _ h
        rw [hbs] at hb
        have hbs' : bs = r.bufs := Except.ok.inj hb
        apply minimalloc_safe_of_solverSafe mems (ffSol mems bs) p r h
        intro m mem hm
        have hlt : m < mems.length := by
          rcases Nat.lt_or_ge m mems.length with hlt | hge
          · exact hlt
          · rw [List.getElem?_eq_none hge] at hm; simp at hm
        obtain ⟨offs, hoffs⟩ := ffErrors_ok mems bs mems.length (by cases ‹Unit›; exact hff) m hlt mem hm
        have hsol : ffSol mems bs m = offs := by simp [ffSol, hm, hoffs]
        rw [hsol, ← hbs']
        exact (firstFit_spec _ _ _ hoffs).1

/-- The `while True` search of the first-fit solver terminates: the fuel of the model
(`#placed + 1` rounds) is never used up, so the solver either answers or reports that the capacity is
exceeded — for every problem. -/
theorem firstfit_total (bufs : List Buf) (cap : Nat) :
    (∃ offs, firstFit bufs cap = .ok offs) ∨ firstFit bufs cap = .error .solverFull := by
  unfold firstFit
  cases h : firstFitAux cap bufs [] with
  | ok offs => exact Or.inl ⟨offs, rfl⟩
  | error e =>
    right
    rcases firstFitAux_err cap bufs [] e h with he | he
    · rw [he]
    · exact absurd (he ▸ h) (firstFitAux_fuel cap bufs [])

/-! ## The alias scan of the model never gives up on a program in SSA order -/

/-- `lifetimes` (fixed code) never answers `notClosed` on a program whose operations are in SSA order
(`WellOrd`: no operation uses a result of itself or of a later operation): the single forward pass of
the model computes the complete closure under casts and views, like the recursive walk of the code. -/
theorem lifetimes_closed (p : Prog) (h : WellOrd (flat p)) : lifetimes .fixed p ≠ .error .notClosed := by
  unfold lifetimes
  have h1 := buffersFrom_not_notClosed (flat p) h p 0
  cases hb : buffersFrom .fixed (flat p) p 0 with
  | error e => simp only; intro he; apply h1; rw [hb]; exact he
  | ok bs => simp only; exact attachCasts_not_notClosed bs (firstUses p)

/-- Alignment in minimalloc / auto mode at full strength: every placed address is a multiple of the
buffer's alignment. FALSE of the code: the solver aligns the offset, the pass adds `memory.start`. -/
def minimalloc_aligned_statement : Prop :=
  ∀ (mems : List Mem) (sol : Nat → List Nat) (p : Prog) (r : MiniResult),
    miniMallocate .fixed mems sol p = .ok r →
    (∀ m mem, mems[m]? = some mem → SolverContract (subset r.bufs m) mem.cap (sol m)) →
    ∀ x ∈ r.placed, x.2.addr % x.1.align = 0

/-- Placed addresses are aligned when the start address of the memory is a multiple of the
buffer's alignment (clause `StartAligned`). -/
theorem minimalloc_aligned_partial (mems : List Mem) (sol : Nat → List Nat) (p : Prog) (r : MiniResult)
    (h : miniMallocate .fixed mems sol p = .ok r)
    (hc : ∀ m mem, mems[m]? = some mem → SolverContract (subset r.bufs m) mem.cap (sol m))
    (StartAligned : ∀ b ∈ r.bufs, ∀ mem, mems[b.mem]? = some mem → mem.start % b.align = 0) :
    ∀ x ∈ r.placed, x.2.addr % x.1.align = 0 := by
  unfold miniMallocate at h
  split at h
  · simp at h
  · rename_i bs hbs
    split at h
    · simp at h
    · split at h
      · simp at h
      · rename_i pl hpl
        simp only [Except.ok.injEq] at h
        subst h
        simp only at hc StartAligned ⊢
        obtain ⟨hmap, hone⟩ := placeAll_spec mems sol bs bs pl hpl
        intro x hx
        have hxb : x.1 ∈ bs := by rw [← hmap]; exact List.mem_map_of_mem hx
        obtain ⟨mem, off, hmem, hz, hP⟩ := placeOne_spec mems sol bs x.1 x.2 (hone x hx)
        obtain ⟨_, heach, _⟩ := hc x.1.mem mem hmem
        have h1 := (heach _ hz).1
        have h2 := StartAligned x.1 hxb mem hmem
        rw [hP]
        simp only at h1 ⊢
        exact Nat.mod_eq_zero_of_dvd
          ((Nat.dvd_add_iff_right (Nat.dvd_of_mod_eq_zero h1)).1 (Nat.dvd_of_mod_eq_zero h2))

/-- Counterexample to the dropped clause: memory starting at 4, one buffer of alignment 8; the solver
answers offset 0 (contract satisfied), the pass emits address 4. -/
theorem minimalloc_aligned_fails : ¬ minimalloc_aligned_statement := by
  intro h
  have := h [⟨4, 100⟩] (fun _ => [0])
    [.alloc 0 ⟨some 0, some 8, 8⟩ (some (some 1)), .op [⟨.ucast, [0], [1]⟩] false,
      .op [⟨.other, [1], []⟩] false, .op [⟨.other, [], []⟩] true]
    ⟨[⟨0, 0, 2, 8, 8, 0, 1⟩], [(1, 2)], [(⟨0, 0, 2, 8, 8, 0, 1⟩, ⟨0, 4, 8, 8⟩)]⟩ (by decide)
    (by
      intro m mem hm
      apply contractOk_sound
      cases m with
      | zero => simp at hm; subst hm; decide
      | succ k => simp at hm)
    (⟨0, 0, 2, 8, 8, 0, 1⟩, ⟨0, 4, 8, 8⟩) (by simp)
  revert this
  decide

/-- The executable SSA-order check that the harness evaluates on every generated program implies the
hypothesis `WellOrd` of `lifetimes_closed`. -/
theorem wellord_checker_sound (l : List (Node × Nat)) (h : wellOrdB l = true) : WellOrd l :=
  wellOrdB_sound l h

/-- With the proposed fix FC11a (`MiniMallocate` refuses a memory whose start address is not a multiple of
the alignment of one of its buffers; model `miniMallocateChecked`) the clause `StartAligned` is established
by the code: every placed address is a multiple of the buffer's (non-zero) alignment. -/
theorem minimalloc_aligned_checked (mems : List Mem) (sol : Nat → List Nat) (p : Prog) (r : MiniResult)
    (h : miniMallocateChecked .fixed mems sol p = .ok r)
    (hc : ∀ m mem, mems[m]? = some mem → SolverContract (subset r.bufs m) mem.cap (sol m)) :
    ∀ x ∈ r.placed, 0 < x.1.align → x.2.addr % x.1.align = 0 := by
  unfold miniMallocateChecked at h
  split at h
  · simp at h
  · rename_i r0 hr0
    split at h
    · rename_i hsa
      simp only [Except.ok.injEq] at h
      subst h
      intro x hx hal
      obtain ⟨hxb, mem, off, hmem, hz, haddr⟩ := placed_addr_form _ _ _ _ _ hr0 x hx
      obtain ⟨_, heach, _⟩ := hc x.1.mem mem hmem
      have h1 := (heach _ hz).1
      unfold startAligned at hsa
      rw [List.all_eq_true] at hsa
      have h2 := hsa x.1 hxb
      simp only [hmem, Bool.or_eq_true, beq_iff_eq] at h2
      have h2' : mem.start % x.1.align = 0 := by
        rcases h2 with h2 | h2
        · omega
        · exact h2
      rw [haddr]
      simp only at h1
      exact Nat.mod_eq_zero_of_dvd
        ((Nat.dvd_add_iff_right (Nat.dvd_of_mod_eq_zero h1)).1 (Nat.dvd_of_mod_eq_zero h2'))
    · simp at h

/-- The executable contract check that the harness runs on every captured solver answer implies
the `SolverContract` hypothesis of the theorems above. -/
theorem contract_checker_sound (bufs : List Buf) (cap : Nat) (offs : List Nat)
    (h : contractOk bufs cap offs = true) : SolverContract bufs cap offs :=
  contractOk_sound bufs cap offs h

/-! ## End to end: `memref-to-snax` sizes + `snax-allocate` placement ⇒ the bytes that are touched never collide -/

/-- Static mode, composed with the size computation: take any two buffers `i < j` of the same memory in a
successful static allocation whose sizes are the ones `memref-to-snax` computes for their layouts (any ranks,
tilings, offsets, element sizes; clause `LayoutCovers` as in `size_bound_partial`). Then the last byte that any
element of buffer `i` occupies lies below the first byte of every element of buffer `j`: no byte is ever
touched through two buffers — for every pair of element indices. -/
theorem static_touched_bytes_disjoint (mems : List Mem) (reqs : List Req) (out : List Placed)
    (h : staticAlloc mems reqs = .ok out)
    (i j : Nat) (hi : i < out.length) (hj : j < out.length) (hij : i < j) (hm : out[i].mem = out[j].mem)
    (l₁ : Layout) (el₁ : Nat) (sh₁ : List Nat) (hs₁ : allocSize l₁ el₁ sh₁ = .ok (out[i].size : Int))
    (hc₁ : LayoutCovers l₁.dims sh₁)
    (l₂ : Layout) (el₂ : Nat) (sh₂ : List Nat) (hs₂ : allocSize l₂ el₂ sh₂ = .ok (out[j].size : Int))
    (hc₂ : LayoutCovers l₂.dims sh₂) :
    ∃ bs₁ bs₂, boundsAll l₁.dims sh₁ = .ok bs₁ ∧ boundsAll l₂.dims sh₂ = .ok bs₂ ∧
      ∀ idx₁ idx₂, InShape idx₁ sh₁ → InShape idx₂ sh₂ →
        out[i].addr + (l₁.offset * el₁ + byteAddr (stepsAll el₁ l₁.dims bs₁) bs₁ idx₁ + el₁) ≤
          out[j].addr + (l₂.offset * el₂ + byteAddr (stepsAll el₂ l₂.dims bs₂) bs₂ idx₂) := by
  obtain ⟨_, _, hpw⟩ := static_disjoint mems reqs out h
  have hd := (List.pairwise_iff_getElem.1 hpw) i j hi hj hij hm
  obtain ⟨bs₁, hb₁, hall₁⟩ := size_bound_partial l₁ el₁ sh₁ _ hs₁ hc₁
  obtain ⟨bs₂, hb₂, _⟩ := size_bound_partial l₂ el₂ sh₂ _ hs₂ hc₂
  refine ⟨bs₁, bs₂, hb₁, hb₂, ?_⟩
  intro idx₁ idx₂ h₁ _
  have := hall₁ idx₁ h₁
  omega

/-- Every byte touched through a statically placed buffer lies inside the window of its memory. -/
theorem static_touched_bytes_in_window (mems : List Mem) (reqs : List Req) (out : List Placed)
    (h : staticAlloc mems reqs = .ok out) (p : Placed) (hp : p ∈ out)
    (l : Layout) (el : Nat) (sh : List Nat) (hs : allocSize l el sh = .ok (p.size : Int))
    (hc : LayoutCovers l.dims sh) :
    ∃ bs mem, boundsAll l.dims sh = .ok bs ∧ mems[p.mem]? = some mem ∧
      ∀ idx, InShape idx sh → mem.start ≤ p.addr ∧
        p.addr + (l.offset * el + byteAddr (stepsAll el l.dims bs) bs idx + el) ≤ mem.start + mem.cap := by
  obtain ⟨_, hin, _⟩ := static_disjoint mems reqs out h
  obtain ⟨_, _, mem, hmem, hlo, hhi⟩ := hin p hp
  obtain ⟨bs, hb, hall⟩ := size_bound_partial l el sh _ hs hc
  refine ⟨bs, mem, hb, hmem, ?_⟩
  intro idx hidx
  have := hall idx hidx
  exact ⟨hlo, by omega⟩

/-- Minimalloc / auto mode with the first-fit solver, composed with the size computation: two buffers of
the same memory that are live at the same time (the earlier one, or a view or cast of it, is still used at or
after the allocation of the later one, at any nesting depth), with sizes as `memref-to-snax` computes them
for their layouts, never have a touched byte in common; no hypothesis about a solver. -/
theorem minimalloc_touched_bytes_disjoint (mems : List Mem) (p : Prog) (r : MiniResult)
    (h : miniMallocateFF .fixed mems p = .ok r)
    (x y : Buf × Placed) (hx : x ∈ r.placed) (hy : y ∈ r.placed) (hm : x.1.mem = y.1.mem)
    (hlt : x.1.start < y.1.start)
    (hux : UsedAtOrAfter p x.1.res y.1.start) (huy : UsedAtOrAfter p y.1.res y.1.start)
    (l₁ : Layout) (el₁ : Nat) (sh₁ : List Nat) (hs₁ : allocSize l₁ el₁ sh₁ = .ok (x.1.size : Int))
    (hc₁ : LayoutCovers l₁.dims sh₁)
    (l₂ : Layout) (el₂ : Nat) (sh₂ : List Nat) (hs₂ : allocSize l₂ el₂ sh₂ = .ok (y.1.size : Int))
    (hc₂ : LayoutCovers l₂.dims sh₂) :
    ∃ bs₁ bs₂, boundsAll l₁.dims sh₁ = .ok bs₁ ∧ boundsAll l₂.dims sh₂ = .ok bs₂ ∧
      ∀ idx₁ idx₂, InShape idx₁ sh₁ → InShape idx₂ sh₂ →
        x.2.addr + (l₁.offset * el₁ + byteAddr (stepsAll el₁ l₁.dims bs₁) bs₁ idx₁ + el₁) ≤
            y.2.addr + (l₂.offset * el₂ + byteAddr (stepsAll el₂ l₂.dims bs₂) bs₂ idx₂) ∨
        y.2.addr + (l₂.offset * el₂ + byteAddr (stepsAll el₂ l₂.dims bs₂) bs₂ idx₂ + el₂) ≤
            x.2.addr + (l₁.offset * el₁ + byteAddr (stepsAll el₁ l₁.dims bs₁) bs₁ idx₁) := by
  obtain ⟨_, hwin, hdis⟩ := minimalloc_firstfit_safe mems p r h
  have hd := hdis x hx y hy hm hlt hux huy
  have hsx := (hwin x hx).1
  have hsy := (hwin y hy).1
  obtain ⟨bs₁, hb₁, hall₁⟩ := size_bound_partial l₁ el₁ sh₁ _ hs₁ hc₁
  obtain ⟨bs₂, hb₂, hall₂⟩ := size_bound_partial l₂ el₂ sh₂ _ hs₂ hc₂
  refine ⟨bs₁, bs₂, hb₁, hb₂, ?_⟩
  intro idx₁ idx₂ h₁ h₂
  have := hall₁ idx₁ h₁
  have := hall₂ idx₂ h₂
  omega

/-! ## Non-vacuity: concrete inputs meet the hypotheses -/

/-- `size_bound_partial`: the upstream layout `[2,4]->(16,4), [?,4]->(?,32)` on `8x12xi32` -/
example : ∃ sz, allocSize ⟨[[⟨some 16, some 2⟩, ⟨some 4, some 4⟩], [⟨none, none⟩, ⟨some 32, some 4⟩]], 0⟩ 4 [8, 12] = .ok sz ∧
    LayoutCovers [[⟨some 16, some 2⟩, ⟨some 4, some 4⟩], [⟨none, none⟩, ⟨some 32, some 4⟩]] [8, 12] ∧ sz = 1524 := by
  refine ⟨1524, by decide, ?_, rfl⟩
  exact ⟨⟨[4], by decide, by decide⟩, ⟨[4], by decide, by decide, ⟨3, by decide⟩⟩, trivial⟩

/-- `size_bound_nolayout` -/
example : InShape [3, 4] [5, 6] := by simp [InShape]

/-- `static_disjoint`: the upstream static test (13 bytes, alignments 10, 10, 14 in memory `Test`) -/
example : staticAlloc [⟨0, 100⟩] [⟨some 0, some 13, 10⟩, ⟨some 0, some 13, 10⟩, ⟨some 0, some 13, 14⟩] =
    .ok [⟨0, 0, 13, 10⟩, ⟨0, 20, 13, 10⟩, ⟨0, 42, 13, 14⟩] := by decide

/-- `lifetime_covers` / `minimalloc_safe`: the D13 program under the fixed code: lifetimes `[2,8]`
and `[5,7]`, the contract forces disjoint ranges, both buffers are used after the second alloc -/
example :
    let p : Prog := [.op [⟨.other, [], [0]⟩] false, .op [⟨.other, [], [1]⟩] false,
      .alloc 2 ⟨some 0, some 20, 4⟩ (some (some 3)), .op [⟨.ucast, [2], [3]⟩] false,
      .op [⟨.view, [3], [4]⟩] false, .alloc 5 ⟨some 0, some 20, 4⟩ (some (some 6)),
      .op [⟨.ucast, [5], [6]⟩] false, .op [⟨.other, [6], []⟩] false, .op [⟨.other, [4], []⟩] false,
      .op [⟨.other, [], []⟩] true]
    (miniMallocate .fixed [⟨0, 100⟩] (fun _ => [0, 20]) p).toOption.map (·.bufs) =
      some [⟨2, 2, 8, 20, 4, 0, 3⟩, ⟨5, 5, 7, 20, 4, 0, 6⟩] ∧
    contractOk [⟨2, 2, 8, 20, 4, 0, 3⟩, ⟨5, 5, 7, 20, 4, 0, 6⟩] 100 [0, 20] = true ∧
    contractOk [⟨2, 2, 8, 20, 4, 0, 3⟩, ⟨5, 5, 7, 20, 4, 0, 6⟩] 100 [0, 0] = false := by
  decide

/-- `firstfit_contract`, `minimalloc_firstfit_safe`, `lifetimes_closed`: the D13 program with the first-fit
solver: lifetimes `[2,8]`, `[5,7]` overlap, the solver answers offsets 0 and 20, the program is in SSA order -/
example :
    let p : Prog := [.op [⟨.other, [], [0]⟩] false, .op [⟨.other, [], [1]⟩] false,
      .alloc 2 ⟨some 0, some 20, 4⟩ (some (some 3)), .op [⟨.ucast, [2], [3]⟩] false,
      .op [⟨.view, [3], [4]⟩] false, .alloc 5 ⟨some 0, some 20, 4⟩ (some (some 6)),
      .op [⟨.ucast, [5], [6]⟩] false, .op [⟨.other, [6], []⟩] false, .op [⟨.other, [4], []⟩] false,
      .op [⟨.other, [], []⟩] true]
    firstFit [⟨2, 2, 8, 20, 4, 0, 3⟩, ⟨5, 5, 7, 20, 4, 0, 6⟩] 100 = .ok [0, 20] ∧
    (miniMallocateFF .fixed [⟨0, 100⟩] p).toOption.map (fun r => r.placed.map (·.2.addr)) = some [0, 20] ∧
    WellOrd (flat p) := by
  refine ⟨by decide, by decide, ?_⟩
  simp [WellOrd, flat, flatFrom]

/-- first fit reuses an address as soon as the half-open lifespans are disjoint (upstream minimalloc test) -/
example : firstFit [⟨0, 2, 6, 13, 10, 0, 0⟩, ⟨1, 4, 7, 13, 10, 0, 0⟩, ⟨2, 8, 10, 13, 14, 0, 0⟩] 100 = .ok [0, 20, 0] := by
  decide

/-- `minimalloc_aligned_checked`: FC11a refuses memory start 4 for alignment 8 and accepts start 8 -/
example :
    let p : Prog := [.alloc 0 ⟨some 0, some 8, 8⟩ (some (some 1)), .op [⟨.ucast, [0], [1]⟩] false,
      .op [⟨.other, [1], []⟩] false, .op [⟨.other, [], []⟩] true]
    miniMallocateChecked .fixed [⟨4, 100⟩] (fun _ => [0]) p = .error .misalignedStart ∧
    (miniMallocateChecked .fixed [⟨8, 100⟩] (fun _ => [0]) p).toOption.map (fun r => r.placed.map (·.2.addr)) = some [8] := by
  decide

end SnaxVerif.C11
