import SnaxVerif.Drv.Basic
import SnaxVerif.Model.Pipeline
namespace SnaxVerif.Drv.C15
open Lean SnaxVerif SnaxVerif.Drv SnaxVerif.Pipeline

def opndOfJson (j : Json) : Except String Opnd := do
  match (← arr j).toList with
  | [t, n] =>
    match ← str t with
    | "t" => return .tile (← nat n)
    | "b" => return .alloc (← nat n)
    | "x" => return .ext (← nat n)
    | k => throw s!"bad operand kind {k}"
  | _ => throw "bad operand"

def tokOfJson (j : Json) : Except String Tok := do
  match (← arr j).toList with
  | [t] =>
    match ← str t with
    | "idx" => return .idx
    | "sync" => return .sync
    | k => throw s!"bad token {k}"
  | [t, tag, ins, outs] =>
    if (← str t) != "op" then throw "bad token"
    return .op ⟨← nat tag, ← listOf opndOfJson ins, ← listOf opndOfJson outs⟩
  | _ => throw "bad token"

def pairOfJson (j : Json) : Except String (Nat × Nat × Bool) := do
  match (← arr j).toList with
  | [a, b] => return (← nat a, ← nat b, false)
  | [a, b, c] => return (← nat a, ← nat b, ← bool c)
  | _ => throw "bad tile"

def jExpr : IExpr → Json
  | .const c => Json.arr #[Json.str "c", jNat c]
  | .ivMinus c => Json.arr #[Json.str "iv", jNat c]
  | .ubMinus c => Json.arr #[Json.str "ub", jNat c]

def jOpnd (tiles : List (Nat × Nat × Bool)) (e : IExpr) : Opnd → Json
  | .tile j => Json.arr #[Json.str "tile", jNat (tileArr tiles j), jNat (tileOff tiles j), Json.bool (tileInv tiles j), jExpr e]
  | .alloc b => Json.arr #[Json.str "alloc", jNat b]
  | .ext b => Json.arr #[Json.str "ext", jNat b]
  | .dup b => Json.arr #[Json.str "dup", jNat b, jExpr e]

def jSlot (tiles : List (Nat × Nat × Bool)) (st : List (List SOp)) (s : List (Nat × IExpr)) : Json :=
  Json.arr (s.flatMap fun (k, e) => (st.getD k []).map fun o =>
    Json.arr #[jNat o.tag, jList (jOpnd tiles e) o.ins, jList (jOpnd tiles e) o.outs]).toArray

def jTok : Tok → Json
  | .idx => Json.str "idx"
  | .sync => Json.str "sync"
  | .op o => jNat o.tag

def errJson : Err → Json
  | .assertion => Json.mkObj [("raised", Json.str "AssertionError")]
  | .dupOperand => Json.mkObj [("raised", Json.str "*")]
  | .multipleUses | .nonSubsequent | .notAlloc => Json.mkObj [("raised", Json.str "NotImplementedError")]

/-- args: {"lb","ub","step": int|null, "nested": bool, "body": [tok], "tiles": [[arr, off]]}
 -> {"raised": cls} | {"declined": true} | {"pipelined": {...}} -/
def loopOfJson (j : Json) : Except String (Pipeline.Loop × List (Nat × Nat × Bool)) := do
  let lb ← optOf int (← field j "lb")
  let ub ← optOf int (← field j "ub")
  let st ← optOf int (← field j "step")
  let nested ← bool (← field j "nested")
  let body ← listOf tokOfJson (← field j "body")
  let tiles ← listOf pairOfJson (← field j "tiles")
  return (⟨lb, ub, st, nested, body⟩, tiles)

def outcomeJson (l : Pipeline.Loop) (tiles : List (Nat × Nat × Bool)) : Outcome → Json
  | .declined => Json.mkObj [("declined", Json.bool true)]
  | .pipelined st trailing u =>
    let p : Prog := ⟨tiles, st⟩
    Json.mkObj [("pipelined", Json.mkObj [
      ("prologue", jList (jSlot tiles st) u.prologue),
      ("lb", jNat u.newLb),
      ("body", jSlot tiles st u.body),
      ("epilogue", jList (jSlot tiles st) u.epilogue),
      ("trailing", jList jTok (trailing.filter fun t => t != .idx)),
      ("wf", Json.mkObj [("dupAdjacent", Json.bool (dupAdjacent p)), ("sharedOneSided", Json.bool (sharedOneSided p)),
                         ("oneWriterStage", Json.bool (oneWriterStage p)), ("tilesAligned", Json.bool (tilesAligned p)),
                         ("safe", Json.bool (safeB p)), ("dupWF", Json.bool (dupWF p)),
                         ("inputOK", Json.bool (match construct l with
                            | .ok (some q) => inputOK tiles q.stages && inputNoDup q.stages
                            | _ => false))])])]

def runH : Handler := fun j => do
  let (l, tiles) ← loopOfJson j
  match run l with
  | .error e => return errJson e
  | .ok o => return outcomeJson l tiles o

/-- args: {"loops": [loop]} -> {"raised": cls} | [outcome per loop] (the model's `runModule`) -/
def runModuleH : Handler := fun j => do
  let ls ← listOf loopOfJson (← field j "loops")
  match runModule (ls.map (·.1)) with
  | .error e => return errJson e
  | .ok os => return Json.arr ((ls.zip os).map fun (lt, o) => outcomeJson lt.1 lt.2 o).toArray

/-- args: {"S": n, "N": n} -> {"unrolled": [[[k, n]]], "slots": [[[k, n]]]} (evaluated slot structure) -/
def slotsH : Handler := fun j => do
  let S ← nat (← field j "S")
  let N ← nat (← field j "N")
  let pr := fun (p : Nat × Int) => Json.arr #[jNat p.1, jInt p.2]
  let pn := fun (p : Nat × Nat) => Json.arr #[jNat p.1, jNat p.2]
  return Json.mkObj [("unrolled", jList (jList pr) (evalUnroll S N)), ("slots", jList (jList pn) (slots S N))]

def handlers : List (String × Handler) := [("c15.run", runH), ("c15.runModule", runModuleH), ("c15.slots", slotsH)]

end SnaxVerif.Drv.C15
