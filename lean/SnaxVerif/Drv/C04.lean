import SnaxVerif.Drv.Basic
import SnaxVerif.Model.RegMap
import SnaxVerif.Model.CsrLower
namespace SnaxVerif.Drv.C04
open Lean SnaxVerif SnaxVerif.Drv SnaxVerif.RegMap SnaxVerif.CsrLower

def pairOf (j : Json) : Except String (String × Nat) := do
  match (← arr j).toList with
  | [k, v] => return (← str k, ← nat v)
  | _ => throw "bad pair"

def streamerOf (j : Json) : Except String Streamer := do
  match (← arr j).toList with
  | [t, s, re, cm, bm, bc, tr, ex] =>
    return { tdim := ← nat t, sdim := ← nat s, remap := ← bool re, cmask := ← bool cm, bmask := ← bool bm,
             bcast := ← bool bc, transp := ← bool tr, exts := ← listOf pairOf ex }
  | _ => throw "bad streamer"

def jPair (p : String × Nat) : Json := Json.arr #[Json.str p.1, jNat p.2]

def jRegMap (m : RegMap) (names lnames : List String) : Json :=
  Json.mkObj [("fields", jList jPair m.fields), ("launch", jList jPair m.launch), ("barrier", jNat m.barrier),
    ("reserved", jList jNat m.reserved), ("names", jList Json.str names), ("lnames", jList Json.str lnames)]

/-- args: {"acc": kind, "cfg": [streamer…], "n": nat, "sw": nat} -/
def regmap : Handler := fun j => do
  let kind ← str (← field j "acc")
  let cfg ← listOf streamerOf (← field j "cfg")
  let n ← nat (← field j "n")
  let sw ← nat (← field j "sw")
  match kind with
  | "alu" => return jRegMap (regMapAlu cfg) (aluFieldNames cfg) ["launch_streamer", "launch_alu"]
  | "gemmx_config" =>
    let ss ← listOf (fun x => do
      match (← arr x).toList with
      | [t, d] => return ((← nat t), (← nat d))
      | _ => throw "bad streamer config") (← field j "streamers")
    match gemmxFromConfig ss with
    | some c => return jRegMap (regMapGemmx c n) (gemmxFieldNames c n) ["launch_streamer", "launch_gemmx"]
    | none => return Json.mkObj [("raised", Json.str "IndexError")]
  | "gemmx" => return jRegMap (regMapGemmx cfg n) (gemmxFieldNames cfg n) ["launch_streamer", "launch_gemmx"]
  | "phs" => return jRegMap (regMapPhs cfg sw) (phsFieldNames cfg sw) ["launch_streamer", "launch_alu"]
  | "xdma" => return jRegMap (regMapXdma cfg) (xdmaFieldNames cfg) ["launch_start"]
  | "hwpe" => return jRegMap regMapHwpe ["A", "B", "O", "vector_length", "nr_iters", "mode"] ["launch"]
  | "gemmini" => return jRegMap regMapGemmini (keys regMapGemmini.fields) (keys regMapGemmini.launch)
  | k => throw s!"unknown accelerator kind {k}"

def declOfJson (j : Json) : Except String Decl := do
  let st ← str (← field j "style")
  let style ← match st with
    | "poll1" => pure Style.poll1
    | "poll3" => pure Style.poll3
    | s => throw s!"bad style {s}"
  return { name := ← str (← field j "name"), fields := ← listOf pairOf (← field j "fields"),
           launch := ← listOf pairOf (← field j "launch"), barrier := ← nat (← field j "barrier"), style := style }

def setupParam (j : Json) : Except String (String × Var × Bool) := do
  match (← arr j).toList with
  | [f, v, c] => return (← str f, ← nat v, ← bool c)
  | _ => throw "bad setup param"

def fslotOf (j : Json) : Except String FSlot := do
  match (← arr j).toList with
  | [_] => return .state
  | [_, a, b, c, d] => return .data (← nat a) (← nat b) (← nat c) (← nat d)
  | _ => throw "bad for slot"

def islotOf (j : Json) : Except String ISlot := do
  match (← arr j).toList with
  | [_] => return .state
  | [_, a, b, c] => return .data (← nat a) (← nat b) (← nat c)
  | _ => throw "bad if slot"

def jFSlot : FSlot → Json
  | .state => Json.arr #[Json.str "s"]
  | .data a b c d => Json.arr #[Json.str "d", jNat a, jNat b, jNat c, jNat d]

def jISlot : ISlot → Json
  | .state => Json.arr #[Json.str "s"]
  | .data a b c => Json.arr #[Json.str "d", jNat a, jNat b, jNat c]

mutual
partial def stmtOf (j : Json) : Except String Stmt := do
  let a ← arr j
  match a.toList with
  | tag :: rest =>
    match (← str tag), rest with
    | "setup", [acc, ps] => return .setup (← str acc) (← listOf setupParam ps)
    | "launch", [acc, ps] => return .launch (← str acc) (← listOf pairOf ps)
    | "launchg", [acc, ps, n, m, sh, mu] =>
      return .launchG (← str acc) (← listOf pairOf ps) (← nat n) (← int m) (← listOf int sh) (← listOf int mu)
    | "await", [acc] => return .await (← str acc)
    | "setupr", [acc, ps, prev] =>
      return .setupR (← str acc) (← listOf pairOf ps) (← optOf (listOf pairOf) prev)
    | "launchr", [acc, ps] => return .launchR (← str acc) (← listOf pairOf ps)
    | "awaitr", [acc] => return .awaitR (← str acc)
    | "op", [t, n] => return .op (← nat t) (← nat n)
    | "if", [t, n, th, el] => return .ifS (← nat t) (← listOf islotOf n) (← blockOf th) (← blockOf el)
    | "for", [t, n, b] => return .forS (← nat t) (← listOf fslotOf n) (← blockOf b)
    | t, _ => throw s!"bad stmt {t}"
  | [] => throw "empty stmt"
partial def blockOf (j : Json) : Except String Block := do
  let l ← (← arr j).toList.mapM stmtOf
  return l.foldr Block.cons Block.nil
end

def jRVal : RVal → Json
  | .var v => jNat v
  | .default0 => Json.str "d0"

def jRStmt : RStmt → Json
  | .const0 => Json.arr #[Json.str "const0"]
  | .insn _ f a b => Json.arr #[Json.str "insn", jNat f, jRVal a, jRVal b]

mutual
partial def jCStmt : CStmt → Json
  | .csrw a v c l => Json.arr #[Json.str "csrw", jNat a, jNat v, Json.bool c, Json.bool l]
  | .csrwC a c => Json.arr #[Json.str "csrwc", jNat a, jInt c]
  | .rocc st => Json.arr #[Json.str "rocc", jRStmt st]
  | .poll a => Json.arr #[Json.str "poll", jNat a]
  | .clear => Json.arr #[Json.str "clear"]
  | .nop => Json.arr #[Json.str "nop"]
  | .op t n => Json.arr #[Json.str "op", jNat t, jNat n]
  | .ifS t n th el => Json.arr #[Json.str "if", jNat t, jList jISlot n, jCBlock th, jCBlock el]
  | .forS t n b => Json.arr #[Json.str "for", jNat t, jList jFSlot n, jCBlock b]
partial def jCBlockL : CBlock → List Json
  | .nil => []
  | .cons s r => jCStmt s :: jCBlockL r
partial def jCBlock (b : CBlock) : Json := Json.arr (jCBlockL b).toArray
end

def errName : Err → String
  | .noAcc => "Exception"
  | .keyError => "KeyError"
  | .assertLaunch => "AssertionError"
  | .zeroDiv => "ZeroDivisionError"
  | .valueError => "ValueError"

def jErr (e : Err) : Json := Json.mkObj [("raised", Json.str (errName e))]

/-- args: {"decls": [decl…], "prog": block} -> {"prog": cblock, "states": n} | {"raised": cls} -/
def lower : Handler := fun j => do
  let ds ← listOf declOfJson (← field j "decls")
  let p ← blockOf (← field j "prog")
  match lowerBlock ds p with
  | .ok q => return Json.mkObj [("prog", jCBlock q), ("states", jNat q.stateCount)]
  | .error e => return jErr e

/-- args: {"decl": [[name, funct7]…], "ps": [[name, var]…], "prev": null | [[name, var]…]} -/
def roccSetupH : Handler := fun j => do
  let decl ← listOf pairOf (← field j "decl")
  let ps ← listOf pairOf (← field j "ps")
  let prev ← optOf (listOf pairOf) (← field j "prev")
  match roccSetup decl ps prev with
  | .ok l => return Json.mkObj [("ops", jList jRStmt l)]
  | .error e => return jErr e

def roccLaunchH : Handler := fun j => do
  let decl ← listOf pairOf (← field j "decl")
  let ps ← listOf pairOf (← field j "ps")
  match roccLaunch decl ps with
  | .ok l => return Json.mkObj [("ops", jList jRStmt l)]
  | .error e => return jErr e

def handlers : List (String × Handler) :=
  [("c04.regmap", regmap), ("c04.lower", lower), ("c04.rocc_setup", roccSetupH), ("c04.rocc_launch", roccLaunchH)]

end SnaxVerif.Drv.C04
