import SnaxVerif.Drv.Basic
import SnaxVerif.Model.Kernel
namespace SnaxVerif.Drv.C18
open Lean SnaxVerif SnaxVerif.Drv SnaxVerif.Kernel

def kindOfJson (j : Json) : Except String OpKind := do
  match j with
  | .str s =>
    match s with
    | "addi" => pure .addi | "muli" => pure .muli | "subi" => pure .subi | "extsi" => pure .extsi
    | "trunci" => pure .trunci | "shrsi" => pure .shrsi | "minsi" => pure .minsi | "maxsi" => pure .maxsi
    | "select" => pure .select
    | _ => throw s!"bad kind {s}"
  | _ =>
    match (← arr j).toList with
    | [t, c] =>
      let t ← str t
      if t == "const" then return .const (← int c)
      else if t == "cmpi" then return .cmpi (← nat c)
      else throw "bad kind"
    | [t, n, c] => if (← str t) == "other" then return .other (← str n) (← bool c) else throw "bad kind"
    | _ => throw "bad kind"

def kindToJson : OpKind → Json
  | .addi => "addi" | .muli => "muli" | .subi => "subi" | .extsi => "extsi"
  | .trunci => "trunci" | .shrsi => "shrsi" | .minsi => "minsi" | .maxsi => "maxsi"
  | .select => "select"
  | .cmpi p => Json.arr #["cmpi", jNat p]
  | .const c => Json.arr #["const", jInt c]
  | .other n c => Json.arr #["other", Json.str n, Json.bool c]

def refOfJson (j : Json) : Except String Ref := do
  match (← arr j).toList with
  | [t, i] => if (← str t) == "v" then return .val (← nat i) else throw "bad ref"
  | [t, w, c] => if (← str t) == "o" then return .outer (← nat w) (← int c) else throw "bad ref"
  | _ => throw "bad ref"

def refToJson : Ref → Json
  | .val i => Json.arr #["v", jNat i]
  | .outer w c => Json.arr #["o", jNat w, jInt c]

def opOfJson (j : Json) : Except String BOp := do
  match (← arr j).toList with
  | [k, a, w] => return ⟨← kindOfJson k, ← listOf refOfJson a, ← nat w⟩
  | _ => throw "bad op"

def opToJson (o : BOp) : Json := Json.arr #[kindToJson o.kind, jList refToJson o.args, jNat o.width]

def bodyOfJson (j : Json) : Except String Body := do
  return ⟨← listOf nat (← field j "args"), ← listOf opOfJson (← field j "ops"), ← listOf refOfJson (← field j "ret")⟩

def bodyToJson (b : Body) : Json :=
  Json.mkObj [("args", jList jNat b.args), ("ops", jList opToJson b.ops), ("ret", jList refToJson b.ret)]

def kernelOfJson (j : Json) : Except String Kernel := do
  match (← str j) with
  | "mul" => pure .mul | "add" => pure .add | "mac" => pure .mac | "qmac" => pure .qmac
  | "rescale" => pure .rescale
  | s => throw s!"bad kernel {s}"

def kernelName : Kernel → String
  | .mul => "mul" | .add => "add" | .mac => "mac" | .qmac => "qmac" | .rescale => "rescale"

def valOfJson (j : Json) : Except String Val := do
  match (← arr j).toList with
  | [w, v] => let w ← nat w; return ⟨w, BitVec.ofInt w (← int v)⟩
  | _ => throw "bad val"

/-- values are reported as [width, unsigned value] -/
def valToJson (v : Val) : Json := Json.arr #[jNat v.w, jNat v.v.toNat]

def kbodyOfJson (j : Json) : Except String KBody := do
  return { args := ← listOf nat (← field j "args"), kernel := ← kernelOfJson (← field j "kernel"),
           operands := ← listOf refOfJson (← field j "operands"), opTypes := ← listOf nat (← field j "opTypes"),
           resWidth := ← nat (← field j "resWidth"), ret := ← listOf refOfJson (← field j "ret") }

def kbodyToJson (kb : KBody) : Json :=
  Json.mkObj [("args", jList jNat kb.args), ("kernel", Json.str (kernelName kb.kernel)),
    ("operands", jList refToJson kb.operands), ("opTypes", jList jNat kb.opTypes),
    ("resWidth", jNat kb.resWidth), ("ret", jList refToJson kb.ret)]

/-- {"fixed", "body"} -> null | kernel form written in place of the body -/
def recognizeH : Handler := fun j => do
  let fixed ← bool (← field j "fixed")
  let b ← bodyOfJson (← field j "body")
  return jOpt (fun k => kbodyToJson (toKernelForm b k)) (if fixed then recognizeDict b else recognize false b)

/-- {"body", "ins": [[[w, v]…]…]} -> per input list: null | [[w, v]…] -/
def evalH : Handler := fun j => do
  let b ← bodyOfJson (← field j "body")
  let inss ← listOf (listOf valOfJson) (← field j "ins")
  return jList (fun ins => jOpt (jList valToJson) (evalBody b ins)) inss

/-- {"kbody", "ins"} -> per input list: meaning of the kernel form -/
def kevalH : Handler := fun j => do
  let kb ← kbodyOfJson (← field j "kbody")
  let inss ← listOf (listOf valOfJson) (← field j "ins")
  return jList (fun ins => jOpt (jList valToJson) (evalKBody kb ins)) inss

/-- {"kbody"} -> body after LowerLinalgBody -/
def expandH : Handler := fun j => do
  let kb ← kbodyOfJson (← field j "kbody")
  return bodyToJson (expand kb)

def paramsOfJson (j : Json) : Except String RescaleParams := do
  return { inputZp := ← int (← field j "input_zp"), outputZp := ← int (← field j "output_zp"),
           multiplier := ← listOf int (← field j "multiplier"), shift := ← listOf int (← field j "shift"),
           maxInt := ← int (← field j "max_int"), minInt := ← int (← field j "min_int"),
           doubleRound := ← bool (← field j "double_round") }

/-- {"fixed", "params", "args"} -> body | {"raised": "IndexError"} (upstream) | {"unchanged": true} (fixed, pattern returns) -/
def rescaleBodyH : Handler := fun j => do
  let fixed ← bool (← field j "fixed")
  let p ← paramsOfJson (← field j "params")
  let args ← listOf nat (← field j "args")
  if fixed then
    match rescaleBodyFixed p args with
    | none => return Json.mkObj [("unchanged", Json.bool true)]
    | some b => return bodyToJson b
  else
    match rescaleBody p args with
    | none => return Json.mkObj [("raised", "IndexError")]
    | some b => return bodyToJson b

/-- {"fixed", "params", "ch", "wi", "wr", "xs": [int]} -> [[expand | null, spec | null]…] (unsigned values; expand at the
    result width `wr` for the fixed lowering, at 8 bits for the upstream one) -/
def rescaleEvalH : Handler := fun j => do
  let fixed ← bool (← field j "fixed")
  let p ← paramsOfJson (← field j "params")
  let ch ← nat (← field j "ch")
  let wi ← nat (← field j "wi")
  let wr ← nat (← field j "wr")
  let xs ← listOf int (← field j "xs")
  return jList (fun x =>
    let bx := BitVec.ofInt wi x
    let e := if fixed then jOpt (fun (r : BitVec wr) => jNat r.toNat) (rescaleExpandFixed p bx wr)
             else jOpt (fun (r : BitVec 8) => jNat r.toNat) (rescaleExpand p (BitVec.ofInt 32 x))
    Json.arr #[e, jOpt (fun (r : BitVec 32) => jNat r.toNat) (rescaleSpec p ch bx)]) xs

def supportedOfJson (j : Json) : Except String Supported := do
  match (← arr j).toList with
  | [k, t] => return ⟨← kernelOfJson k, ← listOf nat t⟩
  | _ => throw "bad supported"

def accOfJson (j : Json) : Except String Acc := do
  return ⟨← str (← field j "name"), ← bool (← field j "streamer"), ← listOf supportedOfJson (← field j "supported")⟩

/-- {"accs", "kernel", "tys", "dynamic"} -> null | library_call | {"raised": "ValueError"} -/
def dispatchH : Handler := fun j => do
  let accs ← listOf accOfJson (← field j "accs")
  let k ← kernelOfJson (← field j "kernel")
  let tys ← listOf nat (← field j "tys")
  let dyn ← bool (← field j "dynamic")
  let fixed ← (do match (j.getObjVal? "fixed") with | .ok f => bool f | .error _ => pure false)
  if fixed then return jOpt Json.str (dispatchFixed accs k tys dyn)
  match dispatch accs k tys dyn with
  | .error .valueError => return Json.mkObj [("raised", "ValueError")]
  | .ok r => return jOpt Json.str r

/-- {"kernel", "tys"} -> kernelTyped -/
def typedH : Handler := fun j => do
  return Json.bool (kernelTyped (← kernelOfJson (← field j "kernel")) (← listOf nat (← field j "tys")))

def mopOfJson (j : Json) : Except String MOp := do
  match (← arr j).toList with
  | [t, k, a, tys, w] =>
    if (← str t) == "k" then
      return .kern (← kernelOfJson k) (← listOf refOfJson a) (← listOf nat tys) (← nat w)
    else throw "bad mixed op"
  | _ => return .arith (← opOfJson j)

def mopToJson : MOp → Json
  | .arith o => opToJson o
  | .kern k a tys w => Json.arr #["k", Json.str (kernelName k), jList refToJson a, jList jNat tys, jNat w]

def mbodyOfJson (j : Json) : Except String MBody := do
  return ⟨← listOf nat (← field j "args"), ← listOf mopOfJson (← field j "ops"), ← listOf refOfJson (← field j "ret")⟩

def mbodyToJson (b : MBody) : Json :=
  Json.mkObj [("args", jList jNat b.args), ("ops", jList mopToJson b.ops), ("ret", jList refToJson b.ret)]

/-- {"mbody"} -> {"fired": bool, "out": mixed body after LowerLinalgBody} -/
def lowerH : Handler := fun j => do
  let b ← mbodyOfJson (← field j "mbody")
  let fixed ← bool (← field j "fixed")
  if fixed then
    return Json.mkObj [("fired", Json.bool (lowerLinalgBodyFixed b).isSome), ("out", mbodyToJson (lowerResultFixed b))]
  else
    return Json.mkObj [("fired", Json.bool (lowerLinalgBody b).isSome), ("out", mbodyToJson (lowerResult b))]

/-- {"mbody", "ins"} -> per input list: meaning of the mixed body -/
def mevalH : Handler := fun j => do
  let b ← mbodyOfJson (← field j "mbody")
  let inss ← listOf (listOf valOfJson) (← field j "ins")
  return jList (fun ins => jOpt (jList valToJson) (evalMBody b ins)) inss

def paramsToJson (p : RescaleParams) : Json :=
  Json.mkObj [("input_zp", jInt p.inputZp), ("output_zp", jInt p.outputZp), ("multiplier", jList jInt p.multiplier),
    ("shift", jList jInt p.shift), ("max_int", jInt p.maxInt), ("min_int", jInt p.minInt),
    ("double_round", Json.bool p.doubleRound)]

/-- {"supported": [kind, types], "kernel", "grid": [[types]…]} -> the type lists of the grid that are accepted -/
def sameKernelH : Handler := fun j => do
  let sk ← supportedOfJson (← field j "supported")
  let k ← kernelOfJson (← field j "kernel")
  let grid ← listOf (listOf nat) (← field j "grid")
  return jList (jList jNat) (grid.filter (isSameKernel sk k))

/-- {"out", "users", "clamp": null | [lo, hi], "input_zp", "output_zp", "multiplier", "shift", "double_round"}
    -> null | {"params", "res"} -/
def tosaH : Handler := fun j => do
  let clamp ← optOf (fun c => do
    match (← arr c).toList with
    | [lo, hi] => return ((← int lo), (← int hi))
    | _ => throw "bad clamp") (← field j "clamp")
  let t : TosaRescale :=
    { outWidth := ← nat (← field j "out"), users := ← nat (← field j "users"), clamp := clamp,
      inputZp := ← int (← field j "input_zp"), outputZp := ← int (← field j "output_zp"),
      multiplier := ← listOf int (← field j "multiplier"), shift := ← listOf int (← field j "shift"),
      doubleRound := ← bool (← field j "double_round") }
  return jOpt (fun (r : RescaleParams × Nat) => Json.mkObj [("params", paramsToJson r.1), ("res", jNat r.2)])
    (tosaToKernel t)

/-- {"body", "accs", "dynamic"} -> what the pipelines do to ONE generic of a module:
    {"kform": null | kernel form, "round_trip": mixed body after recognition + expansion, "call": null | library_call} -/
def recognizePipelineH : Handler := fun j => do
  let b ← bodyOfJson (← field j "body")
  let accs ← listOf accOfJson (← field j "accs")
  let dyn ← bool (← field j "dynamic")
  let fixedDispatch ← (do match (j.getObjVal? "fixed_dispatch") with | .ok f => bool f | .error _ => pure false)
  let r := recognize true b
  let call : Json := match r with
    | none => Json.null
    | some k =>
      if fixedDispatch then jOpt Json.str (dispatchFixed accs k b.args dyn)
      else match dispatch accs k b.args dyn with
        | .error _ => Json.str "raised:ValueError"
        | .ok c => jOpt Json.str c
  return Json.mkObj [("kform", jOpt (fun k => kbodyToJson (toKernelForm b k)) r),
    ("round_trip", mbodyToJson (pipelineRecognizeExpand b)), ("call", call)]

def handlers : List (String × Handler) :=
  [("c18.recognize", recognizeH), ("c18.eval", evalH), ("c18.keval", kevalH), ("c18.expand", expandH),
   ("c18.rescale_body", rescaleBodyH), ("c18.rescale_eval", rescaleEvalH), ("c18.dispatch", dispatchH),
   ("c18.typed", typedH), ("c18.lower", lowerH), ("c18.meval", mevalH), ("c18.same_kernel", sameKernelH), ("c18.tosa", tosaH), ("c18.recognize_pipeline", recognizePipelineH)]

end SnaxVerif.Drv.C18
