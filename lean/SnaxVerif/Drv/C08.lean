import SnaxVerif.Drv.Basic
import SnaxVerif.Model.SetupVals
import SnaxVerif.Model.SetupValsPhs
namespace SnaxVerif.Drv.C08
open Lean SnaxVerif SnaxVerif.Drv SnaxVerif.SV

def flagOf (j : Json) : Except String Flag := do
  match (← str j) with
  | "n" => pure .n | "i" => pure .i | "r" => pure .r
  | s => throw s!"bad flag {s}"

/-- options are identified by the Python `.name` of the option class -/
def optOfJ (j : Json) : Except String Opt := do
  match (← str j) with
  | "a" => pure .remap | "c" => pure .chan | "bm" => pure .byteMask | "b" => pure .bcast
  | "maxpool_ext" => pure (.ext .maxpool) | "add_ext" => pure (.ext .add) | "add_ext_long" => pure (.ext .addLong)
  | "rescale_down_ext" => pure (.ext .rescaleDown) | "rescale_up_ext" => pure (.ext .rescaleUp)
  | "memset_ext" => pure (.ext .memset) | "t" => pure (.ext .transpose)
  | s => throw s!"bad option {s}"

def streamerOf (j : Json) : Except String Streamer := do
  return { tdims := ← listOf flagOf (← field j "t"), sdims := ← listOf nat (← field j "s"),
           opts := ← listOf optOfJ (← field j "o") }

def patternOf (j : Json) : Except String Pattern := do
  let ub ← listOf int (← field j "ub")
  let ts ← listOf int (← field j "ts")
  if ub.length ≠ ts.length then throw "pattern: ub/ts lengths differ (rejected by the attribute verifier)"
  return { dims := ub.zip ts, ss := ← listOf int (← field j "ss") }

def streamOpOf (j : Json) : Except String StreamOp := do
  return { pats := ← listOf patternOf (← field j "pats"), zero := ← listOf bool (← field j "zero") }

/-- "fixes": the list of repairs applied to the tree under test, by name of the fix diff -/
def variantOf (j : Json) : Except String Variant := do
  let fs ← listOf str (← field j "fixes")
  for f in fs do
    if !(["F11", "F14", "FC08a", "FC08b", "FC08c"].contains f) then throw s!"unknown fix {f}"
  return { f11 := fs.contains "F11", f14 := fs.contains "F14", zeroPerOperand := fs.contains "FC08a",
           extCsrLen := fs.contains "FC08b", loopAllDims := fs.contains "FC08c" }

def rescaleOf (j : Json) : Except String Rescale := do
  return { inZp := ← int (← field j "in_zp"), outZp := ← int (← field j "out_zp"),
           maxI := ← int (← field j "max"), minI := ← int (← field j "min"), dr := ← int (← field j "dr"),
           shifts := ← listOf int (← field j "shifts"), mults := ← listOf int (← field j "mults") }

def leafJ : Leaf → Json
  | .opnd i => Json.arr #[Json.str "opnd", jNat i] | .inp i => Json.arr #[Json.str "inp", jNat i]
  | .ptr i => Json.arr #[Json.str "ptr", jNat i] | .dim i => Json.arr #[Json.str "dim", jNat i]
  | .dimDiv4 i => Json.arr #[Json.str "dimdiv4", jNat i]

def valJ : Val → Json
  | .leaf l => leafJ l
  | .c v => Json.arr #[Json.str "c", jInt v]
  | .andi a b => Json.arr #[Json.str "and", valJ a, valJ b]
  | .shli a b => Json.arr #[Json.str "shl", valJ a, valJ b]
  | .ori a b => Json.arr #[Json.str "or", valJ a, valJ b]

def launchJ (l : List (String × Int)) : Json :=
  jList (fun x : String × Int => Json.arr #[Json.str x.1, jInt x.2]) l

def result (fs : List Field) (r : Except Err (List Val)) (accepts : Option Bool := none)
    (launch : List (String × Int) := []) : Json :=
  let f := ("fields", jList (fun x : Field => Json.str x.name) fs)
  let a := match accepts with | some b => [("accepts", Json.bool b)] | none => []
  match r with
  | .ok vs => Json.mkObj ([f, ("vals", jList valJ vs), ("launch", launchJ launch)] ++ a)
  | .error e => Json.mkObj ([f, ("raised", Json.str e.name)] ++ a)

/-- args: {"cfg": [streamer], "op": streamop, "fixes": [..]} -/
def alu : Handler := fun j => do
  let cfg ← listOf streamerOf (← field j "cfg")
  let op ← streamOpOf (← field j "op")
  let v ← variantOf j
  return result (aluFields cfg) (aluVals v cfg op) (some (regionAccepts cfg op)) aluLaunch

def gkernelOf (j : Json) : Except String GKernel := do
  match (← arr j).toList with
  | [t, x] => do
    match (← str t) with
    | "mac" => do
      let zp ← optOf (fun y => do
        match (← arr y).toList with
        | [a, b] => pure ((← nat a), (← nat b))
        | _ => throw "bad zp") x
      pure (GKernel.mac zp)
    | "rescale" => pure (GKernel.rescale (← rescaleOf x))
    | s => throw s!"bad kernel {s}"
  | [t] =>
    match (← str t) with
    | "other" => pure GKernel.other
    | "add" => pure GKernel.other         -- bias add: not a kernel the first-generic dispatch knows
    | s => throw s!"bad kernel {s}"
  | _ => throw "bad kernel"

/-- args: {"cfg", "n", "fixes", "op": streamop, "generics": [["mac", null | [a,b]] | ["rescale", r] | ["add"] |
["other"]], "i8out": bool} -/
def gemmx : Handler := fun j => do
  let cfg ← listOf streamerOf (← field j "cfg")
  let n ← nat (← field j "n")
  let v ← variantOf j
  let s ← streamOpOf (← field j "op")
  let op : GemmxOp := { s := s, generics := ← listOf gkernelOf (← field j "generics"),
                        i8out := ← bool (← field j "i8out") }
  let res := result (gemmxFields cfg n) (gemmxVals v cfg n op) (some (regionAccepts cfg s)) gemmxLaunch
  match gemmxVals v cfg n op, gemmxParams v n op with
  | .ok _, .ok P =>
    let aj := Json.mkObj (P.attrs.map fun x => (x.1, jList jInt x.2))
    return res.mergeObj (Json.mkObj [("launch_attrs", aj)])
  | _, _ => return res

/-- args: {"cfg", "fixes", "op": streamop, "kernel": ["notgeneric"] | ["add"] | ["other"] |
["rescale", down, in_zp, mult, out_zp, shift]} -/
def xdma : Handler := fun j => do
  let cfg ← listOf streamerOf (← field j "cfg")
  let v ← variantOf j
  let s ← streamOpOf (← field j "op")
  let kj ← arr (← field j "kernel")
  let kernel ← match kj.toList with
    | [t] => do
      match (← str t) with
      | "notgeneric" => pure XKernel.notGeneric | "add" => pure XKernel.add | "other" => pure XKernel.other
      | s => throw s!"bad kernel {s}"
    | [_, d, a, b, c, e] => pure (XKernel.rescale (← bool d) (← int a) (← int b) (← int c) (← int e))
    | _ => throw "bad kernel"
  return result (xdmaFields v cfg) (xdmaVals v cfg { s := s, kernel := kernel }) (some (regionAccepts cfg s)) xdmaLaunch

/-! PHS: kernel bodies in the wire format of the C20 driver (parsers repeated here so that this file does not depend
on another property's driver) -/

def tyOf (j : Json) : Except String Phs.Ty := do
  match (← arr j).toList with
  | [c, t] => return ⟨← str c, ← str t⟩
  | _ => throw "bad type"

def ksrcOf (j : Json) : Except String Phs.KSrc := do
  match (← arr j).toList with
  | [t, x] =>
    match (← str t) with
    | "a" => return .arg (← nat x)
    | "r" => return .res (← nat x)
    | s => throw s!"bad ksrc tag {s}"
  | _ => throw "bad ksrc"

def kopOf (j : Json) : Except String Phs.KOp := do
  match (← arr j).toList with
  | [n, t, os] => return { name := ← str n, resTy := ← tyOf t, operands := ← listOf ksrcOf os }
  | _ => throw "bad kop"

def bodyOf (j : Json) : Except String Phs.KBody := do
  return { argTys := ← listOf tyOf (← field j "arg_tys"), ops := ← listOf kopOf (← field j "ops"),
           yld := ← ksrcOf (← field j "yield") }

/-- args: {"cfg", "op", "fixes", "bodies": [body] (merge history of the accelerator's processing element),
"kernel": body (the generic inside the region)} -> fields / vals / raised / accepts, "wf": PE.wf of the element,
"true": its true switches; {"invalid_input": true} if the history cannot be encoded / merged -/
def phs : Handler := fun j => do
  let cfg ← listOf streamerOf (← field j "cfg")
  let op ← streamOpOf (← field j "op")
  let v ← variantOf j
  let bodies ← listOf bodyOf (← field j "bodies")
  let kernel ← bodyOf (← field j "kernel")
  let encs := bodies.map Phs.encode
  let ks := encs.filterMap fun e => match e with | .ok p => some p | .error _ => none
  if ks.length ≠ encs.length then return Json.mkObj [("invalid_input", Json.bool true)]
  match ks with
  | [] => return Json.mkObj [("invalid_input", Json.bool true)]
  | k0 :: r =>
    match Phs.mergeAll k0 r with
    | .error _ => return Json.mkObj [("invalid_input", Json.bool true)]
    | .ok A =>
      let res := result (phsFields cfg A) (phsVals v cfg op A (Phs.encode kernel)) (some (regionAccepts cfg op)) phsLaunch
      return res.mergeObj (Json.mkObj [("wf", Json.bool A.wf), ("true", jNat A.trueSwitches)])

/-- args: {"cfg"}: the legacy linalg path of snax_alu on an accelerator with streamer configuration `cfg` -/
def aluLinalg : Handler := fun j => do
  let cfg ← listOf streamerOf (← field j "cfg")
  return result (aluFields cfg) (.ok aluLinalgVals) none aluLaunch

def hwpe : Handler := fun _ => do
  return result hwpeFields (.ok hwpeVals) none hwpeLaunch

def handlers : List (String × Handler) :=
  [("c08.alu", alu), ("c08.gemmx", gemmx), ("c08.xdma", xdma), ("c08.hwpe", hwpe), ("c08.phs", phs), ("c08.alu_linalg", aluLinalg)]

end SnaxVerif.Drv.C08
