import SnaxVerif.Drv.Basic
import SnaxVerif.Model.Loops
/-! Driver entry points for C17 (JSON plumbing only). -/
namespace SnaxVerif.Drv.C17
open Lean SnaxVerif SnaxVerif.Drv SnaxVerif.Loops

def argOfJson (j : Json) : Except String Arg := do
  match (← arr j).toList with
  | [t, x] =>
    let t ← str t
    if t == "v" then return .var (← nat x) else if t == "c" then return .cst (← int x) else throw s!"bad arg tag {t}"
  | _ => throw "bad arg"

def argToJson : Arg → Json
  | .var v => Json.arr #[Json.str "v", jNat v]
  | .cst c => Json.arr #[Json.str "c", jInt c]

def altOfJson (j : Json) : Except String (Int × List Int) := do
  match (← arr j).toList with
  | [c, ks] => return (← int c, ← listOf int ks)
  | _ => throw "bad alt"

def opOfJson (j : Json) : Except String OpKind := do
  match (← arr j).toList with
  | [t] =>
    match (← str t) with
    | "mul" => return .mul | "add" => return .add | "divui" => return .divui | "remui" => return .remui
    | "alloc" => return .alloc
    | t => throw s!"bad op {t}"
  | [t, x] =>
    match (← str t) with
    | "amin" => return .amin (← listOf altOfJson x)
    | "dim" => return .dim (← nat x)
    | "subview" => return .subview (← nat x)
    | "opaque" => return .opaque (← nat x)
    | "lit" => return .lit (← int x)
    | t => throw s!"bad op {t}"
  | _ => throw "bad op"

def opToJson : OpKind → Json
  | .mul => Json.arr #[Json.str "mul"] | .add => Json.arr #[Json.str "add"]
  | .divui => Json.arr #[Json.str "divui"] | .remui => Json.arr #[Json.str "remui"]
  | .alloc => Json.arr #[Json.str "alloc"]
  | .amin alts => Json.arr #[Json.str "amin", jList (fun (a : Int × List Int) => Json.arr #[jInt a.1, jList jInt a.2]) alts]
  | .dim i => Json.arr #[Json.str "dim", jNat i]
  | .subview r => Json.arr #[Json.str "subview", jNat r]
  | .opaque f => Json.arr #[Json.str "opaque", jNat f]
  | .lit c => Json.arr #[Json.str "lit", jInt c]

partial def blkOfJson (j : Json) : Except String Blk := do
  let stmts ← arr j
  let mut acc : Blk := .nil
  for s in stmts.toList.reverse do
    match (← arr s).toList with
    | [t, a, b, c] =>
      if (← str t) == "p" then acc := .pure (← nat a) (← opOfJson b) (← listOf argOfJson c) acc
      else throw "bad stmt"
    | [t, a, b] =>
      if (← str t) == "e" then acc := .eff (← nat a) (← listOf argOfJson b) acc else throw "bad stmt"
    | [t, iv, lb, ub, st, body] =>
      if (← str t) == "l" then
        acc := .loop (← nat iv) (← argOfJson lb) (← argOfJson ub) (← argOfJson st) (← blkOfJson body) acc
      else throw "bad stmt"
    | _ => throw "bad stmt"
  return acc

partial def blkToList : Blk → List Json
  | .nil => []
  | .pure d op args r => Json.arr #[Json.str "p", jNat d, opToJson op, jList argToJson args] :: blkToList r
  | .eff id args r => Json.arr #[Json.str "e", jNat id, jList argToJson args] :: blkToList r
  | .loop iv lb ub st body r =>
    Json.arr #[Json.str "l", jNat iv, argToJson lb, argToJson ub, argToJson st, Json.arr (blkToList body).toArray]
      :: blkToList r

def blkToJson (b : Blk) : Json := Json.arr (blkToList b).toArray

def errStr : Err → String
  | .noMatch => "noMatch" | .zeroDivision => "ZeroDivisionError" | .noConstant => "RuntimeError"
  | .badPath => "badPath" | .sideCond => "sideCond"

def anchorOf (path : List Nat) : List Nat × Nat := (path.dropLast, path.getLastD 0)

/-- args: {"rule", "path": [nat], "nargs", "prog", "ceil": bool}
 -> {"after": prog, "perfect": bool, "nonneg": bool, "positive": bool} | {"error": name} -/
def step : Handler := fun j => do
  let prog ← blkOfJson (← field j "prog")
  let nargs ← nat (← field j "nargs")
  let path ← listOf nat (← field j "path")
  let rule ← str (← field j "rule")
  let ceil ← bool (← field j "ceil")
  let negGuard := ((field j "negGuard") >>= bool).toOption.getD false
  let keepDom := ((field j "keepDom") >>= bool).toOption.getD false
  let fresh := freshVar nargs prog
  let bargs := blockArgs nargs prog
  let (anchor, jj) := anchorOf path
  let sub (p : List Nat) : Blk := (getAt prog p).getD .nil
  let mut perfect := true
  let mut nonneg := true
  let mut positive := true
  let res ← match rule with
    | "changeStep" => do
      positive := positiveStep (sub path)
      pure (applyAt (changeStep ceil fresh) prog path)
    | "merge" => do
      perfect := perfectNestAt jj (sub anchor)
      nonneg := nonNegBoundsAt jj (sub anchor)
      pure (applyAt (mergeLoops negGuard fresh jj) prog anchor)
    | "hoist" => pure (applyAt (hoist bargs jj) prog anchor)
    | "dce" => pure (applyAt dce prog path)
    | "moveDim" => do
      perfect := noAffineMinSize bargs prog path
      nonneg := noExistingDimMove bargs prog path
      pure (moveDim keepDom bargs prog path)
    | "noop" => pure (Except.ok prog)
    | r => throw s!"unknown rule {r}"
  match res with
  | .ok after => return Json.mkObj [("after", blkToJson after), ("perfect", Json.bool perfect),
      ("nonneg", Json.bool nonneg), ("positive", Json.bool positive)]
  | .error e => return Json.mkObj [("error", Json.str (errStr e))]

def valOfJson (j : Json) : Except String Val := do
  match j.getInt? with
  | .ok n => return .int n
  | .error _ =>
    match (← arr j).toList with
    | [_, sh] => return .mem (← listOf int sh)
    | _ => throw "bad val"

def valToJson : Val → Json
  | .int n => jInt n
  | .mem sh => Json.arr #[Json.str "m", jList jInt sh]

/-- interpretation of uninterpreted pure ops used by the trace comparison: f + Σ (k+1)·operand_k -/
def interp (f : Nat) (vs : List Val) : Val :=
  .int ((f : Int) + dot ((List.range vs.length).map (fun k => ((k + 1 : Nat) : Int))) (vs.map Val.toInt))

/-- args: {"prog", "env": [[var, val]…]} -> [[id, [val…]]…] -/
def traceH : Handler := fun j => do
  let prog ← blkOfJson (← field j "prog")
  let pairs ← listOf (fun p => do
    match (← arr p).toList with
    | [v, x] => return ((← nat v), (← valOfJson x))
    | _ => throw "bad env entry") (← field j "env")
  let env : Env := fun v => ((pairs.find? (fun p => p.1 == v)).map (·.2)).getD (.int 0)
  let evs := trace interp prog env
  return jList (fun (ev : Event) => Json.arr #[jNat ev.id, jList valToJson ev.vals]) evs

def handlers : List (String × Handler) := [("c17.step", step), ("c17.trace", traceH)]

end SnaxVerif.Drv.C17
