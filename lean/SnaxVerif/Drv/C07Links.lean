import SnaxVerif.Drv.C07
import SnaxVerif.Model.AccfgLinks
/-! Driver entry points for the linked accfg IR (C07): the weave of an untraced program, the link-following
inference on a (real or woven) traced program. Not part of any proof. -/
namespace SnaxVerif.Drv.C07Links
open Lean SnaxVerif SnaxVerif.Drv SnaxVerif.Accfg SnaxVerif.AccfgLinks
open SnaxVerif.Drv.C07 (pureOpOfJson pairOfJson pureOpToJson pairToJson fieldsOfJson)

def ifResOfJson (j : Json) : Except String IfRes := do
  let a ← arr j
  match a.toList with
  | [acc, r, t, e] => return ⟨← nat acc, ← nat r, ← nat t, ← nat e⟩
  | _ => throw "bad if result"

def forCarOfJson (j : Json) : Except String ForCar := do
  let a ← arr j
  match a.toList with
  | [acc, ar, i, y, r] => return ⟨← nat acc, ← nat ar, ← nat i, ← nat y, ← nat r⟩
  | _ => throw "bad for carry"

def pCarOfJson (j : Json) : Except String PCar := do
  let a ← arr j
  match a.toList with
  | [acc, ar, i, y, r] => return ⟨← nat acc, ← nat ar, ← nat i, ← nat y, ← nat r⟩
  | _ => throw "bad pre-existing carry"

mutual
partial def pstmtOfJson (j : Json) : Except String PStmt := do
  let a ← arr j
  match a.toList with
  | tag :: rest =>
    match (← str tag), rest with
    | "setup", [acc, fs, out, inp] => return .setup (← nat acc) (← listOf pairOfJson fs) (← nat out) (← optOf nat inp)
    | "launch", [acc, lv, st] => return .launch (← nat acc) (← listOf nat lv) (← nat st)
    | "await", [acc] => return .await (← nat acc)
    | "pure", [d, op, args] => return .pure (← nat d) (← pureOpOfJson op) (← listOf nat args)
    | "call", [t, e] => return .call (← nat t) (← bool e)
    | "if", [c, t, e] => return .ifS (← nat c) (← pblockOfJson t) (← pblockOfJson e)
    | "for", [lb, ub, st, iv, b] => return .forS (← nat lb) (← nat ub) (← nat st) (← nat iv) (← pblockOfJson b) []
    | "for", [lb, ub, st, iv, b, car] =>
        return .forS (← nat lb) (← nat ub) (← nat st) (← nat iv) (← pblockOfJson b) (← listOf pCarOfJson car)
    | t, _ => throw s!"bad pstmt {t}"
  | [] => throw "empty stmt"
partial def pblockOfJson (j : Json) : Except String PBlock := do
  let l ← listOf pstmtOfJson j
  return l.foldr PBlock.cons PBlock.nil
end

mutual
partial def lstmtOfJson (j : Json) : Except String LStmt := do
  let a ← arr j
  match a.toList with
  | tag :: rest =>
    match (← str tag), rest with
    | "setup", [acc, fs, out, inp] => return .setup (← nat acc) (← listOf pairOfJson fs) (← nat out) (← optOf nat inp)
    | "empty", [acc, out] => return .empty (← nat acc) (← nat out)
    | "launch", [acc, lv, st, cur] => return .launch (← nat acc) (← listOf nat lv) (← optOf nat st) (← bool cur)
    | "await", [acc] => return .await (← nat acc)
    | "pure", [d, op, args] => return .pure (← nat d) (← pureOpOfJson op) (← listOf nat args)
    | "call", [t, e] => return .call (← nat t) (← bool e)
    | "if", [c, t, e, res] =>
        return .ifS (← nat c) (← lblockOfJson t) (← lblockOfJson e) (← listOf ifResOfJson res)
    | "for", [lb, ub, st, iv, b, car] =>
        return .forS (← nat lb) (← nat ub) (← nat st) (← nat iv) (← lblockOfJson b) (← listOf forCarOfJson car)
    | t, _ => throw s!"bad lstmt {t}"
  | [] => throw "empty stmt"
partial def lblockOfJson (j : Json) : Except String LBlock := do
  let l ← listOf lstmtOfJson j
  return l.foldr LBlock.cons LBlock.nil
end

def ifResToJson (r : IfRes) : Json := Json.arr #[jNat r.acc, jNat r.res, jNat r.thn, jNat r.els]
def forCarToJson (c : ForCar) : Json := Json.arr #[jNat c.acc, jNat c.arg, jNat c.init, jNat c.yld, jNat c.res]

mutual
/-- inserted empty setups are printed as the setups they are in the real IR -/
partial def lstmtToJson : LStmt → Json
  | .setup a fs out inp => Json.arr #["setup", jNat a, jList pairToJson fs, jNat out, jOpt jNat inp]
  | .empty a out => Json.arr #["setup", jNat a, Json.arr #[], jNat out, Json.null]
  | .launch a lv st cur => Json.arr #["launch", jNat a, jList jNat lv, jOpt jNat st, Json.bool cur]
  | .await a => Json.arr #["await", jNat a]
  | .pure d op args => Json.arr #["pure", jNat d, pureOpToJson op, jList jNat args]
  | .call t e => Json.arr #["call", jNat t, Json.bool e]
  | .ifS c t e res => Json.arr #["if", jNat c, lblockToJson t, lblockToJson e, jList ifResToJson res]
  | .forS lb ub st iv b car =>
      Json.arr #["for", jNat lb, jNat ub, jNat st, jNat iv, lblockToJson b, jList forCarToJson car]
partial def lblockToJson : LBlock → Json
  | .nil => Json.arr #[]
  | .cons s r => match lblockToJson r with
    | Json.arr xs => Json.arr (#[lstmtToJson s] ++ xs)
    | _ => Json.arr #[lstmtToJson s]
end

def stateToJson : Option LState → Json
  | none => Json.str "no-state"
  | some s => jList pairToJson s

/-- everything the correspondence compares about a traced program: `inferL` of every state value (in definition
order of the owner table) and at every setup / launch -/
def inferReport (L : LBlock) : List (String × Json) :=
  let D := tableOf L
  let fuel := fuelOf L
  [("infer", jList (fun p => Json.arr #[jNat p.1, stateToJson (inferL D fuel [] p.1)]) (ldefsB L)),
   ("annot", jList stateToJson (annotLB D fuel L)),
   ("linksSound", Json.bool (soundChkB D fuel L noFacts)),
   ("ranked", Json.bool (rankedChk (ldefsB L) (ldefsB L).length && closedChk (ldefsB L))),
   ("nstates", jNat (ldefsB L).length)]

/-- args: {"body": untraced program, "fixed": bool (default true: the pass with fixes/FC07a; false: `weaveOld`)}
-> {"woven": traced program, "infer": …, "annot": …, "wf", "nodup", "plain", "bad"} -/
def weaveH : Handler := fun j => do
  let p ← pblockOfJson (← field j "body")
  let fixed ← match j.getObjVal? "fixed" with
    | .ok b => bool b
    | .error _ => pure true
  let L := if fixed then weave p else weaveOld p
  let bad := if fixed then weaveBad p else weaveOldBad p
  return Json.mkObj ([
    ("woven", lblockToJson L),
    ("wf", Json.bool (wfB (eraseP p))), ("nodup", Json.bool (nodupPB p)),
    ("plain", Json.bool (plainPB p)), ("bad", Json.bool bad)] ++ inferReport L)

/-- args: {"body": traced program (converted real IR)} -> {"infer": …, "annot": …} -/
def inferH : Handler := fun j => do
  let L ← lblockOfJson (← field j "body")
  return Json.mkObj (inferReport L)

def handlers : List (String × Handler) :=
  [("c07links.weave", weaveH), ("c07links.infer", inferH)]

end SnaxVerif.Drv.C07Links
