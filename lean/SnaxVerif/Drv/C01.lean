import SnaxVerif.Drv.C07
import SnaxVerif.Model.AccfgRules
import SnaxVerif.Model.AccfgTaint
namespace SnaxVerif.Drv.C01
open Lean SnaxVerif SnaxVerif.Drv SnaxVerif.Accfg SnaxVerif.Drv.C07

/-- args: {"rule": name, "path": [nat], "j": nat (pull only), "body": block, "fields": …}
 -> {"after": block | null, "points": annotation of the program before the step, "wf", "nodup", "sef": [bool] top-level} -/
def step : Handler := fun j => do
  let b ← blockOfJson (← field j "body")
  let fields ← fieldsOfJson (← field j "fields")
  let path ← listOf nat (← field j "path")
  let rule ← match (← str (← field j "rule")) with
    | "simplify" => pure Rule.simplify
    | "merge" => pure Rule.merge
    | "elide" => pure Rule.elide
    | "dce" => pure Rule.dce
    | "hoist" => pure Rule.hoist
    | "pull" => do pure (Rule.pull (← nat (← field j "j")))
    | r => throw s!"unknown rule {r}"
  -- side conditions of `C01.pull_preserves`, evaluated on this concrete step
  let side : Bool := match rule, applyRule rule path b with
    | .pull _, some b' =>
      (match stmtAt path b' with
       | some (.setup a fs) =>
         (match insertAt path (.setup a fs) b, insertAt path (.ghost a fs) b with
          | some b2, some bg =>
            (blockToJson b2).compress == (blockToJson b').compress && noGhostB b' && ((wfB bg && okBb fields bg noFacts) || okTB fields bg [])
          | _, _ => false)
       | _ => false)
    | .dce, some b' => dceSide path b b'
    | _, _ => true
  return Json.mkObj [
    ("side", Json.bool side),
    ("after", jOpt blockToJson (applyRule rule path b)),
    ("points", jList (jList pairToJson) (annotB fields b noFacts)),
    ("wf", Json.bool (wfB b)), ("nodup", Json.bool (nodupB b))]

def handlers : List (String × Handler) := [("c01.step", step)]

end SnaxVerif.Drv.C01
