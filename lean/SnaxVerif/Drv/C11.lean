import SnaxVerif.Drv.Basic
import SnaxVerif.Model.Alloc
namespace SnaxVerif.Drv.C11
open Lean SnaxVerif SnaxVerif.Drv SnaxVerif.Alloc

def errName : Err → String
  | .innerDynamic => "innerDynamic" | .rankMismatch => "rankMismatch" | .zeroDiv => "zeroDiv"
  | .full => "full" | .notStatic => "notStatic" | .noMemSpace => "noMemSpace"
  | .unknownMem => "unknownMem" | .noUse => "noUse" | .firstUseNotCast => "firstUseNotCast"
  | .badSolution => "badSolution" | .notClosed => "notClosed" | .solverFull => "solverFull"
  | .solverFuel => "solverFuel" | .misalignedStart => "misalignedStart" | .badMode => "badMode"
  | .noAlignAttr => "noAlignAttr"

/-- a model error is an ordinary answer `{"error": name}` (protocol errors use `err`) -/
def jErr (e : Err) : Json := Json.mkObj [("error", Json.str (errName e))]

def strideOfJson (j : Json) : Except String Stride := do
  match (← arr j).toList with
  | [s, b] => return ⟨← optOf nat s, ← optOf nat b⟩
  | _ => throw "bad stride"

def layoutOfJson (j : Json) : Except String Layout := do
  let dims ← listOf (listOf strideOfJson) (← field j "dims")
  let off ← nat (← field j "offset")
  return ⟨dims, off⟩

def jNatLL (l : List (List Nat)) : Json := jList (jList jNat) l

/-- args: {"dims": [[[step|null, bound|null]…]…], "offset": n, "el": n, "shape": [n]}
 -> {"size": int, "bounds": [[n]], "steps": [[n]]} | {"error": e} -/
def size : Handler := fun j => do
  let l ← layoutOfJson j
  let el ← nat (← field j "el")
  let sh ← listOf nat (← field j "shape")
  match boundsAll l.dims sh, allocSize l el sh with
  | .ok bs, .ok sz =>
    return Json.mkObj [("size", jInt sz), ("bounds", jNatLL bs), ("steps", jNatLL (stepsAll el l.dims bs))]
  | .error e, _ => return jErr e
  | _, .error e => return jErr e

/-- args: {"el": n, "shape": [n]} -> n -/
def sizeNoLayout : Handler := fun j => do
  let el ← nat (← field j "el")
  let sh ← listOf nat (← field j "shape")
  return jNat (noLayoutSize el sh)

def memOfJson (j : Json) : Except String Mem := do
  match (← arr j).toList with
  | [s, c] => return ⟨← nat s, ← nat c⟩
  | _ => throw "bad mem"

def reqOfJson (j : Json) : Except String Req := do
  match (← arr j).toList with
  | [m, s, a] => return ⟨← optOf nat m, ← optOf nat s, ← nat a⟩
  | _ => throw "bad req"

def jPlaced (p : Placed) : Json := jList jNat [p.mem, p.addr, p.size, p.align]

/-- args: {"mems": [[start, cap]], "reqs": [[mem|null, size|null, align]]} -> [[mem, addr, size, align]] | {"error": e} -/
def static : Handler := fun j => do
  let mems ← listOf memOfJson (← field j "mems")
  let reqs ← listOf reqOfJson (← field j "reqs")
  match staticAlloc mems reqs with
  | .ok ps => return jList jPlaced ps
  | .error e => return jErr e

def kindOfJson (j : Json) : Except String Kind := do
  match ← str j with
  | "ucast" => return .ucast
  | "view" => return .view
  | "sel" => return .sel
  | "other" => return .other
  | k => throw s!"bad kind {k}"

def nodeOfJson (j : Json) : Except String Node := do
  match (← arr j).toList with
  | [k, o, r] => return ⟨← kindOfJson k, ← listOf nat o, ← listOf nat r⟩
  | _ => throw "bad node"

def firstUseOfJson (j : Json) : Except String (Option (Option Nat)) :=
  if j.isNull then pure none
  else match j.getStr? with
    | .ok _ => pure (some none)
    | .error _ => do return some (some (← nat j))

def topOfJson (j : Json) : Except String TopOp := do
  match (← arr j).toList with
  | [t, a, b, c] =>
    if (← str t) == "alloc" then return .alloc (← nat a) (← reqOfJson b) (← firstUseOfJson c)
    else throw "bad top op"
  | [t, a, b] =>
    if (← str t) == "op" then return .op (← listOf nodeOfJson a) (← bool b)
    else throw "bad top op"
  | _ => throw "bad top op"

def modeOfJson (j : Json) : Except String ViewMode := do
  match ← str j with
  | "orig" => return .orig
  | "fixed" => return .fixed
  | m => throw s!"bad mode {m}"

def jBuf (b : Buf) : Json := jList jNat [b.start, b.stop, b.size, b.align, b.mem, b.castRes]
def jPair (p : Nat × Nat) : Json := jList jNat [p.1, p.2]

/-- args: {"mode": "orig"|"fixed", "prog": [top]} -> {"bufs": …, "deallocs": …} | {"error": e}
 (everything `MiniMallocate` does before it calls the solver) -/
def lifetimesH : Handler := fun j => do
  let vm ← modeOfJson (← field j "mode")
  let p ← listOf topOfJson (← field j "prog")
  let mems ← listOf memOfJson (← field j "mems")
  match lifetimes vm p with
  | .error e => return jErr e
  | .ok bs =>
    match checkMems mems bs with
    | .error e => return jErr e
    | .ok _ => return Json.mkObj [("bufs", jList jBuf bs), ("deallocs", jList jPair (deallocs p bs))]

/-- args: {"mode", "mems", "prog", "sol": [[offset…] per memory index]} ->
 {"bufs", "deallocs", "placed", "contract": [bool per memory]} | {"error": e} -/
def mini : Handler := fun j => do
  let vm ← modeOfJson (← field j "mode")
  let p ← listOf topOfJson (← field j "prog")
  let mems ← listOf memOfJson (← field j "mems")
  let sol ← listOf (listOf nat) (← field j "sol")
  let solf : Nat → List Nat := fun m => sol.getD m []
  match miniMallocate vm mems solf p with
  | .error e => return jErr e
  | .ok r =>
    let contract := (mems.zipIdx).map fun (mem, m) => contractOk (subset r.bufs m) mem.cap (solf m)
    return Json.mkObj [("bufs", jList jBuf r.bufs), ("deallocs", jList jPair r.deallocs),
      ("placed", jList jPlaced (r.placed.map (·.2))), ("contract", jList Json.bool contract)]

def bufOfJson (j : Json) : Except String Buf := do
  match (← arr j).toList with
  | [s, e, sz, al] => return ⟨0, ← nat s, ← nat e, ← nat sz, ← nat al, 0, 0⟩
  | _ => throw "bad buffer"

/-- args: {"bufs": [[start, end, size, align]], "cap": n} -> [offset] | {"error": e}
 (the first-fit solver, compared with the harness stand-in of `minimalloc` on every problem) -/
def firstfitH : Handler := fun j => do
  let bufs ← listOf bufOfJson (← field j "bufs")
  let cap ← nat (← field j "cap")
  -- buffers are told apart by their position (`res` field), as the stub tells them apart by identity
  let bufs := bufs.zipIdx.map fun (b, i) => { b with res := i }
  match firstFit bufs cap with
  | .ok offs => return jList jNat offs
  | .error e => return jErr e

/-- args: {"mode", "mems", "prog", "checked": bool} -> {"bufs", "deallocs", "placed", "wellord"} | {"error": e}
 (`MiniMallocate` with the first-fit solver plugged in; `checked` = with the proposed fix FC11a) -/
def miniff : Handler := fun j => do
  let vm ← modeOfJson (← field j "mode")
  let p ← listOf topOfJson (← field j "prog")
  let mems ← listOf memOfJson (← field j "mems")
  let checked ← bool (← field j "checked")
  let res : Except Err MiniResult :=
    if checked then miniMallocateFFChecked vm mems p else miniMallocateFF vm mems p
  match res with
  | .error e => return jErr e
  | .ok r =>
    return Json.mkObj [("bufs", jList jBuf r.bufs), ("deallocs", jList jPair r.deallocs),
      ("placed", jList jPlaced (r.placed.map (·.2))), ("wellord", Json.bool (wellOrdB (flat p)))]

/-- args: {"sizes": [n|null]} -> bool (`allocs_are_static`) -/
def auto : Handler := fun j => do
  let sizes ← listOf (optOf nat) (← field j "sizes")
  return Json.bool (allocsAreStatic sizes)

/-- args: {"addr": n, "shape": [n]} -> [ptr, aligned, offset, [sizes]] -/
def descr : Handler := fun j => do
  let a ← nat (← field j "addr")
  let sh ← listOf nat (← field j "shape")
  let (p, q, o, s) := descriptor a sh
  return Json.arr #[jNat p, jNat q, jNat o, jList jNat s]

/-- args: {"mode": str, "sizes": [n|null], "blocks": n} -> "dynamic" | "static" | "minimalloc" | "noop" | {"error": e}
 (`SnaxAllocatePass.apply` dispatch, `allocs_are_static`, single-block guard of MiniMallocate) -/
def select : Handler := fun j => do
  let m ← str (← field j "mode")
  let sizes ← listOf (optOf nat) (← field j "sizes")
  let nb ← nat (← field j "blocks")
  match modeOfString m with
  | .error e => return jErr e
  | .ok mode =>
    match selectPattern mode sizes with
    | .dynamicAllocs => return Json.str "dynamic"
    | .staticAllocs => return Json.str "static"
    | .miniMallocate => return Json.str (if miniApplies nb then "minimalloc" else "noop")

/-- args: {"allocs": [[isL1: bool, align|null]]} -> [align | null (= left alone)] | {"error": e} -/
def dynamicH : Handler := fun j => do
  let allocs ← listOf (fun a => do
    match (← arr a).toList with
    | [l, al] => return (← bool l, ← optOf nat al)
    | _ => throw "bad alloc") (← field j "allocs")
  match dynamicAllocs allocs with
  | .error e => return jErr e
  | .ok outs => return jList (fun o => match o with | .left => Json.null | .call a => jNat a) outs

def handlers : List (String × Handler) :=
  [("c11.size", size), ("c11.size_nolayout", sizeNoLayout), ("c11.static", static),
   ("c11.lifetimes", lifetimesH), ("c11.mini", mini), ("c11.auto", auto), ("c11.descr", descr),
   ("c11.firstfit", firstfitH), ("c11.miniff", miniff), ("c11.select", select), ("c11.dynamic", dynamicH)]

end SnaxVerif.Drv.C11
