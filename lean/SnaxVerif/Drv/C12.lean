import SnaxVerif.Drv.Basic
import SnaxVerif.Model.Casts
namespace SnaxVerif.Drv.C12
open Lean SnaxVerif SnaxVerif.Drv SnaxVerif.Tsl SnaxVerif.Casts

def errName : Err → String
  | .valueError => "ValueError" | .assertionError => "AssertionError"
  | .notImplemented => "NotImplementedError" | .parseError => "ParseError"
  | .indexError => "IndexError" | .typeError => "TypeError" | .divZero => "ZeroDivisionError"
  | .negative => "negative-literal-outside-model"

def jExc {α} (f : α → Json) : Except Err α → Json
  | .ok a => f a
  | .error e => Json.mkObj [("raised", Json.str (errName e))]

def strideOfJson (j : Json) : Except String Stride := do
  match (← arr j).toList with
  | [s, b] => return ⟨← optOf nat s, ← optOf nat b⟩
  | _ => throw "bad stride"

def layoutOfJson (j : Json) : Except String Layout := do
  let ts ← listOf (listOf strideOfJson) (← field j "ts")
  let off ← optOf int (← field j "offset")
  return ⟨ts, off⟩

/-- args: {"data": [int], "layout": L} -> {"raised": cls} | null (not transformed) | [int] -/
def transformConstantH : Handler := fun j => do
  let data ← listOf int (← field j "data")
  let l ← layoutOfJson (← field j "layout")
  let ro := match j.getObjVal? "refuse_offset" with
    | .ok (.bool b) => b
    | _ => false
  return jExc (jOpt (jList jInt)) (transformConstantF ro data l)

/-- args: {"a": [int], "cols": n, "rows": n} -/
def transposeTupleH : Handler := fun j => do
  let a ← listOf int (← field j "a")
  return jExc (jList jInt) (transposeTuple a (← nat (← field j "cols")) (← nat (← field j "rows")))

def tyOfJson (j : Json) : Except String Ty := do
  if j.isNull then return none
  match ← str j with
  | "none" => return some .none
  | "L1" => return some .l1
  | "L3" => return some .l3
  | _ => return some (.other 0)

def tyToJson : Ty → Json
  | none => Json.null
  | some .none => "none"
  | some .l1 => "L1"
  | some .l3 => "L3"
  | some (.other _) => "other"

/-- args: {"pub": bool, "ins": [ty], "outs": [ty], "operands": [ty], "allocs": [ty], "globals": [ty],
    "returns": [[declared, actual]]} -/
def memspaceH : Handler := fun j => do
  let f : FuncSig := ⟨← bool (← field j "pub"), ← listOf tyOfJson (← field j "ins"), ← listOf tyOfJson (← field j "outs")⟩
  let ops ← listOf tyOfJson (← field j "operands")
  let allocs ← listOf tyOfJson (← field j "allocs")
  let globals ← listOf tyOfJson (← field j "globals")
  let g := initFunc f
  return Json.mkObj [("ins", jList tyToJson g.ins), ("outs", jList tyToJson g.outs),
    ("operands", jList tyToJson (ops.map initOperand)), ("allocs", jList tyToJson (allocs.map initAlloc)),
    ("globals", jList tyToJson (globals.map initGlobal))]

def opdOfJson (j : Json) : Except String Opd := do
  match j with
  | .str "cast" => return .cast
  | _ => return .direct (← listOf nat j)

def opdToJson : Opd → Json
  | .cast => "cast"
  | .direct cs => jList jNat cs

mutual
partial def itemOfJson (j : Json) : Except String Item := do
  match (← arr j).toList with
  | [.str "leaf", t, i, o] => return .leaf (← nat t) (← listOf opdOfJson i) (← listOf opdOfJson o)
  | [.str "copy", a, b] => return .copy (← listOf nat a) (← listOf nat b)
  | [.str "copyIn"] => return .copyIn
  | [.str "copyOut"] => return .copyOut
  | [.str "loop", id, b] => return .loop (← nat id) (← blkOfJson b)
  | _ => throw "bad item"
partial def blkOfJson (j : Json) : Except String Blk := do
  let items ← (← arr j).toList.mapM itemOfJson
  return items.foldr Blk.cons Blk.nil
end

mutual
partial def itemToJson : Item → Json
  | .leaf t i o => Json.arr #["leaf", jNat t, jList opdToJson i, jList opdToJson o]
  | .copy a b => Json.arr #["copy", jList jNat a, jList jNat b]
  | .copyIn => Json.arr #["copyIn"]
  | .copyOut => Json.arr #["copyOut"]
  | .loop id b => Json.arr #["loop", jNat id, blkToJson b]
partial def blkToJson : Blk → Json
  | .nil => Json.arr #[]
  | .cons i r =>
    match blkToJson r with
    | .arr a => Json.arr (#[itemToJson i] ++ a)
    | x => x
end

/-- args: {"fixed": bool, "blk": B} -> B -/
def realizeH : Handler := fun j => do
  let b ← blkOfJson (← field j "blk")
  return blkToJson (realize (← bool (← field j "fixed")) b)

/-- args: {"src": [nat], "alloc": [nat], "blk": B} -> bool -/
def chkH : Handler := fun j => do
  let b ← blkOfJson (← field j "blk")
  return Json.bool (chk (← listOf nat (← field j "src")) (← listOf nat (← field j "alloc")) b)

/-- args: {"src": [nat], "alloc": [nat], "blk": B} -> bool: the syntactic clauses hold for the (original) block -/
def syntacticH : Handler := fun j => do
  let b ← blkOfJson (← field j "blk")
  return Json.bool (synB (← listOf nat (← field j "src")) (← listOf nat (← field j "alloc")) b)

mutual
partial def mitemOfJson (j : Json) : Except String MItem := do
  match (← arr j).toList with
  | [.str "op", n] => return .op (← listOf nat n)
  | [.str "loop", b] => return .loop (← mblkOfJson b)
  | _ => throw "bad mitem"
partial def mblkOfJson (j : Json) : Except String MBlk := do
  let items ← (← arr j).toList.mapM mitemOfJson
  return items.foldr MBlk.cons MBlk.nil
end

/-- args: {"fixed": bool, "body": M} -> [[op path, value, cast position]] -/
def assignCastsH : Handler := fun j => do
  let b ← mblkOfJson (← field j "body")
  let r := assignCasts (← bool (← field j "fixed")) b
  return jList (fun e => Json.arr #[jList jNat e.1, jNat e.2.1, jList jNat e.2.2]) r

/-- args: {"shape": [nat|null], "rt": [nat]} -> {"dims": [nat], "alloc": [nat]} -/
def standInH : Handler := fun j => do
  let shape ← listOf (optOf nat) (← field j "shape")
  let rt ← listOf nat (← field j "rt")
  return Json.mkObj [("dims", jList jNat (dynIdx shape 0)), ("alloc", jList jNat (standInShape shape rt))]

/-- args: {"layout": L (static), "shape": [nat], "data": [int] | null, "refuse_offset": bool}
    -> {"layout": [[[step, bound]]], "data": transformConstant of the data under the new layout} -/
def subviewGlobalH : Handler := fun j => do
  let l ← layoutOfJson (← field j "layout")
  let shape ← listOf nat (← field j "shape")
  let ro := match j.getObjVal? "refuse_offset" with
    | .ok (.bool b) => b
    | _ => false
  let flag := fun (k : String) => match j.getObjVal? k with
    | .ok (.bool b) => b
    | _ => false
  let offs : List (Option Nat) := match j.getObjVal? "offs" with
    | .ok o => (listOf (optOf nat) o).toOption.getD []
    | _ => []
  match static? l with
  | none => return Json.mkObj [("layout", Json.null)]
  | some s =>
    if !subviewGlobalGuard (flag "fix_whole") (flag "fix_aligned") s shape offs then
      return Json.mkObj [("layout", Json.null), ("guard", Json.bool false)]
    let n := subviewGlobalLayout s shape
    let dataJ ← field j "data"
    let res : Json ← if dataJ.isNull then pure Json.null else do
      let data ← listOf int dataJ
      pure (jExc (jOpt (jList jInt)) (transformConstantF ro data (ofStatic n l.offset)))
    return Json.mkObj [("layout", jList (jList fun x => Json.arr #[jNat x.step, jNat x.bound]) n), ("data", res)]

def handlers : List (String × Handler) :=
  [("c12.transformConstant", transformConstantH), ("c12.transposeTuple", transposeTupleH),
   ("c12.memspace", memspaceH), ("c12.realize", realizeH), ("c12.chk", chkH), ("c12.syntactic", syntacticH),
   ("c12.assignCasts", assignCastsH), ("c12.standIn", standInH),
   ("c12.subviewGlobal", subviewGlobalH)]

end SnaxVerif.Drv.C12
