import SnaxVerif.Drv.Basic
import SnaxVerif.Model.Accfg
namespace SnaxVerif.Drv.C07
open Lean SnaxVerif SnaxVerif.Drv SnaxVerif.Accfg

def pureOpOfJson (j : Json) : Except String PureOp := do
  let a ← arr j
  match a.toList with
  | [t] =>
    match (← str t) with
    | "add" => pure .add | "sub" => pure .sub | "mul" => pure .mul | "cast" => pure .cast
    | s => throw s!"bad pure op {s}"
  | [t, c] =>
    match (← str t) with
    | "const" => return .const (← int c)
    | "opaque" => return .opaque (← nat c)
    | s => throw s!"bad pure op {s}"
  | _ => throw "bad pure op"

def pairOfJson (j : Json) : Except String (Field × Var) := do
  let a ← arr j
  match a.toList with
  | [f, v] => return (← nat f, ← nat v)
  | _ => throw "bad pair"

mutual
partial def stmtOfJson (j : Json) : Except String Stmt := do
  let a ← arr j
  match a.toList with
  | tag :: rest =>
    match (← str tag), rest with
    | "setup", [acc, fs] => return .setup (← nat acc) (← listOf pairOfJson fs)
    | "ghost", [acc, fs] => return .ghost (← nat acc) (← listOf pairOfJson fs)
    | "launch", [acc, lv] => return .launch (← nat acc) (← listOf nat lv)
    | "await", [acc] => return .await (← nat acc)
    | "pure", [d, op, args] => return .pure (← nat d) (← pureOpOfJson op) (← listOf nat args)
    | "call", [t, e] => return .call (← nat t) (← bool e)
    | "if", [c, t, e] => return .ifS (← nat c) (← blockOfJson t) (← blockOfJson e)
    | "for", [lb, ub, st, iv, b] => return .forS (← nat lb) (← nat ub) (← nat st) (← nat iv) (← blockOfJson b)
    | t, _ => throw s!"bad stmt {t}"
  | [] => throw "empty stmt"
partial def blockOfJson (j : Json) : Except String Block := do
  let l ← listOf stmtOfJson j
  return l.foldr Block.cons Block.nil
end

def pureOpToJson : PureOp → Json
  | .add => Json.arr #["add"] | .sub => Json.arr #["sub"] | .mul => Json.arr #["mul"] | .cast => Json.arr #["cast"]
  | .const c => Json.arr #["const", jInt c] | .opaque t => Json.arr #["opaque", jNat t]

def pairToJson (p : Field × Var) : Json := Json.arr #[jNat p.1, jNat p.2]

mutual
partial def stmtToJson : Stmt → Json
  | .setup a fs => Json.arr #["setup", jNat a, jList pairToJson fs]
  | .ghost a fs => Json.arr #["ghost", jNat a, jList pairToJson fs]
  | .launch a lv => Json.arr #["launch", jNat a, jList jNat lv]
  | .await a => Json.arr #["await", jNat a]
  | .pure d op args => Json.arr #["pure", jNat d, pureOpToJson op, jList jNat args]
  | .call t e => Json.arr #["call", jNat t, Json.bool e]
  | .ifS c t e => Json.arr #["if", jNat c, blockToJson t, blockToJson e]
  | .forS lb ub st iv b => Json.arr #["for", jNat lb, jNat ub, jNat st, jNat iv, blockToJson b]
partial def blockToJson : Block → Json
  | .nil => Json.arr #[]
  | .cons s r => match blockToJson r with
    | Json.arr xs => Json.arr (#[stmtToJson s] ++ xs)
    | _ => Json.arr #[stmtToJson s]
end

/-- "fields": [[acc, [field ids]]...] -/
def fieldsOfJson (j : Json) : Except String (AccId → List Field) := do
  let l ← listOf (fun e => do
    let a ← arr e
    match a.toList with
    | [acc, fs] => return ((← nat acc), (← listOf nat fs))
    | _ => throw "bad fields") j
  return fun a => (l.lookup a).getD []

/-- the clobber function of the harness's CSR machine: every register := -(10^9 + call tag) -/
def drvCfg (fields : AccId → List Field) : Cfg :=
  { fields := fields, clob := fun tag _ => fun _ _ => -(1000000000 + (tag : Int)), opq := fun _ _ => 0 }

def eventToJson : Event → Json
  | .launch a snap lv => Json.arr #["launch", jNat a, jList jInt snap, jList jInt lv]
  | .await a => Json.arr #["await", jNat a]
  | .call t => Json.arr #["call", jNat t]

/-- args: {"body": block, "fields": …} -> {"annot": [[[f,x]…]…], "wf": bool, "nodup": bool} -/
def analyse : Handler := fun j => do
  let b ← blockOfJson (← field j "body")
  let fields ← fieldsOfJson (← field j "fields")
  return Json.mkObj [
    ("annot", jList (jList pairToJson) (annotB fields b noFacts)),
    ("wf", Json.bool (wfB b)), ("nodup", Json.bool (nodupB b))]

/-- args: {"body":…, "fields":…, "args": [int] (values of vars 0..n-1), "init": int (every register)} -> trace -/
def exec : Handler := fun j => do
  let b ← blockOfJson (← field j "body")
  let fields ← fieldsOfJson (← field j "fields")
  let args ← listOf int (← field j "args")
  let init ← int (← field j "init")
  let st : St := { env := fun v => args.getD v 0, regs := fun _ _ => init, tr := [] }
  return jList eventToJson (execB (drvCfg fields) false b st).tr

def handlers : List (String × Handler) :=
  [("c07.analyse", analyse), ("c07.exec", exec)]

end SnaxVerif.Drv.C07
