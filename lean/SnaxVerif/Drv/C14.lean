import SnaxVerif.Drv.Basic
import SnaxVerif.Model.Dispatch
namespace SnaxVerif.Drv.C14
open Lean SnaxVerif SnaxVerif.Drv SnaxVerif.Dispatch

def accOfJson (j : Json) : Except String Acc := do
  match (← str j) with
  | "none" => pure .none | "unreg" => pure .unreg | "other" => pure .other | "xdma" => pure .xdma
  | s => throw s!"bad acc {s}"

def kindOfJson (j : Json) : Except String OpKind := do
  match (← arr j).toList with
  | [t] =>
    match (← str t) with
    | "copy" => pure .copy | "generic" => pure .generic | "other" => pure .other | "corecall" => pure .coreCall
    | s => throw s!"bad kind {s}"
  | [t, a, fg, ms] =>
    if (← str t) == "stream" then return .stream (← accOfJson a) (← bool fg) (← listOf bool ms)
    else throw "bad kind"
  | _ => throw "bad kind"

def accToJson : Acc → Json
  | .none => "none" | .unreg => "unreg" | .other => "other" | .xdma => "xdma"

def kindToJson : OpKind → Json
  | .copy => Json.arr #["copy"] | .generic => Json.arr #["generic"] | .other => Json.arr #["other"]
  | .coreCall => Json.arr #["corecall"]
  | .stream a fg ms => Json.arr #["stream", accToJson a, Json.bool fg, jList Json.bool ms]

mutual
partial def opOfJson (j : Json) : Except String Op := do
  match (← arr j).toList with
  | tag :: rest =>
    match (← str tag), rest with
    | "leaf", [i, k, inner] => return .leaf ⟨← nat i, ← kindOfJson k, ← bool inner⟩
    | "guard", [c, b] => return .guard (← nat c) (← blkOfJson b)
    | "reg", [k, kind, rs] =>
      let l ← listOf blkOfJson rs
      return .reg (← nat k) (← nat kind) (l.foldr Regs.cons Regs.nil)
    | t, _ => throw s!"bad op {t}"
  | [] => throw "empty op"
partial def blkOfJson (j : Json) : Except String Blk := do
  let l ← listOf opOfJson j
  return l.foldr Blk.cons Blk.nil
end

mutual
partial def opToJson : Op → Json
  | .leaf l => Json.arr #["leaf", jNat l.id, kindToJson l.kind, Json.bool l.inner]
  | .guard c b => Json.arr #["guard", jNat c, blkToJson b]
  | .reg k kind rs => Json.arr #["reg", jNat k, jNat kind, regsToJson rs]
partial def blkToJson : Blk → Json
  | .nil => Json.arr #[]
  | .cons o r => match blkToJson r with
    | Json.arr xs => Json.arr (#[opToJson o] ++ xs)
    | _ => Json.arr #[opToJson o]
partial def regsToJson : Regs → Json
  | .nil => Json.arr #[]
  | .cons b rs => match regsToJson rs with
    | Json.arr xs => Json.arr (#[blkToJson b] ++ xs)
    | _ => Json.arr #[blkToJson b]
end

def termOfJson (j : Json) : Except String Dispatch.Term := do
  match (← arr j).toList with
  | [t] => if (← str t) == "ret" then pure .ret else throw "bad term"
  | [t, a] => if (← str t) == "br" then return .br (← nat a) else throw "bad term"
  | [t, k, a, b] => if (← str t) == "cbr" then return .cbr (← nat k) (← nat a) (← nat b) else throw "bad term"
  | _ => throw "bad term"

def termToJson : Dispatch.Term → Json
  | .ret => Json.arr #["ret"]
  | .br t => Json.arr #["br", jNat t]
  | .cbr k t e => Json.arr #["cbr", jNat k, jNat t, jNat e]

def preOfJson (j : Json) : Except String Pre := do
  match (← arr j).toList with
  | [t, a] =>
    match (← str t) with
    | "call" => return .call (← listOf nat a)
    | "pinned" => return .pinned (← nat a)
    | "const" => return .const (← nat a)
    | "cmp" => return .cmp (← nat a)
    | s => throw s!"bad pre {s}"
  | _ => throw "bad pre"

def preToJson : Pre → Json
  | .call p => Json.arr #["call", jList jNat p]
  | .pinned k => Json.arr #["pinned", jNat k]
  | .const v => Json.arr #["const", jNat v]
  | .cmp c => Json.arr #["cmp", jNat c]

def bbOfJson (j : Json) : Except String BB := do
  return ⟨← blkOfJson (← field j "body"), ← termOfJson (← field j "term")⟩

def bbToJson (bb : BB) : Json := Json.mkObj [("body", blkToJson bb.body), ("term", termToJson bb.term)]

def funcOfJson (j : Json) : Except String Func := do
  return ⟨← listOf preOfJson (← field j "pre"), ← listOf bbOfJson (← field j "blocks")⟩

def funcToJson (f : Func) : Json :=
  Json.mkObj [("pre", jList preToJson f.pre), ("blocks", jList bbToJson f.blocks)]

def errName : RuleErr → String
  | .assertion => "AssertionError"
  | .notRegistered => "Exception"

/-- optional "rules": true = `dispatch_to_compute` with fixes/FC14a (default false = upstream) -/
def rulesArg (j : Json) : Except String Bool :=
  match j.getObjVal? "rules" with
  | .ok v => bool v
  | .error _ => pure false

/-- args {"nb", "func", "fixed", "rules"?} -> {"func", "decl"} | {"raised"} -/
def dispatchH : Handler := fun j => do
  let r ← rulesArg j
  let nb ← nat (← field j "nb")
  let f ← funcOfJson (← field j "func")
  let fixed ← bool (← field j "fixed")
  if nb == 0 then throw "nb = 0 is outside the model"
  if fixed then
    match dispatchE r nb f with
    | .error e => return Json.mkObj [("raised", Json.str (errName e))]
    | .ok g => return Json.mkObj [("func", funcToJson g), ("decl", Json.bool (declInserted r nb f))]
  else
    let g := dispatch r false nb f
    return Json.mkObj [("func", funcToJson g), ("decl", Json.bool (!g.pre.isEmpty || changedBlocks isCoreCall f.blocks))]

def itemOfJson (j : Json) : Except String Item :=
  match j.getStr? with
  | .ok "coredecl" => pure .coreDecl
  | .ok s => throw s!"bad item {s}"
  | .error _ => do return .fn (← funcOfJson (← field j "fn"))

def itemToJson : Item → Json
  | .coreDecl => Json.str "coredecl"
  | .fn f => Json.mkObj [("fn", funcToJson f)]

/-- args {"nb", "items", "rules"?, "declfix"?} -> {"items"} | {"raised"} : the whole pass on a module (fixed tree) -/
def moduleH : Handler := fun j => do
  let r ← rulesArg j
  let declFix ← (match j.getObjVal? "declfix" with | .ok v => bool v | .error _ => pure false)
  let nb ← nat (← field j "nb")
  let items ← listOf itemOfJson (← field j "items")
  if nb == 0 then throw "nb = 0 is outside the model"
  match dispatchModuleE r declFix nb items with
  | .error (.rule e) => return Json.mkObj [("raised", Json.str (errName e))]
  | .error .detachedDecl => return Json.mkObj [("raised", Json.str "ValueError")]
  | .ok out => return Json.mkObj [("items", jList itemToJson out)]

/-- args {"func", "core", "seed", "fuel", "entry"} -> executed op ids under `stdOrc seed` -/
def runH : Handler := fun j => do
  let f ← funcOfJson (← field j "func")
  let core ← nat (← field j "core")
  let seed ← nat (← field j "seed")
  let fuel ← nat (← field j "fuel")
  let entry ← nat (← field j "entry")
  return jList jNat ((runF core (stdOrc seed) f fuel entry).map (·.id))

/-- args {"func", "k"} -> func -/
def pinH : Handler := fun j => do
  let f ← funcOfJson (← field j "func")
  return funcToJson (pin (← nat (← field j "k")) f)

def resToJson : Except RuleErr Bool → Json
  | .ok b => Json.bool b
  | .error e => Json.mkObj [("raised", Json.str (errName e))]

/-- args {"kind"} -> {"dm", "cp"} -/
def rulesH : Handler := fun j => do
  let k ← kindOfJson (← field j "kind")
  let r ← rulesArg j
  return Json.mkObj [("dm", resToJson (ruleDm k)), ("cp", resToJson (ruleCp r k))]

/-- args {"func", "nb", "core"} -> ids of the original trace the rule allows on `core` -/
def filteredH : Handler := fun j => do
  let f ← funcOfJson (← field j "func")
  let nb ← nat (← field j "nb")
  let core ← nat (← field j "core")
  let seed ← nat (← field j "seed")
  let fuel ← nat (← field j "fuel")
  let entry ← nat (← field j "entry")
  let r ← rulesArg j
  return jList jNat (((runF core (stdOrc seed) f fuel entry).filter (allowed r nb (coreOf f core))).map (·.id))

/-- args {"name", "tys"} -> [bool] : `matchesOf` (the model's copy of the extension kernel table) -/
def matchesH : Handler := fun j => do
  let name ← str (← field j "name")
  let tys ← listOf str (← field j "tys")
  return jList Json.bool (matchesOf ⟨name, tys⟩)

def handlers : List (String × Handler) :=
  [("c14.dispatch", dispatchH), ("c14.run", runH), ("c14.pin", pinH), ("c14.rules", rulesH),
   ("c14.filtered", filteredH), ("c14.matches", matchesH), ("c14.module", moduleH)]

end SnaxVerif.Drv.C14
