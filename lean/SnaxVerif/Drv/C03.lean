import SnaxVerif.Drv.Basic
import SnaxVerif.Model.Scheduler
import SnaxVerif.Model.AffineTransform
/-! Driver entry points for C03 / C16 (scheduler model). Not part of any proof. -/
namespace SnaxVerif.Drv.C03
open Lean SnaxVerif SnaxVerif.Drv SnaxVerif.Sched

def operandOfJson (j : Json) : Except String Operand := do
  return { rows := ← listOf (listOf int) (← field j "A"), b := ← listOf int (← field j "b") }

def schedOfJson (j : Json) : Except String Schedule := do
  let s : Schedule := { bounds := ← listOf nat (← field j "bounds"), ops := ← listOf operandOfJson (← field j "ops") }
  if !wfB s then throw "schedule not well-formed (bounds > 0, row lengths, b length)"
  return s

def tmplOfJson (j : Json) : Except String Template := do
  let t : Template := { bounds := ← listOf (optOf nat) (← field j "bounds"), ops := ← listOf operandOfJson (← field j "ops") }
  if !(t.ops.all fun o => o.rows.all (·.length == t.bounds.length) && o.rows.length == o.b.length) then
    throw "template not well-formed"
  return t

def operandToJson (o : Operand) : Json :=
  Json.mkObj [("A", jList (jList jInt) o.rows), ("b", jList jInt o.b)]

def schedToJson (s : Schedule) : Json :=
  Json.mkObj [("bounds", jList jNat s.bounds), ("ops", jList operandToJson s.ops)]

def errName : Err → String
  | .indexError => "IndexError" | .valueError => "ValueError" | .zeroDivision => "ZeroDivisionError"
  | .assertion => "AssertionError" | .outOfFuel => "OUT_OF_FUEL" | .certificate => "NO_CERTIFICATE" | .runtime => "RuntimeError"

def jExcept {α} (f : α → Json) : Except Err α → Json
  | .ok a => f a
  | .error e => Json.mkObj [("raised", Json.str (errName e))]

inductive Check | pos | mem (sizes : List Nat) | ocs (ch : Nat)

def checkOfJson (j : Json) : Except String Check := do
  let a ← arr j
  match a.toList with
  | [tag] => if (← str tag) == "pos" then return .pos else throw "bad check"
  | [tag, sz] =>
    if (← str tag) == "mem" then
      let sizes ← listOf nat sz
      if sizes.any (· == 0) then throw "element size 0" else return .mem sizes
    else if (← str tag) == "ocs" then return .ocs (← nat sz)
    else throw "bad check"
  | _ => throw "bad check"

def Check.fn : Check → Template → Schedule → Bool
  | .pos => isPureOutputStationary
  | .mem sizes => isMemoryFlexibleEnough sizes
  -- is_output_channel_stationary as an extra check; the generators only use channel dims for which it cannot raise
  | .ocs ch => fun t s => match isOutputChannelStationary ch t s with | .ok b => b | .error _ => false

def rotateH : Handler := fun j => do
  return jExcept schedToJson (rotate (← nat (← field j "d")) (← schedOfJson (← field j "s")))

def tileH : Handler := fun j => do
  return jExcept schedToJson (tile (← nat (← field j "d")) (← nat (← field j "t")) (← schedOfJson (← field j "s")))

def addDimH : Handler := fun j => do return schedToJson (addDim (← schedOfJson (← field j "s")))
def clearH : Handler := fun j => do return schedToJson (clearUnused (← schedOfJson (← field j "s")))
def clearWithH : Handler := fun j => do
  let s ← schedOfJson (← field j "s")
  if s.ops.isEmpty then throw "clear_unused_dims(bounds) on an empty collection is not modelled"
  return jExcept schedToJson (clearUnusedWith (← listOf nat (← field j "bounds")) s)

def canonH : Handler := fun j => do return schedToJson (canonicalize (← schedOfJson (← field j "s")))

def innerH : Handler := fun j => do
  return jExcept schedToJson (inner (← nat (← field j "k")) (← schedOfJson (← field j "s")))

def imageH : Handler := fun j => do
  return jList (jList (jList jInt)) (imageS (← schedOfJson (← field j "s")))

def backtrackH : Handler := fun j => do
  let t ← tmplOfJson (← field j "t")
  let s ← schedOfJson (← field j "s")
  let k ← nat (← field j "k")
  let fuel ← nat (← field j "fuel")
  let checks ← listOf checkOfJson (← field j "checks")
  return jExcept (jList schedToJson) (backtrack matchesQ (checks.map Check.fn) t fuel s k)

def matchesH : Handler := fun j => do
  return jExcept Json.bool (matchesQ (← tmplOfJson (← field j "t")) (← schedOfJson (← field j "s")))

def sameSpaceH : Handler := fun j => do
  return jOpt Json.bool (sameRowSpaceD (← listOf (listOf int) (← field j "A")) (← listOf (listOf int) (← field j "B")))

def checkH : Handler := fun j => do
  let t ← tmplOfJson (← field j "t")
  let s ← schedOfJson (← field j "s")
  return Json.bool ((← checkOfJson (← field j "check")).fn t s)

def ocsH : Handler := fun j => do
  let t ← tmplOfJson (← field j "t")
  let s ← schedOfJson (← field j "s")
  return jExcept Json.bool (isOutputChannelStationary (← nat (← field j "ch")) t s)

/-- args: {"bounds": [int], "ops": [...]} -> {"accepted": schedule} | {"raised": "ValueError"} -/
def constructH : Handler := fun j => do
  let bounds ← listOf int (← field j "bounds")
  let ops ← listOf operandOfJson (← field j "ops")
  if ops.any (fun o => o.rows.length != o.b.length) then throw "operand: A and b disagree on the number of rows"
  return jExcept (fun s => Json.mkObj [("accepted", schedToJson s)]) (construct bounds ops)

/-- args: {"n": dims, "results": [aexpr]} -> {"A","b"} | {"raised": "ValueError"} -/
def fromMapE (n : Nat) (results : List AExpr) : Except Err Operand :=
  match AT.fromMap n results with
  | .error .valueError => .error .valueError
  | .error .indexError => .error .indexError
  | .ok t => .ok { rows := t.A, b := t.b }

def fromMapH : Handler := fun j => do
  let n ← nat (← field j "n")
  let results ← listOf aexprOfJson (← field j "results")
  return jExcept operandToJson (fromMapE n results)

/-- args: {"t", "s", "sizes", "fuel"[, "expr0": [aexpr]][, "exprs": [null | [aexpr]]]} -> schedule | {"raised": ..}
(empty generator = StopIteration).  With "expr0" / "exprs" the (A, b) of the named operands are built by
`AT.fromMap` from these result expressions (the placeholders in "s" are replaced); a rejected map is the pass's
ValueError.  The search is the lazy `autoflowFirst` (= `next(..)` in the pass). -/
def autoflowH : Handler := fun j => do
  let t ← tmplOfJson (← field j "t")
  let s0 ← schedOfJson (← field j "s")
  let exprs : List (Option (List AExpr)) ← match (j.getObjVal? "exprs").toOption with
    | some ej => listOf (optOf (listOf aexprOfJson)) ej
    | none => match (j.getObjVal? "expr0").toOption with
      | some ej => do pure [some (← listOf aexprOfJson ej)]
      | none => pure []
  -- operands in order, the first rejected map wins (the pass builds the patterns in operand order)
  let rec build (ops : List Operand) (es : List (Option (List AExpr))) : Except Err (List Operand) :=
    match ops, es with
    | o :: ops', (some rs) :: es' => do
      let o' ← fromMapE s0.n rs
      let rest ← build ops' es'
      pure (o' :: rest)
    | o :: ops', none :: es' => do
      let rest ← build ops' es'
      pure (o :: rest)
    | ops, [] => pure ops
    | [], _ => pure []
  let s ← match build s0.ops exprs with
    | .error e => return Json.mkObj [("raised", Json.str (errName e))]
    | .ok ops => pure { s0 with ops := ops }
  let sizes ← listOf nat (← field j "sizes")
  if sizes.any (· == 0) then throw "element size 0"
  match autoflowFirst sizes t (← nat (← field j "fuel")) s with
  | .error e => return Json.mkObj [("raised", Json.str (errName e))]
  | .ok none => return Json.mkObj [("raised", Json.str "StopIteration")]
  | .ok (some r) =>
    -- the schedule and the affine maps `to_affine_map` writes for it (AT.toMapRow per result)
    return Json.mkObj [("bounds", jList jNat r.bounds), ("ops", jList operandToJson r.ops),
      ("maps", jList (fun o : Operand => jList aexprToJson (List.zipWith AT.toMapRow o.rows o.b)) r.ops)]

def tmplToJson (t : Template) : Json :=
  Json.mkObj [("bounds", jList (jOpt jNat) t.bounds), ("ops", jList operandToJson t.ops)]

def kopOfJson (j : Json) : Except String KOp := do
  match (← str j) with
  | "qmac" => pure .qmac | "mac" => pure .mac | "add" => pure .add | "rescale" => pure .rescale | _ => pure .other

/-- args: {"acc": "snax_alu"} | {"acc": "snax_gemmx", "geom": [m, n, k], "body": [kernel names]} -> template | {"raised": ..} -/
def templateH : Handler := fun j => do
  let acc ← str (← field j "acc")
  if acc == "snax_alu" then return tmplToJson aluTemplate
  else if acc == "snax_gemmx" then
    match (← listOf nat (← field j "geom")) with
    | [m, n, k] => return jExcept tmplToJson (gemmxTemplate m n k (← listOf kopOfJson (← field j "body")))
    | _ => throw "geom must be [m, n, k]"
  else throw s!"no template table for {acc}"

def handlers : List (String × Handler) :=
  [("c03.rotate", rotateH), ("c03.tile", tileH), ("c03.add_dim", addDimH), ("c03.clear", clearH),
   ("c03.canon", canonH), ("c03.clear_with", clearWithH), ("c03.construct", constructH), ("c03.from_affine_map", fromMapH), ("c03.autoflow", autoflowH), ("c03.inner", innerH), ("c03.image", imageH), ("c03.backtrack", backtrackH),
   ("c16.template", templateH), ("c16.matches", matchesH), ("c16.same_space", sameSpaceH), ("c16.check", checkH), ("c16.ocs", ocsH)]

end SnaxVerif.Drv.C03
