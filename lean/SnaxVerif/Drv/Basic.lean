import Lean.Data.Json
import SnaxVerif.Model.Affine
/-! JSON plumbing shared by all driver entry points. Not part of any proof. -/
namespace SnaxVerif.Drv
open Lean

abbrev Handler := Json → Except String Json

def arr (j : Json) : Except String (Array Json) := j.getArr?
def int (j : Json) : Except String Int := j.getInt?
def nat (j : Json) : Except String Nat := j.getNat?
def str (j : Json) : Except String String := j.getStr?
def bool (j : Json) : Except String Bool := j.getBool?
def field (j : Json) (k : String) : Except String Json := j.getObjVal? k

def listOf {α} (f : Json → Except String α) (j : Json) : Except String (List α) := do
  let a ← arr j
  a.toList.mapM f

def optOf {α} (f : Json → Except String α) (j : Json) : Except String (Option α) :=
  if j.isNull then pure none else some <$> f j

def jInt (i : Int) : Json := Json.num (JsonNumber.fromInt i)
def jNat (n : Nat) : Json := Json.num (JsonNumber.fromNat n)
def jList {α} (f : α → Json) (l : List α) : Json := Json.arr (l.map f).toArray
def jOpt {α} (f : α → Json) : Option α → Json
  | none => Json.null
  | some a => f a

partial def aexprOfJson (j : Json) : Except String AExpr := do
  let a ← arr j
  match a.toList with
  | [tag, x] =>
    let t ← str tag
    if t == "d" then return .dim (← nat x)
    else if t == "c" then return .const (← int x)
    else throw s!"bad aexpr tag {t}"
  | [tag, x, y] =>
    let t ← str tag
    let k ← match t with
      | "+" => pure BinKind.add | "*" => pure BinKind.mul | "//" => pure BinKind.fdiv
      | "%" => pure BinKind.mod | "ceildiv" => pure BinKind.cdiv
      | _ => throw s!"bad aexpr tag {t}"
    return .bin k (← aexprOfJson x) (← aexprOfJson y)
  | _ => throw "bad aexpr"

def binTag : BinKind → String
  | .add => "+" | .mul => "*" | .fdiv => "//" | .mod => "%" | .cdiv => "ceildiv"

def aexprToJson : AExpr → Json
  | .dim i => Json.arr #[Json.str "d", jNat i]
  | .const c => Json.arr #[Json.str "c", jInt c]
  | .bin k a b => Json.arr #[Json.str (binTag k), aexprToJson a, aexprToJson b]

def envOfList (l : List Int) : Nat → Int := fun i => l.getD i 0

end SnaxVerif.Drv
