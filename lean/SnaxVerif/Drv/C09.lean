import SnaxVerif.Drv.Basic
import SnaxVerif.Model.CyclicLayout
import SnaxVerif.Model.CyclicLayoutMaps
import SnaxVerif.Model.CyclicLayoutGlobal
namespace SnaxVerif.Drv.C09
open Lean SnaxVerif SnaxVerif.Drv SnaxVerif.CyclicLayout

def strideOfJson (j : Json) : Except String Stride := do
  match (← arr j).toList with
  | [s, b] => return ⟨← nat s, ← nat b⟩
  | _ => throw "bad stride"

def layoutOfJson (j : Json) : Except String Layout := listOf (listOf strideOfJson) j

def strideToJson (s : Stride) : Json := Json.arr #[jNat s.step, jNat s.bound]
def layoutToJson (l : Layout) : Json := jList (jList strideToJson) l

def errName : Err → String
  | .assertion => "AssertionError"
  | .indexError => "IndexError"
  | .valueError => "ValueError"
  | .outsideModel => "OUTSIDE-MODEL"

def operandOfJson (j : Json) : Except String Operand := do
  return { shape := ← listOf nat (← field j "shape"),
           elBits := ← optOf nat (← field j "elBits"),
           hasTsl := ← bool (← field j "hasTsl"),
           ndims := ← nat (← field j "ndims"),
           rows := ← listOf (listOf int) (← field j "rows") }

/-- args: {"fixed","tiled","spatial","bounds","ops"} ->
    {"layouts": null | [layout]} | {"raised": name} -/
def rewrite : Handler := fun j => do
  let fixed ← bool (← field j "fixed")
  let tiled ← bool (← field j "tiled")
  let spatial ← optOf nat (← field j "spatial")
  let bounds ← listOf int (← field j "bounds")
  let ops ← listOf operandOfJson (← field j "ops")
  match rewriteOp fixed tiled spatial bounds ops with
  | .error e => return Json.mkObj [("raised", Json.str (errName e))]
  | .ok r => return Json.mkObj [("layouts", jOpt (jList layoutToJson) r)]

/-- args: {"layout": layout, "pts": [[nat]]} -> [nat] (the model's `addr`) -/
def addrPts : Handler := fun j => do
  let l ← layoutOfJson (← field j "layout")
  let pts ← listOf (listOf nat) (← field j "pts")
  return jList jNat (pts.map (addr l))

/-- args: {"strides": [[step,bound]]} -> canonical strides (`TiledStride.canonicalize`) -/
def canonH : Handler := fun j => do
  let l ← listOf strideOfJson (← field j "strides")
  return jList strideToJson (canon l)

/-- args: {"s": nat, "spatial": nat|null, "elBits": nat|null, "k": nat} -> nat | {"raised"} -/
def ensureH : Handler := fun j => do
  let s ← nat (← field j "s")
  let spatial ← optOf nat (← field j "spatial")
  let elBits ← optOf nat (← field j "elBits")
  let k ← nat (← field j "k")
  match ensureGranularity spatial elBits s k with
  | .error e => return Json.mkObj [("raised", Json.str (errName e))]
  | .ok r => return jNat r

def operandMOfJson (j : Json) : Except String OperandM := do
  return { shape := ← listOf nat (← field j "shape"),
           elBits := ← optOf nat (← field j "elBits"),
           hasTsl := ← bool (← field j "hasTsl"),
           ndims := ← nat (← field j "ndims"),
           exprs := ← listOf aexprOfJson (← field j "exprs") }

/-- like `rewrite`, but every operand carries its affine map (`exprs`) instead of the matrix -/
def rewriteMaps : Handler := fun j => do
  let fixed ← bool (← field j "fixed")
  let tiled ← bool (← field j "tiled")
  let spatial ← optOf nat (← field j "spatial")
  let bounds ← listOf int (← field j "bounds")
  let ops ← listOf operandMOfJson (← field j "ops")
  match rewriteOpMaps fixed tiled spatial bounds ops with
  | .error e => return Json.mkObj [("raised", Json.str (errName e))]
  | .ok r => return Json.mkObj [("layouts", jOpt (jList layoutToJson) r)]

/-- args: {"layout": tile layout, "gshape": [nat]} -> {"layout": layout | null} | {"raised": name}
(`ApplyLayoutCastSubviewGlobal`: layout of the whole global) -/
def globalH : Handler := fun j => do
  let l ← layoutOfJson (← field j "layout")
  let g ← listOf nat (← field j "gshape")
  match globalLayout l g with
  | .error e => return Json.mkObj [("raised", Json.str (errName e))]
  | .ok r => return Json.mkObj [("layout", jOpt layoutToJson r)]

/-- `set-memory-layout` followed by `ApplyLayoutCastSubviewGlobal` for operand 0 (a tile of a global of
shape `gshape`): args of `rewritemaps` + "gshape" -> {"layouts", "global"} | {"raised"} -/
def opGlobal : Handler := fun j => do
  let fixed ← bool (← field j "fixed")
  let tiled ← bool (← field j "tiled")
  let spatial ← optOf nat (← field j "spatial")
  let bounds ← listOf int (← field j "bounds")
  let ops ← listOf operandMOfJson (← field j "ops")
  let g ← listOf nat (← field j "gshape")
  let offs ← listOf (optOf nat) (← field j "offs")
  let gfixed ← bool (← field j "gfixed")      -- fix FC12e (guards) in ApplyLayoutCastSubviewGlobal
  match rewriteOpMaps fixed tiled spatial bounds ops with
  | .error e => return Json.mkObj [("raised", Json.str (errName e))]
  | .ok none => return Json.mkObj [("layouts", Json.null), ("global", Json.null)]
  | .ok (some ls) =>
    match ls with
    | [] => return Json.mkObj [("layouts", jList layoutToJson ls), ("global", Json.null)]
    | l0 :: _ =>
      match (if gfixed then globalLayoutFixed l0 g offs else globalLayout l0 g) with
      | .error e => return Json.mkObj [("raised", Json.str (errName e))]
      | .ok r => return Json.mkObj [("layouts", jList layoutToJson ls), ("global", jOpt layoutToJson r)]

def handlers : List (String × Handler) :=
  [("c09.global", globalH), ("c09.opglobal", opGlobal), ("c09.rewrite", rewrite), ("c09.rewritemaps", rewriteMaps), ("c09.addr", addrPts), ("c09.canon", canonH), ("c09.ensure", ensureH)]

end SnaxVerif.Drv.C09
