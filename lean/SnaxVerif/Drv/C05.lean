import SnaxVerif.Drv.Basic
import SnaxVerif.Model.Dma
namespace SnaxVerif.Drv.C05
open Lean SnaxVerif SnaxVerif.Drv SnaxVerif.Dma

def optNat (j : Json) : Except String (Option Nat) := optOf nat j

def strideOfJson (j : Json) : Except String Stride := do
  match (← arr j).toList with
  | [s, b] => return ⟨← optNat s, ← optNat b⟩
  | _ => throw "bad stride"

def tslOfJson (j : Json) : Except String Tsl := do
  return ⟨← listOf (listOf strideOfJson) (← field j "ts"), ← optNat (← field j "offset")⟩

def layoutOfJson (j : Json) : Except String Layout := do
  if j.isNull then return .none
  if (j.getObjVal? "other").isOk then return .other
  match j.getObjVal? "tsl" with
  | .ok t => return .tsl (← tslOfJson t)
  | .error _ =>
    return .strided (← listOf optNat (← field j "strided")) (← optNat (← field j "offset"))

def memTyOfJson (j : Json) : Except String MemTy := do
  return ⟨← listOf optNat (← field j "shape"), ← nat (← field j "el"), ← bool (← field j "int"),
          ← layoutOfJson (← field j "layout")⟩

def rtOfJson (j : Json) : Except String Rt := do
  return ⟨← nat (← field j "base"), ← listOf nat (← field j "shape"), ← listOf nat (← field j "strides"),
          ← nat (← field j "offset")⟩

def jOptNat : Option Nat → Json := jOpt jNat
def jStride (s : Stride) : Json := Json.arr #[jOptNat s.step, jOptNat s.bound]
def jTsl (t : Tsl) : Json := Json.mkObj [("ts", jList (jList jStride) t.ts), ("offset", jOptNat t.offset)]

def errName : Err → String
  | .noMatch => "noMatch" | .assertion => "AssertionError" | .indexError => "IndexError"
  | .structure => "structure" | .fuel => "fuel" | .notImplemented => "NotImplementedError"

def jErr (e : Err) : Json := Json.mkObj [("error", Json.str (errName e))]

def jXfer : Xfer → Json
  | .oneD n => Json.arr #[Json.str "1d", jNat n]
  | .twoD n a b r => Json.arr #[Json.str "2d", jNat n, jNat a, jNat b, jNat r]

def jPair (p : Nat × Nat) : Json := Json.arr #[jNat p.1, jNat p.2]

def jProg (p : DmaProg) : Json :=
  Json.mkObj [("sbase", jNat p.sbase), ("dbase", jNat p.dbase),
    ("loops", jList (fun (t : Nat × Nat × Nat) => Json.arr #[jNat t.1, jNat t.2.1, jNat t.2.2]) p.loops),
    ("xfer", jXfer p.xfer), ("calls", jList jPair p.calls)]

def jEntry (e : Entry) : Json := Json.arr #[jStride e.ss, jStride e.ds, jNat e.bound, jNat e.sstep, jNat e.dstep]

/-- args: {"src","dst": memty, "rs","rd": rt, "idxs": [[nat]]} -> whole-pass result on one memref.copy -/
def lower : Handler := fun j => do
  let src ← memTyOfJson (← field j "src")
  let dst ← memTyOfJson (← field j "dst")
  let rs ← rtOfJson (← field j "rs")
  let rd ← rtOfJson (← field j "rd")
  let idxs ← listOf (listOf nat) (← field j "idxs")
  match simpleCopy src dst rs rd with
  | .ok p => return Json.mkObj [("path", Json.str "simple"), ("prog", jProg p)]
  | .error .noMatch =>
    let byValue := match j.getObjVal? "byValue" with
      | .ok (Json.bool b) => b
      | _ => false
    let ignore := match j.getObjVal? "ignore" with
      | .ok (Json.bool b) => b
      | _ => false
    let pre42 := match j.getObjVal? "pre42" with
      | .ok (Json.bool b) => b
      | _ => false
    match (if ignore then transformDmaIgnore src dst rs rd
           else if pre42 then transformDmaPre42 byValue src dst rs rd else transformDma byValue src dst rs rd) with
    | .ok l =>
      return Json.mkObj [("path", Json.str "transform"), ("prog", jProg l.prog), ("tS", jTsl l.tS), ("tD", jTsl l.tD),
        ("lcb", jList jStride l.lcb), ("entries", jList (jList jEntry) l.nested),
        ("addrs", jList (fun i => jPair (elemAddr l.nested i)) idxs)]
    | .error e => return jErr e
  | .error e => return jErr e

/-- args: {"a","b": tsl} -> largest_common_contiguous_block(a, b) -/
def lcb : Handler := fun j => do
  let a ← tslOfJson (← field j "a")
  let b ← tslOfJson (← field j "b")
  if !sameStructure a b then return jErr .structure
  let flat := (List.zipWith (fun (x y : Stride) => ({ ss := x, ds := y } : Entry)) a.ts.flatten b.ts.flatten)
  match lcbMembers flat with
  | .ok m => return jList jStride (lcbOfMembers m)
  | .error e => return jErr e

/-- args: {"strides": [nat|null], "tbs": [[nat|null]], "offset": nat|null} -> TiledStridedLayout.from_strides -/
def fromStridesH : Handler := fun j => do
  let s ← listOf optNat (← field j "strides")
  let tbs ← listOf (listOf optNat) (← field j "tbs")
  let o ← optNat (← field j "offset")
  return jTsl (fromStrides s tbs o)

def handlers : List (String × Handler) :=
  [("c05.lower", lower), ("c05.lcb", lcb), ("c05.from_strides", fromStridesH)]

end SnaxVerif.Drv.C05
