import SnaxVerif.Drv.Basic
import SnaxVerif.Model.Cores
namespace SnaxVerif.Drv.C13
open Lean SnaxVerif SnaxVerif.Drv SnaxVerif.Cores

def clsOfJson (j : Json) : Except String Cls := do
  match (← str j) with
  | "dm" => pure .dm | "cp" => pure .cp | "all" => pure .all
  | s => throw s!"bad class {s}"

def clsToJson : Cls → Json
  | .dm => "dm" | .cp => "cp" | .all => "all"

/-- ["leaf", id, cls, vals, reads, writes, dealloc] -/
def leafOfJson (j : Json) : Except String Leaf := do
  let a ← arr j
  match a.toList with
  | [tag, i, c, vs, rs, ws, d] =>
    if (← str tag) != "leaf" then throw "leaf expected"
    return { id := ← nat i, cls := ← clsOfJson c, vals := ← listOf nat vs, reads := ← listOf nat rs,
             writes := ← listOf nat ws, dealloc := ← bool d }
  | _ => throw "bad leaf"

def leafToJson (l : Leaf) : Json :=
  Json.arr #["leaf", jNat l.id, clsToJson l.cls, jList jNat l.vals, jList jNat l.reads, jList jNat l.writes,
             Json.bool l.dealloc]

inductive Item where
  | leaf (l : Leaf) | sync | ifI (l : Leaf) (t e : List Item) | forI (l : Leaf) (b : List Item)

partial def itemOfJson (j : Json) : Except String Item := do
  let a ← arr j
  match a.toList with
  | tag :: rest =>
    match (← str tag), rest with
    | "leaf", _ => return .leaf (← leafOfJson j)
    | "sync", [] => return .sync
    | "if", [l, t, e] => return .ifI (← leafOfJson l) (← listOf itemOfJson t) (← listOf itemOfJson e)
    | "for", [l, b] => return .forI (← leafOfJson l) (← listOf itemOfJson b)
    | t, _ => throw s!"bad op {t}"
  | [] => throw "empty op"

mutual
partial def blkOfItems : List Item → Except String Blk
  | [] => pure .nil
  | .leaf l :: r => return .leaf l (← blkOfItems r)
  | .sync :: r => return .sync (← blkOfItems r)
  | .ifI l t e :: r => return .ifO l (← blkOfItems t) (← blkOfItems e) (← blkOfItems r)
  | .forI l b :: r => do
    -- the last operation of a loop body is its terminator
    match b.reverse with
    | .leaf y :: revb => return .forO l (← blkOfItems revb.reverse) false y (← blkOfItems r)
    | _ => throw "for body does not end with a leaf (scf.yield)"
end

def blkToJsonList : Blk → List Json
  | .nil => []
  | .leaf l r => leafToJson l :: blkToJsonList r
  | .sync r => Json.arr #["sync"] :: blkToJsonList r
  | .ifO l t e r =>
    Json.arr #["if", leafToJson l, Json.arr (blkToJsonList t).toArray, Json.arr (blkToJsonList e).toArray]
      :: blkToJsonList r
  | .forO l b ys y r =>
    Json.arr #["for", leafToJson l,
      Json.arr ((blkToJsonList b) ++ (if ys then [Json.arr #["sync"]] else []) ++ [leafToJson y]).toArray]
      :: blkToJsonList r

def compoundAllB : Blk → Bool
  | .nil => true
  | .leaf _ r => compoundAllB r
  | .sync r => compoundAllB r
  | .ifO l t e r => l.cls == .all && compoundAllB t && compoundAllB e && compoundAllB r
  | .forO l b _ y r => l.cls == .all && y.cls == .all && compoundAllB b && compoundAllB r

/-- every buffer an operation touches is one of its SSA values -/
def ssaVisibleB (p : Blk) : Bool :=
  (leavesB p).all (fun l => (l.reads ++ l.writes).all (fun x => l.vals.contains x))

def pairOfJson (j : Json) : Except String (Nat × Nat) := do
  let a ← arr j
  match a.toList with
  | [x, y] => return (← nat x, ← nat y)
  | _ => throw "bad pair"

/-- every buffer an operation touches is the root of one of its SSA values -/
def rootVisibleB (rt : Nat → Nat) (p : Blk) : Bool :=
  (leavesB p).all (fun l => (l.reads ++ l.writes).all (fun x => l.vals.any (fun v => rt v == x)))

def globalsInertB (p : Blk) : Bool :=
  (leavesB p).all (fun l => l.cls != Cls.all || (l.reads.isEmpty && l.writes.isEmpty))

/-- args: {"body": block, "fix": "orig" | "f17" | "all", "views": [[view result, source]...]}
 -> {"out": block, "low": block after snax-to-func, "nodup", "compoundAll", "ssaVisible", "rootVisible", "globalsInert": bool} -/
def insert : Handler := fun j => do
  let items ← listOf itemOfJson (← field j "body")
  let p ← blkOfItems items
  let fx ← match (← str (← field j "fix")) with
    | "orig" => pure Fix.orig | "f17" => pure Fix.f17 | "all" => pure Fix.all
    | s => throw s!"bad fix {s}"
  let views ← listOf pairOfJson (← field j "views")
  let rt := rootOf views views.length
  -- "eff": [[op id, [operand values]]...] (repair FC13c; [] = the code as it is)
  let effL ← match j.getObjVal? "eff" with
    | .ok e => listOf (fun x => do
        let a ← arr x
        match a.toList with
        | [i, vs] => return ((← nat i), (← listOf nat vs))
        | _ => throw "bad eff") e
    | .error _ => pure []
  let eff : Nat → List Nat := fun i => (effL.lookup i).getD []
  return Json.mkObj [
    ("out", Json.arr (blkToJsonList (insertBarriers fx rt eff p)).toArray),
    ("low", Json.arr (blkToJsonList (lowerB (insertBarriers fx rt eff p))).toArray),
    ("nodup", Json.bool (decide (idsB p).Nodup)),
    ("compoundAll", Json.bool (compoundAllB p)),
    ("ssaVisible", Json.bool (ssaVisibleB p)),
    ("rootVisible", Json.bool (rootVisibleB rt p)),
    ("globalsInert", Json.bool (globalsInertB p))]

def handlers : List (String × Handler) :=
  [("c13.insert", insert)]

end SnaxVerif.Drv.C13
