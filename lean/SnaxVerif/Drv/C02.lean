import SnaxVerif.Drv.Basic
import SnaxVerif.Model.Stream
import SnaxVerif.Model.StreamLayout
import SnaxVerif.Model.AffineTransform
namespace SnaxVerif.Drv.C02
open Lean SnaxVerif SnaxVerif.Drv SnaxVerif.Stream SnaxVerif.Stride

def errName : Err → String
  | .stopIteration => "StopIteration"
  | .assertionError => "AssertionError"
  | .runtimeError => "RuntimeError"
  | .notImplemented => "NotImplementedError"
  | .zeroDivision => "ZeroDivisionError"

def natBound (j : Json) : Except String Nat := do
  let i ← int j
  if i < 0 then throw "negative bound: outside the model" else pure i.toNat

def patOfJson (j : Json) : Except String Pattern := do
  return { ub := ← listOf natBound (← field j "ub"), ts := ← listOf int (← field j "ts"),
           ss := ← listOf int (← field j "ss") }

def patToJson (p : Pattern) : Json :=
  Json.mkObj [("ub", jList jNat p.ub), ("ts", jList jInt p.ts), ("ss", jList jInt p.ss)]

def resToJson : Except Err Res → Json
  | .error e => Json.mkObj [("raised", Json.str (errName e))]
  | .ok r => Json.mkObj [("pat", patToJson r.pat), ("warned", Json.bool r.warned),
      ("inexact", Json.bool r.inexact), ("bcast", Json.bool r.bcast)]

def small (l : List Stride.Loop) : Bool := decide (prodBounds l ≤ 70000)

def streamToJson (s : List (List Int)) : Json := jList (jList jInt) s

/-- args: {"L": aexpr, "A": [[int]], "b": [int], "n": nat} -> [int] | null -/
def resolveH : Handler := fun j => do
  let L ← aexprOfJson (← field j "L")
  let A ← listOf (listOf int) (← field j "A")
  let b ← listOf int (← field j "b")
  let n ← nat (← field j "n")
  return jOpt (jList jInt) (resolve L A b n)

/-- args: {"strides","bounds","relevant","dims","bc","el","k","streams": bool} ->
    {"res": {"raised"} | {"pat","warned","inexact","bcast"}, "hw": [[int]]|null, "sched": [[int]]|null} -/
def tospH : Handler := fun j => do
  let strides ← listOf int (← field j "strides")
  let bounds ← listOf natBound (← field j "bounds")
  let relevant ← listOf bool (← field j "relevant")
  let dims ← listOf nat (← field j "dims")
  let bc ← bool (← field j "bc")
  let el ← nat (← field j "el")
  let k ← nat (← field j "k")
  let want ← bool (← field j "streams")
  if strides.length ≠ bounds.length ∨ relevant.length ≠ bounds.length then
    throw "strides / bounds / relevant differ in length: outside the model"
  let it := accessIter strides bounds relevant
  let r := toStridePatternEl el it dims bc
  let sched := if want && small (schedLoops el it) then streamToJson (schedStream el it k) else Json.null
  let hw := match r with
    | .ok x => if want && small (hwLoops dims x.pat) then streamToJson (hwStream dims x.pat) else Json.null
    | .error _ => Json.null
  return Json.mkObj [("res", resToJson r), ("hw", hw), ("sched", sched)]

def variantOfJson (j : Json) : Except String Variant := do
  match ← str (← field j "acc") with
  | "generic" => return .generic
  | "xdma_add" => return .xdmaAdd
  | "gemmx_other" => return .gemmxOther
  | "gemmx" => return .gemmx (← bool (← field j "out32")) (← nat (← field j "ser")) (← nat (← field j "sd"))
  | s => throw s!"unknown variant {s}"

/-- args: {"variant": {...}, "pats": [pattern]} -> {"raised"} | {"custom": [pattern], "final": [pattern]} -/
def finalH : Handler := fun j => do
  let v ← variantOfJson (← field j "variant")
  let ps ← listOf patOfJson (← field j "pats")
  match customize v ps with
  | .error e => return Json.mkObj [("raised", Json.str (errName e))]
  | .ok c => return Json.mkObj [("custom", jList patToJson c), ("final", jList patToJson (c.map Pattern.canonicalize))]

/-- args: {"pat": pattern, "dims": [nat]} -> [[int]] | null : `hwStream` of an arbitrary pattern -/
def hwH : Handler := fun j => do
  let p ← patOfJson (← field j "pat")
  let dims ← listOf nat (← field j "dims")
  return if small (hwLoops dims p) then streamToJson (hwStream dims p) else Json.null

/-- one operand of `c02.run` -/
structure OpArgs where
  L : Option AExpr
  tsl : Option Tsl.SLayout      -- the operand's memref type carries a static #tsl.tsl layout: L is built by the model
  pat : Option (List AExpr)     -- the result expressions of the op's pattern for this operand: A, b (resp. the strides)
                                -- are then computed by the model of `AffineTransform.from_affine_map` (C19)
  patErr : Option String        -- … which refused the map (computed, not sent)
  dynTsl : Option Tsl.Layout    -- … a #tsl.tsl layout with dynamic entries (`?`)
  dynStrided : String           -- "" | "stride" (strided<> with a dynamic stride: xDSL's get_affine_map refuses the
                                -- semi-affine product) | "offset" (only the offset is dynamic: the composed map has a symbol)
  A : List (List Int)
  b : List Int
  strides : Option (List Int)
  relevant : List Bool
  dims : List Nat
  bc : Bool
  el : Nat
  k : Nat

def sstrideOfJson (j : Json) : Except String Tsl.SStride := do
  match (← arr j).toList with
  | [s, b] => return ⟨← nat s, ← nat b⟩
  | _ => throw "bad stride"

def tslErrName : Tsl.Err → String
  | .valueError => "ValueError" | .assertionError => "AssertionError" | .notImplemented => "NotImplementedError"
  | .parseError => "ParseError" | .indexError => "IndexError" | .typeError => "TypeError"
  | .divZero => "ZeroDivisionError" | .negative => "OUTSIDE-MODEL"

def opOfJson (j : Json) : Except String OpArgs := do
  let tsl ← match j.getObjVal? "tsl" with
    | .ok t => optOf (listOf (listOf sstrideOfJson)) t
    | .error _ => pure none
  let strideOfJson (x : Json) : Except String Tsl.Stride := do
    match (← arr x).toList with
    | [st, b] => return ⟨← optOf nat st, ← optOf nat b⟩
    | _ => throw "bad stride"
  let dynTsl ← match j.getObjVal? "dynTsl" with
    | .ok t => optOf (fun t => do return (⟨← listOf (listOf strideOfJson) t, some 0⟩ : Tsl.Layout)) t
    | .error _ => pure none
  let dynStrided ← match j.getObjVal? "dynStrided" with
    | .ok t => str t
    | .error _ => pure ""
  let pat ← match j.getObjVal? "pat" with
    | .ok t => optOf (listOf aexprOfJson) t
    | .error _ => pure none
  return { L := ← optOf aexprOfJson (← field j "L"), tsl := tsl, pat := pat, patErr := none, dynTsl := dynTsl, dynStrided := dynStrided, A := ← listOf (listOf int) (← field j "A"),
           b := ← listOf int (← field j "b"), strides := ← optOf (listOf int) (← field j "strides"),
           relevant := ← listOf bool (← field j "relevant"), dims := ← listOf nat (← field j "dims"),
           bc := ← bool (← field j "bc"), el := ← nat (← field j "el"), k := ← nat (← field j "k") }

/-- convert the operands in order; the first error stops (as the Python loop does) -/
def convAll (bounds : List Nat) : List (OpArgs × List Int) → Except String (List (Res × List Stride.Loop × OpArgs))
  | [] => .ok []
  | (o, s) :: r =>
    match o.patErr with
    | some e => .error e       -- `AffineTransform.from_affine_map(op.patterns.data[operand].data)` at the top of the loop body
    | none =>
      let it := accessIter s bounds o.relevant
      match toStridePatternEl o.el it o.dims o.bc with
      | .error e => .error (errName e)
      | .ok x => (convAll bounds r).map fun l => (x, it, o) :: l

/-- the whole chain for one op.
    args: {"bounds": [nat], "variant": {...}, "resolveOnly": bool,
           "ops": [{"L": aexpr|null, "A", "b", "strides": [int]|null, "relevant", "dims", "bc", "el", "k"}]}
    -> {"strides": [[int]] | null (no layout given), "conv": null | {"raised"} |
        {"handed","custom","final","flags","hw","sched"} | {"handed", "raised"}} -/
def runH : Handler := fun j => do
  let bounds ← listOf natBound (← field j "bounds")
  let v ← variantOfJson (← field j "variant")
  let ops ← listOf opOfJson (← field j "ops")
  let ronly ← bool (← field j "resolveOnly")
  let streamers ← listOf (fun x => do
    match (← arr x).toList with
    | [t, s] => pure ((← nat t), (← nat s))
    | _ => throw "bad streamer") (← field j "streamers")
  let n := bounds.length
  let accessLevel := match j.getObjVal? "accessLevel" with
    | .ok (.bool b) => b
    | _ => false
  -- pattern -> matrix form through the model of `AffineTransform.from_affine_map` (guard: no floordiv / ceildiv / mod)
  let atErr : AT.Err → String := fun e => match e with | .valueError => "ValueError" | .indexError => "IndexError"
  let ops := ops.map fun o => match o.pat with
    | none => o
    | some rs => match AT.fromMap n rs with
      | .ok t => if accessLevel then { o with strides := some (t.A.headD []) } else { o with A := t.A, b := t.b }
      | .error e => { o with patErr := some (atErr e), strides := some [] }
  let jAB := jList (fun (o : OpArgs) => if o.pat.isSome && o.patErr.isNone then
      Json.mkObj [("A", jList (jList jInt) o.A), ("b", jList jInt o.b)] else Json.null) ops
  -- layout resolution builds `Schedule(SchedulePattern(bounds, pattern) ...)` for ALL operands first
  if !accessLevel then
    for o in ops do
      match o.patErr with
      | some e => return Json.mkObj [("strides", Json.null), ("resolveRaised", Json.str e), ("conv", Json.null)]
      | none => pure ()
  -- operands with a TSL layout: the byte layout expression comes from the model of get_affine_map (C10) * element size
  for o in ops do
    let raised (e : String) := Json.mkObj [("strides", Json.null), ("resolveRaised", Json.str e), ("conv", Json.null)]
    match o.tsl with
    | some lay => match tslBytes lay o.el with
      | .error e => return raised (tslErrName e)
      | .ok _ => pure ()
    | none => pure ()
    match o.dynTsl with
    | some l => match l.affineMap with      -- `if self.data.is_dynamic(): raise NotImplementedError`
      | .error e => return raised (tslErrName e)
      | .ok _ => throw "a layout sent as dynamic has no dynamic entry"
    | none => pure ()
    -- `if access_mem_map.num_symbols != 0: raise RuntimeError("Access patterns with symbols are not supported yet.")`
    if o.dynStrided == "stride" then return raised "NotImplementedError"
    if o.dynStrided == "offset" then return raised "RuntimeError"
  let ops := ops.map fun o => match o.tsl with
    | some lay => match tslBytes lay o.el with
      | .ok L => { o with L := some L }
      | .error _ => o
    | none => o
  -- the alignment clause of `tsl_linear_of_aligned`, with the computed digit assignment
  let aligned := jList (fun (o : OpArgs) => match o.tsl with
    | some lay =>
      let D := autoDigits lay o.A
      if alignedB lay o.A o.b bounds D then
        Json.mkObj [("aligned", Json.bool true), ("how", Json.str "tiles"),
          ("strides", jList jInt (alignedStrides lay o.el D n))]
      else
        let clay := lay.map squash
        let Dc := autoDigits clay o.A
        Json.mkObj [("aligned", Json.bool (alignedCanonB lay o.A o.b bounds Dc)), ("how", Json.str "canonical"),
          ("strides", jList jInt (alignedStrides clay o.el Dc n))]
    | none => Json.null) ops
  let dataIdx := jList jNat ((List.range ops.length).map fun i => dataIndex v ops.length i)
  let resolved ← ops.mapM fun o => match o.L, o.strides with
    | some L, _ => match resolve L o.A o.b n with
      | some s => pure s
      | none => throw "division by zero in the layout expression"
    | none, some s => pure s
    | none, none => throw "operand without layout and without strides"
  let jStrides := if ops.all (fun o => o.L.isSome) then jList (jList jInt) resolved else Json.null
  if ronly then return Json.mkObj [("strides", jStrides), ("aligned", aligned), ("AB", jAB), ("conv", Json.null)]
  for (o, s) in ops.zip resolved do
    if o.patErr.isNone ∧ (s.length ≠ n ∨ o.relevant.length ≠ n) then throw "strides / bounds / relevant differ in length: outside the model"
  match convAll bounds (ops.zip resolved) with
  | .error e => return Json.mkObj [("strides", jStrides), ("aligned", aligned), ("AB", jAB),
      ("conv", Json.mkObj [("raised", Json.str e)])]
  | .ok rs =>
    let pats := rs.map fun x => x.1.pat
    let flags := jList (fun (x : Res × List Stride.Loop × OpArgs) => Json.mkObj [("warned", Json.bool x.1.warned),
      ("inexact", Json.bool x.1.inexact), ("bcast", Json.bool x.1.bcast)]) rs
    let hw := jList (fun (x : Res × List Stride.Loop × OpArgs) =>
      if small (hwLoops x.2.2.dims x.1.pat) then streamToJson (hwStream x.2.2.dims x.1.pat) else Json.null) rs
    let sched := jList (fun (x : Res × List Stride.Loop × OpArgs) =>
      if small (schedLoops x.2.2.el x.2.1) then streamToJson (schedStream x.2.2.el x.2.1 x.2.2.k) else Json.null) rs
    match customize v pats with
    | .error e => return Json.mkObj [("strides", jStrides), ("aligned", aligned),
        ("conv", Json.mkObj [("handed", jList patToJson pats), ("raised", Json.str (errName e))])]
    | .ok c => return Json.mkObj [("strides", jStrides), ("aligned", aligned), ("dataIndex", dataIdx), ("AB", jAB),
        ("conv", Json.mkObj [("handed", jList patToJson pats),
        ("custom", jList patToJson c), ("final", jList patToJson (c.map Pattern.canonicalize)),
        ("verified", Json.bool (verifyRegion streamers (c.map Pattern.canonicalize))), ("flags", flags),
        ("hw", hw), ("sched", sched)])]

/-- args: {"acc": "gemmx" | "xdma_add", "nops": nat, "outBits": nat} -> {"ok": [nat]} | {"raised": name} : `get_streamers` -/
def streamersH : Handler := fun j => do
  let acc ← str (← field j "acc")
  let nops ← nat (← field j "nops")
  let bits ← nat (← field j "outBits")
  if acc == "xdma_add" then return Json.mkObj [("ok", jList jNat xdmaAddStreamers)]
  match gemmxStreamers nops bits with
  | .ok l => return Json.mkObj [("ok", jList jNat l)]
  | .error e => return Json.mkObj [("raised", Json.str (errName e))]

/-- args: {"streamers": [[temporal_dim, spatial_dim]], "pats": [pattern]} -> bool : `StreamingRegionOp.verify_` -/
def verifyH : Handler := fun j => do
  let streamers ← listOf (fun x => do
    match (← arr x).toList with
    | [t, s] => pure ((← nat t), (← nat s))
    | _ => throw "bad streamer") (← field j "streamers")
  let ps ← listOf patOfJson (← field j "pats")
  return Json.bool (verifyRegion streamers ps)

def handlers : List (String × Handler) :=
  [("c02.resolve", resolveH), ("c02.tosp", tospH), ("c02.final", finalH), ("c02.hw", hwH), ("c02.run", runH), ("c02.streamers", streamersH), ("c02.verify", verifyH)]

end SnaxVerif.Drv.C02
