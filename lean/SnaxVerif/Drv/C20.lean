import SnaxVerif.Drv.Basic
import SnaxVerif.Model.Phs
namespace SnaxVerif.Drv.C20
open Lean SnaxVerif SnaxVerif.Drv SnaxVerif.Phs

section V
variable [Variant]

def tyOf (j : Json) : Except String Ty := do
  match (← arr j).toList with
  | [c, t] => return ⟨← str c, ← str t⟩
  | _ => throw "bad type"

def tyJ (t : Ty) : Json := Json.arr #[Json.str t.cls, Json.str t.txt]

/-- an operation: a name, or [name, attributes] -/
def opOf (j : Json) : Except String OpCode := do
  match j.getStr? with
  | .ok s => return ⟨s, ""⟩
  | .error _ => match (← arr j).toList with
    | [c, a] => return ⟨← str c, ← str a⟩
    | _ => throw "bad operation"

def opJ (o : OpCode) : Json :=
  if o.attr == "" then Json.str o.cls else Json.arr #[Json.str o.cls, Json.str o.attr]

def ksrcOf (j : Json) : Except String KSrc := do
  match (← arr j).toList with
  | [t, x] =>
    match (← str t) with
    | "a" => return .arg (← nat x)
    | "r" => return .res (← nat x)
    | s => throw s!"bad ksrc tag {s}"
  | _ => throw "bad ksrc"

def kopOf (j : Json) : Except String KOp := do
  match (← arr j).toList with
  | [n, t, os] => return { name := ← opOf n, resTy := ← tyOf t, operands := ← listOf ksrcOf os }
  | _ => throw "bad kop"

def bodyOf (j : Json) : Except String KBody := do
  return { argTys := ← listOf tyOf (← field j "arg_tys"), ops := ← listOf kopOf (← field j "ops"),
           yld := ← ksrcOf (← field j "yield") }

def srcJ : Src → Json
  | .arg i => Json.arr #[Json.str "a", jNat i]
  | .node j => Json.arr #[Json.str "n", jNat j]
  | .mux s l r => Json.arr #[Json.str "m", jNat s, srcJ l, srcJ r]

partial def srcOf (j : Json) : Except String Src := do
  match (← arr j).toList with
  | [t, x] =>
    match (← str t) with
    | "a" => return .arg (← nat x)
    | "n" => return .node (← nat x)
    | s => throw s!"bad src tag {s}"
  | [t, s, l, r] =>
    if (← str t) == "m" then return .mux (← nat s) (← srcOf l) (← srcOf r) else throw "bad src"
  | _ => throw "bad src"

/-- with F09 the operation of every region reads the block arguments by position: wiring = [0..n-1] -/
def nodeJ (n : Node) : Json :=
  Json.mkObj [("id", Json.str n.id),
    ("ops", jList (fun o => Json.arr #[opJ o, jList jNat (List.range n.operands.length)]) n.ops),
    ("operands", jList srcJ n.operands), ("sw", jNat n.sw), ("res_ty", tyJ n.resTy)]

def swJ : SwUse → Json
  | .choose j => Json.arr #[Json.str "c", jNat j]
  | .mux => Json.arr #[Json.str "m"]

def peJ (A : PE) : Json :=
  Json.mkObj [("arg_tys", jList tyJ A.argTys), ("nodes", jList nodeJ A.nodes), ("yield", srcJ A.yld),
    ("switches", jList swJ A.switches)]

def nodeOf (j : Json) : Except String Node := do
  -- "ops" entries are [name, wiring]; the model assumes positional wiring (F09): anything else is rejected
  let nOps ← (← arr (← field j "operands")).toList.mapM srcOf
  let ops ← listOf (fun o => do
    match (← arr o).toList with
    | [n, w] =>
      let wl ← listOf int w
      if wl != (List.range nOps.length).map Int.ofNat then throw "non-positional region wiring: outside the model"
      opOf n
    | _ => throw "bad op entry") (← field j "ops")
  return { id := ← str (← field j "id"), ops := ops, operands := nOps, sw := ← nat (← field j "sw"),
           resTy := ← tyOf (← field j "res_ty") }

def swOf (j : Json) : Except String SwUse := do
  match (← arr j).toList with
  | [t] => if (← str t) == "m" then return .mux else throw "bad switch"
  | [t, x] => if (← str t) == "c" then return .choose (← nat x) else throw "bad switch"
  | _ => throw "bad switch"

def peOf (j : Json) : Except String PE := do
  return { argTys := ← listOf tyOf (← field j "arg_tys"), nodes := ← listOf nodeOf (← field j "nodes"),
           yld := ← srcOf (← field j "yield"), switches := ← listOf swOf (← field j "switches") }

def raisedJ (e : Err) : Json := Json.mkObj [("raised", Json.str e.name)]

partial def termJ : HTerm → Json
  | .inp i => Json.arr #[Json.str "i", jNat i]
  | .app op args => Json.arr #[opJ op, Json.arr (args.map termJ).toArray]

def freeEval (A : PE) (swv : Nat → Nat) : Option HTerm :=
  A.eval HTerm.app swv ((List.range A.argTys.length).map HTerm.inp)

def decJ (A K : PE) : Json :=
  match decode A K with
  | .error e => raisedJ e
  | .ok sw => Json.mkObj [("sw", jList jNat sw), ("full", jList jNat (A.expand sw)),
      ("term", jOpt termJ (freeEval A (A.assign sw)))]

/-- `t` = number of kernels merged so far. `hyp_ok`: the hypotheses of the C20 theorems (`wf` of the merged
graph, `uniqueIds` and `covers` for every merged kernel) evaluated on the model's graphs, which the
correspondence check has just compared with the real ones. Since the deepening round only `kwf` of the
kernels is a hypothesis of `C20_history`; `wf` / `covers` of the merged graph are theorems (`reachable_inv`)
and are kept here as a cross-check of the model. -/
def stepJ (A : PE) (ks : List PE) (merged : List Nat) (mergedOnly : Bool := false) : Json :=
  let mk := merged.filterMap (ks[·]?)
  -- `attr_clause` of `C20_history_partial`: the class determines the operation among the merged kernels
  let clause := classFun (allOps mk)
  let hyp := A.wf && swTargetsOk A && mk.all (fun k => k.kwf) && (!clause || mk.all (fun k => covers A k))
  let self := match decode A A with
    | .error e => raisedJ e
    | .ok sw => Json.mkObj [("sw", jList jNat sw)]
  -- `mergedOnly` (large elements): only the kernels merged so far are decoded (the search is exponential and an
  -- unmerged kernel exhausts it)
  let decs := (List.range ks.length).zip ks |>.map fun (i, k) =>
    if mergedOnly && !merged.contains i then Json.null else decJ A k
  Json.mkObj [("pe", peJ A), ("ssa_ok", Json.bool A.ssaOk), ("hyp_ok", Json.bool hyp), ("attr_clause", Json.bool clause),
    ("true", jNat A.trueSwitches), ("dec", Json.arr decs.toArray), ("self", self)]

/-- the kernels of one group merged into one graph (the first one is the base) -/
def groupGraph (ks : List PE) (idx : List Nat) : Except Err PE :=
  match idx.filterMap (ks[·]?) with
  | [] => .error .malformed
  | k :: r => mergeAll k r

def steps (ks : List PE) (mo : Bool) : PE → List (List Nat) → List Nat → List Json
  | A, [], m => [stepJ A ks m mo]
  | A, g :: r, m => stepJ A ks m mo :: (match groupGraph ks g with
    | .error e => [raisedJ e]
    | .ok G => match combine A G with
      | .error e => [raisedJ e]
      | .ok A' => steps ks mo A' r (m ++ g))

/-- args: {"bodies": [body], "groups"?: [[index]]} -> {"enc": [pe | raised], "kterm": [term|null],
"steps": [step | raised]}. A group of several kernels is first merged into a graph of its own, which is then
merged as a whole (`append_to_abstract_graph` with a multi-operation, mux-free `graph`); default: singletons. -/
def historyV : Handler := fun j => do
  let bodies ← listOf bodyOf (← field j "bodies")
  let groups ← match j.getObjVal? "groups" with
    | .ok g => listOf (listOf nat) g
    | .error _ => pure ((List.range bodies.length).map fun i => [i])
  let mo := match j.getObjVal? "merged_only" with
    | .ok (.bool b) => b
    | _ => false
  let encs := bodies.map encode
  let encJ := jList (fun e => match e with | .ok p => peJ p | .error e => raisedJ e) encs
  let ks := encs.filterMap fun e => match e with | .ok p => some p | .error _ => none
  let kterm := jList (fun (k : PE) => jOpt termJ (freeEval k (fun _ => 0))) ks
  -- the body evaluated directly (reference semantics), block argument i named after its data port
  let bterm := jList (fun (b : KBody) => jOpt termJ
    (b.eval HTerm.app ((List.range b.argTys.length).map fun i => HTerm.inp (b.renum i)))) bodies
  if ks.length ≠ encs.length then
    return Json.mkObj [("enc", encJ), ("kterm", kterm), ("bterm", bterm), ("steps", Json.arr #[])]
  match groups with
  | [] => return Json.mkObj [("enc", encJ), ("kterm", kterm), ("bterm", bterm), ("steps", Json.arr #[])]
  | g0 :: r =>
    match groupGraph ks g0 with
    | .error e => return Json.mkObj [("enc", encJ), ("kterm", kterm), ("bterm", bterm), ("steps", Json.arr #[raisedJ e])]
    | .ok A0 => return Json.mkObj [("enc", encJ), ("kterm", kterm), ("bterm", bterm), ("steps", Json.arr (steps ks mo A0 r g0).toArray)]

/-- args: {"ops": [[name, [ty], ty]]} -> {"raised"} | {"pe", "true", "terms": [term|null per switch value]} -/
def fromOps : Handler := fun j => do
  let ops ← listOf (fun o => do
    match (← arr o).toList with
    | [n, tys, r] => return ((← opOf n), (← listOf tyOf tys), (← tyOf r))
    | _ => throw "bad op") (← field j "ops")
  match peFromOperations ops with
  | .error e => return raisedJ e
  | .ok A =>
    return Json.mkObj [("pe", peJ A), ("true", jNat A.trueSwitches), ("concrete", Json.bool A.isConcrete),
      ("terms", jList (fun i => jOpt termJ (freeEval A (fun _ => i))) (List.range ops.length))]

def stepG (A : PE) (gs : List PE) : Json :=
  let self := match decode A A with
    | .error e => raisedJ e
    | .ok sw => Json.mkObj [("sw", jList jNat sw)]
  Json.mkObj [("pe", peJ A), ("ssa_ok", Json.bool A.ssaOk), ("true", jNat A.trueSwitches),
    ("dec", jList (decJ A) gs), ("self", self)]

def stepsG (gs : List PE) : PE → List Nat → List Json
  | A, [] => [stepG A gs]
  | A, i :: r => stepG A gs :: (match gs[i]? with
    | none => [raisedJ .malformed]
    | some G => match combine A G with
      | .error e => [raisedJ e]
      | .ok A' => stepsG gs A' r)

/-- args: {"graphs": [pe], "plan": [index]}: graphs given directly (hand-built with the dialect's constructors,
e.g. the inputs of the upstream tests); `plan[0]` is the element, the others are appended in order; after every
step every graph is decoded. -> {"steps": [step | raised]} -/
def graphsV : Handler := fun j => do
  let gs ← listOf peOf (← field j "graphs")
  let plan ← listOf nat (← field j "plan")
  match plan with
  | [] => return Json.mkObj [("steps", Json.arr #[])]
  | i0 :: r => match gs[i0]? with
    | none => throw "plan index out of range"
    | some A0 => return Json.mkObj [("steps", Json.arr (stepsG gs A0 r).toArray)]

end V

/-- `"fixed": true` (default) selects the model of the tree with fixes/DC20a, `false` the tree before it -/
def variantOf (j : Json) : Variant :=
  match j.getObjVal? "fixed" with
  | .ok (.bool b) => ⟨b⟩
  | _ => ⟨true⟩

def history : Handler := fun j => @historyV (variantOf j) j
def graphs : Handler := fun j => @graphsV (variantOf j) j

def handlers : List (String × Handler) :=
  [("c20.history", history), ("c20.fromops", fromOps), ("c20.graphs", graphs)]

end SnaxVerif.Drv.C20
