import SnaxVerif.Drv.C07
import SnaxVerif.Props.C06
import SnaxVerif.Model.AccfgMove
import SnaxVerif.Model.AccfgLoopOverlap
import SnaxVerif.Model.AccfgTaint
namespace SnaxVerif.Drv.C06
open Lean SnaxVerif SnaxVerif.Drv SnaxVerif.Drv.C07 SnaxVerif.Accfg

/-- the literals of the D26 witness theorem, for comparison with what the real passes produce -/
def witness : Handler := fun _ =>
  return Json.mkObj [("before", blockToJson SnaxVerif.C06.d26Before), ("after", blockToJson SnaxVerif.C06.d26After)]

/-- args: {"path": [nat] (block path, last element = start of the segment), "flags": [bool], "body": block}
 -> {"after": block | null, "wf": bool, "nodup": bool} -/
def move : Handler := fun j => do
  let b ← blockOfJson (← field j "body")
  let path ← listOf nat (← field j "path")
  let flags ← listOf bool (← field j "flags")
  return Json.mkObj [("after", jOpt blockToJson (applyBlockMove path flags b)),
    ("wf", Json.bool (wfB b)), ("nodup", Json.bool (nodupB b))]

/-- args: {"path": [nat] (anchor = the loop), "j": nat, "fresh": nat, "body": block, "fields": …}
 -> {"after": block | null, "covered": bool, "why": string}: `covered` = every hypothesis of `C06.loop_overlap_preserves`
 holds for this step (and the checked variant gives the same result as the replayed rule) -/
def loopOverlap : Handler := fun j => do
  let b ← blockOfJson (← field j "body")
  let path ← listOf nat (← field j "path")
  let jj ← nat (← field j "j")
  let fresh ← nat (← field j "fresh")
  let fields ← C07.fieldsOfJson (← field j "fields")
  let carried := (← (j.getObjVal? "carried" >>= fun x => x.getBool?) |>.toOption |>.getD false |> pure)
  let after := if carried then applyLoopOverlapC path jj fresh b else applyLoopOverlap path jj fresh b
  let why : String :=
    match after,
          (if carried then applyLoopOverlapCGen false false path jj fresh b else applyLoopOverlapGen false false path jj fresh b),
          (if carried then applyLoopOverlapCGen true false path jj fresh b else applyLoopOverlapGen true false path jj fresh b),
          (if carried then applyLoopOverlapCGen true true path jj fresh b else applyLoopOverlapGen true true path jj fresh b) with
    | some r, some b', some b2, some bg =>
      if (blockToJson b').compress != (blockToJson r).compress then "result"
      else if !noGhostB b2 then "ghost-free"
      else if !((wfB bg && okBb fields bg noFacts) || okTB fields bg []) then "launch-observes-copy"
      else if !(readsB b).all (· < fresh) then "reads"
      else ""
    | none, _, _, _ => "not-applicable"
    | _, _, _, _ => "side"
  return Json.mkObj [("after", jOpt blockToJson after), ("covered", Json.bool (why == "")), ("why", Json.str why),
    ("wf", Json.bool (wfB b)), ("nodup", Json.bool (nodupB b))]

def handlers : List (String × Handler) := [("c06.witness", witness), ("c06.move", move), ("c06.loop", loopOverlap)]
end SnaxVerif.Drv.C06
