import SnaxVerif.Drv.C07
import SnaxVerif.Props.C06
namespace SnaxVerif.Drv.C06
open Lean SnaxVerif SnaxVerif.Drv SnaxVerif.Drv.C07

/-- the literals of the D26 witness theorem, for comparison with what the real passes produce -/
def witness : Handler := fun _ =>
  return Json.mkObj [("before", blockToJson SnaxVerif.C06.d26Before), ("after", blockToJson SnaxVerif.C06.d26After)]

def handlers : List (String × Handler) := [("c06.witness", witness)]
end SnaxVerif.Drv.C06
