import SnaxVerif.Drv.C07
import SnaxVerif.Props.C06
import SnaxVerif.Model.AccfgMove
import SnaxVerif.Model.AccfgLoopOverlap
namespace SnaxVerif.Drv.C06
open Lean SnaxVerif SnaxVerif.Drv SnaxVerif.Drv.C07 SnaxVerif.Accfg

/-- the literals of the D26 witness theorem, for comparison with what the real passes produce -/
def witness : Handler := fun _ =>
  return Json.mkObj [("before", blockToJson SnaxVerif.C06.d26Before), ("after", blockToJson SnaxVerif.C06.d26After)]

/-- args: {"path": [nat] (block path, last element = start of the segment), "flags": [bool], "body": block}
 -> {"after": block | null, "wf": bool, "nodup": bool} -/
def move : Handler := fun j => do
  let b ← blockOfJson (← field j "body")
  let path ← listOf nat (← field j "path")
  let flags ← listOf bool (← field j "flags")
  return Json.mkObj [("after", jOpt blockToJson (applyBlockMove path flags b)),
    ("wf", Json.bool (wfB b)), ("nodup", Json.bool (nodupB b))]

/-- args: {"path": [nat] (anchor = the loop), "j": nat, "fresh": nat, "body": block} -> {"after": block | null} -/
def loopOverlap : Handler := fun j => do
  let b ← blockOfJson (← field j "body")
  let path ← listOf nat (← field j "path")
  let jj ← nat (← field j "j")
  let fresh ← nat (← field j "fresh")
  return Json.mkObj [("after", jOpt blockToJson (applyLoopOverlap path jj fresh b)),
    ("wf", Json.bool (wfB b)), ("nodup", Json.bool (nodupB b))]

def handlers : List (String × Handler) := [("c06.witness", witness), ("c06.move", move), ("c06.loop", loopOverlap)]
end SnaxVerif.Drv.C06
