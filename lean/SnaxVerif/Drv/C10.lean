import SnaxVerif.Drv.Basic
import SnaxVerif.Model.Tsl
namespace SnaxVerif.Drv.C10
open Lean SnaxVerif SnaxVerif.Drv SnaxVerif.Tsl

def errName : Err → String
  | .valueError => "ValueError" | .assertionError => "AssertionError"
  | .notImplemented => "NotImplementedError" | .parseError => "ParseError"
  | .indexError => "IndexError" | .typeError => "TypeError" | .divZero => "ZeroDivisionError"
  | .negative => "negative-literal-outside-model"

/-- an `Except Err` value: the value, or `{"raised": <exception class>}` -/
def jExc {α} (f : α → Json) : Except Err α → Json
  | .ok a => f a
  | .error e => Json.mkObj [("raised", Json.str (errName e))]

def strideOfJson (j : Json) : Except String Stride := do
  match (← arr j).toList with
  | [s, b] => return ⟨← optOf nat s, ← optOf nat b⟩
  | _ => throw "bad stride"

def layoutOfJson (j : Json) : Except String Layout := do
  let ts ← listOf (listOf strideOfJson) (← field j "ts")
  let off ← optOf int (← field j "offset")
  return ⟨ts, off⟩

def strideToJson (s : Stride) : Json := Json.arr #[jOpt jNat s.step, jOpt jNat s.bound]

def layoutToJson (l : Layout) : Json :=
  Json.mkObj [("ts", jList (jList strideToJson) l.ts), ("offset", jOpt jInt l.offset)]

def tokToJson : Tok → Json
  | .lsq => "[" | .rsq => "]" | .lpar => "(" | .rpar => ")" | .arrow => "->" | .comma => ","
  | .colon => ":" | .question => "?" | .greater => ">" | .minus => "-" | .offsetKw => "offset"
  | .other => "other" | .int n => jNat n

def tokOfJson (j : Json) : Except String Tok :=
  match j with
  | .str s =>
    match s with
    | "[" => pure .lsq | "]" => pure .rsq | "(" => pure .lpar | ")" => pure .rpar | "->" => pure .arrow
    | "," => pure .comma | ":" => pure .colon | "?" => pure .question | ">" => pure .greater
    | "-" => pure .minus | "offset" => pure .offsetKw | _ => pure .other
  | _ => do return .int (← nat j)

/-- the static layout behind a layout all of whose entries are static -/
def static? (l : Layout) : Option SLayout :=
  l.ts.mapM fun t => t.mapM fun s =>
    match s.step, s.bound with
    | some st, some b => some (⟨st, b⟩ : SStride)
    | _, _ => none

/-- args: {"layout": L, "pts": [[nat]], "enum": bool (compute the enumerating views)} -> every view of the layout -/
def views : Handler := fun j => do
  let l ← layoutOfJson (← field j "layout")
  let pts ← listOf (listOf nat) (← field j "pts")
  let enum ← bool (← field j "enum")
  let aff := l.affineMap
  let affEval : Json := match aff with
    | .ok e => jList (fun (p : List Nat) => jOpt jInt (e.eval (fun d => ((p.getD d 0 : Nat) : Int)))) pts
    | .error _ => Json.null
  let addrs : Json := match static? l with
    | some s => jList (fun p => jNat (addr s p)) pts
    | none => Json.null
  return Json.mkObj [
    ("is_dynamic", Json.bool l.isDynamic),
    ("affine", jExc aexprToJson aff),
    ("affine_eval", affEval),
    ("addr", addrs),
    ("all_values", if enum then jExc (jList jNat) l.allValues else Json.null),
    ("self_overlaps", if enum then jExc Json.bool l.selfOverlaps else Json.null),
    ("is_dense", if enum then jExc Json.bool l.isDense else Json.null),
    ("canon", layoutToJson l.canonicalize),
    ("tile_bounds", jList (jList (jOpt jNat)) l.tileBounds),
    ("print", jList tokToJson (printLayout l))]

/-- args: {"strides": [nat|null], "tile_bounds": [[nat|null]], "offset": int|null} -/
def fromStridesH : Handler := fun j => do
  let st ← listOf (optOf nat) (← field j "strides")
  let tb ← listOf (listOf (optOf nat)) (← field j "tile_bounds")
  let off ← optOf int (← field j "offset")
  let f42 := match j.getObjVal? "f42" with
    | .ok (Json.bool b) => b
    | _ => false
  return layoutToJson (if f42 then fromStridesF st tb off else fromStrides st tb off)

/-- args: {"layout": L, "shape": [nat], "el": nat, "n1"?: bool (model fix FC10a), "canon"?: bool (canonicalize first)}
    -> {"bounds": …, "steps": …} -/
def resolveH : Handler := fun j => do
  let l0 ← layoutOfJson (← field j "layout")
  let canon := match j.getObjVal? "canon" with
    | .ok (Json.bool b) => b
    | _ => false
  let l := if canon then l0.canonicalize else l0
  let sh ← listOf nat (← field j "shape")
  let el ← nat (← field j "el")
  let n1 := match j.getObjVal? "n1" with
    | .ok (Json.bool b) => b
    | _ => false
  let bs := boundsAt l.ts sh
  let ss : Json := match bs with
    | .ok b => jExc (jList (jList jNat)) (if n1 then stepsAtN1 l b el else stepsAt l b el)
    | .error _ => Json.null
  return Json.mkObj [("bounds", jExc (jList (jList jNat)) bs), ("steps", ss)]

/-- args: {"tokens": [...], "f6": bool} -/
def parseH : Handler := fun j => do
  let toks ← listOf tokOfJson (← field j "tokens")
  let f6 ← bool (← field j "f6")
  return jExc layoutToJson (parse f6 toks)

/-- args: {"layout": L, "el": nat, "base": nat, "offs": [nat|null], "dyn": [nat], "f13": bool} -/
def subviewH : Handler := fun j => do
  let l ← layoutOfJson (← field j "layout")
  let el ← nat (← field j "el")
  let offs ← listOf (optOf nat) (← field j "offs")
  let dyn ← listOf nat (← field j "dyn")
  let f13 ← bool (← field j "f13")
  let base ← nat (← field j "base")
  return jExc jNat (subviewPtr f13 el base l.ts offs dyn)

/-- args: {"layout": L | null, "strides"/"tile_bounds"/"offset" (used when layout is null: from_strides),
    "shape": [nat], "el": nat, "el_size": nat, "meta": [nat]} -> {"layout": L, "bounds": …, "steps": …} -/
def resolveStridedH : Handler := fun j => do
  let lj ← field j "layout"
  let l ← if lj.isNull then do
      let st ← listOf (optOf nat) (← field j "strides")
      let tb ← listOf (listOf (optOf nat)) (← field j "tile_bounds")
      let off ← optOf int (← field j "offset")
      let f42 := match j.getObjVal? "f42" with
        | .ok (Json.bool b) => b
        | _ => false
      pure (if f42 then fromStridesF st tb off else fromStrides st tb off)
    else layoutOfJson lj
  let sh ← listOf nat (← field j "shape")
  let el ← nat (← field j "el")
  let elSize ← nat (← field j "el_size")
  let mstr ← listOf nat (← field j "meta")
  let bs := boundsAt l.ts sh
  let ss : Json := match bs with
    | .ok b => jExc (jList (jList jNat)) (stepsAtStrided l b el elSize mstr)
    | .error _ => Json.null
  return Json.mkObj [("layout", layoutToJson l), ("bounds", jExc (jList (jList jNat)) bs), ("steps", ss)]

/-- args: {"layout": L, "other": L, "depths": [nat]} -> the small helpers of the classes -/
def helpersH : Handler := fun j => do
  let l ← layoutOfJson (← field j "layout")
  let o ← layoutOfJson (← field j "other")
  let depths ← listOf nat (← field j "depths")
  return Json.mkObj [
    ("ts_dynamic", jList Json.bool (l.ts.map tstrideIsDynamic)),
    ("ts_all_values", jList (fun t => jExc (jList (jList jNat)) (tstrideAllValues t)) l.ts),
    ("get_stride", jList (fun t => jList (fun d => jOpt strideToJson (tstrideGet t d)) depths) l.ts),
    ("equal_tb", Json.bool (l.equalTileBounds o)),
    ("equal_tb_self", Json.bool (l.equalTileBounds l)),
    ("strides_str", jList (fun s => jList tokToJson (printStride s)) l.strides)]

def handlers : List (String × Handler) :=
  [("c10.views", views), ("c10.from_strides", fromStridesH), ("c10.resolve", resolveH),
   ("c10.parse", parseH), ("c10.subview", subviewH), ("c10.resolve_strided", resolveStridedH),
   ("c10.helpers", helpersH)]

end SnaxVerif.Drv.C10
