import SnaxVerif.Drv.Basic
namespace SnaxVerif.Drv.C19
open Lean SnaxVerif SnaxVerif.Drv

/-- args: {"e": aexpr, "fuel": n} -> canonical expr | null (out of fuel) -/
def canon : Handler := fun j => do
  let e ← aexprOfJson (← field j "e")
  let fuel ← nat (← field j "fuel")
  return jOpt aexprToJson (AExpr.canon fuel e)

/-- args: {"e": aexpr, "pts": [[int]]} -> [int|null] -/
def evalPts : Handler := fun j => do
  let e ← aexprOfJson (← field j "e")
  let pts ← listOf (listOf int) (← field j "pts")
  return jList (jOpt jInt) (pts.map fun p => e.eval (envOfList p))

def handlers : List (String × Handler) :=
  [("c19.canon", canon), ("c19.eval", evalPts)]

end SnaxVerif.Drv.C19
