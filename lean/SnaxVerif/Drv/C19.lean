import SnaxVerif.Drv.Basic
import SnaxVerif.Model.StridePattern
import SnaxVerif.Model.StridePatternZ
import SnaxVerif.Model.PackBits
import SnaxVerif.Model.PackOps
import SnaxVerif.Model.AffineTransform
import SnaxVerif.Model.AttrSyntax
import SnaxVerif.Model.AccessCanon
namespace SnaxVerif.Drv.C19
open Lean SnaxVerif SnaxVerif.Drv

/-- args: {"e": aexpr, "fuel": n} -> canonical expr | null (out of fuel) -/
def canon : Handler := fun j => do
  let e ← aexprOfJson (← field j "e")
  let fuel ← nat (← field j "fuel")
  return jOpt aexprToJson (AExpr.canon fuel e)

/-- args: {"e": aexpr, "pts": [[int]]} -> [int|null] -/
def evalPts : Handler := fun j => do
  let e ← aexprOfJson (← field j "e")
  let pts ← listOf (listOf int) (← field j "pts")
  return jList (jOpt jInt) (pts.map fun p => e.eval (envOfList p))

/-- args: {"rs": [aexpr], "fuel": n} -> [aexpr] | null (out of fuel) -/
def canonMapH : Handler := fun j => do
  let rs ← listOf aexprOfJson (← field j "rs")
  let fuel ← nat (← field j "fuel")
  return jOpt (jList aexprToJson) (canonMap fuel rs)

def flag (j : Json) (k : String) : Bool :=
  match j.getObjVal? k with
  | .ok (.bool b) => b
  | _ => false

/-! ### stride patterns -/

def natBound (j : Json) : Except String Nat := do
  let i ← int j
  if i < 0 then throw "negative upper bound: outside the model" else pure i.toNat

def patOfJson (j : Json) : Except String Stride.Pattern := do
  return { ub := ← listOf natBound (← field j "ub"), ts := ← listOf int (← field j "ts"),
           ss := ← listOf int (← field j "ss") }

def patToJson (p : Stride.Pattern) : Json :=
  Json.mkObj [("ub", jList jNat p.ub), ("ts", jList jInt p.ts), ("ss", jList jInt p.ss)]

/-- args: {"ub","ts","ss"} -> {"verify": bool, "canon": pattern, "addrs": [int] | null (too long)} -/
def spCanon : Handler := fun j => do
  let p ← patOfJson j
  let size := p.loops.foldl (fun a l => a * l.1) 1
  return Json.mkObj [("verify", Json.bool p.verify), ("canon", patToJson p.canonicalize),
    ("addrs", if size ≤ 100000 then jList jInt p.addrs else Json.null)]

/-- args: {"ub": [int], "ts", "ss"} (any sign) -> {"verify", "canon", "addrs" | null} -/
def spCanonZ : Handler := fun j => do
  let p : Stride.PatternZ := { ub := ← listOf int (← field j "ub"), ts := ← listOf int (← field j "ts"),
                               ss := ← listOf int (← field j "ss") }
  let size : Nat := p.loops.foldl (fun (a : Nat) (l : Stride.LoopZ) => a * l.1.toNat) 1
  let c := p.canonicalize
  return Json.mkObj [("verify", Json.bool p.verify),
    ("canon", Json.mkObj [("ub", jList jInt c.ub), ("ts", jList jInt c.ts), ("ss", jList jInt c.ss)]),
    ("addrs", if size ≤ 100000 then jList jInt (Stride.offsZ p.loops) else Json.null)]

/-! ### pack_bitlist -/

def treeToJson : Pack.Tree → Json
  | .shl v o => Json.arr #[Json.str "shl", jNat v, jNat o]
  | .or a b => Json.arr #[Json.str "or", treeToJson a, treeToJson b]

/-- args: {"vs":[nat], "os":[nat], "w": nat} -> {"raised": "ValueError"} | {"tree","value","valueW"} -/
def pack : Handler := fun j => do
  let vs ← listOf nat (← field j "vs")
  let os ← listOf nat (← field j "os")
  let w ← nat (← field j "w")
  match Pack.pack vs os with
  | .error .lengthMismatch => return Json.mkObj [("raised", Json.str "ValueError")]
  | .ok none => return Json.mkObj [("tree", Json.null)]
  | .ok (some t) =>
    return Json.mkObj [("tree", treeToJson t), ("value", jNat t.eval), ("valueW", jNat (t.evalW w)),
      ("spec", jNat (Pack.spec vs os))]

def srcOfJson (j : Json) : Except String Pack.Src := do
  let a ← arr j
  match ← str a[0]! with
  | "lit" => return .lit (← nat a[1]!)
  | "ext" => return .ext (← nat a[1]!)
  | s => throw s!"bad src {s}"

def refToJson : Pack.Ref → Json
  | .op i => Json.arr #[Json.str "op", jNat i]
  | .ext v => Json.arr #[Json.str "ext", jNat v]

def opToJson : Pack.Op → Json
  | .const v => Json.arr #[Json.str "const", jNat v]
  | .shl a b => Json.arr #[Json.str "shl", refToJson a, refToJson b]
  | .or a b => Json.arr #[Json.str "or", refToJson a, refToJson b]

/-- args: {"vs": [["lit"|"ext", nat]], "os": same} -> {"raised"} | {"ops": [...], "vals": [nat] | null} -/
def packOps : Handler := fun j => do
  let vs ← listOf srcOfJson (← field j "vs")
  let os ← listOf srcOfJson (← field j "os")
  match Pack.emit vs os with
  | .error .lengthMismatch => return Json.mkObj [("raised", Json.str "ValueError")]
  | .ok ops =>
    return Json.mkObj [("ops", jList opToJson ops), ("vals", jOpt (jList jNat) (Pack.execFrom [] ops))]

/-! ### AffineTransform -/

def transOfJson (j : Json) : Except String AT.Transform := do
  return { nd := ← nat (← field j "nd"), A := ← listOf (listOf int) (← field j "A"),
           b := ← listOf int (← field j "b") }

def transToJson (t : AT.Transform) : Json :=
  Json.mkObj [("nd", jNat t.nd), ("A", jList (jList jInt) t.A), ("b", jList jInt t.b)]

def errName : AT.Err → String
  | .valueError => "ValueError"
  | .indexError => "IndexError"

def exceptJson {α} (f : α → Json) : Except AT.Err α → Json
  | .ok a => Json.mkObj [("ok", f a)]
  | .error e => Json.mkObj [("raised", Json.str (errName e))]

def wfT (t : AT.Transform) : Except String Unit :=
  if t.wf then pure () else throw "transform is not well-formed (numpy would refuse it)"

def atToMap : Handler := fun j => do
  let t ← transOfJson j
  wfT t
  return jList aexprToJson t.toMap

def atFromMap : Handler := fun j => do
  let n ← nat (← field j "n")
  let rs ← listOf aexprOfJson (← field j "rs")
  return exceptJson transToJson (AT.fromMap n rs)

def atCompose : Handler := fun j => do
  let s ← transOfJson (← field j "s")
  let o ← transOfJson (← field j "o")
  wfT s; wfT o
  return exceptJson transToJson (s.compose o)

/-- args: {"s","o","xs"} -> {"raised"} | {"ok": transform, "evals": [[int]]} -/
def atComposeEval : Handler := fun j => do
  let s ← transOfJson (← field j "s")
  let o ← transOfJson (← field j "o")
  wfT s; wfT o
  let xs ← listOf (listOf int) (← field j "xs")
  match s.compose o with
  | .error e => return Json.mkObj [("raised", Json.str (errName e))]
  | .ok c =>
    let evs ← xs.mapM fun x => match c.eval x with
      | .ok y => pure (jList jInt y)
      | .error e => throw s!"eval of the composition raised {errName e}"
    return Json.mkObj [("ok", transToJson c), ("evals", Json.arr evs.toArray)]

def atEval : Handler := fun j => do
  let t ← transOfJson (← field j "t")
  wfT t
  let x ← listOf int (← field j "x")
  return exceptJson (jList jInt) (t.eval x)

/-- args: {"a_shape": [nat], "b_shape": [nat]} -> {"ok": null} | {"raised"} -/
def atPostInit : Handler := fun j => do
  let a ← listOf nat (← field j "a_shape")
  let b ← listOf nat (← field j "b_shape")
  return exceptJson (fun _ => Json.null) (AT.postInit a b)

/-- args: {"t", "ndim", "xs": [[int]], "k"} -> {"ok": [[int]]} | {"raised"} -/
def atEvalNd : Handler := fun j => do
  let t ← transOfJson (← field j "t")
  wfT t
  let ndim ← nat (← field j "ndim")
  let xs ← listOf (listOf int) (← field j "xs")
  let k ← nat (← field j "k")
  return exceptJson (jList (jList jInt)) (t.evalNd ndim xs k)

/-- args: {"s", "o", "fixed": bool} -> {"ok": bool} | {"raised"} -/
def atEq : Handler := fun j => do
  let s ← transOfJson (← field j "s")
  let o ← transOfJson (← field j "o")
  wfT s; wfT o
  if flag j "fixed" then return Json.mkObj [("ok", Json.bool (s.eqFixed o))]
  return exceptJson Json.bool (s.eqNp o)

/-! ### attribute syntax -/
open Syntax in
def tokToJson : Tok → Json
  | .lt => "<" | .gt => ">" | .lsq => "[" | .rsq => "]" | .comma => "," | .minus => "-" | .eq => "="
  | .ident s => Json.arr #[Json.str "id", Json.str s]
  | .nat n => Json.arr #[Json.str "n", jNat n]

open Syntax in
def tokOfJson (j : Json) : Except String Tok :=
  match j with
  | .str "<" => pure .lt | .str ">" => pure .gt | .str "[" => pure .lsq | .str "]" => pure .rsq
  | .str "," => pure .comma | .str "-" => pure .minus | .str "=" => pure .eq
  | .arr #[.str "id", .str s] => pure (.ident s)
  | .arr #[.str "n", n] => do pure (.nat (← nat n))
  | _ => throw s!"bad token {j.compress}"

def spaOfJson (j : Json) : Except String Syntax.SPAttr := do
  return { ub := ← listOf int (← field j "ub"), ts := ← listOf int (← field j "ts"),
           ss := ← listOf int (← field j "ss") }

def spaToJson (p : Syntax.SPAttr) : Json :=
  Json.mkObj [("ub", jList jInt p.ub), ("ts", jList jInt p.ts), ("ss", jList jInt p.ss)]

/-- token-level damage of the malformed stream; the same function as `mutate` in harness/props/c19.py
(test scaffolding, not part of the model): args "mut": null | [op, k] -/
def mutateToks (toks : List Syntax.Tok) (j : Json) : Except String (List Syntax.Tok) := do
  if j.isNull || toks.isEmpty then return toks
  let a ← arr j
  let op ← str a[0]!
  let k ← nat a[1]!
  let n := toks.length
  let i := k % n
  let ti := toks.getD i .comma
  match op with
  | "del" => return toks.eraseIdx i
  | "dup" => return toks.take i ++ ti :: toks.drop i
  | "swap" =>
    if n ≤ 1 then return toks
    let jx := (i + 1) % n
    let tj := toks.getD jx .comma
    return (toks.set i tj).set jx ti
  | "minus" => return toks.take i ++ Syntax.Tok.minus :: toks.drop i
  | "comma" => return toks.take i ++ Syntax.Tok.comma :: toks.drop i
  | "ident" => return toks.set i (Syntax.Tok.ident "zz")
  | "opt" => return match ti with
    | .ident _ => toks.set i (Syntax.Tok.ident "bm")
    | _ => toks
  | _ => throw s!"bad mutation {op}"

/-- args: {"ub","ts","ss","mut"} -> {"toks": printed tokens, "parsed": attr | null (of the damaged tokens)} -/
def spSyntax : Handler := fun j => do
  let toks := Syntax.printSP (← spaOfJson j)
  let toks' ← mutateToks toks (← field j "mut")
  return Json.mkObj [("toks", jList tokToJson toks),
    ("parsed", jOpt (fun p => spaToJson p.1)
      (if flag j "fixed" then Syntax.parseSP toks' else Syntax.parseSPLoose toks'))]

def spParse : Handler := fun j => do
  let toks ← listOf tokOfJson (← field j "toks")
  return jOpt (fun p => spaToJson p.1) (Syntax.parseSP toks)

open Syntax in
def streamerOfJson (j : Json) : Except String Streamer := do
  let ty ← match ← str (← field j "ty") with
    | "r" => pure SType.reader | "w" => pure SType.writer | s => throw s!"bad streamer type {s}"
  let temporal ← listOf (fun f => do
    match Syntax.flagOf (← str f) with | some x => pure x | none => throw "bad flag") (← field j "temp")
  let opts ← listOf (fun f => do
    match Syntax.optOf (← str f) with | some x => pure x | none => throw "unknown option") (← field j "opts")
  return { ty := ty, temporal := temporal, spatial := ← listOf nat (← field j "spat"), opts := opts }

open Syntax in
def cfgOfJson (j : Json) : Except String Config := do
  let sys ← match ← str (← field j "sys") with
    | "reg" => pure SysType.regular | "xdma" => pure SysType.xdma | s => throw s!"bad system type {s}"
  return { streamers := ← listOf streamerOfJson (← field j "streamers"), sys := sys }

open Syntax in
def cfgToJson (c : Config) : Json :=
  Json.mkObj [("streamers", jList (fun s => Json.mkObj [
      ("ty", Json.str (stypeName s.ty)), ("temp", jList (fun f => Json.str (flagName f)) s.temporal),
      ("spat", jList jNat s.spatial), ("opts", jList (fun o => Json.str (optName o)) s.opts)]) c.streamers),
    ("sys", Json.str (match c.sys with | .regular => "reg" | .xdma => "xdma"))]

/-- args: {"cfg", "mut"} -> {"toks", "parsed": config | null} -/
def cfgSyntax : Handler := fun j => do
  let fixed := flag j "fixed"
  let cfg ← cfgOfJson (← field j "cfg")
  let toks := if fixed then Syntax.printCfgFixed cfg else Syntax.printCfg cfg
  let toks' ← mutateToks toks (← field j "mut")
  return Json.mkObj [("toks", jList tokToJson toks),
    ("parsed", jOpt (fun p => cfgToJson p.1) (if fixed then Syntax.parseCfgFixed toks' else Syntax.parseCfg toks'))]

def cfgParse : Handler := fun j => do
  let toks ← listOf tokOfJson (← field j "toks")
  return jOpt (fun p => cfgToJson p.1) (Syntax.parseCfg toks)

def optTable : Handler := fun _ => do
  return jList (fun o => Json.str (Syntax.optName o)) Syntax.allOpts

/-! ### AccessPattern -/

def clsName : AP.Cls → String
  | .access => "access" | .schedule => "schedule" | .template => "template"

def apToJson (p : AP.Pattern) : Json :=
  Json.mkObj [("cls", Json.str (clsName p.cls)), ("bounds", jList (jOpt jInt) p.bounds), ("t", transToJson p.t)]

def apErr : AP.Err → Json
  | .valueError => Json.mkObj [("raised", Json.str "ValueError")]
  | .typeError => Json.mkObj [("raised", Json.str "TypeError")]
  | .indexError => Json.mkObj [("raised", Json.str "IndexError")]

/-- args: {"cls", "bounds": [int|null], "t": transform, "dim": int}
 -> {"raised"} (constructor) | {"canon": pattern, "inner": pattern | {"raised"}} -/
def apHandler : Handler := fun j => do
  let cls ← match ← str (← field j "cls") with
    | "access" => pure AP.Cls.access | "schedule" => pure AP.Cls.schedule | "template" => pure AP.Cls.template
    | s => throw s!"bad class {s}"
  let bounds ← listOf (optOf int) (← field j "bounds")
  let dim ← int (← field j "dim")
  let built ← match j.getObjVal? "map" with
    | .ok m =>
      if m.isNull then do
        let t ← transOfJson (← field j "t")
        wfT t
        pure (AP.construct cls bounds t)
      else do
        let n ← nat (← field m "n")
        let rs ← listOf aexprOfJson (← field m "rs")
        pure (AP.constructFromMap cls bounds n rs)
    | .error _ => do
      let t ← transOfJson (← field j "t")
      wfT t
      pure (AP.construct cls bounds t)
  match built with
  | .error e => return apErr e
  | .ok p =>
    let inner := match p.innerDims dim with
      | .ok q => apToJson q
      | .error e => apErr e
    let canon := if flag j "fixed" then p.canonicalizeFixed else p.canonicalize
    return Json.mkObj [("built", apToJson p), ("canon", apToJson canon), ("inner", inner)]

def handlers : List (String × Handler) :=
  [("c19.canon", canon), ("c19.eval", evalPts), ("c19.sp_canon", spCanon), ("c19.sp_canon_z", spCanonZ), ("c19.pack", pack), ("c19.pack_ops", packOps),
   ("c19.at_tomap", atToMap), ("c19.at_frommap", atFromMap), ("c19.at_compose", atCompose),
   ("c19.at_compose_eval", atComposeEval), ("c19.at_eval", atEval), ("c19.sp_syntax", spSyntax),
   ("c19.sp_parse", spParse), ("c19.cfg_syntax", cfgSyntax), ("c19.cfg_parse", cfgParse),
   ("c19.opt_table", optTable), ("c19.ap", apHandler), ("c19.canon_map", canonMapH),
   ("c19.at_postinit", atPostInit), ("c19.at_evalnd", atEvalNd), ("c19.at_eq", atEq)]

end SnaxVerif.Drv.C19
