import SnaxVerif.Model.Loops
/-! Helper lemmas for C17. Core Lean only. -/
namespace SnaxVerif.Loops

variable (I : Nat → List Val → Val)

theorem upd_same (e : Env) (v : Var) (x : Val) : upd e v x v = x := by simp [upd]

theorem upd_other (e : Env) (v w : Var) (x : Val) (h : w ≠ v) : upd e v x w = e w := by simp [upd, h]

theorem upd_comm (e : Env) (v w : Var) (x y : Val) (h : v ≠ w) :
    upd (upd e v x) w y = upd (upd e w y) v x := by
  funext u
  simp only [upd]
  by_cases h1 : u = w
  · by_cases h2 : u = v
    · exact absurd (h2.symm.trans h1) h
    · subst h1; simp [Ne.symm h]
  · by_cases h2 : u = v
    · subst h2; simp [h]
    · simp [h1, h2]

theorem flatMap_congr' {α β} {l : List α} {f g : α → List β} (h : ∀ x ∈ l, f x = g x) :
    l.flatMap f = l.flatMap g := by
  induction l with
  | nil => rfl
  | cons a r ih =>
    simp only [List.flatMap_cons]
    rw [h a (by simp), ih (fun x hx => h x (by simp [hx]))]

theorem mem_argVars {v : Var} {args : List Arg} : v ∈ argVars args ↔ Arg.var v ∈ args := by
  induction args with
  | nil => simp [argVars]
  | cons a r ih =>
    cases a with
    | var w => simp [argVars, ih]
    | cst c => simp [argVars, ih]

theorem evalArgs_congr {e e' : Env} {args : List Arg} (h : ∀ v ∈ argVars args, e v = e' v) :
    evalArgs e args = evalArgs e' args := by
  unfold evalArgs
  apply List.map_congr_left
  intro a ha
  cases a with
  | var v => exact h v (mem_argVars.mpr ha)
  | cst c => rfl

theorem argEval_congr {e e' : Env} {a : Arg} (h : ∀ v ∈ argVars [a], e v = e' v) : a.eval e = a.eval e' := by
  cases a with
  | var v => exact h v (by simp [argVars])
  | cst c => rfl

/-- coincidence: the trace depends only on the variables that occur as operands -/
theorem trace_congr : ∀ (b : Blk) (e e' : Env), (∀ v ∈ usesOf b, e v = e' v) → trace I b e = trace I b e'
  | .nil, _, _, _ => rfl
  | .pure d op args r, e, e', h => by
    simp only [trace]
    have ha : evalArgs e args = evalArgs e' args :=
      evalArgs_congr (fun v hv => h v (by simp [usesOf, hv]))
    rw [ha]
    apply trace_congr r
    intro v hv
    by_cases hvd : v = d
    · subst hvd; simp [upd]
    · simp only [upd, hvd, if_false]; exact h v (by simp [usesOf, hv])
  | .eff id args r, e, e', h => by
    simp only [trace]
    have ha : evalArgs e args = evalArgs e' args :=
      evalArgs_congr (fun v hv => h v (by simp [usesOf, hv]))
    rw [ha, trace_congr r e e' (fun v hv => h v (by simp [usesOf, hv]))]
  | .loop iv lb ub st body r, e, e', h => by
    simp only [trace]
    have hlb : lb.eval e = lb.eval e' := argEval_congr (fun v hv => h v (by
      simp only [usesOf, List.mem_append]; left
      cases lb <;> simp_all [argVars]))
    have hub : ub.eval e = ub.eval e' := argEval_congr (fun v hv => h v (by
      simp only [usesOf, List.mem_append]; left
      cases ub <;> cases lb <;> simp_all [argVars]))
    have hst : st.eval e = st.eval e' := argEval_congr (fun v hv => h v (by
      simp only [usesOf, List.mem_append]; left
      cases st <;> cases ub <;> cases lb <;> simp_all [argVars]))
    rw [hlb, hub, hst, trace_congr r e e' (fun v hv => h v (by simp [usesOf, hv]))]
    congr 1
    apply flatMap_congr'
    intro i _
    apply trace_congr body
    intro v hv
    by_cases hvd : v = iv
    · subst hvd; simp [upd]
    · simp only [upd, hvd, if_false]; exact h v (by simp [usesOf, hv])


theorem splitAt_append : ∀ (j : Nat) (b p s : Blk), splitAt j b = some (p, s) → b = append p s
  | 0, b, p, s, h => by
    simp only [splitAt, Option.some.injEq, Prod.mk.injEq] at h
    obtain ⟨rfl, rfl⟩ := h; rfl
  | n + 1, .nil, p, s, h => by simp [splitAt] at h
  | n + 1, .pure d op args r, p, s, h => by
    simp only [splitAt, Option.map_eq_some_iff] at h
    obtain ⟨⟨p', s'⟩, h1, h2⟩ := h
    simp only [Prod.mk.injEq] at h2
    obtain ⟨rfl, rfl⟩ := h2
    simp only [append]; rw [← splitAt_append n r p' s' h1]
  | n + 1, .eff id args r, p, s, h => by
    simp only [splitAt, Option.map_eq_some_iff] at h
    obtain ⟨⟨p', s'⟩, h1, h2⟩ := h
    simp only [Prod.mk.injEq] at h2
    obtain ⟨rfl, rfl⟩ := h2
    simp only [append]; rw [← splitAt_append n r p' s' h1]
  | n + 1, .loop iv lb ub st body r, p, s, h => by
    simp only [splitAt, Option.map_eq_some_iff] at h
    obtain ⟨⟨p', s'⟩, h1, h2⟩ := h
    simp only [Prod.mk.injEq] at h2
    obtain ⟨rfl, rfl⟩ := h2
    simp only [append]; rw [← splitAt_append n r p' s' h1]

/-- a block of value computations emits nothing, whatever it is appended to -/
theorem trace_append_pureOnly_right : ∀ (a c : Blk) (e : Env), pureOnly c = true → trace I (append a c) e = trace I a e
  | .nil, c, e, h => by
    simp only [append, trace]
    induction c generalizing e with
    | nil => rfl
    | pure d op args r ih => simp only [trace]; exact ih _ (by simpa [pureOnly] using h)
    | eff id args r _ => simp [pureOnly] at h
    | loop iv lb ub st body r _ _ => simp [pureOnly] at h
  | .pure d op args r, c, e, h => by simp only [append, trace]; exact trace_append_pureOnly_right r c _ h
  | .eff id args r, c, e, h => by simp only [append, trace]; rw [trace_append_pureOnly_right r c _ h]
  | .loop iv lb ub st body r, c, e, h => by simp only [append, trace]; rw [trace_append_pureOnly_right r c _ h]

theorem trace_append_pure_left : ∀ (p s : Blk) (e : Env), pureOnly p = true →
    trace I (append p s) e = trace I s (runPure I p e)
  | .nil, s, e, _ => by simp [append, runPure]
  | .pure d op args r, s, e, h => by
    simp only [append, trace, runPure]
    exact trace_append_pure_left r s _ (by simpa [pureOnly] using h)
  | .eff id args r, s, e, h => by simp [pureOnly] at h
  | .loop iv lb ub st body r, s, e, h => by simp [pureOnly] at h

/-- `runPure` only touches the names the block defines -/
theorem runPure_other : ∀ (p : Blk) (e : Env) (x : Var), x ∉ defsTop p → runPure I p e x = e x
  | .nil, e, x, _ => rfl
  | .pure d op args r, e, x, h => by
    simp only [runPure]
    have hx : x ≠ d := fun hh => h (by simp [defsTop, hh])
    rw [runPure_other r _ x (fun hh => h (by simp [defsTop, hh])), upd_other _ _ _ _ hx]
  | .eff id args r, e, x, _ => rfl
  | .loop iv lb ub st body r, e, x, _ => rfl

/-- two environments that agree except at `x` still do after a block that never mentions `x` -/
theorem runPure_agree : ∀ (p : Blk) (e e' : Env) (x : Var), x ∉ usesOf p →
    (∀ v, v ≠ x → e v = e' v) → ∀ v, v ≠ x → runPure I p e v = runPure I p e' v
  | .nil, e, e', x, _, h => h
  | .pure d op args r, e, e', x, hx, h => by
    simp only [runPure]
    apply runPure_agree r _ _ x (fun hh => hx (by simp [usesOf, hh]))
    intro v hv
    have ha : evalArgs e args = evalArgs e' args :=
      evalArgs_congr (fun w hw => h w (fun hh => hx (by simp [usesOf, ← hh, hw])))
    rw [ha]
    by_cases hvd : v = d
    · subst hvd; simp [upd]
    · simp only [upd, hvd, if_false]; exact h v hv
  | .eff id args r, e, e', x, _, h => h
  | .loop iv lb ub st body r, e, e', x, _, h => h

theorem trace_deadBody : ∀ (b : Blk) (e : Env), deadBody b = true → trace I b e = []
  | .nil, _, _ => rfl
  | .pure d op args r, e, h => by
    simp only [trace]
    exact trace_deadBody r _ (by simp only [deadBody, Bool.and_eq_true] at h; exact h.2)
  | .eff id args r, e, h => by simp [deadBody] at h
  | .loop iv lb ub st body r, e, h => by
    simp only [deadBody, Bool.and_eq_true] at h
    simp only [trace, trace_deadBody r e h.2, List.append_nil]
    induction (iters (lb.eval e).toInt (ub.eval e).toInt (st.eval e).toInt) with
    | nil => rfl
    | cons a l ih => rw [List.flatMap_cons, ih, trace_deadBody body _ h.1]; rfl

/-- a rewrite of a block suffix that preserves the trace for every environment preserves the trace of the
whole program, wherever the suffix sits (any nesting depth, any trip counts around it) -/
theorem applyAt_trace (f : Blk → Except Err Blk)
    (hf : ∀ b b', f b = .ok b' → ∀ e, trace I b' e = trace I b e) :
    ∀ (b : Blk) (p : List Nat) (b' : Blk), applyAt f b p = .ok b' → ∀ e, trace I b' e = trace I b e
  | b, [], b', h => by cases b <;> simp [applyAt] at h
  | .nil, [0], b', h => by simp only [applyAt] at h; exact hf _ _ h
  | .pure d op args r, [0], b', h => by simp only [applyAt] at h; exact hf _ _ h
  | .eff id args r, [0], b', h => by simp only [applyAt] at h; exact hf _ _ h
  | .loop iv lb ub st body r, [0], b', h => by simp only [applyAt] at h; exact hf _ _ h
  | .nil, 0 :: q :: p, b', h => by simp [applyAt] at h
  | .pure d op args r, 0 :: q :: p, b', h => by simp [applyAt] at h
  | .eff id args r, 0 :: q :: p, b', h => by simp [applyAt] at h
  | .loop iv lb ub st body r, 0 :: q :: p, b', h => by
    simp only [applyAt] at h
    cases hb : applyAt f body (q :: p) with
    | error x => simp [hb, Except.map] at h
    | ok body' =>
      simp only [hb, Except.map, Except.ok.injEq] at h
      subst h
      intro e
      simp only [trace]
      congr 1
      apply flatMap_congr'
      intro i _
      exact applyAt_trace f hf body (q :: p) body' hb _
  | .nil, (n + 1) :: p, b', h => by simp [applyAt] at h
  | .pure d op args r, (n + 1) :: p, b', h => by
    simp only [applyAt] at h
    cases hb : applyAt f r (n :: p) with
    | error x => simp [hb, Except.map] at h
    | ok r' =>
      simp only [hb, Except.map, Except.ok.injEq] at h
      subst h
      intro e
      simp only [trace]
      exact applyAt_trace f hf r (n :: p) r' hb _
  | .eff id args r, (n + 1) :: p, b', h => by
    simp only [applyAt] at h
    cases hb : applyAt f r (n :: p) with
    | error x => simp [hb, Except.map] at h
    | ok r' =>
      simp only [hb, Except.map, Except.ok.injEq] at h
      subst h
      intro e
      simp only [trace]
      rw [applyAt_trace f hf r (n :: p) r' hb e]
  | .loop iv lb ub st body r, (n + 1) :: p, b', h => by
    simp only [applyAt] at h
    cases hb : applyAt f r (n :: p) with
    | error x => simp [hb, Except.map] at h
    | ok r' =>
      simp only [hb, Except.map, Except.ok.injEq] at h
      subst h
      intro e
      simp only [trace]
      rw [applyAt_trace f hf r (n :: p) r' hb e]


theorem evalArgs_upd_of_not_mem (e : Env) (d : Var) (x : Val) (args : List Arg) (h : d ∉ argVars args) :
    evalArgs (upd e d x) args = evalArgs e args :=
  evalArgs_congr (fun v hv => upd_other e d v x (fun hh => h (hh ▸ hv)))

theorem argEval_upd_of_not_mem (e : Env) (d : Var) (x : Val) (a : Arg) (h : d ∉ argVars [a]) :
    a.eval (upd e d x) = a.eval e :=
  argEval_congr (fun v hv => upd_other e d v x (fun hh => h (hh ▸ hv)))

theorem not_mem_argVars3 {d : Var} {lb ub st : Arg} (h : d ∉ argVars [lb, ub, st]) :
    d ∉ argVars [lb] ∧ d ∉ argVars [ub] ∧ d ∉ argVars [st] := by
  cases lb <;> cases ub <;> cases st <;> simp_all [argVars]

/-- moving a value computation over a block prefix that neither mentions its result nor defines its operands -/
theorem hoist_lemma (d : Var) (op : OpKind) (args : List Arg) (suf : Blk) :
    ∀ (pre : Blk) (e : Env), d ∉ allVars pre → (∀ v ∈ argVars args, v ∉ defsTop pre) →
      trace I (append pre (.pure d op args suf)) e
        = trace I (append pre suf) (upd e d (op.apply I (evalArgs e args)))
  | .nil, e, _, _ => by simp [append, trace]
  | .pure d' op' args' r, e, hd, ha => by
    simp only [allVars, defsAll, usesOf, List.mem_append, List.mem_cons, not_or] at hd
    obtain ⟨⟨hdd, hdr⟩, hda, hur⟩ := hd
    simp only [append, trace]
    rw [hoist_lemma d op args suf r _ (by simp [allVars, hdr, hur])
        (fun v hv hh => ha v hv (by simp [defsTop, hh]))]
    have h1 : d' ∉ argVars args := fun hh => ha d' hh (by simp [defsTop])
    rw [evalArgs_upd_of_not_mem _ _ _ _ h1, evalArgs_upd_of_not_mem _ _ _ _ hda,
      upd_comm _ _ _ _ _ (Ne.symm hdd)]
  | .eff id args' r, e, hd, ha => by
    simp only [allVars, defsAll, usesOf, List.mem_append, not_or] at hd
    obtain ⟨hdr, hda, hur⟩ := hd
    simp only [append, trace]
    rw [hoist_lemma d op args suf r e (by simp [allVars, hdr, hur])
        (fun v hv hh => ha v hv (by simpa [defsTop] using hh)),
      evalArgs_upd_of_not_mem _ _ _ _ hda]
  | .loop iv lb ub st body r, e, hd, ha => by
    simp only [allVars, defsAll, usesOf, List.mem_append, List.mem_cons, not_or] at hd
    obtain ⟨⟨hdiv, hdb, hdr⟩, hdbd, hub, hur⟩ := hd
    obtain ⟨h1, h2, h3⟩ := not_mem_argVars3 hdbd
    simp only [append, trace]
    rw [hoist_lemma d op args suf r e (by simp [allVars, hdr, hur])
        (fun v hv hh => ha v hv (by simpa [defsTop] using hh)),
      argEval_upd_of_not_mem _ _ _ _ h1, argEval_upd_of_not_mem _ _ _ _ h2, argEval_upd_of_not_mem _ _ _ _ h3]
    congr 1
    apply flatMap_congr'
    intro i _
    apply trace_congr
    intro v hv
    have hvd : v ≠ d := fun hh => hub (hh ▸ hv)
    by_cases hvi : v = iv
    · subst hvi; simp [upd]
    · simp [upd, hvi, hvd]


theorem mem_usesOf_append (v : Var) : ∀ (a c : Blk), v ∈ usesOf (append a c) ↔ v ∈ usesOf a ∨ v ∈ usesOf c
  | .nil, c => by simp [append, usesOf]
  | .pure d op args r, c => by simp [append, usesOf, mem_usesOf_append v r c, or_assoc]
  | .eff id args r, c => by simp [append, usesOf, mem_usesOf_append v r c, or_assoc]
  | .loop iv lb ub st body r, c => by
    simp only [append, usesOf, List.mem_append, mem_usesOf_append v r c]
    constructor
    · rintro (h | h | h | h) <;> simp [h]
    · rintro ((h | h | h) | h) <;> simp [h]

theorem mem_defsAll_append (v : Var) : ∀ (a c : Blk), v ∈ defsAll (append a c) ↔ v ∈ defsAll a ∨ v ∈ defsAll c
  | .nil, c => by simp [append, defsAll]
  | .pure d op args r, c => by simp [append, defsAll, mem_defsAll_append v r c, or_assoc]
  | .eff id args r, c => by simp [append, defsAll, mem_defsAll_append v r c]
  | .loop iv lb ub st body r, c => by
    simp only [append, defsAll, List.mem_append, List.mem_cons, mem_defsAll_append v r c]
    constructor
    · rintro (h | h | h | h) <;> simp [h]
    · rintro ((h | h | h) | h) <;> simp [h]

theorem defsTop_sub_defsAll (v : Var) : ∀ (b : Blk), v ∈ defsTop b → v ∈ defsAll b
  | .nil, h => h
  | .pure d op args r, h => by
    simp only [defsTop, List.mem_cons] at h
    rcases h with h | h
    · simp [defsAll, h]
    · simp [defsAll, defsTop_sub_defsAll v r h]
  | .eff id args r, h => by simpa [defsAll] using defsTop_sub_defsAll v r (by simpa [defsTop] using h)
  | .loop iv lb ub st body r, h => by
    simp only [defsAll, List.mem_cons, List.mem_append]
    exact Or.inr (Or.inr (defsTop_sub_defsAll v r (by simpa [defsTop] using h)))

theorem trace_pureOnly (b : Blk) (e : Env) (h : pureOnly b = true) : trace I b e = [] := by
  have := trace_append_pureOnly_right I .nil b e h
  simpa [append, trace] using this

/-! ### trip-count arithmetic -/

theorem iters_zero_one (x : Nat) : iters 0 (x : Int) 1 = (List.range x).map (fun (k : Nat) => (k : Int)) := by
  have h : tripCount 0 (x : Int) 1 = x := by
    unfold tripCount
    simp
  unfold iters
  rw [h]
  apply List.map_congr_left
  intro k _
  simp

theorem iters_nonpos_one (x : Int) (h : x ≤ 0) : iters 0 x 1 = [] := by
  have h : tripCount 0 x 1 = 0 := by
    unfold tripCount
    simp
    omega
  unfold iters
  rw [h]; rfl

/-- `-(-ub // st)` is the number of iterations of `for i = 0 to ub step st` -/
theorem ceil_neg_fdiv (ub st : Int) (h : 0 < st) : -(pyFloorDiv (-ub) st) = (ub - 0 + st - 1) / st := by
  unfold pyFloorDiv
  rw [Int.fdiv_eq_ediv_of_nonneg _ (Int.le_of_lt h)]
  have h1 := Int.emod_add_mul_ediv (ub - 0 + st - 1) st
  have h2 := Int.emod_nonneg (ub - 0 + st - 1) (Int.ne_of_gt h)
  have h3 := Int.emod_lt_of_pos (ub - 0 + st - 1) h
  generalize (ub - 0 + st - 1) / st = q at *
  generalize (ub - 0 + st - 1) % st = r at *
  have key : (-ub) / st = -q ∧ (-ub) % st = st - 1 - r := by
    rw [Int.ediv_emod_unique h]
    refine ⟨?_, by omega, by omega⟩
    rw [Int.mul_neg]; omega
  rw [key.1]; omega

theorem changeStep_iters (ub st : Int) (h : 0 < st) :
    iters 0 ub st = (iters 0 (-(pyFloorDiv (-ub) st)) 1).map (fun j => st * j) := by
  rw [ceil_neg_fdiv ub st h]
  generalize hq : (ub - 0 + st - 1) / st = q
  have htc : tripCount 0 ub st = q.toNat := by
    unfold tripCount
    rw [if_neg (by omega), hq]
  unfold iters
  rw [htc]
  by_cases hq0 : 0 ≤ q
  · obtain ⟨n, rfl⟩ := Int.eq_ofNat_of_zero_le hq0
    have h1 := iters_zero_one n
    unfold iters at h1
    rw [h1, List.map_map]
    simp
  · have h1 := iters_nonpos_one q (by omega)
    unfold iters at h1
    rw [h1]
    have : q.toNat = 0 := by omega
    rw [this]; rfl

theorem range_mul_flatMap (q t : Nat) :
    (List.range q).flatMap (fun i => (List.range t).map (fun j => t * i + j)) = List.range (q * t) := by
  induction q with
  | zero => simp
  | succ n ih =>
    rw [List.range_succ, List.flatMap_append, ih]
    simp only [List.flatMap_cons, List.flatMap_nil, List.append_nil]
    rw [Nat.succ_mul, List.range_add]
    congr 1
    apply List.map_congr_left
    intro a _
    rw [Nat.mul_comm]

/-- `for k < n*m { body (k / m) (k % m) }` emits the same events as the nest (Nat version, from the prototype) -/
theorem merge_flat_nat {ε} (n m : Nat) (body : Nat → Nat → List ε) :
    (List.range (n * m)).flatMap (fun k => body (k / m) (k % m))
      = (List.range n).flatMap (fun i => (List.range m).flatMap (body i)) := by
  rw [← range_mul_flatMap n m, List.flatMap_assoc]
  apply flatMap_congr'
  intro i _
  rw [List.flatMap_map]
  apply flatMap_congr'
  intro j hj
  have hj' : j < m := List.mem_range.mp hj
  have hm : 0 < m := by omega
  rw [Nat.mul_add_div hm, Nat.div_eq_of_lt hj', Nat.add_zero, Nat.mul_add_mod, Nat.mod_eq_of_lt hj']

theorem merge_flat {ε} (m n : Int) (hm : 0 ≤ m) (hn : 0 ≤ n) (body : Int → Int → List ε) :
    (iters 0 (m * n) 1).flatMap (fun k => body (k / m) (k % m))
      = (iters 0 n 1).flatMap (fun i => (iters 0 m 1).flatMap (fun j => body i j)) := by
  obtain ⟨m', rfl⟩ := Int.eq_ofNat_of_zero_le hm
  obtain ⟨n', rfl⟩ := Int.eq_ofNat_of_zero_le hn
  have hmn : ((m' : Int) * (n' : Int)) = ((n' * m' : Nat) : Int) := by
    rw [Int.natCast_mul, Int.mul_comm]
  rw [hmn, iters_zero_one, iters_zero_one, iters_zero_one, List.flatMap_map, List.flatMap_map]
  have := merge_flat_nat n' m' (fun i j => body (i : Int) (j : Int))
  simp only [List.flatMap_map]
  rw [← this]
  apply flatMap_congr'
  intro k _
  rw [Int.natCast_ediv, Int.natCast_emod]


/-! ### replacing all uses of a value by an equal operand -/

theorem substArg_eval (x : Var) (a : Arg) (e : Env) (h : e x = a.eval e) (b : Arg) :
    (substArg x a b).eval e = b.eval e := by
  cases b with
  | var v =>
    simp only [substArg]
    by_cases hv : v = x
    · subst hv; simp [Arg.eval, h]
    · simp [hv]
  | cst c => rfl

theorem evalArgs_subst (x : Var) (a : Arg) (e : Env) (h : e x = a.eval e) (args : List Arg) :
    evalArgs e (args.map (substArg x a)) = evalArgs e args := by
  unfold evalArgs
  rw [List.map_map]
  apply List.map_congr_left
  intro b _
  exact substArg_eval x a e h b

theorem subst_inv (x : Var) (a : Arg) (e : Env) (h : e x = a.eval e) (d : Var) (v : Val)
    (hx : x ≠ d) (ha : d ∉ argVars [a]) : upd e d v x = a.eval (upd e d v) := by
  rw [upd_other _ _ _ _ hx, argEval_upd_of_not_mem _ _ _ _ ha, h]

/-- `replace_all_uses_with x a` preserves the trace wherever `x` holds the value of `a`
(neither is redefined below: SSA) -/
theorem subst_trace (x : Var) (a : Arg) : ∀ (b : Blk) (e : Env), e x = a.eval e → x ∉ defsAll b →
    (∀ v ∈ argVars [a], v ∉ defsAll b) → trace I (subst x a b) e = trace I b e
  | .nil, _, _, _, _ => rfl
  | .pure d op args r, e, h, hx, ha => by
    simp only [subst, trace, evalArgs_subst x a e h]
    apply subst_trace x a r
    · exact subst_inv x a e h d _ (fun hh => hx (by simp [defsAll, hh])) (fun hh => ha d hh (by simp [defsAll]))
    · exact fun hh => hx (by simp [defsAll, hh])
    · exact fun v hv hh => ha v hv (by simp [defsAll, hh])
  | .eff id args r, e, h, hx, ha => by
    simp only [subst, trace, evalArgs_subst x a e h]
    rw [subst_trace x a r e h (fun hh => hx (by simpa [defsAll] using hh))
      (fun v hv hh => ha v hv (by simpa [defsAll] using hh))]
  | .loop iv lb ub st body r, e, h, hx, ha => by
    simp only [subst, trace, substArg_eval x a e h]
    rw [subst_trace x a r e h (fun hh => hx (by simp [defsAll, hh]))
      (fun v hv hh => ha v hv (by simp [defsAll, hh]))]
    congr 1
    apply flatMap_congr'
    intro i _
    apply subst_trace x a body
    · exact subst_inv x a e h iv _ (fun hh => hx (by simp [defsAll, hh])) (fun hh => ha iv hh (by simp [defsAll]))
    · exact fun hh => hx (by simp [defsAll, hh])
    · exact fun v hv hh => ha v hv (by simp [defsAll, hh])


/-! ### definitions that dominate a position (`ctxAlong`) hold in every environment that reaches it -/

/-- every recorded definition is (still) true of the environment -/
def Holds (fs : List Fact) (e : Env) : Prop := ∀ f ∈ fs, e f.v = f.op.apply I (evalArgs e f.args)

theorem mem_factVars {x : Var} : ∀ {fs : List Fact}, (∃ f ∈ fs, x = f.v ∨ x ∈ argVars f.args) → x ∈ factVars fs
  | [], h => by obtain ⟨f, hf, _⟩ := h; cases hf
  | g :: r, h => by
    obtain ⟨f, hf, hx⟩ := h
    simp only [factVars, List.mem_cons, List.mem_append]
    rcases List.mem_cons.mp hf with rfl | hf'
    · rcases hx with hx | hx
      · exact Or.inl hx
      · exact Or.inr (Or.inl hx)
    · exact Or.inr (Or.inr (mem_factVars ⟨f, hf', hx⟩))

/-- assigning a name that no recorded definition mentions keeps all of them true -/
theorem Holds_upd {fs : List Fact} {e : Env} (h : Holds I fs e) (d : Var) (x : Val) (hd : d ∉ factVars fs) :
    Holds I fs (upd e d x) := by
  intro f hf
  have h1 : f.v ≠ d := fun hh => hd (mem_factVars ⟨f, hf, Or.inl hh.symm⟩)
  have h2 : d ∉ argVars f.args := fun hh => hd (mem_factVars ⟨f, hf, Or.inr hh⟩)
  rw [upd_other _ _ _ _ h1, evalArgs_upd_of_not_mem _ _ _ _ h2]
  exact h f hf

theorem Holds_snoc {fs : List Fact} {e : Env} (h : Holds I fs e) (d : Var) (op : OpKind) (args : List Arg)
    (cur : Option Var) (hd : d ∉ factVars fs) (hda : d ∉ argVars args) :
    Holds I (fs ++ [⟨d, op, args, cur⟩]) (upd e d (op.apply I (evalArgs e args))) := by
  intro f hf
  rcases List.mem_append.mp hf with hf | hf
  · exact Holds_upd I h d _ hd f hf
  · simp only [List.mem_singleton] at hf
    subst hf
    simp only [upd_same, evalArgs_upd_of_not_mem _ _ _ _ hda]

/-- congruence with context: a rewrite of the block suffix at a position that preserves the trace in every
environment *in which the dominating definitions hold* preserves the trace of the whole program -/
theorem applyAt_trace_facts (f : Blk → Except Err Blk) (facts : List Fact) (cur' : Option Var)
    (hf : ∀ s s', f s = .ok s' → ∀ e, Holds I facts e → trace I s' e = trace I s e) :
    ∀ (b : Blk) (p : List Nat) (acc : List Fact) (cur : Option Var) (b' : Blk),
      ctxAlong b p acc cur = some (facts, cur') → applyAt f b p = .ok b' →
      ∀ e, Holds I acc e → trace I b' e = trace I b e
  | b, [], acc, cur, b', hc, h => by cases b <;> simp [applyAt] at h
  | .nil, [0], acc, cur, b', hc, h => by
    simp only [ctxAlong, Option.some.injEq, Prod.mk.injEq] at hc
    simp only [applyAt] at h; intro e he; exact hf _ _ h e (hc.1 ▸ he)
  | .pure d op args r, [0], acc, cur, b', hc, h => by
    simp only [ctxAlong, Option.some.injEq, Prod.mk.injEq] at hc
    simp only [applyAt] at h; intro e he; exact hf _ _ h e (hc.1 ▸ he)
  | .eff id args r, [0], acc, cur, b', hc, h => by
    simp only [ctxAlong, Option.some.injEq, Prod.mk.injEq] at hc
    simp only [applyAt] at h; intro e he; exact hf _ _ h e (hc.1 ▸ he)
  | .loop iv lb ub st body r, [0], acc, cur, b', hc, h => by
    simp only [ctxAlong, Option.some.injEq, Prod.mk.injEq] at hc
    simp only [applyAt] at h; intro e he; exact hf _ _ h e (hc.1 ▸ he)
  | .nil, 0 :: q :: p, acc, cur, b', hc, h => by simp [applyAt] at h
  | .pure d op args r, 0 :: q :: p, acc, cur, b', hc, h => by simp [applyAt] at h
  | .eff id args r, 0 :: q :: p, acc, cur, b', hc, h => by simp [applyAt] at h
  | .loop iv lb ub st body r, 0 :: q :: p, acc, cur, b', hc, h => by
    simp only [ctxAlong] at hc
    split at hc
    · simp at hc
    next hiv =>
      simp only [List.contains_eq_mem, decide_eq_true_eq] at hiv
      simp only [applyAt] at h
      cases hb : applyAt f body (q :: p) with
      | error x => simp [hb, Except.map] at h
      | ok body' =>
        simp only [hb, Except.map, Except.ok.injEq] at h
        subst h
        intro e he
        simp only [trace]
        congr 1
        apply flatMap_congr'
        intro i _
        exact applyAt_trace_facts f facts cur' hf body (q :: p) acc (some iv) body' hc hb _ (Holds_upd I he iv _ hiv)
  | .nil, (n + 1) :: p, acc, cur, b', hc, h => by simp [applyAt] at h
  | .pure d op args r, (n + 1) :: p, acc, cur, b', hc, h => by
    simp only [ctxAlong] at hc
    split at hc
    · simp at hc
    next hd =>
      simp only [Bool.or_eq_true, List.contains_eq_mem, decide_eq_true_eq, not_or] at hd
      simp only [applyAt] at h
      cases hb : applyAt f r (n :: p) with
      | error x => simp [hb, Except.map] at h
      | ok r' =>
        simp only [hb, Except.map, Except.ok.injEq] at h
        subst h
        intro e he
        simp only [trace]
        exact applyAt_trace_facts f facts cur' hf r (n :: p) _ cur r' hc hb _ (Holds_snoc I he d op args cur hd.1 hd.2)
  | .eff id args r, (n + 1) :: p, acc, cur, b', hc, h => by
    simp only [ctxAlong] at hc
    simp only [applyAt] at h
    cases hb : applyAt f r (n :: p) with
    | error x => simp [hb, Except.map] at h
    | ok r' =>
      simp only [hb, Except.map, Except.ok.injEq] at h
      subst h
      intro e he
      simp only [trace]
      rw [applyAt_trace_facts f facts cur' hf r (n :: p) acc cur r' hc hb e he]
  | .loop iv lb ub st body r, (n + 1) :: p, acc, cur, b', hc, h => by
    simp only [ctxAlong] at hc
    simp only [applyAt] at h
    cases hb : applyAt f r (n :: p) with
    | error x => simp [hb, Except.map] at h
    | ok r' =>
      simp only [hb, Except.map, Except.ok.injEq] at h
      subst h
      intro e he
      simp only [trace]
      rw [applyAt_trace_facts f facts cur' hf r (n :: p) acc cur r' hc hb e he]


/-! ### the def-use chain `MoveMemrefDims` follows, interpreted -/

theorem lookupFact_some {fs : List Fact} {v : Var} {f : Fact} (h : lookupFact fs v = some f) : f ∈ fs ∧ f.v = v := by
  unfold lookupFact at h
  refine ⟨List.mem_of_find?_eq_some h, ?_⟩
  have := List.find?_some h
  simpa using this

/-- `memref.dim (memref.subview … [sizes] …), idx` is the idx-th size operand -/
theorem subview_dim_value (rank idx : Nat) (vals : List Val) (hi : idx < rank) (a : Val)
    (ha : vals[idx + 1]? = some a) :
    (OpKind.dim idx).apply I [(OpKind.subview rank).apply I vals] = .int a.toInt := by
  simp only [OpKind.apply, List.headD, Val.shape]
  congr 1
  rw [List.getD_eq_getElem?_getD, List.getElem?_map, List.getElem?_take, if_pos hi, List.getElem?_drop,
    Nat.add_comm 1 idx, ha]
  rfl

/-- what the resolved source denotes, compared with the value `x` of the matched dim -/
def DimSrc.agrees (e : Env) (x : Val) : DimSrc → Prop
  | .const c => x = .int c
  | .newDim src i => x = (OpKind.dim i).apply I [e src]
  | .existing w _ => x = e w
  | .min _ _ => True

theorem dim_apply_int (i : Nat) (vs : List Val) : ∃ n, (OpKind.dim i).apply I vs = .int n := ⟨_, rfl⟩

/-- in every environment in which the dominating definitions hold, the matched `memref.dim s, idx` has the value of
what `resolveDim` resolves it to (through any number of nested dim-of-subview steps) -/
theorem resolveDim_value (fs : List Fact) (bargs : List Var) (here : Option Var) (e : Env) (h : Holds I fs e) :
    ∀ (fuel : Nat) (s : Var) (idx : Nat) (r : DimSrc), resolveDim fs bargs here fuel s idx = some r →
      r.agrees I e ((OpKind.dim idx).apply I [e s])
  | 0, s, idx, r, hr => by simp [resolveDim] at hr
  | fuel + 1, s, idx, r, hr => by
    unfold resolveDim at hr
    split at hr
    · -- block argument
      split at hr
      · simp only [Option.some.injEq] at hr; subst hr; simp [DimSrc.agrees]
      · simp at hr
    next v rank args lp hl =>
      obtain ⟨hmem, hv⟩ := lookupFact_some hl
      have hs : e s = (OpKind.subview rank).apply I (evalArgs e args) := by
        have := h _ hmem
        simp only at this hv
        rw [← hv]; exact this
      split at hr
      next hi =>
        split at hr
        next c hc =>
          simp only [Option.some.injEq] at hr; subst hr
          simp only [DimSrc.agrees]
          rw [hs]
          have := subview_dim_value I rank idx (evalArgs e args) hi (.int c) (by
            simp [evalArgs, List.getElem?_map, hc, Arg.eval])
          simpa [Val.toInt] using this
        next w hw =>
          have hval : (OpKind.dim idx).apply I [e s] = .int (e w).toInt := by
            rw [hs]
            exact subview_dim_value I rank idx (evalArgs e args) hi (e w) (by
              simp [evalArgs, List.getElem?_map, hw, Arg.eval])
          split at hr
          · simp only [Option.some.injEq] at hr; subst hr; simp [DimSrc.agrees]
          next v2 idx2 s2 lw hl2 =>
            obtain ⟨hmem2, hv2⟩ := lookupFact_some hl2
            have hw2 : e w = (OpKind.dim idx2).apply I [e s2] := by
              have := h _ hmem2
              simp only at this hv2
              rw [← hv2]; simpa [evalArgs, Arg.eval] using this
            have hint : Val.int (e w).toInt = e w := by
              rw [hw2]; rfl
            split at hr
            · simp only [Option.some.injEq] at hr; subst hr
              simp only [DimSrc.agrees]; rw [hval, hint]
            · have ih := resolveDim_value fs bargs here e h fuel s2 idx2 r hr
              rw [hval, hint, hw2]; exact ih
          · simp at hr
        · simp at hr
      · simp at hr
    · simp at hr

theorem not_mem_argVars_map_subst (d : Var) (a : Arg) (hda : d ∉ argVars [a]) :
    ∀ (args : List Arg), d ∉ argVars (args.map (substArg d a))
  | [] => by simp [argVars]
  | b :: r => by
    have ih := not_mem_argVars_map_subst d a hda r
    cases b with
    | var v =>
      simp only [List.map, substArg]
      by_cases hv : v = d
      · simp only [hv, if_true]
        cases a with
        | var w =>
          have : d ≠ w := fun hh => hda (by simp [argVars, hh])
          simp [argVars, this, ih]
        | cst c => simpa [argVars] using ih
      · simp only [hv, if_false, argVars, List.mem_cons, not_or]
        exact ⟨fun hh => hv hh.symm, ih⟩
    | cst c => simpa [List.map, substArg, argVars] using ih

/-- after `replace_all_uses_with d a` (a ≠ d) nothing uses `d` -/
theorem not_mem_usesOf_subst (d : Var) (a : Arg) (hda : d ∉ argVars [a]) : ∀ (b : Blk), d ∉ usesOf (subst d a b)
  | .nil => by simp [subst, usesOf]
  | .pure x op args r => by
    simp only [subst, usesOf, List.mem_append, not_or]
    exact ⟨not_mem_argVars_map_subst d a hda args, not_mem_usesOf_subst d a hda r⟩
  | .eff id args r => by
    simp only [subst, usesOf, List.mem_append, not_or]
    exact ⟨not_mem_argVars_map_subst d a hda args, not_mem_usesOf_subst d a hda r⟩
  | .loop iv lb ub st body r => by
    simp only [subst, usesOf, List.mem_append, not_or]
    refine ⟨?_, not_mem_usesOf_subst d a hda body, not_mem_usesOf_subst d a hda r⟩
    exact not_mem_argVars_map_subst d a hda [lb, ub, st]


/-! ### the two local rewrites `MoveMemrefDims` is made of -/

theorem Holds_nil (e : Env) : Holds I [] e := fun f hf => by cases hf

/-- erasing `d = memref.dim s, idx` and replacing its uses by an operand that has the same value wherever the
dominating definitions hold -/
theorem replaceDimUses_local (facts : List Fact) (d : Var) (idx : Nat) (s : Var) (a : Arg)
    (hval : ∀ e, Holds I facts e → (OpKind.dim idx).apply I [e s] = a.eval e) :
    ∀ b b', replaceDimUses d idx s a b = .ok b' → ∀ e, Holds I facts e → trace I b' e = trace I b e := by
  intro b b' h e he
  unfold replaceDimUses at h
  split at h
  next d' idx' s' rest =>
    split at h
    · simp at h
    next hc =>
      simp only [Bool.or_eq_true, bne_iff_ne, ne_eq, decide_eq_true_eq, not_or, Decidable.not_not] at hc
      obtain ⟨⟨hd, hi⟩, hs⟩ := hc
      subst hd; subst hi; subst hs
      split at h
      · simp at h
      next hsc =>
        simp only [Bool.or_eq_true, List.contains_eq_mem, decide_eq_true_eq, List.any_eq_true, not_or, not_exists,
          not_and] at hsc
        obtain ⟨hdr, hav⟩ := hsc
        simp only [Except.ok.injEq] at h
        subst h
        have hda : d' ∉ argVars [a] := fun hh => (hav d' hh).1 rfl
        have hX := hval e he
        simp only [trace, evalArgs, List.map, Arg.eval]
        rw [hX]
        have h1 : trace I (subst d' a rest) e = trace I (subst d' a rest) (upd e d' (a.eval e)) := by
          apply trace_congr
          intro v hv
          have : v ≠ d' := fun hh => not_mem_usesOf_subst d' a hda rest (hh ▸ hv)
          rw [upd_other _ _ _ _ this]
        rw [h1]
        apply subst_trace I d' a rest
        · rw [upd_same, argEval_upd_of_not_mem _ _ _ _ hda]
        · exact hdr
        · exact fun v hv => (hav v hv).2
  · simp at h

/-- `d = memref.dim s, idx` becomes `d = memref.dim src, i`, which has the same value wherever the dominating definitions hold -/
theorem replaceDimRhs_local (facts : List Fact) (d : Var) (idx : Nat) (s src : Var) (i : Nat)
    (hval : ∀ e, Holds I facts e → (OpKind.dim idx).apply I [e s] = (OpKind.dim i).apply I [e src]) :
    ∀ b b', replaceDimRhs d idx s src i b = .ok b' → ∀ e, Holds I facts e → trace I b' e = trace I b e := by
  intro b b' h e he
  unfold replaceDimRhs at h
  split at h
  next d' idx' s' rest =>
    split at h
    · simp at h
    next hc =>
      simp only [Bool.or_eq_true, bne_iff_ne, ne_eq, decide_eq_true_eq, not_or, Decidable.not_not] at hc
      obtain ⟨⟨hd, hi⟩, hs⟩ := hc
      subst hd; subst hi; subst hs
      simp only [Except.ok.injEq] at h
      subst h
      simp only [trace, evalArgs, List.map, Arg.eval]
      rw [hval e he]
  · simp at h


/-! ### the closed-form trip count is the while loop -/

theorem tripCount_of_not_lt (lb ub st : Int) (hst : 0 < st) (h : ¬ lb < ub) : tripCount lb ub st = 0 := by
  unfold tripCount
  rw [if_neg (by omega)]
  have : (ub - lb + st - 1) / st < 1 := Int.ediv_lt_of_lt_mul hst (by omega)
  omega

theorem tripCount_of_lt (lb ub st : Int) (hst : 0 < st) (h : lb < ub) :
    tripCount lb ub st = tripCount (lb + st) ub st + 1 := by
  unfold tripCount
  rw [if_neg (by omega), if_neg (by omega)]
  have e1 : ub - lb + st - 1 = (ub - (lb + st) + st - 1) + 1 * st := by omega
  rw [e1, Int.add_mul_ediv_right _ _ (by omega : st ≠ 0)]
  have e2 : ub - (lb + st) + st - 1 = ub - lb - 1 := by omega
  rw [e2]
  have : 0 ≤ (ub - lb - 1) / st := Int.ediv_nonneg (by omega) (by omega)
  omega

theorem iters_of_not_lt (lb ub st : Int) (hst : 0 < st) (h : ¬ lb < ub) : iters lb ub st = [] := by
  unfold iters; rw [tripCount_of_not_lt lb ub st hst h]; rfl

theorem iters_of_lt (lb ub st : Int) (hst : 0 < st) (h : lb < ub) :
    iters lb ub st = lb :: iters (lb + st) ub st := by
  unfold iters
  rw [tripCount_of_lt lb ub st hst h, List.range_succ_eq_map, List.map_cons, List.map_map]
  congr 1
  · simp
  · apply List.map_congr_left
    intro k _
    simp only [Function.comp, Nat.succ_eq_add_one, Int.natCast_add, Int.natCast_one]
    rw [Int.mul_add, Int.mul_one]; omega

/-- for a positive step the iteration values of the closed form (`⌈(ub-lb)/st⌉` values `lb + k·st`) are exactly what the
while loop produces, for every fuel that is at least the trip count -/
theorem iters_eq_whileIters (ub st : Int) (hst : 0 < st) :
    ∀ (fuel : Nat) (lb : Int), tripCount lb ub st ≤ fuel → iters lb ub st = whileIters ub st fuel lb
  | 0, lb, h => by
    have h0 : tripCount lb ub st = 0 := by omega
    unfold iters; rw [h0]; rfl
  | fuel + 1, lb, h => by
    unfold whileIters
    by_cases hl : lb < ub
    · rw [if_pos hl, iters_of_lt lb ub st hst hl]
      congr 1
      apply iters_eq_whileIters ub st hst fuel (lb + st)
      have := tripCount_of_lt lb ub st hst hl
      omega
    · rw [if_neg hl, iters_of_not_lt lb ub st hst hl]


/-! ### `replace_all_uses_with` on the whole function = the local rewrite below the definition -/

theorem countOf_append (d : Var) (l1 l2 : List Var) : countOf d (l1 ++ l2) = countOf d l1 + countOf d l2 := by
  simp [countOf, List.filter_append]

theorem countOf_cons (d v : Var) (l : List Var) : countOf d (v :: l) = (if v = d then 1 else 0) + countOf d l := by
  unfold countOf
  by_cases h : v = d
  · simp [h, Nat.add_comm]
  · simp [h]

theorem map_substArg_id (d : Var) (a : Arg) : ∀ (args : List Arg), countOf d (argVars args) = 0 →
    args.map (substArg d a) = args
  | [], _ => rfl
  | .cst c :: r, h => by
    simp only [List.map, substArg, argVars] at h ⊢
    rw [map_substArg_id d a r h]
  | .var v :: r, h => by
    simp only [argVars, countOf_cons] at h
    have hv : v ≠ d := fun hh => by simp [hh] at h
    simp only [List.map, substArg, hv, if_false]
    rw [map_substArg_id d a r (by simp [hv] at h; exact h)]

theorem substArg_id3 (d : Var) (a : Arg) (lb ub st : Arg) (h : countOf d (argVars [lb, ub, st]) = 0) :
    substArg d a lb = lb ∧ substArg d a ub = ub ∧ substArg d a st = st := by
  have := map_substArg_id d a [lb, ub, st] h
  simp only [List.map, List.cons.injEq, and_true] at this
  exact this

theorem subst_id (d : Var) (a : Arg) : ∀ (b : Blk), countOf d (usesOf b) = 0 → subst d a b = b
  | .nil, _ => rfl
  | .pure x op args r, h => by
    simp only [usesOf, countOf_append] at h
    simp only [subst]
    rw [map_substArg_id d a args (by omega), subst_id d a r (by omega)]
  | .eff id args r, h => by
    simp only [usesOf, countOf_append] at h
    simp only [subst]
    rw [map_substArg_id d a args (by omega), subst_id d a r (by omega)]
  | .loop iv lb ub st body r, h => by
    simp only [usesOf, countOf_append] at h
    obtain ⟨h1, h2, h3⟩ := substArg_id3 d a lb ub st (by omega)
    simp only [subst]
    rw [h1, h2, h3, subst_id d a body (by omega), subst_id d a r (by omega)]

/-- the uses below a position are among the uses of the whole block -/
theorem countOf_getAt_le (d : Var) : ∀ (b : Blk) (p : List Nat) (x : Var) (op : OpKind) (args : List Arg) (rest : Blk),
    getAt b p = some (.pure x op args rest) → countOf d (usesOf rest) ≤ countOf d (usesOf b)
  | b, [], x, op, args, rest, h => by cases b <;> simp [getAt] at h
  | .nil, [0], x, op, args, rest, h => by simp [getAt] at h
  | .pure y op' args' r, [0], x, op, args, rest, h => by
    simp only [getAt, Option.some.injEq, Blk.pure.injEq] at h
    obtain ⟨_, _, _, rfl⟩ := h
    simp only [usesOf, countOf_append]; omega
  | .eff id args' r, [0], x, op, args, rest, h => by simp [getAt] at h
  | .loop iv lb ub st body r, [0], x, op, args, rest, h => by simp [getAt] at h
  | .nil, 0 :: q :: p, x, op, args, rest, h => by simp [getAt] at h
  | .pure y op' args' r, 0 :: q :: p, x, op, args, rest, h => by simp [getAt] at h
  | .eff id args' r, 0 :: q :: p, x, op, args, rest, h => by simp [getAt] at h
  | .loop iv lb ub st body r, 0 :: q :: p, x, op, args, rest, h => by
    simp only [getAt] at h
    have := countOf_getAt_le d body (q :: p) x op args rest h
    simp only [usesOf, countOf_append]; omega
  | .nil, (n + 1) :: p, x, op, args, rest, h => by simp [getAt] at h
  | .pure y op' args' r, (n + 1) :: p, x, op, args, rest, h => by
    simp only [getAt] at h
    have := countOf_getAt_le d r (n :: p) x op args rest h
    simp only [usesOf, countOf_append]; omega
  | .eff id args' r, (n + 1) :: p, x, op, args, rest, h => by
    simp only [getAt] at h
    have := countOf_getAt_le d r (n :: p) x op args rest h
    simp only [usesOf, countOf_append]; omega
  | .loop iv lb ub st body r, (n + 1) :: p, x, op, args, rest, h => by
    simp only [getAt] at h
    have := countOf_getAt_le d r (n :: p) x op args rest h
    simp only [usesOf, countOf_append]; omega

/-- what the pattern really does — `replace_all_uses_with` over the WHOLE function, then erase the dim — is the model's
local rewrite (uses below the dim only), whenever the dim has no use outside its scope (the side condition `moveDim`
checks; always true of SSA programs) -/
theorem replaceAllUses_global_eq_local (d : Var) (idx : Nat) (s : Var) (a : Arg) :
    ∀ (b : Blk) (p : List Nat) (q rest : Blk),
      getAt b p = some (.pure d (.dim idx) [.var s] rest) →
      countOf d (usesOf b) = countOf d (usesOf rest) →
      applyAt (replaceDimUses d idx s a) b p = .ok q →
      applyAt removeStmt (subst d a b) p = .ok q
  | b, [], q, rest, hg, _, h => by cases b <;> simp [applyAt] at h
  | .nil, [0], q, rest, hg, _, h => by simp [getAt] at hg
  | .pure y op' args' r, [0], q, rest, hg, _, h => by
    simp only [getAt, Option.some.injEq, Blk.pure.injEq] at hg
    obtain ⟨rfl, rfl, rfl, rfl⟩ := hg
    simp only [applyAt, replaceDimUses] at h
    split at h
    · simp at h
    split at h
    · simp at h
    simp only [Except.ok.injEq] at h
    subst h
    simp [subst, applyAt, removeStmt]
  | .eff id args' r, [0], q, rest, hg, _, h => by simp [getAt] at hg
  | .loop iv lb ub st body r, [0], q, rest, hg, _, h => by simp [getAt] at hg
  | .nil, 0 :: q' :: p, q, rest, hg, _, h => by simp [getAt] at hg
  | .pure y op' args' r, 0 :: q' :: p, q, rest, hg, _, h => by simp [getAt] at hg
  | .eff id args' r, 0 :: q' :: p, q, rest, hg, _, h => by simp [getAt] at hg
  | .loop iv lb ub st body r, 0 :: q' :: p, q, rest, hg, hc, h => by
    simp only [getAt] at hg
    have hle := countOf_getAt_le d body (q' :: p) d (.dim idx) [.var s] rest hg
    simp only [usesOf, countOf_append] at hc
    obtain ⟨h1, h2, h3⟩ := substArg_id3 d a lb ub st (by omega)
    simp only [applyAt] at h
    cases hb : applyAt (replaceDimUses d idx s a) body (q' :: p) with
    | error x => simp [hb, Except.map] at h
    | ok body' =>
      simp only [hb, Except.map, Except.ok.injEq] at h
      subst h
      simp only [subst, h1, h2, h3, subst_id d a r (by omega), applyAt,
        replaceAllUses_global_eq_local d idx s a body (q' :: p) body' rest hg (by omega) hb, Except.map]
  | .nil, (n + 1) :: p, q, rest, hg, _, h => by simp [getAt] at hg
  | .pure y op' args' r, (n + 1) :: p, q, rest, hg, hc, h => by
    simp only [getAt] at hg
    have hle := countOf_getAt_le d r (n :: p) d (.dim idx) [.var s] rest hg
    simp only [usesOf, countOf_append] at hc
    simp only [applyAt] at h
    cases hb : applyAt (replaceDimUses d idx s a) r (n :: p) with
    | error x => simp [hb, Except.map] at h
    | ok r' =>
      simp only [hb, Except.map, Except.ok.injEq] at h
      subst h
      simp only [subst, map_substArg_id d a args' (by omega), applyAt,
        replaceAllUses_global_eq_local d idx s a r (n :: p) r' rest hg (by omega) hb, Except.map]
  | .eff id args' r, (n + 1) :: p, q, rest, hg, hc, h => by
    simp only [getAt] at hg
    have hle := countOf_getAt_le d r (n :: p) d (.dim idx) [.var s] rest hg
    simp only [usesOf, countOf_append] at hc
    simp only [applyAt] at h
    cases hb : applyAt (replaceDimUses d idx s a) r (n :: p) with
    | error x => simp [hb, Except.map] at h
    | ok r' =>
      simp only [hb, Except.map, Except.ok.injEq] at h
      subst h
      simp only [subst, map_substArg_id d a args' (by omega), applyAt,
        replaceAllUses_global_eq_local d idx s a r (n :: p) r' rest hg (by omega) hb, Except.map]
  | .loop iv lb ub st body r, (n + 1) :: p, q, rest, hg, hc, h => by
    simp only [getAt] at hg
    have hle := countOf_getAt_le d r (n :: p) d (.dim idx) [.var s] rest hg
    simp only [usesOf, countOf_append] at hc
    obtain ⟨h1, h2, h3⟩ := substArg_id3 d a lb ub st (by omega)
    simp only [applyAt] at h
    cases hb : applyAt (replaceDimUses d idx s a) r (n :: p) with
    | error x => simp [hb, Except.map] at h
    | ok r' =>
      simp only [hb, Except.map, Except.ok.injEq] at h
      subst h
      simp only [subst, h1, h2, h3, subst_id d a body (by omega), applyAt,
        replaceAllUses_global_eq_local d idx s a r (n :: p) r' rest hg (by omega) hb, Except.map]

end SnaxVerif.Loops
