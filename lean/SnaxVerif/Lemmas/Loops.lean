import SnaxVerif.Model.Loops
/-! Helper lemmas for C17. Core Lean only. -/
namespace SnaxVerif.Loops

variable (I : Nat → List Val → Val)

theorem upd_same (e : Env) (v : Var) (x : Val) : upd e v x v = x := by simp [upd]

theorem upd_other (e : Env) (v w : Var) (x : Val) (h : w ≠ v) : upd e v x w = e w := by simp [upd, h]

theorem upd_comm (e : Env) (v w : Var) (x y : Val) (h : v ≠ w) :
    upd (upd e v x) w y = upd (upd e w y) v x := by
  funext u
  simp only [upd]
  by_cases h1 : u = w
  · by_cases h2 : u = v
    · exact absurd (h2.symm.trans h1) h
    · subst h1; simp [Ne.symm h]
  · by_cases h2 : u = v
    · subst h2; simp [h]
    · simp [h1, h2]

theorem flatMap_congr' {α β} {l : List α} {f g : α → List β} (h : ∀ x ∈ l, f x = g x) :
    l.flatMap f = l.flatMap g := by
  induction l with
  | nil => rfl
  | cons a r ih =>
    simp only [List.flatMap_cons]
    rw [h a (by simp), ih (fun x hx => h x (by simp [hx]))]

theorem mem_argVars {v : Var} {args : List Arg} : v ∈ argVars args ↔ Arg.var v ∈ args := by
  induction args with
  | nil => simp [argVars]
  | cons a r ih =>
    cases a with
    | var w => simp [argVars, ih]
    | cst c => simp [argVars, ih]

theorem evalArgs_congr {e e' : Env} {args : List Arg} (h : ∀ v ∈ argVars args, e v = e' v) :
    evalArgs e args = evalArgs e' args := by
  unfold evalArgs
  apply List.map_congr_left
  intro a ha
  cases a with
  | var v => exact h v (mem_argVars.mpr ha)
  | cst c => rfl

theorem argEval_congr {e e' : Env} {a : Arg} (h : ∀ v ∈ argVars [a], e v = e' v) : a.eval e = a.eval e' := by
  cases a with
  | var v => exact h v (by simp [argVars])
  | cst c => rfl

/-- coincidence: the trace depends only on the variables that occur as operands -/
theorem trace_congr : ∀ (b : Blk) (e e' : Env), (∀ v ∈ usesOf b, e v = e' v) → trace I b e = trace I b e'
  | .nil, _, _, _ => rfl
  | .pure d op args r, e, e', h => by
    simp only [trace]
    have ha : evalArgs e args = evalArgs e' args :=
      evalArgs_congr (fun v hv => h v (by simp [usesOf, hv]))
    rw [ha]
    apply trace_congr r
    intro v hv
    by_cases hvd : v = d
    · subst hvd; simp [upd]
    · simp only [upd, hvd, if_false]; exact h v (by simp [usesOf, hv])
  | .eff id args r, e, e', h => by
    simp only [trace]
    have ha : evalArgs e args = evalArgs e' args :=
      evalArgs_congr (fun v hv => h v (by simp [usesOf, hv]))
    rw [ha, trace_congr r e e' (fun v hv => h v (by simp [usesOf, hv]))]
  | .loop iv lb ub st body r, e, e', h => by
    simp only [trace]
    have hlb : lb.eval e = lb.eval e' := argEval_congr (fun v hv => h v (by
      simp only [usesOf, List.mem_append]; left
      cases lb <;> simp_all [argVars]))
    have hub : ub.eval e = ub.eval e' := argEval_congr (fun v hv => h v (by
      simp only [usesOf, List.mem_append]; left
      cases ub <;> cases lb <;> simp_all [argVars]))
    have hst : st.eval e = st.eval e' := argEval_congr (fun v hv => h v (by
      simp only [usesOf, List.mem_append]; left
      cases st <;> cases ub <;> cases lb <;> simp_all [argVars]))
    rw [hlb, hub, hst, trace_congr r e e' (fun v hv => h v (by simp [usesOf, hv]))]
    congr 1
    apply flatMap_congr'
    intro i _
    apply trace_congr body
    intro v hv
    by_cases hvd : v = iv
    · subst hvd; simp [upd]
    · simp only [upd, hvd, if_false]; exact h v (by simp [usesOf, hv])


theorem splitAt_append : ∀ (j : Nat) (b p s : Blk), splitAt j b = some (p, s) → b = append p s
  | 0, b, p, s, h => by
    simp only [splitAt, Option.some.injEq, Prod.mk.injEq] at h
    obtain ⟨rfl, rfl⟩ := h; rfl
  | n + 1, .nil, p, s, h => by simp [splitAt] at h
  | n + 1, .pure d op args r, p, s, h => by
    simp only [splitAt, Option.map_eq_some_iff] at h
    obtain ⟨⟨p', s'⟩, h1, h2⟩ := h
    simp only [Prod.mk.injEq] at h2
    obtain ⟨rfl, rfl⟩ := h2
    simp only [append]; rw [← splitAt_append n r p' s' h1]
  | n + 1, .eff id args r, p, s, h => by
    simp only [splitAt, Option.map_eq_some_iff] at h
    obtain ⟨⟨p', s'⟩, h1, h2⟩ := h
    simp only [Prod.mk.injEq] at h2
    obtain ⟨rfl, rfl⟩ := h2
    simp only [append]; rw [← splitAt_append n r p' s' h1]
  | n + 1, .loop iv lb ub st body r, p, s, h => by
    simp only [splitAt, Option.map_eq_some_iff] at h
    obtain ⟨⟨p', s'⟩, h1, h2⟩ := h
    simp only [Prod.mk.injEq] at h2
    obtain ⟨rfl, rfl⟩ := h2
    simp only [append]; rw [← splitAt_append n r p' s' h1]

/-- a block of value computations emits nothing, whatever it is appended to -/
theorem trace_append_pureOnly_right : ∀ (a c : Blk) (e : Env), pureOnly c = true → trace I (append a c) e = trace I a e
  | .nil, c, e, h => by
    simp only [append, trace]
    induction c generalizing e with
    | nil => rfl
    | pure d op args r ih => simp only [trace]; exact ih _ (by simpa [pureOnly] using h)
    | eff id args r _ => simp [pureOnly] at h
    | loop iv lb ub st body r _ _ => simp [pureOnly] at h
  | .pure d op args r, c, e, h => by simp only [append, trace]; exact trace_append_pureOnly_right r c _ h
  | .eff id args r, c, e, h => by simp only [append, trace]; rw [trace_append_pureOnly_right r c _ h]
  | .loop iv lb ub st body r, c, e, h => by simp only [append, trace]; rw [trace_append_pureOnly_right r c _ h]

theorem trace_append_pure_left : ∀ (p s : Blk) (e : Env), pureOnly p = true →
    trace I (append p s) e = trace I s (runPure I p e)
  | .nil, s, e, _ => by simp [append, runPure]
  | .pure d op args r, s, e, h => by
    simp only [append, trace, runPure]
    exact trace_append_pure_left r s _ (by simpa [pureOnly] using h)
  | .eff id args r, s, e, h => by simp [pureOnly] at h
  | .loop iv lb ub st body r, s, e, h => by simp [pureOnly] at h

/-- `runPure` only touches the names the block defines -/
theorem runPure_other : ∀ (p : Blk) (e : Env) (x : Var), x ∉ defsTop p → runPure I p e x = e x
  | .nil, e, x, _ => rfl
  | .pure d op args r, e, x, h => by
    simp only [runPure]
    have hx : x ≠ d := fun hh => h (by simp [defsTop, hh])
    rw [runPure_other r _ x (fun hh => h (by simp [defsTop, hh])), upd_other _ _ _ _ hx]
  | .eff id args r, e, x, _ => rfl
  | .loop iv lb ub st body r, e, x, _ => rfl

/-- two environments that agree except at `x` still do after a block that never mentions `x` -/
theorem runPure_agree : ∀ (p : Blk) (e e' : Env) (x : Var), x ∉ usesOf p →
    (∀ v, v ≠ x → e v = e' v) → ∀ v, v ≠ x → runPure I p e v = runPure I p e' v
  | .nil, e, e', x, _, h => h
  | .pure d op args r, e, e', x, hx, h => by
    simp only [runPure]
    apply runPure_agree r _ _ x (fun hh => hx (by simp [usesOf, hh]))
    intro v hv
    have ha : evalArgs e args = evalArgs e' args :=
      evalArgs_congr (fun w hw => h w (fun hh => hx (by simp [usesOf, ← hh, hw])))
    rw [ha]
    by_cases hvd : v = d
    · subst hvd; simp [upd]
    · simp only [upd, hvd, if_false]; exact h v hv
  | .eff id args r, e, e', x, _, h => h
  | .loop iv lb ub st body r, e, e', x, _, h => h

theorem trace_deadBody : ∀ (b : Blk) (e : Env), deadBody b = true → trace I b e = []
  | .nil, _, _ => rfl
  | .pure d op args r, e, h => by
    simp only [trace]
    exact trace_deadBody r _ (by simp only [deadBody, Bool.and_eq_true] at h; exact h.2)
  | .eff id args r, e, h => by simp [deadBody] at h
  | .loop iv lb ub st body r, e, h => by
    simp only [deadBody, Bool.and_eq_true] at h
    simp only [trace, trace_deadBody r e h.2, List.append_nil]
    induction (iters (lb.eval e).toInt (ub.eval e).toInt (st.eval e).toInt) with
    | nil => rfl
    | cons a l ih => rw [List.flatMap_cons, ih, trace_deadBody body _ h.1]; rfl

/-- a rewrite of a block suffix that preserves the trace for every environment preserves the trace of the
whole program, wherever the suffix sits (any nesting depth, any trip counts around it) -/
theorem applyAt_trace (f : Blk → Except Err Blk)
    (hf : ∀ b b', f b = .ok b' → ∀ e, trace I b' e = trace I b e) :
    ∀ (b : Blk) (p : List Nat) (b' : Blk), applyAt f b p = .ok b' → ∀ e, trace I b' e = trace I b e
  | b, [], b', h => by cases b <;> simp [applyAt] at h
  | .nil, [0], b', h => by simp only [applyAt] at h; exact hf _ _ h
  | .pure d op args r, [0], b', h => by simp only [applyAt] at h; exact hf _ _ h
  | .eff id args r, [0], b', h => by simp only [applyAt] at h; exact hf _ _ h
  | .loop iv lb ub st body r, [0], b', h => by simp only [applyAt] at h; exact hf _ _ h
  | .nil, 0 :: q :: p, b', h => by simp [applyAt] at h
  | .pure d op args r, 0 :: q :: p, b', h => by simp [applyAt] at h
  | .eff id args r, 0 :: q :: p, b', h => by simp [applyAt] at h
  | .loop iv lb ub st body r, 0 :: q :: p, b', h => by
    simp only [applyAt] at h
    cases hb : applyAt f body (q :: p) with
    | error x => simp [hb, Except.map] at h
    | ok body' =>
      simp only [hb, Except.map, Except.ok.injEq] at h
      subst h
      intro e
      simp only [trace]
      congr 1
      apply flatMap_congr'
      intro i _
      exact applyAt_trace f hf body (q :: p) body' hb _
  | .nil, (n + 1) :: p, b', h => by simp [applyAt] at h
  | .pure d op args r, (n + 1) :: p, b', h => by
    simp only [applyAt] at h
    cases hb : applyAt f r (n :: p) with
    | error x => simp [hb, Except.map] at h
    | ok r' =>
      simp only [hb, Except.map, Except.ok.injEq] at h
      subst h
      intro e
      simp only [trace]
      exact applyAt_trace f hf r (n :: p) r' hb _
  | .eff id args r, (n + 1) :: p, b', h => by
    simp only [applyAt] at h
    cases hb : applyAt f r (n :: p) with
    | error x => simp [hb, Except.map] at h
    | ok r' =>
      simp only [hb, Except.map, Except.ok.injEq] at h
      subst h
      intro e
      simp only [trace]
      rw [applyAt_trace f hf r (n :: p) r' hb e]
  | .loop iv lb ub st body r, (n + 1) :: p, b', h => by
    simp only [applyAt] at h
    cases hb : applyAt f r (n :: p) with
    | error x => simp [hb, Except.map] at h
    | ok r' =>
      simp only [hb, Except.map, Except.ok.injEq] at h
      subst h
      intro e
      simp only [trace]
      rw [applyAt_trace f hf r (n :: p) r' hb e]


theorem evalArgs_upd_of_not_mem (e : Env) (d : Var) (x : Val) (args : List Arg) (h : d ∉ argVars args) :
    evalArgs (upd e d x) args = evalArgs e args :=
  evalArgs_congr (fun v hv => upd_other e d v x (fun hh => h (hh ▸ hv)))

theorem argEval_upd_of_not_mem (e : Env) (d : Var) (x : Val) (a : Arg) (h : d ∉ argVars [a]) :
    a.eval (upd e d x) = a.eval e :=
  argEval_congr (fun v hv => upd_other e d v x (fun hh => h (hh ▸ hv)))

theorem not_mem_argVars3 {d : Var} {lb ub st : Arg} (h : d ∉ argVars [lb, ub, st]) :
    d ∉ argVars [lb] ∧ d ∉ argVars [ub] ∧ d ∉ argVars [st] := by
  cases lb <;> cases ub <;> cases st <;> simp_all [argVars]

/-- moving a value computation over a block prefix that neither mentions its result nor defines its operands -/
theorem hoist_lemma (d : Var) (op : OpKind) (args : List Arg) (suf : Blk) :
    ∀ (pre : Blk) (e : Env), d ∉ allVars pre → (∀ v ∈ argVars args, v ∉ defsTop pre) →
      trace I (append pre (.pure d op args suf)) e
        = trace I (append pre suf) (upd e d (op.apply I (evalArgs e args)))
  | .nil, e, _, _ => by simp [append, trace]
  | .pure d' op' args' r, e, hd, ha => by
    simp only [allVars, defsAll, usesOf, List.mem_append, List.mem_cons, not_or] at hd
    obtain ⟨⟨hdd, hdr⟩, hda, hur⟩ := hd
    simp only [append, trace]
    rw [hoist_lemma d op args suf r _ (by simp [allVars, hdr, hur])
        (fun v hv hh => ha v hv (by simp [defsTop, hh]))]
    have h1 : d' ∉ argVars args := fun hh => ha d' hh (by simp [defsTop])
    rw [evalArgs_upd_of_not_mem _ _ _ _ h1, evalArgs_upd_of_not_mem _ _ _ _ hda,
      upd_comm _ _ _ _ _ (Ne.symm hdd)]
  | .eff id args' r, e, hd, ha => by
    simp only [allVars, defsAll, usesOf, List.mem_append, not_or] at hd
    obtain ⟨hdr, hda, hur⟩ := hd
    simp only [append, trace]
    rw [hoist_lemma d op args suf r e (by simp [allVars, hdr, hur])
        (fun v hv hh => ha v hv (by simpa [defsTop] using hh)),
      evalArgs_upd_of_not_mem _ _ _ _ hda]
  | .loop iv lb ub st body r, e, hd, ha => by
    simp only [allVars, defsAll, usesOf, List.mem_append, List.mem_cons, not_or] at hd
    obtain ⟨⟨hdiv, hdb, hdr⟩, hdbd, hub, hur⟩ := hd
    obtain ⟨h1, h2, h3⟩ := not_mem_argVars3 hdbd
    simp only [append, trace]
    rw [hoist_lemma d op args suf r e (by simp [allVars, hdr, hur])
        (fun v hv hh => ha v hv (by simpa [defsTop] using hh)),
      argEval_upd_of_not_mem _ _ _ _ h1, argEval_upd_of_not_mem _ _ _ _ h2, argEval_upd_of_not_mem _ _ _ _ h3]
    congr 1
    apply flatMap_congr'
    intro i _
    apply trace_congr
    intro v hv
    have hvd : v ≠ d := fun hh => hub (hh ▸ hv)
    by_cases hvi : v = iv
    · subst hvi; simp [upd]
    · simp [upd, hvi, hvd]


theorem mem_usesOf_append (v : Var) : ∀ (a c : Blk), v ∈ usesOf (append a c) ↔ v ∈ usesOf a ∨ v ∈ usesOf c
  | .nil, c => by simp [append, usesOf]
  | .pure d op args r, c => by simp [append, usesOf, mem_usesOf_append v r c, or_assoc]
  | .eff id args r, c => by simp [append, usesOf, mem_usesOf_append v r c, or_assoc]
  | .loop iv lb ub st body r, c => by
    simp only [append, usesOf, List.mem_append, mem_usesOf_append v r c]
    constructor
    · rintro (h | h | h | h) <;> simp [h]
    · rintro ((h | h | h) | h) <;> simp [h]

theorem mem_defsAll_append (v : Var) : ∀ (a c : Blk), v ∈ defsAll (append a c) ↔ v ∈ defsAll a ∨ v ∈ defsAll c
  | .nil, c => by simp [append, defsAll]
  | .pure d op args r, c => by simp [append, defsAll, mem_defsAll_append v r c, or_assoc]
  | .eff id args r, c => by simp [append, defsAll, mem_defsAll_append v r c]
  | .loop iv lb ub st body r, c => by
    simp only [append, defsAll, List.mem_append, List.mem_cons, mem_defsAll_append v r c]
    constructor
    · rintro (h | h | h | h) <;> simp [h]
    · rintro ((h | h | h) | h) <;> simp [h]

theorem defsTop_sub_defsAll (v : Var) : ∀ (b : Blk), v ∈ defsTop b → v ∈ defsAll b
  | .nil, h => h
  | .pure d op args r, h => by
    simp only [defsTop, List.mem_cons] at h
    rcases h with h | h
    · simp [defsAll, h]
    · simp [defsAll, defsTop_sub_defsAll v r h]
  | .eff id args r, h => by simpa [defsAll] using defsTop_sub_defsAll v r (by simpa [defsTop] using h)
  | .loop iv lb ub st body r, h => by
    simp only [defsAll, List.mem_cons, List.mem_append]
    exact Or.inr (Or.inr (defsTop_sub_defsAll v r (by simpa [defsTop] using h)))

theorem trace_pureOnly (b : Blk) (e : Env) (h : pureOnly b = true) : trace I b e = [] := by
  have := trace_append_pureOnly_right I .nil b e h
  simpa [append, trace] using this

/-! ### trip-count arithmetic -/

theorem iters_zero_one (x : Nat) : iters 0 (x : Int) 1 = (List.range x).map (fun (k : Nat) => (k : Int)) := by
  have h : tripCount 0 (x : Int) 1 = x := by
    unfold tripCount
    simp
  unfold iters
  rw [h]
  apply List.map_congr_left
  intro k _
  simp

theorem iters_nonpos_one (x : Int) (h : x ≤ 0) : iters 0 x 1 = [] := by
  have h : tripCount 0 x 1 = 0 := by
    unfold tripCount
    simp
    omega
  unfold iters
  rw [h]; rfl

/-- `-(-ub // st)` is the number of iterations of `for i = 0 to ub step st` -/
theorem ceil_neg_fdiv (ub st : Int) (h : 0 < st) : -(pyFloorDiv (-ub) st) = (ub - 0 + st - 1) / st := by
  unfold pyFloorDiv
  rw [Int.fdiv_eq_ediv_of_nonneg _ (Int.le_of_lt h)]
  have h1 := Int.emod_add_mul_ediv (ub - 0 + st - 1) st
  have h2 := Int.emod_nonneg (ub - 0 + st - 1) (Int.ne_of_gt h)
  have h3 := Int.emod_lt_of_pos (ub - 0 + st - 1) h
  generalize (ub - 0 + st - 1) / st = q at *
  generalize (ub - 0 + st - 1) % st = r at *
  have key : (-ub) / st = -q ∧ (-ub) % st = st - 1 - r := by
    rw [Int.ediv_emod_unique h]
    refine ⟨?_, by omega, by omega⟩
    rw [Int.mul_neg]; omega
  rw [key.1]; omega

theorem changeStep_iters (ub st : Int) (h : 0 < st) :
    iters 0 ub st = (iters 0 (-(pyFloorDiv (-ub) st)) 1).map (fun j => st * j) := by
  rw [ceil_neg_fdiv ub st h]
  generalize hq : (ub - 0 + st - 1) / st = q
  have htc : tripCount 0 ub st = q.toNat := by
    unfold tripCount
    rw [if_neg (by omega), hq]
  unfold iters
  rw [htc]
  by_cases hq0 : 0 ≤ q
  · obtain ⟨n, rfl⟩ := Int.eq_ofNat_of_zero_le hq0
    have h1 := iters_zero_one n
    unfold iters at h1
    rw [h1, List.map_map]
    simp
  · have h1 := iters_nonpos_one q (by omega)
    unfold iters at h1
    rw [h1]
    have : q.toNat = 0 := by omega
    rw [this]; rfl

theorem range_mul_flatMap (q t : Nat) :
    (List.range q).flatMap (fun i => (List.range t).map (fun j => t * i + j)) = List.range (q * t) := by
  induction q with
  | zero => simp
  | succ n ih =>
    rw [List.range_succ, List.flatMap_append, ih]
    simp only [List.flatMap_cons, List.flatMap_nil, List.append_nil]
    rw [Nat.succ_mul, List.range_add]
    congr 1
    apply List.map_congr_left
    intro a _
    rw [Nat.mul_comm]

/-- `for k < n*m { body (k / m) (k % m) }` emits the same events as the nest (Nat version, from the prototype) -/
theorem merge_flat_nat {ε} (n m : Nat) (body : Nat → Nat → List ε) :
    (List.range (n * m)).flatMap (fun k => body (k / m) (k % m))
      = (List.range n).flatMap (fun i => (List.range m).flatMap (body i)) := by
  rw [← range_mul_flatMap n m, List.flatMap_assoc]
  apply flatMap_congr'
  intro i _
  rw [List.flatMap_map]
  apply flatMap_congr'
  intro j hj
  have hj' : j < m := List.mem_range.mp hj
  have hm : 0 < m := by omega
  rw [Nat.mul_add_div hm, Nat.div_eq_of_lt hj', Nat.add_zero, Nat.mul_add_mod, Nat.mod_eq_of_lt hj']

theorem merge_flat {ε} (m n : Int) (hm : 0 ≤ m) (hn : 0 ≤ n) (body : Int → Int → List ε) :
    (iters 0 (m * n) 1).flatMap (fun k => body (k / m) (k % m))
      = (iters 0 n 1).flatMap (fun i => (iters 0 m 1).flatMap (fun j => body i j)) := by
  obtain ⟨m', rfl⟩ := Int.eq_ofNat_of_zero_le hm
  obtain ⟨n', rfl⟩ := Int.eq_ofNat_of_zero_le hn
  have hmn : ((m' : Int) * (n' : Int)) = ((n' * m' : Nat) : Int) := by
    rw [Int.natCast_mul, Int.mul_comm]
  rw [hmn, iters_zero_one, iters_zero_one, iters_zero_one, List.flatMap_map, List.flatMap_map]
  have := merge_flat_nat n' m' (fun i j => body (i : Int) (j : Int))
  simp only [List.flatMap_map]
  rw [← this]
  apply flatMap_congr'
  intro k _
  rw [Int.natCast_ediv, Int.natCast_emod]


/-! ### replacing all uses of a value by an equal operand -/

theorem substArg_eval (x : Var) (a : Arg) (e : Env) (h : e x = a.eval e) (b : Arg) :
    (substArg x a b).eval e = b.eval e := by
  cases b with
  | var v =>
    simp only [substArg]
    by_cases hv : v = x
    · subst hv; simp [Arg.eval, h]
    · simp [hv]
  | cst c => rfl

theorem evalArgs_subst (x : Var) (a : Arg) (e : Env) (h : e x = a.eval e) (args : List Arg) :
    evalArgs e (args.map (substArg x a)) = evalArgs e args := by
  unfold evalArgs
  rw [List.map_map]
  apply List.map_congr_left
  intro b _
  exact substArg_eval x a e h b

theorem subst_inv (x : Var) (a : Arg) (e : Env) (h : e x = a.eval e) (d : Var) (v : Val)
    (hx : x ≠ d) (ha : d ∉ argVars [a]) : upd e d v x = a.eval (upd e d v) := by
  rw [upd_other _ _ _ _ hx, argEval_upd_of_not_mem _ _ _ _ ha, h]

/-- `replace_all_uses_with x a` preserves the trace wherever `x` holds the value of `a`
(neither is redefined below: SSA) -/
theorem subst_trace (x : Var) (a : Arg) : ∀ (b : Blk) (e : Env), e x = a.eval e → x ∉ defsAll b →
    (∀ v ∈ argVars [a], v ∉ defsAll b) → trace I (subst x a b) e = trace I b e
  | .nil, _, _, _, _ => rfl
  | .pure d op args r, e, h, hx, ha => by
    simp only [subst, trace, evalArgs_subst x a e h]
    apply subst_trace x a r
    · exact subst_inv x a e h d _ (fun hh => hx (by simp [defsAll, hh])) (fun hh => ha d hh (by simp [defsAll]))
    · exact fun hh => hx (by simp [defsAll, hh])
    · exact fun v hv hh => ha v hv (by simp [defsAll, hh])
  | .eff id args r, e, h, hx, ha => by
    simp only [subst, trace, evalArgs_subst x a e h]
    rw [subst_trace x a r e h (fun hh => hx (by simpa [defsAll] using hh))
      (fun v hv hh => ha v hv (by simpa [defsAll] using hh))]
  | .loop iv lb ub st body r, e, h, hx, ha => by
    simp only [subst, trace, substArg_eval x a e h]
    rw [subst_trace x a r e h (fun hh => hx (by simp [defsAll, hh]))
      (fun v hv hh => ha v hv (by simp [defsAll, hh]))]
    congr 1
    apply flatMap_congr'
    intro i _
    apply subst_trace x a body
    · exact subst_inv x a e h iv _ (fun hh => hx (by simp [defsAll, hh])) (fun hh => ha iv hh (by simp [defsAll]))
    · exact fun hh => hx (by simp [defsAll, hh])
    · exact fun v hv hh => ha v hv (by simp [defsAll, hh])

end SnaxVerif.Loops
