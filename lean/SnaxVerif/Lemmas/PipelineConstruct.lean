import SnaxVerif.Lemmas.PipelineDuplicate
/-! C15: facts about `construct` / `run` (model of ConstructPipeline with F16 and FC15b, and of the three passes). -/
namespace SnaxVerif.Pipeline

/-- FC15b: nothing is left in the loop body behind the pipeline -/
theorem collect_no_trailing : ∀ (l : List Tok) (stages : List (List SOp)) (cur : List SOp) (b : Bool)
    {st : List (List SOp)} {tr : List Tok}, collect l stages cur b = some (st, tr) → tr = []
  | [], stages, cur, b, st, tr, h => by
    simp only [collect] at h
    split at h
    · simp only [Option.some.injEq, Prod.mk.injEq] at h
      exact h.2.symm
    · simp at h
  | .op o :: rest, stages, cur, b, st, tr, h => by
    simp only [collect] at h
    exact collect_no_trailing rest _ _ _ h
  | .sync :: rest, stages, cur, true, st, tr, h => by
    simp only [collect] at h
    exact collect_no_trailing rest _ _ _ h
  | .sync :: rest, stages, cur, false, st, tr, h => by simp [collect] at h
  | .idx :: rest, stages, cur, b, st, tr, h => by simp [collect] at h

theorem construct_no_trailing {l : Loop} {p : Pipe} (h : construct l = .ok (some p)) : p.trailing = [] := by
  unfold construct at h
  split at h
  · split at h
    · simp at h
    · split at h
      · simp at h
      · simp at h
      · split at h
        · simp at h
        · next stages trailing hc =>
          split at h
          · simp at h
          · split at h
            · simp at h
            · simp only [Except.ok.injEq, Option.some.injEq] at h
              subst h
              exact collect_no_trailing _ _ _ _ hc
  · simp at h

/-- what a successful run of the three passes consists of -/
theorem run_pipelined {l : Loop} {st : List (List SOp)} {tr : List Tok} {u : Unrolled}
    (h : run l = .ok (.pipelined st tr u)) :
    ∃ p, construct l = .ok (some p) ∧ duplicate p.stages = .ok st ∧ tr = p.trailing ∧ u = unroll st.length := by
  unfold run at h
  split at h
  · simp at h
  · simp at h
  · next p hc =>
    split at h
    · simp at h
    · next st' hd =>
      simp only [Except.ok.injEq, Outcome.pipelined.injEq] at h
      obtain ⟨rfl, rfl, rfl⟩ := h
      exact ⟨p, hc, hd, rfl, rfl⟩

theorem duplicate_length {P st : List (List SOp)} (h : duplicate P = .ok st) : st.length = P.length := by
  rw [(duplicate_ok h).1]
  simp [mapP]

end SnaxVerif.Pipeline
