import SnaxVerif.Lemmas.Post
namespace SnaxVerif.Sched
open List

/-- invariant of the generator at a call of level `k`: all levels below `k` already satisfy the post-condition -/
def PostInv (mtch : Template → Schedule → Except Err Bool) (checks : List (Template → Schedule → Bool))
    (tmpl : Template) (k : Nat) (s : Schedule) : Prop :=
  WF s ∧ ∀ j, 1 ≤ j → j < k → j ≤ s.n → PostAt mtch checks tmpl j (innerRaw j s)

theorem postInv_step {mtch : Template → Schedule → Except Err Bool} {checks : List (Template → Schedule → Bool)}
    {tmpl : Template} (hm : OpsOnly mtch) (hch : ∀ ch ∈ checks, OpsOnly ch)
    (k : Nat) (s s1 : Schedule) (cand : Option Schedule)
    (hI : PostInv mtch checks tmpl k s) (hk : k ≤ s.n) (hstep : btStep mtch checks tmpl k s = .ok (s1, cand)) :
    PostInv mtch checks tmpl k s1 ∧ s1.n = s.n ∧ ∀ c, cand = some c → PostInv mtch checks tmpl (k + 1) c := by
  obtain ⟨⟨hwf1, _⟩, hn1, hcwf⟩ := btStep_image hI.1 hk hstep
  obtain ⟨hrot, hk0, hc⟩ := btStep_ok hstep
  obtain ⟨hs1, hd, _⟩ := rotate_ok hrot
  have hI1 : PostInv mtch checks tmpl k s1 := by
    refine ⟨hwf1, ?_⟩
    intro j hj1 hjk hjn
    have : innerRaw j s1 = innerRaw j s := by
      rw [hs1]; exact innerRaw_rotateRaw _ j s hI.1 (by omega)
    rw [this]
    exact hI.2 j hj1 hjk (by omega)
  refine ⟨hI1, hn1, ?_⟩
  intro c hcand
  obtain ⟨hmk, hck, hcase⟩ := hc c hcand
  have hck' : ∀ ch ∈ checks, ch (tInnerRaw k tmpl) (innerRaw k s1) = true := by
    simpa [List.all_eq_true] using hck
  refine ⟨(hcwf c hcand).1, ?_⟩
  intro j hj1 hjk hjn
  rcases hcase with ⟨rfl, hb⟩ | ⟨htb, _, htile⟩
  · by_cases hjk' : j < k
    · exact hI1.2 j hj1 hjk' hjn
    · have : j = k := by omega
      subst this
      refine ⟨hmk, hck', ?_⟩
      intro htb
      show (lastN j c.bounds).head?.getD 0 ≤ _
      rw [lastN_head]
      rcases hb with hb | hb
      · exact absurd hb htb
      · exact hb
  · obtain ⟨rfl, hi, _, _⟩ := tile_ok htile
    by_cases hjk' : j < k
    · have : innerRaw j (tileRaw (s1.n - k) (templateBound tmpl k) s1) = innerRaw j s1 :=
        innerRaw_tileRaw_lt _ _ j s1 hwf1 (by omega)
      rw [this]
      exact hI1.2 j hj1 hjk' (by omega)
    · have hjk2 : j = k := by omega
      subst hjk2
      have hji : j = s1.n - (s1.n - j) := by omega
      obtain ⟨hops, hbd, hlen⟩ := innerRaw_tileRaw_eq (s1.n - j) (templateBound tmpl j) s1 hwf1 hi
      rw [← hji] at hops hbd hlen
      refine ⟨?_, ?_, ?_⟩
      · rw [hm _ _ _ hops hlen]; exact hmk
      · intro ch hchm
        rw [hch ch hchm _ _ _ hops hlen]; exact hck' ch hchm
      · intro _
        rw [hbd]; simp

end SnaxVerif.Sched
