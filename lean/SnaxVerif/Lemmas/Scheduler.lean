import SnaxVerif.Model.Scheduler
import Mathlib.Data.List.Perm.Basic
import Mathlib.Tactic.Ring
/-! Helper lemmas for C03 (iteration space preserved). -/
namespace SnaxVerif.Sched
open List

/-! ### points and images -/

theorem points_length_mem : ∀ (bs : List Nat) (x : List Nat), x ∈ points bs → x.length = bs.length
  | [], x, h => by simp [points] at h; simp [h]
  | b :: bs, x, h => by
    simp only [points, mem_flatMap, mem_map] at h
    obtain ⟨i, _, y, hy, rfl⟩ := h
    simp [points_length_mem bs y hy]

theorem evalOp_mapRows (f : List Int → List Int) (o : Operand) (x' x : List Nat)
    (h : ∀ r ∈ o.rows, dot (f r) x' = dot r x) : evalOp (o.mapRows f) x' = evalOp o x := by
  unfold evalOp Operand.mapRows
  simp only
  generalize o.b = b at *
  generalize o.rows = rows at *
  induction rows generalizing b with
  | nil => simp
  | cons r rs ih =>
    cases b with
    | nil => simp
    | cons c cs =>
      simp only [map_cons, zipWith_cons_cons]
      rw [h r (by simp), ih cs (fun r' hr' => h r' (by simp [hr']))]

/-- a transformation that rewrites every row with `f`, together with a map `φ` of iteration points
that is compatible with `f`, yields the image of the original schedule composed with `φ` -/
theorem imageS_mapRows (s : Schedule) (bs' : List Nat) (f : List Int → List Int) (φ : List Nat → List Nat)
    (hdot : ∀ x' ∈ points bs', ∀ o ∈ s.ops, ∀ r ∈ o.rows, dot (f r) x' = dot r (φ x')) :
    imageS { bounds := bs', ops := s.ops.map (Operand.mapRows f) }
      = ((points bs').map φ).map fun x => s.ops.map (evalOp · x) := by
  unfold imageS
  simp only [map_map]
  apply map_congr_left
  intro x' hx'
  simp only [Function.comp]
  apply map_congr_left
  intro o ho
  exact evalOp_mapRows f o x' (φ x') (hdot x' hx' o ho)

theorem imageS_eq_of (s : Schedule) (bs' : List Nat) (f : List Int → List Int) (φ : List Nat → List Nat)
    (hpts : (points bs').map φ = points s.bounds)
    (hdot : ∀ x' ∈ points bs', ∀ o ∈ s.ops, ∀ r ∈ o.rows, dot (f r) x' = dot r (φ x')) :
    imageS { bounds := bs', ops := s.ops.map (Operand.mapRows f) } = imageS s := by
  rw [imageS_mapRows s bs' f φ hdot, hpts]; rfl

theorem imageS_perm_of (s : Schedule) (bs' : List Nat) (f : List Int → List Int) (φ : List Nat → List Nat)
    (hpts : ((points bs').map φ).Perm (points s.bounds))
    (hdot : ∀ x' ∈ points bs', ∀ o ∈ s.ops, ∀ r ∈ o.rows, dot (f r) x' = dot r (φ x')) :
    (imageS { bounds := bs', ops := s.ops.map (Operand.mapRows f) }).Perm (imageS s) := by
  rw [imageS_mapRows s bs' f φ hdot]
  exact hpts.map _

/-! ### tiling -/

theorem range_mul_flatMap (q t : Nat) :
    (List.range q).flatMap (fun i => (List.range t).map (fun j => t * i + j)) = List.range (q * t) := by
  induction q with
  | zero => simp
  | succ n ih =>
    rw [List.range_succ, List.flatMap_append, ih]
    simp only [List.flatMap_cons, List.flatMap_nil, List.append_nil]
    rw [Nat.succ_mul, List.range_add]
    congr 1
    apply List.map_congr_left
    intro a _
    rw [Nat.mul_comm]

/-- point map undoing a tiling at position `i`: `(.., a, b, ..) ↦ (.., t*a+b, ..)` -/
def mergeAt (t : Nat) : Nat → List Nat → List Nat
  | 0, a :: b :: r => (t * a + b) :: r
  | i + 1, a :: r => a :: mergeAt t i r
  | _, l => l

theorem tile_head (q t : Nat) (bs : List Nat) :
    (points (q :: t :: bs)).map (mergeAt t 0) = points (q * t :: bs) := by
  simp only [points]
  rw [← range_mul_flatMap q t]
  simp only [List.map_flatMap, List.flatMap_assoc, List.map_map, List.flatMap_map]
  rfl

theorem tileList_zero {α} (x y a : α) (r : List α) : tileList x y 0 (a :: r) = x :: y :: r := by
  simp [tileList]

theorem tileList_succ {α} (x y a : α) (i : Nat) (r : List α) :
    tileList x y (i + 1) (a :: r) = a :: tileList x y i r := by
  simp [tileList]

theorem points_tile (t : Nat) : ∀ (i : Nat) (bs : List Nat), i < bs.length → bs.getD i 0 % t = 0 →
    (points (tileList (bs.getD i 0 / t) t i bs)).map (mergeAt t i) = points bs
  | _, [], h, _ => by simp at h
  | 0, b :: r, _, hd => by
    simp only [List.getD_cons_zero] at hd ⊢
    rw [tileList_zero, tile_head, Nat.div_mul_cancel (Nat.dvd_of_mod_eq_zero hd)]
  | i + 1, b :: r, h, hd => by
    simp only [List.getD_cons_succ] at hd ⊢
    rw [tileList_succ]
    have ih := points_tile t i r (by simpa using h) hd
    simp only [points, map_flatMap, map_map]
    conv => rhs; rw [← ih]
    simp only [map_map]
    rfl

theorem dot_tileRow (t : Nat) : ∀ (i : Nat) (r : List Int) (x' : List Nat), i < r.length →
    x'.length = r.length + 1 → dot (tileRow t i r) x' = dot r (mergeAt t i x')
  | _, [], _, h, _ => by simp at h
  | 0, a :: r, x', _, hl => by
    match x', hl with
    | p :: q :: xs, _ =>
      simp only [tileRow, List.getD_cons_zero, tileList_zero, dot, mergeAt]
      push_cast; ring
  | i + 1, a :: r, x', h, hl => by
    match x', hl with
    | p :: xs, hl =>
      have ih := dot_tileRow t i r xs (by simpa using h) (by simpa using hl)
      simp only [tileRow, List.getD_cons_succ, tileList_succ, dot, mergeAt] at ih ⊢
      rw [ih]

theorem length_tileList {α} (x y : α) (i : Nat) (l : List α) (h : i < l.length) :
    (tileList x y i l).length = l.length + 1 := by
  simp [tileList]; omega

theorem tileRaw_image (i t : Nat) (s : Schedule) (hwf : WF s) (hi : i < s.bounds.length)
    (hd : s.bounds.getD i 0 % t = 0) : imageS (tileRaw i t s) = imageS s := by
  unfold tileRaw
  apply imageS_eq_of s _ (tileRow t i) (mergeAt t i) (points_tile t i s.bounds hi hd)
  intro x' hx' o ho r hr
  have hl := points_length_mem _ _ hx'
  rw [length_tileList _ _ _ _ hi] at hl
  have hr' := hwf.2 o ho r hr
  exact dot_tileRow t i r x' (by omega) (by omega)

/-! ### rotation -/

theorem flatMap_comm_perm {α β γ} (l1 : List α) (l2 : List β) (g : α → β → List γ) :
    l1.flatMap (fun a => l2.flatMap (g a)) ~ l2.flatMap (fun b => l1.flatMap (fun a => g a b)) := by
  induction l1 with
  | nil => simp
  | cons a as ih =>
    simp only [flatMap_cons]
    exact (Perm.append_left _ ih).trans (flatMap_append_perm l2 (g a) (fun b => as.flatMap fun a => g a b))

def swap01 : List Nat → List Nat
  | a :: b :: r => b :: a :: r
  | l => l

theorem points_swap (a b : Nat) (bs : List Nat) :
    (points (b :: a :: bs)).map swap01 ~ points (a :: b :: bs) := by
  simp only [points, map_flatMap, map_map]
  have := flatMap_comm_perm (List.range b) (List.range a) (fun j i => (points bs).map (fun r => i :: j :: r))
  refine Perm.trans (Perm.of_eq ?_) (this.trans (Perm.of_eq ?_))
  · simp [Function.comp_def, swap01]
  · simp [Function.comp_def]

/-- move the head of a list to position `k` (the effect of `rotate (k+1)`) -/
def rotL {α} : Nat → List α → List α
  | k + 1, h :: m :: r => m :: rotL k (h :: r)
  | _, l => l

/-- point map undoing `rotL k` -/
def unrot : Nat → List Nat → List Nat
  | k + 1, i :: y => swap01 (i :: unrot k y)
  | _, l => l

theorem rotList_eq_rotL {α} : ∀ (k : Nat) (l : List α), k < l.length → rotList (k + 1) l = rotL k l
  | 0, h :: r, _ => by simp [rotList, rotL]
  | k + 1, [h], hl => by simp at hl
  | k + 1, h :: m :: r, hl => by
    have ih := rotList_eq_rotL k (h :: r) (by simpa using hl)
    simp only [rotL]
    rw [← ih]
    simp [rotList]

theorem length_rotL {α} : ∀ (k : Nat) (l : List α), (rotL k l).length = l.length
  | 0, l => by cases l <;> simp [rotL]
  | k + 1, [] => by simp [rotL]
  | k + 1, [h] => by simp [rotL]
  | k + 1, h :: m :: r => by simp [rotL, length_rotL k (h :: r)]

theorem length_unrot : ∀ (k : Nat) (l : List Nat), (unrot k l).length = l.length
  | 0, l => by cases l <;> simp [unrot]
  | k + 1, [] => by simp [unrot]
  | k + 1, i :: y => by
    have ih := length_unrot k y
    simp only [unrot]
    cases hu : unrot k y with
    | nil => simp [hu] at ih; simp [swap01, ← ih]
    | cons u us => simp [hu] at ih; simp [swap01, ← ih]

theorem points_rotL : ∀ (k : Nat) (bs : List Nat), k < bs.length →
    (points (rotL k bs)).map (unrot k) ~ points bs
  | 0, bs, _ => by
    have : (unrot 0) = id := by funext l; cases l <;> simp [unrot]
    cases bs <;> simp [rotL, this]
  | k + 1, [h], hl => by simp at hl
  | k + 1, [], hl => by simp at hl
  | k + 1, h :: m :: r, hl => by
    have ih := points_rotL k (h :: r) (by simpa using hl)
    simp only [rotL]
    have e : (points (m :: rotL k (h :: r))).map (unrot (k + 1))
        = ((List.range m).flatMap fun i => (((points (rotL k (h :: r))).map (unrot k)).map (i :: ·))).map swap01 := by
      simp only [points, map_flatMap, map_map]
      rfl
    rw [e]
    have p1 : ((List.range m).flatMap fun i => (((points (rotL k (h :: r))).map (unrot k)).map (i :: ·)))
        ~ points (m :: h :: r) := by
      show _ ~ (List.range m).flatMap fun i => (points (h :: r)).map (i :: ·)
      apply Perm.flatMap_left
      intro i _
      exact ih.map _
    exact (p1.map swap01).trans (points_swap h m r)

theorem dot_rotL : ∀ (k : Nat) (row : List Int) (x' : List Nat), k < row.length → x'.length = row.length →
    dot (rotL k row) x' = dot row (unrot k x')
  | 0, row, x', _, _ => by cases row <;> cases x' <;> simp [rotL, unrot]
  | k + 1, [], _, h, _ => by simp at h
  | k + 1, [h], _, hl, _ => by simp at hl
  | k + 1, h :: m :: r, x', hl, hx => by
    match x', hx with
    | i :: y, hx =>
      have ih := dot_rotL k (h :: r) y (by simpa using hl) (by simpa using hx)
      have hlen := length_unrot k y
      simp only [rotL, unrot, dot]
      rw [ih]
      cases hu : unrot k y with
      | nil => simp [hu] at hlen; simp at hx; omega
      | cons u us => simp only [swap01, dot]; ring

theorem rotateRaw_image (d : Nat) (s : Schedule) (hwf : WF s) (h1 : 1 ≤ d) (hd : d ≤ s.bounds.length) :
    (imageS (rotateRaw d s)).Perm (imageS s) := by
  obtain ⟨k, rfl⟩ : ∃ k, d = k + 1 := ⟨d - 1, by omega⟩
  unfold rotateRaw
  have hf : s.ops.map (Operand.mapRows (rotList (k + 1))) = s.ops.map (Operand.mapRows (rotL k)) := by
    apply map_congr_left
    intro o ho
    unfold Operand.mapRows
    congr 1
    apply map_congr_left
    intro r hr
    exact rotList_eq_rotL k r (by rw [hwf.2 o ho r hr]; omega)
  rw [hf, rotList_eq_rotL k s.bounds (by omega)]
  apply imageS_perm_of s _ (rotL k) (unrot k) (points_rotL k s.bounds (by omega))
  intro x' hx' o ho r hr
  have hl := points_length_mem _ _ hx'
  rw [length_rotL] at hl
  have hr' := hwf.2 o ho r hr
  exact dot_rotL k r x' (by omega) (by omega)

/-! ### unit dimensions -/

theorem addDim_image' (s : Schedule) : imageS (addDim s) = imageS s := by
  unfold addDim
  apply imageS_eq_of s _ (0 :: ·) List.tail
  · simp [points, map_map, Function.comp_def]
  · intro x' hx' o _ r _
    simp only [points, List.range_one, flatMap_cons, flatMap_nil, append_nil, mem_map] at hx'
    obtain ⟨y, _, rfl⟩ := hx'
    simp [dot]

/-- point map undoing the removal of masked-out dimensions: re-insert index 0 -/
def expand : List Bool → List Nat → List Nat
  | [], _ => []
  | true :: m, x :: xs => x :: expand m xs
  | true :: _, [] => []
  | false :: m, xs => 0 :: expand m xs

theorem dot_keepBy : ∀ (mask : List Bool) (row : List Int) (x' : List Nat),
    dot (keepBy mask row) x' = dot row (expand mask x')
  | [], row, x' => by cases row <;> simp [keepBy, expand, dot]
  | m :: ms, [], x' => by cases m <;> cases x' <;> simp [keepBy, dot]
  | false :: ms, a :: r, x' => by simp [keepBy, expand, dot, dot_keepBy ms r x']
  | true :: ms, a :: r, [] => by simp [keepBy, expand, dot]
  | true :: ms, a :: r, p :: xs => by simp [keepBy, expand, dot, dot_keepBy ms r xs]

/-- a mask that only drops dimensions of extent 1 -/
theorem points_keepBy (p : Nat → Bool) (hp : ∀ b, p b = false → b = 1) : ∀ (bs : List Nat),
    (points (keepBy (bs.map p) bs)).map (expand (bs.map p)) = points bs
  | [] => by simp [keepBy, points, expand]
  | b :: r => by
    have ih := points_keepBy p hp r
    cases hb : p b with
    | false =>
      have := hp b hb; subst this
      simp only [map_cons, hb, keepBy, points, List.range_one, flatMap_cons, flatMap_nil, append_nil]
      conv => rhs; rw [← ih]
      simp only [map_map]
      rfl
    | true =>
      simp only [map_cons, hb, keepBy, if_true, points, map_flatMap, map_map]
      conv => rhs; rw [← ih]
      simp only [map_map]
      rfl

theorem maskSched_image (p : Nat → Bool) (hp : ∀ b, p b = false → b = 1) (s : Schedule) :
    imageS (maskSched (s.bounds.map p) s) = imageS s := by
  unfold maskSched
  apply imageS_eq_of s _ (keepBy (s.bounds.map p)) (expand (s.bounds.map p)) (points_keepBy p hp s.bounds)
  intro x' _ o _ r _
  exact dot_keepBy _ r x'

end SnaxVerif.Sched
