import SnaxVerif.Lemmas.AccfgFrame
import SnaxVerif.Model.AccfgTaint
/-! Ghost writes are unobservable when no launch (and no effectful call) sees a tainted register (C01 pull, C06 loop overlap). -/
namespace SnaxVerif.Accfg

variable (cfg : Cfg)

/-- the run that executes ghosts (`u`) and the run that skips them (`v`) agree everywhere except on tainted registers -/
structure RT (T : Taint) (u v : St) : Prop where
  regs : ∀ a f, (a, f) ∉ T → u.regs a f = v.regs a f
  env : u.env = v.env
  tr : u.tr = v.tr

theorem RT.mono {T T' : Taint} {u v : St} (h : RT T u v) (hs : ∀ p ∈ T, p ∈ T') : RT T' u v :=
  ⟨fun a f hn => h.regs a f (fun hm => hn (hs _ hm)), h.env, h.tr⟩

mutual
theorem taintS_sub : (s : Stmt) → ∀ (T : Taint), ∀ p ∈ taintS s T, p ∈ T ∨ p ∈ ghostFieldsS s
  | .setup a fs, T, p, h => by
      simp only [taintS, tSetup, List.mem_filter] at h; exact Or.inl h.1
  | .ghost a fs, T, p, h => by
      simp only [taintS, tGhost, List.mem_append] at h
      simp only [ghostFieldsS]
      exact h.symm
  | .launch _ _, T, p, h => Or.inl h
  | .await _, T, p, h => Or.inl h
  | .pure _ _ _, T, p, h => Or.inl h
  | .call _ _, T, p, h => Or.inl h
  | .ifS c t e, T, p, h => by
      simp only [taintS, List.mem_append] at h
      simp only [ghostFieldsS, List.mem_append]
      rcases h with h | h
      · rcases taintB_sub t T p h with h | h
        · exact Or.inl h
        · exact Or.inr (Or.inl h)
      · rcases taintB_sub e T p h with h | h
        · exact Or.inl h
        · exact Or.inr (Or.inr h)
  | .forS _ _ _ _ b, T, p, h => by
      simp only [taintS, List.mem_append] at h
      simpa only [ghostFieldsS] using h
theorem taintB_sub : (b : Block) → ∀ (T : Taint), ∀ p ∈ taintB b T, p ∈ T ∨ p ∈ ghostFieldsB b
  | .nil, T, p, h => Or.inl h
  | .cons s r, T, p, h => by
      simp only [taintB] at h
      simp only [ghostFieldsB, List.mem_append]
      rcases taintB_sub r _ p h with h | h
      · rcases taintS_sub s T p h with h | h
        · exact Or.inl h
        · exact Or.inr (Or.inl h)
      · exact Or.inr (Or.inr h)
end

mutual
theorem taintSimS : (s : Stmt) → ∀ (T : Taint) (u v : St), okTS cfg.fields s T = true → RT T u v →
    RT (taintS s T) (execS cfg true s u) (execS cfg false s v)
  | .setup a fs, T, u, v, _, h => by
      refine ⟨?_, h.env, h.tr⟩
      intro a' f hn
      simp only [taintS, tSetup, List.mem_filter, not_and, Bool.not_eq_true', Bool.not_eq_false] at hn
      simp only [execS, setRegs, h.env]
      split
      · next hab =>
        cases hl : fs.lookup f with
        | some x => rfl
        | none =>
          simp only []
          apply h.regs a' f
          intro hm
          have := hn hm
          simp [hab, hl] at this
      · next hab =>
        apply h.regs a' f
        intro hm
        have := hn hm
        simp [hab] at this
  | .ghost a fs, T, u, v, _, h => by
      refine ⟨?_, h.env, h.tr⟩
      intro a' f hn
      simp only [taintS, tGhost, List.mem_append, List.mem_map, not_or, not_exists, not_and] at hn
      simp only [execS, if_true, Bool.false_eq_true, if_false, setRegs]
      split
      · next hab =>
        cases hl : fs.lookup f with
        | some x =>
          obtain ⟨l1, l2, hfs, _⟩ := List.lookup_eq_some_iff.mp hl
          exact absurd (by rw [hab]) (hn.1 (f, x) (by simp [hfs]))
        | none => exact h.regs a' f hn.2
      · exact h.regs a' f hn.2
  | .launch a lv, T, u, v, hok, h => by
      simp only [okTS, List.all_eq_true, Bool.not_eq_true', List.contains_eq_mem, decide_eq_false_iff_not] at hok
      refine ⟨h.regs, h.env, ?_⟩
      simp only [execS, h.env, h.tr]
      have : (cfg.fields a).map (u.regs a) = (cfg.fields a).map (v.regs a) :=
        List.map_congr_left (fun f hf => h.regs a f (hok f hf))
      rw [this]
  | .await a, T, u, v, _, h => ⟨h.regs, h.env, by simp only [execS, h.tr]⟩
  | .pure d op args, T, u, v, _, h => ⟨h.regs, by simp only [execS, h.env], h.tr⟩
  | .call tag eff, T, u, v, hok, h => by
      simp only [okTS, Bool.or_eq_true, Bool.not_eq_true', List.isEmpty_iff] at hok
      refine ⟨?_, h.env, by simp only [execS, h.tr]⟩
      intro a f hn
      simp only [execS]
      rcases hok with he | hT
      · simp only [he, Bool.false_eq_true, if_false]; exact h.regs a f hn
      · have : u.regs = v.regs := by
          funext a' f'; exact h.regs a' f' (by rw [hT]; exact List.not_mem_nil)
        rw [this]
  | .ifS c t e, T, u, v, hok, h => by
      simp only [okTS, Bool.and_eq_true] at hok
      simp only [execS, h.env]
      split
      · exact (taintSimB t T u v hok.1 h).mono (fun p hp => by simp only [taintS, List.mem_append]; exact Or.inl hp)
      · exact (taintSimB e T u v hok.2 h).mono (fun p hp => by simp only [taintS, List.mem_append]; exact Or.inr hp)
  | .forS lb ub st iv b, T, u, v, hok, h => by
      simp only [okTS] at hok
      simp only [execS, taintS, h.env]
      apply iterFrom_rel _ _ (RT (T ++ ghostFieldsB b)) _ _ 0 u v (h.mono (fun p hp => List.mem_append_left _ hp))
      intro i x y hxy
      have hxy' : RT (T ++ ghostFieldsB b) { x with env := setEnv x.env iv (v.env lb + ↑i * v.env st) }
          { y with env := setEnv y.env iv (v.env lb + ↑i * v.env st) } :=
        ⟨hxy.regs, by simp only [hxy.env], hxy.tr⟩
      refine (taintSimB b _ _ _ hok hxy').mono ?_
      intro p hp
      rcases taintB_sub b _ p hp with hp | hp
      · exact hp
      · exact List.mem_append_right _ hp
theorem taintSimB : (b : Block) → ∀ (T : Taint) (u v : St), okTB cfg.fields b T = true → RT T u v →
    RT (taintB b T) (execB cfg true b u) (execB cfg false b v)
  | .nil, T, u, v, _, h => h
  | .cons s r, T, u, v, hok, h => by
      simp only [okTB, Bool.and_eq_true] at hok
      simp only [execB, taintB]
      exact taintSimB r _ _ _ hok.2 (taintSimS s T u v hok.1 h)
end

/-- added register writes are unobservable when no launch and no effectful call sees a register they may have changed -/
theorem ghost_writes_unobservable_taint (b : Block) (hok : okTB cfg.fields b [] = true) (s : St) :
    (execB cfg true b s).tr = (execB cfg false b s).tr :=
  (taintSimB cfg b [] s s hok ⟨fun _ _ _ => rfl, rfl, rfl⟩).tr

end SnaxVerif.Accfg
