import SnaxVerif.Lemmas.DmaStrided
/-! C05: DYNAMIC strides of a `strided<[…, ?, …]>` memref. `get_step_ops` takes them from `extract_strided_metadata`
of the memref itself (scaled to bytes) and derives the outer tile steps by multiplying with the inner tile bounds; the
resolved entries of such a dimension therefore address index `x` at `x · (descriptor stride) · el`. -/
namespace SnaxVerif.Dma
open List

/-- steps of one dimension against its bound values: step of depth k = `p` × product of the bounds below it -/
def DynChain (p : Nat) : List Nat → List Nat → Prop
  | [], [] => True
  | _ :: bs, y :: ys => y = p * prodL bs ∧ DynChain p bs ys
  | _, _ => False

/-- the assignment walk over a dimension whose steps are all dynamic and whose last depth was pre-assigned `p` -/
theorem stepsDim_dynamic (el p : Nat) : ∀ (d : List Stride) (b : List Nat) (dyn : Nat), d ≠ [] → b.length = d.length →
    (∀ s ∈ d, s.step = none) →
    DynChain p b (stepsDim el (stepInsDim (some p) d b) dyn).1 ∧
      (stepsDim el (stepInsDim (some p) d b) dyn).2 = p * prodL b
  | [], _, _, h, _, _ => absurd rfl h
  | _ :: _, [], _, _, h, _ => by simp at h
  | [s], [b0], dyn, _, _, hn => by
    have hs : s.step = none := hn s (by simp)
    simp [stepInsDim, stepsDim, hs, DynChain, prodL]
  | [s], b0 :: _ :: _, _, _, h, _ => by simp at h
  | s :: s' :: r, b0 :: bs, dyn, _, hl, hn => by
    have hs : s.step = none := hn s (by simp)
    obtain ⟨ih1, ih2⟩ := stepsDim_dynamic el p (s' :: r) bs dyn (by simp) (by simpa using hl)
      (fun x hx => hn x (by simp [hx]))
    simp only [stepInsDim]
    refine ⟨?_, ?_⟩
    · rw [stepsDim_fst_cons]
      simp only [hs, Option.getD_none]
      exact ⟨ih2, ih1⟩
    · simp only [stepsDim, hs, Option.getD_none]
      rw [ih2]; simp [prodL, Nat.mul_left_comm, Nat.mul_comm]

/-- positionally: dimension `d` of the walk over a strided memref -/
theorem stepsAll_dynamic (el : Nat) : ∀ (T : List (List Stride)) (B : List (List Nat)) (mstr : List Nat) (dyn : Nat)
    (d : Nat) (td : List Stride) (bd xd : List Nat) (m : Nat),
    T[d]? = some td → B[d]? = some bd → (stepsAll el (stepIns true el T B mstr) dyn).1[d]? = some xd →
    mstr[d]? = some m → td ≠ [] → bd.length = td.length → (∀ s ∈ td, s.step = none) →
    DynChain (m * el) bd xd
  | [], _, _, _, _, _, _, _, _, h, _, _, _, _, _, _ => by simp at h
  | _ :: _, [], _, _, _, _, _, _, _, _, h, _, _, _, _, _ => by simp at h
  | t :: T, b :: B, mstr, dyn, 0, td, bd, xd, m, hT, hB, hX, hm, hne, hl, hn => by
    simp only [getElem?_cons_zero, Option.some.injEq] at hT hB
    subst hT hB
    simp only [stepIns] at hX
    rw [stepsAll_fst_cons] at hX
    simp only [getElem?_cons_zero, Option.some.injEq] at hX
    subst hX
    have hh : mstr.head? = some m := by cases mstr <;> simp_all
    simp only [hh, Option.map_some, if_true]
    exact (stepsDim_dynamic el (m * el) t b _ hne hl hn).1
  | t :: T, b :: B, mstr, dyn, d + 1, td, bd, xd, m, hT, hB, hX, hm, hne, hl, hn => by
    simp only [getElem?_cons_succ] at hT hB
    simp only [stepIns] at hX
    rw [stepsAll_fst_cons] at hX
    simp only [getElem?_cons_succ] at hX
    have hm' : mstr.tail[d]? = some m := by cases mstr <;> simp_all
    exact stepsAll_dynamic el T B mstr.tail dyn d td bd xd m hT hB hX hm' hne hl hn

/-- entries of one dimension whose bound values are `b` and whose steps on side `f` form a `DynChain` -/
theorem dynChain_strided (f : Entry → Nat) (p : Nat) : ∀ (es : List Entry) (b y : List Nat),
    es.map (·.bound) = b → es.map f = y → DynChain p b y → StridedChain f p es
  | [], _, _, _, _, _ => by simp [StridedChain]
  | e :: r, [], _, h, _, _ => by simp at h
  | e :: r, _ :: _, [], _, h, _ => by simp at h
  | e :: r, b0 :: bs, y0 :: ys, hb, hy, hc => by
    simp only [map_cons, cons.injEq] at hb hy
    refine ⟨?_, dynChain_strided f p r bs ys hb.2 hy.2 hc.2⟩
    have : prodB r = prodL bs := by
      rw [← hb.2]; clear hb hy hc
      induction r with
      | nil => rfl
      | cons a t ih => simp [prodB, prodL, ih]
    rw [hy.1, hc.1, this]

theorem zipDim_fields : ∀ (s d : List Stride) (b x y : List Nat),
    d.length = s.length → b.length = s.length → x.length = s.length → y.length = s.length →
    let es := List.zipWith (fun (p : Stride × Stride) (q : Nat × Nat × Nat) => (⟨p.1, p.2, q.1, q.2.1, q.2.2⟩ : Entry))
      (s.zip d) (b.zip (x.zip y))
    es.map (·.bound) = b ∧ es.map (·.sstep) = x ∧ es.map (·.dstep) = y
  | [], [], [], [], [], _, _, _, _ => by simp
  | [], _ :: _, _, _, _, h, _, _, _ => by simp at h
  | [], [], _ :: _, _, _, _, h, _, _ => by simp at h
  | [], [], [], _ :: _, _, _, _, h, _ => by simp at h
  | [], [], [], [], _ :: _, _, _, _, h => by simp at h
  | _ :: _, [], _, _, _, h, _, _, _ => by simp at h
  | _ :: _, _ :: _, [], _, _, _, h, _, _ => by simp at h
  | _ :: _, _ :: _, _ :: _, [], _, _, _, h, _ => by simp at h
  | _ :: _, _ :: _, _ :: _, _ :: _, [], _, _, _, h => by simp at h
  | s0 :: s, d0 :: d, b0 :: b, x0 :: x, y0 :: y, h1, h2, h3, h4 => by
    have ih := zipDim_fields s d b x y (by simpa using h1) (by simpa using h2) (by simpa using h3) (by simpa using h4)
    simp only [zip_cons_cons, zipWith_cons_cons, map_cons, cons.injEq, true_and]
    exact ih

/-- dimension `d` of `zipEntries`, with equal lengths everywhere -/
theorem zipEntries_dim : ∀ (S D : List (List Stride)) (B X Y : List (List Nat)),
    D.map length = S.map length → B.map length = S.map length → X.map length = S.map length →
    Y.map length = S.map length → ∀ (d : Nat) (es : List Entry), (zipEntries S D B X Y)[d]? = some es →
    ∃ bd xd yd, B[d]? = some bd ∧ X[d]? = some xd ∧ Y[d]? = some yd ∧
      es.map (·.bound) = bd ∧ es.map (·.sstep) = xd ∧ es.map (·.dstep) = yd
  | [], _, _, _, _, _, _, _, _, _, _, h => by simp [zipEntries] at h
  | _ :: _, [], _, _, _, h, _, _, _, _, _, _ => by simp at h
  | _ :: _, _ :: _, [], _, _, _, h, _, _, _, _, _ => by simp at h
  | _ :: _, _ :: _, _ :: _, [], _, _, _, h, _, _, _, _ => by simp at h
  | _ :: _, _ :: _, _ :: _, _ :: _, [], _, _, _, h, _, _, _ => by simp at h
  | s :: S, d0 :: D, b :: B, x :: X, y :: Y, h1, h2, h3, h4, 0, es, h => by
    simp only [map_cons, cons.injEq] at h1 h2 h3 h4
    simp only [zipEntries, getElem?_cons_zero, Option.some.injEq] at h
    subst h
    exact ⟨b, x, y, rfl, rfl, rfl, zipDim_fields s d0 b x y h1.1 h2.1 h3.1 h4.1⟩
  | s :: S, d0 :: D, b :: B, x :: X, y :: Y, h1, h2, h3, h4, d + 1, es, h => by
    simp only [map_cons, cons.injEq] at h1 h2 h3 h4
    simp only [zipEntries, getElem?_cons_succ] at h ⊢
    exact zipEntries_dim S D B X Y h1.2 h2.2 h3.2 h4.2 d es h


/-! ### composition -/

theorem fsSteps_none : ∀ (tb : List (Option Nat)), ∀ x ∈ fsSteps none tb, x = none
  | [], x, h => by simpa [fsSteps] using h
  | b :: r, x, h => by
    have ih := fsSteps_none r
    simp only [fsSteps, mem_cons] at h
    rcases h with h | h
    · have hh : (fsSteps none r).head?.join = none := by
        cases hf : fsSteps none r with
        | nil => rfl
        | cons a t => have := ih a (by simp [hf]); simp [this]
      simp [hh, truthy] at h; exact h
    · exact ih x h

theorem fromStride_none (tb : List (Option Nat)) : ∀ s ∈ fromStride none tb, s.step = none := by
  intro s hs
  unfold fromStride at hs
  have : ∀ (a tb : List (Option Nat)), (∀ x ∈ a, x = none) → ∀ s ∈ List.zipWith Stride.mk a tb, s.step = none := by
    intro a
    induction a with
    | nil => intro tb _ s hs; simp at hs
    | cons a0 a ih =>
      intro tb ha s hs
      cases tb with
      | nil => simp at hs
      | cons t tb =>
        simp only [zipWith_cons_cons, mem_cons] at hs
        rcases hs with rfl | hs
        · exact ha a0 (by simp)
        · exact ih tb (fun x hx => ha x (by simp [hx])) s hs
  exact this _ _ (fsSteps_none _) s hs

theorem resolveBounds_nonempty : ∀ (S : List (List Stride)) (shape : List Nat) (B : List (List Nat)),
    resolveBounds S shape = .ok B → ∀ (d : Nat) (td : List Stride), S[d]? = some td → td ≠ []
  | [], _, _, _, _, _, h => by simp at h
  | _ :: _, [], _, h, _, _, _ => by simp [resolveBounds] at h
  | t :: ts, x :: xs, B, h, d, td, hd => by
    simp only [resolveBounds, bind, Except.bind] at h
    cases hdb : dimBounds t x with
    | error e => simp [hdb] at h
    | ok b =>
      cases hr : resolveBounds ts xs with
      | error e => simp [hdb, hr] at h
      | ok r =>
        cases d with
        | zero =>
          simp only [getElem?_cons_zero, Option.some.injEq] at hd; subst hd
          intro hn; subst hn; simp [dimBounds] at hdb
        | succ d =>
          simp only [getElem?_cons_succ] at hd
          exact resolveBounds_nonempty ts xs r hr d td hd

theorem resolve_unfold {src dst : MemTy} {tS tD : Tsl} {rs rd : Rt} {nested : List (List Entry)}
    (h : resolve src dst tS tD rs rd = .ok nested) :
    ∃ B, resolveBounds tS.ts rs.shape = .ok B ∧ tD.ts.map length = tS.ts.map length ∧
      nested = zipEntries tS.ts tD.ts B (resolveSteps tS src.layout.isStrided src.el B rs.strides)
        (resolveSteps tD dst.layout.isStrided dst.el B rd.strides) := by
  unfold resolve at h
  simp only [bind, Except.bind] at h
  split at h
  · simp at h
  next hss =>
    cases hb : resolveBounds tS.ts rs.shape with
    | error e => simp [hb] at h
    | ok B =>
      simp [hb, pure, Except.pure] at h
      have hD : tD.ts.map length = tS.ts.map length := by
        simp only [sameStructure, Bool.not_eq_true, Bool.not_eq_false] at hss
        have : (tS.ts.map length == tD.ts.map length) = true := by simpa using hss
        exact (beq_iff_eq.mp this).symm
      exact ⟨B, rfl, hD, h.symm⟩

theorem length_at {α β : Type} {A : List (List α)} {S : List (List β)} (h : A.map length = S.map length) {d : Nat}
    {a : List α} {s : List β} (ha : A[d]? = some a) (hs : S[d]? = some s) : a.length = s.length := by
  have := congrArg (·[d]?) h
  simpa [getElem?_map, ha, hs] using this

/-- one side of a strided operand with a DYNAMIC stride in dimension `d`: the chain of that side's steps -/
theorem dyn_side (el : Nat) (T : Tsl) (B : List (List Nat)) (mstr : List Nat)
    (hB : B.map length = T.ts.map length) {d : Nat} {td : List Stride} {bd xd : List Nat} {m : Nat}
    (hT : T.ts[d]? = some td) (hBd : B[d]? = some bd) (hX : (resolveSteps T true el B mstr)[d]? = some xd)
    (hm : mstr[d]? = some m) (hne : td ≠ []) (hn : ∀ s ∈ td, s.step = none) : DynChain (m * el) bd xd := by
  unfold resolveSteps at hX
  exact stepsAll_dynamic el T.ts B mstr _ d td bd xd m hT hBd hX hm hne (length_at hB hBd hT) hn


theorem isStrided_of {t : MemTy} {strides : List (Option Nat)} {off : Option Nat} (h : t.layout = .strided strides off) :
    t.layout.isStrided = true ∧ extractStrides t = some strides ∧ ∀ l, t.layout ≠ .tsl l := by
  simp [h, Layout.isStrided, extractStrides]

/-- SOURCE with `strided<…>` whose stride of dimension `d` is `?`: index `x` of that dimension is addressed at
`x · rs.strides[d] · el` bytes — the descriptor's own stride, whatever tile bounds the other side imposes. -/
theorem strided_dynamic_source_address {bv : Bool} {src dst : MemTy} {rs rd : Rt} {l : Lowered}
    (h : transformDma bv src dst rs rd = .ok l) {strides : List (Option Nat)} {off : Option Nat}
    (hl : src.layout = .strided strides off) {d m : Nat} (hs : strides[d]? = some none)
    (hm : rs.strides[d]? = some m) {es : List Entry} (hd : l.nested[d]? = some es) (x : Nat) :
    (tileAddr es x).1 = x * (m * src.el) := by
  obtain ⟨hr, _, _⟩ := transformDma_resolve h
  obtain ⟨hss, _⟩ := resolve_strides hr
  obtain ⟨B, hB, hD, hnest⟩ := resolve_unfold hr
  obtain ⟨hstr, hex, hnt⟩ := isStrided_of hl
  obtain ⟨strides', tbs, hstr', hT⟩ := tslOf_nonTsl (transformDma_tsls h).1 hnt
  rw [hex] at hstr'; injection hstr' with hstr'; subst hstr'
  have hX : l.tS.ts[d]? = some (es.map (·.ss)) := by rw [← hss, List.getElem?_map, hd]; rfl
  have hfs := nonTsl_dim hT hs hX
  have hnone : ∀ s ∈ es.map (·.ss), s.step = none := by rw [hfs]; exact fromStride_none _
  have hne : es.map (·.ss) ≠ [] := resolveBounds_nonempty _ _ _ hB d _ hX
  have hBl := resolveBounds_lengths _ _ _ hB
  have hXl := resolveSteps_lengths l.tS src.layout.isStrided src.el B rs.strides hBl
  have hYl : (resolveSteps l.tD dst.layout.isStrided dst.el B rd.strides).map length = l.tS.ts.map length := by
    rw [resolveSteps_lengths _ _ _ _ _ (hBl.trans hD.symm), hD]
  rw [hnest] at hd
  obtain ⟨bd, xd, yd, hbd, hxd, _, e1, e2, _⟩ := zipEntries_dim _ _ _ _ _ hD hBl hXl hYl d es hd
  rw [hstr] at hxd
  have hc := dyn_side src.el l.tS B rs.strides hBl hX hbd hxd hm hne hnone
  have hes : es ≠ [] := by intro hn; apply hne; simp [hn]
  rw [tileAddr_eq]
  exact tileAddrG_strided (·.sstep) (m * src.el) es hes (dynChain_strided (·.sstep) _ es bd xd e1 e2 hc) x

/-- DESTINATION with `strided<…>` whose stride of dimension `d` is `?`: `x · rd.strides[d] · el`, from the
DESTINATION's own descriptor (no `EqualTileBounds` needed: the steps are chained over the bound values actually used). -/
theorem strided_dynamic_dest_address {bv : Bool} {src dst : MemTy} {rs rd : Rt} {l : Lowered}
    (h : transformDma bv src dst rs rd = .ok l) {strides : List (Option Nat)} {off : Option Nat}
    (hl : dst.layout = .strided strides off) {d m : Nat} (hs : strides[d]? = some none)
    (hm : rd.strides[d]? = some m) {es : List Entry} (hd : l.nested[d]? = some es) (x : Nat) :
    (tileAddr es x).2 = x * (m * src.el) := by
  obtain ⟨hr, hel, _⟩ := transformDma_resolve h
  obtain ⟨_, hds⟩ := resolve_strides hr
  obtain ⟨B, hB, hD, hnest⟩ := resolve_unfold hr
  obtain ⟨hstr, hex, hnt⟩ := isStrided_of hl
  obtain ⟨strides', tbs, hstr', hT⟩ := tslOf_nonTsl (transformDma_tsls h).2 hnt
  rw [hex] at hstr'; injection hstr' with hstr'; subst hstr'
  have hX : l.tD.ts[d]? = some (es.map (·.ds)) := by rw [← hds, List.getElem?_map, hd]; rfl
  have hfs := nonTsl_dim hT hs hX
  have hnone : ∀ s ∈ es.map (·.ds), s.step = none := by rw [hfs]; exact fromStride_none _
  have hBl := resolveBounds_lengths _ _ _ hB
  have hXl := resolveSteps_lengths l.tS src.layout.isStrided src.el B rs.strides hBl
  have hBD : B.map length = l.tD.ts.map length := hBl.trans hD.symm
  have hYl : (resolveSteps l.tD dst.layout.isStrided dst.el B rd.strides).map length = l.tS.ts.map length := by
    rw [resolveSteps_lengths _ _ _ _ _ hBD, hD]
  have hd0 := hd
  rw [hnest] at hd
  obtain ⟨bd, xd, yd, hbd, _, hyd, e1, _, e3⟩ := zipEntries_dim _ _ _ _ _ hD hBl hXl hYl d es hd
  rw [hstr] at hyd
  -- non-empty: the source strides of this dimension are non-empty and the destination has as many
  obtain ⟨hss, _⟩ := resolve_strides hr
  have hXs : l.tS.ts[d]? = some (es.map (·.ss)) := by rw [← hss, List.getElem?_map, hd0]; rfl
  have hnes : es.map (·.ss) ≠ [] := resolveBounds_nonempty _ _ _ hB d _ hXs
  have hes : es ≠ [] := by intro hn; apply hnes; simp [hn]
  have hne : es.map (·.ds) ≠ [] := by intro hn; apply hes; simpa using hn
  have hc := dyn_side dst.el l.tD B rd.strides hBD hX hbd hyd hm hne hnone
  rw [tileAddr_eq, hel]
  exact tileAddrG_strided (·.dstep) (m * dst.el) es hes (dynChain_strided (·.dstep) _ es bd yd e1 e3 hc) x

end SnaxVerif.Dma
