import SnaxVerif.Model.Kernel
/-! Helper lemmas for C18 (kernel recognition / expansion / rescale / dispatch). Core Lean only. -/
namespace SnaxVerif.Kernel

/-! ## the matcher's value mapping -/

theorem mapRef_some {r r' : Ref} (h : mapRef r = some r') : r = r' := by
  cases r <;> simp [mapRef] at h
  · exact h

theorem map_mapRef_eq : ∀ {l l' : List Ref}, l.map mapRef = l'.map some → l = l'
  | [], [], _ => rfl
  | [], _ :: _, h => by simp at h
  | _ :: _, [], h => by simp at h
  | r :: l, r' :: l', h => by
    simp only [List.map_cons, List.cons.injEq] at h
    rw [mapRef_some h.1, map_mapRef_eq h.2]

theorem map_mapRef_reverse_eq {l l' : List Ref} (h : (l.map mapRef).reverse = l'.map some) :
    l.reverse = l' := by
  rw [← List.map_reverse] at h
  exact map_mapRef_eq h

/-! ## operand lookup and reversal -/

theorem lookupAll_append (env : List Val) : ∀ (l₁ l₂ : List Ref),
    lookupAll env (l₁ ++ l₂) = (lookupAll env l₁).bind fun a => (lookupAll env l₂).map (a ++ ·)
  | [], l₂ => by cases h : lookupAll env l₂ <;> simp [lookupAll, h]
  | r :: l₁, l₂ => by
    simp only [List.cons_append, lookupAll, lookupAll_append env l₁ l₂]
    cases lookup env r <;> simp
    cases lookupAll env l₁ <;> simp
    cases lookupAll env l₂ <;> simp

theorem lookupAll_reverse (env : List Val) : ∀ (l : List Ref),
    lookupAll env l.reverse = (lookupAll env l).map List.reverse
  | [] => rfl
  | r :: l => by
    rw [List.reverse_cons, lookupAll_append, lookupAll_reverse env l]
    simp only [lookupAll]
    cases lookupAll env l <;> cases lookup env r <;> simp

theorem binop_comm {k : OpKind} (hk : k.commutative = true) {w : Nat} (x y : BitVec w) :
    binop k x y = binop k y x := by
  cases k <;> simp [OpKind.commutative] at hk <;> simp [binop, BitVec.add_comm, BitVec.mul_comm]

theorem evalOp_other (n : String) (c : Bool) (w : Nat) (vs : List Val) :
    evalOp (.other n c) w vs = none := by
  unfold evalOp
  split <;> simp [nullop, unop, binop, arithBin, cmpop, ternop]

theorem evalOp_long (k : OpKind) (w : Nat) (x y z u : Val) (t : List Val) :
    evalOp k w (x :: y :: z :: u :: t) = none := by
  simp [evalOp]

theorem cmpop_comm_none {k : OpKind} (hk : k.commutative = true) (w : Nat) (x y : Val) : cmpop k w x y = none := by
  cases k <;> simp [OpKind.commutative] at hk <;> simp [cmpop]

theorem ternop_comm_none {k : OpKind} (hk : k.commutative = true) (w : Nat) (c x y : Val) :
    ternop k w c x y = none := by
  cases k <;> simp [OpKind.commutative] at hk <;> simp [ternop]

theorem evalOp_reverse {k : OpKind} (hk : k.commutative = true) (w : Nat) (vs : List Val) :
    evalOp k w vs.reverse = evalOp k w vs := by
  match vs with
  | [] => rfl
  | [x] => rfl
  | [x, y] =>
    show evalOp k w [y, x] = evalOp k w [x, y]
    simp only [evalOp, cmpop_comm_none hk, arithBin]
    by_cases hx : x.w = w <;> by_cases hy : y.w = w <;> simp [hx, hy, binop_comm hk]
  | [x, y, z] =>
    show evalOp k w [z, y, x] = evalOp k w [x, y, z]
    simp only [evalOp, ternop_comm_none hk]
  | x :: y :: z :: u :: t =>
    rw [evalOp_long]
    have hlen : 4 ≤ (x :: y :: z :: u :: t).reverse.length := by simp
    match hr : (x :: y :: z :: u :: t).reverse, hlen with
    | a :: b :: c :: d :: e, _ => rw [evalOp_long]

/-! ## soundness of the fixed matcher -/

theorem sameType_attrFree {a b : OpKind} (hb : b.attrFree = true) (h : a.sameType b = true) : a = b := by
  cases a <;> cases b <;> simp_all [OpKind.sameType, OpKind.attrFree]

/-- ops that match compute the same value in every environment -/
theorem opMatch_step {a b : BOp} (hb : b.kind.attrFree = true) (h : opMatch true a b = true)
    (env : List Val) : stepOp env a = stepOp env b := by
  simp only [opMatch, Bool.not_true, Bool.false_or, Bool.and_eq_true, Bool.or_eq_true, beq_iff_eq] at h
  obtain ⟨hk, hw, hargs⟩ := h
  have hk := sameType_attrFree hb hk
  unfold stepOp
  rw [hk, hw]
  rcases hargs with h | ⟨hc, h⟩
  · rw [map_mapRef_eq h]
  · rw [← map_mapRef_reverse_eq h, lookupAll_reverse]
    rw [hk] at hc
    cases lookupAll env a.args <;> simp [evalOp_reverse hc]

theorem all2_evalOps : ∀ (as bs : List BOp), (∀ o ∈ bs, o.kind.attrFree = true) →
    all2 (opMatch true) as bs = true → ∀ env, evalOps as env = evalOps bs env
  | [], [], _, _, _ => rfl
  | [], _ :: _, _, h, _ => by simp [all2] at h
  | _ :: _, [], _, h, _ => by simp [all2] at h
  | a :: as, b :: bs, hb, h, env => by
    simp only [all2, Bool.and_eq_true] at h
    simp only [evalOps]
    rw [opMatch_step (hb b (by simp)) h.1 env]
    cases stepOp env b <;> simp
    exact all2_evalOps as bs (fun o ho => hb o (by simp [ho])) h.2 _

/-- `check_kernel_equivalence` (fixed) is sound: blocks that match compute the same function, for blocks
with the same argument types and a right-hand block free of attribute-carrying ops. -/
theorem blockMatch_sound {a b : Body} (hargs : a.args = b.args)
    (hb : ∀ o ∈ b.ops, o.kind.attrFree = true) (h : blockMatch true a b = true) (ins : List Val) :
    evalBody a ins = evalBody b ins := by
  simp only [blockMatch, if_true, Bool.and_eq_true, beq_iff_eq] at h
  obtain ⟨⟨⟨_, _⟩, hops⟩, hret⟩ := h
  unfold evalBody
  rw [hargs, all2_evalOps a.ops b.ops hb hops ins, map_mapRef_eq hret]

/-! ## the kernel regions -/

theorem region_args (k : Kernel) (tys : List Nat) : (equivalentRegion k tys).args = tys := by
  cases k <;> simp [equivalentRegion]
  split <;> rfl

theorem region_attrFree (k : Kernel) (tys : List Nat) :
    ∀ o ∈ (equivalentRegion k tys).ops, o.kind.attrFree = true := by
  cases k <;> simp [equivalentRegion, OpKind.attrFree]
  split <;> simp

/-! ## BitVec identities behind the kernel specifications -/

theorem ofInt_toInt_signExtend {w : Nat} (r : Nat) (a : BitVec w) :
    BitVec.ofInt r a.toInt = a.signExtend r := rfl

theorem spec_mul {w : Nat} (a b : BitVec w) : BitVec.ofInt w (a.toInt * b.toInt) = a * b := by
  rw [BitVec.ofInt_mul, BitVec.ofInt_toInt, BitVec.ofInt_toInt]

theorem spec_add {w : Nat} (a b : BitVec w) : BitVec.ofInt w (a.toInt + b.toInt) = a + b := by
  rw [BitVec.ofInt_add, BitVec.ofInt_toInt, BitVec.ofInt_toInt]

theorem spec_mac {wa wb r : Nat} (a : BitVec wa) (b : BitVec wb) (c : BitVec r) :
    BitVec.ofInt r (c.toInt + a.toInt * b.toInt) = c + a.signExtend r * b.signExtend r := by
  rw [BitVec.ofInt_add, BitVec.ofInt_mul, BitVec.ofInt_toInt]; rfl

theorem ofInt_sub' {n : Nat} (x y : Int) : BitVec.ofInt n (x - y) = BitVec.ofInt n x - BitVec.ofInt n y := by
  apply BitVec.eq_of_toInt_eq
  simp [BitVec.toInt_ofInt, BitVec.toInt_sub, Int.sub_bmod, Int.bmod_bmod]

theorem spec_qmac {wa wb r : Nat} (a : BitVec wa) (b : BitVec wb) (za zb c : BitVec r) :
    BitVec.ofInt r (c.toInt + (a.toInt - za.toInt) * (b.toInt - zb.toInt)) =
      c + (a.signExtend r - za) * (b.signExtend r - zb) := by
  rw [BitVec.ofInt_add, BitVec.ofInt_mul, ofInt_sub', ofInt_sub', BitVec.ofInt_toInt, BitVec.ofInt_toInt,
    BitVec.ofInt_toInt]
  rfl

theorem signExtend_self {w : Nat} (a : BitVec w) : a.signExtend w = a := BitVec.ofInt_toInt

/-! ## kernel form -/

/-- the kernel form written by `ParseLinalgBody` means the kernel applied to the block arguments -/
theorem kernelForm_spec (k : Kernel) (b : Body) (ins : List Val) (hins : ins.map Val.w = b.args)
    (hk : kernelTyped k b.args = true) :
    evalKBody (toKernelForm b k) ins = (kernelSpec k ins).map fun r => [r] := by
  obtain ⟨args, ops, ret⟩ := b
  simp only at hins hk
  subst hins
  cases k
  · rcases ins with _ | ⟨⟨wa, a⟩, _ | ⟨⟨wb, b⟩, _ | ⟨⟨wc, c⟩, _ | ⟨d, t⟩⟩⟩⟩ <;> simp [kernelTyped] at hk
    simp [evalKBody, toKernelForm, lookupAll, lookup, kernelSpec, List.range, List.range.loop]
  · rcases ins with _ | ⟨⟨wa, a⟩, _ | ⟨⟨wb, b⟩, _ | ⟨⟨wc, c⟩, _ | ⟨d, t⟩⟩⟩⟩ <;> simp [kernelTyped] at hk
    simp [evalKBody, toKernelForm, lookupAll, lookup, kernelSpec, List.range, List.range.loop]
  · rcases ins with _ | ⟨⟨wa, a⟩, _ | ⟨⟨wb, b⟩, _ | ⟨⟨wc, c⟩, _ | ⟨d, t⟩⟩⟩⟩ <;> simp [kernelTyped] at hk
    simp [evalKBody, toKernelForm, lookupAll, lookup, kernelSpec, List.range, List.range.loop]
  · rcases ins with _ | ⟨⟨wa, a⟩, _ | ⟨⟨wb, b⟩, _ | ⟨⟨wza, za⟩, _ | ⟨⟨wzb, zb⟩, _ | ⟨⟨wc, c⟩, _ | ⟨d, t⟩⟩⟩⟩⟩⟩ <;>
      simp [kernelTyped] at hk
    simp [evalKBody, toKernelForm, lookupAll, lookup, kernelSpec, List.range, List.range.loop]
  · simp [kernelTyped] at hk


theorem canonical_eq {kb : KBody} (h : kb.canonical = true) :
    kb = toKernelForm ⟨kb.args, [], []⟩ kb.kernel := by
  obtain ⟨args, k, operands, opTypes, resWidth, ret⟩ := kb
  simp only [KBody.canonical, Bool.and_eq_true, beq_iff_eq] at h
  obtain ⟨⟨h1, h2⟩, h3⟩ := h
  subst h2
  simp [toKernelForm, h1, h3]

theorem all2_refl (ops : List BOp) (h : ∀ o ∈ ops, opMatch true o o = true) : all2 (opMatch true) ops ops = true := by
  induction ops with
  | nil => rfl
  | cons o t ih => simp [all2, h o (by simp), ih (fun o ho => h o (by simp [ho]))]

theorem region_recognized (k : Kernel) (tys : List Nat) (hk : kernelTyped k tys = true) :
    recognize true (equivalentRegion k tys) = some k := by
  cases k
  · rcases tys with _ | ⟨a, _ | ⟨b, _ | ⟨c, _ | ⟨d, t⟩⟩⟩⟩ <;> simp [kernelTyped] at hk
    obtain ⟨rfl, rfl⟩ := hk
    simp [recognize, Kernel.parsable, Kernel.nOperands, equivalentRegion, blockMatch, all2, opMatch, mapRef,
      OpKind.sameType, OpKind.commutative]
  · rcases tys with _ | ⟨a, _ | ⟨b, _ | ⟨c, _ | ⟨d, t⟩⟩⟩⟩ <;> simp [kernelTyped] at hk
    obtain ⟨rfl, rfl⟩ := hk
    simp [recognize, Kernel.parsable, Kernel.nOperands, equivalentRegion, blockMatch, all2, opMatch, mapRef,
      OpKind.sameType, OpKind.commutative]
  · rcases tys with _ | ⟨a, _ | ⟨b, _ | ⟨c, _ | ⟨d, t⟩⟩⟩⟩ <;> simp [kernelTyped] at hk
    rcases hk with ⟨rfl, rfl⟩ | ⟨ha, hb⟩
    · simp [recognize, Kernel.parsable, Kernel.nOperands, equivalentRegion, blockMatch, all2, opMatch, mapRef,
        OpKind.sameType, OpKind.commutative]
    · have hne : a ≠ c := Nat.ne_of_lt ha
      simp [recognize, Kernel.parsable, Kernel.nOperands, equivalentRegion, blockMatch, all2, opMatch, mapRef,
        OpKind.sameType, OpKind.commutative, hne]
  · rcases tys with _ | ⟨a, _ | ⟨b, _ | ⟨za, _ | ⟨zb, _ | ⟨c, _ | ⟨d, t⟩⟩⟩⟩⟩⟩ <;> simp [kernelTyped] at hk
    obtain ⟨⟨⟨ha, hb⟩, rfl⟩, rfl⟩ := hk
    simp [recognize, Kernel.parsable, Kernel.nOperands, equivalentRegion, blockMatch, all2, opMatch, mapRef,
      OpKind.sameType, OpKind.commutative]
  · simp [kernelTyped] at hk

/-! ## dispatch -/

theorem matchSupported_true {k : Kernel} {tys : List Nat} : ∀ {l : List Supported},
    matchSupported k tys l = .ok true → ∃ sk ∈ l, sk.kind = k ∧ sk.types.length = tys.length
  | [], h => by simp [matchSupported] at h
  | sk :: rest, h => by
    unfold matchSupported at h
    split at h
    · obtain ⟨s, hs, hh⟩ := matchSupported_true h
      exact ⟨s, by simp [hs], hh⟩
    · next hk =>
      split at h
      · cases h
      · next hl =>
        exact ⟨sk, by simp, by simpa using hk, by simpa using hl⟩

theorem matchSupported_none {k : Kernel} {tys : List Nat} : ∀ {l : List Supported},
    (∀ sk ∈ l, sk.kind ≠ k) → matchSupported k tys l = .ok false
  | [], _ => rfl
  | sk :: rest, h => by
    unfold matchSupported
    rw [if_pos (h sk (by simp))]
    exact matchSupported_none fun s hs => h s (by simp [hs])

theorem findAcc_some {k : Kernel} {tys : List Nat} {a : Acc} : ∀ {l : List Acc},
    findAcc k tys l = .ok (some a) → a ∈ l ∧ matchSupported k tys a.supported = .ok true
  | [], h => by simp [findAcc] at h
  | x :: rest, h => by
    unfold findAcc at h
    split at h
    · cases h
    · next hm =>
      simp only [Except.ok.injEq, Option.some.injEq] at h
      subst h
      exact ⟨by simp, hm⟩
    · obtain ⟨h1, h2⟩ := findAcc_some h
      exact ⟨by simp [h1], h2⟩

theorem findAcc_none {k : Kernel} {tys : List Nat} : ∀ {l : List Acc},
    (∀ a ∈ l, ∀ sk ∈ a.supported, sk.kind ≠ k) → findAcc k tys l = .ok none
  | [], _ => rfl
  | x :: rest, h => by
    unfold findAcc
    rw [matchSupported_none (h x (by simp))]
    exact findAcc_none fun a ha => h a (by simp [ha])

/-! ## mixed bodies -/

theorem evalMOps_arith (acc : Option Val) : ∀ (ops : List BOp) (env : List Val),
    evalMOps acc (ops.map MOp.arith) env = evalOps ops env
  | [], _ => rfl
  | op :: rest, env => by
    simp only [List.map_cons, evalMOps, evalOps, stepMOp]
    cases stepOp env op <;> simp [evalMOps_arith acc rest]

theorem evalMBody_ofBody (b : Body) (ins : List Val) : evalMBody b.toMBody ins = evalBody b ins := by
  simp [evalMBody, evalBody, Body.toMBody, evalMOps_arith]

theorem evalMBody_ofKBody (kb : KBody) (ins : List Val) : evalMBody kb.toMBody ins = evalKBody kb ins := by
  simp only [evalMBody, evalKBody, KBody.toMBody, evalMOps, stepMOp, stepKernel]
  split
  · cases lookupAll ins kb.operands with
    | none => simp
    | some vs =>
      cases ins.getLast? with
      | none => simp
      | some acc =>
        simp only [Option.bind_some]
        split
        · cases kernelSpec kb.kernel (vs ++ [acc]) <;> simp
        · simp
  · rfl

theorem lowerLinalgBody_some {b : MBody} {r : Body} (h : lowerLinalgBody b = some r) :
    ∃ kb : KBody, b = kb.toMBody ∧ kb.kernel.isParsable = true ∧ r = expand kb := by
  obtain ⟨args, ops, ret⟩ := b
  unfold lowerLinalgBody at h
  split at h
  · next k operands opTypes resWidth hops =>
    split at h
    · next hp =>
      simp only [Option.some.injEq] at h
      simp only at hops
      exact ⟨⟨args, k, operands, opTypes, resWidth, ret⟩, by simp [KBody.toMBody, hops], hp, by simp [expand, h]⟩
    · cases h
  · cases h

/-! ## rescale -/

theorem trunc_sshiftRight_signExtend (T : BitVec 32) :
    ((T.signExtend 64).sshiftRight 1).setWidth 32 = T.sshiftRight 1 := by
  ext i hi
  simp only [BitVec.getElem_setWidth, BitVec.getLsbD_sshiftRight, BitVec.getElem_sshiftRight]
  have h2 : 1 + i < 64 := by omega
  have h3 : ¬ (64 ≤ i) := by omega
  by_cases h : 1 + i < 32
  · simp [h, h2, h3]
    rw [BitVec.getElem_signExtend]; simp [h]
  · simp [h, h2, h3]
    rw [BitVec.getElem_signExtend]; simp [h]

theorem toNat_ofInt_shift {s : Int} (h1 : 1 ≤ s) (h2 : s ≤ 63) : (BitVec.ofInt 64 s).toNat = s.toNat := by
  rw [BitVec.toNat_ofInt, Int.emod_eq_of_lt (by omega) (by simp; omega)]

theorem clamp_comm (t mn mx : BitVec 32) (h : mx.slt mn = false) :
    (if mn.slt (if t.slt mx then t else mx) then (if t.slt mx then t else mx) else mn) =
    (if mx.slt (if t.slt mn then mn else t) then mx else (if t.slt mn then mn else t)) := by
  have e : ∀ {a b : BitVec 32}, a.toInt = b.toInt → a = b := BitVec.eq_of_toInt_eq
  simp only [BitVec.slt_eq_decide, decide_eq_false_iff_not, Int.not_lt] at h
  by_cases h1 : t.toInt < mx.toInt <;> by_cases h2 : t.toInt < mn.toInt
  · have h3 : ¬ (mn.toInt < t.toInt) := by omega
    simp [BitVec.slt_eq_decide, h1, h2, h3]
    omega
  · by_cases h3 : mn.toInt < t.toInt
    · have h4 : ¬ (mx.toInt < t.toInt) := by omega
      simp [BitVec.slt_eq_decide, h1, h2, h3, h4]
    · have h4 : ¬ (mx.toInt < t.toInt) := by omega
      simp [BitVec.slt_eq_decide, h1, h2, h3, h4]
      exact e (by omega)
  · omega
  · by_cases h3 : mn.toInt < mx.toInt
    · by_cases h4 : mx.toInt < t.toInt
      · simp [BitVec.slt_eq_decide, h1, h2, h3, h4]
      · simp [BitVec.slt_eq_decide, h1, h2, h3, h4]
        exact e (by omega)
    · by_cases h4 : mx.toInt < t.toInt
      · simp [BitVec.slt_eq_decide, h1, h2, h3, h4]
        exact e (by omega)
      · simp [BitVec.slt_eq_decide, h1, h2, h3, h4]
        exact e (by omega)

theorem lowerLinalgBodyFixed_some {b : MBody} {r : Body} (h : lowerLinalgBodyFixed b = some r) :
    ∃ kb : KBody, b = kb.toMBody ∧ kb.kernel.isParsable = true ∧ kb.canonical = true ∧ r = expand kb := by
  obtain ⟨args, ops, ret⟩ := b
  unfold lowerLinalgBodyFixed at h
  split at h
  · next k operands opTypes resWidth hops =>
    split at h
    · next hp =>
      simp only [Option.some.injEq] at h
      simp only at hops
      simp only [Bool.and_eq_true] at hp
      exact ⟨⟨args, k, operands, opTypes, resWidth, ret⟩, by simp [KBody.toMBody, hops], hp.1, hp.2, by simp [expand, h]⟩
    · cases h
  · cases h

/-! ## fixed rescale lowering -/

theorem toNat_ofInt_shift0 {s : Int} (h1 : 0 ≤ s) (h2 : s ≤ 63) : (BitVec.ofInt 64 s).toNat = s.toNat := by
  rw [BitVec.toNat_ofInt, Int.emod_eq_of_lt (by omega) (by simp; omega)]

theorem uniformParam_getElem {l : List Int} {s : Int} (h : uniformParam l = some s) (i : Nat) (hi : i < l.length) :
    l[i]? = some s := by
  cases l with
  | nil => simp [uniformParam] at h
  | cons a t =>
    simp only [uniformParam] at h
    split at h
    · next hall =>
      cases h
      cases i with
      | zero => rfl
      | succ j =>
        simp only [List.length_cons, Nat.add_lt_add_iff_right] at hi
        simp only [List.getElem?_cons_succ, List.getElem?_eq_getElem hi, Option.some.injEq]
        have := List.all_eq_true.mp hall t[j] (List.getElem_mem hi)
        simpa using this
    · cases h

theorem uniformParam_mem {l : List Int} {s : Int} (h : uniformParam l = some s) : s ∈ l := by
  cases l with
  | nil => simp [uniformParam] at h
  | cons a t =>
    simp only [uniformParam] at h
    split at h
    · cases h; simp
    · cases h

theorem double_round_eq (t : BitVec 32) :
    t + (if t.slt 0#32 then BitVec.ofInt 32 (-1) else BitVec.ofInt 32 1) = if (0#32).sle t then t + 1#32 else t - 1#32 := by
  by_cases hn : t.toInt < 0
  · have h1 : t.slt 0#32 = true := by simp [BitVec.slt_eq_decide, hn]
    have h2 : (0#32).sle t = false := by simp [BitVec.sle_eq_decide]; omega
    simp only [h1, h2, if_true, Bool.false_eq_true, if_false]
    rw [BitVec.sub_eq_add_neg]; rfl
  · have h1 : t.slt 0#32 = false := by simp [BitVec.slt_eq_decide]; omega
    have h2 : (0#32).sle t = true := by simp [BitVec.sle_eq_decide]; omega
    simp only [h1, h2, if_true, Bool.false_eq_true, if_false]
    rfl


theorem clip_bounds (t mn mx : BitVec 32) (h : mx.slt mn = false) :
    let r := (if mx.slt (if t.slt mn then mn else t) then mx else (if t.slt mn then mn else t))
    r.slt mn = false ∧ mx.slt r = false := by
  simp only [BitVec.slt_eq_decide, decide_eq_false_iff_not, Int.not_lt] at h ⊢
  by_cases h1 : t.toInt < mn.toInt <;> by_cases h2 : mx.toInt < t.toInt <;> by_cases h3 : mx.toInt < mn.toInt <;>
    simp [h1, h2, h3] <;> omega

theorem signExtend_exact (r : BitVec 32) (wr : Nat) (hpos : 0 < wr)
    (hlo : -((2 ^ (wr - 1) : Nat) : Int) ≤ r.toInt) (hhi : r.toInt < ((2 ^ (wr - 1) : Nat) : Int)) :
    (r.signExtend wr).toInt = r.toInt := by
  by_cases h : 32 ≤ wr
  · exact BitVec.toInt_signExtend_of_le h
  · rw [BitVec.toInt_signExtend, Nat.min_eq_left (by omega)]
    have hp : (2 : Nat) ^ wr = 2 * 2 ^ (wr - 1) := by
      obtain ⟨k, rfl⟩ : ∃ k, wr = k + 1 := ⟨wr - 1, by omega⟩
      simp [Nat.pow_succ, Nat.mul_comm]
    apply Int.bmod_eq_of_le
    · rw [hp]; omega
    · rw [hp]; omega


/-! ## a region that evaluates and yields the output type is a well-typed kernel instance -/

theorem region_eval_typed (k : Kernel) (ins outs : List Val) (hk : k.isParsable = true)
    (hlen : k.nOperands + 1 = ins.length)
    (h : evalBody (equivalentRegion k (ins.map Val.w)) ins = some outs)
    (hout : outs.map Val.w = [(ins.map Val.w).getLastD 0]) : kernelTyped k (ins.map Val.w) = true := by
  cases k
  · rcases ins with _ | ⟨⟨wa, a⟩, _ | ⟨⟨wb, b⟩, _ | ⟨⟨wc, c⟩, _ | ⟨d, t⟩⟩⟩⟩ <;> simp [Kernel.nOperands] at hlen
    simp [evalBody, equivalentRegion, evalOps, stepOp, lookupAll, lookup, evalOp, arithBin, cmpop, binop] at h
    by_cases hy : wb = wa
    · subst hy; simp at h; subst h; simp at hout; simp [kernelTyped, hout]
    · simp [hy] at h
  · rcases ins with _ | ⟨⟨wa, a⟩, _ | ⟨⟨wb, b⟩, _ | ⟨⟨wc, c⟩, _ | ⟨d, t⟩⟩⟩⟩ <;> simp [Kernel.nOperands] at hlen
    simp [evalBody, equivalentRegion, evalOps, stepOp, lookupAll, lookup, evalOp, arithBin, cmpop, binop] at h
    by_cases hy : wb = wa
    · subst hy; simp at h; subst h; simp at hout; simp [kernelTyped, hout]
    · simp [hy] at h
  · rcases ins with _ | ⟨⟨wa, a⟩, _ | ⟨⟨wb, b⟩, _ | ⟨⟨wc, c⟩, _ | ⟨d, t⟩⟩⟩⟩ <;> simp [Kernel.nOperands] at hlen
    by_cases hac : wa = wc
    · subst hac
      simp [evalBody, equivalentRegion, evalOps, stepOp, lookupAll, lookup, evalOp, arithBin, cmpop, binop] at h
      by_cases hy : wb = wa
      · simp [kernelTyped, hy]
      · simp [hy] at h
    · simp [evalBody, equivalentRegion, evalOps, stepOp, lookupAll, lookup, evalOp, arithBin, cmpop, binop, unop, hac] at h
      by_cases h1 : wa < wc <;> by_cases h2 : wb < wc <;> simp [h1, h2] at h
      simp [kernelTyped, h1, h2]
  · rcases ins with _ | ⟨⟨wa, a⟩, _ | ⟨⟨wb, b⟩, _ | ⟨⟨wza, za⟩, _ | ⟨⟨wzb, zb⟩, _ | ⟨⟨wc, c⟩, _ | ⟨d, t⟩⟩⟩⟩⟩⟩ <;>
      simp [Kernel.nOperands] at hlen
    simp [evalBody, equivalentRegion, evalOps, stepOp, lookupAll, lookup, evalOp, arithBin, cmpop, binop, unop] at h
    by_cases h1 : wa < wza <;> by_cases h2 : wb < wzb <;> simp [h1, h2] at h
    by_cases h3 : wzb = wza
    · subst h3
      simp at h
      by_cases h4 : wzb = wc
      · subst h4; simp [kernelTyped, h1, h2]
      · simp [h4] at h
    · simp [h3] at h
  · simp [Kernel.isParsable] at hk

theorem evalBody_some_widths {b : Body} {ins outs : List Val} (h : evalBody b ins = some outs) :
    ins.map Val.w = b.args := by
  unfold evalBody at h
  split at h
  · assumption
  · cases h

theorem recognize_shape {b : Body} {k : Kernel} (h : recognize true b = some k) :
    k.isParsable = true ∧ k.nOperands + 1 = b.args.length := by
  have hp := List.find?_some h
  have hm := List.mem_of_find?_eq_some h
  simp only [Bool.and_eq_true, beq_iff_eq] at hp
  have h1 : k.isParsable = true := by
    simp only [Kernel.parsable, List.mem_cons, List.not_mem_nil, or_false] at hm
    rcases hm with rfl | rfl | rfl | rfl <;> rfl
  refine ⟨h1, ?_⟩
  have : 1 ≤ k.nOperands := by cases k <;> simp [Kernel.nOperands]
  omega

/-! ## pipeline helpers -/

theorem take_append_getLastD : ∀ (l : List Nat), l ≠ [] → l.take (l.length - 1) ++ [l.getLastD 0] = l
  | [], h => absurd rfl h
  | [a], _ => rfl
  | a :: b :: t, _ => by
    have ih := take_append_getLastD (b :: t) (by simp)
    simp only [List.length_cons, Nat.add_sub_cancel, List.take_succ_cons, List.cons_append, List.cons.injEq, true_and]
    simp only [List.length_cons, Nat.add_sub_cancel] at ih
    simpa [List.getLastD] using ih

theorem KBody.toMBody_inj {a b : KBody} (h : a.toMBody = b.toMBody) : a = b := by
  cases a; cases b
  simp only [KBody.toMBody, MBody.mk.injEq, List.cons.injEq, MOp.kern.injEq, and_true] at h
  obtain ⟨h1, ⟨h2, h3, h4, h5⟩, h6⟩ := h
  subst h1 h2 h3 h4 h5 h6
  rfl


/-! ## the matcher's dictionary is the identity on value numbers -/

theorem initMap_self (n : Nat) : initMap n n = idMap n := by
  funext i; simp [initMap, idMap]

theorem updMap_idMap (k : Nat) : updMap (idMap k) k k = idMap (k + 1) := by
  funext i
  simp only [updMap, idMap]
  by_cases h : i = k
  · simp [h]
  · have : (i < k + 1) = (i < k) := by simp; omega
    simp [h, this]

theorem refGet_idMap_iff {k : Nat} {r' r : Ref} (hr : scopedRefs k [r] = true) :
    refGet (idMap k) r' = some r ↔ mapRef r' = some r := by
  cases r' with
  | outer w c => simp [refGet, mapRef]
  | val i =>
    simp only [refGet, mapRef, idMap]
    constructor
    · intro h
      by_cases hi : i < k
      · simpa [hi] using h
      · simp [hi] at h
    · intro h
      simp only [Option.some.injEq] at h
      subst h
      simp [scopedRefs] at hr
      simp [hr]

theorem map_refGet_iff {k : Nat} : ∀ {l' l : List Ref}, scopedRefs k l = true →
    (l'.map (refGet (idMap k)) = l.map some ↔ l'.map mapRef = l.map some)
  | [], [], _ => by simp
  | [], _ :: _, _ => by simp
  | _ :: _, [], _ => by simp
  | r' :: l', r :: l, h => by
    have h1 : scopedRefs k [r] = true := by simp [scopedRefs] at h ⊢; exact h.1
    have h2 : scopedRefs k l = true := by simp [scopedRefs] at h ⊢; exact h.2
    simp only [List.map_cons, List.cons.injEq, refGet_idMap_iff h1, map_refGet_iff h2]

theorem scopedRefs_reverse (k : Nat) (l : List Ref) : scopedRefs k l.reverse = scopedRefs k l := by
  simp [scopedRefs, List.all_reverse]

theorem opMatchDict_idMap {k : Nat} {a b : BOp} (hb : scopedRefs k b.args = true) :
    opMatchDict (idMap k) a b = opMatch true a b := by
  have e1 : (a.args.map (refGet (idMap k)) == b.args.map some) = (a.args.map mapRef == b.args.map some) := by
    rw [Bool.eq_iff_iff]; simp only [beq_iff_eq]; exact map_refGet_iff hb
  have e2 : ((a.args.map (refGet (idMap k))).reverse == b.args.map some) =
      ((a.args.map mapRef).reverse == b.args.map some) := by
    rw [Bool.eq_iff_iff]; simp only [beq_iff_eq]
    rw [← List.map_reverse, ← List.map_reverse]
    constructor
    · intro h
      have := (map_refGet_iff (l' := a.args.reverse) (l := b.args) hb).mp h
      exact this
    · intro h
      exact (map_refGet_iff (l' := a.args.reverse) (l := b.args) hb).mpr h
  simp [opMatchDict, opMatch, e1, e2]

theorem opsMatchDict_idMap : ∀ (k : Nat) (as bs : List BOp), scopedOps k bs = true →
    opsMatchDict (idMap k) k k as bs = if all2 (opMatch true) as bs then some (idMap (k + as.length)) else none
  | k, [], [], _ => by simp [opsMatchDict, all2]
  | k, [], _ :: _, _ => by simp [opsMatchDict, all2]
  | k, _ :: _, [], _ => by simp [opsMatchDict, all2]
  | k, a :: as, b :: bs, h => by
    simp only [scopedOps, Bool.and_eq_true] at h
    simp only [opsMatchDict, opMatchDict_idMap h.1, updMap_idMap, all2]
    by_cases hm : opMatch true a b = true
    · simp only [hm, if_true, Bool.true_and]
      rw [opsMatchDict_idMap (k + 1) as bs h.2]
      simp [Nat.add_assoc, Nat.add_comm 1]
    · simp [hm]


/-- the kernel regions are in SSA form (for the argument count the pass builds them with) -/
theorem region_wellScoped (k : Kernel) (tys : List Nat) (h : tys.length = k.nOperands + 1) :
    (equivalentRegion k tys).wellScoped = true := by
  cases k <;> simp only [Kernel.nOperands] at h
  · rcases tys with _ | ⟨a, _ | ⟨b, _ | ⟨c, _ | ⟨d, t⟩⟩⟩⟩ <;> simp at h
    simp [equivalentRegion, Body.wellScoped, scopedOps, scopedRefs]
  · rcases tys with _ | ⟨a, _ | ⟨b, _ | ⟨c, _ | ⟨d, t⟩⟩⟩⟩ <;> simp at h
    simp [equivalentRegion, Body.wellScoped, scopedOps, scopedRefs]
  · rcases tys with _ | ⟨a, _ | ⟨b, _ | ⟨c, _ | ⟨d, t⟩⟩⟩⟩ <;> simp at h
    simp only [equivalentRegion, List.getD_cons_zero, List.getD_cons_succ]
    split <;> simp [Body.wellScoped, scopedOps, scopedRefs]
  · rcases tys with _ | ⟨a, _ | ⟨b, _ | ⟨za, _ | ⟨zb, _ | ⟨c, _ | ⟨d, t⟩⟩⟩⟩⟩⟩ <;> simp at h
    simp [equivalentRegion, Body.wellScoped, scopedOps, scopedRefs]
  · rcases tys with _ | ⟨a, _ | ⟨b, _ | ⟨c, t⟩⟩⟩ <;> simp at h
    simp [equivalentRegion, Body.wellScoped, scopedOps, scopedRefs]


theorem findAccFixed_some {k : Kernel} {tys : List Nat} {a : Acc} : ∀ {l : List Acc},
    findAccFixed k tys l = some a → a ∈ l ∧ matchSupportedFixed k tys a.supported = true
  | [], h => by simp [findAccFixed] at h
  | x :: rest, h => by
    unfold findAccFixed at h
    split at h
    · next hm =>
      simp only [Option.some.injEq] at h
      subst h
      exact ⟨by simp, hm⟩
    · obtain ⟨h1, h2⟩ := findAccFixed_some h
      exact ⟨by simp [h1], h2⟩

end SnaxVerif.Kernel
