import SnaxVerif.Model.Dispatch
/-! C13 through C14's model of `dispatch-regions`: a function without core guards (any function before the pass)
is executed identically by every core. -/
namespace SnaxVerif.Dispatch

mutual
/-- no `scf.if` on the core id anywhere (the form of a function before `dispatch-regions`) -/
def gfO : Op → Bool
  | .leaf _ => true
  | .guard _ _ => false
  | .reg _ _ rs => gfRs rs
def gfB : Blk → Bool
  | .nil => true
  | .cons o r => gfO o && gfB r
def gfRs : Regs → Bool
  | .nil => true
  | .cons b rs => gfB b && gfRs rs
end

mutual
theorem runO_gf (c1 c2 : Nat) (orc : Orc) : (o : Op) → gfO o = true → runO c1 orc o = runO c2 orc o
  | .leaf _, _ => by simp [runO]
  | .guard _ _, h => by simp [gfO] at h
  | .reg k kind rs, h => by
    simp only [gfO] at h
    funext p
    simp only [runO]
    rw [runRs_gf c1 c2 orc rs h]
theorem runB_gf (c1 c2 : Nat) (orc : Orc) : (b : Blk) → gfB b = true → runB c1 orc b = runB c2 orc b
  | .nil, _ => by simp [runB]
  | .cons o r, h => by
    simp only [gfB, Bool.and_eq_true] at h
    funext p
    simp only [runB]
    rw [runO_gf c1 c2 orc o h.1, runB_gf c1 c2 orc r h.2]
theorem runRs_gf (c1 c2 : Nat) (orc : Orc) : (rs : Regs) → gfRs rs = true → runRs c1 orc rs = runRs c2 orc rs
  | .nil, _ => by simp [runRs]
  | .cons b rs, h => by
    simp only [gfRs, Bool.and_eq_true] at h
    simp only [runRs]
    rw [runB_gf c1 c2 orc b h.1, runRs_gf c1 c2 orc rs h.2]
end

theorem runBlocks_gf (c1 c2 : Nat) (orc : Orc) (bs : List BB) (h : ∀ bb ∈ bs, gfB bb.body = true) :
    ∀ (fuel cur : Nat), runBlocks c1 orc bs fuel cur = runBlocks c2 orc bs fuel cur := by
  intro fuel
  induction fuel with
  | zero => intro cur; simp [runBlocks]
  | succ n ih =>
    intro cur
    simp only [runBlocks]
    cases hb : bs[cur]? with
    | none => rfl
    | some bb =>
      have hm : bb ∈ bs := List.mem_of_getElem? hb
      simp only
      rw [runB_gf c1 c2 orc bb.body (h bb hm)]
      cases bb.term with
      | ret => rfl
      | br t => simp only [ih t]
      | cbr k t e => simp only [ih t, ih e]

/-- a function as it is before `dispatch-regions` (no core-id prelude, no guard): every core executes the same
sequence of operations, whatever the control flow does -/
theorem runF_guard_free (f : Func) (hpre : f.pre = []) (h : ∀ bb ∈ f.blocks, gfB bb.body = true)
    (c1 c2 : Nat) (orc : Orc) (fuel entry : Nat) : runF c1 orc f fuel entry = runF c2 orc f fuel entry := by
  simp only [runF, coreOf, hpre, List.findSome?_nil, Option.getD_none]
  exact runBlocks_gf c1 c2 orc f.blocks h fuel entry

end SnaxVerif.Dispatch
