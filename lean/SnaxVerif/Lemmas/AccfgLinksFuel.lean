import SnaxVerif.Lemmas.AccfgLinks
/-! An explicit fuel for `inferL`: on an owner table that passes the decidable checks `rankedChk` (links decrease, except
the yield operand of a block argument) and `closedChk` (every link target has an owner), `(K + 1) * K` — hence `fuelOf` —
suffices. Measure: (number of block arguments not yet assumed) * K + id; assuming a block argument pays for the one
increasing link. -/
namespace SnaxVerif.AccfgLinks
open SnaxVerif.Accfg

def isArgDef : Option LDef → Bool
  | some (.forArg _ _) => true
  | _ => false

/-- block arguments below `K` that `A` does not assume -/
def openArgs (D : StateId → Option LDef) (K : Nat) (A : List (StateId × LState)) : Nat :=
  ((List.range K).filter fun w => isArgDef (D w) && (A.lookup w).isNone).length

theorem length_filter_le_of_imp {α} (p q : α → Bool) (h : ∀ x, q x = true → p x = true) :
    ∀ l : List α, (l.filter q).length ≤ (l.filter p).length
  | [] => by simp
  | x :: r => by
    have ih := length_filter_le_of_imp p q h r
    simp only [List.filter_cons]
    cases hq : q x with
    | true => simp only [h x hq, if_true, List.length_cons]; omega
    | false =>
      cases hp : p x with
      | true => simp only [Bool.false_eq_true, if_false, if_true, List.length_cons]; omega
      | false => simpa using ih

theorem length_filter_lt_of_imp {α} (p q : α → Bool) (h : ∀ x, q x = true → p x = true) (v : α) (hp : p v = true)
    (hq : q v = false) : ∀ l : List α, v ∈ l → (l.filter q).length < (l.filter p).length
  | [], hv => by simp at hv
  | x :: r, hv => by
    simp only [List.filter_cons]
    rcases List.mem_cons.mp hv with rfl | hv
    · have := length_filter_le_of_imp p q h r
      simp only [hp, hq, Bool.false_eq_true, if_false, if_true, List.length_cons]; omega
    · have ih := length_filter_lt_of_imp p q h v hp hq r hv
      cases hqx : q x with
      | true => simp only [h x hqx, if_true, List.length_cons]; omega
      | false =>
        cases hpx : p x with
        | true => simp only [Bool.false_eq_true, if_false, if_true, List.length_cons]; omega
        | false => simpa using ih

theorem openArgs_le (D : StateId → Option LDef) (K : Nat) (A : List (StateId × LState)) : openArgs D K A ≤ K := by
  have := List.length_filter_le (fun w => isArgDef (D w) && (A.lookup w).isNone) (List.range K)
  simpa [openArgs] using this

theorem openArgs_assume (D : StateId → Option LDef) (K : Nat) (A : List (StateId × LState)) (v : StateId) (x : LState)
    (hv : v < K) (hd : isArgDef (D v) = true) (hA : A.lookup v = none) :
    openArgs D K ((v, x) :: A) + 1 ≤ openArgs D K A := by
  have := length_filter_lt_of_imp (fun w => isArgDef (D w) && (A.lookup w).isNone)
    (fun w => isArgDef (D w) && (((v, x) :: A).lookup w).isNone)
    (by
      intro w hw
      simp only [Bool.and_eq_true] at hw ⊢
      refine ⟨hw.1, ?_⟩
      have h2 := hw.2
      simp only [List.lookup] at h2
      cases hb : (w == v) with
      | true => simp [hb] at h2
      | false => simpa [hb] using h2)
    v (by simp [hd, hA]) (by simp [List.lookup]) (List.range K) (List.mem_range.mpr hv)
  simp only [openArgs]; omega

/-- the properties of an owner table the fuel bound needs -/
structure Ranked (D : StateId → Option LDef) (K : Nat) : Prop where
  lt : ∀ v d, D v = some d → v < K
  setup : ∀ v i fs, D v = some (.setup (some i) fs) → i < v ∧ D i ≠ none
  ifRes : ∀ v t e, D v = some (.ifRes t e) → (t < v ∧ D t ≠ none) ∧ (e < v ∧ D e ≠ none)
  forRes : ∀ v i y, D v = some (.forRes i y) → (i < v ∧ D i ≠ none) ∧ (y < v ∧ D y ≠ none)
  forArg : ∀ v i y, D v = some (.forArg i y) → (i < v ∧ D i ≠ none) ∧ (y < K ∧ D y ≠ none)

theorem inferL_enough (D : StateId → Option LDef) (K : Nat) (hR : Ranked D K) :
    ∀ (μ : Nat) (A : List (StateId × LState)) (v : StateId), openArgs D K A * K + v ≤ μ → D v ≠ none →
      ∃ s, inferL D (μ + 1) A v = some s := by
  intro μ
  induction μ using Nat.strongRecOn with
  | _ μ ih =>
    intro A v hμ hD
    rw [inferL]
    cases hA : A.lookup v with
    | some s => exact ⟨s, rfl⟩
    | none =>
      cases hDv : D v with
      | none => exact absurd hDv hD
      | some d =>
        have hvK := hR.lt v d hDv
        -- a link to a smaller id under the same assumptions
        have down : ∀ i : StateId, i < v → D i ≠ none → ∃ s, inferL D μ A i = some s := by
          intro i hi hDi
          obtain ⟨k, rfl⟩ : ∃ k, μ = k + 1 := ⟨μ - 1, by somega⟩
          exact ih k (by somega) A i (by somega) hDi
        cases d with
        | setup inp fs =>
          cases inp with
          | none => exact ⟨_, rfl⟩
          | some i =>
            obtain ⟨h1, h2⟩ := hR.setup v i fs hDv
            obtain ⟨s, hs⟩ := down i h1 h2
            exact ⟨dupdate s fs, by simp [hs]⟩
        | ifRes t e =>
          obtain ⟨⟨h1, h2⟩, ⟨h3, h4⟩⟩ := hR.ifRes v t e hDv
          obtain ⟨s1, hs1⟩ := down t h1 h2
          obtain ⟨s2, hs2⟩ := down e h3 h4
          exact ⟨dinter s1 s2, by simp [hs1, hs2]⟩
        | forRes i y =>
          obtain ⟨⟨h1, h2⟩, ⟨h3, h4⟩⟩ := hR.forRes v i y hDv
          obtain ⟨s1, hs1⟩ := down i h1 h2
          obtain ⟨s2, hs2⟩ := down y h3 h4
          exact ⟨dinter s1 s2, by simp [hs1, hs2]⟩
        | forArg i y =>
          obtain ⟨⟨h1, h2⟩, ⟨h3, h4⟩⟩ := hR.forArg v i y hDv
          obtain ⟨s1, hs1⟩ := down i h1 h2
          have hopen := openArgs_assume D K A v s1 hvK (by simp [isArgDef, hDv]) hA
          have hmul : openArgs D K ((v, s1) :: A) * K + K ≤ openArgs D K A * K := by
            have := Nat.mul_le_mul_right K hopen
            rwa [Nat.succ_mul] at this
          obtain ⟨k, rfl⟩ : ∃ k, μ = k + 1 := ⟨μ - 1, by somega⟩
          obtain ⟨s2, hs2⟩ := ih k (by somega) ((v, s1) :: A) y (by somega) h4
          exact ⟨dinter s1 s2, by simp [hs1, hs2]⟩

theorem mem_of_lookup {α} : ∀ (l : List (Nat × α)) (k : Nat) (d : α), l.lookup k = some d → (k, d) ∈ l
  | [], _, _, h => by simp [List.lookup] at h
  | (g, y) :: r, k, d, h => by
    simp only [List.lookup] at h
    cases hb : (k == g) with
    | true =>
      simp only [hb] at h
      have : k = g := by simpa using hb
      subst this; cases h; simp
    | false =>
      simp only [hb] at h
      exact List.mem_cons_of_mem _ (mem_of_lookup r k d h)

theorem ranked_of_chk (l : List (StateId × LDef)) (K : Nat) (hr : rankedChk l K = true) (hc : closedChk l = true) :
    Ranked (fun v => l.lookup v) K := by
  simp only [rankedChk, List.all_eq_true, Bool.and_eq_true, decide_eq_true_eq] at hr
  simp only [closedChk, List.all_eq_true] at hc
  have hdef : ∀ v d t, l.lookup v = some d → t ∈ ldefTargets d → l.lookup t ≠ none := by
    intro v d t hv ht hn
    have := hc (v, d) (mem_of_lookup l v d hv) t ht
    simp [hn] at this
  refine ⟨?_, ?_, ?_, ?_, ?_⟩
  · intro v d hv
    exact (hr (v, d) (mem_of_lookup l v d hv)).1
  · intro v i fs hv
    have := (hr _ (mem_of_lookup l v _ hv)).2
    exact ⟨by simpa using this, hdef v _ i hv (by simp [ldefTargets])⟩
  · intro v t e hv
    have := (hr _ (mem_of_lookup l v _ hv)).2
    simp only [Bool.and_eq_true, decide_eq_true_eq] at this
    exact ⟨⟨this.1, hdef v _ t hv (by simp [ldefTargets])⟩, ⟨this.2, hdef v _ e hv (by simp [ldefTargets])⟩⟩
  · intro v i y hv
    have := (hr _ (mem_of_lookup l v _ hv)).2
    simp only [Bool.and_eq_true, decide_eq_true_eq] at this
    exact ⟨⟨this.1, hdef v _ i hv (by simp [ldefTargets])⟩, ⟨this.2, hdef v _ y hv (by simp [ldefTargets])⟩⟩
  · intro v i y hv
    have := (hr _ (mem_of_lookup l v _ hv)).2
    simp only [Bool.and_eq_true, decide_eq_true_eq] at this
    exact ⟨⟨this.1, hdef v _ i hv (by simp [ldefTargets])⟩, ⟨this.2, hdef v _ y hv (by simp [ldefTargets])⟩⟩

/-- `fuelOf` is enough for every state value of a traced program whose owner table passes the two decidable checks -/
theorem fuelOf_enough (L : LBlock) (hr : rankedChk (ldefsB L) (ldefsB L).length = true)
    (hc : closedChk (ldefsB L) = true) (v : StateId) (hv : tableOf L v ≠ none) :
    ∃ s, inferL (tableOf L) (fuelOf L) [] v = some s := by
  have hR := ranked_of_chk (ldefsB L) (ldefsB L).length hr hc
  cases hd : tableOf L v with
  | none => exact absurd hd hv
  | some d =>
    have hvK : v < (ldefsB L).length := hR.lt v d hd
    have hopen := openArgs_le (tableOf L) (ldefsB L).length []
    obtain ⟨s, hs⟩ := inferL_enough (tableOf L) (ldefsB L).length hR
      (openArgs (tableOf L) (ldefsB L).length [] * (ldefsB L).length + v) [] v (Nat.le_refl _) hv
    refine ⟨s, inferL_mono_le _ ?_ hs⟩
    simp only [fuelOf]
    have h1 : openArgs (tableOf L) (ldefsB L).length [] * (ldefsB L).length ≤ (ldefsB L).length * (ldefsB L).length :=
      Nat.mul_le_mul_right _ hopen
    have e1 : ((ldefsB L).length + 2) * ((ldefsB L).length + 2) =
        ((ldefsB L).length + 2) * (ldefsB L).length + ((ldefsB L).length + 2) * 2 := Nat.mul_add _ _ _
    have e2 : (ldefsB L).length * (ldefsB L).length ≤ ((ldefsB L).length + 2) * (ldefsB L).length :=
      Nat.mul_le_mul_right _ (by omega)
    somega

end SnaxVerif.AccfgLinks
