import SnaxVerif.Lemmas.PipelineTrace
import SnaxVerif.Lemmas.PipelineSlots
/-! C15: every barrier-respecting schedule of the pipelined events ends in the memory of the sequential order. -/
namespace SnaxVerif.Pipeline

def Ev.Valid (p : Prog) (N : Nat) (e : Ev) : Prop :=
  e.n < N ∧ e.k < p.stages.length ∧ e.o < (p.stages.getD e.k []).length

def lexLt (a b : Ev) : Prop := a.n < b.n ∨ (a.n = b.n ∧ (a.k < b.k ∨ (a.k = b.k ∧ a.o < b.o)))

theorem mem_stageEvents {p : Prog} {k n : Nat} {e : Ev} :
    e ∈ stageEvents p k n ↔ e.k = k ∧ e.n = n ∧ e.o < (p.stages.getD k []).length := by
  simp only [stageEvents, List.mem_map, List.mem_range]
  constructor
  · rintro ⟨o, ho, rfl⟩
    exact ⟨rfl, rfl, ho⟩
  · rintro ⟨rfl, rfl, ho⟩
    exact ⟨e.o, ho, rfl⟩

theorem mem_seqEvents {p : Prog} {N : Nat} {e : Ev} : e ∈ seqEvents p N ↔ e.Valid p N := by
  simp only [seqEvents, List.mem_flatMap, List.mem_range, mem_stageEvents, Ev.Valid]
  constructor
  · rintro ⟨n, hn, k, hk, rfl, rfl, ho⟩
    exact ⟨hn, hk, ho⟩
  · rintro ⟨hn, hk, ho⟩
    exact ⟨e.n, hn, e.k, hk, rfl, rfl, ho⟩

theorem mem_pipeEvents {p : Prog} {N : Nat} {e : Ev} : e ∈ pipeEvents p N ↔ e.Valid p N := by
  simp only [pipeEvents, slots, List.mem_flatMap, List.mem_map, List.mem_range, mem_stageEvents, Ev.Valid]
  constructor
  · rintro ⟨s, ⟨t, _, rfl⟩, ⟨k, n⟩, hkn, rfl, rfl, ho⟩
    have := mem_slot.mp hkn
    exact ⟨this.2.1, this.1, ho⟩
  · rintro ⟨hn, hk, ho⟩
    refine ⟨slot p.stages.length N (e.n + e.k), ⟨e.n + e.k, by omega, rfl⟩, (e.k, e.n), ?_, rfl, rfl, ho⟩
    exact mem_slot.mpr ⟨hk, hn, rfl⟩

theorem seq_sorted (p : Prog) (N : Nat) : (seqEvents p N).Pairwise lexLt := by
  unfold seqEvents
  rw [List.pairwise_flatMap]
  constructor
  · intro n _
    rw [List.pairwise_flatMap]
    constructor
    · intro k _
      unfold stageEvents
      rw [List.pairwise_map]
      exact (List.pairwise_lt_range).imp (fun h => Or.inr ⟨rfl, Or.inr ⟨rfl, h⟩⟩)
    · exact (List.pairwise_lt_range).imp (fun {k k'} h x hx y hy => by
        have hx := mem_stageEvents.mp hx
        have hy := mem_stageEvents.mp hy
        exact Or.inr ⟨by rw [hx.2.1, hy.2.1], Or.inl (by rw [hx.1, hy.1]; exact h)⟩)
  · exact (List.pairwise_lt_range).imp (fun {n n'} h x hx y hy => by
      obtain ⟨k, _, hx⟩ := List.mem_flatMap.mp hx
      obtain ⟨k', _, hy⟩ := List.mem_flatMap.mp hy
      have hx := mem_stageEvents.mp hx
      have hy := mem_stageEvents.mp hy
      exact Or.inl (by rw [hx.2.1, hy.2.1]; exact h))

theorem lexLt_irrefl (a : Ev) : ¬ lexLt a a := by
  unfold lexLt
  omega

theorem seq_nodup (p : Prog) (N : Nat) : (seqEvents p N).Nodup :=
  (seq_sorted p N).imp (fun {a b} h => by
    rintro rfl
    exact lexLt_irrefl a h)

/-- events of an earlier stage on a later iteration that overtake a later stage's earlier iteration in the pipeline
(they share a slot or swap order) must be independent -/
def NoBadConflict (p : Prog) (N : Nat) : Prop :=
  ∀ a b : Ev, a.Valid p N → b.Valid p N → a.k < b.k → b.n < a.n → a.n - b.n ≤ b.k - a.k → Indep p true a b

/-- a schedule of the pipelined loop: every event of the loop once; events of different slots (`n + k`) in slot
order (barriers); dependent ops of one stage instance in program order -/
structure Schedule (p : Prog) (N : Nat) (l : List Ev) : Prop where
  perm : (seqEvents p N).Perm l
  slotOrder : l.Pairwise (fun a b => a.n + a.k ≤ b.n + b.k)
  progOrder : l.Pairwise (fun a b => a.k = b.k → a.n = b.n → ¬ Indep p true a b → a.o < b.o)

theorem indep_symm {p : Prog} {dbl : Bool} {a b : Ev} (h : Indep p dbl a b) : Indep p dbl b a :=
  ⟨fun x hx => ⟨fun hxa => (h.1 x hxa).1 hx, fun hr => h.2 x hx hr⟩, fun x hx hr => (h.1 x hx).2 hr⟩

theorem pair_of_sublist {R : Ev → Ev → Prop} {l : List Ev} {a b : Ev} (h : l.Pairwise R) (hs : [a, b].Sublist l) : R a b := by
  have := h.sublist hs
  simpa using this

/-- Step B: every schedule computes what the sequential order computes (with the same, parity-selected, buffers) -/
theorem schedule_eq_seq {p : Prog} {N : Nat} {l : List Ev} (hc : NoBadConflict p N) (hs : Schedule p N l) (m : Mem) :
    exec p true l m = exec p true (seqEvents p N) m := by
  rw [exec_eq_runL, exec_eq_runL]
  symm
  apply runL_perm (step p true) _ _ (seq_nodup p N) hs.perm
  intro a b hab hba
  have hlex : lexLt a b := pair_of_sublist (seq_sorted p N) hab
  have hslot := pair_of_sublist hs.slotOrder hba
  have hprog := pair_of_sublist hs.progOrder hba
  have hva : a.Valid p N := mem_seqEvents.mp (hab.subset (by simp))
  have hvb : b.Valid p N := mem_seqEvents.mp (hab.subset (by simp))
  by_cases hind : Indep p true a b
  · exact step_comm hind
  · exfalso
    rcases hlex with h | ⟨hn, h | ⟨hk, ho⟩⟩
    · -- a.n < b.n and slot b ≤ slot a: b is in an earlier stage
      apply hind
      apply indep_symm
      apply hc b a hvb hva <;> omega
    · omega
    · have := hprog hk.symm hn.symm (fun h' => hind (indep_symm h'))
      omega

end SnaxVerif.Pipeline

namespace SnaxVerif.Pipeline

theorem mem_allOps {p : Prog} {N : Nat} {e : Ev} (h : e.Valid p N) : (e.k, p.opAt e) ∈ allOps p := by
  simp only [allOps, List.mem_flatMap, List.mem_range, List.mem_map]
  refine ⟨e.k, h.2.1, p.opAt e, ?_, rfl⟩
  unfold Prog.opAt
  have h3 := h.2.2
  generalize p.stages.getD e.k [] = st at h3 ⊢
  rw [List.getD_eq_getElem?_getD, List.getElem?_eq_getElem h3, Option.getD_some]
  exact List.getElem_mem _

theorem mem_touches_in {p : Prog} {N : Nat} {e : Ev} {v : Opnd} (h : e.Valid p N) (hv : v ∈ (p.opAt e).ins) :
    (e.k, false, v) ∈ touches p := by
  simp only [touches, List.mem_flatMap]
  exact ⟨_, mem_allOps h, List.mem_append_left _ (List.mem_map.mpr ⟨v, hv, rfl⟩)⟩

theorem mem_touches_out {p : Prog} {N : Nat} {e : Ev} {v : Opnd} (h : e.Valid p N) (hv : v ∈ (p.opAt e).outs) :
    (e.k, true, v) ∈ touches p := by
  simp only [touches, List.mem_flatMap]
  exact ⟨_, mem_allOps h, List.mem_append_right _ (List.mem_map.mpr ⟨v, hv, rfl⟩)⟩

theorem pairOK_of_safe {p : Prog} (hs : safeB p = true) {x y : Nat × Bool × Opnd} (hx : x ∈ touches p) (hy : y ∈ touches p)
    (hw : (x.2.1 || y.2.1) = true) : pairOK p.tiles x y = true := by
  have := List.all_eq_true.mp hs x hx
  have := List.all_eq_true.mp this y hy
  simpa [hw] using this

/-- the core of double buffering: operand occurrences that may coexist never resolve to the same location when the
earlier stage runs a later iteration that has caught up with the later stage (distance at most the stage distance) -/
theorem resolve_ne {tiles : List (Nat × Nat × Bool)} {ka kb na nb : Nat} {wa wb : Bool} {v w : Opnd}
    (h1 : pairOK tiles (ka, wa, v) (kb, wb, w) = true) (h2 : pairOK tiles (kb, wb, w) (ka, wa, v) = true)
    (hk : ka < kb) (hn : nb < na) (hd : na - nb ≤ kb - ka) :
    resolve tiles true na v ≠ resolve tiles true nb w := by
  cases v <;> cases w <;> simp only [resolve, ne_eq, Loc.cell.injEq, Loc.buf.injEq, Loc.ext.injEq, reduceCtorEq,
    not_false_eq_true, if_true] <;> simp only [pairOK, tileArr, tileOff, Bool.or_eq_true, bne_iff_ne, ne_eq, beq_iff_eq,
    Bool.and_eq_true] at h1 h2
  · rintro ⟨ha, ho⟩
    rcases h1 with (h | h) | h
    · exact h ha
    · obtain ⟨⟨hi, hi'⟩, hoff⟩ := h
      simp only [Bool.not_eq_true'] at hi hi'
      simp only [hi, hi', Bool.false_eq_true, if_false, tileOff] at ho
      omega
    · omega
  · rintro ⟨hb, _⟩
    rcases h1 with h | h
    · exact h hb
    · omega
  · rintro ⟨hb, _⟩
    exact h1 hb
  · intro hb
    rcases h1 with h | h
    · exact h hb
    · omega
  · rintro ⟨hb, _⟩
    exact h1 hb
  · rintro ⟨hb, hpar⟩
    rcases h1 with h | h
    · exact h hb
    · rcases h2 with h' | h'
      · exact h' hb.symm
      · cases wa <;> cases wb <;> simp at h h' <;> omega

theorem safe_noBadConflict {p : Prog} {N : Nat} (hs : safeB p = true) : NoBadConflict p N := by
  intro a b ha hb hk hn hd
  refine ⟨fun x hx => ⟨?_, ?_⟩, fun x hx hr => ?_⟩
  · intro hxb
    obtain ⟨v, hv, rfl⟩ := List.mem_map.mp hx
    obtain ⟨w, hw, hxw⟩ := List.mem_map.mp hxb
    have tv := mem_touches_out ha hv
    have tw := mem_touches_out hb hw
    exact resolve_ne (pairOK_of_safe hs tv tw rfl) (pairOK_of_safe hs tw tv rfl) hk hn hd hxw.symm
  · intro hxb
    obtain ⟨v, hv, rfl⟩ := List.mem_map.mp hx
    obtain ⟨w, hw, hxw⟩ := List.mem_map.mp hxb
    have tv := mem_touches_out ha hv
    have tw := mem_touches_in hb hw
    exact resolve_ne (pairOK_of_safe hs tv tw rfl) (pairOK_of_safe hs tw tv rfl) hk hn hd hxw.symm
  · obtain ⟨w, hw, rfl⟩ := List.mem_map.mp hx
    obtain ⟨v, hv, hxv⟩ := List.mem_map.mp hr
    have tv := mem_touches_in ha hv
    have tw := mem_touches_out hb hw
    exact resolve_ne (pairOK_of_safe hs tv tw rfl) (pairOK_of_safe hs tw tv rfl) hk hn hd hxv

end SnaxVerif.Pipeline
