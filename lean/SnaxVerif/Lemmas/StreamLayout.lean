import SnaxVerif.Model.StreamLayout
import SnaxVerif.Lemmas.Stream
import SnaxVerif.Lemmas.Tsl
/-! Lemmas for `tsl_linear_of_aligned` (C02): an aligned schedule pattern composed with a tiled-strided layout is a
linear form on the iteration box. Builds on the C10 lemmas (`affDims_eval`: the expression of `get_affine_map`
evaluates to `Tsl.addr`). -/
namespace SnaxVerif.Stream
open SnaxVerif SnaxVerif.Tsl

/-! ### `dotF` -/

theorem dotF_zero : ∀ (y : List Nat), dotF (fun _ => 0) y = 0
  | [] => rfl
  | _ :: ys => by simp [dotF, dotF_zero ys]

theorem dotF_cf_nil (y : List Nat) : dotF (cf []) y = 0 := by
  have : cf [] = fun _ => 0 := by funext k; simp [cf]
  rw [this, dotF_zero]

theorem dotF_add : ∀ (f g : Nat → Nat) (y : List Nat), dotF (fun k => f k + g k) y = dotF f y + dotF g y
  | _, _, [] => rfl
  | f, g, y :: ys => by
    simp only [dotF]
    rw [dotF_add (fun k => f (k + 1)) (fun k => g (k + 1)) ys]
    ring

theorem dotF_mul_right : ∀ (f : Nat → Nat) (c : Nat) (y : List Nat), dotF (fun k => f k * c) y = dotF f y * c
  | _, _, [] => by simp [dotF]
  | f, c, y :: ys => by
    simp only [dotF]
    rw [dotF_mul_right (fun k => f (k + 1)) c ys]
    ring

theorem dotF_mul_left (f : Nat → Nat) (c : Nat) (y : List Nat) : dotF (fun k => c * f k) y = c * dotF f y := by
  have : (fun k => c * f k) = fun k => f k * c := by funext k; exact Nat.mul_comm _ _
  rw [this, dotF_mul_right, Nat.mul_comm]

/-- on the box, a digit is at most its value at the largest point -/
theorem dotF_le_max : ∀ (bounds y : List Nat) (f : Nat → Nat), Tsl.InBox bounds y →
    dotF f y ≤ dotF f (bounds.map (· - 1))
  | [], [], _, _ => Nat.le_refl _
  | [], _ :: _, _, h => by simp [Tsl.InBox] at h
  | _ :: _, [], _, h => by simp [Tsl.InBox] at h
  | b :: bs, y :: ys, f, h => by
    obtain ⟨h1, h2⟩ := h
    simp only [List.map_cons, dotF]
    have := dotF_le_max bs ys (fun k => f (k + 1)) h2
    have : f 0 * y ≤ f 0 * (b - 1) := Nat.mul_le_mul_left _ (by omega)
    omega

theorem inBox_length : ∀ (bounds y : List Nat), Tsl.InBox bounds y → y.length = bounds.length
  | [], [], _ => rfl
  | [], _ :: _, h => by simp [Tsl.InBox] at h
  | _ :: _, [], h => by simp [Tsl.InBox] at h
  | _ :: bs, _ :: ys, h => by simp [inBox_length bs ys h.2]

/-! ### digits -/

def digitsAt (Dt : List (List Nat)) (y : List Nat) : List Nat := Dt.map fun d => dotF (cf d) y

theorem digitsAt_head (Dt : List (List Nat)) (y : List Nat) :
    (digitsAt Dt y).headD 0 = dotF (cf (Dt.headD [])) y := by
  cases Dt with
  | nil => simp [digitsAt, dotF_cf_nil]
  | cons d Dt => simp [digitsAt]

theorem digitsAt_tail (Dt : List (List Nat)) (y : List Nat) : (digitsAt Dt y).tail = digitsAt Dt.tail y := by
  cases Dt <;> simp [digitsAt]

theorem valueOf_digits : ∀ (l : List SStride) (Dt : List (List Nat)) (y : List Nat),
    valueOf l (digitsAt Dt y) = dotF (valueCoef l Dt) y
  | [], _, y => by
    have : valueCoef [] = fun _ _ => 0 := by funext a b; rfl
    simp [valueOf, this, dotF_zero]
  | s :: r, Dt, y => by
    have hv : valueCoef (s :: r) Dt = fun k => cf (Dt.headD []) k * prodB r + valueCoef r Dt.tail k := by
      funext k; rfl
    rw [hv, dotF_add, dotF_mul_right]
    simp only [valueOf, digitsAt_head, digitsAt_tail, valueOf_digits r Dt.tail y]

theorem stepSum_digits : ∀ (l : List SStride) (Dt : List (List Nat)) (y : List Nat),
    stepSum l (digitsAt Dt y) = dotF (stepCoef l Dt) y
  | [], _, y => by
    have : stepCoef [] = fun _ _ => 0 := by funext a b; rfl
    simp [stepSum, this, dotF_zero]
  | s :: r, Dt, y => by
    have hv : stepCoef (s :: r) Dt = fun k => s.step * cf (Dt.headD []) k + stepCoef r Dt.tail k := by
      funext k; rfl
    rw [hv, dotF_add, dotF_mul_left]
    simp only [stepSum, digitsAt_head, digitsAt_tail, stepSum_digits r Dt.tail y]

/-- every digit is inside its tile -/
def InnerOK : List SStride → List Nat → Prop
  | [], _ => True
  | s :: r, ds => ds.headD 0 < s.bound ∧ InnerOK r ds.tail

/-- mixed-radix digit extraction: the reduced address of the value of in-range digits is `Σ step·digit` -/
theorem addrIn_value : ∀ (l : List SStride) (ds : List Nat), InnerOK l ds →
    addrIn l (valueOf l ds) = stepSum l ds ∧ valueOf l ds < prodB l
  | [], _, _ => by simp [addrIn, valueOf, stepSum, prodB]
  | s :: r, ds, h => by
    obtain ⟨h0, hr⟩ := h
    obtain ⟨ih1, ih2⟩ := addrIn_value r ds.tail hr
    have hP : 0 < prodB r := by omega
    have hlt : ds.headD 0 * prodB r + valueOf r ds.tail < s.bound * prodB r := by
      have : (ds.headD 0 + 1) * prodB r ≤ s.bound * prodB r := Nat.mul_le_mul_right _ h0
      rw [Nat.add_mul] at this
      omega
    refine ⟨?_, by simpa [valueOf, prodB] using hlt⟩
    simp only [addrIn, valueOf, stepSum]
    rw [Nat.mod_eq_of_lt hlt]
    have hdiv : (ds.headD 0 * prodB r + valueOf r ds.tail) / prodB r = ds.headD 0 := by
      rw [Nat.add_comm, Nat.add_mul_div_right _ _ hP, Nat.div_eq_of_lt ih2, Nat.zero_add]
    rw [hdiv, Nat.mul_comm (ds.headD 0) (prodB r), addrIn_mul_add, ih1]

/-- … and with an unreduced outermost digit (as in `get_affine_map`) -/
theorem addrDim_value (l : List SStride) (ds : List Nat) (h : InnerOK l.tail ds.tail) :
    addrDim l (valueOf l ds) = stepSum l ds := by
  cases l with
  | nil => rfl
  | cons s r =>
    simp only [List.tail_cons] at h
    obtain ⟨ih1, ih2⟩ := addrIn_value r ds.tail h
    have hP : 0 < prodB r := by omega
    simp only [addrDim, valueOf, stepSum]
    have hdiv : (ds.headD 0 * prodB r + valueOf r ds.tail) / prodB r = ds.headD 0 := by
      rw [Nat.add_comm, Nat.add_mul_div_right _ _ hP, Nat.div_eq_of_lt ih2, Nat.zero_add]
    rw [hdiv, Nat.mul_comm (ds.headD 0) (prodB r), addrIn_mul_add, ih1]

theorem tilesBounded_innerOK (bounds y : List Nat) (hy : Tsl.InBox bounds y) :
    ∀ (r : List SStride) (Dr : List (List Nat)), tilesBounded (bounds.map (· - 1)) r Dr = true →
      InnerOK r (digitsAt Dr y)
  | [], _, _ => trivial
  | s :: r, Dr, h => by
    simp only [tilesBounded, Bool.and_eq_true, decide_eq_true_eq] at h
    refine ⟨?_, ?_⟩
    · rw [digitsAt_head]
      exact Nat.lt_of_le_of_lt (dotF_le_max bounds y _ hy) h.1
    · rw [digitsAt_tail]
      exact tilesBounded_innerOK bounds y hy r Dr.tail h.2

/-! ### the pattern row -/

theorem dotI_rowMatches (l : List SStride) (Dt : List (List Nat)) : ∀ (row : List Int) (k : Nat) (y : List Nat),
    rowMatches l Dt k row = true → row.length = y.length →
    dotI row (y.map Int.ofNat) = ((dotF (fun j => valueCoef l Dt (k + j)) y : Nat) : Int)
  | [], _, [], _, _ => by simp [dotI, dotF]
  | [], _, _ :: _, _, h => by simp at h
  | _ :: _, _, [], _, h => by simp at h
  | c :: cs, k, y :: ys, hm, hl => by
    simp only [rowMatches, Bool.and_eq_true, decide_eq_true_eq] at hm
    have ih := dotI_rowMatches l Dt cs (k + 1) ys hm.2 (by simpa using hl)
    simp only [List.map_cons, dotI, dotF, ih, hm.1, Nat.add_zero]
    have : (fun j => valueCoef l Dt (k + 1 + j)) = fun j => valueCoef l Dt (k + (j + 1)) := by
      funext j; congr 1; omega
    rw [this]
    push_cast
    rfl

/-- one operand dimension of an aligned pattern: the index is the value of the digits and its layout address is linear -/
theorem rowAligned_addr (bounds y : List Nat) (hy : Tsl.InBox bounds y) (l : List SStride) (row : List Int)
    (Dt : List (List Nat)) (h : rowAligned bounds.length (bounds.map (· - 1)) l row Dt = true) :
    dotI row (y.map Int.ofNat) = ((valueOf l (digitsAt Dt y) : Nat) : Int) ∧
      addrDim l (valueOf l (digitsAt Dt y)) = dotF (stepCoef l Dt) y := by
  simp only [rowAligned, Bool.and_eq_true, decide_eq_true_eq] at h
  obtain ⟨⟨hlen, hrow⟩, htb⟩ := h
  refine ⟨?_, ?_⟩
  · rw [dotI_rowMatches l Dt row 0 y hrow (by rw [hlen, inBox_length bounds y hy]), valueOf_digits]
    simp
  · rw [addrDim_value l (digitsAt Dt y) (by rw [digitsAt_tail]; exact tilesBounded_innerOK bounds y hy _ _ htb),
      stepSum_digits]

/-- the operand index vector that the digit assignment denotes at the point `y` -/
def idxOf : SLayout → List (List (List Nat)) → List Nat → List Nat
  | [], _, _ => []
  | l :: ls, D, y => valueOf l (digitsAt (D.headD []) y) :: idxOf ls D.tail y

theorem rowsAligned_addr (bounds y : List Nat) (hy : Tsl.InBox bounds y) :
    ∀ (lay : SLayout) (A : List (List Int)) (D : List (List (List Nat))),
      rowsAligned bounds.length (bounds.map (· - 1)) lay A D = true →
      A.map (fun row => dotI row (y.map Int.ofNat)) = (idxOf lay D y).map Int.ofNat ∧
        addr lay (idxOf lay D y) = dotF (totalCoef lay D) y
  | [], [], D, _ => ⟨rfl, by
      have : totalCoef [] D = fun _ => 0 := by funext k; rfl
      simp [addr, this, dotF_zero]⟩
  | [], _ :: _, _, h => by simp [rowsAligned] at h
  | _ :: _, [], _, h => by simp [rowsAligned] at h
  | l :: ls, row :: rows, D, h => by
    simp only [rowsAligned, Bool.and_eq_true] at h
    obtain ⟨hi, ha⟩ := rowAligned_addr bounds y hy l row (D.headD []) h.1
    obtain ⟨hidx, hadd⟩ := rowsAligned_addr bounds y hy ls rows D.tail h.2
    refine ⟨by simp [idxOf, hi, hidx], ?_⟩
    have htc : totalCoef (l :: ls) D = fun k => stepCoef l (D.headD []) k + totalCoef ls D.tail k := by
      funext k; rfl
    rw [htc, dotF_add, ← ha, ← hadd]
    simp only [addr, idxOf, List.headD_cons, List.tail_cons]

/-- with all digits bounded the index vector stays inside the shape -/
theorem rowsFull_inBox (bounds y : List Nat) (hy : Tsl.InBox bounds y) :
    ∀ (lay : SLayout) (D : List (List (List Nat))), rowsFull (bounds.map (· - 1)) lay D = true →
      Tsl.InBox (shape lay) (idxOf lay D y)
  | [], _, _ => by simp [shape, idxOf, Tsl.InBox]
  | l :: ls, D, h => by
    simp only [rowsFull, Bool.and_eq_true] at h
    have := (addrIn_value l _ (tilesBounded_innerOK bounds y hy l (D.headD []) h.1)).2
    have ih := rowsFull_inBox bounds y hy ls D.tail h.2
    simp only [shape, List.map_cons, idxOf, Tsl.InBox]
    exact ⟨this, ih⟩

theorem patEval_zero : ∀ (A : List (List Int)) (b : List Int) (x : List Int), b.length = A.length →
    b.all (fun c => decide (c = 0)) = true → patEval A b x = A.map fun row => dotI row x
  | [], [], _, _, _ => rfl
  | [], _ :: _, _, h, _ => by simp at h
  | _ :: _, [], _, h, _ => by simp at h
  | row :: A, c :: b, x, hl, hz => by
    simp only [List.all_cons, Bool.and_eq_true, decide_eq_true_eq] at hz
    have := patEval_zero A b x (by simpa using hl) hz.2
    unfold patEval at this ⊢
    simp [this, hz.1]

theorem dotI_range' (f : Nat → Nat) : ∀ (y : List Nat) (k : Nat),
    dotI ((List.range' k y.length).map fun j => ((f j : Nat) : Int)) (y.map Int.ofNat) =
      ((dotF (fun j => f (k + j)) y : Nat) : Int)
  | [], _ => by simp [dotI, dotF]
  | y :: ys, k => by
    simp only [List.length_cons, List.range'_succ, List.map_cons, dotI, dotF, dotI_range' f ys (k + 1), Nat.add_zero]
    have : (fun j => f (k + 1 + j)) = fun j => f (k + (j + 1)) := by funext j; congr 1; omega
    rw [this]
    push_cast
    rfl

/-- from "the layout address of the operand index is `Σ coef_k·y_k`" to the value of the composed byte map -/
theorem accessEval_of_addr (lay : SLayout) (el : Nat) (A : List (List Int)) (b : List Int) (bounds : List Nat)
    (L : AExpr) (coef : Nat → Nat) (hpos : SPos lay) (hL : tslBytes lay el = .ok L)
    (hbl : b.length = A.length) (hbz : b.all (fun c => decide (c = 0)) = true)
    (y : List Nat) (hy : Tsl.InBox bounds y) (idx : List Nat)
    (hidx : A.map (fun row => dotI row (y.map Int.ofNat)) = idx.map Int.ofNat)
    (haddr : addr lay idx = dotF coef y) :
    accessEval L A b (y.map Int.ofNat) =
      some (dotI ((List.range bounds.length).map fun k => ((el * coef k : Nat) : Int)) (y.map Int.ofNat)) := by
  unfold tslBytes at hL
  have hdyn := isDynamic_ofStatic lay (some 0)
  unfold Layout.affineMap at hL
  rw [hdyn] at hL
  simp only [Bool.false_eq_true, if_false] at hL
  let env := envOf (patEval A b (y.map Int.ofNat))
  have henv : ∀ k, env (0 + k) = ((idx.getD k 0 : Nat) : Int) := by
    intro k
    simp only [env, envOf, Nat.zero_add, patEval_zero A b _ hbl hbz, hidx]
    rw [List.getD_eq_getElem?_getD, List.getD_eq_getElem?_getD, List.getElem?_map]
    cases idx[k]? <;> simp
  obtain ⟨e, he, hev⟩ := affDims_eval env lay 0 idx (.const 0) 0 hpos henv rfl
  have hts : (ofStatic lay (some 0)).ts = lay.map (·.map SStride.toStride) := rfl
  rw [hts, he] at hL
  simp only [Except.ok.injEq] at hL
  subst hL
  unfold accessEval
  show (AExpr.smartMulC e (el : Int)).eval env = _
  rw [AExpr.smartMulC_eval, AExpr.eval_bin, hev]
  simp only [AExpr.eval_const, Option.bind_some, AExpr.evalBin, Int.zero_add]
  congr 1
  have hlen := inBox_length bounds y hy
  have := dotI_range' (fun k => el * coef k) y 0
  simp only [Nat.zero_add] at this
  rw [hlen] at this
  rw [List.range_eq_range', this, dotF_mul_left, haddr]
  push_cast
  ring

/-- **the core**: for an aligned operand with a static tiled-strided layout, the composed map evaluates, at every
    point of the box, to the linear form with the coefficients `alignedStrides` (no constant term). -/
theorem aligned_accessEval (lay : SLayout) (el : Nat) (A : List (List Int)) (b : List Int) (bounds : List Nat)
    (D : List (List (List Nat))) (L : AExpr) (hpos : SPos lay) (hL : tslBytes lay el = .ok L)
    (hal : alignedB lay A b bounds D = true) (y : List Nat) (hy : Tsl.InBox bounds y) :
    accessEval L A b (y.map Int.ofNat) =
      some (dotI (alignedStrides lay el D bounds.length) (y.map Int.ofNat)) := by
  simp only [alignedB, Bool.and_eq_true, decide_eq_true_eq] at hal
  obtain ⟨⟨hbl, hbz⟩, hrows⟩ := hal
  obtain ⟨hidx, haddr⟩ := rowsAligned_addr bounds y hy lay A D hrows
  exact accessEval_of_addr lay el A b bounds L _ hpos hL hbl hbz y hy _ hidx haddr

theorem squash_eq_canonS : ∀ l : List SStride, squash l = canonS l
  | [] => rfl
  | s :: r => by
    simp only [squash, canonS, squash_eq_canonS r]
    cases canonS r <;> rfl

/-- … and against the canonical layout: the address function of the real layout agrees with the canonical one inside
    the shape (C10, `addr_canonS`), where the full digit bound keeps the indices. -/
theorem aligned_accessEval_canon (lay : SLayout) (el : Nat) (A : List (List Int)) (b : List Int) (bounds : List Nat)
    (D : List (List (List Nat))) (L : AExpr) (hpos : SPos lay) (hL : tslBytes lay el = .ok L)
    (hal : alignedCanonB lay A b bounds D = true) (y : List Nat) (hy : Tsl.InBox bounds y) :
    accessEval L A b (y.map Int.ofNat) =
      some (dotI (alignedStrides (lay.map squash) el D bounds.length) (y.map Int.ofNat)) := by
  simp only [alignedCanonB, alignedB, Bool.and_eq_true, decide_eq_true_eq] at hal
  obtain ⟨⟨⟨hbl, hbz⟩, hrows⟩, hfull⟩ := hal
  obtain ⟨hidx, haddr⟩ := rowsAligned_addr bounds y hy (lay.map squash) A D hrows
  have hbox := rowsFull_inBox bounds y hy (lay.map squash) D hfull
  have hsq : lay.map squash = lay.map canonS := List.map_congr_left fun l _ => squash_eq_canonS l
  have hs : shape (lay.map squash) = shape lay := by rw [hsq, shape_canonS]
  rw [hs] at hbox
  have hsame : addr (lay.map squash) (idxOf (lay.map squash) D y) = addr lay (idxOf (lay.map squash) D y) := by
    have := addr_canonS lay (idxOf (lay.map squash) D y) ((mem_points_iff _ _).mpr hbox)
    rw [← hsq] at this
    exact this
  exact accessEval_of_addr lay el A b bounds L _ hpos hL hbl hbz y hy _ hidx (hsame ▸ haddr)

end SnaxVerif.Stream
