import SnaxVerif.Model.Phs
/-! Lemmas for C20 (core Lean only). -/
namespace SnaxVerif.Phs

variable [Variant]

theorem sameOp_refl (a : OpCode) : sameOp a a = true := by
  unfold sameOp; split <;> simp

theorem sameOp_symm {a b : OpCode} (h : sameOp a b = true) : sameOp b a = true := by
  by_cases hf : Variant.fixed = true
  · simp only [sameOp, hf, if_true, beq_iff_eq] at h ⊢; exact h.symm
  · simp only [sameOp, hf, Bool.false_eq_true, if_false, beq_iff_eq] at h ⊢; exact h.symm

/-- on the fixed tree two operations are the same iff they are equal -/
theorem sameOp_fixed (hf : Variant.fixed = true) {a b : OpCode} (h : sameOp a b = true) : a = b := by
  unfold sameOp at h; simp [hf] at h; exact h

/-! ### symbol lookup -/

theorem findId_some {id : String} : ∀ (l : List Node) (p q : Nat), findId id l p = some q →
    p ≤ q ∧ ∃ n, l[q - p]? = some n ∧ n.id = id
  | [], _, _, h => by simp [findId] at h
  | n :: r, p, q, h => by
    unfold findId at h
    split at h
    next hid =>
      injection h with h; subst h
      exact ⟨Nat.le_refl _, n, by simp, hid⟩
    next hid =>
      obtain ⟨hle, n', hn', hid'⟩ := findId_some r (p + 1) q h
      refine ⟨by omega, n', ?_, hid'⟩
      have : q - p = (q - (p + 1)) + 1 := by omega
      rw [this, List.getElem?_cons_succ]; exact hn'

theorem findId_none {id : String} : ∀ (l : List Node) (p : Nat), findId id l p = none →
    ∀ (j : Nat) (n : Node), l[j]? = some n → n.id ≠ id
  | [], _, _, j, n, hj => by simp at hj
  | x :: r, p, h, j, n, hj => by
    unfold findId at h
    split at h
    · simp at h
    next hid =>
      cases j with
      | zero => simp at hj; subst hj; exact hid
      | succ j => simp at hj; exact findId_none r (p + 1) h j n hj

theorem findId_isSome_of_mem {id : String} : ∀ (l : List Node) (p : Nat) (j : Nat) (n : Node), l[j]? = some n → n.id = id →
    ∃ q, findId id l p = some q := by
  intro l p j n hj hid
  cases h : findId id l p with
  | some q => exact ⟨q, rfl⟩
  | none => exact absurd hid (findId_none l p h j n hj)

theorem uniqueIds_inj : ∀ (l : List Node), uniqueIds l = true → ∀ (i j : Nat) (n n' : Node), l[i]? = some n → l[j]? = some n' →
    n.id = n'.id → i = j
  | [], _, i, _, n, _, hi, _, _ => by simp at hi
  | x :: r, hu, i, j, n, n', hi, hj, hid => by
    simp only [uniqueIds, Bool.and_eq_true, Option.isNone_iff_eq_none] at hu
    cases i with
    | zero =>
      cases j with
      | zero => rfl
      | succ j =>
        simp at hi hj; subst hi
        exact absurd hid.symm (findId_none r 0 hu.1 j n' hj)
    | succ i =>
      cases j with
      | zero =>
        simp at hi hj; subst hj
        exact absurd hid (findId_none r 0 hu.1 i n hi)
      | succ j =>
        simp at hi hj
        rw [uniqueIds_inj r hu.2 i j n n' hi hj hid]

theorem lookup_some {A : PE} {id : String} {ai : Nat} (h : A.lookup id = some ai) :
    ∃ a, A.nodes[ai]? = some a ∧ a.id = id := by
  obtain ⟨_, n, hn, hid⟩ := findId_some A.nodes 0 ai h
  exact ⟨n, by simpa using hn, hid⟩

theorem lookup_of_get {A : PE} (hu : uniqueIds A.nodes = true) {j : Nat} {n : Node} (h : A.nodes[j]? = some n) :
    A.lookup n.id = some j := by
  obtain ⟨q, hq⟩ := findId_isSome_of_mem A.nodes 0 j n h rfl
  obtain ⟨a, ha, hid⟩ := lookup_some (A := A) hq
  have := uniqueIds_inj A.nodes hu q j a n ha h hid
  subst this; exact hq

/-! ### resolving muxes -/

def resolve (m : Nat → Nat) : Src → Src
  | .mux s l r => if m s = 1 then resolve m r else resolve m l
  | x => x

theorem follow_eq_leafOf_resolve (A : PE) (m : Nat → Nat) : ∀ t, A.follow m t = A.leafOf (resolve m t)
  | .arg _ => rfl
  | .node _ => rfl
  | .mux s l r => by
    simp only [PE.follow, resolve]
    split
    · exact follow_eq_leafOf_resolve A m r
    · exact follow_eq_leafOf_resolve A m l

theorem resolve_not_mux (m : Nat → Nat) : ∀ t s l r, resolve m t ≠ .mux s l r
  | .arg _, _, _, _ => by simp [resolve]
  | .node _, _, _, _ => by simp [resolve]
  | .mux s' l' r', s, l, r => by
    simp only [resolve]
    split
    · exact resolve_not_mux m r' s l r
    · exact resolve_not_mux m l' s l r

theorem computes_resolve {V : Type} (sem : OpCode → List V → V) (A : PE) (swv : Nat → Nat) (inp : List V) (v : V) :
    ∀ t, Computes sem A swv inp (resolve swv t) v → Computes sem A swv inp t v
  | .arg _, h => h
  | .node _, h => h
  | .mux s l r, h => by
    simp only [resolve] at h
    by_cases hs : swv s = 1
    · rw [if_pos hs] at h; exact .muxR hs (computes_resolve sem A swv inp v r h)
    · rw [if_neg hs] at h; exact .muxL hs (computes_resolve sem A swv inp v l h)

theorem follow_congr (A : PE) (m m' : Nat → Nat) (h : ∀ s, A.switches[s]? = some .mux → m s = m' s) :
    ∀ t, srcMuxOk A t = true → A.follow m t = A.follow m' t
  | .arg _, _ => rfl
  | .node _, _ => rfl
  | .mux s l r, hok => by
    simp only [srcMuxOk, Bool.and_eq_true, decide_eq_true_eq] at hok
    simp only [PE.follow]
    rw [h s hok.1.1, follow_congr A m m' h l hok.1.2, follow_congr A m m' h r hok.2]

/-! ### determinism of the semantics -/

theorem computes_det {V : Type} (sem : OpCode → List V → V) (A : PE) (swv : Nat → Nat) (inp : List V) :
    ∀ s v, Computes sem A swv inp s v → ∀ v', Computes sem A swv inp s v' → v = v' := by
  intro s v h
  induction h with
  | arg _ hv =>
    intro v' h'
    cases h' with
    | arg _ hv' => rw [hv] at hv'; exact Option.some.inj hv'
  | muxL hs _ ih =>
    intro v' h'
    cases h' with
    | muxL _ h2 => exact ih v' h2
    | muxR hs' _ => exact absurd hs' hs
  | muxR hs _ ih =>
    intro v' h'
    cases h' with
    | muxL hs' _ => exact absurd hs hs'
    | muxR _ h2 => exact ih v' h2
  | node hn hop hlen _ ih =>
    intro v' h'
    cases h' with
    | node hn' hop' hlen' hops' =>
      rw [hn] at hn'; injection hn' with hn'; subst hn'
      rw [hop] at hop'; injection hop' with hop'; subst hop'
      congr 1
      apply List.ext_getElem (by omega)
      intro i h1 h2
      exact ih i (by omega) h1 _ (hops' i (by omega) h2)

/-! ### the executable evaluator is sound for the relational semantics -/

theorem mapOpt_some {α β} (f : α → Option β) : ∀ (l : List α) (vs : List β), mapOpt f l = some vs →
    vs.length = l.length ∧ ∀ i (h : i < l.length) (h' : i < vs.length), f l[i] = some vs[i]
  | [], vs, h => by
    simp [mapOpt] at h; subst h; exact ⟨rfl, fun i h => absurd h (Nat.not_lt_zero _)⟩
  | a :: r, vs, h => by
    unfold mapOpt at h
    split at h
    · simp at h
    next b hb =>
      split at h
      · simp at h
      next bs hbs =>
        injection h with h; subst h
        obtain ⟨hl, hr⟩ := mapOpt_some f r bs hbs
        refine ⟨by simp [hl], ?_⟩
        intro i h1 h2
        cases i with
        | zero => simpa using hb
        | succ i => simpa using hr i (by simpa using h1) (by simpa using h2)

theorem evalF_sound {V : Type} (sem : OpCode → List V → V) (A : PE) (swv : Nat → Nat) (inp : List V) :
    ∀ (f : Nat) (s : Src) (v : V), evalF sem A swv inp f s = some v → Computes sem A swv inp s v
  | 0, _, _, h => by simp [evalF] at h
  | f + 1, .arg i, v, h => by
    simp only [evalF] at h
    split at h
    next hi => exact .arg hi h
    · simp at h
  | f + 1, .mux s l r, v, h => by
    simp only [evalF] at h
    by_cases hs : swv s = 1
    · rw [if_pos hs] at h; exact .muxR hs (evalF_sound sem A swv inp f r v h)
    · rw [if_neg hs] at h; exact .muxL hs (evalF_sound sem A swv inp f l v h)
  | f + 1, .node j, v, h => by
    simp only [evalF] at h
    split at h
    · simp at h
    next n hn =>
      split at h
      · simp at h
      next op hop =>
        cases hm : mapOpt (evalF sem A swv inp f) n.operands with
        | none => simp [hm] at h
        | some vs =>
          simp [hm] at h; subst h
          obtain ⟨hl, hv⟩ := mapOpt_some _ _ _ hm
          exact .node hn hop hl (fun i h1 h2 => evalF_sound sem A swv inp f _ _ (hv i h1 h2))

/-! ### what a successful decode establishes -/

theorem search_sound (check : (Nat → Nat) → Except Err Bool) : ∀ (l : List Nat) (m0 sol : Nat → Nat),
    search check l m0 = .ok (some sol) → check sol = .ok true
  | [], m0, sol, h => by
    unfold search at h
    split at h
    · simp at h
    next hc => injection h with h; injection h with h; subst h; exact hc
    · simp at h
  | s :: r, m0, sol, h => by
    unfold search at h
    split at h
    · simp at h
    next sol' h1 => injection h with h; injection h with h; subst h; exact search_sound check r _ _ h1
    next => exact search_sound check r _ _ h

theorem search_complete (check : (Nat → Nat) → Except Err Bool)
    (hne : ∀ m e, check m ≠ .error e)
    (hcong : ∀ m m', (∀ s, (m s = 1 ↔ m' s = 1)) → check m = check m') :
    ∀ (l : List Nat) (m0 : Nat → Nat), (∃ ms, check ms = .ok true ∧ ∀ x, x ∉ l → (ms x = 1 ↔ m0 x = 1)) →
      ∃ sol, search check l m0 = .ok (some sol)
  | [], m0, ⟨ms, hms, hag⟩ => by
    have : check m0 = .ok true := by
      rw [← hcong ms m0 (fun s => hag s (by simp))]; exact hms
    exact ⟨m0, by simp [search, this]⟩
  | s :: r, m0, ⟨ms, hms, hag⟩ => by
    unfold search
    have hno : ∀ m1, (∃ sol, search check r m1 = .ok (some sol)) ∨ search check r m1 = .ok none := by
      intro m1
      have : ∀ (l : List Nat) (m1 : Nat → Nat), (∃ sol, search check l m1 = .ok (some sol)) ∨ search check l m1 = .ok none := by
        intro l
        induction l with
        | nil =>
          intro m1
          unfold search
          cases hc : check m1 with
          | error e => exact absurd hc (hne m1 e)
          | ok b => cases b <;> simp
        | cons s' r' ih =>
          intro m1
          unfold search
          rcases ih (upd m1 s' 0) with ⟨sol, h⟩ | h
          · left; exact ⟨sol, by rw [h]⟩
          · rw [h]; exact ih (upd m1 s' 1)
      exact this r m1
    rcases hno (upd m0 s 0) with ⟨sol, h⟩ | h
    · exact ⟨sol, by rw [h]⟩
    · rw [h]
      by_cases h1 : ms s = 1
      · apply search_complete check hne hcong r (upd m0 s 1)
        refine ⟨ms, hms, fun x hx => ?_⟩
        by_cases hxs : x = s
        · subst hxs; simp [upd, h1]
        · simp only [upd, if_neg hxs]; exact hag x (by simp [hxs, hx])
      · -- the first branch would have succeeded
        exfalso
        have : ∃ sol, search check r (upd m0 s 0) = .ok (some sol) := by
          apply search_complete check hne hcong r (upd m0 s 0)
          refine ⟨ms, hms, fun x hx => ?_⟩
          by_cases hxs : x = s
          · subst hxs; simp [upd, h1]
          · simp only [upd, if_neg hxs]; exact hag x (by simp [hxs, hx])
        obtain ⟨sol, hs⟩ := this
        rw [h] at hs; simp at hs

theorem validOperands_true (K A : PE) (m : Nat → Nat) : ∀ (ks as : List Src), validOperands K A m ks as = .ok true →
    as.length = ks.length ∧ ∀ p (h : p < ks.length) (h' : p < as.length),
      ∃ l, K.leafOf ks[p] = some l ∧ A.follow m as[p] = some l
  | [], [], _ => ⟨rfl, fun p h => absurd h (Nat.not_lt_zero _)⟩
  | [], _ :: _, h => by simp [validOperands] at h
  | _ :: _, [], h => by simp [validOperands] at h
  | k :: ks, a :: as, h => by
    unfold validOperands at h
    split at h
    · simp at h
    next l hl =>
      split at h
      next hf =>
        obtain ⟨hlen, hr⟩ := validOperands_true K A m ks as h
        refine ⟨by simp [hlen], ?_⟩
        intro p h1 h2
        cases p with
        | zero => exact ⟨l, by simpa using hl, by simpa using hf⟩
        | succ p => simpa using hr p (by simpa using h1) (by simpa using h2)
      · simp at h

theorem validNodes_true (K A : PE) (m : Nat → Nat) : ∀ (ns : List Node), validNodes K A m ns = .ok true →
    ∀ k, k ∈ ns → ∃ ai a, A.lookup k.id = some ai ∧ A.nodes[ai]? = some a ∧
      validOperands K A m k.operands a.operands = .ok true
  | [], _, k, hk => by simp at hk
  | n :: r, h, k, hk => by
    unfold validNodes at h
    split at h
    · simp at h
    next ai hai =>
      split at h
      · simp at h
      next a ha =>
        split at h
        · simp at h
        · simp at h
        next hv =>
          rcases List.mem_cons.mp hk with rfl | hk
          · exact ⟨ai, a, hai, ha, hv⟩
          · exact validNodes_true K A m r h k hk

theorem validMapping_true {K A : PE} {m : Nat → Nat} (h : validMapping K A m = .ok true) :
    validNodes K A m K.nodes = .ok true ∧ validOperands K A m [K.yld] [A.yld] = .ok true := by
  unfold validMapping at h
  split at h
  · simp at h
  · simp at h
  next hn => exact ⟨hn, h⟩

theorem follow_iff (A : PE) (m m' : Nat → Nat) (h : ∀ s, (m s = 1 ↔ m' s = 1)) : ∀ t, A.follow m t = A.follow m' t
  | .arg _ => rfl
  | .node _ => rfl
  | .mux s l r => by
    simp only [PE.follow]
    rw [follow_iff A m m' h l, follow_iff A m m' h r]
    by_cases hs : m s = 1
    · rw [if_pos hs, if_pos ((h s).mp hs)]
    · rw [if_neg hs, if_neg (fun h' => hs ((h s).mpr h'))]

theorem validOperands_congr (K A : PE) (m m' : Nat → Nat) (h : ∀ s, (m s = 1 ↔ m' s = 1)) :
    ∀ ks as, validOperands K A m ks as = validOperands K A m' ks as
  | [], [] => rfl
  | [], _ :: _ => rfl
  | _ :: _, [] => rfl
  | k :: ks, a :: as => by
    unfold validOperands
    rw [follow_iff A m m' h a, validOperands_congr K A m m' h ks as]

theorem validNodes_congr (K A : PE) (m m' : Nat → Nat) (h : ∀ s, (m s = 1 ↔ m' s = 1)) :
    ∀ ns, validNodes K A m ns = validNodes K A m' ns
  | [] => rfl
  | k :: r => by
    unfold validNodes
    split
    · rfl
    · split
      · rfl
      · rw [validOperands_congr K A m m' h, validNodes_congr K A m m' h r]

theorem validMapping_congr (K A : PE) (m m' : Nat → Nat) (h : ∀ s, (m s = 1 ↔ m' s = 1)) :
    validMapping K A m = validMapping K A m' := by
  unfold validMapping
  rw [validNodes_congr K A m m' h, validOperands_congr K A m m' h]

/-! ### local choices and the expanded switch list -/

def preVal (m : Nat → Nat) : Pre → Nat
  | .skip => 0
  | .val n => n
  | .muxP s => m s

theorem localChoices_get (A K : PE) : ∀ (us : List SwUse) (p : Nat) (pre : List Pre),
    localChoices A K us p = .ok pre → pre.length = us.length ∧
      ∀ i u, us[i]? = some u → ∃ q, pre[i]? = some q ∧ localChoice A K (p + i) u = .ok q
  | [], p, pre, h => by
    simp [localChoices] at h; subst h; exact ⟨rfl, fun i u hu => by simp at hu⟩
  | u :: r, p, pre, h => by
    unfold localChoices at h
    split at h
    · simp at h
    next q hq =>
      split at h
      · simp at h
      next ps hps =>
        injection h with h; subst h
        obtain ⟨hl, hr⟩ := localChoices_get A K r (p + 1) ps hps
        refine ⟨by simp [hl], ?_⟩
        intro i u' hu'
        cases i with
        | zero => simp at hu'; subst hu'; exact ⟨q, by simp, by simpa using hq⟩
        | succ i =>
          simp at hu'
          obtain ⟨q', hq1, hq2⟩ := hr i u' hu'
          exact ⟨q', by simpa using hq1, by rw [show p + (i + 1) = p + 1 + i by omega]; exact hq2⟩

theorem idxOf_some (t : OpCode) : ∀ (l : List OpCode) (p i : Nat), idxOf t l p = some i →
    p ≤ i ∧ ∃ t', l[i - p]? = some t' ∧ sameOp t' t = true
  | [], _, _, h => by simp [idxOf] at h
  | o :: r, p, i, h => by
    unfold idxOf at h
    split at h
    next ho => injection h with h; subst h; exact ⟨Nat.le_refl _, o, by simp, ho⟩
    next =>
      obtain ⟨hle, t', hg, hc⟩ := idxOf_some t r (p + 1) i h
      refine ⟨by omega, t', ?_, hc⟩
      have : i - p = (i - (p + 1)) + 1 := by omega
      rw [this, List.getElem?_cons_succ]; exact hg

theorem idxOf_isSome_of_mem (t : OpCode) : ∀ (l : List OpCode) (p : Nat), t ∈ l → ∃ i, idxOf t l p = some i
  | [], _, h => by simp at h
  | o :: r, p, h => by
    unfold idxOf
    by_cases ho : sameOp o t = true
    · exact ⟨p, by simp [ho]⟩
    · rw [if_neg ho]
      rcases List.mem_cons.mp h with rfl | h
      · exact absurd (sameOp_refl _) ho
      · exact idxOf_isSome_of_mem t r (p + 1) h

/-- Prop form of `classFun`: operations the code does not tell apart are equal -/
def ClassFun (l : List OpCode) : Prop := ∀ o o', o ∈ l → o' ∈ l → sameOp o o' = true → o = o'

theorem classFun_iff (l : List OpCode) : classFun l = true ↔ ClassFun l := by
  simp only [classFun, List.all_eq_true, Bool.or_eq_true, Bool.not_eq_true', beq_iff_eq, ClassFun]
  constructor
  · intro h o o' ho ho' hc
    rcases h o ho o' ho' with h | h
    · rw [hc] at h; cases h
    · exact h
  · intro h o ho o' ho'
    by_cases hc : sameOp o o' = true
    · exact .inr (h o o' ho ho' hc)
    · exact .inl (by simpa using hc)

/-- on the fixed tree the clause holds for every list -/
theorem classFun_of_fixed (hf : Variant.fixed = true) (l : List OpCode) : ClassFun l :=
  fun _ _ _ _ h => sameOp_fixed hf h

/-- the expanded list is, position by position, the value of the local decision -/
theorem expandFrom_final (A K : PE) (m : Nat → Nat)
    (hne : ∀ (j : Nat) (a : Node), A.nodes[j]? = some a → a.ops ≠ []) : ∀ (us : List SwUse) (p : Nat) (pre : List Pre),
    localChoices A K us p = .ok pre → expandFrom A us (finalVals m pre) = pre.map (preVal m)
  | [], p, pre, h => by
    simp [localChoices] at h; subst h; rfl
  | u :: r, p, pre, h => by
    unfold localChoices at h
    split at h
    · simp at h
    next q hq =>
      split at h
      · simp at h
      next ps hps =>
        injection h with h; subst h
        have ih := expandFrom_final A K m hne r (p + 1) ps hps
        cases u with
        | mux =>
          simp [localChoice] at hq; subst hq
          simp [expandFrom, swCounts, finalVals, preVal, ih]
        | choose j =>
          simp only [localChoice] at hq
          split at hq
          · simp at hq
          next a ha =>
            have hnea := hne j a ha
            split at hq
            next h1 =>
              injection hq with hq; subst hq
              simp [expandFrom, swCounts, ha, h1, finalVals, preVal, ih]
            next h1 =>
              have hgt : a.ops.length > 1 := by
                have : a.ops.length ≠ 0 := by
                  intro h0; exact hnea (List.eq_nil_of_length_eq_zero h0)
                omega
              have hsw : swCounts A (.choose j) = true := by simp [swCounts, ha, hgt]
              -- every remaining successful outcome is a `.val`
              have hval : ∃ n, q = .val n := by
                split at hq
                · injection hq with hq; exact ⟨0, hq.symm⟩
                · split at hq
                  · simp at hq
                  · split at hq
                    · simp at hq
                    · split at hq
                      next i _ => injection hq with hq; exact ⟨i, hq.symm⟩
                      · simp at hq
              obtain ⟨n, rfl⟩ := hval
              simp [expandFrom, hsw, finalVals, preVal, ih]

theorem finalVals_length (A K : PE) (m : Nat → Nat)
    (hne : ∀ (j : Nat) (a : Node), A.nodes[j]? = some a → a.ops ≠ []) : ∀ (us : List SwUse) (p : Nat) (pre : List Pre),
    localChoices A K us p = .ok pre → (finalVals m pre).length = (us.filter (swCounts A)).length
  | [], p, pre, h => by
    simp [localChoices] at h; subst h; rfl
  | u :: r, p, pre, h => by
    unfold localChoices at h
    split at h
    · simp at h
    next q hq =>
      split at h
      · simp at h
      next ps hps =>
        injection h with h; subst h
        have ih := finalVals_length A K m hne r (p + 1) ps hps
        cases u with
        | mux =>
          simp [localChoice] at hq; subst hq
          have hm : swCounts A .mux = true := rfl
          simp [List.filter_cons, hm, finalVals, ih]
        | choose j =>
          simp only [localChoice] at hq
          split at hq
          · simp at hq
          next a ha =>
            have hnea := hne j a ha
            split at hq
            next h1 =>
              injection hq with hq; subst hq
              simp [swCounts, ha, h1, finalVals, ih]
            next h1 =>
              have hgt : a.ops.length > 1 := by
                have : a.ops.length ≠ 0 := by
                  intro h0; exact hnea (List.eq_nil_of_length_eq_zero h0)
                omega
              have hsw : swCounts A (.choose j) = true := by simp [swCounts, ha, hgt]
              have hval : ∃ n, q = .val n := by
                split at hq
                · injection hq with hq; exact ⟨0, hq.symm⟩
                · split at hq
                  · simp at hq
                  · split at hq
                    · simp at hq
                    · split at hq
                      next i _ => injection hq with hq; exact ⟨i, hq.symm⟩
                      · simp at hq
              obtain ⟨n, rfl⟩ := hval
              simp [hsw, finalVals, ih]

theorem decode_ok {A K : PE} {sw : List Nat} (h : decode A K = .ok sw) :
    K.isConcrete = true ∧ K.argTys.length = A.argTys.length ∧ ∃ pre m, localChoices A K A.switches 0 = .ok pre ∧
      search (validMapping K A) (muxSwitches pre) (fun _ => 0) = .ok (some m) ∧ sw = finalVals m pre := by
  unfold decode at h
  split at h
  · simp at h
  next hc =>
    split at h
    · simp at h
    next hl =>
      split at h
      · simp at h
      next pre hpre =>
        split at h
        · simp at h
        · simp at h
        next m hm =>
          injection h with h
          exact ⟨by simpa using hc, by simpa using hl, pre, m, hpre, hm, h.symm⟩

/-! ### well-formedness projections -/

theorem wf_unique {A : PE} (h : A.wf = true) : uniqueIds A.nodes = true := by
  simp only [PE.wf, Bool.and_eq_true] at h; exact h.1.1.1

theorem wf_node {A : PE} (h : A.wf = true) {j : Nat} {a : Node} (ha : A.nodes[j]? = some a) :
    a.ops ≠ [] ∧ (∀ t, t ∈ a.operands → srcMuxOk A t = true) ∧ A.switches[a.sw]? = some (.choose j) ∧
      ClassFun a.ops := by
  simp only [PE.wf, Bool.and_eq_true, List.all_eq_true] at h
  have hmem : a ∈ A.nodes := List.mem_of_getElem? ha
  have h1 := h.1.1.2 a hmem
  simp only [nodeOk, Bool.and_eq_true, List.all_eq_true, Bool.not_eq_true', List.isEmpty_eq_false_iff] at h1
  have hj : j < A.nodes.length := by
    rcases Nat.lt_or_ge j A.nodes.length with h | h
    · exact h
    · simp [List.getElem?_eq_none h] at ha
  have h2 := h.2 j (List.mem_range.mpr hj)
  simp only [nodeSwOk, ha, decide_eq_true_eq] at h2
  exact ⟨h1.1.1, h1.1.2, h2, (classFun_iff _).mp h1.2⟩

theorem wf_yield {A : PE} (h : A.wf = true) : srcMuxOk A A.yld = true := by
  simp only [PE.wf, Bool.and_eq_true] at h; exact h.1.2

/-! ### simulation: the merged element follows the kernel's evaluation -/

theorem sim {V : Type} (sem : OpCode → List V → V) (A K : PE) (swv : Nat → Nat) (inp : List V)
    (hargs : K.argTys.length = A.argTys.length)
    (huniq : uniqueIds A.nodes = true)
    (hnode : ∀ (c : Nat) (k : Node), K.nodes[c]? = some k → ∃ (ai : Nat) (a : Node), A.nodes[ai]? = some a ∧ a.id = k.id ∧
        (∀ op, k.ops[0]? = some op → a.ops[swv a.sw]? = some op) ∧ a.operands.length = k.operands.length ∧
        ∀ p (h : p < k.operands.length) (h' : p < a.operands.length),
          ∃ l, K.leafOf k.operands[p] = some l ∧ A.follow swv a.operands[p] = some l) :
    ∀ s v, Computes sem K (fun _ => 0) inp s v → ∀ t l, K.leafOf s = some l → A.follow swv t = some l →
      Computes sem A swv inp t v := by
  intro s v h
  induction h with
  | @arg i v hi hv =>
    intro t l hl hf
    simp only [PE.leafOf] at hl; injection hl with hl; subst hl
    apply computes_resolve
    rw [follow_eq_leafOf_resolve] at hf
    cases hr : resolve swv t with
    | arg i' =>
      rw [hr] at hf; simp only [PE.leafOf] at hf; injection hf with hf; injection hf with hf; subst hf
      exact .arg (hargs ▸ hi) hv
    | node j =>
      rw [hr] at hf; simp only [PE.leafOf] at hf
      cases hn : A.nodes[j]? with
      | none => simp [hn] at hf
      | some n => simp [hn] at hf
    | mux s' l' r' => exact absurd hr (resolve_not_mux swv t s' l' r')
  | muxL _ _ _ => intro t l hl; simp [PE.leafOf] at hl
  | muxR _ _ _ => intro t l hl; simp [PE.leafOf] at hl
  | @node c k op vs hn hop hlen hops ih =>
    intro t l hl hf
    simp only [PE.leafOf, hn, Option.map_some] at hl; injection hl with hl; subst hl
    obtain ⟨ai, a, ha, hid, hopA, hlenA, hopnds⟩ := hnode c k hn
    apply computes_resolve
    rw [follow_eq_leafOf_resolve] at hf
    cases hr : resolve swv t with
    | arg i' => rw [hr] at hf; simp [PE.leafOf] at hf
    | mux s' l' r' => exact absurd hr (resolve_not_mux swv t s' l' r')
    | node j =>
      rw [hr] at hf; simp only [PE.leafOf] at hf
      cases hnj : A.nodes[j]? with
      | none => simp [hnj] at hf
      | some n =>
        simp only [hnj, Option.map_some] at hf; injection hf with hf; injection hf with hf
        have hj : j = ai := uniqueIds_inj A.nodes huniq j ai n a hnj ha (by rw [hf, hid])
        subst hj
        rw [hnj] at ha; injection ha with ha; subst ha
        refine .node hnj (hopA op hop) (by omega) ?_
        intro p h1 h2
        obtain ⟨l', hl1, hl2⟩ := hopnds p (by omega) h1
        exact ih p (by omega) h2 _ l' hl1 hl2

end SnaxVerif.Phs
