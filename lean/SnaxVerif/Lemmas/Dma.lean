import Mathlib.Data.List.Perm.Basic
import SnaxVerif.Model.Dma
/-! Helper lemmas for C05 (DMA lowering of copies). -/
namespace SnaxVerif.Dma
open List

/-! ### loop nests: `offs` -/

theorem flatMap_comm_perm {α β γ} (l1 : List α) (l2 : List β) (g : α → β → List γ) :
    l1.flatMap (fun a => l2.flatMap (g a)) ~ l2.flatMap (fun b => l1.flatMap (fun a => g a b)) := by
  induction l1 with
  | nil => simp
  | cons a as ih =>
    simp only [flatMap_cons]
    exact (Perm.append_left _ ih).trans (flatMap_append_perm l2 (g a) (fun b => as.flatMap fun a => g a b))

/-- the visited (source, destination) offsets do not depend on the order of the loops -/
theorem offs_perm {l1 l2 : List (Nat × Nat × Nat)} (h : l1 ~ l2) : offs l1 ~ offs l2 := by
  induction h with
  | nil => exact Perm.refl _
  | cons x _ ih =>
    obtain ⟨b, s, d⟩ := x
    simp only [offs]
    exact Perm.flatMap_left _ (fun i _ => ih.map _)
  | swap x y l =>
    obtain ⟨b, s, d⟩ := x; obtain ⟨c, t, e⟩ := y
    simp only [offs, map_flatMap, map_map]
    refine (flatMap_comm_perm (List.range c) (List.range b)
      (fun j i => (offs l).map ((fun p => (j * t + p.1, j * e + p.2)) ∘ (fun p => (i * s + p.1, i * d + p.2))))).trans
      (Perm.of_eq ?_)
    congr 1; funext i; congr 1; funext j; congr 1; funext p
    simp only [Function.comp]
    ext <;> simp <;> omega
  | trans _ _ ih1 ih2 => exact ih1.trans ih2

def padd (a b : Nat × Nat) : Nat × Nat := (a.1 + b.1, a.2 + b.2)

theorem offs_append (l1 l2 : List (Nat × Nat × Nat)) :
    offs (l1 ++ l2) = (offs l1).flatMap fun a => (offs l2).map fun b => padd a b := by
  induction l1 with
  | nil => simp [offs, padd]
  | cons x r ih =>
    obtain ⟨b, s, d⟩ := x
    simp only [cons_append, offs, ih, flatMap_assoc, map_flatMap, flatMap_map, map_map]
    congr 1; funext i; congr 1; funext a; congr 1; funext p
    simp [padd, Nat.add_assoc]

theorem offs_unit (s d : Nat) (r : List (Nat × Nat × Nat)) : offs ((1, s, d) :: r) = offs r := by
  simp [offs]

/-- loops with trip count 1 can be removed -/
theorem offs_filter_unit (l : List (Nat × Nat × Nat)) : offs (l.filter (fun t => t.1 != 1)) = offs l := by
  induction l with
  | nil => rfl
  | cons x r ih =>
    obtain ⟨b, s, d⟩ := x
    by_cases hb : b = 1
    · subst hb; simp [offs_unit, ih]
    · simp [hb, offs, ih]

def prodT : List (Nat × Nat × Nat) → Nat
  | [] => 1
  | (b, _, _) :: r => b * prodT r

/-- a contiguous chain common to both sides: every step equals the number of bytes below it -/
def DenseT : List (Nat × Nat × Nat) → Prop
  | [] => True
  | (_, s, d) :: r => s = prodT r ∧ d = prodT r ∧ DenseT r

theorem range_mul_flatMap (q t : Nat) :
    (List.range q).flatMap (fun i => (List.range t).map (fun j => i * t + j)) = List.range (q * t) := by
  induction q with
  | zero => simp
  | succ n ih =>
    rw [List.range_succ, List.flatMap_append, ih]
    simp only [List.flatMap_cons, List.flatMap_nil, List.append_nil]
    rw [Nat.succ_mul, List.range_add]

/-- a dense chain is one burst: offsets `0 .. Π bounds − 1` on both sides, in order -/
theorem offs_dense : ∀ l, DenseT l → offs l = (List.range (prodT l)).map fun k => (k, k)
  | [], _ => rfl
  | (b, s, d) :: r, h => by
    obtain ⟨hs, hd, hr⟩ := h
    simp only [offs, prodT, offs_dense r hr, hs, hd, map_map]
    rw [← range_mul_flatMap b (prodT r), map_flatMap]
    simp only [map_map]
    rfl


theorem offs_units_append (U Y : List (Nat × Nat × Nat)) (h : ∀ t ∈ U, t.1 = 1) : offs (U ++ Y) = offs Y := by
  induction U with
  | nil => rfl
  | cons x r ih =>
    obtain ⟨b, s, d⟩ := x
    have hb : b = 1 := h (b, s, d) (by simp)
    subst hb
    rw [cons_append, offs_unit]
    exact ih (fun t ht => h t (by simp [ht]))

theorem prodT_append (a b : List (Nat × Nat × Nat)) : prodT (a ++ b) = prodT a * prodT b := by
  induction a with
  | nil => simp [prodT]
  | cons x r ih => obtain ⟨c, s, d⟩ := x; simp [prodT, ih, Nat.mul_assoc]

theorem prodT_perm {a b : List (Nat × Nat × Nat)} (h : a ~ b) : prodT a = prodT b := by
  induction h with
  | nil => rfl
  | cons x _ ih => obtain ⟨c, s, d⟩ := x; simp [prodT, ih]
  | swap x y l => obtain ⟨c, s, d⟩ := x; obtain ⟨c', s', d'⟩ := y; simp [prodT]; ac_rfl
  | trans _ _ i1 i2 => exact i1.trans i2

theorem prodT_units (U : List (Nat × Nat × Nat)) (h : ∀ t ∈ U, t.1 = 1) : prodT U = 1 := by
  induction U with
  | nil => rfl
  | cons x r ih =>
    obtain ⟨b, s, d⟩ := x
    have hb : b = 1 := h (b, s, d) (by simp)
    simp [prodT, hb, ih (fun t ht => h t (by simp [ht]))]

/-! ### tile digits: the logical index box against the tile-digit loop nest -/

theorem prodB_eq_prodT (es : List Entry) : prodB es = prodT (es.map Entry.triple) := by
  induction es with
  | nil => rfl
  | cons e r ih => simp [prodB, prodT, Entry.triple, ih]

theorem tileAddr_range (es : List Entry) :
    (List.range (prodB es)).map (tileAddr es) = offs (es.map Entry.triple) := by
  induction es with
  | nil => simp [prodB, tileAddr, offs]
  | cons e r ih =>
    simp only [prodB, map_cons, Entry.triple, offs]
    rw [← range_mul_flatMap e.bound (prodB r), map_flatMap]
    congr 1; funext i
    rw [← ih, map_map, map_map]
    apply List.map_congr_left
    intro j hj
    have hj' : j < prodB r := by simpa using hj
    have hpos : 0 < prodB r := by omega
    simp only [Function.comp, tileAddr]
    have h1 : (i * prodB r + j) / prodB r = i := by
      rw [Nat.mul_comm, Nat.mul_add_div hpos, Nat.div_eq_of_lt hj']; rfl
    have h2 : (i * prodB r + j) % prodB r = j := by
      rw [Nat.mul_comm, Nat.mul_add_mod, Nat.mod_eq_of_lt hj']
    rw [h1, h2]

theorem box_elemAddr (nested : List (List Entry)) :
    (box (nested.map prodB)).map (elemAddr nested) = offs (nested.flatten.map Entry.triple) := by
  induction nested with
  | nil => simp [box, elemAddr, offs]
  | cons d ds ih =>
    simp only [map_cons, box, flatten_cons, map_append, offs_append, ← tileAddr_range, ← ih,
      map_flatMap, flatMap_map, map_map]
    congr 1

def shift (sb db : Nat) (l : List (Nat × Nat)) : List (Nat × Nat) := l.map fun o => (sb + o.1, db + o.2)

theorem shift_perm {sb db} {a b : List (Nat × Nat)} (h : a ~ b) : shift sb db a ~ shift sb db b := h.map _

theorem offs_elBytes (el : Nat) : offs [(el, 1, 1)] = (List.range el).map fun k => (k, k) := by
  simp only [offs, map_cons, map_nil, Nat.mul_one, Nat.add_zero]
  induction (List.range el) with
  | nil => rfl
  | cons a r ih => simp [ih]

/-- the demanded moves are the loop nest over all tile digits of all dimensions plus the bytes of an element -/
theorem expectedMoves_eq (el sb db : Nat) (nested : List (List Entry)) :
    expectedMoves el sb db (nested.map prodB) nested =
      shift sb db (offs (nested.flatten.map Entry.triple ++ [(el, 1, 1)])) := by
  unfold expectedMoves shift
  rw [offs_append, ← box_elemAddr, offs_elBytes, map_flatMap, flatMap_map]
  congr 1; funext idx
  simp [padd, Nat.add_assoc]


/-! ### the emitted program -/

theorem insDesc_perm (x : Entry) (l : List Entry) : insDesc x l ~ x :: l := by
  induction l with
  | nil => exact Perm.refl _
  | cons y r ih =>
    unfold insDesc
    split
    · exact (Perm.cons y ih).trans (Perm.swap x y r)
    · exact Perm.refl _

theorem sortDesc_perm (l : List Entry) : sortDesc l ~ l := by
  induction l with
  | nil => exact Perm.refl _
  | cons x r ih => exact (insDesc_perm x _).trans (Perm.cons x ih)

theorem moves_oneD (sb db n : Nat) :
    DmaProg.moves ⟨sb, db, [], .oneD n⟩ = shift sb db ((List.range n).map fun k => (k, k)) := by
  simp [DmaProg.moves, DmaProg.calls, offs, Xfer.moves, shift]

theorem moves_twoD (sb db : Nat) (loops : List (Nat × Nat × Nat)) (n ss ds rep : Nat) (B : List (Nat × Nat × Nat))
    (hB : offs B = (List.range n).map fun k => (k, k)) :
    DmaProg.moves ⟨sb, db, loops, .twoD n ss ds rep⟩ = shift sb db (offs (loops ++ (rep, ss, ds) :: B)) := by
  simp only [DmaProg.moves, DmaProg.calls, Xfer.moves, shift, offs_append, offs, hB, flatMap_map, map_flatMap,
    map_map]
  congr 1; funext o; congr 1; funext r; congr 1; funext k
  simp [padd, Nat.add_assoc]


/-! ### `largest_common_contiguous_block` -/

/-- value of `current_stride` after the members `racc` (outermost = most recently found first) -/
def curOf : List Entry → Option Nat
  | [] => some 1
  | m :: _ => nextCur m.ss

/-- members, most recently found first: each sits at a position where both layouts have the same stride, and its
step is the `current_stride` left by the previous member (1 for the first). -/
def ChainR : List Entry → Prop
  | [] => True
  | m :: r => m.ss = m.ds ∧ m.ss.step = curOf r ∧ ChainR r

theorem findStep_some {cur : Option Nat} {l : List Entry} {e : Entry} (h : findStep cur l = some e) :
    e ∈ l ∧ e.ss.step = cur := by
  unfold findStep at h
  split at h
  next e' he' =>
    injection h with h; subst h
    have := List.find?_some he'
    exact ⟨List.mem_of_find?_eq_some he', by simpa using (by simpa using this : _ ∧ _).2⟩
  next =>
    have := List.find?_some h
    exact ⟨List.mem_of_find?_eq_some h, by simpa using (by simpa using this : _ ∧ _).2⟩

theorem lcbLoop_inv (flat : List Entry) : ∀ (fuel : Nat) (l : List Entry) (cur : Option Nat) (acc : List Entry)
    (res : List Entry × List Entry),
    lcbLoop fuel l cur acc = .ok res → ChainR acc.reverse → cur = curOf acc.reverse → flat ~ acc ++ l →
    ChainR res.1.reverse ∧ flat ~ res.1 ++ res.2
  | 0, _, _, _, _, h, _, _, _ => by simp [lcbLoop] at h
  | fuel + 1, l, cur, acc, res, h, hc, hcur, hp => by
    unfold lcbLoop at h
    split at h
    · injection h with h; subst h; exact ⟨hc, hp⟩
    next e he =>
      obtain ⟨hmem, hstep⟩ := findStep_some he
      split at h
      next heq =>
        refine lcbLoop_inv flat fuel _ _ _ res h ?_ ?_ ?_
        · simp only [reverse_append, reverse_cons, reverse_nil, nil_append, cons_append]
          exact ⟨heq, by rw [hstep, hcur], hc⟩
        · simp [curOf]
        · have : l ~ e :: l.erase e := perm_cons_erase hmem
          refine hp.trans ?_
          rw [append_assoc]
          exact Perm.append_left _ (by simpa using this)
      · injection h with h; subst h; exact ⟨hc, hp⟩

theorem lcbSplit_inv {flat : List Entry} {mr : List Entry × List Entry} (h : lcbSplit flat = .ok mr) :
    ChainR mr.1.reverse ∧ flat ~ mr.1 ++ mr.2 :=
  lcbLoop_inv flat _ _ _ _ _ h (by simp [ChainR]) (by simp [curOf]) (by simp)

theorem lcbMembers_split {flat mem : List Entry} (h : lcbMembers flat = .ok mem) :
    ∃ rest, lcbSplit flat = .ok (mem, rest) := by
  unfold lcbMembers at h
  cases hs : lcbSplit flat with
  | error e => simp [hs, Except.map] at h
  | ok mr =>
    simp [hs, Except.map] at h
    exact ⟨mr.2, by rw [← h]⟩

theorem lcbMembers_inv {flat mem : List Entry} (h : lcbMembers flat = .ok mem) :
    ChainR mem.reverse ∧ ∃ rest, flat ~ mem ++ rest := by
  obtain ⟨rest, hs⟩ := lcbMembers_split h
  exact ⟨(lcbSplit_inv hs).1, rest, (lcbSplit_inv hs).2⟩

/-- the run-time values of an entry agree with the static strides where those are static -/
def Entry.Consistent (el : Nat) (e : Entry) : Prop :=
  (∀ s, e.ss.step = some s → e.sstep = s * el) ∧ (∀ s, e.ds.step = some s → e.dstep = s * el) ∧
  (∀ b, e.ss.bound = some b → e.bound = b)

/-- a chain whose steps are all static is one dense burst in both layouts (in bytes, element bytes innermost) -/
theorem chain_dense (el : Nat) : ∀ (r : List Entry), ChainR r → (∀ m ∈ r, m.ss.step ≠ none) →
    (∀ m ∈ r, m.Consistent el) → DenseT (r.map Entry.triple ++ [(el, 1, 1)])
  | [], _, _, _ => by simp [DenseT, prodT]
  | [m], hc, hs, hk => by
    obtain ⟨heq, hstep, _⟩ := hc
    obtain ⟨k1, k2, _⟩ := hk m (by simp)
    simp only [curOf] at hstep
    have h1 := k1 1 hstep
    have h2 := k2 1 (by rw [← heq]; exact hstep)
    simp [DenseT, prodT, Entry.triple, h1, h2]
  | m :: m' :: r, hc, hs, hk => by
    obtain ⟨heq, hstep, hc'⟩ := hc
    have ih := chain_dense el (m' :: r) hc' (fun x hx => hs x (by simp [hx])) (fun x hx => hk x (by simp [hx]))
    obtain ⟨k1, k2, _⟩ := hk m (by simp)
    obtain ⟨k1', _, k3'⟩ := hk m' (by simp)
    have hne := hs m (by simp)
    simp only [curOf, nextCur] at hstep
    cases ha : m'.ss.step with
    | none => simp [ha] at hstep; exact absurd hstep hne
    | some a =>
      cases hb : m'.ss.bound with
      | none => simp [ha, hb] at hstep; exact absurd hstep hne
      | some b =>
        simp only [ha, hb] at hstep
        have h1 := k1 _ hstep
        have h2 := k2 _ (by rw [← heq]; exact hstep)
        have h3 := k1' a ha
        have h4 := k3' b hb
        obtain ⟨d1, _, _⟩ := (by simpa [DenseT, Entry.triple] using ih : _ ∧ _ ∧ _)
        refine ⟨?_, ?_, ih⟩
        · show m.sstep = prodT (m'.triple :: (r.map Entry.triple ++ [(el, 1, 1)]))
          simp only [prodT, Entry.triple]
          rw [h1, h4, ← d1, h3, Nat.mul_comm a b, Nat.mul_assoc]
        · show m.dstep = prodT (m'.triple :: (r.map Entry.triple ++ [(el, 1, 1)]))
          simp only [prodT, Entry.triple]
          rw [h2, h4, ← d1, h3, Nat.mul_comm a b, Nat.mul_assoc]


/-! ### by-value membership (`stride not in lcb`) -/

/-- `ByValueDistinct`: two different positions carry the same source Stride value with a static step only if both
have bound 1 -/
def ByValueDistinct (flat : List Entry) : Prop :=
  flat.Pairwise fun a b => a.ss = b.ss → a.ss.step ≠ none → a.bound = 1 ∧ b.bound = 1

theorem byValue_split (el : Nat) {flat mem : List Entry} (hm : lcbMembers flat = .ok mem)
    (hcons : ∀ e ∈ flat, e.Consistent el) (hstatic : ∀ m ∈ mem, m.ss.step ≠ none) (hbv : ByValueDistinct flat) :
    ∃ U R, flat ~ U ++ (R ++ mem.reverse) ∧ (∀ u ∈ U, u.bound = 1) ∧ remaining (lcbOfMembers mem) flat ~ R := by
  obtain ⟨_, rest0, hperm⟩ := lcbMembers_inv hm
  let pr : Entry → Bool := fun e => !(lcbOfMembers mem).contains e.ss
  refine ⟨rest0.filter (fun e => !pr e), rest0.filter pr, ?_, ?_, ?_⟩
  · refine hperm.trans ?_
    have h1 : rest0 ~ rest0.filter (fun e => !pr e) ++ rest0.filter pr := by
      have := filter_append_perm (fun e => !pr e) rest0
      simpa using this.symm
    have h2 : mem ~ mem.reverse := (reverse_perm mem).symm
    calc mem ++ rest0 ~ rest0 ++ mem := perm_append_comm
      _ ~ (rest0.filter (fun e => !pr e) ++ rest0.filter pr) ++ mem.reverse := Perm.append h1 h2
      _ = _ := by rw [append_assoc]
  · intro u hu
    rw [mem_filter] at hu
    obtain ⟨hu0, hu1⟩ := hu
    have hin : (lcbOfMembers mem).contains u.ss = true := by simpa [pr] using hu1
    have huflat : u ∈ flat := hperm.symm.subset (by simp [hu0])
    unfold lcbOfMembers at hin
    split at hin
    · -- default block [Stride(1,1)]
      have : u.ss = ⟨some 1, some 1⟩ := by simpa [defaultLcb] using hin
      exact (hcons u huflat).2.2 1 (by rw [this])
    · have hin' : u.ss ∈ mem.map (·.ss) := by simpa using hin
      obtain ⟨m, hm1, hm2⟩ := mem_map.mp hin'
      have hpw : (mem ++ rest0).Pairwise fun a b => a.ss = b.ss → a.ss.step ≠ none → a.bound = 1 ∧ b.bound = 1 :=
        (hperm.pairwise_iff (by intro a b hab h hn; exact (hab h.symm (by rw [← h]; exact hn)).symm)).mp hbv
      exact ((pairwise_append.mp hpw).2.2 m hm1 u hu0 hm2 (hstatic m hm1)).2
  · unfold remaining
    have h0 : flat.filter pr ~ (mem ++ rest0).filter pr := hperm.filter _
    refine h0.trans ?_
    rw [filter_append]
    have : mem.filter pr = [] := by
      rw [filter_eq_nil_iff]
      intro m hm1
      have hne : mem.isEmpty = false := by cases mem <;> simp_all
      simp only [pr, lcbOfMembers, hne]
      simp
      exact ⟨m, hm1, rfl⟩
    rw [this, nil_append]


/-! ### steps 4–6 -/

/-- size of the burst named by the last LCB member -/
theorem burst_size (el : Nat) (mem : List Entry) (hc : ChainR mem.reverse) (hs : ∀ m ∈ mem, m.ss.step ≠ none)
    (hk : ∀ m ∈ mem, m.Consistent el) (last : Stride) (lb ls : Nat)
    (hl : (lcbOfMembers mem).getLast? = some last) (h1 : last.bound = some lb) (h2 : last.step = some ls) :
    prodT (mem.reverse.map Entry.triple ++ [(el, 1, 1)]) = lb * ls * el := by
  have hd := chain_dense el mem.reverse hc (fun m hm => hs m (by simpa using hm)) (fun m hm => hk m (by simpa using hm))
  cases hr : mem.reverse with
  | nil =>
    have : mem = [] := by simpa using hr
    subst this
    simp [lcbOfMembers, defaultLcb] at hl
    subst hl
    simp at h1 h2; subst h1 h2
    simp [prodT]
  | cons m r =>
    have hmem : mem = r.reverse ++ [m] := by
      have := congrArg List.reverse hr; simpa using this
    subst hmem
    have hl' : last = m.ss := by
      simp [lcbOfMembers] at hl; exact hl.symm
    subst hl'
    rw [hr] at hd
    obtain ⟨d1, _, _⟩ := (by simpa [DenseT, Entry.triple] using hd : _ ∧ _ ∧ _)
    obtain ⟨k1, _, k3⟩ := hk m (by simp)
    simp only [map_cons, cons_append, prodT, Entry.triple]
    rw [← d1, k1 ls h2, k3 lb h1, Nat.mul_assoc]

/-! ### step 6.2/6.3: the loop nest built by index arithmetic is the list of remaining strides, in order -/

theorem wrapLoops_aux (upper : List Nat) (hne : upper ≠ []) : ∀ k, k ≤ upper.length - 1 →
    (List.range k).foldl (fun nest i => upper.getD (upper.length - 2 - i) 0 :: nest) [upper.getLastD 0] =
      upper.drop (upper.length - 1 - k)
  | 0, _ => by
    simp only [range_zero, foldl_nil, Nat.sub_zero]
    cases h : upper.reverse with
    | nil => exact absurd (by simpa using h) hne
    | cons a r =>
      have hu : upper = r.reverse ++ [a] := by simpa using congrArg List.reverse h
      subst hu; simp
  | k + 1, hk => by
    rw [range_succ, foldl_append, wrapLoops_aux upper hne k (by omega)]
    simp only [foldl_cons, foldl_nil]
    have hlt : upper.length - 2 - k < upper.length := by omega
    have h1 : upper.length - 1 - (k + 1) = upper.length - 2 - k := by omega
    have h2 : upper.length - 1 - k = upper.length - 2 - k + 1 := by omega
    rw [h1, h2, List.drop_eq_getElem_cons hlt]
    simp [List.getD_eq_getElem?_getD, List.getElem?_eq_getElem hlt]

/-- for every number of loops: the nest has exactly the trip counts `upper`, outermost first -/
theorem wrapLoops_eq (upper : List Nat) (h : upper ≠ []) : wrapLoops upper = upper := by
  unfold wrapLoops
  rw [wrapLoops_aux upper h (upper.length - 1) (Nat.le_refl _)]
  simp

theorem zipWith_bound_triple (rest : List Entry) :
    List.zipWith (fun b (e : Entry) => (b, e.sstep, e.dstep)) (rest.map (·.bound)) rest = rest.map Entry.triple := by
  induction rest with
  | nil => rfl
  | cons e r ih => simp [Entry.triple, ih]

theorem buildLoops_eq (rest : List Entry) : buildLoops rest = rest.map Entry.triple := by
  unfold buildLoops
  split
  next h => simp [show rest = [] by simpa using h]
  next h =>
    rw [wrapLoops_eq _ (by intro hn; apply h; simpa using hn), zipWith_bound_triple]

/-- core of steps 4–6: whatever list `remL` of remaining strides is handed to `build`, if the flat entries split
into loops of trip count 1 (`U`), a permutation `R` of `remL`, and the block members, the program performs the loop
nest over ALL entries and the element bytes. -/
theorem build_moves_core (el sb db total : Nat) (flat mem remL : List Entry) (p : DmaProg)
    (hchain : ChainR mem.reverse)
    (hb : build el sb db total (lcbOfMembers mem) remL = .ok p)
    (hkmem : ∀ m ∈ mem, m.Consistent el)
    (hstatic : ∀ m ∈ mem, m.ss.step ≠ none)
    (hsplit : ∃ U R, flat ~ U ++ (R ++ mem.reverse) ∧ (∀ u ∈ U, u.bound = 1) ∧ remL ~ R)
    (htotal : total = prodT (flat.map Entry.triple) * el) :
    p.moves ~ shift sb db (offs (flat.map Entry.triple ++ [(el, 1, 1)])) := by
  obtain ⟨U, R, hsplit, hU, hrem⟩ := hsplit
  have hUT : ∀ t ∈ U.map Entry.triple, t.1 = 1 := by
    intro t ht; obtain ⟨u, hu, rfl⟩ := mem_map.mp ht; exact hU u hu
  let B := mem.reverse.map Entry.triple ++ [(el, 1, 1)]
  have hdense : DenseT B :=
    chain_dense el mem.reverse hchain (fun m h => hstatic m (by simpa using h)) (fun m h => hkmem m (by simpa using h))
  have hflatT : flat.map Entry.triple ++ [(el, 1, 1)] ~ U.map Entry.triple ++ (R.map Entry.triple ++ B) := by
    have := (hsplit.map Entry.triple).append_right [(el, 1, 1)]
    simpa [B, append_assoc] using this
  have hoffs : offs (flat.map Entry.triple ++ [(el, 1, 1)]) ~ offs (R.map Entry.triple ++ B) := by
    have := offs_perm hflatT
    rwa [offs_units_append _ _ hUT] at this
  unfold build at hb
  split at hb
  next hs =>
    -- no remaining strides: one 1-D transfer of the total size
    injection hb with hb; subst hb
    have hremnil : remL = [] := by
      have := (sortDesc_perm remL); rw [hs] at this; exact this.symm.eq_nil
    have hR : R = [] := by rw [hremnil] at hrem; exact hrem.symm.eq_nil
    subst hR
    rw [moves_oneD]
    refine (shift_perm ?_).symm
    refine hoffs.trans (Perm.of_eq ?_)
    simp only [map_nil, nil_append]
    rw [offs_dense B hdense]
    have : prodT B = total := by
      rw [htotal]
      have h1 := prodT_perm hflatT
      simp only [map_nil, nil_append] at h1
      rw [prodT_append, prodT_append, prodT_units _ hUT] at h1
      simp only [prodT, Nat.mul_one, Nat.one_mul] at h1
      exact h1.symm
    rw [this]
  next h rest hs =>
    split at hb
    · simp at hb
    next last hl =>
      split at hb
      next lb ls h1 h2 =>
        injection hb with hb; subst hb
        rw [buildLoops_eq]
        have hsz : prodT B = lb * ls * el := burst_size el mem hchain hstatic hkmem last lb ls hl h1 h2
        have hB : offs B = (List.range (lb * ls * el)).map fun k => (k, k) := by rw [offs_dense B hdense, hsz]
        rw [moves_twoD sb db _ _ _ _ _ B hB]
        refine (shift_perm ?_).symm
        refine hoffs.trans (offs_perm ?_)
        have h3 : (h :: rest) ~ R := by rw [← hs]; exact (sortDesc_perm _).trans hrem
        have h4 : rest.map Entry.triple ++ [h.triple] ~ R.map Entry.triple := by
          have := h3.map Entry.triple
          exact (perm_append_comm.trans (by simp)).trans this
        have : rest.map Entry.triple ++ (h.bound, h.sstep, h.dstep) :: B =
            (rest.map Entry.triple ++ [h.triple]) ++ B := by simp [Entry.triple]
        rw [this]
        exact (h4.append_right B).symm
      · simp at hb

/-- with fix F21 (membership by position): besides the members only loops of trip count 1 are dropped, with no
assumption on the layout. -/
theorem byKey_split (el : Nat) {flat : List Entry} {mr : List Entry × List Entry} (hs : lcbSplit flat = .ok mr)
    (hcons : ∀ e ∈ flat, e.Consistent el) :
    ∃ U R, flat ~ U ++ (R ++ mr.1.reverse) ∧ (∀ u ∈ U, u.bound = 1) ∧ remainingByKey (lcbOfMembers mr.1) mr.2 ~ R := by
  obtain ⟨_, hperm⟩ := lcbSplit_inv hs
  let pr : Entry → Bool := fun e => !unitCovered (lcbOfMembers mr.1) e
  refine ⟨mr.2.filter (fun e => !pr e), mr.2.filter pr, ?_, ?_, Perm.refl _⟩
  · refine hperm.trans ?_
    have h1 : mr.2 ~ mr.2.filter (fun e => !pr e) ++ mr.2.filter pr := by
      have := filter_append_perm (fun e => !pr e) mr.2
      simpa using this.symm
    have h2 : mr.1 ~ mr.1.reverse := (reverse_perm mr.1).symm
    calc mr.1 ++ mr.2 ~ mr.2 ++ mr.1 := perm_append_comm
      _ ~ (mr.2.filter (fun e => !pr e) ++ mr.2.filter pr) ++ mr.1.reverse := Perm.append h1 h2
      _ = _ := by rw [append_assoc]
  · intro u hu
    rw [mem_filter] at hu
    obtain ⟨hu0, hu1⟩ := hu
    have huflat : u ∈ flat := hperm.symm.subset (by simp [hu0])
    have hb : u.ss.bound = some 1 := by
      simp only [pr, unitCovered, Bool.not_not, Bool.and_eq_true, beq_iff_eq] at hu1
      exact hu1.2
    exact (hcons u huflat).2.2 1 hb

theorem prodT_flatten (nested : List (List Entry)) :
    prodT (nested.flatten.map Entry.triple) = (nested.map prodB).foldr (· * ·) 1 := by
  induction nested with
  | nil => rfl
  | cons d ds ih => rw [flatten_cons, map_append, prodT_append, ih, map_cons, foldr_cons, prodB_eq_prodT]

theorem lcbOfMembers_static {mem : List Entry} {lcb : List Stride} (hl : lcb = lcbOfMembers mem)
    (hLS : ∀ s ∈ lcb, s.step ≠ none) : ∀ m ∈ mem, m.ss.step ≠ none := by
  intro m hmm
  apply hLS
  rw [hl]
  unfold lcbOfMembers
  have : mem.isEmpty = false := by cases mem <;> simp_all
  simp only [this]
  exact mem_map.mpr ⟨m, hmm, rfl⟩

/-- steps 2–6 WITH fix F21: no by-value clause. -/
theorem lowerResolved_moves (el sb db : Nat) (nested : List (List Entry)) (lcb : List Stride) (p : DmaProg)
    (h : lowerResolved false el sb db (nested.map prodB) nested = .ok (lcb, p))
    (hLS : ∀ s ∈ lcb, s.step ≠ none)
    (hRC : ∀ e ∈ nested.flatten, e.Consistent el) :
    p.moves ~ expectedMoves el sb db (nested.map prodB) nested := by
  unfold lowerResolved at h
  split at h
  · simp at h
  next mr hm =>
    split at h
    · simp at h
    next p' hb =>
      simp only [Except.ok.injEq, Prod.mk.injEq] at h
      obtain ⟨h1, h2⟩ := h
      subst h2
      obtain ⟨hchain, hperm⟩ := lcbSplit_inv hm
      have hkmem : ∀ m ∈ mr.1, m.Consistent el := fun m hmm => hRC m (hperm.symm.subset (by simp [hmm]))
      rw [expectedMoves_eq]
      simp only [Bool.false_eq_true, if_false] at hb
      exact build_moves_core el sb db _ nested.flatten mr.1 _ p' hchain hb hkmem
        (lcbOfMembers_static h1.symm hLS) (byKey_split el hm hRC) (by rw [totalBytes, prodT_flatten])

/-- steps 2–6 BEFORE fix F21 (by-value membership): needs `ByValueDistinct`. -/
theorem lowerResolved_moves_byValue (el sb db : Nat) (nested : List (List Entry)) (lcb : List Stride) (p : DmaProg)
    (h : lowerResolved true el sb db (nested.map prodB) nested = .ok (lcb, p))
    (hLS : ∀ s ∈ lcb, s.step ≠ none) (hBV : ByValueDistinct nested.flatten)
    (hRC : ∀ e ∈ nested.flatten, e.Consistent el) :
    p.moves ~ expectedMoves el sb db (nested.map prodB) nested := by
  unfold lowerResolved at h
  split at h
  · simp at h
  next mr hm =>
    split at h
    · simp at h
    next p' hb =>
      simp only [Except.ok.injEq, Prod.mk.injEq] at h
      obtain ⟨h1, h2⟩ := h
      subst h2
      obtain ⟨hchain, hperm⟩ := lcbSplit_inv hm
      have hkmem : ∀ m ∈ mr.1, m.Consistent el := fun m hmm => hRC m (hperm.symm.subset (by simp [hmm]))
      have hmem : lcbMembers nested.flatten = .ok mr.1 := by simp [lcbMembers, hm, Except.map]
      have hst := lcbOfMembers_static h1.symm hLS
      rw [expectedMoves_eq]
      simp only [if_true] at hb
      exact build_moves_core el sb db _ nested.flatten mr.1 _ p' hchain hb hkmem hst
        (byValue_split el hmem hRC hst hBV) (by rw [totalBytes, prodT_flatten])

theorem lowerResolved_bases {bv : Bool} {el sb db : Nat} {shape : List Nat} {nested : List (List Entry)}
    {r : List Stride × DmaProg} (hr : lowerResolved bv el sb db shape nested = .ok r) :
    r.2.sbase = sb ∧ r.2.dbase = db := by
  unfold lowerResolved at hr
  split at hr
  · simp at hr
  split at hr
  · simp at hr
  next p hp =>
    simp only [Except.ok.injEq] at hr
    subst hr
    unfold build at hp
    split at hp
    · injection hp with hp; subst hp; exact ⟨rfl, rfl⟩
    · split at hp
      · simp at hp
      · split at hp
        · injection hp with hp; subst hp; exact ⟨rfl, rfl⟩
        · simp at hp

theorem transformDma_inv {bv : Bool} {src dst : MemTy} {rs rd : Rt} {l : Lowered}
    (h : transformDma bv src dst rs rd = .ok l) :
    lowerResolved bv src.el l.prog.sbase l.prog.dbase rs.shape l.nested = .ok (l.lcb, l.prog) := by
  unfold transformDma at h
  split at h
  · simp at h
  split at h
  · simp at h
  split at h
  · simp at h
  split at h
  · simp at h
  split at h
  · simp at h
  next r hr =>
    simp only [Except.ok.injEq] at h
    subst h
    obtain ⟨h1, h2⟩ := lowerResolved_bases hr
    simp only
    rw [h1, h2]
    exact hr

/-! ### the default layout (MatchSimpleCopy) -/

theorem rowMajor_prodB (el : Nat) (shape : List Nat) : (rowMajorNested el shape).map prodB = shape := by
  induction shape with
  | nil => rfl
  | cons n r ih => simp [rowMajorNested, prodB, ih]

theorem rowMajor_prodT (el : Nat) (shape : List Nat) :
    prodT ((rowMajorNested el shape).flatten.map Entry.triple ++ [(el, 1, 1)]) = shape.foldr (· * ·) 1 * el := by
  rw [prodT_append, prodT_flatten, rowMajor_prodB]; simp [prodT]

theorem rowMajor_dense (el : Nat) (shape : List Nat) :
    DenseT ((rowMajorNested el shape).flatten.map Entry.triple ++ [(el, 1, 1)]) := by
  induction shape with
  | nil => simp [rowMajorNested, DenseT, prodT]
  | cons n r ih =>
    simp only [rowMajorNested, flatten_cons, map_append, map_cons, map_nil, Entry.triple, cons_append, nil_append,
      DenseT]
    exact ⟨(rowMajor_prodT el r).symm, (rowMajor_prodT el r).symm, ih⟩


/-! ### decidable forms of the clauses (for witnesses) -/

def Entry.consistentB (el : Nat) (e : Entry) : Bool :=
  (match e.ss.step with | some s => e.sstep == s * el | none => true) &&
  (match e.ds.step with | some s => e.dstep == s * el | none => true) &&
  (match e.ss.bound with | some b => e.bound == b | none => true)

theorem consistentB_sound {el : Nat} {e : Entry} (h : e.consistentB el = true) : e.Consistent el := by
  unfold Entry.consistentB at h
  simp only [Bool.and_eq_true] at h
  obtain ⟨⟨h1, h2⟩, h3⟩ := h
  refine ⟨?_, ?_, ?_⟩
  · intro s hs; rw [hs] at h1; simpa using h1
  · intro s hs; rw [hs] at h2; simpa using h2
  · intro b hb; rw [hb] at h3; simpa using h3

/-- Bool form of `ByValueDistinct` -/
def byValueDistinctB : List Entry → Bool
  | [] => true
  | a :: r => r.all (fun b => !(a.ss == b.ss) || a.ss.step.isNone || (a.bound == 1 && b.bound == 1)) &&
    byValueDistinctB r

theorem byValueDistinctB_sound : ∀ {l : List Entry}, byValueDistinctB l = true → ByValueDistinct l
  | [], _ => Pairwise.nil
  | a :: r, h => by
    simp only [byValueDistinctB, Bool.and_eq_true, all_eq_true] at h
    refine Pairwise.cons ?_ (byValueDistinctB_sound h.2)
    intro b hb heq hn
    have := h.1 b hb
    simp [heq] at this
    rcases this with h1 | h1
    · rw [← heq] at h1; exact absurd h1 hn
    · exact h1

end SnaxVerif.Dma
