import SnaxVerif.Lemmas.PhsCombine
import SnaxVerif.Lemmas.PhsDecode
/-! C20: merge histories of any length. Core Lean only. -/
namespace SnaxVerif.Phs

variable [Variant]

theorem slotInv_of_noMux {A : PE} (h : ∀ k p t, A.slot k p = some t → t.hasMux = false) : SlotInv A := by
  refine ⟨?_, ?_, ?_⟩
  · intro k p t ht
    have := h k p t ht
    cases t <;> simp_all [Src.hasMux, treeOk]
  · intro k p t ht x hx
    rw [srcMuxes_of_noMux (h k p t ht)] at hx; simp at hx
  · intro k p t k' p' t' ht _ _ x hx
    rw [srcMuxes_of_noMux (h k p t ht)] at hx; simp at hx

theorem kwf_parts {K : PE} (h : K.kwf = true) :
    K.wf = true ∧ K.isConcrete = true ∧ swTargetsOk K = true ∧ K.refsOk = true := by
  simp only [PE.kwf, Bool.and_eq_true] at h
  exact ⟨h.1.1.1, h.1.1.2, h.1.2, h.2⟩

theorem swT_of_ok {A : PE} (h : swTargetsOk A = true) : SwT A := by
  intro s j hs
  simp only [swTargetsOk, List.all_eq_true] at h
  have := h _ (List.mem_of_getElem? hs)
  simp only [Option.isSome_iff_exists] at this
  exact this

/-- a kernel satisfies the invariant of merged graphs -/
theorem inv_of_kernel {K : PE} (h : K.kwf = true) : Inv K := by
  obtain ⟨hwf, hcon, hsw, _⟩ := kwf_parts h
  refine ⟨wf_unique hwf, fun j n hn => (wf_node hwf hn).1, fun j n hn => (wf_node hwf hn).2.2.1, swT_of_ok hsw, ?_⟩
  apply slotInv_of_noMux
  intro k p t ht
  cases k with
  | none =>
    cases p with
    | zero => simp only [PE.slot, Option.some.injEq] at ht; subst ht; exact concrete_yld hcon
    | succ p => simp [PE.slot] at ht
  | some j =>
    simp only [PE.slot] at ht
    cases hn : K.nodes[j]? with
    | none => simp [hn] at ht
    | some n =>
      simp only [hn, Option.bind_some] at ht
      exact (concrete_node hcon (List.mem_of_getElem? hn)).2 t (List.mem_of_getElem? ht)

theorem leafOf_of_refOk {K : PE} {t : Src} (hm : t.hasMux = false) (hr : srcRefOk K t = true) :
    ∃ l, K.leafOf t = some l := by
  cases t with
  | arg i => exact ⟨_, rfl⟩
  | mux _ _ _ => simp [Src.hasMux] at hm
  | node j =>
    simp only [srcRefOk, Option.isSome_iff_exists] at hr
    obtain ⟨n, hn⟩ := hr
    exact ⟨.name n.id, by simp [PE.leafOf, hn]⟩

/-- a kernel is routable in, and covered by, itself -/
theorem routable_self {K : PE} (h : K.kwf = true) : Routable K K ∧ covers K K = true := by
  obtain ⟨hwf, hcon, _, href⟩ := kwf_parts h
  simp only [PE.refsOk, Bool.and_eq_true, List.all_eq_true] at href
  have hu := wf_unique hwf
  refine ⟨⟨?_, ?_⟩, ?_⟩
  · intro c k hk
    have hkm : k ∈ K.nodes := List.mem_of_getElem? hk
    refine ⟨c, k, lookup_of_get hu hk, hk, rfl, ?_⟩
    intro p t ht
    have htm : t ∈ k.operands := List.mem_of_getElem? ht
    have hm := (concrete_node hcon hkm).2 t htm
    obtain ⟨l, hl⟩ := leafOf_of_refOk hm (href.1 k hkm t htm)
    exact ⟨l, t, hl, ht, (poss_noMux K hm l).mpr hl⟩
  · have hm := concrete_yld hcon
    obtain ⟨l, hl⟩ := leafOf_of_refOk hm href.2
    exact ⟨l, hl, (poss_noMux K hm l).mpr hl⟩
  · simp only [covers, List.all_eq_true]
    intro k hkm
    obtain ⟨c, hc, hck⟩ := List.getElem_of_mem hkm
    have hk : K.nodes[c]? = some k := by rw [List.getElem?_eq_getElem hc, hck]
    simp only [coversNode, lookup_of_get hu hk, hk, List.all_eq_true, List.contains_eq_mem, decide_eq_true_eq]
    exact fun o ho => ho

theorem cu_of_wf {K : PE} (h : K.wf = true) : CU K := fun _ _ hn => (wf_node h hn).2.2.2

theorem mem_allOps {gs : List PE} {o : OpCode} : o ∈ allOps gs ↔ ∃ g, g ∈ gs ∧ ∃ n, n ∈ g.nodes ∧ o ∈ n.ops := by
  simp only [allOps, List.mem_flatMap]

theorem opsIn_of_mem {S : List OpCode} {K : PE} (h : ∀ n, n ∈ K.nodes → ∀ o, o ∈ n.ops → o ∈ S) : OpsIn S K :=
  fun _ n hn o ho => h n (List.mem_of_getElem? hn) o ho

/-- **merge histories**: after merging any list of kernels into an element that satisfies the invariant, the
invariant holds, the data ports are unchanged, every kernel merged before or now is routable, and — PROVIDED
all operations come from a set `S` in which the class determines the operation — covered -/
theorem mergeAll_ok (S : List OpCode) (hS : ClassFun S) : ∀ (ks : List PE) (A0 A : PE) (merged : List PE),
    Inv A0 → CU A0 → OpsIn S A0 →
    (∀ K, K ∈ merged → Routable A0 K ∧ covers A0 K = true) → (∀ k, k ∈ ks → k.kwf = true) →
    (∀ k, k ∈ ks → ∀ n, n ∈ k.nodes → ∀ o, o ∈ n.ops → o ∈ S) →
    mergeAll A0 ks = .ok A →
    Inv A ∧ CU A ∧ A.argTys = A0.argTys ∧ ∀ K, K ∈ merged ++ ks → Routable A K ∧ covers A K = true
  | [], A0, A, merged, hinv, hcu, _, hm, _, _, h => by
    simp only [mergeAll, Except.ok.injEq] at h; subst h
    exact ⟨hinv, hcu, rfl, by simpa using hm⟩
  | g :: r, A0, A, merged, hinv, hcu, hin, hm, hk, hkS, h => by
    unfold mergeAll at h
    split at h
    · simp at h
    next A1 h1 =>
      have hg := hk g (by simp)
      obtain ⟨hgwf, _, _, _⟩ := kwf_parts hg
      have hgS : ∀ n, n ∈ g.nodes → ∀ o, o ∈ n.ops → o ∈ S := hkS g (by simp)
      obtain ⟨hinv1, hext, hrg, hf⟩ := combine_ok hinv
        (fun n hn => by
          obtain ⟨c, hc, hcn⟩ := List.getElem_of_mem hn
          exact (wf_node hgwf (by rw [List.getElem?_eq_getElem hc, hcn])).1) h1
      have hcu1 : CU A1 := hf.cu hcu (fun n hn => by
        obtain ⟨c, hc, hcn⟩ := List.getElem_of_mem hn
        exact (wf_node hgwf (by rw [List.getElem?_eq_getElem hc, hcn])).2.2.2)
      have hin1 : OpsIn S A1 := hf.opsIn S hin hgS
      have hcg : covers A1 g = true := by
        simp only [covers, List.all_eq_true]
        exact fun n hn => hf.cov S hS hin hgS n hn
      obtain ⟨hinvA, hcuA, hargs, hall⟩ := mergeAll_ok S hS r A1 A (merged ++ [g]) hinv1 hcu1 hin1
        (by
          intro K hK
          rcases List.mem_append.mp hK with hK | hK
          · exact ⟨routable_mono hext (hm K hK).1, covers_mono hext (hm K hK).2⟩
          · simp at hK; subst hK; exact ⟨hrg, hcg⟩)
        (fun k hk' => hk k (by simp [hk'])) (fun k hk' => hkS k (by simp [hk'])) h
      refine ⟨hinvA, hcuA, hargs.trans hext.args, ?_⟩
      intro K hK
      apply hall K
      simpa using hK

/-- a single merge keeps the relation assumed by `combine_keeps_partial` -/
theorem combine_extends {A G A' : PE} (hinv : Inv A) (hops : ∀ g, g ∈ G.nodes → g.ops ≠ [])
    (h : combine A G = .ok A') : Extends A A' :=
  extends_of_ext (combine_ok hinv hops h).2.1

/-! ### `PEOp.from_operations` -/

theorem peFromOperations_computes {ops : List (OpCode × List Ty × Ty)} {A : PE} (h : peFromOperations ops = .ok A)
    {i : Nat} {name : OpCode} {tys : List Ty} {res : Ty} (hi : ops[i]? = some (name, tys, res))
    {V : Type} (sem : OpCode → List V → V) (inp : List V) (hlen : inp.length = A.argTys.length) :
    Computes sem A (fun _ => i) inp A.yld (sem name inp) := by
  cases ops with
  | nil => simp at hi
  | cons o0 r =>
    obtain ⟨n0, tys0, res0⟩ := o0
    simp only [peFromOperations] at h
    split at h
    · simp at h
    · injection h with h; subst h
      simp only at hlen ⊢
      have hop : (n0 :: r.map (·.1))[i]? = some name := by
        have : ((n0, tys0, res0) :: r).map (·.1) = n0 :: r.map (·.1) := rfl
        rw [← this, List.getElem?_map, hi]; rfl
      refine Computes.node (j := 0) (n := ⟨"0", n0 :: r.map (·.1), (List.range tys0.length).map Src.arg, 0, res0⟩)
        (by simp) hop (by simp [hlen]) ?_
      intro p h1 h2
      simp only [List.length_map, List.length_range] at h1
      simp only [List.getElem_map, List.getElem_range]
      exact .arg h1 (List.getElem?_eq_getElem h2)

end SnaxVerif.Phs
