import SnaxVerif.Lemmas.SchedFromMap
import SnaxVerif.Lemmas.Scheduler
/-! From the operation's affine maps to the affine maps written into `dart.schedule`: both ends of the
`dart-scheduler` pass step expressed on expressions, so that the C03 theorem speaks about what is READ from
`dart.operation` and what is WRITTEN into `dart.schedule`. -/
namespace SnaxVerif.Sched
open SnaxVerif List

/-- the operand-index tuples of an operation: its own result expressions evaluated over its iteration box -/
def trueImage (bounds : List Nat) (maps : List (List AExpr)) : List (List (List Int)) :=
  (points bounds).map fun x => maps.map fun rs => rs.map fun e => AT.evalAt e (intPoint x)

/-- the affine maps `to_affine_map` writes for a schedule (one expression per result of every operand) -/
def emittedMaps (r : Schedule) : List (List AExpr) := r.ops.map fun o => List.zipWith AT.toMapRow o.rows o.b

/-- built operands: every map converted by `from_affine_map` -/
def BuiltFrom (n : Nat) (maps : List (List AExpr)) (ops : List Operand) : Prop :=
  ∃ ts : List AT.Transform, maps.map (AT.fromMap n) = ts.map Except.ok ∧ ops = ts.map fun t => ⟨t.A, t.b⟩

theorem evalOp_eq_evalAt (n : Nat) (rs : List AExpr) (t : AT.Transform) (h : AT.fromMap n rs = .ok t)
    (hc : ∀ e ∈ rs, AT.mulConstSide e = true) (x : List Nat) (hx : x.length = n) :
    evalOp ⟨t.A, t.b⟩ x = rs.map fun e => AT.evalAt e (intPoint x) := by
  have h1 := fromMap_operand_eval n rs t h hc x hx
  have h2 := congrArg (List.map fun o : Option Int => o.getD 0) h1
  simp only [List.map_map] at h2
  have e1 : ((fun o : Option Int => o.getD 0) ∘ some) = id := by funext v; simp
  rw [e1, List.map_id] at h2
  rw [h2]
  apply List.map_congr_left
  intro e _
  simp [AT.evalAt, Function.comp]

theorem built_eval (n : Nat) (x : List Nat) (hx : x.length = n) : ∀ (maps : List (List AExpr)) (ts : List AT.Transform),
    maps.map (AT.fromMap n) = ts.map Except.ok → (∀ rs ∈ maps, ∀ e ∈ rs, AT.mulConstSide e = true) →
    (ts.map fun t => evalOp ⟨t.A, t.b⟩ x) = maps.map fun rs => rs.map fun e => AT.evalAt e (intPoint x)
  | [], [], _, _ => by simp
  | [], _ :: _, h, _ => by simp at h
  | _ :: _, [], h, _ => by simp at h
  | rs :: maps, t :: ts, h, hc => by
    simp only [List.map_cons, List.cons.injEq] at h ⊢
    exact ⟨evalOp_eq_evalAt n rs t h.1 (hc rs (by simp)) x hx,
      built_eval n x hx maps ts h.2 (fun rs' hrs' => hc rs' (by simp [hrs']))⟩

/-- a schedule built from the operation's maps visits exactly the operation's own operand-index tuples -/
theorem imageS_built (bounds : List Nat) (maps : List (List AExpr)) (ops : List Operand)
    (hb : BuiltFrom bounds.length maps ops) (hc : ∀ rs ∈ maps, ∀ e ∈ rs, AT.mulConstSide e = true) :
    imageS ⟨bounds, ops⟩ = trueImage bounds maps := by
  obtain ⟨ts, hts, rfl⟩ := hb
  unfold imageS trueImage
  apply List.map_congr_left
  intro x hx
  simp only [List.map_map]
  have := built_eval bounds.length x (points_length_mem _ _ hx) maps ts hts hc
  rw [← this]
  rfl

theorem toMapRows_eval (x : List Nat) : ∀ (rows : List (List Int)) (b : List Int),
    (List.zipWith AT.toMapRow rows b).map (fun e => AT.evalAt e (intPoint x)) = evalOp ⟨rows, b⟩ x
  | [], _ => by simp [evalOp]
  | _ :: _, [] => by simp [evalOp]
  | r :: rows, c :: b => by
    have ih := toMapRows_eval x rows b
    simp only [evalOp] at ih ⊢
    simp only [List.zipWith_cons_cons, List.map_cons, ih]
    congr 1
    simp [AT.evalAt, AT.toMapRow_eval, dot_eq_AT_dot]

/-- the maps written into `dart.schedule`, evaluated over its bounds, are the image of the schedule -/
theorem emitted_image (r : Schedule) : trueImage r.bounds (emittedMaps r) = imageS r := by
  unfold trueImage emittedMaps imageS
  apply List.map_congr_left
  intro x _
  simp only [List.map_map]
  apply List.map_congr_left
  intro o _
  exact toMapRows_eval x o.rows o.b

end SnaxVerif.Sched
