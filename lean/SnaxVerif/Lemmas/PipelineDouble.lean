import SnaxVerif.Lemmas.PipelineEquiv
/-! C15: double buffering is invisible in the sequential order. Executing the original loop with the parity-selected
copies (`exec p true`) and with the single original buffers (`exec p false`) gives the same contents on every location
that is not a copy of a duplicated allocation, for every trip count and every stage count; the copy selected by the
last iteration holds what the single buffer holds. -/
namespace SnaxVerif.Pipeline

theorem opAt_default {p : Prog} {e : Ev} (h : ¬ (e.k < p.stages.length ∧ e.o < (p.stages.getD e.k []).length)) :
    p.opAt e = ⟨0, [], []⟩ := by
  unfold Prog.opAt
  by_cases hk : e.k < p.stages.length
  · have ho : ¬ e.o < (p.stages.getD e.k []).length := fun ho => h ⟨hk, ho⟩
    generalize p.stages.getD e.k [] = st at ho ⊢
    rw [List.getD_eq_getElem?_getD, List.getElem?_eq_none (by omega)]
    rfl
  · have : p.stages.getD e.k [] = [] := by
      rw [List.getD_eq_getElem?_getD, List.getElem?_eq_none (by omega)]
      rfl
    rw [this]
    rfl

theorem valid_of_out {p : Prog} {e : Ev} {v : Opnd} (h : v ∈ (p.opAt e).outs) : e.Valid p (e.n + 1) := by
  by_cases hv : e.k < p.stages.length ∧ e.o < (p.stages.getD e.k []).length
  · exact ⟨by omega, hv.1, hv.2⟩
  · rw [opAt_default hv] at h
    simp at h

theorem valid_of_in {p : Prog} {e : Ev} {v : Opnd} (h : v ∈ (p.opAt e).ins) : e.Valid p (e.n + 1) := by
  by_cases hv : e.k < p.stages.length ∧ e.o < (p.stages.getD e.k []).length
  · exact ⟨by omega, hv.1, hv.2⟩
  · rw [opAt_default hv] at h
    simp at h

theorem touches_out {p : Prog} {e : Ev} {v : Opnd} (h : v ∈ (p.opAt e).outs) : (e.k, true, v) ∈ touches p :=
  mem_touches_out (valid_of_out h) h

theorem touches_in {p : Prog} {e : Ev} {v : Opnd} (h : v ∈ (p.opAt e).ins) : (e.k, false, v) ∈ touches p :=
  mem_touches_in (valid_of_in h) h

theorem dupId_of_touch {p : Prog} {t : Nat × Bool × Opnd} {b : Nat} (ht : t ∈ touches p) (hb : t.2.2 = .dup b) :
    dupId p b = true := by
  unfold dupId
  rw [List.any_eq_true]
  exact ⟨t, ht, by simp [hb]⟩

theorem excl_of_wf {p : Prog} (h : dupWF p = true) {t : Nat × Bool × Opnd} (ht : t ∈ touches p) {b : Nat}
    (hb : t.2.2 = .alloc b) : dupId p b = false := by
  have := List.all_eq_true.mp h t ht
  simp only [hb] at this
  simpa using this

theorem writer_of_wf {p : Prog} (h : dupWF p = true) {t : Nat × Bool × Opnd} (ht : t ∈ touches p) {b : Nat}
    (hb : t.2.2 = .dup b) (hr : t.2.1 = false) :
    ∃ w ∈ touches p, w.2.1 = true ∧ w.2.2 = .dup b ∧ w.1 < t.1 := by
  have := List.all_eq_true.mp h t ht
  simp only [hb, hr, Bool.false_or, List.any_eq_true, Bool.and_eq_true, beq_iff_eq, decide_eq_true_eq] at this
  obtain ⟨w, hw, ⟨h1, h2⟩, h3⟩ := this
  exact ⟨w, hw, h1, h2, h3⟩

/-- the relation between the double-buffered memory and the single-buffered memory inside iteration `n`, after the
events `done` of that iteration -/
def Rel (p : Prog) (n : Nat) (done : List Ev) (md ms : Mem) : Prop :=
  (∀ a, isDupLoc p a = false → md a = ms a) ∧
  (∀ b, (∃ w ∈ done, Opnd.dup b ∈ (p.opAt w).outs) → md (.buf b (n % 2)) = ms (.buf b 0))

theorem resolve_nondup {tiles : List (Nat × Nat × Bool)} {n : Nat} {v : Opnd} (h : ∀ b, v ≠ .dup b) :
    resolve tiles true n v = resolve tiles false n v := by
  cases v <;> simp only [resolve]
  exact absurd rfl (h _)

/-- two operands of the program name the same location with parity-selected buffers iff they do with single buffers -/
theorem resolve_coincide {p : Prog} (hwf : dupWF p = true) {n : Nat} {x y : Nat × Bool × Opnd}
    (hx : x ∈ touches p) (hy : y ∈ touches p) :
    resolve p.tiles true n x.2.2 = resolve p.tiles true n y.2.2 ↔ resolve p.tiles false n x.2.2 = resolve p.tiles false n y.2.2 := by
  rcases x with ⟨kx, wx, v⟩
  rcases y with ⟨ky, wy, w⟩
  cases v <;> cases w <;> simp only [resolve, Loc.buf.injEq, reduceCtorEq, if_true, Bool.false_eq_true, if_false, and_true]
  · -- alloc b / dup b'
    rename_i b b'
    constructor
    · rintro ⟨rfl, _⟩
      exact absurd (excl_of_wf hwf hx rfl) (by rw [dupId_of_touch hy rfl]; simp)
    · rintro rfl
      exact absurd (excl_of_wf hwf hx rfl) (by rw [dupId_of_touch hy rfl]; simp)
  · rename_i b b'
    constructor
    · rintro ⟨rfl, _⟩
      exact absurd (excl_of_wf hwf hy rfl) (by rw [dupId_of_touch hx rfl]; simp)
    · rintro rfl
      exact absurd (excl_of_wf hwf hy rfl) (by rw [dupId_of_touch hx rfl]; simp)

theorem idxOf_map_iff {α : Type} [DecidableEq α] {f g : Opnd → α} (v : Opnd) :
    ∀ (l : List Opnd), (∀ w ∈ l, f w = f v ↔ g w = g v) → (l.map f).idxOf (f v) = (l.map g).idxOf (g v)
  | [], _ => rfl
  | w :: l, h => by
    have ih := idxOf_map_iff v l (fun x hx => h x (List.mem_cons_of_mem _ hx))
    have hw := h w List.mem_cons_self
    simp only [List.map_cons, List.idxOf_cons, beq_iff_eq]
    by_cases hf : f w = f v
    · have hg := hw.mp hf
      have e1 : (f w == f v) = true := by simp [hf]
      have e2 : (g w == g v) = true := by simp [hg]
      rw [e1, e2]
      rfl
    · have hg : ¬ g w = g v := fun hg => hf (hw.mpr hg)
      have e1 : (f w == f v) = false := by simp [hf]
      have e2 : (g w == g v) = false := by simp [hg]
      rw [e1, e2, ih]

theorem readVals_map_eq {md ms : Mem} {f g : Opnd → Loc} :
    ∀ (l : List Opnd), (∀ v ∈ l, md (f v) = ms (g v)) → readVals (l.map f) md = readVals (l.map g) ms
  | [], _ => rfl
  | v :: l, h => by
    have ih := readVals_map_eq l (fun x hx => h x (List.mem_cons_of_mem _ hx))
    simp only [readVals, List.map_cons, List.foldr_cons] at ih ⊢
    rw [h v List.mem_cons_self, ih]

/-- what an op reads is the same in both memories, provided the duplicated buffers it reads were written in this iteration -/
theorem read_eq {p : Prog} (hwf : dupWF p = true) {n : Nat} {done : List Ev} {md ms : Mem} (hR : Rel p n done md ms)
    {e : Ev} {v : Opnd} (hv : v ∈ (p.opAt e).ins)
    (hdef : ∀ b, Opnd.dup b ∈ (p.opAt e).ins → ∃ w ∈ done, Opnd.dup b ∈ (p.opAt w).outs) :
    md (resolve p.tiles true n v) = ms (resolve p.tiles false n v) := by
  cases v with
  | tile j => exact hR.1 _ rfl
  | alloc b => exact hR.1 _ (excl_of_wf hwf (touches_in hv) rfl)
  | ext b => exact hR.1 _ rfl
  | dup b =>
    simp only [resolve, if_true, Bool.false_eq_true, if_false]
    exact hR.2 b (hdef b hv)

/-- one event keeps the relation -/
theorem rel_step {p : Prog} (hwf : dupWF p = true) {n : Nat} {done : List Ev} {md ms : Mem} (hR : Rel p n done md ms)
    {e : Ev} (hn : e.n = n)
    (hdef : ∀ b, Opnd.dup b ∈ (p.opAt e).ins → ∃ w ∈ done, Opnd.dup b ∈ (p.opAt w).outs) :
    Rel p n (done ++ [e]) (step p true e md) (step p false e ms) := by
  have hargs : readVals (p.reads true e) md = readVals (p.reads false e) ms := by
    unfold Prog.reads
    rw [hn]
    exact readVals_map_eq _ (fun v hv => read_eq hwf hR hv hdef)
  have hidx : ∀ v ∈ (p.opAt e).outs, (p.writes true e).idxOf (resolve p.tiles true n v)
      = (p.writes false e).idxOf (resolve p.tiles false n v) := by
    intro v hv
    unfold Prog.writes
    rw [hn]
    apply idxOf_map_iff
    intro w hw
    exact resolve_coincide hwf (x := (e.k, true, w)) (y := (e.k, true, v)) (touches_out hw) (touches_out hv)
  have hval : ∀ v ∈ (p.opAt e).outs, step p true e md (resolve p.tiles true n v)
      = step p false e ms (resolve p.tiles false n v) := by
    intro v hv
    have h1 : resolve p.tiles true n v ∈ p.writes true e := by
      unfold Prog.writes; rw [hn]; exact List.mem_map.mpr ⟨v, hv, rfl⟩
    have h2 : resolve p.tiles false n v ∈ p.writes false e := by
      unfold Prog.writes; rw [hn]; exact List.mem_map.mpr ⟨v, hv, rfl⟩
    simp only [step, h1, h2, if_true, hidx v hv, hargs]
  constructor
  · intro a ha
    by_cases h : a ∈ p.writes true e
    · obtain ⟨v, hv, rfl⟩ := List.mem_map.mp h
      rw [hn] at ha ⊢
      have hnd : ∀ b, v ≠ .dup b := by
        rintro b rfl
        simp only [resolve, if_true, isDupLoc] at ha
        rw [dupId_of_touch (touches_out hv) rfl] at ha
        exact absurd ha (by simp)
      have := hval v hv
      rw [← resolve_nondup hnd] at this
      exact this
    · have h' : a ∉ p.writes false e := by
        intro hf
        obtain ⟨v, hv, rfl⟩ := List.mem_map.mp hf
        rw [hn] at ha h
        have hnd : ∀ b, v ≠ .dup b := by
          rintro b rfl
          simp only [resolve, Bool.false_eq_true, if_false, isDupLoc] at ha
          rw [dupId_of_touch (touches_out hv) rfl] at ha
          exact absurd ha (by simp)
        apply h
        unfold Prog.writes
        rw [hn]
        exact List.mem_map.mpr ⟨v, hv, resolve_nondup hnd⟩
      rw [step_of_not_mem h, step_of_not_mem h']
      exact hR.1 a ha
  · rintro b ⟨w, hw, hwb⟩
    by_cases hb : Opnd.dup b ∈ (p.opAt e).outs
    · have := hval (.dup b) hb
      simpa [resolve] using this
    · have hwd : w ∈ done := by
        rcases List.mem_append.mp hw with h | h
        · exact h
        · rw [List.mem_singleton.mp h] at hwb
          exact absurd hwb hb
      have hdid : dupId p b = true := dupId_of_touch (touches_out hwb) rfl
      have h1 : Loc.buf b (n % 2) ∉ p.writes true e := by
        intro hf
        obtain ⟨v, hv, hvr⟩ := List.mem_map.mp hf
        rw [hn] at hvr
        cases v <;> simp only [resolve, if_true, Loc.buf.injEq, reduceCtorEq] at hvr
        · obtain ⟨rfl, _⟩ := hvr
          exact absurd (excl_of_wf hwf (touches_out hv) rfl) (by rw [hdid]; simp)
        · obtain ⟨rfl, _⟩ := hvr
          exact hb hv
      have h2 : Loc.buf b 0 ∉ p.writes false e := by
        intro hf
        obtain ⟨v, hv, hvr⟩ := List.mem_map.mp hf
        rw [hn] at hvr
        cases v <;> simp only [resolve, Bool.false_eq_true, if_false, Loc.buf.injEq, reduceCtorEq, and_true] at hvr
        · subst hvr
          exact absurd (excl_of_wf hwf (touches_out hv) rfl) (by rw [hdid]; simp)
        · subst hvr
          exact hb hv
      rw [step_of_not_mem h1, step_of_not_mem h2]
      exact hR.2 b ⟨w, hwd, hwb⟩

theorem exec_cons (p : Prog) (dbl : Bool) (e : Ev) (l : List Ev) (m : Mem) :
    exec p dbl (e :: l) m = exec p dbl l (step p dbl e m) := rfl

theorem exec_append (p : Prog) (dbl : Bool) (l1 l2 : List Ev) (m : Mem) :
    exec p dbl (l1 ++ l2) m = exec p dbl l2 (exec p dbl l1 m) := by
  simp [exec, List.foldl_append]

/-- a list of events of iteration `n` in which every duplicated buffer is written before it is read keeps the relation -/
theorem rel_exec {p : Prog} (hwf : dupWF p = true) {n : Nat} :
    ∀ (todo done : List Ev) (md ms : Mem), (∀ e ∈ todo, e.n = n) → Rel p n done md ms →
      (∀ pre e post, todo = pre ++ e :: post → ∀ b, Opnd.dup b ∈ (p.opAt e).ins →
        ∃ w ∈ done ++ pre, Opnd.dup b ∈ (p.opAt w).outs) →
      Rel p n (done ++ todo) (exec p true todo md) (exec p false todo ms)
  | [], done, md, ms, _, hR, _ => by
    rw [List.append_nil]
    exact hR
  | e :: todo, done, md, ms, hn, hR, hdef => by
    have hstep := rel_step hwf hR (hn e List.mem_cons_self)
      (fun b hb => by simpa using hdef [] e todo rfl b hb)
    have := rel_exec hwf todo (done ++ [e]) _ _ (fun x hx => hn x (List.mem_cons_of_mem _ hx)) hstep
      (fun pre e' post hsplit b hb => by
        have := hdef (e :: pre) e' post (by rw [hsplit]; rfl) b hb
        simpa [List.append_assoc] using this)
    simpa [exec_cons, List.append_assoc] using this

def stageLt (a b : Ev) : Prop := a.k < b.k ∨ (a.k = b.k ∧ a.o < b.o)

theorem iter_sorted (p : Prog) (n : Nat) : (iterEvents p n).Pairwise stageLt := by
  unfold iterEvents
  rw [List.pairwise_flatMap]
  constructor
  · intro k _
    unfold stageEvents
    rw [List.pairwise_map]
    exact (List.pairwise_lt_range).imp (fun h => Or.inr ⟨rfl, h⟩)
  · exact (List.pairwise_lt_range).imp (fun {k k'} h x hx y hy => by
      have hx := mem_stageEvents.mp hx
      have hy := mem_stageEvents.mp hy
      exact Or.inl (by rw [hx.1, hy.1]; exact h))

theorem mem_iterEvents {p : Prog} {n : Nat} {e : Ev} :
    e ∈ iterEvents p n ↔ e.n = n ∧ e.k < p.stages.length ∧ e.o < (p.stages.getD e.k []).length := by
  simp only [iterEvents, List.mem_flatMap, List.mem_range, mem_stageEvents]
  constructor
  · rintro ⟨k, hk, rfl, rfl, ho⟩
    exact ⟨rfl, hk, ho⟩
  · rintro ⟨hn, hk, ho⟩
    exact ⟨e.k, hk, rfl, hn, ho⟩

/-- an output occurrence of the program is an output of some op event -/
theorem event_of_touch_out {p : Prog} {k : Nat} {v : Opnd} (h : (k, true, v) ∈ touches p) (n : Nat) :
    ∃ o, (⟨k, o, n⟩ : Ev) ∈ iterEvents p n ∧ v ∈ (p.opAt ⟨k, o, n⟩).outs := by
  simp only [touches, allOps, List.mem_flatMap, List.mem_range, List.mem_map, List.mem_append] at h
  obtain ⟨⟨k', op⟩, ⟨k'', hk'', op', hop', heq⟩, hv⟩ := h
  simp only [Prod.mk.injEq] at heq
  obtain ⟨rfl, rfl⟩ := heq
  rcases hv with ⟨w, _, hw⟩ | ⟨w, hw, hweq⟩
  · simp at hw
  · simp only [Prod.mk.injEq, true_and] at hweq
    obtain ⟨rfl, rfl⟩ := hweq
    obtain ⟨o, ho, hget⟩ := List.getElem_of_mem hop'
    refine ⟨o, mem_iterEvents.mpr ⟨rfl, hk'', ho⟩, ?_⟩
    have : p.opAt ⟨k'', o, n⟩ = op' := by
      unfold Prog.opAt
      simp only
      generalize p.stages.getD k'' [] = st at ho hget ⊢
      rw [List.getD_eq_getElem?_getD, List.getElem?_eq_getElem ho, Option.getD_some, hget]
    rw [this]
    exact hw

/-- in the events of one iteration every duplicated buffer is written (by an earlier stage) before it is read -/
theorem iter_def_before_use {p : Prog} (hwf : dupWF p = true) {n : Nat} {pre post : List Ev} {e : Ev}
    (hsplit : iterEvents p n = pre ++ e :: post) {b : Nat} (hb : Opnd.dup b ∈ (p.opAt e).ins) :
    ∃ w ∈ pre, Opnd.dup b ∈ (p.opAt w).outs := by
  obtain ⟨t, ht, hw1, hw2, hlt⟩ := writer_of_wf hwf (touches_in hb) rfl rfl
  rcases t with ⟨kw, ww, vw⟩
  simp only at hw1 hw2 hlt
  subst hw1 hw2
  obtain ⟨o, hmem, hout⟩ := event_of_touch_out ht n
  refine ⟨⟨kw, o, n⟩, ?_, hout⟩
  have hs := iter_sorted p n
  rw [hsplit] at hmem hs
  rcases List.mem_append.mp hmem with h | h
  · exact h
  · exfalso
    rcases List.mem_cons.mp h with h | h
    · rw [← h] at hlt
      exact Nat.lt_irrefl _ hlt
    · have := (List.pairwise_cons.mp (List.pairwise_append.mp hs).2.1).1 _ h
      unfold stageLt at this
      simp only at this
      omega

/-- one iteration: equal non-duplicated locations before => the relation with all of the iteration's events after -/
theorem rel_iter {p : Prog} (hwf : dupWF p = true) (n : Nat) {md ms : Mem}
    (h : ∀ a, isDupLoc p a = false → md a = ms a) :
    Rel p n (iterEvents p n) (exec p true (iterEvents p n) md) (exec p false (iterEvents p n) ms) := by
  have h0 : Rel p n [] md ms := ⟨h, fun b ⟨w, hw, _⟩ => by simp at hw⟩
  have := rel_exec hwf (iterEvents p n) [] md ms (fun e he => (mem_iterEvents.mp he).1) h0
    (fun pre e post hsplit b hb => by simpa using iter_def_before_use hwf hsplit hb)
  simpa using this

theorem seqEvents_succ (p : Prog) (N : Nat) : seqEvents p (N + 1) = seqEvents p N ++ iterEvents p N := by
  simp [seqEvents, iterEvents, List.range_succ, List.flatMap_append]

/-- Step A: in the sequential order, double buffering changes nothing outside the copies of the duplicated allocations -/
theorem double_eq_single {p : Prog} (hwf : dupWF p = true) (m : Mem) :
    ∀ (N : Nat) (a : Loc), isDupLoc p a = false →
      exec p true (seqEvents p N) m a = exec p false (seqEvents p N) m a
  | 0, _, _ => rfl
  | N + 1, a, ha => by
    rw [seqEvents_succ, exec_append, exec_append]
    exact (rel_iter hwf N (fun a ha => double_eq_single hwf m N a ha)).1 a ha

/-- ... and the copy selected by the last iteration holds what the single buffer holds -/
theorem double_last_copy {p : Prog} (hwf : dupWF p = true) (m : Mem) (N : Nat) {k b : Nat}
    (hw : (k, true, Opnd.dup b) ∈ touches p) :
    exec p true (seqEvents p (N + 1)) m (.buf b (N % 2)) = exec p false (seqEvents p (N + 1)) m (.buf b 0) := by
  rw [seqEvents_succ, exec_append, exec_append]
  obtain ⟨o, hmem, hout⟩ := event_of_touch_out hw N
  exact (rel_iter hwf N (fun a ha => double_eq_single hwf m N a ha)).2 b ⟨_, hmem, hout⟩

end SnaxVerif.Pipeline
