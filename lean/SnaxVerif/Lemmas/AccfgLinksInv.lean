import SnaxVerif.Lemmas.AccfgLinks
/-!
The threading invariant of `weave` (C07), per accelerator `a`:

  `SigIs D A (σ a) (G a)` — the state value the pass holds for `a` infers (by following the links, `inferL`) to
  exactly the facts `G a` the position-based analysis has about `a` here; no value ⇒ no facts.

`mainS`/`mainB`: every statement preserves it (`G ↦ knownS s G`), for every `assume` context `A` — the loop case
uses the induction hypothesis twice: once with the block argument ASSUMED to be the init state (that is how
`infer_state_of` cuts the cycle; gives the facts at the loop head), once without (body and loop result).
`freeS`/`freeB`: blocks that do not set up `a` either keep its state value or (effectful call inside) drop it.
-/
namespace SnaxVerif.AccfgLinks
open SnaxVerif.Accfg

abbrev DTab := StateId → Option LDef
abbrev Asm := List (StateId × LState)

def SigIs (D : DTab) (A : Asm) (o : Option StateId) (r : Row) : Prop :=
  match o with
  | some v => Gives D A v r
  | none => r = emptyRow

/-- facts behind a statement of the traced program (an inserted empty setup changes nothing) -/
def stepF (s : LStmt) (G : Facts) : Facts :=
  match eraseS s with
  | some x => knownS x G
  | none => G

/- What the links of a traced program must satisfy w.r.t. the position-based facts `G` in front of it, for the state
values of accelerator `a`: every setup's input state / every straight-line launch's state infers to the facts in
front of it, every state value defined (setup result, scf.if result, block argument, scf.for result) infers to the
facts behind its definition point; the yielded / init states are the states at the end of the branches / body /
in front of the loop. -/
mutual
def AgreeS (a : AccId) (D : DTab) (A : Asm) : LStmt → Facts → Prop
  | .setup b fs out inp, G => b = a → SigIs D A inp (G a) ∧ Gives D A out (updRow (G a) fs)
  | .empty b out, G => b = a → G a = emptyRow ∧ Gives D A out emptyRow
  | .launch b _ st cur, G => b = a → cur = true → ∃ v, st = some v ∧ Gives D A v (G a)
  | .await _, _ => True
  | .pure _ _ _, _ => True
  | .call _ _, _ => True
  | .ifS _ t e res, G =>
      AgreeB a D A t G ∧ AgreeB a D A e G ∧
      ∀ r ∈ res, r.acc = a →
        Gives D A r.thn (knownB (erase t) G a) ∧ Gives D A r.els (knownB (erase e) G a) ∧
        Gives D A r.res (meetRow (knownB (erase t) G a) (knownB (erase e) G a))
  | .forS _ _ _ _ b car, G =>
      AgreeB a D A b (headFacts (erase b) G) ∧
      ∀ c ∈ car, c.acc = a →
        Gives D A c.init (G a) ∧ Gives D A c.arg (headFacts (erase b) G a) ∧
        Gives D A c.yld (knownB (erase b) (headFacts (erase b) G) a) ∧
        Gives D A c.res (meetRow (G a) (knownB (erase b) (headFacts (erase b) G) a))
def AgreeB (a : AccId) (D : DTab) (A : Asm) : LBlock → Facts → Prop
  | .nil, _ => True
  | .cons s r, G => AgreeS a D A s G ∧ AgreeB a D A r (stepF s G)
end

/- ===== facts, row-wise ===== -/
theorem known_setup_same (a : AccId) (fs : List (Field × Var)) (G : Facts) :
    knownS (.setup a fs) G a = updRow (G a) fs := by
  funext f; simp only [knownS, upd, updRow, if_true]
  cases List.lookup f fs <;> rfl

theorem known_setup_other {a b : AccId} (h : a ≠ b) (fs : List (Field × Var)) (G : Facts) :
    knownS (.setup b fs) G a = G a := by
  funext f; simp [knownS, upd, h]

theorem known_if (c : Var) (t e : Block) (G : Facts) (a : AccId) :
    knownS (.ifS c t e) G a = meetRow (knownB t G a) (knownB e G a) := by
  funext f; simp [knownS, meet, meetRow]

theorem headFacts_row (b : Block) (G : Facts) (a : AccId) :
    headFacts b G a = meetRow (G a) (knownB b G a) := by
  funext f; simp [headFacts, meet, meetRow]

theorem known_for (lb ub st iv : Var) (b : Block) (G : Facts) (a : AccId) :
    knownS (.forS lb ub st iv b) G a = meetRow (G a) (knownB b (headFacts b G) a) := by
  funext f; simp only [knownS, meet, meetRow, headFacts]
  split <;> simp_all

theorem localRow (b : Block) (F F' : Facts) (a : AccId) (h : F a = F' a) : knownB b F a = knownB b F' a := by
  funext f; exact localB b F F' a f (by rw [h])

theorem updRow_nil (r : Row) : updRow r [] = r := by
  funext f; simp [updRow, List.lookup]

theorem known_erase_cons (s : LStmt) (r : LBlock) (G : Facts) :
    knownB (erase (.cons s r)) G = knownB (erase r) (stepF s G) := by
  simp only [erase, stepF]
  cases eraseS s <;> simp [knownB]

/- ===== inserted empty setups ===== -/
theorem gives_empty {D : DTab} {A : Asm} {v : StateId} (hA : A.lookup v = none) (hD : D v = some (.setup none [])) :
    Gives D A v emptyRow := by
  have := Gives.setupNone (D := D) (A := A) (v := v) (fs := []) hA hD (by simp)
  rwa [updRow_nil] at this

theorem ensure_sigIs (a : AccId) (D : DTab) (A : Asm) : ∀ (l : List AccId) (σ : Sig) (n : Nat) (r : Row),
    (∀ v, n ≤ v → A.lookup v = none) →
    (∀ p ∈ (ensure l σ n).1, D p.2 = some (.setup none [])) → SigIs D A (σ a) r →
    SigIs D A ((ensure l σ n).2.1 a) r ∧ ((σ a).isSome ∨ a ∈ l → ((ensure l σ n).2.1 a).isSome) ∧
    (∀ p ∈ (ensure l σ n).1, p.1 = a → r = emptyRow ∧ Gives D A p.2 emptyRow)
  | [], σ, n, r, _, _, h => by
    refine ⟨h, ?_, ?_⟩
    · intro hh; rcases hh with hh | hh
      · exact hh
      · simp at hh
    · intro p hp; simp [ensure] at hp
  | b :: l, σ, n, r, hfr, hD, h => by
    simp only [ensure] at hD ⊢
    split
    · next v hv =>
      simp only [hv] at hD
      obtain ⟨h1, h2, h3⟩ := ensure_sigIs a D A l σ n r hfr hD h
      refine ⟨h1, ?_, h3⟩
      intro hh
      apply h2
      rcases hh with hh | hh
      · exact Or.inl hh
      · rcases List.mem_cons.mp hh with rfl | hh
        · left; simp [hv]
        · exact Or.inr hh
    · next hv =>
      simp only [hv] at hD
      have hDn : D n = some (.setup none []) := hD (b, n) (by simp)
      have hgn : Gives D A n emptyRow := gives_empty (hfr n (Nat.le_refl _)) hDn
      have hs : SigIs D A (sset σ b n a) r := by
        by_cases hab : a = b
        · subst hab
          rw [hv] at h
          simp only [SigIs] at h
          subst h
          simpa [sset, SigIs] using hgn
        · simpa [sset, hab] using h
      obtain ⟨h1, h2, h3⟩ := ensure_sigIs a D A l (sset σ b n) (n + 1) r
        (fun v hv => hfr v (by omega)) (fun p hp => hD p (by simp [hp])) hs
      refine ⟨h1, ?_, ?_⟩
      · intro hh
        apply h2
        by_cases hab : a = b
        · left; simp [sset, hab]
        · rcases hh with hh | hh
          · left; simpa [sset, hab] using hh
          · rcases List.mem_cons.mp hh with hh | hh
            · exact absurd hh hab
            · exact Or.inr hh
      · intro p hp hpa
        rcases List.mem_cons.mp hp with rfl | hp
        · simp only at hpa
          subst hpa
          rw [hv] at h
          simp only [SigIs] at h
          exact ⟨h, hgn⟩
        · exact h3 p hp hpa

theorem agree_prepend (a : AccId) (D : DTab) (A : Asm) : ∀ (es : List (AccId × StateId)) (b : LBlock) (G : Facts),
    (∀ p ∈ es, p.1 = a → G a = emptyRow ∧ Gives D A p.2 emptyRow) → AgreeB a D A b G →
    AgreeB a D A (prepend es b) G
  | [], _, _, _, h => h
  | (x, v) :: r, b, G, hes, h => by
    simp only [prepend, AgreeB, AgreeS]
    refine ⟨fun hx => hes (x, v) (by simp) hx, ?_⟩
    have : stepF (.empty x v) G = G := by simp [stepF, eraseS]
    rw [this]
    exact agree_prepend a D A r b G (fun p hp => hes p (by simp [hp])) h

theorem agree_appEmpties (a : AccId) (D : DTab) (A : Asm) : ∀ (b : LBlock) (es : List (AccId × StateId)) (G : Facts),
    AgreeB a D A b G →
    (∀ p ∈ es, p.1 = a → knownB (erase b) G a = emptyRow ∧ Gives D A p.2 emptyRow) →
    AgreeB a D A (appEmpties b es) G
  | .nil, es, G, _, hes => by
    simp only [appEmpties]
    exact agree_prepend a D A es .nil G (by simpa [erase, knownB] using hes) (by simp [AgreeB])
  | .cons s r, es, G, h, hes => by
    simp only [appEmpties, AgreeB] at h ⊢
    refine ⟨h.1, agree_appEmpties a D A r es _ h.2 ?_⟩
    intro p hp hpa
    have := hes p hp hpa
    rwa [known_erase_cons] at this

/- ===== owner-table entries of the inserted pieces ===== -/
theorem ldefs_prepend : ∀ (es : List (AccId × StateId)) (b : LBlock),
    ldefsB (prepend es b) = es.map (fun p => (p.2, LDef.setup none [])) ++ ldefsB b
  | [], _ => rfl
  | (_, _) :: r, b => by simp [prepend, ldefsB, ldefsS, ldefs_prepend r b]

theorem mem_ldefs_appEmpties : ∀ (b : LBlock) (es : List (AccId × StateId)) (q : StateId × LDef),
    q ∈ ldefsB (appEmpties b es) ↔ q ∈ ldefsB b ∨ q ∈ es.map (fun p => (p.2, LDef.setup none []))
  | .nil, es, q => by simp [appEmpties, ldefs_prepend, ldefsB]
  | .cons s r, es, q => by
    simp only [appEmpties, ldefsB, List.mem_append, mem_ldefs_appEmpties r es q]
    constructor
    · rintro (h | h | h)
      · exact Or.inl (Or.inl h)
      · exact Or.inl (Or.inr h)
      · exact Or.inr h
    · rintro ((h | h) | h)
      · exact Or.inl h
      · exact Or.inr (Or.inl h)
      · exact Or.inr (Or.inr h)

end SnaxVerif.AccfgLinks
