import SnaxVerif.Lemmas.AccfgLinks
/-!
The threading invariant of `weave` (C07), per accelerator `a`:

  `SigIs D A (σ a) (G a)` — the state value the pass holds for `a` infers (by following the links, `inferL`) to
  exactly the facts `G a` the position-based analysis has about `a` here; no value ⇒ no facts.

`mainS`/`mainB`: every statement preserves it (`G ↦ knownS s G`), for every `assume` context `A` — the loop case
uses the induction hypothesis twice: once with the block argument ASSUMED to be the init state (that is how
`infer_state_of` cuts the cycle; gives the facts at the loop head), once without (body and loop result).
`freeS`/`freeB`: blocks that do not set up `a` either keep its state value or (effectful call inside) drop it.
-/
namespace SnaxVerif.AccfgLinks
open SnaxVerif.Accfg

abbrev DTab := StateId → Option LDef
abbrev Asm := List (StateId × LState)

def SigIs (D : DTab) (A : Asm) (o : Option StateId) (r : Row) : Prop :=
  match o with
  | some v => Gives D A v r
  | none => r = emptyRow

/- What the links of a traced program must satisfy w.r.t. the position-based facts `G` in front of it, for the state
values of accelerator `a`: every setup's input state / every straight-line launch's state infers to the facts in
front of it, every state value defined (setup result, scf.if result, block argument, scf.for result) infers to the
facts behind its definition point; the yielded / init states are the states at the end of the branches / body /
in front of the loop. -/
mutual
def AgreeS (a : AccId) (D : DTab) (A : Asm) : LStmt → Facts → Prop
  | .setup b fs out inp, G => b = a → SigIs D A inp (G a) ∧ Gives D A out (updRow (G a) fs)
  | .empty b out, G => b = a → G a = emptyRow ∧ Gives D A out emptyRow
  | .launch b _ st cur, G => b = a → cur = true → ∃ v, st = some v ∧ Gives D A v (G a)
  | .await _, _ => True
  | .pure _ _ _, _ => True
  | .call _ _, _ => True
  | .ifS _ t e res, G =>
      AgreeB a D A t G ∧ AgreeB a D A e G ∧
      ∀ r ∈ res, r.acc = a →
        Gives D A r.thn (knownB (erase t) G a) ∧ Gives D A r.els (knownB (erase e) G a) ∧
        Gives D A r.res (meetRow (knownB (erase t) G a) (knownB (erase e) G a))
  | .forS _ _ _ _ b car, G =>
      AgreeB a D A b (headFacts (erase b) G) ∧
      ∀ c ∈ car, c.acc = a →
        Gives D A c.init (G a) ∧ Gives D A c.arg (headFacts (erase b) G a) ∧
        Gives D A c.yld (knownB (erase b) (headFacts (erase b) G) a) ∧
        Gives D A c.res (meetRow (G a) (knownB (erase b) (headFacts (erase b) G) a))
def AgreeB (a : AccId) (D : DTab) (A : Asm) : LBlock → Facts → Prop
  | .nil, _ => True
  | .cons s r, G => AgreeS a D A s G ∧ AgreeB a D A r (stepF s G)
end

/- ===== facts, row-wise ===== -/
theorem known_setup_same (a : AccId) (fs : List (Field × Var)) (G : Facts) :
    knownS (.setup a fs) G a = updRow (G a) fs := by
  funext f; simp only [knownS, upd, updRow, if_true]
  cases List.lookup f fs <;> rfl

theorem known_setup_other {a b : AccId} (h : a ≠ b) (fs : List (Field × Var)) (G : Facts) :
    knownS (.setup b fs) G a = G a := by
  funext f; simp [knownS, upd, h]

theorem known_if (c : Var) (t e : Block) (G : Facts) (a : AccId) :
    knownS (.ifS c t e) G a = meetRow (knownB t G a) (knownB e G a) := by
  funext f; simp [knownS, meet, meetRow]

theorem headFacts_row (b : Block) (G : Facts) (a : AccId) :
    headFacts b G a = meetRow (G a) (knownB b G a) := by
  funext f; simp [headFacts, meet, meetRow]

theorem known_for (lb ub st iv : Var) (b : Block) (G : Facts) (a : AccId) :
    knownS (.forS lb ub st iv b) G a = meetRow (G a) (knownB b (headFacts b G) a) := by
  funext f; simp only [knownS, meet, meetRow, headFacts]
  split <;> simp_all

theorem localRow (b : Block) (F F' : Facts) (a : AccId) (h : F a = F' a) : knownB b F a = knownB b F' a := by
  funext f; exact localB b F F' a f (by rw [h])

theorem updRow_nil (r : Row) : updRow r [] = r := by
  funext f; simp [updRow, List.lookup]

theorem known_erase_cons (s : LStmt) (r : LBlock) (G : Facts) :
    knownB (erase (.cons s r)) G = knownB (erase r) (stepF s G) := by
  simp only [erase, stepF]
  cases eraseS s <;> simp [knownB]

/- ===== inserted empty setups ===== -/
theorem gives_empty {D : DTab} {A : Asm} {v : StateId} (hA : A.lookup v = none) (hD : D v = some (.setup none [])) :
    Gives D A v emptyRow := by
  have := Gives.setupNone (D := D) (A := A) (v := v) (fs := []) hA hD (by simp)
  rwa [updRow_nil] at this

theorem ensure_sigIs (a : AccId) (D : DTab) (A : Asm) : ∀ (l : List AccId) (σ : Sig) (n : Nat) (r : Row),
    (∀ v, n ≤ v → A.lookup v = none) →
    (∀ p ∈ (ensure l σ n).1, D p.2 = some (.setup none [])) → SigIs D A (σ a) r →
    SigIs D A ((ensure l σ n).2.1 a) r ∧ ((σ a).isSome ∨ a ∈ l → ((ensure l σ n).2.1 a).isSome) ∧
    (∀ p ∈ (ensure l σ n).1, p.1 = a → r = emptyRow ∧ Gives D A p.2 emptyRow)
  | [], σ, n, r, _, _, h => by
    refine ⟨h, ?_, ?_⟩
    · intro hh; rcases hh with hh | hh
      · exact hh
      · simp at hh
    · intro p hp; simp [ensure] at hp
  | b :: l, σ, n, r, hfr, hD, h => by
    simp only [ensure] at hD ⊢
    split
    · next v hv =>
      simp only [hv] at hD
      obtain ⟨h1, h2, h3⟩ := ensure_sigIs a D A l σ n r hfr hD h
      refine ⟨h1, ?_, h3⟩
      intro hh
      apply h2
      rcases hh with hh | hh
      · exact Or.inl hh
      · rcases List.mem_cons.mp hh with rfl | hh
        · left; simp [hv]
        · exact Or.inr hh
    · next hv =>
      simp only [hv] at hD
      have hDn : D n = some (.setup none []) := hD (b, n) (by simp)
      have hgn : Gives D A n emptyRow := gives_empty (hfr n (Nat.le_refl _)) hDn
      have hs : SigIs D A (sset σ b n a) r := by
        by_cases hab : a = b
        · subst hab
          rw [hv] at h
          simp only [SigIs] at h
          subst h
          simpa [sset, SigIs] using hgn
        · simpa [sset, hab] using h
      obtain ⟨h1, h2, h3⟩ := ensure_sigIs a D A l (sset σ b n) (n + 1) r
        (fun v hv => hfr v (by omega)) (fun p hp => hD p (by simp [hp])) hs
      refine ⟨h1, ?_, ?_⟩
      · intro hh
        apply h2
        by_cases hab : a = b
        · left; simp [sset, hab]
        · rcases hh with hh | hh
          · left; simpa [sset, hab] using hh
          · rcases List.mem_cons.mp hh with hh | hh
            · exact absurd hh hab
            · exact Or.inr hh
      · intro p hp hpa
        rcases List.mem_cons.mp hp with rfl | hp
        · simp only at hpa
          subst hpa
          rw [hv] at h
          simp only [SigIs] at h
          exact ⟨h, hgn⟩
        · exact h3 p hp hpa

theorem agree_prepend (a : AccId) (D : DTab) (A : Asm) : ∀ (es : List (AccId × StateId)) (b : LBlock) (G : Facts),
    (∀ p ∈ es, p.1 = a → G a = emptyRow ∧ Gives D A p.2 emptyRow) → AgreeB a D A b G →
    AgreeB a D A (prepend es b) G
  | [], _, _, _, h => h
  | (x, v) :: r, b, G, hes, h => by
    simp only [prepend, AgreeB, AgreeS]
    refine ⟨fun hx => hes (x, v) (by simp) hx, ?_⟩
    have : stepF (.empty x v) G = G := by simp [stepF, eraseS]
    rw [this]
    exact agree_prepend a D A r b G (fun p hp => hes p (by simp [hp])) h

theorem agree_appEmpties (a : AccId) (D : DTab) (A : Asm) : ∀ (b : LBlock) (es : List (AccId × StateId)) (G : Facts),
    AgreeB a D A b G →
    (∀ p ∈ es, p.1 = a → knownB (erase b) G a = emptyRow ∧ Gives D A p.2 emptyRow) →
    AgreeB a D A (appEmpties b es) G
  | .nil, es, G, _, hes => by
    simp only [appEmpties]
    exact agree_prepend a D A es .nil G (by simpa [erase, knownB] using hes) (by simp [AgreeB])
  | .cons s r, es, G, h, hes => by
    simp only [appEmpties, AgreeB] at h ⊢
    refine ⟨h.1, agree_appEmpties a D A r es _ h.2 ?_⟩
    intro p hp hpa
    have := hes p hp hpa
    rwa [known_erase_cons] at this

/- ===== owner-table entries of the inserted pieces ===== -/
theorem ldefs_prepend : ∀ (es : List (AccId × StateId)) (b : LBlock),
    ldefsB (prepend es b) = es.map (fun p => (p.2, LDef.setup none [])) ++ ldefsB b
  | [], _ => rfl
  | (_, _) :: r, b => by simp [prepend, ldefsB, ldefsS, ldefs_prepend r b]

theorem mem_ldefs_appEmpties : ∀ (b : LBlock) (es : List (AccId × StateId)) (q : StateId × LDef),
    q ∈ ldefsB (appEmpties b es) ↔ q ∈ ldefsB b ∨ q ∈ es.map (fun p => (p.2, LDef.setup none []))
  | .nil, es, q => by simp [appEmpties, ldefs_prepend, ldefsB]
  | .cons s r, es, q => by
    simp only [appEmpties, ldefsB, List.mem_append, mem_ldefs_appEmpties r es q]
    constructor
    · rintro (h | h | h)
      · exact Or.inl (Or.inl h)
      · exact Or.inl (Or.inr h)
      · exact Or.inr h
    · rintro ((h | h) | h)
      · exact Or.inl h
      · exact Or.inr (Or.inl h)
      · exact Or.inr (Or.inr h)

/- ===== ids only grow ===== -/
theorem forFinish_mono (lb ub st iv : Var) (us : List AccId) (en : List (AccId × StateId) × Sig × Nat) (wb : WB)
    (ρ : List (StateId × StateId)) : wb.nxt ≤ (forFinish lb ub st iv us en wb ρ).nxt := by
  have := ensure_mono us wb.sig wb.nxt
  simp only [forFinish]; omega

theorem forFinishP_mono (lb ub st iv : Var) (us : List AccId) (en : List (AccId × StateId) × Sig × Nat) (wb : WB)
    (ρ : List (StateId × StateId)) (car : List PCar) : wb.nxt ≤ (forFinishP lb ub st iv us en wb ρ car).nxt := by
  have := ensure_mono (us.filter fun a => !(car.any fun c => c.acc == a)) wb.sig wb.nxt
  simp only [forFinishP]; omega

mutual
theorem weaveS_mono : (s : PStmt) → ∀ σ cur n ρ, n ≤ (weaveS s σ cur n ρ).nxt
  | .setup _ _ _ _, _, _, _, _ => by simp [weaveS]
  | .launch _ _ _, _, _, _, _ => by simp [weaveS]
  | .await _, _, _, _, _ => by simp [weaveS]
  | .pure _ _ _, _, _, _, _ => by simp [weaveS]
  | .call _ _, _, _, _, _ => by simp [weaveS]
  | .ifS c t e, σ, cur, n, ρ => by
      simp only [weaveS, ifFinish]
      have h1 := weaveB_mono t σ noSig n ρ
      have h2 := weaveB_mono e σ noSig (weaveB t σ noSig n ρ).nxt ρ
      omega
  | .forS lb ub st iv body car, σ, cur, n, ρ => by
      simp only [weaveS]
      split
      · exact weaveB_mono body σ noSig n ρ
      · refine Nat.le_trans ?_ (forFinish_mono _ _ _ _ _ _ _ _)
        refine Nat.le_trans ?_ (weaveB_mono body _ _ _ _)
        exact Nat.le_trans (ensure_mono _ _ _) (Nat.le_add_right _ _)
theorem weaveB_mono : (b : PBlock) → ∀ σ cur n ρ, n ≤ (weaveB b σ cur n ρ).nxt
  | .nil, _, _, _, _ => by simp [weaveB]
  | .cons s r, σ, cur, n, ρ => by
      simp only [weaveB]
      exact Nat.le_trans (weaveS_mono s σ cur n ρ) (weaveB_mono r _ _ _ _)
end

/- ===== scf.if ===== -/
def ifResOf (σ : Sig) (cands : List AccId) (wt we : WB) : List IfRes :=
  (ifChanged σ wt.sig we.sig cands).map fun a =>
    IfRes.mk a (((mkIds (ifChanged σ wt.sig we.sig cands) we.nxt).lookup a).getD 0) ((wt.sig a).getD 0) ((we.sig a).getD 0)

theorem ifFinish_stmt_eq (c σ cands wt we ρ) :
    (ifFinish c σ cands wt we ρ).stmt = .ifS c wt.blk we.blk (ifResOf σ cands wt we) := rfl

theorem ifFinish_sig_eq (c σ cands wt we ρ) (a : AccId) :
    (ifFinish c σ cands wt we ρ).sig a =
      match (mkIds (ifChanged σ wt.sig we.sig cands) we.nxt).lookup a with
      | some v => some v
      | none => if (wt.sig a).isSome && (we.sig a).isSome then σ a else none := rfl

theorem mem_ifChanged {σ σt σe : Sig} {cands : List AccId} {a : AccId} :
    a ∈ ifChanged σ σt σe cands ↔
      a ∈ cands ∧ ∃ vt ve, σt a = some vt ∧ σe a = some ve ∧ ¬ (σ a = some vt ∧ σ a = some ve) := by
  simp only [ifChanged, List.mem_filter]
  cases ht : σt a with
  | none => simp
  | some vt =>
    cases he : σe a with
    | none => simp
    | some ve =>
      simp only [Bool.not_eq_true', Bool.and_eq_false_iff, beq_eq_false_iff_ne, ne_eq, Option.some.injEq,
        exists_and_left, exists_eq_left', not_and]
      constructor
      · rintro ⟨hc, h⟩
        refine ⟨hc, fun h1 h2 => ?_⟩
        rcases h with h | h
        · exact h h1
        · exact h h2
      · rintro ⟨hc, h⟩
        refine ⟨hc, ?_⟩
        by_cases h1 : σ a = some vt
        · exact Or.inr (h h1)
        · exact Or.inl h1

theorem ifFinish_main (a : AccId) (D : DTab) (A : Asm) (c : Var) (σ : Sig) (cands : List AccId) (wt we : WB)
    (ρ : List (StateId × StateId)) (Rt Re : Row)
    (ht : SigIs D A (wt.sig a) Rt) (he : SigIs D A (we.sig a) Re)
    (hfr : ∀ v, we.nxt ≤ v → A.lookup v = none)
    (hD : ∀ r ∈ ifResOf σ cands wt we, D r.res = some (.ifRes r.thn r.els))
    (hcase : a ∈ cands ∨ ((wt.sig a = σ a ∨ wt.sig a = none) ∧ (we.sig a = σ a ∨ we.sig a = none))) :
    SigIs D A ((ifFinish c σ cands wt we ρ).sig a) (meetRow Rt Re) ∧
    ∀ r ∈ ifResOf σ cands wt we, r.acc = a →
      Gives D A r.thn Rt ∧ Gives D A r.els Re ∧ Gives D A r.res (meetRow Rt Re) := by
  by_cases hch : a ∈ ifChanged σ wt.sig we.sig cands
  · obtain ⟨_, vt, ve, hvt, hve, _⟩ := mem_ifChanged.mp hch
    obtain ⟨v, hv, hv1, _⟩ := lookup_mkIds_some (ifChanged σ wt.sig we.sig cands) we.nxt a hch
    have hentry : IfRes.mk a v vt ve ∈ ifResOf σ cands wt we :=
      List.mem_map.mpr ⟨a, hch, by simp [hv, hvt, hve]⟩
    have hDv := hD _ hentry
    rw [hvt] at ht; rw [hve] at he
    have hg : Gives D A v (meetRow Rt Re) := Gives.pair (hfr v hv1) (Or.inl hDv) ht he
    refine ⟨by rw [ifFinish_sig_eq]; simp only [hv]; exact hg, ?_⟩
    intro r hr hra
    obtain ⟨a', _, rfl⟩ := List.mem_map.mp hr
    simp only at hra; subst hra
    simp only [hv, hvt, hve, Option.getD_some]
    exact ⟨ht, he, hg⟩
  · have hnone : (mkIds (ifChanged σ wt.sig we.sig cands) we.nxt).lookup a = none := lookup_mkIds_none _ _ _ hch
    refine ⟨?_, ?_⟩
    · rw [ifFinish_sig_eq]; simp only [hnone]
      cases hvt : wt.sig a with
      | none =>
        rw [hvt] at ht; simp only [SigIs] at ht; subst ht
        simp [SigIs, meetRow_empty_left]
      | some vt =>
        cases hve : we.sig a with
        | none =>
          rw [hve] at he; simp only [SigIs] at he; subst he
          simp [SigIs, meetRow_empty_right]
        | some ve =>
          have hboth : σ a = some vt ∧ σ a = some ve := by
            rcases hcase with hc | ⟨h1, h2⟩
            · by_cases hne : σ a = some vt ∧ σ a = some ve
              · exact hne
              · exact absurd (mem_ifChanged.mpr ⟨hc, vt, ve, hvt, hve, hne⟩) hch
            · rw [hvt] at h1; rw [hve] at h2
              constructor
              · rcases h1 with h1 | h1
                · exact h1.symm
                · simp at h1
              · rcases h2 with h2 | h2
                · exact h2.symm
                · simp at h2
          rw [hvt] at ht; rw [hve] at he
          simp only [SigIs] at ht he
          have hvv : vt = ve := by have := hboth.1.symm.trans hboth.2; simpa using this
          subst hvv
          have hR := ht.unique he
          subst hR
          simp only [Option.isSome_some, Bool.and_self, if_true, hboth.1, SigIs, meetRow_self]
          exact ht
    · intro r hr hra
      obtain ⟨a', ha', rfl⟩ := List.mem_map.mp hr
      simp only at hra; subst hra
      exact absurd ha' hch

/- ===== scf.for ===== -/
def forCarOf (us : List AccId) (en : List (AccId × StateId) × Sig × Nat) (wb : WB) : List ForCar :=
  us.map fun a => ForCar.mk a (((mkIds us en.2.2).lookup a).getD 0) ((en.2.1 a).getD 0)
    (((ensure us wb.sig wb.nxt).2.1 a).getD 0) (((mkIds us (ensure us wb.sig wb.nxt).2.2).lookup a).getD 0)

theorem forFinish_stmt_eq (lb ub st iv us en wb ρ) :
    (forFinish lb ub st iv us en wb ρ).stmt =
      .forS lb ub st iv (appEmpties wb.blk (ensure us wb.sig wb.nxt).1) (forCarOf us en wb) := rfl

theorem forFinish_sig_eq (lb ub st iv us en wb ρ) (a : AccId) :
    (forFinish lb ub st iv us en wb ρ).sig a =
      match (mkIds us (ensure us wb.sig wb.nxt).2.2).lookup a with
      | some v => some v
      | none => if (wb.sig a).isSome then en.2.1 a else none := rfl

theorem forFinish_main (a : AccId) (D : DTab) (A : Asm) (lb ub st iv : Var) (us : List AccId)
    (en : List (AccId × StateId) × Sig × Nat) (wb : WB) (ρ : List (StateId × StateId)) (R0 R1 R2 : Row)
    (ha : a ∈ us)
    (hen : SigIs D A (en.2.1 a) R0) (hsome : (en.2.1 a).isSome)
    (hfrA : ∀ v, en.2.2 ≤ v → A.lookup v = none)
    (hnxt : en.2.2 + us.length ≤ wb.nxt)
    (hDcar : ∀ c ∈ forCarOf us en wb,
      D c.arg = some (.forArg c.init c.yld) ∧ D c.res = some (.forRes c.init c.yld))
    (hDpost : ∀ p ∈ (ensure us wb.sig wb.nxt).1, D p.2 = some (.setup none []))
    (h1 : ∀ (arg : StateId) (x : LState), (mkIds us en.2.2).lookup a = some arg → NodupKeys x →
      (∀ f, x.lookup f = R0 f) → SigIs D ((arg, x) :: A) (wb.sig a) R1)
    (h2 : ∀ arg : StateId, (mkIds us en.2.2).lookup a = some arg → Gives D A arg (meetRow R0 R1) →
      SigIs D A (wb.sig a) R2) :
    (∃ arg : StateId, (mkIds us en.2.2).lookup a = some arg ∧ Gives D A arg (meetRow R0 R1)) ∧
    SigIs D A ((forFinish lb ub st iv us en wb ρ).sig a) (meetRow R0 R2) ∧
    (∀ c ∈ forCarOf us en wb, c.acc = a →
      Gives D A c.init R0 ∧ Gives D A c.arg (meetRow R0 R1) ∧ Gives D A c.yld R2 ∧
      Gives D A c.res (meetRow R0 R2)) ∧
    (∀ p ∈ (ensure us wb.sig wb.nxt).1, p.1 = a → R2 = emptyRow ∧ Gives D A p.2 emptyRow) := by
  obtain ⟨arg, harg, hlo, hhi⟩ := lookup_mkIds_some us en.2.2 a ha
  obtain ⟨i, hi⟩ := Option.isSome_iff_exists.mp hsome
  rw [hi] at hen
  have hgi : Gives D A i R0 := hen
  obtain ⟨x, hx, hxnd, hxr⟩ := hen
  have hA'fr : ∀ v, wb.nxt ≤ v → ((arg, x) :: A).lookup v = none := by
    intro v hv
    have hne : (v == arg) = false := by
      have : v ≠ arg := by omega
      simpa using this
    simp only [List.lookup, hne]
    exact hfrA v (by omega)
  have hs1 := h1 arg x harg hxnd hxr
  obtain ⟨hy1, hysome, _⟩ := ensure_sigIs a D ((arg, x) :: A) us wb.sig wb.nxt R1 hA'fr hDpost hs1
  obtain ⟨yv, hyv⟩ := Option.isSome_iff_exists.mp (hysome (Or.inr ha))
  rw [hyv] at hy1
  obtain ⟨res, hres, hrlo, _⟩ := lookup_mkIds_some us (ensure us wb.sig wb.nxt).2.2 a ha
  have hentry : ForCar.mk a arg i yv res ∈ forCarOf us en wb :=
    List.mem_map.mpr ⟨a, ha, by simp [harg, hi, hyv, hres]⟩
  obtain ⟨hDarg, hDres⟩ := hDcar _ hentry
  have hgarg : Gives D A arg (meetRow R0 R1) :=
    Gives.forArg (hfrA arg hlo) hDarg hgi (fun s hs => by
      have := hx.unique hs; subst this; exact hy1)
  have hs2 := h2 arg harg hgarg
  have hAfr2 : ∀ v, wb.nxt ≤ v → A.lookup v = none := fun v hv => hfrA v (by omega)
  obtain ⟨hy2, _, hpost⟩ := ensure_sigIs a D A us wb.sig wb.nxt R2 hAfr2 hDpost hs2
  rw [hyv] at hy2
  have hmono := ensure_mono us wb.sig wb.nxt
  have hgres : Gives D A res (meetRow R0 R2) :=
    Gives.pair (hfrA res (by omega)) (Or.inr hDres) hgi hy2
  refine ⟨⟨arg, harg, hgarg⟩, ?_, ?_, hpost⟩
  · rw [forFinish_sig_eq]; simp only [hres]; exact hgres
  · intro c hc hca
    obtain ⟨a', _, rfl⟩ := List.mem_map.mp hc
    simp only at hca; subst hca
    simp only [harg, hi, hyv, hres, Option.getD_some]
    exact ⟨hgi, hgarg, hy2, hgres⟩

end SnaxVerif.AccfgLinks
