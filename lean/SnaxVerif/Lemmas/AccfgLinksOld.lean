import SnaxVerif.Lemmas.AccfgLinksIds
/-! The pass before fixes/FC07a (`weaveOldS`/`weaveOldB`, findings DC07a / DC07b) coincides with the repaired pass
(`weaveS`/`weaveB`) on programs none of whose loops carries a state value yet (`plainPB`). -/
namespace SnaxVerif.AccfgLinks
open SnaxVerif.Accfg

mutual
theorem accsOldS_eq : (s : PStmt) → plainPS s = true → accsOldPS s = accsPS s
  | .setup _ _ _ _, _ => rfl
  | .launch _ _ _, _ => rfl
  | .await _, _ => rfl
  | .pure _ _ _, _ => rfl
  | .call _ _, _ => rfl
  | .ifS c t e, h => by
      simp only [plainPS, Bool.and_eq_true] at h
      simp only [accsOldPS, accsPS, accsOldB_eq t h.1, accsOldB_eq e h.2]
  | .forS lb ub st iv b (c :: cs), h => by simp [plainPS] at h
  | .forS lb ub st iv b [], h => by
      have hb : plainPB b = true := by simpa [plainPS] using h
      simp only [accsOldPS, accsPS, accsOldB_eq b hb, List.map_nil, List.append_nil]
theorem accsOldB_eq : (b : PBlock) → plainPB b = true → accsOldPB b = accsPB b
  | .nil, _ => rfl
  | .cons s r, h => by
      simp only [plainPB, Bool.and_eq_true] at h
      simp only [accsOldPB, accsPB, accsOldS_eq s h.1, accsOldB_eq r h.2]
end

mutual
theorem weaveOldS_eq : (s : PStmt) → ∀ σ cur n ρ, plainPS s = true → weaveOldS s σ cur n ρ = weaveS s σ cur n ρ
  | .setup _ _ _ _, _, _, _, _, _ => by simp [weaveOldS, weaveS]
  | .launch _ _ _, _, _, _, _, _ => by simp [weaveOldS, weaveS]
  | .await _, _, _, _, _, _ => by simp [weaveOldS, weaveS]
  | .pure _ _ _, _, _, _, _, _ => by simp [weaveOldS, weaveS]
  | .call _ _, _, _, _, _, _ => by simp [weaveOldS, weaveS]
  | .ifS c t e, σ, cur, n, ρ, h => by
      simp only [plainPS, Bool.and_eq_true] at h
      simp only [weaveOldS, weaveS, weaveOldB_eq t _ _ _ _ h.1, weaveOldB_eq e _ _ _ _ h.2,
        accsOldB_eq t h.1, accsOldB_eq e h.2]
  | .forS lb ub st iv body (c :: cs), _, _, _, _, h => by simp [plainPS] at h
  | .forS lb ub st iv body [], σ, cur, n, ρ, h => by
      have hb : plainPB body = true := by simpa [plainPS] using h
      simp only [weaveOldS, weaveS, accsOldB_eq body hb, List.map_nil, List.append_nil, List.nil_append,
        weaveOldB_eq body _ _ _ _ hb]
theorem weaveOldB_eq : (b : PBlock) → ∀ σ cur n ρ, plainPB b = true → weaveOldB b σ cur n ρ = weaveB b σ cur n ρ
  | .nil, _, _, _, _, _ => by simp [weaveOldB, weaveB]
  | .cons s r, σ, cur, n, ρ, h => by
      simp only [plainPB, Bool.and_eq_true] at h
      simp only [weaveOldB, weaveB, weaveOldS_eq s _ _ _ _ h.1, weaveOldB_eq r _ _ _ _ h.2]
end

theorem weaveOld_eq (p : PBlock) (h : plainPB p = true) : weaveOld p = weave p := by
  simp only [weaveOld, weave, weaveOldB_eq p _ _ _ _ h]

theorem weaveOldBad_eq (p : PBlock) (h : plainPB p = true) : weaveOldBad p = weaveBad p := by
  simp only [weaveOldBad, weaveBad, weaveOldB_eq p _ _ _ _ h]

end SnaxVerif.AccfgLinks
