import SnaxVerif.Lemmas.Backtrack
/-! `backtrackFirst` (lazy `next(..)`): induction principle and agreement with the head of the full list. -/
namespace SnaxVerif.Sched
open List

/-- same induction principle as `backtrack_induct`, for the lazily computed first result -/
theorem backtrackFirst_induct {mtch : Template → Schedule → Except Err Bool}
    {checks : List (Template → Schedule → Bool)} {tmpl : Template}
    (I : Nat → Schedule → Prop) (Q : Schedule → Prop)
    (hyield : ∀ k s, I k s → k > s.n → Q s)
    (hrot : ∀ k s s1 cand, I k s → k ≤ s.n → btStep mtch checks tmpl k s = .ok (s1, cand) →
      I k s1 ∧ s1.n = s.n ∧ ∀ c, cand = some c → I (k + 1) c) :
    ∀ (fuel : Nat) (s : Schedule) (k : Nat) (r : Schedule), I k s →
      backtrackFirst mtch checks tmpl fuel s k = .ok (some r) → Q r
  | 0, _, _, _, _, h => by simp [backtrackFirst] at h
  | fuel + 1, s, k, r, hI, h => by
    unfold backtrackFirst at h
    split at h
    · next hk =>
      simp only [Except.ok.injEq, Option.some.injEq] at h
      subst h
      exact hyield k _ hI hk
    · next hk =>
      have loop : ∀ (i : Nat) (s' : Schedule), I k s' → s'.n = s.n →
          btLoopFirst (btStep mtch checks tmpl k) (fun c => backtrackFirst mtch checks tmpl fuel c (k + 1)) i s'
            = .ok (some r) → Q r := by
        intro i
        induction i with
        | zero =>
          intro s' _ _ hl
          simp [btLoopFirst] at hl
        | succ i ih =>
          intro s' hI' hn' hl
          unfold btLoopFirst at hl
          split at hl
          · cases hl
          · next s1 cand hstep =>
            obtain ⟨hI1, hn1, hcand⟩ := hrot k s' s1 cand hI' (by omega) hstep
            cases cand with
            | none =>
              simp only at hl
              exact ih s1 hI1 (by omega) hl
            | some c =>
              simp only at hl
              split at hl
              · cases hl
              · next r' hr' =>
                simp only [Except.ok.injEq, Option.some.injEq] at hl
                subst hl
                exact backtrackFirst_induct I Q hyield hrot fuel c (k + 1) r' (hcand c rfl) hr'
              · exact ih s1 hI1 (by omega) hl
      exact loop _ s hI rfl h

theorem btLoopFirst_eq_head {step : Schedule → Except Err (Schedule × Option Schedule)}
    {rec : Schedule → Except Err (List Schedule)} {recF : Schedule → Except Err (Option Schedule)}
    (hrec : ∀ c rs, rec c = .ok rs → recF c = .ok rs.head?) :
    ∀ (i : Nat) (s : Schedule) (rs : List Schedule), btLoop step rec i s = .ok rs →
      btLoopFirst step recF i s = .ok rs.head?
  | 0, _, rs, h => by
    simp only [btLoop, Except.ok.injEq] at h
    subst h
    simp [btLoopFirst]
  | i + 1, s, rs, h => by
    unfold btLoop at h
    unfold btLoopFirst
    split at h
    · cases h
    · next s1 cand hs =>
      cases cand with
      | none =>
        simp only at h ⊢
        split at h
        · cases h
        · next rest hrest =>
          simp only [List.nil_append, Except.ok.injEq] at h
          subst h
          exact btLoopFirst_eq_head hrec i s1 rest hrest
      | some c =>
        simp only at h ⊢
        split at h
        · cases h
        · next here hhere =>
          rw [hrec c here hhere]
          split at h
          · cases h
          · next rest hrest =>
            simp only [Except.ok.injEq] at h
            subst h
            cases here with
            | nil =>
              simp only [List.head?_nil, List.nil_append]
              exact btLoopFirst_eq_head hrec i s1 rest hrest
            | cons x xs => simp

/-- whenever the full list evaluates, the lazy first result is its head -/
theorem backtrackFirst_eq_head {mtch : Template → Schedule → Except Err Bool}
    {checks : List (Template → Schedule → Bool)} {tmpl : Template} :
    ∀ (fuel : Nat) (s : Schedule) (k : Nat) (rs : List Schedule), backtrack mtch checks tmpl fuel s k = .ok rs →
      backtrackFirst mtch checks tmpl fuel s k = .ok rs.head?
  | 0, _, _, _, h => by simp [backtrack] at h
  | fuel + 1, s, k, rs, h => by
    unfold backtrack at h
    unfold backtrackFirst
    split at h
    · next hk =>
      simp only [Except.ok.injEq] at h
      subst h
      simp [hk]
    · next hk =>
      simp only [hk, if_false]
      exact btLoopFirst_eq_head (fun c rs' hc => backtrackFirst_eq_head fuel c (k + 1) rs' hc) _ s rs h

end SnaxVerif.Sched
