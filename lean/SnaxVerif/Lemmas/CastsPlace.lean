import SnaxVerif.Lemmas.Casts
/-! The placement rule of `RealizeMemrefCasts` (with F10) produces placements that the checker `chk` accepts,
for every block that satisfies the syntactic clauses (`Syntactic`). Core Lean only. -/
namespace SnaxVerif.Casts

/-- concatenation of blocks -/
def Blk.app : Blk → Blk → Blk
  | .nil, y => y
  | .cons i r, y => .cons i (r.app y)

theorem Blk.app_assoc : ∀ (x y z : Blk), (x.app y).app z = x.app (y.app z)
  | .nil, _, _ => rfl
  | .cons i r, y, z => by simp only [Blk.app]; rw [Blk.app_assoc r y z]

/-! ### `okB` in terms of `usesIn` / `usesOut` -/

theorem opd_all_okB (forb : List Nat) (c : Bool) : ∀ l : List Opd,
    l.all (Opd.okB forb c) = (l.all (Opd.okB forb true) && (c || !l.any Opd.isCast))
  | [] => by simp
  | o :: l => by
    simp only [List.all_cons, List.any_cons, opd_all_okB forb c l]
    cases o with
    | direct cs =>
      simp only [Opd.okB, Opd.isCast, Bool.false_or]
      generalize (cs.all fun c => !forb.contains c) = a
      generalize l.all (Opd.okB forb true) = b
      generalize l.any Opd.isCast = n
      cases a <;> cases b <;> cases n <;> cases c <;> rfl
    | cast =>
      simp only [Opd.okB, Opd.isCast, Bool.true_or, Bool.not_true, Bool.or_false, Bool.true_and]
      generalize l.all (Opd.okB forb true) = b
      generalize l.any Opd.isCast = n
      cases b <;> cases n <;> cases c <;> rfl

mutual
theorem Item.okB_char (forb : List Nat) (ci co : Bool) : (i : Item) →
    i.okB forb ci co = (i.okB forb true true && (ci || !i.usesIn) && (co || !i.usesOut))
  | .leaf _ ins outs => by
    simp only [Item.okB, Item.usesIn, Item.usesOut]
    rw [opd_all_okB forb ci ins, opd_all_okB forb co outs]
    generalize ins.all (Opd.okB forb true) = a1
    generalize ins.any Opd.isCast = n1
    generalize outs.all (Opd.okB forb true) = a2
    generalize outs.any Opd.isCast = n2
    cases a1 <;> cases n1 <;> cases a2 <;> cases n2 <;> cases ci <;> cases co <;> rfl
  | .copy _ _ => by simp [Item.okB, Item.usesIn, Item.usesOut]
  | .copyIn => by simp [Item.okB]
  | .copyOut => by simp [Item.okB]
  | .loop _ b => by
    simp only [Item.okB, Item.usesIn, Item.usesOut]
    exact Blk.okB_char forb ci co b
theorem Blk.okB_char (forb : List Nat) (ci co : Bool) : (b : Blk) →
    b.okB forb ci co = (b.okB forb true true && (ci || !b.usesIn) && (co || !b.usesOut))
  | .nil => by simp [Blk.okB, Blk.usesIn, Blk.usesOut]
  | .cons i r => by
    simp only [Blk.okB, Blk.usesIn, Blk.usesOut]
    rw [Item.okB_char forb ci co i, Blk.okB_char forb ci co r]
    generalize i.okB forb true true = a1
    generalize r.okB forb true true = a2
    generalize i.usesIn = n1
    generalize r.usesIn = n2
    generalize i.usesOut = m1
    generalize r.usesOut = m2
    cases a1 <;> cases a2 <;> cases n1 <;> cases n2 <;> cases m1 <;> cases m2 <;> cases ci <;> cases co <;> rfl
end

mutual
theorem Item.uses_eq : (i : Item) → i.uses = (i.usesIn || i.usesOut)
  | .leaf _ _ _ => rfl
  | .copy _ _ => rfl
  | .copyIn => rfl
  | .copyOut => rfl
  | .loop _ b => by simp only [Item.uses, Item.usesIn, Item.usesOut]; exact Blk.uses_eq b
theorem Blk.uses_eq : (b : Blk) → b.uses = (b.usesIn || b.usesOut)
  | .nil => rfl
  | .cons i r => by
    simp only [Blk.uses, Blk.usesIn, Blk.usesOut]
    rw [Item.uses_eq i, Blk.uses_eq r]
    generalize i.usesIn = a
    generalize r.usesIn = b
    generalize i.usesOut = c
    generalize r.usesOut = d
    cases a <;> cases b <;> cases c <;> cases d <;> rfl
end

theorem Item.noUse {i : Item} (h : i.uses = false) : i.usesIn = false ∧ i.usesOut = false := by
  rw [Item.uses_eq] at h
  exact Bool.or_eq_false_iff.mp h

theorem Blk.noUse {b : Blk} (h : b.uses = false) : b.usesIn = false ∧ b.usesOut = false := by
  rw [Blk.uses_eq] at h
  exact Bool.or_eq_false_iff.mp h

/-- an item that does not use the cast passes every `okB` test that it passes with casts allowed -/
theorem Item.okB_of_noUse {i : Item} (forb : List Nat) (ci co : Bool) (h : i.uses = false)
    (hk : i.okB forb true true = true) : i.okB forb ci co = true := by
  rw [Item.okB_char, hk, (Item.noUse h).1, (Item.noUse h).2]; cases ci <;> cases co <;> rfl

/-- an item that uses the cast fails the test that forbids casts -/
theorem Item.okB_of_use {i : Item} (forb : List Nat) (h : i.uses = true) : i.okB forb false false = false := by
  rw [Item.okB_char]
  rw [Item.uses_eq] at h
  generalize i.okB forb true true = a
  revert h
  generalize i.usesIn = n
  generalize i.usesOut = m
  cases a <;> cases n <;> cases m <;> simp

theorem Item.okB_in {i : Item} (forb : List Nat) (a : Bool) (hk : i.okB forb true true = true)
    (h : a = true ∨ i.usesIn = false) : i.okB forb a true = true := by
  rw [Item.okB_char, hk]
  rcases h with h | h <;> rw [h] <;> simp

theorem Item.okB_out {i : Item} (forb : List Nat) (a : Bool) (hk : i.okB forb true true = true)
    (h : a = true ∨ i.usesIn = false) : i.okB forb a false = !i.usesOut := by
  rw [Item.okB_char, hk]
  rcases h with h | h <;> rw [h] <;> simp

/-! ### blocks and concatenation -/

theorem Blk.okB_app (forb : List Nat) (ci co : Bool) : ∀ (x y : Blk),
    (x.app y).okB forb ci co = (x.okB forb ci co && y.okB forb ci co)
  | .nil, y => by simp [Blk.app, Blk.okB]
  | .cons i r, y => by simp only [Blk.app, Blk.okB, Blk.okB_app forb ci co r y, Bool.and_assoc]

theorem Blk.uses_app : ∀ (x y : Blk), (x.app y).uses = (x.uses || y.uses)
  | .nil, y => by simp [Blk.app, Blk.uses]
  | .cons i r, y => by simp only [Blk.app, Blk.uses, Blk.uses_app r y, Bool.or_assoc]

theorem Blk.usesIn_app : ∀ (x y : Blk), (x.app y).usesIn = (x.usesIn || y.usesIn)
  | .nil, y => by simp [Blk.app, Blk.usesIn]
  | .cons i r, y => by simp only [Blk.app, Blk.usesIn, Blk.usesIn_app r y, Bool.or_assoc]

theorem Blk.usesOut_app : ∀ (x y : Blk), (x.app y).usesOut = (x.usesOut || y.usesOut)
  | .nil, y => by simp [Blk.app, Blk.usesOut]
  | .cons i r, y => by simp only [Blk.app, Blk.usesOut, Blk.usesOut_app r y, Bool.or_assoc]

theorem chkFrom_app (S A : List Nat) : ∀ (x y : Blk) (q : Sync),
    chkFrom S A (x.app y) q = (chkFrom S A x q).bind (chkFrom S A y)
  | .nil, y, q => by simp [Blk.app, chkFrom]
  | .cons i r, y, q => by
    simp only [Blk.app, chkFrom]
    cases stepSync S A i q with
    | none => rfl
    | some q' => exact chkFrom_app S A r y q'

theorem chkFrom_cons (S A : List Nat) (i : Item) (r : Blk) (q : Sync) :
    chkFrom S A (.cons i r) q = (stepSync S A i q).bind (chkFrom S A r) := by
  simp only [chkFrom]
  cases stepSync S A i q <;> rfl

theorem step_copyOut (S A : List Nat) (s : Bool) : stepSync S A .copyOut ⟨s, true⟩ = some ⟨true, true⟩ := by
  simp [stepSync]

/-! ### where the rule puts the copies -/

mutual
theorem Item.insOut_none : (i : Item) → i.usesOut = false → i.insOut = none
  | .loop _ b, h => by
    simp only [Item.usesOut] at h
    simp only [Item.insOut, Blk.insOut_none b h]
  | .leaf _ _ _, _ => rfl
  | .copy _ _, _ => rfl
  | .copyIn, _ => rfl
  | .copyOut, _ => rfl
theorem Blk.insOut_none : (b : Blk) → b.usesOut = false → b.insOut = none
  | .nil, _ => rfl
  | .cons i r, h => by
    simp only [Blk.usesOut, Bool.or_eq_false_iff] at h
    simp only [Blk.insOut, Blk.insOut_none r h.2, Item.insOut_none i h.1]
    cases i <;> simp_all [Item.leafOut, Item.usesOut]
end

/-- the copy-out search looks at the tail first -/
theorem Blk.insOut_app_some : ∀ (x y y' : Blk), y.insOut = some y' → (x.app y).insOut = some (x.app y')
  | .nil, _, _, h => h
  | .cons i r, y, y', h => by
    simp only [Blk.app, Blk.insOut, Blk.insOut_app_some r y y' h]

/-- a leaf that writes the cast, followed by a tail without writers: the copy-out goes right behind the leaf -/
theorem Blk.insOut_leaf (w : Item) (t : Blk) (hw : w.leafOut = true) (ht : t.usesOut = false) :
    (Blk.cons w t).insOut = some (.cons w (.cons .copyOut t)) := by
  simp only [Blk.insOut, Blk.insOut_none t ht, hw, if_true]

theorem insInTop_app_noUse : ∀ (x y : Blk), x.uses = false → insInTop (x.app y) = x.app (insInTop y)
  | .nil, _, _ => rfl
  | .cons i r, y, h => by
    simp only [Blk.uses, Bool.or_eq_false_iff] at h
    simp only [Blk.app, insInTop, h.1, Bool.false_eq_true, if_false]
    rw [insInTop_app_noUse r y h.2]

theorem insInTop_app_use : ∀ (x y : Blk), x.uses = true → insInTop (x.app y) = (insInTop x).app y
  | .nil, _, h => by simp [Blk.uses] at h
  | .cons i r, y, h => by
    simp only [Blk.app, insInTop]
    cases hi : i.uses with
    | true => simp [Blk.app]
    | false =>
      simp only [Blk.uses, hi, Bool.false_or] at h
      simp only [Bool.false_eq_true, if_false, Blk.app]
      rw [insInTop_app_use r y h]

/-! ### single steps of the checker -/

theorem stepSync_eq_other (S A : List Nat) (forb : List Nat) (ci co : Bool) (i : Item) (q : Sync)
    (h : i.okB forb ci co = true) : stepSync S A i q = stepOther S A i q := by
  cases i <;> simp_all [stepSync, Item.okB]

/-- outside the segment: an item that does not use the cast keeps the source valid -/
theorem step_outside (S A : List Nat) (i : Item) (a : Bool) (hu : i.uses = false) (hk : i.okB A true true = true) :
    ∃ a', stepSync S A i ⟨true, a⟩ = some ⟨true, a'⟩ := by
  rw [stepSync_eq_other S A A true true i _ hk]
  unfold stepOther
  split
  · exact ⟨a, rfl⟩
  · rw [if_pos (Item.okB_of_noUse A false false hu hk)]
    exact ⟨false, rfl⟩

/-- inside the segment, no use: nothing changes -/
theorem step_quiet_noUse (S A : List Nat) (i : Item) (q : Sync) (hu : i.uses = false)
    (hk : i.okB (A ++ S) true true = true) : stepSync S A i q = some q := by
  rw [stepSync_eq_other S A (A ++ S) true true i _ hk]
  unfold stepOther
  rw [if_pos (Item.okB_of_noUse (A ++ S) false false hu hk)]

/-- inside the segment: an item whose reads through the cast are backed by valid data -/
theorem step_quiet (S A : List Nat) (i : Item) (s a : Bool) (hk : i.okB (A ++ S) true true = true)
    (h : a = true ∨ i.usesIn = false) :
    stepSync S A i ⟨s, a⟩ = some ⟨s && !i.usesOut, a || (i.usesOut && i.isLeaf)⟩ := by
  cases hu : i.uses with
  | false =>
    rw [step_quiet_noUse S A i _ hu hk, (Item.noUse hu).2]
    simp
  | true =>
    rw [stepSync_eq_other S A (A ++ S) true true i _ hk]
    unfold stepOther
    rw [if_neg (by rw [Item.okB_of_use (A ++ S) hu]; simp), if_neg (by rw [Item.okB_of_use A hu]; simp)]
    simp only
    rw [if_pos (Item.okB_in (A ++ S) a hk h), Item.okB_out (A ++ S) a hk h]
    simp

/-! ### whole blocks -/

theorem chk_outside (S A : List Nat) : ∀ (x : Blk) (a : Bool), x.uses = false → x.okB A true true = true →
    ∃ a', chkFrom S A x ⟨true, a⟩ = some ⟨true, a'⟩
  | .nil, a, _, _ => ⟨a, rfl⟩
  | .cons i r, a, hu, hk => by
    simp only [Blk.uses, Bool.or_eq_false_iff] at hu
    simp only [Blk.okB, Bool.and_eq_true] at hk
    obtain ⟨a1, h1⟩ := step_outside S A i a hu.1 hk.1
    simp only [chkFrom, h1]
    exact chk_outside S A r a1 hu.2 hk.2

theorem chk_quiet_noUse (S A : List Nat) : ∀ (x : Blk) (q : Sync), x.uses = false →
    x.okB (A ++ S) true true = true → chkFrom S A x q = some q
  | .nil, _, _, _ => rfl
  | .cons i r, q, hu, hk => by
    simp only [Blk.uses, Bool.or_eq_false_iff] at hu
    simp only [Blk.okB, Bool.and_eq_true] at hk
    simp only [chkFrom, step_quiet_noUse S A i q hu.1 hk.1]
    exact chk_quiet_noUse S A r q hu.2 hk.2

/-- inside the segment with a valid stand-in buffer -/
theorem chk_quiet_valid (S A : List Nat) : ∀ (x : Blk) (s : Bool), x.okB (A ++ S) true true = true →
    chkFrom S A x ⟨s, true⟩ = some ⟨s && !x.usesOut, true⟩
  | .nil, s, _ => by simp [chkFrom, Blk.usesOut]
  | .cons i r, s, hk => by
    simp only [Blk.okB, Bool.and_eq_true] at hk
    simp only [chkFrom, step_quiet S A i s true hk.1 (Or.inl rfl), Bool.true_or]
    rw [chk_quiet_valid S A r _ hk.2]
    simp [Blk.usesOut, Bool.and_assoc]

/-- inside the segment without any read through the cast: the checker does not get stuck -/
theorem chk_quiet_noIn (S A : List Nat) : ∀ (x : Blk) (q : Sync), x.usesIn = false →
    x.okB (A ++ S) true true = true → ∃ q', chkFrom S A x q = some q'
  | .nil, q, _, _ => ⟨q, rfl⟩
  | .cons i r, q, hu, hk => by
    simp only [Blk.usesIn, Bool.or_eq_false_iff] at hu
    simp only [Blk.okB, Bool.and_eq_true] at hk
    simp only [chkFrom, step_quiet S A i q.srcOk q.allocOk hk.1 (Or.inr hu.1)]
    exact chk_quiet_noIn S A r _ hu.2 hk.2

/-- the copy-in in front of the first use: afterwards the stand-in buffer is valid -/
theorem chk_insInTop (S A : List Nat) : ∀ (x : Blk) (a : Bool), x.uses = true → x.okB (A ++ S) true true = true →
    chkFrom S A (insInTop x) ⟨true, a⟩ = chkFrom S A x ⟨true, true⟩
  | .nil, _, hu, _ => by simp [Blk.uses] at hu
  | .cons i r, a, hu, hk => by
    simp only [Blk.okB, Bool.and_eq_true] at hk
    simp only [insInTop]
    cases hi : i.uses with
    | true => simp [chkFrom, stepSync]
    | false =>
      simp only [Blk.uses, hi, Bool.false_or] at hu
      simp only [Bool.false_eq_true, if_false, chkFrom, step_quiet_noUse S A i _ hi hk.1]
      exact chk_insInTop S A r a hu hk.2

/-- the last writer is a leaf of the block itself: it leaves a valid stand-in buffer and an outdated source -/
theorem step_writer (S A : List Nat) (w : Item) (s a : Bool) (hw : w.leafOut = true)
    (hk : w.okB (A ++ S) true true = true) (h : a = true ∨ w.usesIn = false) :
    stepSync S A w ⟨s, a⟩ = some ⟨false, true⟩ := by
  have ho : w.usesOut = true := by cases w <;> simp_all [Item.leafOut, Item.usesOut]
  have hl : w.isLeaf = true := by cases w <;> simp_all [Item.leafOut, Item.isLeaf]
  rw [step_quiet S A w s a hk h, ho, hl]
  simp

/-! ### the syntactic clauses -/

/-- **`LastWriterTop`**: the segment has no use of the cast as an output, or the last such use is an operation of the
block itself (not nested in a loop / conditional). -/
def LastWriterTop (mid : Blk) : Prop :=
  mid.usesOut = false ∨ ∃ (m1 : Blk) (w : Item) (m2 : Blk), mid = m1.app (.cons w m2) ∧ w.leafOut = true ∧ m2.usesOut = false

/-- The syntactic clauses under which the placement of the two copies is right: the block of the cast splits into
`pre ++ mid ++ post` such that -/
structure Syntactic (S A : List Nat) (b : Blk) : Prop where
  split : ∃ (pre mid post : Blk), b = pre.app (mid.app post) ∧
    /- all uses of the cast are inside the segment `mid` -/
    pre.uses = false ∧ post.uses = false ∧
    /- **`Clean`**: the program does not address the fresh stand-in cells and contains no inserted copies -/
    pre.okB A true true = true ∧ post.okB A true true = true ∧
    /- **`SourceQuiet`**: inside the segment the source is not addressed through another path -/
    mid.okB (A ++ S) true true = true ∧
    /- **`LastWriterTop`** -/
    LastWriterTop mid

/-- **The rule's placement is accepted by the checker whenever the syntactic clauses hold.** -/
theorem realize_accepted (S A : List Nat) (b : Blk) (h : Syntactic S A b) : chk S A (realize true b) = true := by
  obtain ⟨pre, mid, post, hb, hpre, hpost, kpre, kpost, kmid, hlw⟩ := h.split
  have hin : b.usesIn = mid.usesIn := by
    rw [hb, Blk.usesIn_app, Blk.usesIn_app, (Blk.noUse hpre).1, (Blk.noUse hpost).1]; simp
  -- the end of every run: `post` keeps the source valid
  have fin : ∀ a, ∃ a', chkFrom S A post ⟨true, a⟩ = some ⟨true, a'⟩ := fun a => chk_outside S A post a hpost kpost
  obtain ⟨a0, h0⟩ := chk_outside S A pre false hpre kpre
  rcases hlw with hno | ⟨m1, w, m2, hmid, hw, hm2⟩
  · -- no writer through the cast: no copy-out
    have hbo : b.usesOut = false := by
      rw [hb, Blk.usesOut_app, Blk.usesOut_app, (Blk.noUse hpre).2, (Blk.noUse hpost).2, hno]; rfl
    have hb1 : (b.insOut).getD b = b := by rw [Blk.insOut_none b hbo]; rfl
    unfold chk realize
    simp only [if_true, hb1]
    cases hmi : mid.usesIn with
    | true =>
      have hmu : mid.uses = true := by rw [Blk.uses_eq, hmi]; rfl
      rw [hin, hmi, if_pos rfl, hb, insInTop_app_noUse pre _ hpre, insInTop_app_use mid post hmu,
        chkFrom_app, h0, Option.bind_some, chkFrom_app, chk_insInTop S A mid a0 hmu kmid,
        chk_quiet_valid S A mid true kmid, hno, Option.bind_some]
      obtain ⟨a', h'⟩ := fin true
      simp [h']
    | false =>
      have hmu : mid.uses = false := by rw [Blk.uses_eq, hmi, hno]; rfl
      rw [hin, hmi, if_neg (by simp), hb, chkFrom_app, h0, Option.bind_some, chkFrom_app,
        chk_quiet_noUse S A mid _ hmu kmid, Option.bind_some]
      obtain ⟨a', h'⟩ := fin a0
      simp [h']
  · -- the last writer `w` is an operation of the block itself
    have kmid' := kmid
    rw [hmid, Blk.okB_app] at kmid'
    simp only [Blk.okB, Bool.and_eq_true] at kmid'
    obtain ⟨km1, kw, km2⟩ := kmid'
    have htail : (m2.app post).usesOut = false := by rw [Blk.usesOut_app, hm2, (Blk.noUse hpost).2]; rfl
    have hb' : b = pre.app (m1.app (.cons w (m2.app post))) := by
      rw [hb, hmid, Blk.app_assoc]; rfl
    have hb1 : (b.insOut).getD b = pre.app (m1.app (.cons w (.cons .copyOut (m2.app post)))) := by
      rw [hb', Blk.insOut_app_some pre _ _ (Blk.insOut_app_some m1 _ _ (Blk.insOut_leaf w _ hw htail))]; rfl
    have hrest : ∀ s, (chkFrom S A (.cons w (.cons .copyOut (m2.app post))) ⟨s, true⟩).map Sync.srcOk = some true := by
      intro s
      rw [chkFrom_cons, step_writer S A w s true hw kw (Or.inl rfl), Option.bind_some, chkFrom_cons, step_copyOut,
        Option.bind_some, chkFrom_app, chk_quiet_valid S A m2 true km2, hm2, Option.bind_some]
      obtain ⟨a', h'⟩ := fin true
      simp [h']
    unfold chk realize
    simp only [if_true, hb1]
    cases hbi : b.usesIn with
    | true =>
      have hxu : (m1.app (.cons w .nil)).uses = true := by
        have : w.uses = true := by cases w <;> simp_all [Item.leafOut, Item.uses]
        rw [Blk.uses_app]; simp [Blk.uses, this]
      have hxk : (m1.app (.cons w .nil)).okB (A ++ S) true true = true := by
        rw [Blk.okB_app]; simp [Blk.okB, km1, kw]
      have hre : m1.app (.cons w (.cons .copyOut (m2.app post)))
          = (m1.app (.cons w .nil)).app (.cons .copyOut (m2.app post)) := by
        rw [Blk.app_assoc]; rfl
      rw [if_pos rfl, insInTop_app_noUse pre _ hpre, hre, insInTop_app_use _ _ hxu, chkFrom_app, h0,
        Option.bind_some, chkFrom_app, chk_insInTop S A _ a0 hxu hxk, ← chkFrom_app, ← hre, chkFrom_app,
        chk_quiet_valid S A m1 true km1, Option.bind_some]
      have := hrest (true && !m1.usesOut)
      revert this
      cases chkFrom S A (.cons w (.cons .copyOut (m2.app post))) ⟨true && !m1.usesOut, true⟩ with
      | none => simp
      | some q => simp
    | false =>
      have hmi : mid.usesIn = false := by rw [← hin]; exact hbi
      rw [hmid, Blk.usesIn_app] at hmi
      simp only [Blk.usesIn, Bool.or_eq_false_iff] at hmi
      obtain ⟨q1, hq1⟩ := chk_quiet_noIn S A m1 ⟨true, a0⟩ hmi.1 km1
      rw [if_neg (by simp), chkFrom_app, h0, Option.bind_some, chkFrom_app, hq1, Option.bind_some]
      rw [chkFrom_cons, step_writer S A w q1.srcOk q1.allocOk hw kw (Or.inr hmi.2.1), Option.bind_some, chkFrom_cons,
        step_copyOut, Option.bind_some, chkFrom_app, chk_quiet_valid S A m2 true km2, hm2, Option.bind_some]
      obtain ⟨a', h'⟩ := fin true
      simp [h']

/-! ### the decision procedure finds a split -/

theorem splitPre_app : ∀ b : Blk, (splitPre b).1.app (splitPre b).2 = b
  | .nil => rfl
  | .cons i r => by
    simp only [splitPre]
    split
    · rfl
    · simp only [Blk.app, splitPre_app r]

theorem splitPre_noUse : ∀ b : Blk, (splitPre b).1.uses = false
  | .nil => rfl
  | .cons i r => by
    simp only [splitPre]
    split
    · rfl
    next h => simp only [Blk.uses, splitPre_noUse r, Bool.or_false]; simpa using h

theorem splitPost_app : ∀ b : Blk, (splitPost b).1.app (splitPost b).2 = b
  | .nil => rfl
  | .cons i r => by
    simp only [splitPost]
    split
    · simp only [Blk.app, splitPost_app r]
    · split <;> rfl

theorem splitPost_noUse : ∀ b : Blk, (splitPost b).2.uses = false
  | .nil => rfl
  | .cons i r => by
    simp only [splitPost]
    split
    · exact splitPost_noUse r
    next h =>
      split
      · simpa using h
      next h2 => simp only [Blk.uses]; simp only [Bool.not_eq_true] at h h2; rw [h, h2]; rfl

theorem lwtB_sound : ∀ mid : Blk, lwtB mid = true → LastWriterTop mid
  | .nil, _ => Or.inl rfl
  | .cons i r, h => by
    simp only [lwtB] at h
    split at h
    next hr =>
      rcases lwtB_sound r h with h' | ⟨m1, w, m2, e, hw, hm2⟩
      · rw [h'] at hr; cases hr
      · exact Or.inr ⟨.cons i m1, w, m2, by rw [e]; rfl, hw, hm2⟩
    next hr =>
      simp only [Bool.not_eq_true] at hr
      cases ho : i.usesOut with
      | false => left; simp only [Blk.usesOut, ho, hr]; rfl
      | true =>
        rw [ho] at h
        exact Or.inr ⟨.nil, i, r, rfl, by simpa using h, hr⟩

/-- the decision procedure is sound for the clauses -/
theorem synB_sound (S A : List Nat) (b : Blk) (h : synB S A b = true) : Syntactic S A b := by
  simp only [synB, Bool.and_eq_true] at h
  obtain ⟨⟨⟨h1, h2⟩, h3⟩, h4⟩ := h
  exact ⟨(splitPre b).1, (splitPost (splitPre b).2).1, (splitPost (splitPre b).2).2,
    by rw [splitPost_app, splitPre_app], splitPre_noUse b, splitPost_noUse _, h1, h2, h3, lwtB_sound _ h4⟩

/-! ### casts of `set-memory-space` -/

theorem domB_self : ∀ p : List Nat, p ≠ [] → domB p p = true
  | [], h => absurd rfl h
  | [k], _ => by simp [domB]
  | a :: b :: r, _ => by
    have := domB_self (b :: r) (by simp)
    simp [domB, this]

/-- every recorded assignment uses a visible cast -/
def MInv (st : MState) : Prop := ∀ e ∈ st.out, domB e.2.2 e.1 = true

theorem assignOp_inv (p : List Nat) (hp : p ≠ []) : ∀ (vs : List Nat) (st : MState), MInv st → MInv (assignOp true p vs st)
  | [], _, h => h
  | v :: vs, st, h => by
    simp only [assignOp]
    split
    next c hc =>
      apply assignOp_inv p hp vs
      intro e he
      rcases List.mem_append.mp he with he | he
      · exact h e he
      · have hpred := List.find?_some hc
        simp only [List.mem_singleton] at he
        subst he
        have hpred' : c.1 = v ∧ domB c.2 p = true := by simpa using hpred
        exact hpred'.2
    next =>
      apply assignOp_inv p hp vs
      intro e he
      rcases List.mem_append.mp he with he | he
      · exact h e he
      · simp only [List.mem_singleton] at he
        subst he
        exact domB_self p hp

mutual
theorem MItem.walk_inv : (i : MItem) → ∀ (p : List Nat) (st : MState), p ≠ [] → MInv st → MInv (i.walk true p st)
  | .op needs, p, st, hp, h => by simp only [MItem.walk]; exact assignOp_inv p hp needs st h
  | .loop b, p, st, _, h => by simp only [MItem.walk]; exact MBlk.walk_inv b p 0 st h
theorem MBlk.walk_inv : (b : MBlk) → ∀ (pre : List Nat) (k : Nat) (st : MState), MInv st → MInv (b.walk true pre k st)
  | .nil, _, _, _, h => h
  | .cons i r, pre, k, st, h => by
    simp only [MBlk.walk]
    exact MBlk.walk_inv r pre (k + 1) _ (MItem.walk_inv i (pre ++ [k]) st (by simp) h)
end

/-! ### run-time shapes -/

/-- the run-time shape `rt` is a shape of the type: same rank, static entries as declared -/
def ShapeOf : List (Option Nat) → List Nat → Prop
  | [], [] => True
  | some n :: r, m :: rt => n = m ∧ ShapeOf r rt
  | none :: r, _ :: rt => ShapeOf r rt
  | _, _ => False

theorem allocShape_dynIdx (full : List Nat) : ∀ (shape : List (Option Nat)) (rt : List Nat) (k : Nat),
    ShapeOf shape rt → (∀ j, rt.getD j 0 = full.getD (k + j) 0) →
    allocShape shape ((dynIdx shape k).map fun i => full.getD i 0) = rt
  | [], [], _, _, _ => rfl
  | [], _ :: _, _, h, _ => h.elim
  | some n :: r, [], _, h, _ => h.elim
  | none :: r, [], _, h, _ => h.elim
  | some n :: r, m :: rt, k, h, hf => by
    simp only [ShapeOf] at h
    simp only [dynIdx, allocShape]
    rw [allocShape_dynIdx full r rt (k + 1) h.2 (fun j => by have := hf (j + 1); simpa [Nat.add_assoc, Nat.add_comm 1 j] using this), h.1]
  | none :: r, m :: rt, k, h, hf => by
    simp only [ShapeOf] at h
    simp only [dynIdx, allocShape, List.map_cons, List.headD_cons, List.tail_cons]
    rw [allocShape_dynIdx full r rt (k + 1) h (fun j => by have := hf (j + 1); simpa [Nat.add_assoc, Nat.add_comm 1 j] using this)]
    have h0 : m = full.getD k 0 := by
      have := hf 0
      simpa using this
    rw [← h0]

end SnaxVerif.Casts
