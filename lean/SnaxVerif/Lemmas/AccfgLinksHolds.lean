import SnaxVerif.Lemmas.AccfgLinksIds
/-! From the links to the register file: whatever `inferL` answers for the input state of a setup / the state of a
straight-line launch of the woven program holds in the concrete registers on every execution reaching it
(`HoldsB`), by `weave_agree` + the soundness of the position-based facts (Lemmas/Accfg.lean, AccfgPoints.lean).
Also: the empty setups the pass inserts are no-ops (`eraseAll` vs `erase`). -/
namespace SnaxVerif.AccfgLinks
open SnaxVerif.Accfg

/-- every answer of the link-following inference (any fuel) for state `o` is true in `st` for accelerator `a` -/
def HoldsAt (D : DTab) (o : Option StateId) (a : AccId) (st : St) : Prop :=
  ∀ v, o = some v → ∀ m s, inferL D m [] v = some s → ∀ f x, s.lookup f = some x → st.regs a f = st.env x

def execL (cfg : Cfg) (s : LStmt) (st : St) : St :=
  match eraseS s with
  | some x => execS cfg false x st
  | none => st

/- at every setup and straight-line launch reached by the execution from `st` (every branch taken, every loop
iteration), the inferred state holds -/
mutual
def HoldsS (cfg : Cfg) (D : DTab) : LStmt → St → Prop
  | .setup a _ _ inp, s => HoldsAt D inp a s
  | .empty _ _, _ => True
  | .launch a _ stt cur, s => cur = true → HoldsAt D stt a s
  | .await _, _ => True
  | .pure _ _ _, _ => True
  | .call _ _, _ => True
  | .ifS c t e _, s => if s.env c ≠ 0 then HoldsB cfg D t s else HoldsB cfg D e s
  | .forS lb ub step iv b _, s =>
      ∀ k, k < tripCount (s.env lb) (s.env ub) (s.env step) →
        HoldsB cfg D b
          (let u := iterFrom (iterBody cfg false (erase b) iv (s.env lb) (s.env step)) k 0 s
           { u with env := setEnv u.env iv (s.env lb + k * s.env step) })
def HoldsB (cfg : Cfg) (D : DTab) : LBlock → St → Prop
  | .nil, _ => True
  | .cons s r, st => HoldsS cfg D s st ∧ HoldsB cfg D r (execL cfg s st)
end

theorem holdsAt_of_sigIs {D : DTab} {o : Option StateId} {a : AccId} {G : Facts} {st : St}
    (h : SigIs D [] o (G a)) (hs : Sound G st) : HoldsAt D o a st := by
  intro v hv m s hm f x hx
  subst hv
  obtain ⟨s0, hinf, _, hr⟩ := h
  have := hinf.of_run hm
  subst this
  exact hs a f x (by rw [← hr f]; exact hx)

mutual
theorem holdsS (cfg : Cfg) (D : DTab) : (s : LStmt) → ∀ (G : Facts) (st : St), (∀ a, AgreeS a D [] s G) →
    (∀ x, eraseS s = some x → wfS x = true ∧ Avoids G (defsS x)) → Sound G st → HoldsS cfg D s st
  | .setup a fs out inp, G, st, hag, _, hs => by
      simp only [HoldsS]
      have := hag a; simp only [AgreeS] at this
      exact holdsAt_of_sigIs (this trivial).1 hs
  | .empty _ _, _, _, _, _, _ => by simp [HoldsS]
  | .launch a lv stt cur, G, st, hag, _, hs => by
      simp only [HoldsS]
      intro hc
      have := hag a; simp only [AgreeS] at this
      obtain ⟨v, hv, hg⟩ := this trivial hc
      subst hv
      exact holdsAt_of_sigIs (o := some v) hg hs
  | .await _, _, _, _, _, _ => by simp [HoldsS]
  | .pure _ _ _, _, _, _, _, _ => by simp [HoldsS]
  | .call _ _, _, _, _, _, _ => by simp [HoldsS]
  | .ifS c t e res, G, st, hag, hwf, hs => by
      obtain ⟨hw, hav⟩ := hwf _ rfl
      simp only [wfS, Bool.and_eq_true] at hw
      simp only [HoldsS]
      split
      · exact holdsB cfg D t G st (fun a => by have := hag a; simp only [AgreeS] at this; exact this.1) hw.1
          (fun a f x hx hm => hav a f x hx (by simp [defsS, hm])) hs
      · exact holdsB cfg D e G st (fun a => by have := hag a; simp only [AgreeS] at this; exact this.2.1) hw.2
          (fun a f x hx hm => hav a f x hx (by simp [defsS, hm])) hs
  | .forS lb ub step iv b car, G, st, hag, hwf, hs => by
      obtain ⟨hw, hav⟩ := hwf _ rfl
      simp only [wfS] at hw; simp only [defsS] at hav
      simp only [HoldsS]
      intro k _
      have hav' : Avoids (headFacts (erase b) G) (defsB (erase b)) :=
        fun a f x hx hm => hav a f x (meet_le_left hx) (by simp [hm])
      have hiv : ∀ a f x, headFacts (erase b) G a f = some x → x ≠ iv :=
        fun a f x hx e => hav a f x (meet_le_left hx) (by simp [e])
      have h0 : Sound (headFacts (erase b) G) st := fun a f x hx => hs a f x (meet_le_left hx)
      have hk := head_iter cfg (erase b) hw G iv hav (st.env lb) (st.env step) k 0 st h0
      exact holdsB cfg D b _ _ (fun a => by have := hag a; simp only [AgreeS] at this; exact this.1) hw hav'
        (hk.setEnv iv _ hiv)
theorem holdsB (cfg : Cfg) (D : DTab) : (b : LBlock) → ∀ (G : Facts) (st : St), (∀ a, AgreeB a D [] b G) →
    wfB (erase b) = true → Avoids G (defsB (erase b)) → Sound G st → HoldsB cfg D b st
  | .nil, _, _, _, _, _, _ => by simp [HoldsB]
  | .cons s r, G, st, hag, hwf, hav, hs => by
      simp only [HoldsB]
      have hagS : ∀ a, AgreeS a D [] s G := fun a => by have := hag a; simp only [AgreeB] at this; exact this.1
      have hagR : ∀ a, AgreeB a D [] r (stepF s G) := fun a => by
        have := hag a; simp only [AgreeB] at this; exact this.2
      cases he : eraseS s with
      | none =>
        have herase : erase (.cons s r) = erase r := by simp [erase, he]
        rw [herase] at hwf hav
        refine ⟨holdsS cfg D s G st hagS (fun x hx => by rw [he] at hx; cases hx) hs, ?_⟩
        have h1 : execL cfg s st = st := by simp [execL, he]
        have h2 : stepF s G = G := by simp [stepF, he]
        rw [h1]; rw [h2] at hagR
        exact holdsB cfg D r G st hagR hwf hav hs
      | some x =>
        have herase : erase (.cons s r) = .cons x (erase r) := by simp [erase, he]
        rw [herase] at hwf hav
        obtain ⟨hws, hwr, huse⟩ := wfB_cons hwf
        have hA : Avoids G (defsS x) := fun a f y hy hm => hav a f y hy (by simp [defsB, hm])
        refine ⟨holdsS cfg D s G st hagS (fun y hy => by rw [he] at hy; cases hy; exact ⟨hws, hA⟩) hs, ?_⟩
        have h1 : execL cfg s st = execS cfg false x st := by simp [execL, he]
        have h2 : stepF s G = knownS x G := by simp [stepF, he]
        rw [h1]; rw [h2] at hagR
        apply holdsB cfg D r (knownS x G) _ hagR hwr _ (soundS cfg x hws G st hs hA)
        intro a f y hy hmem
        rcases varsS x G a f y hy with h | h
        · exact hav a f y h (by simp [defsB, hmem])
        · exact huse y h hmem
end

/- ===== `AgreeB` implies the decidable link validation `soundChkB` (any fuel) ===== -/
theorem chkAt_of_sigIs {D : DTab} {o : Option StateId} {r : Row} (fuel : Nat) (h : SigIs D [] o r) :
    chkAt D fuel o r = true := by
  cases o with
  | none => simp [chkAt]
  | some v =>
    simp only [chkAt]
    cases hm : inferL D fuel [] v with
    | none => rfl
    | some s =>
      obtain ⟨s0, hinf, hnd, hr⟩ := h
      have := hinf.of_run hm
      subst this
      simp only [subRow, List.all_eq_true, beq_iff_eq]
      intro p hp
      rw [← hr p.1]
      exact lookup_of_mem_nodup s hnd p hp

mutual
theorem agree_soundChkS (D : DTab) (fuel : Nat) : (s : LStmt) → ∀ G : Facts, (∀ a, AgreeS a D [] s G) →
    soundChkS D fuel s G = true
  | .setup a fs out inp, G, h => by
      have := h a; simp only [AgreeS] at this
      simpa [soundChkS] using chkAt_of_sigIs fuel (this trivial).1
  | .empty _ _, _, _ => by simp [soundChkS]
  | .launch a lv st cur, G, h => by
      simp only [soundChkS]
      cases cur with
      | false => simp
      | true =>
        have := h a; simp only [AgreeS] at this
        obtain ⟨v, hv, hg⟩ := this trivial trivial
        subst hv
        simpa using chkAt_of_sigIs (o := some v) fuel hg
  | .await _, _, _ => by simp [soundChkS]
  | .pure _ _ _, _, _ => by simp [soundChkS]
  | .call _ _, _, _ => by simp [soundChkS]
  | .ifS c t e res, G, h => by
      simp only [soundChkS, Bool.and_eq_true]
      exact ⟨agree_soundChkB D fuel t G (fun a => by have := h a; simp only [AgreeS] at this; exact this.1),
        agree_soundChkB D fuel e G (fun a => by have := h a; simp only [AgreeS] at this; exact this.2.1)⟩
  | .forS lb ub step iv b car, G, h => by
      simp only [soundChkS]
      exact agree_soundChkB D fuel b _ (fun a => by have := h a; simp only [AgreeS] at this; exact this.1)
theorem agree_soundChkB (D : DTab) (fuel : Nat) : (b : LBlock) → ∀ G : Facts, (∀ a, AgreeB a D [] b G) →
    soundChkB D fuel b G = true
  | .nil, _, _ => by simp [soundChkB]
  | .cons s r, G, h => by
      simp only [soundChkB, Bool.and_eq_true]
      exact ⟨agree_soundChkS D fuel s G (fun a => by have := h a; simp only [AgreeB] at this; exact this.1),
        agree_soundChkB D fuel r _ (fun a => by have := h a; simp only [AgreeB] at this; exact this.2)⟩
end

/- ===== the inserted empty setups are no-ops ===== -/
theorem setRegs_nil (r : Regs) (env : Env) (a : AccId) : setRegs r env a [] = r := by
  funext a' f; simp [setRegs, List.lookup]

theorem upd_nil (F : Facts) (a : AccId) : upd F a [] = F := by
  funext a' f; simp [upd, List.lookup]

mutual
theorem execS_eraseAll (cfg : Cfg) (gh : Bool) : (s : LStmt) → ∀ st : St,
    execS cfg gh (eraseAllS s) st = (match eraseS s with | some x => execS cfg gh x st | none => st)
  | .setup _ _ _ _, _ => by simp [eraseAllS, eraseS]
  | .empty a _, st => by simp [eraseAllS, eraseS, execS, setRegs_nil]
  | .launch _ _ _ _, _ => by simp [eraseAllS, eraseS]
  | .await _, _ => by simp [eraseAllS, eraseS]
  | .pure _ _ _, _ => by simp [eraseAllS, eraseS]
  | .call _ _, _ => by simp [eraseAllS, eraseS]
  | .ifS c t e _, st => by
      simp only [eraseAllS, eraseS, execS, execB_eraseAll cfg gh t, execB_eraseAll cfg gh e]
  | .forS lb ub step iv b _, st => by
      have : (fun (i : Nat) (u : St) => execB cfg gh (eraseAll b) { u with env := setEnv u.env iv (st.env lb + i * st.env step) })
          = fun i u => execB cfg gh (erase b) { u with env := setEnv u.env iv (st.env lb + i * st.env step) } := by
        funext i u; exact execB_eraseAll cfg gh b _
      simp only [eraseAllS, eraseS, execS, this]
theorem execB_eraseAll (cfg : Cfg) (gh : Bool) : (b : LBlock) → ∀ st : St,
    execB cfg gh (eraseAll b) st = execB cfg gh (erase b) st
  | .nil, _ => by simp [eraseAll, erase]
  | .cons s r, st => by
      simp only [eraseAll, execB, execS_eraseAll cfg gh s st, erase]
      cases eraseS s with
      | none => simp only [execB_eraseAll cfg gh r]
      | some x => simp only [execB, execB_eraseAll cfg gh r]
end

mutual
theorem knownS_eraseAll : (s : LStmt) → ∀ G : Facts, knownS (eraseAllS s) G = stepF s G
  | .setup _ _ _ _, _ => by simp [eraseAllS, stepF, eraseS]
  | .empty a _, G => by simp [eraseAllS, stepF, eraseS, knownS, upd_nil]
  | .launch _ _ _ _, _ => by simp [eraseAllS, stepF, eraseS]
  | .await _, _ => by simp [eraseAllS, stepF, eraseS]
  | .pure _ _ _, _ => by simp [eraseAllS, stepF, eraseS]
  | .call _ _, _ => by simp [eraseAllS, stepF, eraseS]
  | .ifS c t e _, G => by
      simp only [eraseAllS, stepF, eraseS, knownS, knownB_eraseAll t, knownB_eraseAll e]
  | .forS lb ub step iv b _, G => by
      simp only [eraseAllS, stepF, eraseS, knownS, knownB_eraseAll b]
theorem knownB_eraseAll : (b : LBlock) → ∀ G : Facts, knownB (eraseAll b) G = knownB (erase b) G
  | .nil, _ => by simp [eraseAll, erase]
  | .cons s r, G => by
      rw [known_erase_cons]
      simp only [eraseAll, knownB, knownS_eraseAll s G, knownB_eraseAll r]
end

end SnaxVerif.AccfgLinks
