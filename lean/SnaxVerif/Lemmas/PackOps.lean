import SnaxVerif.Model.PackOps
import SnaxVerif.Lemmas.PackBits
/-! Sequential execution of the operation list emitted by `pack_bitlist` (C19). Core Lean only. -/
namespace SnaxVerif
namespace Pack

/-- operand `r` is defined in `env` and has value `x` -/
def Holds (env : List Nat) (r : Ref) (x : Nat) : Prop := r.get env = some x

theorem Holds.mono {env : List Nat} {r : Ref} {x : Nat} (e : List Nat) (h : Holds env r x) :
    Holds (env ++ e) r x := by
  cases r with
  | ext v => exact h
  | op i =>
    simp only [Holds, Ref.get] at h ⊢
    obtain ⟨hi, hx⟩ := List.getElem?_eq_some_iff.mp h
    rw [List.getElem?_append_left hi]; exact h

/-- the operands `rs` are defined and have the values `xs`, position by position -/
def AllHold (env : List Nat) : List Ref → List Nat → Prop
  | [], [] => True
  | r :: rs, x :: xs => Holds env r x ∧ AllHold env rs xs
  | _, _ => False

theorem AllHold.mono {env : List Nat} (e : List Nat) : ∀ {rs : List Ref} {xs : List Nat},
    AllHold env rs xs → AllHold (env ++ e) rs xs := by
  intro rs
  induction rs with
  | nil => intro xs h; cases xs <;> simp_all [AllHold]
  | cons r rs ih =>
    intro xs h
    cases xs with
    | nil => simp [AllHold] at h
    | cons x xs => exact ⟨h.1.mono e, ih h.2⟩

theorem AllHold.length : ∀ {env : List Nat} {rs : List Ref} {xs : List Nat}, AllHold env rs xs → rs.length = xs.length := by
  intro env rs
  induction rs with
  | nil => intro xs h; cases xs <;> simp_all [AllHold]
  | cons r rs ih =>
    intro xs h
    cases xs with
    | nil => simp [AllHold] at h
    | cons x xs => simp [ih h.2]

theorem AllHold.append {env : List Nat} : ∀ {rs : List Ref} {xs : List Nat} {r : Ref} {x : Nat},
    AllHold env rs xs → Holds env r x → AllHold env (rs ++ [r]) (xs ++ [x]) := by
  intro rs
  induction rs with
  | nil => intro xs r x h hr; cases xs with
    | nil => exact ⟨hr, trivial⟩
    | cons _ _ => simp [AllHold] at h
  | cons r0 rs ih =>
    intro xs r x h hr
    cases xs with
    | nil => simp [AllHold] at h
    | cons x0 xs => exact ⟨h.1, ih h.2 hr⟩

theorem execFrom_append (a b : List Op) : ∀ env : List Nat,
    execFrom env (a ++ b) = (execFrom env a).bind fun e => execFrom e b := by
  induction a with
  | nil => intro env; rfl
  | cons o a ih =>
    intro env
    simp only [List.cons_append, execFrom]
    cases o.eval env with
    | none => rfl
    | some v => exact ih _

theorem holds_op_last (env : List Nat) (v : Nat) : Holds (env ++ [v]) (.op env.length) v := by
  simp [Holds, Ref.get]

theorem emitSrc_exec (env : List Nat) (s : Src) :
    ∃ e, execFrom env (emitSrc env.length s).1 = some (env ++ e) ∧ e.length = (emitSrc env.length s).1.length ∧
      Holds (env ++ e) (emitSrc env.length s).2 s.content := by
  cases s with
  | lit v => exact ⟨[v], by simp [emitSrc, execFrom, Op.eval], rfl, holds_op_last env v⟩
  | ext v => exact ⟨[], by simp [emitSrc, execFrom], rfl, rfl⟩

/-- one `(value, offset)` pair: the three (or fewer) operations run, the shift is the last of them and
its result is `value <<< offset` -/
theorem emitShift_exec (env : List Nat) (v o : Src) :
    ∃ e, execFrom env (emitShift env.length v o).1 = some (env ++ e) ∧
      e.length = (emitShift env.length v o).1.length ∧ e ≠ [] ∧
      (emitShift env.length v o).2 = .op (env.length + e.length - 1) ∧
      Holds (env ++ e) (emitShift env.length v o).2 (v.content <<< o.content) := by
  obtain ⟨eo, ho1, ho2, ho3⟩ := emitSrc_exec env o
  have hlen : (env ++ eo).length = env.length + (emitSrc env.length o).1.length := by simp [ho2]
  obtain ⟨ev, hv1, hv2, hv3⟩ := emitSrc_exec (env ++ eo) v
  rw [hlen] at hv1 hv2 hv3
  have hoV : Holds (env ++ eo ++ ev) (emitSrc env.length o).2 o.content := ho3.mono ev
  let x := v.content <<< o.content
  refine ⟨eo ++ ev ++ [x], ?_, ?_, by simp, ?_, ?_⟩
  · unfold emitShift
    simp only []
    rw [execFrom_append, execFrom_append, ho1]
    simp only [Option.bind_some]
    rw [hv1]
    simp only [Option.bind_some, execFrom, Op.eval]
    rw [show Ref.get (env ++ eo ++ ev) (emitSrc (env.length + (emitSrc env.length o).1.length) v).2 = some v.content from hv3,
      show Ref.get (env ++ eo ++ ev) (emitSrc env.length o).2 = some o.content from hoV]
    simp [x, List.append_assoc]
  · simp [emitShift, ho2, hv2]
  · simp only [emitShift, List.length_append, List.length_cons, List.length_nil, ho2, hv2]
    congr 1
    omega
  · have : (emitShift env.length v o).2 = .op (env ++ eo ++ ev).length := by
      simp [emitShift, ho2, hv2, Nat.add_assoc]
    rw [this, ← List.append_assoc, ← List.append_assoc]
    exact holds_op_last _ _

def shiftVals (pairs : List (Src × Src)) : List Nat := pairs.map fun p => p.1.content <<< p.2.content

theorem emitShifts_exec : ∀ (pairs : List (Src × Src)) (env : List Nat),
    ∃ e, execFrom env (emitShifts env.length pairs).1 = some (env ++ e) ∧
      e.length = (emitShifts env.length pairs).1.length ∧
      AllHold (env ++ e) (emitShifts env.length pairs).2 (shiftVals pairs) ∧
      (pairs ≠ [] → e ≠ [] ∧ (emitShifts env.length pairs).2.getLast? = some (.op (env.length + e.length - 1))) := by
  intro pairs
  induction pairs with
  | nil => intro env; exact ⟨[], by simp [emitShifts, execFrom], rfl, trivial, fun h => absurd rfl h⟩
  | cons p rest ih =>
    intro env
    obtain ⟨v, o⟩ := p
    obtain ⟨e1, h1, h2, h3, h4, h5⟩ := emitShift_exec env v o
    have hlen : (env ++ e1).length = env.length + (emitShift env.length v o).1.length := by simp [h2]
    obtain ⟨e2, g1, g2, g3, g4⟩ := ih (env ++ e1)
    rw [hlen] at g1 g2 g3 g4
    refine ⟨e1 ++ e2, ?_, ?_, ?_, ?_⟩
    · simp only [emitShifts]
      rw [execFrom_append, h1]
      simp only [Option.bind_some]
      rw [g1, List.append_assoc]
    · simp [emitShifts, h2, g2]
    · simp only [emitShifts, shiftVals, List.map_cons]
      rw [← List.append_assoc]
      exact ⟨h5.mono e2, g3⟩
    · intro _
      refine ⟨by simp [h3], ?_⟩
      simp only [emitShifts]
      cases rest with
      | nil =>
        have he2 : e2 = [] := by
          have : e2.length = 0 := by simpa [emitShifts] using g2
          exact List.length_eq_zero_iff.mp this
        subst he2
        simp only [emitShifts, List.getLast?_singleton, List.append_nil]
        rw [h4]
      | cons q rest' =>
        obtain ⟨hne, hl⟩ := g4 (by simp)
        rw [List.getLast?_cons_of_ne_nil]
        · rw [hl]
          congr 2
          simp only [List.length_append, h2]
          have : e2.length ≠ 0 := fun hc => hne (List.length_eq_zero_iff.mp hc)
          omega
        · intro hc
          rw [hc] at hl
          simp at hl

/-- The OR loop: from a queue of defined operands it emits operations that run, and ends with ONE operand
holding the OR of all queue values; that operand is the result of the last emitted operation (or the
single queue entry when nothing had to be emitted). -/
theorem emitOrs_exec : ∀ (fuel : Nat) (env : List Nat) (q : List Ref) (xs : List Nat),
    AllHold env q xs → q ≠ [] → q.length ≤ fuel + 1 →
    ∃ e r, execFrom env (emitOrs fuel env.length q) = some (env ++ e) ∧
      e.length = (emitOrs fuel env.length q).length ∧
      Holds (env ++ e) r (orAll xs) ∧
      ((q = [r] ∧ e = []) ∨ (e ≠ [] ∧ r = .op (env.length + e.length - 1))) := by
  intro fuel
  induction fuel with
  | zero =>
    intro env q xs h hne hlen
    match q, xs, h, hne, hlen with
    | [r], [x], h, _, _ =>
      exact ⟨[], r, by simp [emitOrs, execFrom], rfl, by simpa [orAll] using h.1, Or.inl ⟨rfl, rfl⟩⟩
    | _ :: _ :: _, _, _, _, hl => simp at hl
    | [_], [], h, _, _ => simp [AllHold] at h
    | [_], _ :: _ :: _, h, _, _ => simp [AllHold] at h
  | succ fuel ih =>
    intro env q xs h hne hlen
    match q, xs, h, hne, hlen with
    | [r], [x], h, _, _ =>
      exact ⟨[], r, by simp [emitOrs, execFrom], rfl, by simpa [orAll] using h.1, Or.inl ⟨rfl, rfl⟩⟩
    | [_], [], h, _, _ => simp [AllHold] at h
    | [_], _ :: _ :: _, h, _, _ => simp [AllHold] at h
    | a :: b :: rest, [], h, _, _ => simp [AllHold] at h
    | a :: b :: rest, [_], h, _, _ => simp [AllHold] at h
    | a :: b :: rest, x :: y :: xs', h, _, hl =>
      obtain ⟨ha, hb, hrest⟩ := h
      have hq : AllHold (env ++ [x ||| y]) (rest ++ [.op env.length]) (xs' ++ [x ||| y]) :=
        (hrest.mono [x ||| y]).append (holds_op_last env _)
      have hlen' : (env ++ [x ||| y]).length = env.length + 1 := by simp
      obtain ⟨e, r, g1, g2, g3, g4⟩ := ih (env ++ [x ||| y]) (rest ++ [.op env.length]) (xs' ++ [x ||| y]) hq
        (by simp) (by simp at hl ⊢; omega)
      rw [hlen'] at g1 g2 g4
      refine ⟨(x ||| y) :: e, r, ?_, ?_, ?_, Or.inr ⟨by simp, ?_⟩⟩
      · simp only [emitOrs, execFrom, Op.eval]
        rw [show Ref.get env a = some x from ha, show Ref.get env b = some y from hb]
        simp only [Option.bind_some]
        rw [g1]; simp
      · simp [emitOrs, g2]
      · have : env ++ (x ||| y) :: e = env ++ [x ||| y] ++ e := by simp
        rw [this, ← orAll_rotate x y xs']
        exact g3
      · rcases g4 with ⟨hq1, he⟩ | ⟨hne', hr⟩
        · subst he
          have : rest = [] ∧ r = Ref.op env.length := by
            cases rest with
            | nil => simp at hq1; exact ⟨rfl, hq1.symm⟩
            | cons _ _ => simp at hq1
          rw [this.2]; simp
        · rw [hr]
          congr 1
          simp only [List.length_cons]
          have : e.length ≠ 0 := fun hc => hne' (List.length_eq_zero_iff.mp hc)
          omega

theorem zip_shiftVals : ∀ (vs os : List Src), vs.length = os.length →
    shiftVals (vs.zip os) = List.zipWith (· <<< ·) (vs.map Src.content) (os.map Src.content) := by
  intro vs
  induction vs with
  | nil => intro os _; simp [shiftVals]
  | cons v vs ih =>
    intro os h
    cases os with
    | nil => simp at h
    | cons o os =>
      have := ih os (by simpa using h)
      simp only [shiftVals] at this
      simp [shiftVals, this]

/-- The emitted operation list runs from the empty environment (every operand is defined before it is
used), produces one value per operation, and the LAST value is the OR of all shifted fields. -/
theorem emit_exec' (vs os : List Src) (ops : List Op) (h : emit vs os = .ok ops) (hne : vs ≠ []) :
    ∃ env, execFrom [] ops = some env ∧ env.length = ops.length ∧
      env.getLast? = some (spec (vs.map Src.content) (os.map Src.content)) := by
  unfold emit at h
  split at h
  · cases h
  · next hlen =>
    have hlen' : vs.length = os.length := Decidable.of_not_not hlen
    injection h with h
    subst h
    have hpairs : vs.zip os ≠ [] := by
      cases vs with
      | nil => exact absurd rfl hne
      | cons v vs => cases os with
        | nil => simp at hlen'
        | cons o os => simp
    obtain ⟨e1, h1, h2, h3, h4⟩ := emitShifts_exec (vs.zip os) []
    simp only [List.length_nil, List.nil_append] at h1 h2 h3 h4
    obtain ⟨he1, hlast⟩ := h4 hpairs
    have hq : (emitShifts 0 (vs.zip os)).2 ≠ [] := by
      intro hc; rw [hc] at hlast; simp at hlast
    obtain ⟨e2, r, g1, g2, g3, g4⟩ := emitOrs_exec (emitShifts 0 (vs.zip os)).2.length e1 _ _ h3 hq (Nat.le_succ _)
    rw [h2] at g1 g2
    refine ⟨e1 ++ e2, ?_, by simp [h2, g2], ?_⟩
    · rw [execFrom_append, h1]; simpa using g1
    · have hspec : orAll (shiftVals (vs.zip os)) = spec (vs.map Src.content) (os.map Src.content) := by
        rw [zip_shiftVals vs os hlen']; rfl
      rw [hspec] at g3
      have hr : r = .op ((e1 ++ e2).length - 1) := by
        rcases g4 with ⟨hq1, he⟩ | ⟨_, hr⟩
        · subst he
          rw [hq1] at hlast
          simp only [List.getLast?_singleton, Option.some.injEq, Nat.zero_add] at hlast
          simpa using hlast
        · simpa using hr
      rw [hr] at g3
      simp only [Holds, Ref.get] at g3
      rw [List.getLast?_eq_getElem?]
      exact g3

end Pack
end SnaxVerif
