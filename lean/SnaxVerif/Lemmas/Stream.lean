import SnaxVerif.Model.Stream
import SnaxVerif.Lemmas.StridePattern
/-! Helper lemmas for C02 (`Model/Stream.lean`). Core Lean only. -/
namespace SnaxVerif.Stream
open SnaxVerif SnaxVerif.Stride

/-! ### loop nests -/

theorem offs_congr_suffix (a r r' : List Loop) (h : offs r = offs r') : offs (a ++ r) = offs (a ++ r') := by
  rw [offs_append, offs_append, h]

theorem offs_congr_prefix (a a' r : List Loop) (h : offs a = offs a') : offs (a ++ r) = offs (a' ++ r) := by
  rw [offs_append, offs_append, h]

/-- two adjacent loops `(b, s)` (inner) and `(u, b*s)` merge into `(b*u, s)`, anywhere in a nest -/
theorem merge2 (b u : Nat) (s : Int) (r : List Loop) :
    offs ((b, s) :: (u, (b : Int) * s) :: r) = offs ((b * u, s) :: r) := by
  have := offs_congr_prefix [(b * u, s)] [(b, s), (u, (b : Int) * s)] r (offs_merge b u s)
  simpa using this.symm

theorem offs_length : ∀ l : List Loop, (offs l).length = prodBounds l
  | [] => by simp [offs, prodBounds]
  | (b, s) :: r => by
    have ih := offs_length r
    simp only [offs, prodBounds, List.length_flatMap, List.length_map, List.length_range]
    rw [List.map_const', List.sum_replicate_nat, ih, Nat.mul_comm]

theorem zip_map_fst_snd (t : List Loop) : (t.map (·.1)).zip (t.map (·.2)) = t := by
  induction t with
  | nil => rfl
  | cons x t ih => simp [ih]

/-! ### the first stride -/

theorem first_spec (it : List Loop) (el : Nat) (st : St) (w : Bool)
    (h : first it = .ok (st, w)) (hw : w = false) (hin : st.inexact = false)
    (hel : innerStride it = some (el : Int)) :
    offs (schedLoops el it) = offs ((bank, 1) :: temporal st) ∧ st.bcast = false := by
  unfold first at h
  match it, hel with
  | (b, s) :: rest, hel =>
    simp only [innerStride, List.head?_cons, Option.map_some, Option.some.injEq] at hel
    subst hel
    simp only [] at h
    have key : offs (schedLoops el ((b, (el : Int)) :: rest)) = offs ((el * b, 1) :: rest) := by
      have := merge2 el b 1 rest
      simpa [schedLoops] using this
    split at h
    · next h8 =>
      have h8' : el * b = 8 := by exact_mod_cast h8
      match rest, h with
      | x :: r, h =>
        simp only [Except.ok.injEq, Prod.mk.injEq] at h
        obtain ⟨hst, _⟩ := h
        subst hst
        refine ⟨?_, rfl⟩
        rw [key, h8']
        rfl
    · split at h
      · match rest, h with
        | x :: r, h =>
          simp only [Except.ok.injEq, Prod.mk.injEq] at h
          rw [hw] at h
          exact absurd h.2 (by decide)
      · have htot : ((el : Int) * (b : Int)).toNat = el * b := by
          rw [← Int.natCast_mul]; exact Int.toNat_natCast _
        split at h
        · exact absurd h (by simp)
        · next hm8 =>
          simp only [Except.ok.injEq, Prod.mk.injEq] at h
          obtain ⟨hst, _⟩ := h
          subst hst
          have hin : el * b % bank = 0 := by rw [← htot]; exact Decidable.not_not.mp hm8
          refine ⟨?_, rfl⟩
          rw [key]
          simp only [temporal, htot]
          have hdiv : el * b = bank * (el * b / bank) := by
            have := Nat.div_add_mod (el * b) bank
            omega
          have := merge2 bank (el * b / bank) 1 rest
          rw [← hdiv] at this
          rw [← this]
          simp [bank]

/-! ### the spatial fill-up -/

theorem temporal_next (rest : List Loop) (i b : Bool) :
    temporal ⟨(nextOpt rest).1, (nextOpt rest).2, i, b⟩ = rest := by
  cases rest <;> simp [nextOpt, temporal]

theorem spatialStep_spec (bc : Bool) (st st' : St) (d : Nat) (s : Int)
    (h : spatialStep bc st d = .ok (s, st')) (hin : st'.inexact = false) (hb : st'.bcast = false) :
    (∀ pre, offs (pre ++ temporal st) = offs (pre ++ (d, s) :: temporal st')) ∧
      st.inexact = false ∧ st.bcast = false := by
  unfold spatialStep at h
  match hc : st.cur, h with
  | some (b, s0), h =>
    simp only [] at h
    split at h
    · next hbd =>
      simp only [Except.ok.injEq, Prod.mk.injEq] at h
      obtain ⟨hs, hst⟩ := h
      subst hs hst
      simp only at hin hb
      refine ⟨?_, hin, hb⟩
      intro pre
      rw [temporal_next]
      simp [temporal, hc, hbd]
    · split at h
      · next hlt =>
        split at h
        · exact absurd h (by simp)
        · next hb0 =>
          split at h
          · exact absurd h (by simp)
          · next hmod =>
            match hr : st.rest, h with
            | (nb, ns) :: r, h =>
              simp only [] at h
              split at h
              · exact absurd h (by simp)
              · next hnbmod =>
                simp only [Decidable.not_not] at hnbmod
                split at h
                · split at h
                  · simp only [Except.ok.injEq, Prod.mk.injEq] at h
                    obtain ⟨_, hst⟩ := h
                    subst hst
                    simp at hb
                  · exact absurd h (by simp)
                · next heq =>
                  simp only [Decidable.not_not] at heq
                  simp only [Except.ok.injEq, Prod.mk.injEq] at h
                  obtain ⟨hs, hst⟩ := h
                  subst hs hst
                  simp only at hin
                  simp only at hb
                  refine ⟨?_, hin, hb⟩
                  intro pre
                  apply offs_congr_suffix
                  simp only [temporal, hc, hr]
                  have hmod' : d % b = 0 := by simpa using hmod
                  have hd : d = b * (d / b) := by
                    have := Nat.div_add_mod d b; omega
                  have hnb : nb = d / b * (nb / (d / b)) := by
                    have := Nat.div_add_mod nb (d / b); omega
                  have e1 := merge2 b nb s0 r
                  have e2 := merge2 d (nb / (d / b)) s0 r
                  have hns : ns = (b : Int) * s0 := by rw [← heq]; exact Int.mul_comm _ _
                  have hs2 : s0 * (b : Int) * ((d / b : Nat) : Int) = (d : Int) * s0 := by
                    have : (d : Int) = (b : Int) * ((d / b : Nat) : Int) := by exact_mod_cast hd
                    rw [this, Int.mul_comm s0, Int.mul_assoc, Int.mul_assoc, Int.mul_comm s0]
                  rw [hns, e1, hs2, e2]
                  have : b * nb = d * (nb / (d / b)) := by
                    calc b * nb = b * (d / b * (nb / (d / b))) := by rw [← hnb]
                      _ = b * (d / b) * (nb / (d / b)) := by rw [Nat.mul_assoc]
                      _ = d * (nb / (d / b)) := by rw [← hd]
                  rw [this]
      · exact absurd h (by simp)

theorem spatialLoop_spec (bc : Bool) : ∀ (dims : List Nat) (st st' : St) (ss : List Int),
    spatialLoop bc st dims = .ok (ss, st') → st'.inexact = false → st'.bcast = false →
    (∀ pre, offs (pre ++ temporal st) = offs (pre ++ (spatialLoops dims ss ++ temporal st'))) ∧
      st.inexact = false ∧ st.bcast = false
  | [], st, st', ss, h, hin, hb => by
    simp only [spatialLoop, Except.ok.injEq, Prod.mk.injEq] at h
    obtain ⟨hs, hst⟩ := h
    subst hs hst
    exact ⟨fun pre => by simp [spatialLoops], hin, hb⟩
  | d :: ds, st, st', ss, h, hin, hb => by
    unfold spatialLoop at h
    match h1 : spatialStep bc st d, h with
    | .ok (s, st1), h =>
      simp only [] at h
      match h2 : spatialLoop bc st1 ds, h with
      | .ok (ss', st2), h =>
        simp only [Except.ok.injEq, Prod.mk.injEq] at h
        obtain ⟨hs, hst⟩ := h
        subst hs hst
        obtain ⟨ih, hin1, hb1⟩ := spatialLoop_spec bc ds st1 st2 ss' h2 hin hb
        obtain ⟨hstep, hin0, hb0⟩ := spatialStep_spec bc st st1 d s h1 hin1 hb1
        refine ⟨?_, hin0, hb0⟩
        intro pre
        rw [hstep pre]
        have := ih (pre ++ [(d, s)])
        simpa [spatialLoops, List.append_assoc] using this

/-- The conversion of one operand, under the three ghost clauses and a contiguous innermost dimension:
    the byte-level loop nest of the hardware enumerates exactly the byte sequence of the schedule, in order. -/
theorem toStridePattern_offs (it : List Loop) (dims : List Nat) (bc : Bool) (el : Nat) (r : Res)
    (h : toStridePattern it dims bc = .ok r) (hw : r.warned = false) (hin : r.inexact = false)
    (hb : r.bcast = false) (hel : innerStride it = some (el : Int)) :
    offs (hwLoops dims r.pat) = offs (schedLoops el it) := by
  unfold toStridePattern at h
  match h1 : first it, h with
  | .ok (st, w), h =>
    simp only [] at h
    match h2 : spatialLoop bc st dims, h with
    | .ok (ss, st'), h =>
      simp only [Except.ok.injEq] at h
      subst h
      simp only at hw hin hb
      obtain ⟨hloop, hin0, _⟩ := spatialLoop_spec bc dims st st' ss h2 hin hb
      obtain ⟨hfirst, _⟩ := first_spec it el st w h1 hw hin0 hel
      rw [hfirst]
      have := hloop [(bank, 1)]
      simp only [List.cons_append, List.nil_append] at this
      rw [this]
      simp [hwLoops, Pattern.loops, zip_map_fst_snd]

/-! ### what the two guards of fix FC02a establish -/

theorem spatialStep_inexact (bc : Bool) (st st' : St) (d : Nat) (s : Int)
    (h : spatialStep bc st d = .ok (s, st')) : st'.inexact = st.inexact := by
  unfold spatialStep at h
  match hc : st.cur, h with
  | some (b, s0), h =>
    simp only [] at h
    split at h
    · simp only [Except.ok.injEq, Prod.mk.injEq] at h; rw [← h.2]
    · split at h
      · split at h
        · exact absurd h (by simp)
        · split at h
          · exact absurd h (by simp)
          · match hr : st.rest, h with
            | (nb, ns) :: r, h =>
              simp only [] at h
              split at h
              · exact absurd h (by simp)
              split at h
              · split at h
                · simp only [Except.ok.injEq, Prod.mk.injEq] at h; rw [← h.2]
                · exact absurd h (by simp)
              · simp only [Except.ok.injEq, Prod.mk.injEq] at h; rw [← h.2]
      · exact absurd h (by simp)

theorem spatialLoop_inexact (bc : Bool) : ∀ (dims : List Nat) (st st' : St) (ss : List Int),
    spatialLoop bc st dims = .ok (ss, st') → st'.inexact = st.inexact
  | [], st, st', ss, h => by
    simp only [spatialLoop, Except.ok.injEq, Prod.mk.injEq] at h
    rw [← h.2]
  | d :: ds, st, st', ss, h => by
    unfold spatialLoop at h
    match h1 : spatialStep bc st d, h with
    | .ok (s, st1), h =>
      simp only [] at h
      match h2 : spatialLoop bc st1 ds, h with
      | .ok (ss', st2), h =>
        simp only [Except.ok.injEq, Prod.mk.injEq] at h
        rw [← h.2, spatialLoop_inexact bc ds st1 st2 ss' h2, spatialStep_inexact bc st st1 d s h1]

theorem first_inexact (it : List Loop) (st : St) (w : Bool) (h : first it = .ok (st, w)) : st.inexact = false := by
  unfold first at h
  match it, h with
  | (b, s) :: rest, h =>
    simp only [] at h
    split at h
    · match rest, h with
      | x :: r, h => simp only [Except.ok.injEq, Prod.mk.injEq] at h; rw [← h.1]
    · split at h
      · match rest, h with
        | x :: r, h => simp only [Except.ok.injEq, Prod.mk.injEq] at h; rw [← h.1]
      · split at h
        · exact absurd h (by simp)
        · simp only [Except.ok.injEq, Prod.mk.injEq] at h; rw [← h.1]

/-- with fix FC02a no floor division of the conversion can lose anything: every result is exact -/
theorem toStridePattern_exact (it : List Loop) (dims : List Nat) (bc : Bool) (r : Res)
    (h : toStridePattern it dims bc = .ok r) : r.inexact = false := by
  unfold toStridePattern at h
  match h1 : first it, h with
  | .ok (st, w), h =>
    simp only [] at h
    match h2 : spatialLoop bc st dims, h with
    | .ok (ss, st'), h =>
      simp only [Except.ok.injEq] at h
      subst h
      simp only []
      rw [spatialLoop_inexact bc dims st st' ss h2, first_inexact it st w h1]

theorem first_warned (it : List Loop) (st : St) (h : first it = .ok (st, false)) :
    ∃ b s rest, it = (b, s) :: rest ∧ ¬ s * (b : Int) < 8 := by
  unfold first at h
  match it, h with
  | (b, s) :: rest, h =>
    refine ⟨b, s, rest, rfl, ?_⟩
    simp only [] at h
    split at h
    · next h8 => omega
    · split at h
      · match rest, h with
        | x :: r, h => simp only [Except.ok.injEq, Prod.mk.injEq] at h; exact absurd h.2 (by decide)
      · next hlt => exact hlt

/-- … and an accepted operand that did not take the warning path has a contiguous innermost dimension -/
theorem toStridePatternEl_inner (el : Nat) (it : List Loop) (dims : List Nat) (bc : Bool) (r : Res)
    (h : toStridePatternEl el it dims bc = .ok r) (hw : r.warned = false) :
    toStridePattern it dims bc = .ok r ∧ innerStride it = some (el : Int) := by
  unfold toStridePatternEl at h
  split at h
  · next hc =>
    refine ⟨h, ?_⟩
    unfold toStridePattern at h
    match h1 : first it, h with
    | .ok (st, w), h =>
      simp only [] at h
      match h2 : spatialLoop bc st dims, h with
      | .ok (ss, st'), h =>
        simp only [Except.ok.injEq] at h
        subst h
        simp only at hw
        subst hw
        obtain ⟨b, s, rest, rfl, hlt⟩ := first_warned it st h1
        simp only [contiguousInner, Bool.or_eq_true, decide_eq_true_eq] at hc
        simp only [innerStride, List.head?_cons, Option.map_some]
        rcases hc with hc | hc
        · exact absurd hc hlt
        · rw [hc]
  · exact absurd h (by simp)

/-! ### steps -/

theorem flatten_hwStream (dims : List Nat) (p : Pattern) : (hwStream dims p).flatten = offs (hwLoops dims p) := by
  unfold hwStream hwLoops
  rw [← List.flatMap_def]
  have := offs_append ((bank, 1) :: spatialLoops dims p.ss) p.loops
  simpa using this.symm

theorem flatten_schedStream (el : Nat) (it : List Loop) (k : Nat) :
    (schedStream el it k).flatten = offs (schedLoops el it) := by
  unfold schedStream schedLoops
  rw [← List.flatMap_def]
  have := offs_append ((el, 1) :: it.take k) (it.drop k)
  simp only [List.cons_append, List.take_append_drop] at this
  exact this.symm

theorem hwStream_step_length (dims : List Nat) (p : Pattern) :
    ∀ a ∈ hwStream dims p, a.length = prodBounds ((bank, 1) :: spatialLoops dims p.ss) := by
  intro a ha
  simp only [hwStream, List.mem_map] at ha
  obtain ⟨_, _, rfl⟩ := ha
  rw [List.length_map, offs_length]

theorem schedStream_step_length (el : Nat) (it : List Loop) (k : Nat) :
    ∀ a ∈ schedStream el it k, a.length = prodBounds ((el, 1) :: it.take k) := by
  intro a ha
  simp only [schedStream, List.mem_map] at ha
  obtain ⟨_, _, rfl⟩ := ha
  rw [List.length_map, offs_length]

theorem length_flatten_const {α} (B : List (List α)) (S : Nat) (h : ∀ b ∈ B, b.length = S) :
    B.flatten.length = S * B.length := by
  induction B with
  | nil => simp
  | cons b B ih =>
    simp only [List.flatten_cons, List.length_append, List.length_cons]
    rw [h b (by simp), ih (fun x hx => h x (by simp [hx])), Nat.mul_succ, Nat.add_comm]

/-- regrouping of two chunkings of the same sequence with uniform chunk sizes `g*S` and `S` -/
theorem chunks_regroup {α} (g S : Nat) (hS : 0 < S) : ∀ (A B : List (List α)),
    (∀ a ∈ A, a.length = g * S) → (∀ b ∈ B, b.length = S) → A.flatten = B.flatten →
    ∀ j (hj : j < A.length), A[j] = ((B.drop (g * j)).take g).flatten
  | [], _, _, _, _, j, hj => by simp at hj
  | a :: A, B, hA, hB, hflat, j, hj => by
    have hlenB : B.flatten.length = S * B.length := length_flatten_const B S hB
    have hlenA : (a :: A).flatten.length = g * S * (A.length + 1) := by
      rw [length_flatten_const (a :: A) (g * S) hA]; simp
    have hBlen : g ≤ B.length := by
      rw [hflat, hlenB] at hlenA
      have h1 : S * B.length = S * (g * (A.length + 1)) := by
        rw [hlenA, Nat.mul_comm g S, Nat.mul_assoc]
      have h2 := Nat.eq_of_mul_eq_mul_left hS h1
      rw [h2, Nat.mul_succ]; exact Nat.le_add_left _ _
    have htake : ((B.take g).flatten).length = g * S := by
      rw [length_flatten_const (B.take g) S (fun b hb => hB b (List.mem_of_mem_take hb)), List.length_take,
        Nat.min_eq_left hBlen, Nat.mul_comm]
    have hsplit : a ++ A.flatten = (B.take g).flatten ++ (B.drop g).flatten := by
      rw [← List.flatten_append, List.take_append_drop]; simpa using hflat
    have ha : a.length = g * S := hA a (by simp)
    obtain ⟨h1, h2⟩ := List.append_inj hsplit (by rw [ha, htake])
    match j, hj with
    | 0, _ => simp [h1]
    | j + 1, hj =>
      have := chunks_regroup g S hS A (B.drop g) (fun x hx => hA x (by simp [hx]))
        (fun b hb => hB b (List.mem_of_mem_drop hb)) h2 j (by simpa using hj)
      simp only [List.getElem_cons_succ]
      rw [this, List.drop_drop, Nat.mul_succ, Nat.add_comm]

/-! ### layout resolution -/

theorem dotI_unitVec_aux : ∀ (c : List Int) (i k : Nat), i < c.length →
    dotI c ((List.range' k c.length).map fun j => if j = k + i then (1 : Int) else 0) = c[i]!
  | [], i, k, h => by simp at h
  | a :: c, 0, k, _ => by
    simp only [List.length_cons, List.range'_succ, List.map_cons, dotI, Nat.add_zero, if_true, Int.mul_one]
    have : dotI c ((List.range' (k + 1) c.length).map fun j => if j = k then (1 : Int) else 0) = 0 := by
      have hz : ∀ (c : List Int) (m : Nat), k < m →
          dotI c ((List.range' m c.length).map fun j => if j = k then (1 : Int) else 0) = 0 := by
        intro c
        induction c with
        | nil => intro m _; simp [dotI]
        | cons a c ih =>
          intro m hm
          simp only [List.length_cons, List.range'_succ, List.map_cons, dotI]
          rw [if_neg (by omega), ih (m + 1) (by omega)]; simp
      exact hz c (k + 1) (by omega)
    rw [this]; simp
  | a :: c, i + 1, k, h => by
    simp only [List.length_cons, List.range'_succ, List.map_cons, dotI]
    rw [if_neg (by omega)]
    have := dotI_unitVec_aux c i (k + 1) (by simpa using h)
    have e : k + 1 + i = k + (i + 1) := by omega
    rw [e] at this
    rw [this]; simp

theorem dotI_unitVec (c : List Int) (i : Nat) (h : i < c.length) : dotI c (unitVec c.length i) = c[i]! := by
  have := dotI_unitVec_aux c i 0 h
  simpa [unitVec, List.range_eq_range'] using this

/-- pointwise equal products give equal dot products -/
theorem dotI_congr : ∀ (c r x : List Int), c.length = x.length → r.length = x.length →
    (∀ i (_ : i < x.length), c[i]! * x[i]! = r[i]! * x[i]!) → dotI c x = dotI r x
  | [], [], _, _, _, _ => by simp [dotI]
  | [], _ :: _, [], _, h, _ => by simp at h
  | [], _ :: _, _ :: _, h, _, _ => by simp at h
  | _ :: _, [], [], h, _, _ => by simp at h
  | _ :: _, [], _ :: _, _, h, _ => by simp at h
  | _ :: _, _ :: _, [], h, _, _ => by simp at h
  | a :: c, b :: r, y :: x, hc, hr, h => by
    simp only [dotI]
    have h0 := h 0 (by simp)
    simp only [List.getElem!_cons_zero] at h0
    rw [h0, dotI_congr c r x (by simpa using hc) (by simpa using hr)
      (fun i hi => by simpa using h (i + 1) (by simpa using hi))]

theorem mapM_range_get {α} (f : Nat → Option α) : ∀ (n : Nat) (r : List α),
    (List.range n).mapM f = some r → r.length = n ∧ ∀ i (h : i < n), f i = r[i]?
  | 0, r, h => by
    simp at h; subst h; simp
  | n + 1, r, h => by
    rw [List.range_succ, List.mapM_append] at h
    simp only [List.mapM_cons, List.mapM_nil, Option.pure_def, Option.bind_eq_bind] at h
    cases h1 : (List.range n).mapM f with
    | none => simp [h1] at h
    | some r1 =>
      cases h2 : f n with
      | none => simp [h1, h2] at h
      | some y =>
        simp [h1, h2] at h
        subst h
        obtain ⟨hl, hg⟩ := mapM_range_get f n r1 h1
        refine ⟨by simp [hl], ?_⟩
        intro i hi
        by_cases hin : i < n
        · rw [hg i hin, List.getElem?_append_left (by omega)]
        · have : i = n := by omega
          subst this
          rw [h2, List.getElem?_append_right (by omega)]
          simp [hl]

/-! ### loop nest = box enumeration -/

theorem offs_box : ∀ (bounds : List Nat) (strides : List Int), bounds.length = strides.length →
    offs (boxLoops bounds strides) = (points bounds).map (dotN strides)
  | [], [], _ => by simp [boxLoops, offs, points, dotN]
  | [], _ :: _, h => by simp at h
  | _ :: _, [], h => by simp at h
  | b :: bs, s :: ss, h => by
    have ih := offs_box bs ss (by simpa using h)
    unfold boxLoops at ih ⊢
    simp only [List.zip_cons_cons, List.reverse_cons]
    rw [offs_append, ih]
    simp only [offs, points, List.flatMap_cons, List.flatMap_nil, List.append_nil, List.flatMap_map,
      List.map_flatMap, List.map_map]
    congr 1
    funext i
    apply List.map_congr_left
    intro x _
    simp [dotN]

theorem accessIter_all (strides : List Int) (bounds : List Nat) :
    accessIter strides bounds (bounds.map fun _ => true) = boxLoops bounds strides := by
  unfold accessIter boxLoops
  congr 1
  have : ∀ (l : List Loop) (bs : List Nat), l.length ≤ bs.length →
      ((l.zip (bs.map fun _ => true)).filter fun x => x.2).map (fun x => x.1) = l := by
    intro l
    induction l with
    | nil => intro bs _; simp
    | cons a l ih =>
      intro bs hb
      cases bs with
      | nil => simp at hb
      | cons c bs => simp [ih bs (by simpa using hb)]
  exact this (bounds.zip strides) bounds (by rw [List.length_zip]; exact Nat.min_le_left _ _)

theorem offs_bytes (el : Nat) (l : List Loop) :
    offs ((el, 1) :: l) = (offs l).flatMap (elemBytes el) := by
  simp only [offs, Int.one_mul]
  rfl

/-! ### accelerator customisation -/

theorem spatialStep_emits (bc : Bool) (st st' : St) (d : Nat) (s : Int)
    (h : spatialStep bc st d = .ok (s, st')) : ∃ b, st.cur = some (b, s) := by
  unfold spatialStep at h
  match hc : st.cur, h with
  | some (b, s0), h =>
    simp only [] at h
    refine ⟨b, ?_⟩
    split at h
    · simp only [Except.ok.injEq, Prod.mk.injEq] at h; rw [h.1]
    · split at h
      · split at h
        · exact absurd h (by simp)
        · split at h
          · exact absurd h (by simp)
          · match hr : st.rest, h with
            | (nb, ns) :: r, h =>
              simp only [] at h
              split at h
              · exact absurd h (by simp)
              split at h
              · split at h
                · simp only [Except.ok.injEq, Prod.mk.injEq] at h; rw [h.1]
                · exact absurd h (by simp)
              · simp only [Except.ok.injEq, Prod.mk.injEq] at h; rw [h.1]
      · exact absurd h (by simp)

theorem spatialStep_spec_flags (bc : Bool) (st st' : St) (d : Nat) (s : Int)
    (h : spatialStep bc st d = .ok (s, st')) (hb : st'.bcast = false) : st.bcast = false := by
  unfold spatialStep at h
  match hc : st.cur, h with
  | some (b, s0), h =>
    simp only [] at h
    split at h
    · simp only [Except.ok.injEq, Prod.mk.injEq] at h; rw [← h.2] at hb; exact hb
    · split at h
      · split at h
        · exact absurd h (by simp)
        · split at h
          · exact absurd h (by simp)
          · match hr : st.rest, h with
            | (nb, ns) :: r, h =>
              simp only [] at h
              split at h
              · exact absurd h (by simp)
              split at h
              · split at h
                · simp only [Except.ok.injEq, Prod.mk.injEq] at h; rw [← h.2] at hb; simp at hb
                · exact absurd h (by simp)
              · simp only [Except.ok.injEq, Prod.mk.injEq] at h; rw [← h.2] at hb; exact hb
      · exact absurd h (by simp)

/-- an outer loop `(2, c)` in front of the temporal loops doubles every step: the step itself, then the step at `+c` -/
theorem hwStream_cons2 (dims : List Nat) (p : Pattern) (c : Int) :
    hwStream dims { ub := 2 :: p.ub, ts := c :: p.ts, ss := p.ss } =
      (hwStream dims p).flatMap fun st => [st, st.map (· + c)] := by
  unfold hwStream
  simp only []
  generalize offs ((bank, 1) :: spatialLoops dims p.ss) = inner
  have hl : Pattern.loops { ub := 2 :: p.ub, ts := c :: p.ts, ss := p.ss } = (2, c) :: p.loops := rfl
  rw [hl]
  have ho : offs ((2, c) :: p.loops) = (offs p.loops).flatMap fun o => [o, o + c] := by
    simp only [offs]
    apply congrArg (fun f => List.flatMap f (offs p.loops))
    funext o
    simp [List.range_succ]
  rw [ho, List.map_flatMap, List.flatMap_map]
  apply congrArg (fun f => List.flatMap f (offs p.loops))
  funext o
  simp only [List.map_cons, List.map_nil, List.map_map]
  congr 2
  apply List.map_congr_left
  intro x _
  simp only [Function.comp]
  omega

end SnaxVerif.Stream
