import SnaxVerif.Model.PackBits
/-! Helper lemmas for `pack_bitlist` (C19). Core Lean only (`Nat.testBit` extensionality instead of
`omega`, which does not see through `|||`). -/
namespace SnaxVerif
namespace Pack

def orAll (l : List Nat) : Nat := l.foldl (· ||| ·) 0

theorem foldl_or (x : Nat) (l : List Nat) : l.foldl (· ||| ·) x = x ||| l.foldl (· ||| ·) 0 := by
  induction l generalizing x with
  | nil => simp
  | cons a l ih => rw [List.foldl_cons, ih, List.foldl_cons, ih (0 ||| a), Nat.zero_or, Nat.or_assoc]

theorem orAll_cons (a : Nat) (l : List Nat) : orAll (a :: l) = a ||| orAll l := by
  unfold orAll; rw [List.foldl_cons, foldl_or, Nat.zero_or]

theorem orAll_append (l r : List Nat) : orAll (l ++ r) = orAll l ||| orAll r := by
  unfold orAll; rw [List.foldl_append, foldl_or]

theorem orAll_rotate (a b : Nat) (rest : List Nat) :
    orAll (rest ++ [a ||| b]) = orAll (a :: b :: rest) := by
  rw [orAll_append, orAll_cons, orAll_cons, orAll_cons]
  simp only [orAll, List.foldl_nil, Nat.or_zero]
  rw [Nat.or_comm, Nat.or_assoc]

/-- The OR loop ends with one tree whose value is the OR of all trees it started from. -/
theorem orLoop_spec : ∀ (n : Nat) (l : List Tree), l ≠ [] → l.length ≤ n + 1 →
    ∃ t, orLoop n l = [t] ∧ t.eval = orAll (l.map Tree.eval) := by
  intro n
  induction n with
  | zero =>
    intro l hne hlen
    match l, hne, hlen with
    | [a], _, _ => exact ⟨a, by simp [orLoop], by simp [orAll]⟩
    | _ :: _ :: _, _, h => simp at h
  | succ n ih =>
    intro l hne hlen
    match l, hne, hlen with
    | [a], _, _ => exact ⟨a, by simp [orLoop], by simp [orAll]⟩
    | a :: b :: rest, _, h =>
      have h' : (rest ++ [Tree.or a b]).length ≤ n + 1 := by simp at h ⊢; omega
      obtain ⟨t, ht, hv⟩ := ih (rest ++ [Tree.or a b]) (by simp) h'
      refine ⟨t, by simpa [orLoop] using ht, ?_⟩
      rw [hv, List.map_append, List.map_cons, List.map_nil, Tree.eval, orAll_rotate]
      simp

theorem shifted_length : ∀ (vs os : List Nat) (l : List Tree), shifted vs os = some l →
    l.length = vs.length ∧ vs.length = os.length := by
  intro vs
  induction vs with
  | nil =>
    intro os l h
    cases os with
    | nil => simp [shifted] at h; subst h; simp
    | cons _ _ => simp [shifted] at h
  | cons v vs ih =>
    intro os l h
    cases os with
    | nil => simp [shifted] at h
    | cons o os =>
      simp only [shifted, Option.map_eq_some_iff] at h
      obtain ⟨l', hl', rfl⟩ := h
      obtain ⟨h1, h2⟩ := ih os l' hl'
      simp [h1, h2]

theorem shifted_eval : ∀ (vs os : List Nat) (l : List Tree), shifted vs os = some l →
    l.map Tree.eval = List.zipWith (· <<< ·) vs os := by
  intro vs
  induction vs with
  | nil =>
    intro os l h
    cases os with
    | nil => simp [shifted] at h; subst h; simp
    | cons _ _ => simp [shifted] at h
  | cons v vs ih =>
    intro os l h
    cases os with
    | nil => simp [shifted] at h
    | cons o os =>
      simp only [shifted, Option.map_eq_some_iff] at h
      obtain ⟨l', hl', rfl⟩ := h
      simp [Tree.eval, ih os l' hl']

theorem shifted_none_iff (vs os : List Nat) : shifted vs os = none ↔ vs.length ≠ os.length := by
  induction vs generalizing os with
  | nil => cases os <;> simp [shifted]
  | cons v vs ih => cases os with
    | nil => simp [shifted]
    | cons o os => simp [shifted, ih]

/-! ### bit-level facts -/

theorem testBit_orAll (l : List Nat) (k : Nat) :
    (orAll l).testBit k = true ↔ ∃ x ∈ l, x.testBit k = true := by
  induction l with
  | nil => simp [orAll]
  | cons a l ih => rw [orAll_cons, Nat.testBit_or, Bool.or_eq_true, ih]; simp

theorem testBit_false_of_lt {v w k : Nat} (hv : v < 2 ^ w) (hk : w ≤ k) : v.testBit k = false :=
  Nat.testBit_lt_two_pow (Nat.lt_of_lt_of_le hv (Nat.pow_le_pow_right (by decide) hk))

theorem lt_of_testBit {v w k : Nat} (hv : v < 2 ^ w) (h : v.testBit k = true) : k < w := by
  apply Nat.lt_of_not_le
  intro hk
  rw [testBit_false_of_lt hv hk] at h
  cases h

/-- machine arithmetic is the unbounded value modulo `2^w` -/
theorem evalW_eq (w : Nat) : ∀ t : Tree, t.evalW w = t.eval % 2 ^ w
  | .shl v o => by
    simp only [Tree.evalW, Tree.eval, Nat.shiftLeft_eq]
    rw [Nat.mul_mod, Nat.mod_mod, ← Nat.mul_mod]
  | .or a b => by
    simp only [Tree.evalW, Tree.eval, evalW_eq w a, evalW_eq w b, Nat.or_mod_two_pow]

theorem spec_extract (fs : List Field) (hd : Disjoint fs) (hr : InRange fs)
    (i : Nat) (hi : i < fs.length) :
    (spec (fs.map (·.v)) (fs.map (·.o)) >>> fs[i].o) % 2 ^ fs[i].w = fs[i].v := by
  apply Nat.eq_of_testBit_eq
  intro k
  have hspec : spec (fs.map (·.v)) (fs.map (·.o)) = orAll (fs.map fun f => f.v <<< f.o) := by
    unfold spec orAll
    congr 1
    rw [List.zipWith_map_left, List.zipWith_map_right, List.zipWith_self]
  rw [hspec, Nat.testBit_mod_two_pow, Nat.testBit_shiftRight, Bool.eq_iff_iff]
  simp only [Bool.and_eq_true, decide_eq_true_eq, testBit_orAll, List.mem_map]
  constructor
  · rintro ⟨hk, x, ⟨g, hg, rfl⟩, hx⟩
    obtain ⟨j, hj, rfl⟩ := List.mem_iff_getElem.mp hg
    rw [Nat.testBit_shiftLeft] at hx
    simp only [Bool.and_eq_true, decide_eq_true_eq] at hx
    obtain ⟨hge, hbit⟩ := hx
    have hlt := lt_of_testBit (hr _ (List.getElem_mem hj)) hbit
    by_cases hij : i = j
    · subst hij
      rwa [Nat.add_sub_cancel_left] at hbit
    · rcases hd i j hi hj hij with h | h <;> omega
  · intro hv
    have hk := lt_of_testBit (hr _ (List.getElem_mem hi)) hv
    refine ⟨hk, _, ⟨fs[i], List.getElem_mem hi, rfl⟩, ?_⟩
    rw [Nat.testBit_shiftLeft]
    simp [hv]

theorem spec_lt (fs : List Field) (hr : InRange fs) (W : Nat) (hfit : ∀ f ∈ fs, f.o + f.w ≤ W) :
    spec (fs.map (·.v)) (fs.map (·.o)) < 2 ^ W := by
  have hspec : spec (fs.map (·.v)) (fs.map (·.o)) = orAll (fs.map fun f => f.v <<< f.o) := by
    unfold spec orAll
    congr 1
    rw [List.zipWith_map_left, List.zipWith_map_right, List.zipWith_self]
  rw [hspec]
  apply Nat.lt_pow_two_of_testBit
  intro k hk
  apply Bool.eq_false_iff.mpr
  intro hc
  rw [testBit_orAll] at hc
  obtain ⟨x, hx, hb⟩ := hc
  obtain ⟨g, hg, rfl⟩ := List.mem_map.mp hx
  rw [Nat.testBit_shiftLeft] at hb
  simp only [Bool.and_eq_true, decide_eq_true_eq] at hb
  have := lt_of_testBit (hr g hg) hb.2
  have := hfit g hg
  omega



end Pack
end SnaxVerif
