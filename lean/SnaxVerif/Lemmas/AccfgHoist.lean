import SnaxVerif.Lemmas.AccfgMerge
/-! HoistSetupCallsIntoConditionals preserves the machine state (C01). -/
namespace SnaxVerif.Accfg

variable (cfg : Cfg)

/-- write concrete values into the registers of one accelerator -/
def setVals (r : Regs) (a : AccId) (vals : List (Field × Int)) : Regs := fun a' f =>
  if a' = a then (match vals.lookup f with | some v => v | none => r a' f) else r a' f

theorem setRegs_eq_setVals (r : Regs) (env : Env) (a : AccId) (fs : List (Field × Var)) :
    setRegs r env a fs = setVals r a (fs.map fun p => (p.1, env p.2)) := by
  funext a' f
  simp only [setRegs, setVals]
  split
  · rw [lookup_map_val (fun p => env p.2) fs f, lookup_eq_find]
    cases fs.find? (fun p => f == p.1) <;> rfl
  · rfl

theorem setVals_comm_setRegs (r : Regs) (env : Env) (a a' : AccId) (vals : List (Field × Int))
    (fs : List (Field × Var)) (h : a' ≠ a) :
    setRegs (setVals r a vals) env a' fs = setVals (setRegs r env a' fs) a vals := by
  funext b f
  simp only [setRegs, setVals]
  by_cases hb : b = a
  · subst hb; simp [Ne.symm h]
  · simp [hb]

/- Code that neither sets up nor launches accelerator `a` and contains no effectful call commutes
with a write to the registers of `a`. -/
mutual
theorem quietS_comm (a : AccId) (vals : List (Field × Int)) : (s : Stmt) → touchesS a s = false → launchesS a s = false →
    ∀ (u : St), execS cfg false s { u with regs := setVals u.regs a vals } =
      { execS cfg false s u with regs := setVals (execS cfg false s u).regs a vals }
  | .setup a' fs, ht, _, u => by
      have hne : a' ≠ a := by simpa [touchesS] using ht
      simp only [execS]
      rw [setVals_comm_setRegs u.regs u.env a a' vals fs hne]
  | .ghost a' fs, _, _, u => by simp [execS]
  | .launch a' lv, _, hl, u => by
      have hne : a' ≠ a := by simpa [launchesS] using hl
      simp only [execS]
      have : (cfg.fields a').map (setVals u.regs a vals a') = (cfg.fields a').map (u.regs a') := by
        apply List.map_congr_left; intro f _; simp [setVals, hne]
      rw [this]
  | .await a', _, _, u => by simp [execS]
  | .pure d op args, _, _, u => by simp [execS]
  | .call t eff, ht, _, u => by
      have : eff = false := by simpa [touchesS] using ht
      subst this
      simp [execS]
  | .ifS c t e, ht, hl, u => by
      simp only [touchesS, Bool.or_eq_false_iff] at ht
      simp only [launchesS, Bool.or_eq_false_iff] at hl
      simp only [execS]
      split
      · exact quietB_comm a vals t ht.1 hl.1 u
      · exact quietB_comm a vals e ht.2 hl.2 u
  | .forS lb ub step iv b, ht, hl, u => by
      simp only [touchesS] at ht
      simp only [launchesS] at hl
      simp only [execS]
      exact iterFrom_rel _ _ (fun (x y : St) => x = { y with regs := setVals y.regs a vals })
        (fun i x y hxy => by
          subst hxy
          exact quietB_comm a vals b ht hl { y with env := setEnv y.env iv (u.env lb + ↑i * u.env step) })
        _ 0 _ _ rfl
theorem quietB_comm (a : AccId) (vals : List (Field × Int)) : (b : Block) → touchesB a b = false → launchesB a b = false →
    ∀ (u : St), execB cfg false b { u with regs := setVals u.regs a vals } =
      { execB cfg false b u with regs := setVals (execB cfg false b u).regs a vals }
  | .nil, _, _, u => by simp [execB]
  | .cons s r, ht, hl, u => by
      simp only [touchesB, Bool.or_eq_false_iff] at ht
      simp only [launchesB, Bool.or_eq_false_iff] at hl
      simp only [execB]
      rw [quietS_comm a vals s ht.1 hl.1 u]
      exact quietB_comm a vals r ht.2 hl.2 _
end

theorem hoistScan_spec (a : AccId) : ∀ (l : List Stmt) (i : Nat) (L : AccId → Bool)
    (cand : Option (List Stmt × Var × Block × Block)) (mid seen : List Stmt)
    (pre : List Stmt) (c : Var) (t e : Block) (mid' : List Stmt) (fs : List (Field × Var)) (rest : List Stmt),
    hoistScan a l i L cand mid seen = some (pre, c, t, e, mid', fs, rest) →
    (∀ cpre cc ct ce, cand = some (cpre, cc, ct, ce) →
        seen.reverse = cpre.reverse ++ [.ifS cc ct ce] ++ mid.reverse ∧
        ∀ m ∈ mid, touchesS a m = false ∧ launchesS a m = false) →
    seen.reverse ++ l = pre ++ [.ifS c t e] ++ mid' ++ [.setup a fs] ++ rest ∧
      (∀ m ∈ mid', touchesS a m = false ∧ launchesS a m = false) ∧
      (∀ x ∈ fs.map (·.2), x ∉ defsB (Block.ofList mid'))
  | [], i, L, cand, mid, seen, pre, c, t, e, mid', fs, rest, h, _ => by simp [hoistScan] at h
  | s :: l, 0, L, cand, mid, seen, pre, c, t, e, mid', fs, rest, h, hc => by
      simp only [hoistScan] at h
      split at h
      · next a' fs0 cpre cc ct ce =>
        split at h
        · next hcond =>
          obtain ⟨ha, hall⟩ := hcond
          subst ha
          injection h with h
          simp only [Prod.mk.injEq] at h
          obtain ⟨rfl, rfl, rfl, rfl, rfl, rfl, rfl⟩ := h
          obtain ⟨h1, h2⟩ := hc cpre cc ct ce rfl
          refine ⟨by rw [h1]; simp, ?_, ?_⟩
          · intro m hm; exact h2 m (by simpa using hm)
          · intro x hx
            obtain ⟨p, hp, rfl⟩ := List.mem_map.mp hx
            have := List.all_eq_true.mp hall p hp
            simpa using this
        · cases h
      · cases h
  | s :: l, i+1, L, cand, mid, seen, pre, c, t, e, mid', fs, rest, h, hc => by
      simp only [hoistScan] at h
      split at h
      · -- touches: candidate reset (possibly to this scf.if)
        split at h
        · next cc ct ce _ =>
          split at h
          · have := hoistScan_spec a l i _ (some (seen, cc, ct, ce)) [] (.ifS cc ct ce :: seen) pre c t e mid' fs rest h
              (by intro cpre c1 t1 e1 hcc; cases hcc; simp)
            simpa using this
          · have := hoistScan_spec a l i _ none [] (.ifS cc ct ce :: seen) pre c t e mid' fs rest h
              (by intro cpre c1 t1 e1 hcc; cases hcc)
            simpa using this
        · have := hoistScan_spec a l i _ none [] (s :: seen) pre c t e mid' fs rest h
            (by intro cpre c1 t1 e1 hcc; cases hcc)
          simpa using this
      · next hnt =>
        split at h
        · have := hoistScan_spec a l i _ none [] (s :: seen) pre c t e mid' fs rest h
            (by intro cpre c1 t1 e1 hcc; cases hcc)
          simpa using this
        · next hnl =>
          have := hoistScan_spec a l i _ cand (s :: mid) (s :: seen) pre c t e mid' fs rest h
            (by
              intro cpre c1 t1 e1 hcc
              obtain ⟨h1, h2⟩ := hc cpre c1 t1 e1 hcc
              refine ⟨by simp [h1], ?_⟩
              intro m hm
              rcases List.mem_cons.mp hm with rfl | hm
              · exact ⟨by simpa using hnt, by simpa using hnl⟩
              · exact h2 m hm)
          simpa using this

theorem quiet_ofList (a : AccId) (l : List Stmt) (h : ∀ m ∈ l, touchesS a m = false ∧ launchesS a m = false) :
    touchesB a (Block.ofList l) = false ∧ launchesB a (Block.ofList l) = false := by
  induction l with
  | nil => exact ⟨rfl, rfl⟩
  | cons s r ih =>
    have hs := h s (by simp)
    have hr := ih (fun m hm => h m (by simp [hm]))
    simp [Block.ofList, touchesB, launchesB, hs.1, hs.2, hr.1, hr.2]

/-- the semantic core: a setup at the end of both branches, then quiet code = the quiet code, then the setup -/
theorem hoist_core (a : AccId) (fs : List (Field × Var)) (c : Var) (t e : Block) (mid : List Stmt)
    (hq : ∀ m ∈ mid, touchesS a m = false ∧ launchesS a m = false)
    (hav : ∀ x ∈ fs.map (·.2), x ∉ defsB (Block.ofList mid)) (st : St) :
    execB cfg false (Block.ofList mid)
      (execS cfg false (.ifS c (t.append (.cons (.setup a fs) .nil)) (e.append (.cons (.setup a fs) .nil))) st) =
    execS cfg false (.setup a fs) (execB cfg false (Block.ofList mid) (execS cfg false (.ifS c t e) st)) := by
  obtain ⟨hqt, hql⟩ := quiet_ofList a mid hq
  have hif : execS cfg false (.ifS c (t.append (.cons (.setup a fs) .nil)) (e.append (.cons (.setup a fs) .nil))) st =
      execS cfg false (.setup a fs) (execS cfg false (.ifS c t e) st) := by
    simp only [execS]
    split <;> simp [execB_append, execB, execS]
  rw [hif]
  generalize execS cfg false (.ifS c t e) st = u
  simp only [execS]
  rw [setRegs_eq_setVals u.regs u.env a fs, quietB_comm cfg a _ (Block.ofList mid) hqt hql u]
  rw [setRegs_eq_setVals]
  have henv : (fs.map fun p => (p.1, (execB cfg false (Block.ofList mid) u).env p.2)) =
      (fs.map fun p => (p.1, u.env p.2)) := by
    apply List.map_congr_left
    intro p hp
    rw [envB_frame cfg false _ p.2 (hav p.2 (List.mem_map_of_mem hp)) u]
  rw [henv]

theorem hoistRw_ok (L : AccId → Bool) : LocalOK cfg (hoistRw L) := by
  intro F b i b' h _ _ st _ _
  unfold hoistRw at h
  split at h
  · cases h
  · next a _ =>
    split at h
    · next pre c t e mid fs rest hscan =>
      injection h with h; subst h
      obtain ⟨hdec, hq, hav⟩ := hoistScan_spec a b.toList i L none [] [] pre c t e mid fs rest hscan
        (by intro cpre cc ct ce hc; cases hc)
      simp only [List.reverse_nil, List.nil_append] at hdec
      have hb : b = Block.ofList (pre ++ [.ifS c t e] ++ mid ++ [.setup a fs] ++ rest) := by
        rw [← hdec, ofList_toList]
      rw [hb]
      simp only [ofList_append, execB_append, Block.ofList, execB]
      rw [hoist_core cfg a fs c t e mid hq hav]
    · cases h

end SnaxVerif.Accfg
