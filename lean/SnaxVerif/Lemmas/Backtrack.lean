import SnaxVerif.Lemmas.Scheduler
/-! Structure of `scheduler_backtrack`: what one loop iteration can produce, and the induction
principle over the generator (used by C03 and C16). -/
namespace SnaxVerif.Sched
open List

theorem btStep_ok {mtch : Template → Schedule → Except Err Bool} {checks : List (Template → Schedule → Bool)}
    {tmpl : Template} {k : Nat} {s s1 : Schedule} {cand : Option Schedule}
    (h : btStep mtch checks tmpl k s = .ok (s1, cand)) :
    rotate (s.n - k + 1) s = .ok s1 ∧ k ≠ 0 ∧
    ∀ c, cand = some c →
      mtch (tInnerRaw k tmpl) (innerRaw k s1) = .ok true ∧
      (checks.all fun ch => ch (tInnerRaw k tmpl) (innerRaw k s1)) = true ∧
      ((c = s1 ∧ (templateBound tmpl k = 0 ∨ s1.bounds.getD (s1.n - k) 0 ≤ templateBound tmpl k)) ∨
       (templateBound tmpl k ≠ 0 ∧ s1.bounds.getD (s1.n - k) 0 % templateBound tmpl k = 0 ∧
        tile (s1.n - k) (templateBound tmpl k) s1 = .ok c)) := by
  unfold btStep at h
  split at h
  · simp at h
  · next s1' hrot =>
    split at h
    · simp at h
    · next hk =>
      split at h
      · simp at h
      · simp only [Except.ok.injEq, Prod.mk.injEq] at h
        obtain ⟨rfl, rfl⟩ := h
        exact ⟨hrot, hk, by simp⟩
      · next hm =>
        split at h
        · simp only [Except.ok.injEq, Prod.mk.injEq] at h
          obtain ⟨rfl, rfl⟩ := h
          exact ⟨hrot, hk, by simp⟩
        · next hc =>
          simp only [Bool.not_eq_true, Bool.not_eq_false'] at hc
          simp only at h
          split at h
          · next htb =>
            simp only [Except.ok.injEq, Prod.mk.injEq] at h
            obtain ⟨rfl, rfl⟩ := h
            refine ⟨hrot, hk, ?_⟩
            intro c hcand
            simp only [Option.some.injEq] at hcand
            exact ⟨hm, by simpa using hc, Or.inl ⟨hcand.symm, Or.inl htb⟩⟩
          · next htb =>
            split at h
            · next hle =>
              simp only [Except.ok.injEq, Prod.mk.injEq] at h
              obtain ⟨rfl, rfl⟩ := h
              refine ⟨hrot, hk, ?_⟩
              intro c hcand
              simp only [Option.some.injEq] at hcand
              exact ⟨hm, by simpa using hc, Or.inl ⟨hcand.symm, Or.inr hle⟩⟩
            · split at h
              · simp only [Except.ok.injEq, Prod.mk.injEq] at h
                obtain ⟨rfl, rfl⟩ := h
                exact ⟨hrot, hk, by simp⟩
              · next hmod =>
                split at h
                · simp at h
                · next c' htile =>
                  simp only [Except.ok.injEq, Prod.mk.injEq] at h
                  obtain ⟨rfl, rfl⟩ := h
                  refine ⟨hrot, hk, ?_⟩
                  intro c hcand
                  simp only [Option.some.injEq] at hcand
                  subst hcand
                  exact ⟨hm, by simpa using hc, Or.inr ⟨htb, by simpa using hmod, htile⟩⟩

/-- Induction principle for the generator: an invariant `I` on the schedule at a call of level `k`
that is preserved by every loop iteration (rotation) and by every candidate passed to the recursive
call holds for every yielded schedule. -/
theorem backtrack_induct {mtch : Template → Schedule → Except Err Bool}
    {checks : List (Template → Schedule → Bool)} {tmpl : Template}
    (I : Nat → Schedule → Prop) (Q : Schedule → Prop)
    (hyield : ∀ k s, I k s → k > s.n → Q s)
    (hrot : ∀ k s s1 cand, I k s → k ≤ s.n → btStep mtch checks tmpl k s = .ok (s1, cand) →
      I k s1 ∧ s1.n = s.n ∧ ∀ c, cand = some c → I (k + 1) c) :
    ∀ (fuel : Nat) (s : Schedule) (k : Nat) (rs : List Schedule), I k s →
      backtrack mtch checks tmpl fuel s k = .ok rs → ∀ r ∈ rs, Q r
  | 0, _, _, _, _, h => by simp [backtrack] at h
  | fuel + 1, s, k, rs, hI, h => by
    unfold backtrack at h
    split at h
    · next hk =>
      simp only [Except.ok.injEq] at h
      subst h
      intro r hr
      simp only [mem_singleton] at hr
      subst hr
      exact hyield k _ hI hk
    · next hk =>
      have hkn : k ≤ s.n := by omega
      -- the loop, for any number of iterations
      have loop : ∀ (i : Nat) (s' : Schedule) (rs' : List Schedule), I k s' → s'.n = s.n →
          btLoop (btStep mtch checks tmpl k) (fun c => backtrack mtch checks tmpl fuel c (k + 1)) i s' = .ok rs' →
          ∀ r ∈ rs', Q r := by
        intro i
        induction i with
        | zero =>
          intro s' rs' _ _ hl
          simp only [btLoop, Except.ok.injEq] at hl
          subst hl
          simp
        | succ i ih =>
          intro s' rs' hI' hn' hl
          unfold btLoop at hl
          split at hl
          · simp at hl
          · next s1 cand hstep =>
            obtain ⟨hI1, hn1, hcand⟩ := hrot k s' s1 cand hI' (by omega) hstep
            split at hl
            · simp at hl
            · next here hhere =>
              split at hl
              · simp at hl
              · next rest hrest =>
                simp only [Except.ok.injEq] at hl
                subst hl
                intro r hr
                rcases mem_append.mp hr with hr | hr
                · cases cand with
                  | none =>
                    simp only [Except.ok.injEq] at hhere
                    subst hhere
                    simp at hr
                  | some c =>
                    exact backtrack_induct I Q hyield hrot fuel c (k + 1) here (hcand c rfl) hhere r hr
                · exact ih s1 rest hI1 (by omega) hrest r hr
      exact loop _ s rs hI rfl h

end SnaxVerif.Sched
