import SnaxVerif.Lemmas.AccfgLinksInv
/-! `freeS`/`freeB` and `mainS`/`mainB`: the threading invariant through every statement (see AccfgLinksInv.lean). -/
namespace SnaxVerif.AccfgLinks
open SnaxVerif.Accfg

/-- what an effectful call inside does to the state value / the facts of an accelerator that is not set up -/
def killSig (e : Bool) (o : Option StateId) : Option StateId :=
  match e with
  | true => none
  | false => o
def killRow (e : Bool) (r : Row) : Row :=
  match e with
  | true => emptyRow
  | false => r

theorem known_call_true (t : Nat) (G : Facts) (a : AccId) : knownS (.call t true) G a = emptyRow := by
  funext f; simp [knownS, noFacts, emptyRow]

theorem not_mem_ifResOf {σ : Sig} {cands : List AccId} {wt we : WB} {a : AccId} (h : a ∉ cands) :
    ∀ r ∈ ifResOf σ cands wt we, r.acc ≠ a := by
  intro r hr hra
  obtain ⟨a', ha', rfl⟩ := List.mem_map.mp hr
  simp only at hra; subst hra
  exact h (mem_ifChanged.mp ha').1

theorem not_mem_forCarOf {us : List AccId} {en : List (AccId × StateId) × Sig × Nat} {wb : WB} {a : AccId}
    (h : a ∉ us) : ∀ c ∈ forCarOf us en wb, c.acc ≠ a := by
  intro c hc hca
  obtain ⟨a', ha', rfl⟩ := List.mem_map.mp hc
  simp only at hca; subst hca
  exact h ha'

theorem forBodySig_other {us : List AccId} {en : List (AccId × StateId) × Sig × Nat} {a : AccId} (h : a ∉ us) :
    forBodySig us en a = en.2.1 a := by
  simp [forBodySig, withIds, lookup_mkIds_none us en.2.2 a h]

/- Blocks that do not set up accelerator `a`: its state value is kept, or dropped when an effectful call is inside;
the facts about `a` likewise; nothing about `a` is defined or (straight-line) used. -/
mutual
theorem freeS (a : AccId) (D : DTab) (A : Asm) : (s : PStmt) → ∀ (σ cur : Sig) (n : Nat)
    (ρ : List (StateId × StateId)) (G : Facts), a ∉ accsPS s → cur a = none →
    (weaveS s σ cur n ρ).sig a = killSig (effPS s) (σ a) ∧ (weaveS s σ cur n ρ).cur a = none ∧
    knownS (erasePS s) G a = killRow (effPS s) (G a) ∧
    AgreeS a D A (weaveS s σ cur n ρ).stmt G ∧ (∀ p ∈ (weaveS s σ cur n ρ).pre, p.1 ≠ a)
  | .setup b fs out inp, σ, cur, n, ρ, G, ha, hc => by
      have hab : a ≠ b := by simpa [accsPS] using ha
      refine ⟨by simp [weaveS, effPS, sset, hab, killSig], by simp [weaveS, sset, hab, hc],
        by simp [effPS, erasePS, known_setup_other hab, killRow], ?_, by simp [weaveS]⟩
      simp only [weaveS, AgreeS]
      intro h; exact absurd h.symm hab
  | .launch b lv s, σ, cur, n, ρ, G, _, hc => by
      refine ⟨by simp [weaveS, effPS, killSig], by simp [weaveS, hc], by simp [effPS, erasePS, knownS, killRow], ?_, by simp [weaveS]⟩
      simp only [weaveS, AgreeS]
      intro hb hcur
      subst hb
      rw [hc] at hcur
      cases h : ρ.lookup s <;> simp [h] at hcur
  | .await b, σ, cur, n, ρ, G, _, hc => by
      exact ⟨by simp [weaveS, effPS, killSig], by simp [weaveS, hc], by simp [effPS, erasePS, knownS, killRow],
        by simp [weaveS, AgreeS], by simp [weaveS]⟩
  | .pure d op args, σ, cur, n, ρ, G, _, hc => by
      exact ⟨by simp [weaveS, effPS, killSig], by simp [weaveS, hc], by simp [effPS, erasePS, knownS, killRow],
        by simp [weaveS, AgreeS], by simp [weaveS]⟩
  | .call t e, σ, cur, n, ρ, G, _, hc => by
      cases e with
      | true =>
        exact ⟨by simp [weaveS, effPS, noSig, killSig], by simp [weaveS, noSig],
          by simp [effPS, erasePS, known_call_true, killRow], by simp [weaveS, AgreeS], by simp [weaveS]⟩
      | false =>
        exact ⟨by simp [weaveS, effPS, killSig], by simp [weaveS, hc], by simp [effPS, erasePS, knownS, killRow],
          by simp [weaveS, AgreeS], by simp [weaveS]⟩
  | .ifS c t e, σ, cur, n, ρ, G, ha, _ => by
      have hat : a ∉ accsPB t := fun h => ha (by simp [accsPS, h])
      have hae : a ∉ accsPB e := fun h => ha (by simp [accsPS, h])
      have hcands : a ∉ sortU (accsPB t ++ accsPB e) := by
        rw [mem_sortU]; simpa [accsPS] using ha
      obtain ⟨ht1, ht2, ht3⟩ := freeB a D A t σ noSig n ρ G hat rfl
      obtain ⟨he1, he2, he3⟩ := freeB a D A e σ noSig (weaveB t σ noSig n ρ).nxt ρ G hae rfl
      have hch : a ∉ ifChanged σ (weaveB t σ noSig n ρ).sig (weaveB e σ noSig (weaveB t σ noSig n ρ).nxt ρ).sig
          (sortU (accsPB t ++ accsPB e)) := fun h => hcands (mem_ifChanged.mp h).1
      refine ⟨?_, by simp [weaveS, ifFinish, noSig], ?_, ?_, by simp [weaveS, ifFinish]⟩
      · simp only [weaveS]
        rw [ifFinish_sig_eq, lookup_mkIds_none _ _ _ hch]
        simp only [ht1, he1, effPS]
        cases effPB t <;> cases effPB e <;> cases σ a <;> simp [killSig]
      · simp only [erasePS, known_if, ht2, he2, effPS]
        cases effPB t <;> cases effPB e <;> simp [killRow, meetRow_self, meetRow_empty_left, meetRow_empty_right]
      · simp only [weaveS, ifFinish_stmt_eq, AgreeS]
        exact ⟨ht3, he3, fun r hr hra => absurd hra (not_mem_ifResOf hcands r hr)⟩
  | .forS lb ub st iv body car, σ, cur, n, ρ, G, ha, _ => by
      have hab : a ∉ accsPB body := fun h => ha (by simp [accsPS, h])
      have hus : a ∉ sortU (accsPB body ++ car.map (·.acc)) := by rw [mem_sortU]; simpa [accsPS] using ha
      have hknown : knownS (erasePS (.forS lb ub st iv body car)) G a = killRow (effPB body) (G a) := by
        obtain ⟨_, hk1, _⟩ := freeB a D A body σ noSig n ρ G hab rfl
        obtain ⟨_, hk2, _⟩ := freeB a D A body σ noSig n ρ (headFacts (eraseP body) G) hab rfl
        simp only [erasePS, known_for, hk2, headFacts_row, hk1]
        cases effPB body <;> simp [killRow, meetRow_self, meetRow_empty_right]
      simp only [weaveS]
      split
      · obtain ⟨_, _, hagree⟩ := freeB a D A body σ noSig n ρ (headFacts (eraseP body) G) hab rfl
        refine ⟨?_, by simp [noSig], by simpa [effPS] using hknown, ?_, by simp⟩
        · simp only [effPS]; cases effPB body <;> simp [noSig, killSig]
        · simp only [AgreeS, weaveB_erase]
          exact ⟨hagree, by simp⟩
      · have hen : (ensure (sortU (accsPB body ++ car.map (·.acc))) σ n).2.1 a = σ a := ensure_other _ _ _ _ hus
        have hsig : ∀ ρ', (weaveB body (forBodySig (sortU (accsPB body ++ car.map (·.acc)))
            (ensure (sortU (accsPB body ++ car.map (·.acc))) σ n)) noSig
            ((ensure (sortU (accsPB body ++ car.map (·.acc))) σ n).2.2 +
              (sortU (accsPB body ++ car.map (·.acc))).length) ρ').sig a = killSig (effPB body) (σ a) := by
          intro ρ'
          have := (freeB a D A body (forBodySig (sortU (accsPB body ++ car.map (·.acc)))
            (ensure (sortU (accsPB body ++ car.map (·.acc))) σ n)) noSig
            ((ensure (sortU (accsPB body ++ car.map (·.acc))) σ n).2.2 +
              (sortU (accsPB body ++ car.map (·.acc))).length) ρ' G hab rfl).1
          rwa [forBodySig_other hus, hen] at this
        have hagree : ∀ ρ', AgreeB a D A (weaveB body (forBodySig (sortU (accsPB body ++ car.map (·.acc)))
            (ensure (sortU (accsPB body ++ car.map (·.acc))) σ n)) noSig
            ((ensure (sortU (accsPB body ++ car.map (·.acc))) σ n).2.2 +
              (sortU (accsPB body ++ car.map (·.acc))).length) ρ').blk (headFacts (eraseP body) G) :=
          fun ρ' => (freeB a D A body _ noSig _ ρ' (headFacts (eraseP body) G) hab rfl).2.2
        refine ⟨?_, by simp [forFinish, noSig], by simpa [effPS] using hknown, ?_, ?_⟩
        · rw [forFinish_sig_eq, lookup_mkIds_none _ _ _ hus, hsig, hen]
          simp only [effPS]
          cases effPB body <;> cases σ a <;> simp [killSig]
        · simp only [forFinish_stmt_eq, AgreeS, erase_appEmpties, weaveB_erase]
          refine ⟨agree_appEmpties a D A _ _ _ (hagree _) ?_, fun c hc hca => absurd hca (not_mem_forCarOf hus c hc)⟩
          intro p hp hpa
          exact absurd (hpa ▸ (ensure_pre _ _ _ p hp).1) hus
        · intro p hp hpa
          have : p ∈ (ensure (sortU (accsPB body ++ car.map (·.acc))) σ n).1 := by simpa [forFinish] using hp
          exact hus (hpa ▸ (ensure_pre _ _ _ p this).1)
theorem freeB (a : AccId) (D : DTab) (A : Asm) : (b : PBlock) → ∀ (σ cur : Sig) (n : Nat)
    (ρ : List (StateId × StateId)) (G : Facts), a ∉ accsPB b → cur a = none →
    (weaveB b σ cur n ρ).sig a = killSig (effPB b) (σ a) ∧
    knownB (eraseP b) G a = killRow (effPB b) (G a) ∧
    AgreeB a D A (weaveB b σ cur n ρ).blk G
  | .nil, σ, cur, n, ρ, G, _, _ => by simp [weaveB, effPB, eraseP, knownB, AgreeB, killSig, killRow]
  | .cons s r, σ, cur, n, ρ, G, ha, hc => by
      have has : a ∉ accsPS s := fun h => ha (by simp [accsPB, h])
      have har : a ∉ accsPB r := fun h => ha (by simp [accsPB, h])
      obtain ⟨hs1, hs2, hs3, hs4, hs5⟩ := freeS a D A s σ cur n ρ G has hc
      obtain ⟨hr1, hr2, hr3⟩ := freeB a D A r (weaveS s σ cur n ρ).sig (weaveS s σ cur n ρ).cur
        (weaveS s σ cur n ρ).nxt (weaveS s σ cur n ρ).rho (knownS (erasePS s) G) har hs2
      refine ⟨?_, ?_, ?_⟩
      · simp only [weaveB, hr1, hs1, effPB]
        cases effPS s <;> cases effPB r <;> simp [killSig]
      · simp only [eraseP, knownB, hr2, hs3, effPB]
        cases effPS s <;> cases effPB r <;> simp [killRow]
      · simp only [weaveB]
        apply agree_prepend
        · intro p hp hpa; exact absurd hpa (hs5 p hp)
        · simp only [AgreeB]
          refine ⟨hs4, ?_⟩
          have : stepF (weaveS s σ cur n ρ).stmt G = knownS (erasePS s) G := by
            simp [stepF, weaveS_erase]
          rw [this]; exact hr3
end

theorem forFinish_pre (lb ub st iv us en wb ρ) : (forFinish lb ub st iv us en wb ρ).pre = en.1 := rfl

theorem sigIs_kill {D : DTab} {A : Asm} {e : Bool} {o : Option StateId} {r : Row} (h : SigIs D A o r) :
    SigIs D A (killSig e o) (killRow e r) := by
  cases e
  · exact h
  · simp [killSig, killRow, SigIs]

/-- owner-table entries of a statement together with the empty setups inserted in front of it -/
def wsDefs (w : WS) : List (StateId × LDef) := w.pre.map (fun p => (p.2, LDef.setup none [])) ++ ldefsS w.stmt

/- The invariant through every statement. `D` is any owner table that contains the definitions of the woven piece
(`hD`), `A` any `assume` context that does not mention ids from `n` on (`hfr`). -/
mutual
theorem mainS (a : AccId) (D : DTab) : (s : PStmt) → ∀ (σ cur : Sig) (n : Nat) (ρ : List (StateId × StateId))
    (A : Asm) (G : Facts), nodupPS s = true →
    (∀ q ∈ wsDefs (weaveS s σ cur n ρ), D q.1 = some q.2) →
    (∀ v, n ≤ v → A.lookup v = none) →
    SigIs D A (σ a) (G a) → (∀ v, cur a = some v → σ a = some v) →
    SigIs D A ((weaveS s σ cur n ρ).sig a) (knownS (erasePS s) G a) ∧
    (∀ v, (weaveS s σ cur n ρ).cur a = some v → (weaveS s σ cur n ρ).sig a = some v) ∧
    AgreeS a D A (weaveS s σ cur n ρ).stmt G ∧
    (∀ p ∈ (weaveS s σ cur n ρ).pre, p.1 = a → G a = emptyRow ∧ Gives D A p.2 emptyRow)
  | .setup b fs out inp, σ, cur, n, ρ, A, G, hnd, hD, hfr, hsig, hcur => by
      have hnd' : (fs.map (·.1)).Nodup := by simpa [nodupPS] using hnd
      have hDn : D n = some (.setup (σ b) fs) := hD (n, .setup (σ b) fs) (by simp [wsDefs, weaveS, ldefsS])
      by_cases hab : b = a
      · subst hab
        have hg : Gives D A n (updRow (G b) fs) := by
          cases hσ : σ b with
          | none =>
            rw [hσ] at hsig hDn
            simp only [SigIs] at hsig
            rw [hsig]
            exact Gives.setupNone (hfr n (Nat.le_refl _)) hDn hnd'
          | some i =>
            rw [hσ] at hsig hDn
            exact Gives.setupSome (hfr n (Nat.le_refl _)) hDn hnd' hsig
        refine ⟨?_, ?_, ?_, by simp [weaveS]⟩
        · simpa [weaveS, sset, SigIs, erasePS, known_setup_same] using hg
        · intro v hv; simpa [weaveS, sset] using hv
        · simp only [weaveS, AgreeS]; intro _; exact ⟨hsig, hg⟩
      · have hab' : a ≠ b := fun h => hab h.symm
        refine ⟨?_, ?_, ?_, by simp [weaveS]⟩
        · simpa [weaveS, sset, hab', erasePS, known_setup_other hab'] using hsig
        · intro v hv
          have : cur a = some v := by simpa [weaveS, sset, hab'] using hv
          simpa [weaveS, sset, hab'] using hcur v this
        · simp only [weaveS, AgreeS]; intro h; exact absurd h hab
  | .launch b lv s, σ, cur, n, ρ, A, G, _, _, _, hsig, hcur => by
      refine ⟨by simpa [weaveS, erasePS, knownS] using hsig, by simpa [weaveS] using hcur, ?_, by simp [weaveS]⟩
      simp only [weaveS, AgreeS]
      intro hb hflag
      subst hb
      cases h : ρ.lookup s with
      | none => simp [h] at hflag
      | some v =>
        simp only [h, Option.isSome_some, Bool.true_and, beq_iff_eq] at hflag
        have hσ := hcur v hflag.symm
        rw [hσ] at hsig
        exact ⟨v, rfl, hsig⟩
  | .await b, σ, cur, n, ρ, A, G, _, _, _, hsig, hcur => by
      exact ⟨by simpa [weaveS, erasePS, knownS] using hsig, by simpa [weaveS] using hcur,
        by simp [weaveS, AgreeS], by simp [weaveS]⟩
  | .pure d op args, σ, cur, n, ρ, A, G, _, _, _, hsig, hcur => by
      exact ⟨by simpa [weaveS, erasePS, knownS] using hsig, by simpa [weaveS] using hcur,
        by simp [weaveS, AgreeS], by simp [weaveS]⟩
  | .call t e, σ, cur, n, ρ, A, G, _, _, _, hsig, hcur => by
      cases e with
      | true =>
        exact ⟨by simp [weaveS, erasePS, known_call_true, noSig, SigIs], by simp [weaveS, noSig],
          by simp [weaveS, AgreeS], by simp [weaveS]⟩
      | false =>
        exact ⟨by simpa [weaveS, erasePS, knownS] using hsig, by simpa [weaveS] using hcur,
          by simp [weaveS, AgreeS], by simp [weaveS]⟩
  | .ifS c t e, σ, cur, n, ρ, A, G, hnd, hD, hfr, hsig, _ => by
      by_cases hc : a ∈ sortU (accsPB t ++ accsPB e)
      · have hndt : nodupPB t = true := by simp only [nodupPS, Bool.and_eq_true] at hnd; exact hnd.1
        have hnde : nodupPB e = true := by simp only [nodupPS, Bool.and_eq_true] at hnd; exact hnd.2
        simp only [weaveS] at hD ⊢
        have hDs : ∀ q ∈ ldefsB (weaveB t σ noSig n ρ).blk ++
            (ldefsB (weaveB e σ noSig (weaveB t σ noSig n ρ).nxt ρ).blk ++
              (ifResOf σ (sortU (accsPB t ++ accsPB e)) (weaveB t σ noSig n ρ)
                (weaveB e σ noSig (weaveB t σ noSig n ρ).nxt ρ)).map
                  fun r => (r.res, LDef.ifRes r.thn r.els)), D q.1 = some q.2 := by
          intro q hq
          apply hD q
          simp only [wsDefs, ifFinish_stmt_eq, ldefsS]
          exact List.mem_append_right _ hq
        have hmt := weaveB_mono t σ noSig n ρ
        have hme := weaveB_mono e σ noSig (weaveB t σ noSig n ρ).nxt ρ
        obtain ⟨ht1, ht2⟩ := mainB a D t σ noSig n ρ A G hndt
          (fun q hq => hDs q (List.mem_append_left _ hq)) hfr hsig (by simp [noSig])
        obtain ⟨he1, he2⟩ := mainB a D e σ noSig (weaveB t σ noSig n ρ).nxt ρ A G hnde
          (fun q hq => hDs q (List.mem_append_right _ (List.mem_append_left _ hq)))
          (fun v hv => hfr v (by omega)) hsig (by simp [noSig])
        obtain ⟨hf1, hf2⟩ := ifFinish_main a D A c σ (sortU (accsPB t ++ accsPB e)) (weaveB t σ noSig n ρ)
          (weaveB e σ noSig (weaveB t σ noSig n ρ).nxt ρ) ρ _ _ ht1 he1
          (fun v hv => hfr v (by omega))
          (fun r hr => hDs (r.res, LDef.ifRes r.thn r.els)
            (List.mem_append_right _ (List.mem_append_right _ (List.mem_map.mpr ⟨r, hr, rfl⟩))))
          (Or.inl hc)
        refine ⟨by simpa [erasePS, known_if] using hf1, by simp [ifFinish, noSig], ?_, by simp [ifFinish]⟩
        simp only [ifFinish_stmt_eq, AgreeS, weaveB_erase]
        exact ⟨ht2, he2, hf2⟩
      · have ha : a ∉ accsPS (.ifS c t e) := by
          rw [mem_sortU] at hc; simpa [accsPS] using hc
        have heq : weaveS (.ifS c t e) σ cur n ρ = weaveS (.ifS c t e) σ noSig n ρ := by simp only [weaveS]
        rw [heq]
        obtain ⟨h1, h2, h3, h4, h5⟩ := freeS a D A (.ifS c t e) σ noSig n ρ G ha rfl
        refine ⟨by rw [h1, h3]; exact sigIs_kill hsig, by intro v hv; rw [h2] at hv; simp at hv, h4, ?_⟩
        intro p hp hpa; exact absurd hpa (h5 p hp)
  | .forS lb ub st iv body car, σ, cur, n, ρ, A, G, hnd, hD, hfr, hsig, _ => by
      by_cases ha : a ∈ sortU (accsPB body ++ car.map (·.acc))
      · have hndb : nodupPB body = true := by simpa [nodupPS] using hnd
        have hne : ¬ (sortU (accsPB body ++ car.map (·.acc))).isEmpty = true := by
          intro h
          rw [List.isEmpty_iff] at h
          rw [h] at ha; simp at ha
        simp only [weaveS, hne, Bool.false_eq_true, if_false] at hD ⊢
        -- names for the pieces
        generalize hus : sortU (accsPB body ++ car.map (·.acc)) = us at *
        generalize hen : ensure us σ n = en at *
        generalize hρb : (car.map fun k => (k.arg, (((mkIds us en.2.2).lookup k.acc).getD 0))) ++ ρ = ρb at *
        generalize hwb : weaveB body (forBodySig us en) noSig (en.2.2 + us.length) ρb = wb at *
        have hDall : ∀ q ∈ en.1.map (fun p => (p.2, LDef.setup none [])) ++
            ((forCarOf us en wb).map (fun c => (c.arg, LDef.forArg c.init c.yld)) ++
              (ldefsB (appEmpties wb.blk (ensure us wb.sig wb.nxt).1) ++
                (forCarOf us en wb).map fun c => (c.res, LDef.forRes c.init c.yld))), D q.1 = some q.2 := by
          intro q hq
          apply hD q
          simp only [wsDefs, forFinish_stmt_eq, forFinish_pre, ldefsS]
          exact hq
        have hDpre : ∀ p ∈ (ensure us σ n).1, D p.2 = some (.setup none []) := by
          intro p hp
          rw [hen] at hp
          exact hDall (p.2, .setup none []) (List.mem_append_left _ (List.mem_map.mpr ⟨p, hp, rfl⟩))
        have hDbody : ∀ q ∈ ldefsB wb.blk, D q.1 = some q.2 := by
          intro q hq
          apply hDall q
          apply List.mem_append_right; apply List.mem_append_right; apply List.mem_append_left
          exact (mem_ldefs_appEmpties _ _ _).mpr (Or.inl hq)
        have hDpost : ∀ p ∈ (ensure us wb.sig wb.nxt).1, D p.2 = some (.setup none []) := by
          intro p hp
          apply hDall (p.2, .setup none [])
          apply List.mem_append_right; apply List.mem_append_right; apply List.mem_append_left
          exact (mem_ldefs_appEmpties _ _ _).mpr (Or.inr (List.mem_map.mpr ⟨p, hp, rfl⟩))
        have hDcar : ∀ c ∈ forCarOf us en wb,
            D c.arg = some (.forArg c.init c.yld) ∧ D c.res = some (.forRes c.init c.yld) := by
          intro c hc
          constructor
          · apply hDall (c.arg, .forArg c.init c.yld)
            apply List.mem_append_right; apply List.mem_append_left
            exact List.mem_map.mpr ⟨c, hc, rfl⟩
          · apply hDall (c.res, .forRes c.init c.yld)
            apply List.mem_append_right; apply List.mem_append_right; apply List.mem_append_right
            exact List.mem_map.mpr ⟨c, hc, rfl⟩
        obtain ⟨hen1, hen2, hen3⟩ := ensure_sigIs a D A us σ n (G a) hfr hDpre hsig
        rw [hen] at hen1 hen2 hen3
        have hmono1 : n ≤ en.2.2 := by have := ensure_mono us σ n; rw [hen] at this; exact this
        have hmono2 : en.2.2 + us.length ≤ wb.nxt := by
          have := weaveB_mono body (forBodySig us en) noSig (en.2.2 + us.length) ρb
          rw [hwb] at this; exact this
        have hbody : ∀ (A' : Asm) (G' : Facts), (∀ v, en.2.2 + us.length ≤ v → A'.lookup v = none) →
            SigIs D A' (forBodySig us en a) (G' a) →
            SigIs D A' (wb.sig a) (knownB (eraseP body) G' a) ∧ AgreeB a D A' wb.blk G' := by
          intro A' G' hfr' hs'
          have := mainB a D body (forBodySig us en) noSig (en.2.2 + us.length) ρb A' G' hndb
            (by rw [hwb]; exact hDbody) hfr' hs' (by simp [noSig])
          rw [hwb] at this; exact this
        have hargsig : ∀ arg : StateId, (mkIds us en.2.2).lookup a = some arg → forBodySig us en a = some arg := by
          intro arg harg; simp [forBodySig, withIds, harg]
        have hargbound : ∀ arg : StateId, (mkIds us en.2.2).lookup a = some arg →
            en.2.2 ≤ (arg : Nat) ∧ (arg : Nat) < en.2.2 + us.length := by
          intro arg harg
          obtain ⟨v, hv, h1, h2⟩ := lookup_mkIds_some us en.2.2 a ha
          rw [hv] at harg; cases harg; exact ⟨h1, h2⟩
        obtain ⟨⟨arg, harg, hgarg⟩, hf2, hf3, hf4⟩ := forFinish_main a D A lb ub st iv us en wb _ (G a)
          (knownB (eraseP body) G a) (knownB (eraseP body) (headFacts (eraseP body) G) a) ha hen1
          (hen2 (Or.inr ha)) (fun v hv => hfr v (by omega)) hmono2 hDcar hDpost
          (fun arg x harg hxnd hxr => by
            obtain ⟨hb1, hb2⟩ := hargbound arg harg
            refine (hbody ((arg, x) :: A) G ?_ ?_).1
            · intro v hv
              have hne : (v == arg) = false := by
                have : v ≠ arg := by somega
                simpa using this
              simp only [List.lookup, hne]
              exact hfr v (by omega)
            · rw [hargsig arg harg]
              exact Gives.assumed (by simp [List.lookup]) hxnd hxr)
          (fun arg harg hg => by
            refine (hbody A (headFacts (eraseP body) G) (fun v hv => hfr v (by omega)) ?_).1
            rw [hargsig arg harg, headFacts_row]; exact hg)
        have hagree := (hbody A (headFacts (eraseP body) G) (fun v hv => hfr v (by omega))
          (by rw [hargsig arg harg, headFacts_row]; exact hgarg)).2
        have herase : erase wb.blk = eraseP body := by rw [← hwb]; exact weaveB_erase body _ _ _ _
        refine ⟨by simpa [erasePS, known_for] using hf2, by simp [forFinish, noSig], ?_, ?_⟩
        · simp only [forFinish_stmt_eq, AgreeS, erase_appEmpties, herase]
          refine ⟨agree_appEmpties a D A _ _ _ hagree ?_, ?_⟩
          · intro p hp hpa; rw [herase]; exact hf4 p hp hpa
          · intro c hc hca
            obtain ⟨h1, h2, h3, h4⟩ := hf3 c hc hca
            exact ⟨h1, by rw [headFacts_row]; exact h2, h3, h4⟩
        · intro p hp hpa
          exact hen3 p (by simpa [forFinish] using hp) hpa
      · have ha' : a ∉ accsPS (.forS lb ub st iv body car) := by
          rw [mem_sortU] at ha; simpa [accsPS] using ha
        have heq : weaveS (.forS lb ub st iv body car) σ cur n ρ = weaveS (.forS lb ub st iv body car) σ noSig n ρ := by
          simp only [weaveS]
        rw [heq]
        obtain ⟨h1, h2, h3, h4, h5⟩ := freeS a D A (.forS lb ub st iv body car) σ noSig n ρ G ha' rfl
        refine ⟨by rw [h1, h3]; exact sigIs_kill hsig, by intro v hv; rw [h2] at hv; simp at hv, h4, ?_⟩
        intro p hp hpa; exact absurd hpa (h5 p hp)
theorem mainB (a : AccId) (D : DTab) : (b : PBlock) → ∀ (σ cur : Sig) (n : Nat) (ρ : List (StateId × StateId))
    (A : Asm) (G : Facts), nodupPB b = true →
    (∀ q ∈ ldefsB (weaveB b σ cur n ρ).blk, D q.1 = some q.2) →
    (∀ v, n ≤ v → A.lookup v = none) →
    SigIs D A (σ a) (G a) → (∀ v, cur a = some v → σ a = some v) →
    SigIs D A ((weaveB b σ cur n ρ).sig a) (knownB (eraseP b) G a) ∧ AgreeB a D A (weaveB b σ cur n ρ).blk G
  | .nil, σ, cur, n, ρ, A, G, _, _, _, hsig, _ => by
      exact ⟨by simpa [weaveB, eraseP, knownB] using hsig, by simp [weaveB, AgreeB]⟩
  | .cons s r, σ, cur, n, ρ, A, G, hnd, hD, hfr, hsig, hcur => by
      have hnds : nodupPS s = true := by simp only [nodupPB, Bool.and_eq_true] at hnd; exact hnd.1
      have hndr : nodupPB r = true := by simp only [nodupPB, Bool.and_eq_true] at hnd; exact hnd.2
      simp only [weaveB, ldefs_prepend, ldefsB] at hD
      obtain ⟨hs1, hs2, hs3, hs4⟩ := mainS a D s σ cur n ρ A G hnds
        (fun q hq => hD q (by
          simp only [wsDefs, List.mem_append] at hq ⊢
          rcases hq with hq | hq
          · exact Or.inl hq
          · exact Or.inr (Or.inl hq))) hfr hsig hcur
      have hm := weaveS_mono s σ cur n ρ
      obtain ⟨hr1, hr2⟩ := mainB a D r (weaveS s σ cur n ρ).sig (weaveS s σ cur n ρ).cur
        (weaveS s σ cur n ρ).nxt (weaveS s σ cur n ρ).rho A (knownS (erasePS s) G) hndr
        (fun q hq => hD q (by simp only [List.mem_append]; exact Or.inr (Or.inr hq)))
        (fun v hv => hfr v (by omega)) hs1 hs2
      refine ⟨by simpa [weaveB, eraseP, knownB] using hr1, ?_⟩
      simp only [weaveB]
      apply agree_prepend _ _ _ _ _ _ hs4
      simp only [AgreeB]
      refine ⟨hs3, ?_⟩
      have : stepF (weaveS s σ cur n ρ).stmt G = knownS (erasePS s) G := by simp [stepF, weaveS_erase]
      rw [this]; exact hr2
end

end SnaxVerif.AccfgLinks
