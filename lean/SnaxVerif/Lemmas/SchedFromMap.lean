import SnaxVerif.Lemmas.AffineTransform
import SnaxVerif.Model.Scheduler
/-! The construction path AffineMap -> (A, b) (`AT.fromMap`, model of `AffineTransform.from_affine_map`)
seen from the scheduler model: the operand built from a map evaluates like the map. -/
namespace SnaxVerif.Sched
open SnaxVerif

/-- an iteration point as the integer vector `AffineTransform.eval` receives -/
def intPoint (x : List Nat) : List Int := x.map Int.ofNat

theorem dot_eq_AT_dot : ∀ (r : List Int) (x : List Nat), dot r x = AT.dot r (intPoint x)
  | [], x => by cases x <;> simp [dot, AT.dot, intPoint]
  | _ :: _, [] => by simp [dot, AT.dot, intPoint]
  | a :: r, v :: x => by
    have ih := dot_eq_AT_dot r x
    simp only [intPoint] at ih
    simp only [dot, AT.dot, intPoint, List.map_cons, ih]
    rfl

/-- The operand `(A, b)` that `from_affine_map` builds from result expressions without floordiv/mod/ceildiv
whose products have a dimension-free side evaluates, at every iteration point, exactly like the expressions. -/
theorem fromMap_operand_eval (n : Nat) (rs : List AExpr) (t : AT.Transform) (h : AT.fromMap n rs = .ok t)
    (hc : ∀ e ∈ rs, AT.mulConstSide e = true) (x : List Nat) (hx : x.length = n) :
    (evalOp ⟨t.A, t.b⟩ x).map some = rs.map fun e => e.eval (AT.envOf (intPoint x)) := by
  obtain ⟨hchk, _, _⟩ := AT.fromMap_checks n rs t h
  have hxi : (intPoint x).length = n := by simp [intPoint, hx]
  unfold AT.fromMap at h
  split at h
  · cases h
  · split at h
    · cases h
    · injection h with h
      subst h
      unfold evalOp
      simp only
      rw [List.zipWith_map_left, List.zipWith_map_right, List.zipWith_self, List.map_map]
      apply List.map_congr_left
      intro e he
      simp only [Function.comp]
      rw [AT.fromMap_row n e (hchk e he).1 (hc e he) (hchk e he).2 (intPoint x) hxi, dot_eq_AT_dot]

/-- A floordiv / mod / ceildiv ANYWHERE in ANY result expression (lhs, rhs, nested, under a multiplication)
makes the construction fail with `ValueError`. -/
theorem fromMap_rejects (n : Nat) (rs : List AExpr) (e : AExpr) (he : e ∈ rs) (hnl : AT.noDivMod e = false) :
    AT.fromMap n rs = .error .valueError := by
  unfold AT.fromMap
  have : (rs.any fun e => !AT.noDivMod e) = true := List.any_eq_true.mpr ⟨e, he, by simp [hnl]⟩
  simp [this]

/-- `noDivMod` really looks at every position: a non-linear node below either child is found. -/
theorem noDivMod_bin_false_of_child (k : BinKind) (a b : AExpr)
    (h : AT.noDivMod a = false ∨ AT.noDivMod b = false) : AT.noDivMod (.bin k a b) = false := by
  rcases h with h | h <;> simp [AT.noDivMod, h]

end SnaxVerif.Sched
