import SnaxVerif.Lemmas.AccfgHoist
/-! PullSetupOpsOutOfLoops only adds a register write in front of a loop; by the ghost-write theorem
no launch observes it as long as every launch stays total (C01). -/
namespace SnaxVerif.Accfg

variable (cfg : Cfg)

theorem iterFrom_ext {σ} (f g : Nat → σ → σ) (h : ∀ i s, g i s = f i s) : ∀ n k s, iterFrom g n k s = iterFrom f n k s
  | 0, _, _ => rfl
  | n+1, k, s => by simp only [iterFrom]; rw [h]; exact iterFrom_ext f g h n (k+1) _

/-- two local rewrites whose results behave alike give positional rewrites whose results behave alike -/
def LocalRel (gh : Bool) (rw1 rw2 : Facts → Block → Nat → Option Block) : Prop :=
  ∀ F b i b1, rw1 F b i = some b1 → ∃ b2, rw2 F b i = some b2 ∧ ∀ st, execB cfg gh b1 st = execB cfg gh b2 st

mutual
theorem rewriteS_rel {gh rw1 rw2} (hrw : LocalRel cfg gh rw1 rw2) : (s : Stmt) → ∀ (k : Nat) (p : List Nat) (F : Facts) (s1 : Stmt),
    rewriteS rw1 k p s F = some s1 → ∃ s2, rewriteS rw2 k p s F = some s2 ∧ ∀ st, execS cfg gh s1 st = execS cfg gh s2 st
  | .ifS c t e, k, p, F, s1, h => by
      simp only [rewriteS] at h ⊢
      split at h
      · next hk =>
        simp only [Option.map_eq_some_iff] at h
        obtain ⟨t1, ht, rfl⟩ := h
        obtain ⟨t2, ht2, heq⟩ := rewriteB_rel hrw t p F t1 ht
        refine ⟨.ifS c t2 e, by simp [hk, ht2], ?_⟩
        intro st; simp only [execS]; split
        · exact heq st
        · rfl
      · next hk =>
        split at h
        · next hk1 =>
          simp only [Option.map_eq_some_iff] at h
          obtain ⟨e1, he, rfl⟩ := h
          obtain ⟨e2, he2, heq⟩ := rewriteB_rel hrw e p F e1 he
          refine ⟨.ifS c t e2, by simp [hk, hk1, he2], ?_⟩
          intro st; simp only [execS]; split
          · rfl
          · exact heq st
        · cases h
  | .forS lb ub step iv b, k, p, F, s1, h => by
      simp only [rewriteS] at h ⊢
      split at h
      · next hk =>
        simp only [Option.map_eq_some_iff] at h
        obtain ⟨b1, hb, rfl⟩ := h
        obtain ⟨b2, hb2, heq⟩ := rewriteB_rel hrw b p _ b1 hb
        refine ⟨.forS lb ub step iv b2, by simp [hk, hb2], ?_⟩
        intro st; simp only [execS]
        exact iterFrom_ext _ _ (fun i u => heq _) _ _ _
      · cases h
  | .setup _ _, _, _, _, _, h => by simp [rewriteS] at h
  | .ghost _ _, _, _, _, _, h => by simp [rewriteS] at h
  | .launch _ _, _, _, _, _, h => by simp [rewriteS] at h
  | .await _, _, _, _, _, h => by simp [rewriteS] at h
  | .pure _ _ _, _, _, _, _, h => by simp [rewriteS] at h
  | .call _ _, _, _, _, _, h => by simp [rewriteS] at h
theorem rewriteB_rel {gh rw1 rw2} (hrw : LocalRel cfg gh rw1 rw2) : (b : Block) → ∀ (path : List Nat) (F : Facts) (b1 : Block),
    rewriteB rw1 path b F = some b1 → ∃ b2, rewriteB rw2 path b F = some b2 ∧ ∀ st, execB cfg gh b1 st = execB cfg gh b2 st
  | b, [i], F, b1, h => by
      simp only [rewriteB] at h ⊢
      exact hrw F b i b1 h
  | .cons s r, 0 :: k :: p, F, b1, h => by
      simp only [rewriteB, Option.map_eq_some_iff] at h
      obtain ⟨s1, hs1, rfl⟩ := h
      obtain ⟨s2, hs2, heq⟩ := rewriteS_rel hrw s k p F s1 hs1
      refine ⟨.cons s2 r, by simp [rewriteB, hs2], ?_⟩
      intro st; simp only [execB]; rw [heq]
  | .cons s r, (i+1) :: k :: p, F, b1, h => by
      simp only [rewriteB, Option.map_eq_some_iff] at h
      obtain ⟨r1, hr1, rfl⟩ := h
      obtain ⟨r2, hr2, heq⟩ := rewriteB_rel hrw r (i :: k :: p) _ r1 hr1
      refine ⟨.cons s r2, by simp [rewriteB, hr2], ?_⟩
      intro st; simp only [execB]; rw [heq]
  | .nil, [], _, _, h => by simp [rewriteB] at h
  | .nil, _ :: _ :: _, _, _, h => by simp [rewriteB] at h
  | .cons _ _, [], _, _, h => by simp [rewriteB] at h
end

theorem insert_aux (a : AccId) (fs : List (Field × Var)) (F : Facts) : (b : Block) → ∀ (i : Nat) (b1 : Block),
    insertRw (.setup a fs) F b i = some b1 →
    ∃ b2, insertRw (.ghost a fs) F b i = some b2 ∧ ∀ st, execB cfg true b1 st = execB cfg true b2 st
  | b, 0, b1, h => by
      simp only [insertRw] at h; injection h with h; subst h
      exact ⟨.cons (.ghost a fs) b, by simp [insertRw], fun st => by simp [execB, execS]⟩
  | .cons t r, i+1, b1, h => by
      simp only [insertRw, Option.map_eq_some_iff] at h
      obtain ⟨r1, hr1, rfl⟩ := h
      obtain ⟨r2, hr2, heq⟩ := insert_aux a fs F r i r1 hr1
      exact ⟨.cons t r2, by simp [insertRw, hr2], fun st => by simp only [execB]; rw [heq]⟩
  | .nil, i+1, b1, h => by simp [insertRw] at h

/-- inserting a setup or the corresponding ghost is the same when ghosts are executed -/
theorem insert_setup_ghost_rel (a : AccId) (fs : List (Field × Var)) :
    LocalRel cfg true (insertRw (.setup a fs)) (insertRw (.ghost a fs)) :=
  fun F b i b1 h => insert_aux cfg a fs F b i b1 h

/-- an inserted ghost is invisible when ghosts are not executed -/
theorem insert_ghost_skip (a : AccId) (fs : List (Field × Var)) (F : Facts) : (b : Block) → ∀ (i : Nat) (b1 : Block),
    insertRw (.ghost a fs) F b i = some b1 → ∀ st, execB cfg false b1 st = execB cfg false b st
  | b, 0, b1, h, st => by
      simp only [insertRw] at h; injection h with h; subst h
      simp [execB, execS]
  | .cons t r, i+1, b1, h, st => by
      simp only [insertRw, Option.map_eq_some_iff] at h
      obtain ⟨r1, hr1, rfl⟩ := h
      simp only [execB]
      exact insert_ghost_skip a fs F r i r1 hr1 _
  | .nil, i+1, b1, h, _ => by simp [insertRw] at h

theorem insert_ghost_ok (a : AccId) (fs : List (Field × Var)) : LocalOK cfg (insertRw (.ghost a fs)) :=
  fun F b i b' h _ _ st _ _ => insert_ghost_skip cfg a fs F b i b' h st

/- without ghost statements the flag of the semantics is irrelevant -/
mutual
theorem noGhostS_exec : (s : Stmt) → noGhostS s = true → ∀ st, execS cfg true s st = execS cfg false s st
  | .setup _ _, _, _ => rfl
  | .ghost _ _, h, _ => by simp [noGhostS] at h
  | .launch _ _, _, _ => rfl
  | .await _, _, _ => rfl
  | .pure _ _ _, _, _ => rfl
  | .call _ _, _, _ => rfl
  | .ifS c t e, h, st => by
      simp only [noGhostS, Bool.and_eq_true] at h
      simp only [execS]; split
      · exact noGhostB_exec t h.1 st
      · exact noGhostB_exec e h.2 st
  | .forS lb ub step iv b, h, st => by
      simp only [noGhostS] at h
      simp only [execS]
      exact iterFrom_ext _ _ (fun i u => noGhostB_exec b h _) _ _ _
theorem noGhostB_exec : (b : Block) → noGhostB b = true → ∀ st, execB cfg true b st = execB cfg false b st
  | .nil, _, _ => rfl
  | .cons s r, h, st => by
      simp only [noGhostB, Bool.and_eq_true] at h
      simp only [execB]
      rw [noGhostS_exec s h.1 st, noGhostB_exec r h.2]
end

/- the computable totality check implies the side condition of the ghost-write theorem -/
mutual
theorem okSb_ok : (s : Stmt) → ∀ F, okSb cfg.fields s F = true → okS cfg s F
  | .launch a lv, F, h => by
      simp only [okSb, List.all_eq_true] at h
      simp only [okS]; exact h
  | .ifS c t e, F, h => by
      simp only [okSb, Bool.and_eq_true] at h
      simp only [okS]; exact ⟨okBb_ok t F h.1, okBb_ok e F h.2⟩
  | .forS lb ub st iv b, F, h => by
      simp only [okSb] at h
      simp only [okS]; exact okBb_ok b _ h
  | .setup _ _, _, _ => by simp [okS]
  | .ghost _ _, _, _ => by simp [okS]
  | .await _, _, _ => by simp [okS]
  | .pure _ _ _, _, _ => by simp [okS]
  | .call _ _, _, _ => by simp [okS]
theorem okBb_ok : (b : Block) → ∀ F, okBb cfg.fields b F = true → okB cfg b F
  | .nil, _, _ => by simp [okB]
  | .cons s r, F, h => by
      simp only [okBb, Bool.and_eq_true] at h
      simp only [okB]; exact ⟨okSb_ok s F h.1, okBb_ok r _ h.2⟩
end

/-- **pull.** If the program `b'` is `b` with a setup inserted at `path`, and the ghost version of the
result is well formed and keeps every launch total, then `b'` and `b` have the same trace. -/
theorem insert_setup_trace (path : List Nat) (a : AccId) (fs : List (Field × Var)) (b b' bg : Block)
    (h' : insertAt path (.setup a fs) b = some b') (hg : insertAt path (.ghost a fs) b = some bg)
    (hwf : wfB b = true) (hn : nodupB b = true) (hng : noGhostB b' = true)
    (hwfg : wfB bg = true) (hok : okBb cfg.fields bg noFacts = true) (st : St) :
    (execB cfg false b' st).tr = (execB cfg false b st).tr := by
  unfold insertAt at h' hg
  obtain ⟨bg', hbg', heq⟩ := rewriteB_rel cfg (insert_setup_ghost_rel cfg a fs) b path noFacts b' h'
  rw [hg] at hbg'; injection hbg' with hbg'; subst hbg'
  have h1 : execB cfg false bg st = execB cfg false b st :=
    rewriteB_exec cfg (insert_ghost_ok cfg a fs) b path noFacts bg hg hwf hn st
      (by intro a f x h; simp [noFacts] at h) (by intro a f x h; simp [noFacts] at h)
  rw [← noGhostB_exec cfg b' hng st, heq st, ghost_writes_unobservable cfg bg hwfg (okBb_ok cfg bg _ hok) st, h1]


/-! `pullRw` is an insertion of a setup -/

mutual
theorem rewriteS_lift {ζ : Type} {rw1 : Facts → Block → Nat → Option Block} {rw2 : ζ → Facts → Block → Nat → Option Block}
    (hl : ∀ F b i b', rw1 F b i = some b' → ∃ z, ∀ F', rw2 z F' b i = some b') :
    (s : Stmt) → ∀ (k : Nat) (p : List Nat) (F : Facts) (s' : Stmt), rewriteS rw1 k p s F = some s' →
      ∃ z, ∀ F', rewriteS (rw2 z) k p s F' = some s'
  | .ifS c t e, k, p, F, s', h => by
      simp only [rewriteS] at h
      split at h
      · next hk =>
        simp only [Option.map_eq_some_iff] at h
        obtain ⟨t', ht, rfl⟩ := h
        obtain ⟨z, hz⟩ := rewriteB_lift hl t p F t' ht
        exact ⟨z, fun F' => by simp [rewriteS, hk, hz F']⟩
      · next hk =>
        split at h
        · next hk1 =>
          simp only [Option.map_eq_some_iff] at h
          obtain ⟨e', he, rfl⟩ := h
          obtain ⟨z, hz⟩ := rewriteB_lift hl e p F e' he
          exact ⟨z, fun F' => by simp [rewriteS, hk, hk1, hz F']⟩
        · cases h
  | .forS lb ub step iv b, k, p, F, s', h => by
      simp only [rewriteS] at h
      split at h
      · next hk =>
        simp only [Option.map_eq_some_iff] at h
        obtain ⟨b', hb, rfl⟩ := h
        obtain ⟨z, hz⟩ := rewriteB_lift hl b p _ b' hb
        exact ⟨z, fun F' => by simp [rewriteS, hk, hz _]⟩
      · cases h
  | .setup _ _, _, _, _, _, h => by simp [rewriteS] at h
  | .ghost _ _, _, _, _, _, h => by simp [rewriteS] at h
  | .launch _ _, _, _, _, _, h => by simp [rewriteS] at h
  | .await _, _, _, _, _, h => by simp [rewriteS] at h
  | .pure _ _ _, _, _, _, _, h => by simp [rewriteS] at h
  | .call _ _, _, _, _, _, h => by simp [rewriteS] at h
theorem rewriteB_lift {ζ : Type} {rw1 : Facts → Block → Nat → Option Block} {rw2 : ζ → Facts → Block → Nat → Option Block}
    (hl : ∀ F b i b', rw1 F b i = some b' → ∃ z, ∀ F', rw2 z F' b i = some b') :
    (b : Block) → ∀ (path : List Nat) (F : Facts) (b' : Block), rewriteB rw1 path b F = some b' →
      ∃ z, ∀ F', rewriteB (rw2 z) path b F' = some b'
  | b, [i], F, b', h => by
      simp only [rewriteB] at h
      obtain ⟨z, hz⟩ := hl F b i b' h
      exact ⟨z, fun F' => by simp [rewriteB, hz F']⟩
  | .cons s r, 0 :: k :: p, F, b', h => by
      simp only [rewriteB, Option.map_eq_some_iff] at h
      obtain ⟨s', hs', rfl⟩ := h
      obtain ⟨z, hz⟩ := rewriteS_lift hl s k p F s' hs'
      exact ⟨z, fun F' => by simp [rewriteB, hz F']⟩
  | .cons s r, (i+1) :: k :: p, F, b', h => by
      simp only [rewriteB, Option.map_eq_some_iff] at h
      obtain ⟨r', hr', rfl⟩ := h
      obtain ⟨z, hz⟩ := rewriteB_lift hl r (i :: k :: p) _ r' hr'
      exact ⟨z, fun F' => by simp [rewriteB, hz _]⟩
  | .nil, [], _, _, h => by simp [rewriteB] at h
  | .nil, _ :: _ :: _, _, _, h => by simp [rewriteB] at h
  | .cons _ _, [], _, _, h => by simp [rewriteB] at h
end

theorem pullRw_insert (j : Nat) : (b : Block) → ∀ (F : Facts) (i : Nat) (b' : Block), pullRw j F b i = some b' →
    ∃ z : AccId × List (Field × Var), ∀ F', insertRw (.setup z.1 z.2) F' b i = some b'
  | .nil, F, i, b', h => by simp [pullRw] at h
  | .cons s r, F, 0, b', h => by
      cases s with
      | forS lb ub st iv body =>
        simp only [pullRw] at h
        split at h
        · cases h
        · next a _ =>
          split at h
          · cases h
          · split at h
            · cases h
            · injection h with h; subst h
              exact ⟨(a, pullFields F a iv body), fun F' => by simp [insertRw]⟩
      | _ => simp [pullRw] at h
  | .cons s r, F, i+1, b', h => by
      simp only [pullRw, Option.map_eq_some_iff] at h
      obtain ⟨r', hr', rfl⟩ := h
      obtain ⟨z, hz⟩ := pullRw_insert j r _ i r' hr'
      exact ⟨z, fun F' => by simp [insertRw, hz F']⟩

theorem applyRule_pull_insert (j : Nat) (path : List Nat) (b b' : Block) (h : applyRule (.pull j) path b = some b') :
    ∃ a fs, insertAt path (.setup a fs) b = some b' := by
  simp only [applyRule] at h
  obtain ⟨z, hz⟩ := rewriteB_lift (rw2 := fun (z : AccId × List (Field × Var)) => insertRw (.setup z.1 z.2))
    (fun F b i b' h => pullRw_insert j b F i b' h) b path noFacts b' h
  exact ⟨z.1, z.2, hz noFacts⟩

end SnaxVerif.Accfg
