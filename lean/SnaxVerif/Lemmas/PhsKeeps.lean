import SnaxVerif.Lemmas.Phs
/-! Lemmas for `combine_keeps` (C20): a graph extension that only adds mux layers driven by new switches,
new operations at the end of choose ops and new choose ops keeps every valid mapping valid. -/
namespace SnaxVerif.Phs

variable [Variant]

deriving instance DecidableEq for Except

/-- `t'` is `t` with mux layers on top whose switches are new (index ≥ `N`) and whose lhs leads to `t` -/
inductive Wraps (N : Nat) : Src → Src → Prop
  | refl (t : Src) : Wraps N t t
  | step {t t' : Src} (s : Nat) (r : Src) : Wraps N t t' → N ≤ s → Wraps N t (.mux s t' r)

inductive WrapsL (N : Nat) : List Src → List Src → Prop
  | nil : WrapsL N [] []
  | cons {t t' : Src} {ts ts' : List Src} : Wraps N t t' → WrapsL N ts ts' → WrapsL N (t :: ts) (t' :: ts')

/-- what `append_to_abstract_graph` does to the abstract graph, as far as an earlier kernel can see -/
structure Extends (A A' : PE) : Prop where
  args : A'.argTys.length = A.argTys.length
  sw : ∃ ext, A'.switches = A.switches ++ ext
  lookup : ∀ (id : String) (ai : Nat), A.lookup id = some ai → A'.lookup id = some ai
  node : ∀ (j : Nat) (n : Node), A.nodes[j]? = some n → ∃ n' : Node, A'.nodes[j]? = some n' ∧ n'.id = n.id ∧
    WrapsL A.switches.length n.operands n'.operands
  yld : Wraps A.switches.length A.yld A'.yld

theorem follow_base {A A' : PE} (h : Extends A A') (m : Nat → Nat) : ∀ (t : Src) (l : Leaf),
    A.follow m t = some l → A'.follow m t = some l
  | .arg _, _, hf => hf
  | .node j, l, hf => by
    simp only [PE.follow] at hf ⊢
    cases hn : A.nodes[j]? with
    | none => simp [hn] at hf
    | some n =>
      obtain ⟨n', hn', hid, _⟩ := h.node j n hn
      simp only [hn, Option.map_some] at hf
      simp only [hn', Option.map_some, hid]; exact hf
  | .mux s a b, l, hf => by
    simp only [PE.follow] at hf ⊢
    split
    next hs => rw [if_pos hs] at hf; exact follow_base h m b l hf
    next hs => rw [if_neg hs] at hf; exact follow_base h m a l hf

theorem follow_wraps {A A' : PE} (h : Extends A A') (m : Nat → Nat) (hm : ∀ s, A.switches.length ≤ s → m s ≠ 1)
    {t t' : Src} (hw : Wraps A.switches.length t t') (l : Leaf) (hf : A.follow m t = some l) :
    A'.follow m t' = some l := by
  induction hw with
  | refl => exact follow_base h m _ l hf
  | step s r _ hs ih =>
    simp only [PE.follow, if_neg (hm s hs)]
    exact ih

theorem validOperands_ext {K A A' : PE} (h : Extends A A') (m : Nat → Nat)
    (hm : ∀ s, A.switches.length ≤ s → m s ≠ 1) : ∀ (ks as as' : List Src), WrapsL A.switches.length as as' →
    validOperands K A m ks as = .ok true → validOperands K A' m ks as' = .ok true
  | [], _, _, .nil, hv => hv
  | _ :: _, _, _, .nil, hv => by simp [validOperands] at hv
  | [], _, _, .cons _ _, hv => by simp [validOperands] at hv
  | k :: ks, _, _, .cons (t := a) (t' := a') (ts := as) (ts' := as') hw hws, hv => by
    unfold validOperands at hv ⊢
    split at hv
    · simp at hv
    next l hl =>
      split at hv
      next hf =>
        rw [if_pos (follow_wraps h m hm hw l hf)]
        exact validOperands_ext h m hm ks as as' hws hv
      · simp at hv

theorem validNodes_ext {K A A' : PE} (h : Extends A A') (m : Nat → Nat)
    (hm : ∀ s, A.switches.length ≤ s → m s ≠ 1) : ∀ (ns : List Node),
    validNodes K A m ns = .ok true → validNodes K A' m ns = .ok true
  | [], _ => rfl
  | k :: r, hv => by
    unfold validNodes at hv ⊢
    split at hv
    · simp at hv
    next ai hai =>
      rw [h.lookup _ _ hai]
      split at hv
      · simp at hv
      next a ha =>
        obtain ⟨a', ha', _, hw⟩ := h.node ai a ha
        simp only [ha']
        split at hv
        · simp at hv
        · simp at hv
        next hvo =>
          rw [validOperands_ext h m hm _ _ _ hw hvo]
          exact validNodes_ext h m hm r hv

theorem validMapping_ext {K A A' : PE} (h : Extends A A') (m : Nat → Nat)
    (hm : ∀ s, A.switches.length ≤ s → m s ≠ 1) (hv : validMapping K A m = .ok true) :
    validMapping K A' m = .ok true := by
  obtain ⟨hn, hy⟩ := validMapping_true hv
  unfold validMapping
  rw [validNodes_ext h m hm _ hn]
  exact validOperands_ext h m hm _ _ _ (.cons h.yld .nil) hy

/-! ### `valid_mapping` does not raise once it has succeeded for one assignment -/

theorem validOperands_total (K A : PE) (m m' : Nat → Nat) : ∀ (ks as : List Src),
    validOperands K A m ks as = .ok true → ∃ b, validOperands K A m' ks as = .ok b
  | [], [], _ => ⟨true, rfl⟩
  | [], _ :: _, h => by simp [validOperands] at h
  | _ :: _, [], h => by simp [validOperands] at h
  | k :: ks, a :: as, h => by
    unfold validOperands at h ⊢
    split at h
    · simp at h
    next l hl =>
      split at h
      next =>
        split
        · exact validOperands_total K A m m' ks as h
        · exact ⟨false, rfl⟩
      · simp at h

theorem validNodes_total (K A : PE) (m m' : Nat → Nat) : ∀ (ns : List Node),
    validNodes K A m ns = .ok true → ∃ b, validNodes K A m' ns = .ok b
  | [], _ => ⟨true, rfl⟩
  | k :: r, h => by
    unfold validNodes at h ⊢
    split at h
    · simp at h
    next ai hai =>
      split at h
      · simp at h
      next a ha =>
        split at h
        · simp at h
        · simp at h
        next hvo =>
          obtain ⟨b, hb⟩ := validOperands_total K A m m' _ _ hvo
          rw [hb]
          cases b with
          | false => exact ⟨false, rfl⟩
          | true => exact validNodes_total K A m m' r h

theorem validMapping_total {K A : PE} {m : Nat → Nat} (hv : validMapping K A m = .ok true) (m' : Nat → Nat) :
    ∀ e, validMapping K A m' ≠ .error e := by
  obtain ⟨hn, hy⟩ := validMapping_true hv
  obtain ⟨b, hb⟩ := validNodes_total K A m m' _ hn
  obtain ⟨c, hc⟩ := validOperands_total K A m m' _ _ hy
  intro e
  unfold validMapping
  rw [hb]
  cases b with
  | false => simp
  | true => simp [hc]

/-! ### the mux switches collected by the local pass, and the frame of the search -/

theorem search_frame (check : (Nat → Nat) → Except Err Bool) : ∀ (l : List Nat) (m0 sol : Nat → Nat),
    search check l m0 = .ok (some sol) → ∀ x, x ∉ l → sol x = m0 x
  | [], m0, sol, h, x, _ => by
    unfold search at h
    split at h
    · simp at h
    · injection h with h; injection h with h; subst h; rfl
    · simp at h
  | s :: r, m0, sol, h, x, hx => by
    have hxs : x ≠ s := fun e => hx (by simp [e])
    have hxr : x ∉ r := fun e => hx (by simp [e])
    unfold search at h
    split at h
    · simp at h
    next sol' h1 =>
      injection h with h; injection h with h; subst h
      rw [search_frame check r _ _ h1 x hxr]; simp [upd, hxs]
    next =>
      rw [search_frame check r _ _ h x hxr]; simp [upd, hxs]

theorem mem_muxSwitches (A K : PE) : ∀ (us : List SwUse) (p : Nat) (pre : List Pre),
    localChoices A K us p = .ok pre → ∀ s, s ∈ muxSwitches pre ↔ ∃ i, us[i]? = some .mux ∧ s = p + i
  | [], p, pre, h, s => by
    simp [localChoices] at h; subst h; simp [muxSwitches]
  | u :: r, p, pre, h, s => by
    unfold localChoices at h
    split at h
    · simp at h
    next q hq =>
      split at h
      · simp at h
      next ps hps =>
        injection h with h; subst h
        have ih := mem_muxSwitches A K r (p + 1) ps hps s
        have shift : (∃ i, r[i]? = some SwUse.mux ∧ s = p + 1 + i) ↔ ∃ i, (u :: r)[i + 1]? = some SwUse.mux ∧ s = p + (i + 1) := by
          constructor
          · rintro ⟨i, h1, h2⟩; exact ⟨i, by simpa using h1, by omega⟩
          · rintro ⟨i, h1, h2⟩; exact ⟨i, by simpa using h1, by omega⟩
        cases u with
        | mux =>
          simp only [localChoice] at hq; injection hq with hq; subst hq
          simp only [muxSwitches, List.mem_cons, ih, shift]
          constructor
          · rintro (rfl | ⟨i, h1, h2⟩)
            · exact ⟨0, by simp, by omega⟩
            · exact ⟨i + 1, h1, h2⟩
          · rintro ⟨i, h1, h2⟩
            cases i with
            | zero => left; omega
            | succ i => right; exact ⟨i, h1, h2⟩
        | choose j =>
          have hq' : ∀ s', q ≠ .muxP s' := by
            intro s' e; subst e
            simp only [localChoice] at hq
            split at hq
            · simp at hq
            · split at hq
              · simp at hq
              · split at hq
                · simp at hq
                · split at hq
                  · simp at hq
                  · split at hq
                    · simp at hq
                    · split at hq
                      · simp at hq
                      · simp at hq
          have hms : muxSwitches (q :: ps) = muxSwitches ps := by
            cases q with
            | skip => rfl
            | val n => rfl
            | muxP s' => exact absurd rfl (hq' s')
          rw [hms, ih, shift]
          constructor
          · rintro ⟨i, h1, h2⟩; exact ⟨i + 1, h1, h2⟩
          · rintro ⟨i, h1, h2⟩
            cases i with
            | zero => simp at h1
            | succ i => exact ⟨i, h1, h2⟩

end SnaxVerif.Phs
