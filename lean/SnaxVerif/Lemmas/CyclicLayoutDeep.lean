import SnaxVerif.Lemmas.CyclicLayout
import SnaxVerif.Model.CyclicLayoutMaps
/-!
Deepening round for C09: where exceptions can come from (and hence totality on well-formed inputs),
the access granularity of every stride the walk creates, and the full specification of
`TiledStride.canonicalize` / `TiledStridedLayout.canonicalize` (normal form, idempotence).
-/
namespace SnaxVerif.CyclicLayout

/-! ## origin of exceptions -/

theorem firstNonzero_lt : ∀ (col : List Int) (d : Nat), firstNonzero col = some d → d < col.length
  | [], _, h => by simp [firstNonzero] at h
  | c :: r, d, h => by
    simp only [firstNonzero] at h
    split at h
    · cases h; simp
    · cases hr : firstNonzero r with
      | none => rw [hr] at h; simp at h
      | some d' =>
        rw [hr] at h; simp at h; subst h
        have := firstNonzero_lt r d' hr
        simp; omega

theorem ensure_error {sp w : Option Nat} {cur k : Nat} {e : Err}
    (h : ensureGranularity sp w cur k = .error e) : e = .assertion ∧ (sp = none ∨ w = none) := by
  unfold ensureGranularity at h
  split at h
  · cases h
  · split at h
    · cases h; exact ⟨rfl, Or.inr rfl⟩
    · split at h
      · cases h; exact ⟨rfl, Or.inl rfl⟩
      · cases h

/-- the two ways an exception can leave the loop body -/
def WalkErr (c : Cfg) (e : Err) : Prop :=
  (e = .assertion ∧ (c.spatial = none ∨ c.elBits = none)) ∨
  (e = .indexError ∧ c.shape.length < c.rows.length)

theorem stepCol_length {c : Cfg} {S S' : Layout} {cur cur' k b : Nat} {col : List Int}
    (h : stepCol c (S, cur) k b col = .ok (S', cur')) : S'.length = S.length := by
  rcases stepCol_cases h with ⟨h1, _⟩ | ⟨d, l, n, cu, _, _, _, h1, _⟩
  · rw [h1]
  · rw [h1, List.length_set]

theorem stepCol_error {c : Cfg} {S : Layout} {cur k b : Nat} {col : List Int} {e : Err}
    (hlen : S.length = c.shape.length) (hcol : col.length = c.rows.length)
    (h : stepCol c (S, cur) k b col = .error e) : WalkErr c e := by
  unfold stepCol at h
  split at h
  · cases h
  · rename_i d hd
    split at h
    · rename_i e' he
      cases h
      exact Or.inl (ensure_error he)
    · split at h
      · cases h
      · rename_i hnone
        cases h
        refine Or.inr ⟨rfl, ?_⟩
        have hdlt := firstNonzero_lt col d hd
        rcases Nat.lt_or_ge d S.length with hlt | hge
        · exfalso
          exact hnone S[d] (c.shape[d]'(hlen ▸ hlt)) (List.getElem?_eq_getElem hlt)
            (List.getElem?_eq_getElem (hlen ▸ hlt))
        · omega

theorem walk_error {c : Cfg} :
    ∀ (cols : List (Nat × List Int)) (k : Nat) (S : Layout) (cur : Nat) (e : Err),
      S.length = c.shape.length → (∀ p ∈ cols, p.2.length = c.rows.length) →
      walk c cols k (S, cur) = .error e → WalkErr c e
  | [], _, _, _, _, _, _, h => by simp [walk] at h
  | (b, col) :: rest, k, S, cur, e, hlen, hcols, h => by
    simp only [walk] at h
    split at h
    · rename_i e' he
      cases h
      exact stepCol_error hlen (hcols (b, col) (by simp)) he
    · rename_i st' hst
      obtain ⟨S1, cur1⟩ := st'
      exact walk_error rest (k + 1) S1 cur1 e (by rw [stepCol_length hst, hlen])
        (fun p hp => hcols p (by simp [hp])) h

theorem revCols_length (c : Cfg) : ∀ p ∈ revCols c, p.2.length = c.rows.length := by
  intro p hp
  unfold revCols at hp
  rw [List.mem_reverse] at hp
  have := (List.of_mem_zip hp).2
  simp only [List.mem_map] at this
  obtain ⟨j, _, hj⟩ := this
  rw [← hj]; simp [column]

theorem cyclicLayout_error {fixed : Bool} {c : Cfg} {e : Err} (h : cyclicLayout fixed c = .error e) :
    WalkErr c e := by
  unfold cyclicLayout layoutPre at h
  split at h
  · rename_i e' he
    cases h
    split at he
    · rename_i e'' hw
      cases he
      exact walk_error (revCols c) 0 _ _ e (by simp [initState]) (revCols_length c) hw
    · cases he
  · cases h

theorem mapE_error {α β ε : Type} {f : α → Except ε β} : ∀ {xs : List α} {e : ε},
    mapE f xs = .error e → ∃ x ∈ xs, f x = .error e
  | [], _, h => by simp [mapE] at h
  | x :: xs, e, h => by
    simp only [mapE] at h
    split at h
    · rename_i e' he
      cases h; exact ⟨x, by simp, he⟩
    · split at h
      · rename_i e' he
        cases h
        obtain ⟨y, hy, hfy⟩ := mapE_error he
        exact ⟨y, by simp [hy], hfy⟩
      · cases h

/-- where an exception of the whole rewrite can come from, per exception class -/
def ErrOrigin (spatial : Option Nat) (bounds : List Int) (ops : List Operand) : Err → Prop
  | .valueError => (∃ b ∈ bounds, b ≤ 0) ∨ ∃ o ∈ ops, bounds.length ≠ o.ndims
  | .assertion => spatial = none ∨ ∃ o ∈ ops, o.elBits = none
  | .indexError => ∃ o ∈ ops, o.shape.length < o.rows.length
  | .outsideModel => ∃ o ∈ ops, 0 ∈ o.shape ∨ ∃ r ∈ o.rows, r.length ≠ o.ndims

theorem checkPattern_error {bounds : List Int} {o : Operand} {e : Err}
    (h : checkPattern bounds o = .error e) :
    e = .valueError ∧ ((∃ b ∈ bounds, b ≤ 0) ∨ bounds.length ≠ o.ndims) := by
  unfold checkPattern at h
  split at h
  · rename_i hb
    cases h
    obtain ⟨b, hb1, hb2⟩ := List.any_eq_true.mp hb
    exact ⟨rfl, Or.inl ⟨b, hb1, by simpa using hb2⟩⟩
  · split at h
    · rename_i hl; cases h; exact ⟨rfl, Or.inr hl⟩
    · cases h

theorem operandLayout_error {fixed tiled : Bool} {spatial : Option Nat} {bounds : List Int} {o : Operand}
    {e : Err} (h : operandLayout fixed tiled spatial bounds o = .error e) :
    (e = .outsideModel ∧ (0 ∈ o.shape ∨ ∃ r ∈ o.rows, r.length ≠ o.ndims)) ∨
    (e = .assertion ∧ (spatial = none ∨ o.elBits = none)) ∨
    (e = .indexError ∧ o.shape.length < o.rows.length) := by
  unfold operandLayout at h
  split at h
  · rename_i hchk
    cases h
    refine Or.inl ⟨rfl, ?_⟩
    simp only [Bool.or_eq_true, List.any_eq_true, decide_eq_true_eq] at hchk
    rcases hchk with ⟨n, hn, h0⟩ | ⟨r, hr, hl⟩
    · exact Or.inl (h0 ▸ hn)
    · exact Or.inr ⟨r, hr, hl⟩
  · rcases cyclicLayout_error h with h1 | h1
    · exact Or.inr (Or.inl h1)
    · exact Or.inr (Or.inr h1)

theorem rewriteOp_error {fixed tiled : Bool} {spatial : Option Nat} {bounds : List Int} {ops : List Operand}
    {e : Err} (h : rewriteOp fixed tiled spatial bounds ops = .error e) : ErrOrigin spatial bounds ops e := by
  unfold rewriteOp at h
  split at h
  · cases h
  · split at h
    · rename_i e' he
      cases h
      obtain ⟨o, ho, hc⟩ := mapE_error he
      have hcp := checkPattern_error hc
      have he' := hcp.1
      subst he'
      rcases hcp.2 with hc2 | hc2
      · exact Or.inl hc2
      · exact Or.inr ⟨o, ho, hc2⟩
    · split at h
      · rename_i e' he
        cases h
        obtain ⟨o, ho, hc⟩ := mapE_error he
        rcases operandLayout_error hc with ⟨he', h1⟩ | ⟨he', h1⟩ | ⟨he', h1⟩
        · subst he'; exact ⟨o, ho, h1⟩
        · subst he'
          rcases h1 with h1 | h1
          · exact Or.inl h1
          · exact Or.inr ⟨o, ho, h1⟩
        · subst he'; exact ⟨o, ho, h1⟩
      · cases h

/-- inside the property's quantifier: an accelerator template is known, all bounds are positive and
as many as the pattern has dimensions, element types have a fixed width, the pattern has no more
results than the memref has dimensions, the shape is static and positive, the matrix is rectangular -/
def WellFormed (spatial : Option Nat) (bounds : List Int) (ops : List Operand) : Prop :=
  spatial ≠ none ∧ (∀ b ∈ bounds, 0 < b) ∧
  ∀ o ∈ ops, o.elBits ≠ none ∧ o.ndims = bounds.length ∧ o.rows.length ≤ o.shape.length ∧
    (∀ r ∈ o.rows, r.length = o.ndims) ∧ ∀ n ∈ o.shape, 0 < n

theorem rewriteOp_total {fixed tiled : Bool} {spatial : Option Nat} {bounds : List Int} {ops : List Operand}
    (hwf : WellFormed spatial bounds ops) : ∃ r, rewriteOp fixed tiled spatial bounds ops = .ok r := by
  cases hr : rewriteOp fixed tiled spatial bounds ops with
  | ok r => exact ⟨r, rfl⟩
  | error e =>
    exfalso
    have ho := rewriteOp_error hr
    obtain ⟨hsp, hb, hops⟩ := hwf
    cases e with
    | valueError =>
      rcases ho with ⟨b, hb1, hb2⟩ | ⟨o, ho1, ho2⟩
      · have := hb b hb1; omega
      · exact ho2 (hops o ho1).2.1.symm
    | assertion =>
      rcases ho with h1 | ⟨o, ho1, ho2⟩
      · exact hsp h1
      · exact (hops o ho1).1 ho2
    | indexError =>
      obtain ⟨o, ho1, ho2⟩ := ho
      have := (hops o ho1).2.2.1; omega
    | outsideModel =>
      obtain ⟨o, ho1, ho2⟩ := ho
      rcases ho2 with h0 | ⟨r, hr1, hr2⟩
      · have := (hops o ho1).2.2.2.2 0 h0; omega
      · exact hr2 ((hops o ho1).2.2.2.1 r hr1)


/-! ## access granularity of the strides the walk creates -/

/-- `stepCol_cases` with the padded stride tied to `ensure_access_granularity` -/
theorem stepCol_cases' {c : Cfg} {S S' : Layout} {cur cur' k b : Nat} {col : List Int}
    (h : stepCol c (S, cur) k b col = .ok (S', cur')) :
    (S' = S ∧ cur' = cur) ∨
    ∃ (d : Nat) (l : List Stride) (n cu : Nat), S[d]? = some l ∧ c.shape[d]? = some n ∧
      ensureGranularity c.spatial c.elBits cur k = .ok cu ∧
      S' = S.set d (⟨cu, layoutBound c d (prodNZ l) n b⟩ :: l) ∧ cur' = cu * layoutBound c d (prodNZ l) n b := by
  unfold stepCol at h
  split at h
  · cases h; exact Or.inl ⟨rfl, rfl⟩
  · rename_i d _
    split at h
    · cases h
    · rename_i cu hcu
      split at h
      · rename_i l n hl hn
        simp only [] at h
        cases h
        exact Or.inr ⟨d, l, n, cu, hl, hn, hcu, rfl, rfl⟩
      · cases h

theorem ensure_granular {sp w cur k c : Nat} (h : ensureGranularity (some sp) (some w) cur k = .ok c) :
    c = 1 ∨ gran sp w k ∣ c := by
  unfold ensureGranularity at h
  split at h
  · rename_i h1; cases h; exact Or.inl h1
  · cases h; exact Or.inr (pad_dvd _ _ (gran_dvd_64 sp w k))

/-- the coarsest granularity the code ever asks for an element width: 8 elements for 8-bit types,
2 elements otherwise (the temporal 16 is a multiple of it) -/
def minGran (w : Nat) : Nat := if w = 8 then 8 else 2

theorem minGran_dvd_gran (sp w k : Nat) : minGran w ∣ gran sp w k := by
  unfold minGran gran
  split <;> split <;> simp_all <;> decide

def Granular (w : Nat) (S : Layout) : Prop := ∀ l ∈ S, ∀ p ∈ l, p.step = 1 ∨ minGran w ∣ p.step

theorem granular_stepCol {c : Cfg} {sp w : Nat} (hs : c.spatial = some sp) (hw : c.elBits = some w)
    {S S' : Layout} {cur cur' k b : Nat} {col : List Int}
    (hG : Granular w S) (h : stepCol c (S, cur) k b col = .ok (S', cur')) : Granular w S' := by
  rcases stepCol_cases' h with ⟨h1, _⟩ | ⟨d, l, n, cu, hl, _, hcu, h1, _⟩
  · rw [h1]; exact hG
  · subst h1
    rw [hs, hw] at hcu
    intro l' hl' p hp
    rcases List.mem_or_eq_of_mem_set hl' with h | h
    · exact hG l' h p hp
    · subst h
      rcases List.mem_cons.mp hp with h | h
      · subst h
        rcases ensure_granular hcu with h | h
        · exact Or.inl h
        · exact Or.inr (Nat.dvd_trans (minGran_dvd_gran sp w k) h)
      · exact hG l (List.mem_of_getElem? hl) p h

theorem granular_walk {c : Cfg} {sp w : Nat} (hs : c.spatial = some sp) (hw : c.elBits = some w) :
    ∀ (cols : List (Nat × List Int)) (k : Nat) (S : Layout) (cur : Nat) (S' : Layout) (cur' : Nat),
      Granular w S → walk c cols k (S, cur) = .ok (S', cur') → Granular w S'
  | [], _, _, _, _, _, hG, h => by simp only [walk] at h; cases h; exact hG
  | (b, col) :: rest, k, S, cur, S', cur', hG, h => by
    simp only [walk] at h
    split at h
    · cases h
    · rename_i st' hst
      obtain ⟨S1, cur1⟩ := st'
      exact granular_walk hs hw rest (k + 1) S1 cur1 S' cur' (granular_stepCol hs hw hG hst) h

theorem granular_init (w : Nat) (shape : List Nat) : Granular w (initState shape).1 := by
  intro l hl p hp
  simp [initState] at hl
  rw [hl.2] at hp; cases hp

/-! ## `TiledStride.canonicalize`: normal form and idempotence -/

/-- the condition under which the code squashes the outer stride `s` into the inner stride `h` -/
def Squash (h s : Stride) : Prop := h.step ≠ 0 ∧ h.bound ≠ 0 ∧ h.step * h.bound = s.step ∧ s.bound ≠ 0

/-- canonical stride lists: no unit bound above the innermost stride, no squashable neighbours -/
def Canonical : List Stride → Prop
  | [] => True
  | [_] => True
  | s :: h :: t => s.bound ≠ 1 ∧ ¬ Squash h s ∧ Canonical (h :: t)

theorem canonical_tail {s : Stride} {r : List Stride} (h : Canonical (s :: r)) : Canonical r := by
  cases r with
  | nil => trivial
  | cons h t => exact h.2.2

theorem canon_canonical : ∀ l, Canonical (canon l)
  | [] => trivial
  | s :: r => by
    have ih := canon_canonical r
    simp only [canon]
    split
    · trivial
    · rename_i h t hc
      rw [hc] at ih
      split
      · exact ih
      · rename_i hb1
        split
        · rename_i hsq
          obtain ⟨_, hhb, _, hsb⟩ := hsq
          cases t with
          | nil => trivial
          | cons h2 t2 =>
            obtain ⟨hb, hns, hct⟩ := ih
            refine ⟨?_, ?_, hct⟩
            · show h.bound * s.bound ≠ 1
              intro hm
              have := Nat.eq_one_of_mul_eq_one_right hm
              exact hb this
            · intro hq
              exact hns ⟨hq.1, hq.2.1, hq.2.2.1, hhb⟩
        · rename_i hsq
          exact ⟨hb1, hsq, ih⟩

theorem canon_of_canonical : ∀ l, Canonical l → canon l = l
  | [], _ => rfl
  | [s], _ => by simp [canon]
  | s :: h :: t, hc => by
    obtain ⟨hb, hns, hct⟩ := hc
    have ih := canon_of_canonical (h :: t) hct
    simp only [canon] at ih ⊢
    rw [ih]
    simp only []
    rw [if_neg hb]
    exact if_neg hns

/-- `canonicalize` is idempotent -/
theorem canon_idem (l : List Stride) : canon (canon l) = canon l :=
  canon_of_canonical _ (canon_canonical l)

theorem canon_length_le : ∀ l, (canon l).length ≤ l.length
  | [] => by simp [canon]
  | s :: r => by
    have ih := canon_length_le r
    simp only [canon]
    split
    · simp
    · rename_i h t hc
      rw [hc] at ih
      split
      · simp at ih ⊢; omega
      · split <;> simp at ih ⊢ <;> omega

/-! ## `TiledStridedLayout.canonicalize` (every dimension; the offset is passed through) -/

theorem inbox_map_canon {S : Layout} {idx : List Nat} : InBox (S.map canon) idx ↔ InBox S idx := by
  constructor
  · intro h
    refine ⟨by rw [h.1, List.length_map], ?_⟩
    intro d l i hl hi
    have := h.2 d (canon l) i (by rw [List.getElem?_map, hl]; rfl) hi
    rwa [prodB_canon] at this
  · intro h
    refine ⟨by rw [h.1, List.length_map], ?_⟩
    intro d l i hl hi
    rw [List.getElem?_map] at hl
    cases hS : S[d]? with
    | none => rw [hS] at hl; cases hl
    | some l0 =>
      rw [hS] at hl; simp at hl; subst hl
      rw [prodB_canon]; exact h.2 d l0 i hS hi

/-- canonicalising a layout neither creates nor removes aliasing -/
theorem inj_map_canon {S : Layout} : Inj (S.map canon) ↔ Inj S := by
  constructor
  · intro h idx idx' hb hb' heq
    apply h idx idx' (inbox_map_canon.mpr hb) (inbox_map_canon.mpr hb')
    rw [addr_map_canon S idx hb.2, addr_map_canon S idx' hb'.2]; exact heq
  · intro h idx idx' hb hb' heq
    have hb0 := inbox_map_canon.mp hb
    have hb0' := inbox_map_canon.mp hb'
    rw [addr_map_canon S idx hb0.2, addr_map_canon S idx' hb0'.2] at heq
    exact h idx idx' hb0 hb0' heq


/-! ## every step and bound of a chosen layout is positive (nothing prints as the dynamic `?`) -/

def AllPos (l : List Stride) : Prop := ∀ p ∈ l, 0 < p.step ∧ 0 < p.bound

def PosInv (S : Layout) (cur : Nat) : Prop := 0 < cur ∧ ∀ l ∈ S, AllPos l

theorem pos_push {shape : List Nat} {S : Layout} {cur d n c lb : Nat} {l : List Stride}
    (hpos : ∀ n ∈ shape, 0 < n) (hS : S[d]? = some l) (hn : shape[d]? = some n)
    (hc : cur ≤ c) (hlb : lb * prodB l ∣ n) (hP : PosInv S cur) :
    PosInv (S.set d (⟨c, lb⟩ :: l)) (c * lb) := by
  have hnpos : 0 < n := hpos n (List.mem_of_getElem? hn)
  have hmul : 0 < lb * prodB l := Nat.pos_of_dvd_of_pos hlb hnpos
  have hlbpos : 0 < lb := by
    rcases Nat.eq_zero_or_pos lb with h0 | h0
    · rw [h0] at hmul; simp at hmul
    · exact h0
  have hcpos : 0 < c := Nat.lt_of_lt_of_le hP.1 hc
  refine ⟨Nat.mul_pos hcpos hlbpos, ?_⟩
  intro l' hl' p hp
  rcases List.mem_or_eq_of_mem_set hl' with h | h
  · exact hP.2 l' h p hp
  · subst h
    rcases List.mem_cons.mp hp with h | h
    · subst h; exact ⟨hcpos, hlbpos⟩
    · exact hP.2 l (List.mem_of_getElem? hS) p h

theorem pos_stepCol {c : Cfg} {S S' : Layout} {cur cur' k b : Nat} {col : List Int}
    (hpos : ∀ n ∈ c.shape, 0 < n) (hI : Inv c.shape S cur) (hP : PosInv S cur)
    (h : stepCol c (S, cur) k b col = .ok (S', cur')) : PosInv S' cur' := by
  rcases stepCol_cases h with ⟨h1, h2⟩ | ⟨d, l, n, cu, hl, hn, hcu, h1, h2⟩
  · subst h1 h2; exact hP
  · subst h1 h2
    have hdvd := hI.dvd d l n hl hn
    have hPpos : 0 < prodB l := Nat.pos_of_dvd_of_pos hdvd (hpos n (List.mem_of_getElem? hn))
    apply pos_push hpos hl hn hcu _ hP
    rw [prodNZ_eq_prodB l hPpos]
    exact layoutBound_dvd c d (prodB l) n b hdvd

theorem pos_walk {c : Cfg} (hpos : ∀ n ∈ c.shape, 0 < n) :
    ∀ (cols : List (Nat × List Int)) (k : Nat) (S : Layout) (cur : Nat) (S' : Layout) (cur' : Nat),
      Inv c.shape S cur → PosInv S cur → walk c cols k (S, cur) = .ok (S', cur') → PosInv S' cur'
  | [], _, _, _, _, _, _, hP, h => by simp only [walk] at h; cases h; exact hP
  | (b, col) :: rest, k, S, cur, S', cur', hI, hP, h => by
    simp only [walk] at h
    split at h
    · cases h
    · rename_i st' hst
      obtain ⟨S1, cur1⟩ := st'
      exact pos_walk hpos rest (k + 1) S1 cur1 S' cur' (inv_stepCol hpos hI hst) (pos_stepCol hpos hI hP hst) h

theorem pos_fillStep {shape : List Nat} (hpos : ∀ n ∈ shape, 0 < n) (st : Layout × Nat) (d : Nat)
    (hI : Inv shape st.1 st.2) (hP : PosInv st.1 st.2) :
    PosInv (fillStep shape st d).1 (fillStep shape st d).2 := by
  obtain ⟨S, cur⟩ := st
  simp only at hI hP
  unfold fillStep
  simp only []
  split
  · rename_i l n hl hn
    have hnpos : 0 < n := hpos n (List.mem_of_getElem? hn)
    have hdvd := hI.dvd d l n hl hn
    have hPpos : 0 < prodB l := Nat.pos_of_dvd_of_pos hdvd hnpos
    rw [prodNZ_eq_prodB l hPpos]
    split
    · have hrem : (n + prodB l - 1) / prodB l * prodB l = n := by
        rw [ceil_of_dvd hPpos hdvd, Nat.div_mul_cancel hdvd]
      exact pos_push hpos hl hn (Nat.le_refl _) (by rw [hrem]; exact Nat.dvd_refl _) hP
    · exact hP
  · exact hP

theorem pos_fill_fold {shape : List Nat} (hpos : ∀ n ∈ shape, 0 < n) :
    ∀ (ds : List Nat) (st : Layout × Nat), Inv shape st.1 st.2 → PosInv st.1 st.2 →
      PosInv (ds.foldl (fillStep shape) st).1 (ds.foldl (fillStep shape) st).2
  | [], _, _, hP => hP
  | d :: ds, st, hI, hP => by
    simp only [List.foldl]
    exact pos_fill_fold hpos ds _ (fillStep_inv hpos st d hI).1 (pos_fillStep hpos st d hI hP)

theorem canon_allpos : ∀ l, AllPos l → AllPos (canon l)
  | [], _ => by intro p hp; simp [canon] at hp
  | s :: r, h => by
    have ih := canon_allpos r (fun p hp => h p (by simp [hp]))
    simp only [canon]
    split
    · intro p hp; simp at hp; subst hp; exact h p (by simp)
    · rename_i hh t hc
      rw [hc] at ih
      split
      · exact ih
      · split
        · intro p hp
          rcases List.mem_cons.mp hp with hp | hp
          · subst hp
            exact ⟨(ih hh (by simp)).1, Nat.mul_pos (ih hh (by simp)).2 (h s (by simp)).2⟩
          · exact ih p (by simp [hp])
        · intro p hp
          rcases List.mem_cons.mp hp with hp | hp
          · subst hp; exact h p (by simp)
          · exact ih p hp

/-- all steps and bounds of a chosen layout are positive -/
theorem cyclicLayout_pos {c : Cfg} {L : Layout} (hpos : ∀ n ∈ c.shape, 0 < n)
    (h : cyclicLayout true c = .ok L) : ∀ l ∈ L, AllPos l := by
  unfold cyclicLayout layoutPre at h
  split at h
  · cases h
  · rename_i S hS
    split at hS
    · cases hS
    · rename_i st hst
      obtain ⟨S1, cur1⟩ := st
      cases hS; cases h
      have hI := inv_walk hpos (revCols c) 0 _ _ S1 cur1 (inv_init c.shape) hst
      have hP0 : PosInv (initState c.shape).1 (initState c.shape).2 := by
        refine ⟨by simp [initState], ?_⟩
        intro l hl p hp
        simp [initState] at hl
        rw [hl.2] at hp; cases hp
      have hP := pos_walk hpos (revCols c) 0 _ _ S1 cur1 (inv_init c.shape) hP0 hst
      have hP2 := pos_fill_fold hpos (List.range c.shape.length) (S1, cur1) hI hP
      simp only [if_true]
      intro l hl
      simp only [List.mem_map] at hl
      obtain ⟨l0, hl0, rfl⟩ := hl
      exact canon_allpos l0 (hP2.2 l0 hl0)

/-! ## the front end: from the op's affine maps -/

theorem rewriteOp_spec {tiled : Bool} {spatial : Option Nat} {bounds : List Int} {ops : List Operand}
    {Ls : List Layout} (h : rewriteOp true tiled spatial bounds ops = .ok (some Ls)) :
    Ls.length = ops.length ∧
    ∀ (i : Nat) (o : Operand) (L : Layout), ops[i]? = some o → Ls[i]? = some L →
      Covers L o.shape ∧ InjectiveOn L o.shape := by
  unfold rewriteOp at h
  split at h
  · cases h
  · split at h
    · cases h
    · split at h
      · cases h
      · rename_i ls hls
        cases h
        obtain ⟨hlen, hall⟩ := mapE_ok hls
        exact ⟨hlen, fun i o L ho hL => operandLayout_spec (hall i o L ho hL)⟩

theorem fromMap_shape {n : Nat} {rs : List AExpr} {t : AT.Transform} (h : AT.fromMap n rs = .ok t) :
    t.A.length = rs.length ∧ ∀ r ∈ t.A, r.length = n := by
  unfold AT.fromMap at h
  split at h
  · cases h
  · split at h
    · cases h
    · cases h
      refine ⟨by simp, ?_⟩
      intro r hr
      simp only [List.mem_map] at hr
      obtain ⟨e, _, he⟩ := hr
      rw [← he]; simp

theorem patternOperand_ok {bounds : List Int} {o : OperandM} {o' : Operand}
    (h : patternOperand bounds o = .ok o') :
    o'.shape = o.shape ∧ o'.elBits = o.elBits ∧ o'.hasTsl = o.hasTsl ∧ o'.ndims = o.ndims ∧
    o'.rows.length = o.exprs.length ∧ ∀ r ∈ o'.rows, r.length = o.ndims := by
  unfold patternOperand at h
  split at h
  · cases h
  · split at h
    · cases h
    · cases h
    · rename_i t ht
      split at h
      · cases h
      · cases h
        obtain ⟨h1, h2⟩ := fromMap_shape ht
        exact ⟨rfl, rfl, rfl, rfl, h1, h2⟩

theorem rewriteOpMaps_spec {tiled : Bool} {spatial : Option Nat} {bounds : List Int} {ops : List OperandM}
    {Ls : List Layout} (h : rewriteOpMaps true tiled spatial bounds ops = .ok (some Ls)) :
    Ls.length = ops.length ∧
    ∀ (i : Nat) (o : OperandM) (L : Layout), ops[i]? = some o → Ls[i]? = some L →
      Covers L o.shape ∧ InjectiveOn L o.shape := by
  unfold rewriteOpMaps at h
  split at h
  · cases h
  · split at h
    · cases h
    · rename_i ops' hops
      obtain ⟨hlen, hall⟩ := mapE_ok hops
      obtain ⟨hl2, hall2⟩ := rewriteOp_spec h
      refine ⟨by rw [hl2, hlen], ?_⟩
      intro i o L ho hL
      have hi : i < ops'.length := by rw [hlen]; exact lt_length_of_getElem? ho
      have ho' : ops'[i]? = some ops'[i] := List.getElem?_eq_getElem hi
      have hp := hall i o _ ho ho'
      rw [← (patternOperand_ok hp).1]
      exact hall2 i _ L ho' hL

theorem mapE_total {α β ε : Type} {f : α → Except ε β} : ∀ {xs : List α},
    (∀ x ∈ xs, ∃ y, f x = .ok y) → ∃ ys, mapE f xs = .ok ys
  | [], _ => ⟨[], rfl⟩
  | x :: xs, h => by
    obtain ⟨y, hy⟩ := h x (by simp)
    obtain ⟨ys, hys⟩ := mapE_total (xs := xs) (fun x' hx' => h x' (by simp [hx']))
    exact ⟨y :: ys, by simp [mapE, hy, hys]⟩

/-- well-formed op, stated on its attributes: every pattern is a pure linear map over its own dims -/
def WellFormedM (spatial : Option Nat) (bounds : List Int) (ops : List OperandM) : Prop :=
  spatial ≠ none ∧ (∀ b ∈ bounds, 0 < b) ∧
  ∀ o ∈ ops, o.elBits ≠ none ∧ o.ndims = bounds.length ∧ o.exprs.length ≤ o.shape.length ∧
    (∀ e ∈ o.exprs, AT.noDivMod e = true ∧ AT.dimsBelow o.ndims e = true) ∧ ∀ n ∈ o.shape, 0 < n

theorem patternOperand_total {bounds : List Int} {o : OperandM} (hb : ∀ b ∈ bounds, 0 < b)
    (hn : o.ndims = bounds.length)
    (he : ∀ e ∈ o.exprs, AT.noDivMod e = true ∧ AT.dimsBelow o.ndims e = true) :
    ∃ o', patternOperand bounds o = .ok o' := by
  have h1 : (bounds.any fun b => decide (b ≤ 0)) = false := by
    rw [List.any_eq_false]
    intro b hb'
    have := hb b hb'
    simp; omega
  have h2 : (o.exprs.any fun e => !AT.noDivMod e) = false := by
    rw [List.any_eq_false]; intro e he'; simp [(he e he').1]
  have h3 : (o.exprs.any fun e => !AT.dimsBelow o.ndims e) = false := by
    rw [List.any_eq_false]; intro e he'; simp [(he e he').2]
  unfold patternOperand
  rw [h1]
  simp only [Bool.false_eq_true, if_false]
  unfold AT.fromMap
  rw [h2, h3]
  simp only [Bool.false_eq_true, if_false]
  rw [if_neg (by rw [hn]; simp)]
  exact ⟨_, rfl⟩

theorem rewriteOpMaps_total {fixed tiled : Bool} {spatial : Option Nat} {bounds : List Int}
    {ops : List OperandM} (hwf : WellFormedM spatial bounds ops) :
    ∃ r, rewriteOpMaps fixed tiled spatial bounds ops = .ok r := by
  obtain ⟨hsp, hb, hops⟩ := hwf
  unfold rewriteOpMaps
  split
  · exact ⟨none, rfl⟩
  · obtain ⟨ops', hops'⟩ := mapE_total (f := patternOperand bounds) (xs := ops)
      (fun o ho => patternOperand_total hb (hops o ho).2.1 (hops o ho).2.2.2.1)
    rw [hops']
    simp only []
    apply rewriteOp_total
    refine ⟨hsp, hb, ?_⟩
    intro o' ho'
    obtain ⟨hlen, hall⟩ := mapE_ok hops'
    obtain ⟨i, hi, hget⟩ := List.getElem_of_mem ho'
    have hi2 : i < ops.length := by rw [← hlen]; exact hi
    have hp := hall i ops[i] o' (List.getElem?_eq_getElem hi2) (by rw [List.getElem?_eq_getElem hi, hget])
    obtain ⟨e1, e2, _, e4, e5, e6⟩ := patternOperand_ok hp
    have hw := hops ops[i] (List.getElem_mem hi2)
    refine ⟨by rw [e2]; exact hw.1, by rw [e4]; exact hw.2.1, by rw [e5, e1]; exact hw.2.2.1, ?_, by rw [e1]; exact hw.2.2.2.2⟩
    intro r hr
    rw [e4]; exact e6 r hr

end SnaxVerif.CyclicLayout
