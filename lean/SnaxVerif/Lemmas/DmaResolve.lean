import SnaxVerif.Lemmas.Dma
/-! C05: the run-time resolution (`get_bound_ops`, `get_step_ops` as modelled by `resolveBounds`/`resolveSteps`)
agrees with the static strides wherever those are static — for every rank, depth, descriptor. This discharges the
former hypothesis `ResolutionConsistent` of `C05_moves_partial`. -/
namespace SnaxVerif.Dma
open List

/-- positional agreement of one dimension's strides with resolved byte steps (zip semantics: extra items ignored) -/
def StepsOK (el : Nat) : List Stride → List Nat → Prop
  | s :: r, x :: xs => (∀ v, s.step = some v → x = v * el) ∧ StepsOK el r xs
  | _, _ => True

def BoundsOK : List Stride → List Nat → Prop
  | s :: r, b :: bs => (∀ v, s.bound = some v → b = v) ∧ BoundsOK r bs
  | _, _ => True

def AllOK (P : List Stride → List Nat → Prop) : List (List Stride) → List (List Nat) → Prop
  | d :: ds, x :: xs => P d x ∧ AllOK P ds xs
  | _, _ => True

/-! ### bounds -/

theorem innerBounds_ok : ∀ (r : List Stride) (bs : List Nat), innerBounds r = .ok bs → BoundsOK r bs
  | [], bs, _ => by cases bs <;> simp [BoundsOK]
  | s :: r, bs, h => by
    unfold innerBounds at h
    split at h
    · simp at h
    next b hb =>
      cases hr : innerBounds r with
      | error e => simp [hr, Except.map] at h
      | ok bs' =>
        simp [hr, Except.map] at h
        subst h
        exact ⟨fun v hv => by rw [hb] at hv; exact Option.some.inj hv, innerBounds_ok r bs' hr⟩

theorem dimBounds_ok (d : List Stride) (x : Nat) (bs : List Nat) (h : dimBounds d x = .ok bs) : BoundsOK d bs := by
  unfold dimBounds at h
  split at h
  · simp at h
  next s r =>
    cases hr : innerBounds r with
    | error e => simp [hr, Except.map] at h
    | ok bs' =>
      simp [hr, Except.map] at h
      subst h
      refine ⟨fun v hv => ?_, innerBounds_ok r bs' hr⟩
      simp [hv]

theorem resolveBounds_ok : ∀ (S : List (List Stride)) (shape : List Nat) (B : List (List Nat)),
    resolveBounds S shape = .ok B → AllOK BoundsOK S B
  | [], _, B, _ => by simp [AllOK]
  | _ :: _, [], _, h => by simp [resolveBounds] at h
  | d :: ds, x :: xs, B, h => by
    simp only [resolveBounds, bind, Except.bind] at h
    cases hd : dimBounds d x with
    | error e => simp [hd] at h
    | ok b =>
      cases hr : resolveBounds ds xs with
      | error e => simp [hd, hr] at h
      | ok r =>
        simp [hd, hr, pure, Except.pure] at h
        subst h
        exact ⟨dimBounds_ok d x b hd, resolveBounds_ok ds xs r hr⟩

/-! ### steps -/

theorem stepsDim_fst_cons (el : Nat) (x : StepIn) (r : List StepIn) (dyn : Nat) :
    (stepsDim el (x :: r) dyn).1 =
      (match x.step with | some s => s * el | none => x.pre.getD (stepsDim el r dyn).2) :: (stepsDim el r dyn).1 := by
  simp only [stepsDim]
  cases x.step <;> rfl

theorem stepsDim_ok (el : Nat) (pre : Option Nat) : ∀ (d : List Stride) (b : List Nat) (dyn : Nat),
    StepsOK el d (stepsDim el (stepInsDim pre d b) dyn).1
  | [], _, _ => by simp [StepsOK]
  | _ :: _, [], _ => by simp [stepInsDim, stepsDim, StepsOK]
  | [s], b0 :: _, dyn => by
    simp only [stepInsDim]
    rw [stepsDim_fst_cons]
    refine ⟨fun v hv => ?_, by simp [stepsDim, StepsOK]⟩
    simp [hv]
  | s :: s' :: r, b0 :: bs, dyn => by
    simp only [stepInsDim]
    rw [stepsDim_fst_cons]
    refine ⟨fun v hv => ?_, stepsDim_ok el pre (s' :: r) bs dyn⟩
    simp [hv]

theorem stepsAll_fst_cons (el : Nat) (d : List StepIn) (r : List (List StepIn)) (dyn : Nat) :
    (stepsAll el (d :: r) dyn).1 = (stepsDim el d (stepsAll el r dyn).2).1 :: (stepsAll el r dyn).1 := by
  simp only [stepsAll]

theorem stepsAll_ok (isStr : Bool) (el : Nat) : ∀ (T : List (List Stride)) (B : List (List Nat)) (mstr : List Nat)
    (dyn : Nat), AllOK (StepsOK el) T (stepsAll el (stepIns isStr el T B mstr) dyn).1
  | [], _, _, _ => by simp [AllOK]
  | _ :: _, [], _, _ => by simp [stepIns, stepsAll, AllOK]
  | d :: ds, b :: bs, mstr, dyn => by
    simp only [stepIns]
    rw [stepsAll_fst_cons]
    exact ⟨stepsDim_ok el _ d b _, stepsAll_ok isStr el ds bs mstr.tail dyn⟩

theorem resolveSteps_ok (t : Tsl) (isStr : Bool) (el : Nat) (B : List (List Nat)) (mstr : List Nat) :
    AllOK (StepsOK el) t.ts (resolveSteps t isStr el B mstr) := by
  unfold resolveSteps
  exact stepsAll_ok isStr el t.ts B mstr _

/-! ### entries -/

theorem zipDim_consistent (el : Nat) : ∀ (s d : List Stride) (b x y : List Nat),
    BoundsOK s b → StepsOK el s x → StepsOK el d y →
    ∀ e ∈ List.zipWith (fun (p : Stride × Stride) (q : Nat × Nat × Nat) => (⟨p.1, p.2, q.1, q.2.1, q.2.2⟩ : Entry))
      (s.zip d) (b.zip (x.zip y)), e.Consistent el
  | [], _, _, _, _, _, _, _ => by simp
  | _ :: _, [], _, _, _, _, _, _ => by simp
  | _ :: _, _ :: _, [], _, _, _, _, _ => by simp
  | _ :: _, _ :: _, _ :: _, [], _, _, _, _ => by simp
  | _ :: _, _ :: _, _ :: _, _ :: _, [], _, _, _ => by simp
  | s0 :: s, d0 :: d, b0 :: b, x0 :: x, y0 :: y, hb, hx, hy => by
    intro e he
    simp only [zip_cons_cons, zipWith_cons_cons, mem_cons] at he
    rcases he with rfl | he
    · exact ⟨hx.1, hy.1, hb.1⟩
    · exact zipDim_consistent el s d b x y hb.2 hx.2 hy.2 e he

theorem zipEntries_consistent (el : Nat) : ∀ (S D : List (List Stride)) (B X Y : List (List Nat)),
    AllOK BoundsOK S B → AllOK (StepsOK el) S X → AllOK (StepsOK el) D Y →
    ∀ e ∈ (zipEntries S D B X Y).flatten, e.Consistent el
  | s :: S, d :: D, b :: B, x :: X, y :: Y, hb, hx, hy => by
    intro e he
    simp only [zipEntries, flatten_cons, mem_append] at he
    rcases he with he | he
    · exact zipDim_consistent el s d b x y hb.1 hx.1 hy.1 e he
    · exact zipEntries_consistent el S D B X Y hb.2 hx.2 hy.2 e he
  | [], _, _, _, _, _, _, _ => by simp [zipEntries]
  | _ :: _, [], _, _, _, _, _, _ => by simp [zipEntries]
  | _ :: _, _ :: _, [], _, _, _, _, _ => by simp [zipEntries]
  | _ :: _, _ :: _, _ :: _, [], _, _, _, _ => by simp [zipEntries]
  | _ :: _, _ :: _, _ :: _, _ :: _, [], _, _, _ => by simp [zipEntries]

/-- `ResolutionConsistent`, proved: every entry produced by `resolve` is consistent. -/
theorem resolve_consistent {src dst : MemTy} {tS tD : Tsl} {rs rd : Rt} {nested : List (List Entry)}
    (h : resolve src dst tS tD rs rd = .ok nested) (hel : src.el = dst.el) :
    ∀ e ∈ nested.flatten, e.Consistent src.el := by
  unfold resolve at h
  simp only [bind, Except.bind] at h
  split at h
  · simp at h
  · cases hb : resolveBounds tS.ts rs.shape with
    | error e => simp [hb] at h
    | ok B =>
      simp [hb, pure, Except.pure] at h
      subst h
      refine zipEntries_consistent src.el _ _ _ _ _ (resolveBounds_ok _ _ _ hb) (resolveSteps_ok _ _ _ _ _) ?_
      rw [hel]
      exact resolveSteps_ok _ _ _ _ _


theorem transformDma_resolve {bv : Bool} {src dst : MemTy} {rs rd : Rt} {l : Lowered}
    (h : transformDma bv src dst rs rd = .ok l) :
    resolve src dst l.tS l.tD rs rd = .ok l.nested ∧ src.el = dst.el ∧ src.shape = dst.shape := by
  unfold transformDma at h
  split at h
  · simp at h
  next hg =>
    split at h
    · simp at h
    split at h
    · simp at h
    split at h
    · simp at h
    next nested hn =>
      split at h
      · simp at h
      · simp only [Except.ok.injEq] at h
        subst h
        simp only [Bool.or_eq_true, not_or, bne_iff_ne, ne_eq, Decidable.not_not] at hg
        exact ⟨hn, hg.1.1.2, hg.1.1.1⟩

/-- every result of `transformDma` carries consistent entries (no hypothesis) -/
theorem transformDma_consistent {bv : Bool} {src dst : MemTy} {rs rd : Rt} {l : Lowered}
    (h : transformDma bv src dst rs rd = .ok l) :
    ∀ e ∈ l.nested.flatten, e.Consistent src.el :=
  let ⟨hr, hel, _⟩ := transformDma_resolve h
  resolve_consistent hr hel


/-! ### pointers after offset application (byte/element scaling) -/

theorem applyOffset_eq (base el : Nat) (off : Option Nat) (rt : Nat) :
    applyOffset base el off rt = base + el * off.getD rt := by
  unfold applyOffset
  split <;> simp

/-- the offset, in elements, that the memref's own layout attribute prescribes (dynamic: the descriptor's) -/
def layoutOffset (t : MemTy) (rt : Rt) : Nat :=
  match t.layout with
  | .tsl l => l.offset.getD rt.offset
  | .strided _ o => o.getD rt.offset
  | .none => 0
  | .other => 0

theorem tslOf_offset {t other : MemTy} {shp : List (Option Nat)} {T : Tsl} (h : tslOf t other shp = .ok T) (rt : Rt) :
    T.offset.getD rt.offset = layoutOffset t rt := by
  unfold tslOf at h
  unfold layoutOffset
  split at h
  next l hl => injection h with h; subst h; simp [hl]
  · simp at h
  next hnt hno =>
    split at h
    · simp at h
    next strides hs =>
      split at h
      · simp at h
      · injection h with h; subst h
        simp only [fromStrides, extractOffset]
        cases hl : t.layout <;> simp_all

theorem transformDma_bases {bv : Bool} {src dst : MemTy} {rs rd : Rt} {l : Lowered}
    (h : transformDma bv src dst rs rd = .ok l) :
    l.prog.sbase = rs.base + src.el * layoutOffset src rs ∧ l.prog.dbase = rd.base + src.el * layoutOffset dst rd := by
  obtain ⟨_, hel, _⟩ := transformDma_resolve h
  unfold transformDma at h
  split at h
  · simp at h
  split at h
  · simp at h
  next tS hS =>
    split at h
    · simp at h
    next tD hD =>
      split at h
      · simp at h
      split at h
      · simp at h
      next r hr =>
        simp only [Except.ok.injEq] at h
        subst h
        obtain ⟨h1, h2⟩ := lowerResolved_bases hr
        simp only
        rw [h1, h2, applyOffset_eq, applyOffset_eq, tslOf_offset hS rs, tslOf_offset hD rd, ← hel]
        exact ⟨rfl, rfl⟩

end SnaxVerif.Dma
