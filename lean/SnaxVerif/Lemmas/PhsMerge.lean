import SnaxVerif.Lemmas.Phs
import SnaxVerif.Lemmas.PhsKeeps
/-! C20, merge histories: `combine` (the model of `append_to_abstract_graph`) keeps the structural
invariants of the graph, keeps every connection of every merged kernel among the *possibilities* of the
corresponding operand, and a kernel all of whose connections are possible is decodable. Core Lean only. -/
namespace SnaxVerif.Phs

variable [Variant]

/-! ### mux trees -/

def srcMuxes : Src → List Nat
  | .mux s l r => s :: (srcMuxes l ++ srcMuxes r)
  | _ => []

/-- shape of every operand the API builds: the rhs of a mux is a plain value, the switch of a mux does not
occur below it -/
def treeOk : Src → Prop
  | .mux s l r => r.hasMux = false ∧ s ∉ srcMuxes l ∧ treeOk l
  | _ => True

theorem srcMuxes_of_noMux {t : Src} (h : t.hasMux = false) : srcMuxes t = [] := by
  cases t <;> simp_all [Src.hasMux, srcMuxes]

theorem follow_noMux (A : PE) (m : Nat → Nat) {t : Src} (h : t.hasMux = false) : A.follow m t = A.leafOf t := by
  cases t <;> simp_all [Src.hasMux, PE.follow, PE.leafOf]

theorem poss_noMux (A : PE) {t : Src} (h : t.hasMux = false) (l : Leaf) : l ∈ A.poss t ↔ A.leafOf t = some l := by
  cases t with
  | arg i => simp [PE.poss, PE.leafOf, eq_comm]
  | node j =>
    simp only [PE.poss, PE.leafOf]
    cases A.nodes[j]? with
    | none => simp
    | some n => simp [eq_comm]
  | mux s a b => simp [Src.hasMux] at h

theorem follow_local (A : PE) (m m' : Nat → Nat) : ∀ t, (∀ s, s ∈ srcMuxes t → m s = m' s) →
    A.follow m t = A.follow m' t
  | .arg _, _ => rfl
  | .node _, _ => rfl
  | .mux s l r, h => by
    simp only [PE.follow]
    have hs : m s = m' s := h s (by simp [srcMuxes])
    rw [hs, follow_local A m m' l (fun x hx => h x (by simp [srcMuxes, hx])),
      follow_local A m m' r (fun x hx => h x (by simp [srcMuxes, hx]))]

/-- the assignment that routes tree `t` to the possibility `l` -/
def pathMap (A : PE) (l : Leaf) : Src → Nat → Nat
  | .mux s a b => if A.leafOf b = some l then (fun x => if x = s then 1 else 0)
                  else (fun x => if x = s then 0 else pathMap A l a x)
  | _ => fun _ => 0

theorem path_follow (A : PE) (l : Leaf) : ∀ t, treeOk t → l ∈ A.poss t → A.follow (pathMap A l t) t = some l
  | .arg i, _, h => by
    simp only [PE.poss, List.mem_singleton] at h; subst h; rfl
  | .node j, _, h => by
    simp only [PE.poss] at h
    simp only [PE.follow]
    cases hn : A.nodes[j]? with
    | none => simp [hn] at h
    | some n => simp [hn] at h; subst h; rfl
  | .mux s a b, hok, h => by
    obtain ⟨hb, hs, ha⟩ := hok
    simp only [PE.poss, List.mem_append] at h
    simp only [PE.follow, pathMap]
    by_cases hl : A.leafOf b = some l
    · simp only [if_pos hl, if_true]
      rw [follow_noMux A _ hb]; exact hl
    · simp only [if_neg hl, if_true]
      have hla : l ∈ A.poss a := by
        rcases h with h | h
        · exact h
        · exact absurd ((poss_noMux A hb l).mp h) hl
      have : (0 : Nat) ≠ 1 := by decide
      rw [if_neg this]
      rw [follow_local A _ (pathMap A l a) a]
      · exact path_follow A l a ha hla
      · intro x hx
        have : x ≠ s := fun e => hs (e ▸ hx)
        simp [this]

theorem pathMap_zero_off (A : PE) (l : Leaf) : ∀ t x, x ∉ srcMuxes t → pathMap A l t x = 0
  | .arg _, _, _ => rfl
  | .node _, _, _ => rfl
  | .mux s a b, x, hx => by
    simp only [srcMuxes, List.mem_cons, List.mem_append, not_or] at hx
    simp only [pathMap]
    split
    · simp [hx.1]
    · simp only [if_neg hx.1]; exact pathMap_zero_off A l a x hx.2.1

/-! ### slots: every operand position of the graph, and the yield -/

def PE.slot (A : PE) : Option Nat → Nat → Option Src
  | none, 0 => some A.yld
  | none, _ + 1 => none
  | some j, p => (A.nodes[j]?).bind fun n => n.operands[p]?

/-- invariants about the mux trees of a graph: shape, every mux switch is a `.mux` switch of the graph, and
no switch drives two muxes (position-wise: different slots have disjoint switches) -/
structure SlotInv (A : PE) : Prop where
  tree : ∀ k p t, A.slot k p = some t → treeOk t
  muxok : ∀ k p t, A.slot k p = some t → ∀ s, s ∈ srcMuxes t → A.switches[s]? = some .mux
  disj : ∀ k p t k' p' t', A.slot k p = some t → A.slot k' p' = some t' → (k, p) ≠ (k', p') →
    ∀ s, s ∈ srcMuxes t → s ∉ srcMuxes t'

theorem SlotInv.lt {A : PE} (h : SlotInv A) {k p t s} (hs : A.slot k p = some t) (hm : s ∈ srcMuxes t) :
    s < A.switches.length := by
  have := h.muxok k p t hs s hm
  rcases Nat.lt_or_ge s A.switches.length with h | h
  · exact h
  · simp [List.getElem?_eq_none h] at this

/-! ### a kernel whose connections are all possible has a valid mapping -/

/-- every connection of `K` is among the possibilities (`get_abstract_possibilities`) of the corresponding
operand of `A` — what `uncollide_inputs` establishes and later merges keep -/
def NodeRoutable (A K : PE) (k : Node) : Prop :=
  ∃ (ai : Nat) (a : Node), A.lookup k.id = some ai ∧
      A.nodes[ai]? = some a ∧ a.operands.length = k.operands.length ∧
      ∀ (p : Nat) (t : Src), k.operands[p]? = some t →
        ∃ (l : Leaf) (ta : Src), K.leafOf t = some l ∧ a.operands[p]? = some ta ∧ l ∈ A.poss ta

def YieldRoutable (A K : PE) : Prop := ∃ l, K.leafOf K.yld = some l ∧ l ∈ A.poss A.yld

structure Routable (A K : PE) : Prop where
  node : ∀ (c : Nat) (k : Node), K.nodes[c]? = some k → NodeRoutable A K k
  yld : YieldRoutable A K

/-- the connection the kernel wants at a slot of `A` -/
def target (A K : PE) : Option Nat → Nat → Option Leaf
  | none, _ => K.leafOf K.yld
  | some j, p => (A.nodes[j]?).bind fun a => (K.lookup a.id).bind fun kc => (K.nodes[kc]?).bind fun k =>
      (k.operands[p]?).bind K.leafOf

open Classical in
/-- the mux assignment that routes every slot of `A` to the connection `K` wants there (each switch drives
one mux, so the slot of a switch is unique; it is picked by choice) -/
noncomputable def routeMap (A K : PE) (s : Nat) : Nat :=
  if h : ∃ x : Option Nat × Nat × Src, A.slot x.1 x.2.1 = some x.2.2 ∧ s ∈ srcMuxes x.2.2 then
    match target A K (choose h).1 (choose h).2.1 with
    | some l => pathMap A l (choose h).2.2 s
    | none => 0
  else 0

theorem routeMap_agree {A K : PE} (hinv : SlotInv A) {k p t l} (hs : A.slot k p = some t)
    (ht : target A K k p = some l) : ∀ s, s ∈ srcMuxes t → routeMap A K s = pathMap A l t s := by
  intro s hm
  have h : ∃ x : Option Nat × Nat × Src, A.slot x.1 x.2.1 = some x.2.2 ∧ s ∈ srcMuxes x.2.2 := ⟨(k, p, t), hs, hm⟩
  unfold routeMap
  rw [dif_pos h]
  obtain ⟨h1, h2⟩ := Classical.choose_spec h
  generalize Classical.choose h = x at h1 h2
  obtain ⟨k', p', t'⟩ := x
  simp only at h1 h2 ⊢
  have hkp : (k', p') = (k, p) := by
    apply Classical.byContradiction
    intro hne
    exact hinv.disj k' p' t' k p t h1 hs hne s h2 hm
  injection hkp with e1 e2
  subst e1; subst e2
  rw [hs] at h1; injection h1 with h1; subst h1
  rw [ht]

theorem routeMap_one {A K : PE} (hinv : SlotInv A) {s : Nat} (h1 : routeMap A K s = 1) :
    A.switches[s]? = some .mux := by
  unfold routeMap at h1
  split at h1
  next h =>
    obtain ⟨ha, hb⟩ := Classical.choose_spec h
    exact hinv.muxok _ _ _ ha s hb
  · simp at h1

theorem validOperands_of (K A : PE) (m : Nat → Nat) : ∀ (ks as : List Src), as.length = ks.length →
    (∀ (p : Nat) (t : Src), ks[p]? = some t → ∃ (l : Leaf) (ta : Src), K.leafOf t = some l ∧ as[p]? = some ta ∧
      A.follow m ta = some l) → validOperands K A m ks as = .ok true
  | [], [], _, _ => rfl
  | [], _ :: _, h, _ => by simp at h
  | _ :: _, [], h, _ => by simp at h
  | k :: ks, a :: as, hlen, h => by
    unfold validOperands
    obtain ⟨l, ta, hl, hta, hf⟩ := h 0 k (by simp)
    simp only [List.getElem?_cons_zero, Option.some.injEq] at hta; subst hta
    simp only [hl, hf, if_true]
    apply validOperands_of K A m ks as (by simpa using hlen)
    intro p t hp
    have := h (p + 1) t (by simpa using hp)
    simpa using this

theorem validNodes_of (K A : PE) (m : Nat → Nat) : ∀ (ns : List Node),
    (∀ k, k ∈ ns → ∃ (ai : Nat) (a : Node), A.lookup k.id = some ai ∧ A.nodes[ai]? = some a ∧
      validOperands K A m k.operands a.operands = .ok true) → validNodes K A m ns = .ok true
  | [], _ => rfl
  | k :: r, h => by
    unfold validNodes
    obtain ⟨ai, a, hl, ha, hv⟩ := h k (by simp)
    simp only [hl, ha, hv]
    exact validNodes_of K A m r (fun k' hk' => h k' (by simp [hk']))

theorem routable_valid {A K : PE} (hinv : SlotInv A) (huK : uniqueIds K.nodes = true) (hr : Routable A K) :
    validMapping K A (routeMap A K) = .ok true := by
  have hnodes : validNodes K A (routeMap A K) K.nodes = .ok true := by
    apply validNodes_of
    intro k hk
    obtain ⟨c, hc, hck⟩ := List.getElem_of_mem hk
    have hn : K.nodes[c]? = some k := by rw [List.getElem?_eq_getElem hc, hck]
    obtain ⟨ai, a, hl, ha, hlen, hops⟩ := hr.node c k hn
    refine ⟨ai, a, hl, ha, ?_⟩
    apply validOperands_of K A _ _ _ hlen
    intro p t hp
    obtain ⟨l, ta, hl1, hta, hposs⟩ := hops p t hp
    refine ⟨l, ta, hl1, hta, ?_⟩
    have hslot : A.slot (some ai) p = some ta := by simp [PE.slot, ha, hta]
    have htgt : target A K (some ai) p = some l := by
      obtain ⟨a', ha', hid⟩ := lookup_some hl
      rw [ha] at ha'; injection ha' with ha'; subst ha'
      have hlk : K.lookup a.id = some c := by rw [hid]; exact lookup_of_get huK hn
      simp [target, ha, hlk, hn, hp, hl1]
    rw [follow_local A _ (pathMap A l ta) ta (routeMap_agree hinv hslot htgt)]
    exact path_follow A l ta (hinv.tree _ _ _ hslot) hposs
  unfold validMapping
  rw [hnodes]
  obtain ⟨l, hl, hposs⟩ := hr.yld
  show validOperands K A (routeMap A K) [K.yld] [A.yld] = .ok true
  apply validOperands_of K A _ [K.yld] [A.yld] rfl
  intro p t hp
  cases p with
  | succ p => simp at hp
  | zero =>
    simp at hp; subst hp
    refine ⟨l, A.yld, hl, by simp, ?_⟩
    have hslot : A.slot none 0 = some A.yld := rfl
    have htgt : target A K none 0 = some l := by simp [target, hl]
    rw [follow_local A _ (pathMap A l A.yld) A.yld (routeMap_agree hinv hslot htgt)]
    exact path_follow A l A.yld (hinv.tree _ _ _ hslot) hposs

/-! ### the local pass of `decode` does not raise for a covered concrete kernel -/

/-- every choose switch has its choose op -/
def SwT (A : PE) : Prop := ∀ (s j : Nat), A.switches[s]? = some (.choose j) → ∃ n : Node, A.nodes[j]? = some n

theorem concrete_node {K : PE} (hcon : K.isConcrete = true) {k : Node} (hk : k ∈ K.nodes) :
    (∃ t, k.ops = [t]) ∧ ∀ t, t ∈ k.operands → t.hasMux = false := by
  simp only [PE.isConcrete, Bool.and_eq_true, List.all_eq_true] at hcon
  have := hcon.1 k hk
  simp only [beq_iff_eq, Bool.not_eq_true', Node.anyMux, List.any_eq_false] at this
  refine ⟨?_, fun t ht => by simpa using this.2 t ht⟩
  match hko : k.ops, this.1 with
  | [t], _ => exact ⟨t, rfl⟩

theorem concrete_yld {K : PE} (hcon : K.isConcrete = true) : K.yld.hasMux = false := by
  simp only [PE.isConcrete, Bool.and_eq_true, Bool.not_eq_true'] at hcon
  exact hcon.2

theorem localChoice_ok {A K : PE} (hwf : uniqueIds A.nodes = true) (hcov : covers A K = true) (hcon : K.isConcrete = true)
    (s : Nat) (u : SwUse) (hu : ∀ j, u = .choose j → ∃ n : Node, A.nodes[j]? = some n) :
    ∃ q, localChoice A K s u = .ok q := by
  cases u with
  | mux => exact ⟨.muxP s, rfl⟩
  | choose j =>
    obtain ⟨a, ha⟩ := hu j rfl
    simp only [localChoice, ha]
    by_cases h1 : a.ops.length = 1
    · exact ⟨.skip, by simp [h1]⟩
    · simp only [if_neg h1]
      cases hK : K.lookup a.id with
      | none => exact ⟨.val 0, rfl⟩
      | some kc =>
        obtain ⟨k, hk, hid⟩ := lookup_some hK
        have hkm : k ∈ K.nodes := List.mem_of_getElem? hk
        obtain ⟨⟨t, ht⟩, _⟩ := concrete_node hcon hkm
        simp only [hk, ht, List.head?_cons]
        have hcn : coversNode A k = true := by
          simp only [covers, List.all_eq_true] at hcov; exact hcov k hkm
        have hlk : A.lookup k.id = some j := by rw [hid]; exact lookup_of_get hwf ha
        simp only [coversNode, hlk, ha, ht, List.all_cons, List.all_nil, Bool.and_true,
          List.contains_eq_mem, decide_eq_true_eq] at hcn
        obtain ⟨i, hi⟩ := idxOf_isSome_of_mem t a.ops 0 hcn
        exact ⟨.val i, by simp [hi]⟩

theorem localChoices_ok {A K : PE} (hwf : uniqueIds A.nodes = true) (hcov : covers A K = true) (hcon : K.isConcrete = true) :
    ∀ (us : List SwUse) (p : Nat), (∀ u, u ∈ us → ∀ j, u = .choose j → ∃ n : Node, A.nodes[j]? = some n) →
      ∃ pre, localChoices A K us p = .ok pre
  | [], _, _ => ⟨[], rfl⟩
  | u :: r, p, h => by
    obtain ⟨q, hq⟩ := localChoice_ok hwf hcov hcon p u (h u (by simp))
    obtain ⟨ps, hps⟩ := localChoices_ok hwf hcov hcon r (p + 1) (fun u' hu' => h u' (by simp [hu']))
    exact ⟨q :: ps, by simp [localChoices, hq, hps]⟩

/-- **decodability**: a concrete kernel that the element covers and all of whose connections are possible
decodes — the local pass finds every operation, `routeMap` is a valid mapping, the search is complete. -/
theorem decodable_of_routable {A K : PE} (hwf : A.wf = true) (hswt : SwT A) (hinv : SlotInv A)
    (hcon : K.isConcrete = true) (huK : uniqueIds K.nodes = true) (hargs : K.argTys.length = A.argTys.length)
    (hcov : covers A K = true) (hr : Routable A K) : ∃ sw, decode A K = .ok sw := by
  obtain ⟨pre, hpre⟩ := localChoices_ok (wf_unique hwf) hcov hcon A.switches 0 (by
    intro u hu j hj
    obtain ⟨s, hs, hsu⟩ := List.getElem_of_mem hu
    exact hswt s j (by rw [List.getElem?_eq_getElem hs, hsu, hj]))
  have hvalid := routable_valid hinv huK hr
  have hmem := mem_muxSwitches A K A.switches 0 pre hpre
  obtain ⟨sol, hsol⟩ := search_complete (validMapping K A) (fun m' e => validMapping_total hvalid m' e)
    (validMapping_congr K A) (muxSwitches pre) (fun _ => 0)
    ⟨routeMap A K, hvalid, by
      intro x hx
      have : routeMap A K x ≠ 1 := by
        intro h1
        exact hx ((hmem x).mpr ⟨x, routeMap_one hinv h1, by omega⟩)
      simp [this]⟩
  refine ⟨finalVals sol pre, ?_⟩
  unfold decode
  simp [hcon, hargs, hpre, hsol]

/-! ### graph extension: what one merge step does to the rest of the graph -/

theorem Wraps.trans {N : Nat} {a b c : Src} (h1 : Wraps N a b) (h2 : Wraps N b c) : Wraps N a c := by
  induction h2 with
  | refl => exact h1
  | step s r _ hs ih => exact .step s r ih hs

theorem Wraps.mono {N N' : Nat} (hN : N' ≤ N) {a b : Src} (h : Wraps N a b) : Wraps N' a b := by
  induction h with
  | refl => exact .refl _
  | step s r _ hs ih => exact .step s r ih (Nat.le_trans hN hs)

/-- `A'` extends `A`: same data ports, switches appended, every choose op keeps its position, name and
operations (more may be added), operands only get mux layers on top (switch ≥ `N`, old operand on the lhs) -/
structure Ext (N : Nat) (A A' : PE) : Prop where
  args : A'.argTys = A.argTys
  sw : ∃ ext, A'.switches = A.switches ++ ext
  lookup : ∀ (id : String) (ai : Nat), A.lookup id = some ai → A'.lookup id = some ai
  node : ∀ (j : Nat) (n : Node), A.nodes[j]? = some n → ∃ n' : Node, A'.nodes[j]? = some n' ∧ n'.id = n.id ∧
    (∀ o, o ∈ n.ops → o ∈ n'.ops) ∧ n'.operands.length = n.operands.length ∧
    ∀ (p : Nat) (t : Src), n.operands[p]? = some t → ∃ t', n'.operands[p]? = some t' ∧ Wraps N t t'
  yld : Wraps N A.yld A'.yld

theorem Ext.refl (N : Nat) (A : PE) : Ext N A A where
  args := rfl
  sw := ⟨[], by simp⟩
  lookup := fun _ _ h => h
  node := fun j n hn => ⟨n, hn, rfl, fun _ h => h, rfl, fun p t ht => ⟨t, ht, .refl _⟩⟩
  yld := .refl _

theorem Ext.trans {N : Nat} {A B C : PE} (h1 : Ext N A B) (h2 : Ext N B C) : Ext N A C where
  args := h2.args.trans h1.args
  sw := by
    obtain ⟨e1, he1⟩ := h1.sw
    obtain ⟨e2, he2⟩ := h2.sw
    exact ⟨e1 ++ e2, by rw [he2, he1, List.append_assoc]⟩
  lookup := fun id ai h => h2.lookup id ai (h1.lookup id ai h)
  node := by
    intro j n hn
    obtain ⟨n1, hn1, hid1, hops1, hlen1, hw1⟩ := h1.node j n hn
    obtain ⟨n2, hn2, hid2, hops2, hlen2, hw2⟩ := h2.node j n1 hn1
    refine ⟨n2, hn2, hid2.trans hid1, fun o ho => hops2 o (hops1 o ho), hlen2.trans hlen1, ?_⟩
    intro p t ht
    obtain ⟨t1, ht1, w1⟩ := hw1 p t ht
    obtain ⟨t2, ht2, w2⟩ := hw2 p t1 ht1
    exact ⟨t2, ht2, w1.trans w2⟩
  yld := h1.yld.trans h2.yld

theorem Ext.mono {N N' : Nat} (hN : N' ≤ N) {A B : PE} (h : Ext N A B) : Ext N' A B where
  args := h.args
  sw := h.sw
  lookup := h.lookup
  node := by
    intro j n hn
    obtain ⟨n1, hn1, hid1, hops1, hlen1, hw1⟩ := h.node j n hn
    refine ⟨n1, hn1, hid1, hops1, hlen1, fun p t ht => ?_⟩
    obtain ⟨t1, ht1, w1⟩ := hw1 p t ht
    exact ⟨t1, ht1, w1.mono hN⟩
  yld := h.yld.mono hN

theorem poss_base {N : Nat} {A A' : PE} (h : Ext N A A') (l : Leaf) : ∀ t, l ∈ A.poss t → l ∈ A'.poss t
  | .arg _, hl => hl
  | .node j, hl => by
    simp only [PE.poss] at hl ⊢
    cases hn : A.nodes[j]? with
    | none => simp [hn] at hl
    | some n =>
      obtain ⟨n', hn', hid, _⟩ := h.node j n hn
      simp only [hn] at hl
      simp only [hn', hid]; exact hl
  | .mux s a b, hl => by
    simp only [PE.poss, List.mem_append] at hl ⊢
    rcases hl with hl | hl
    · exact .inl (poss_base h l a hl)
    · exact .inr (poss_base h l b hl)

theorem poss_wraps {N : Nat} {A A' : PE} (h : Ext N A A') (l : Leaf) {t t' : Src} (hw : Wraps N t t')
    (hl : l ∈ A.poss t) : l ∈ A'.poss t' := by
  induction hw with
  | refl => exact poss_base h l _ hl
  | step s r _ _ ih => simp only [PE.poss, List.mem_append]; exact .inl ih

theorem nodeRoutable_mono {N : Nat} {A A' K : PE} (h : Ext N A A') {k : Node} (hr : NodeRoutable A K k) :
    NodeRoutable A' K k := by
  obtain ⟨ai, a, hl, ha, hlen, hops⟩ := hr
  obtain ⟨a', ha', _, _, hlen', hw⟩ := h.node ai a ha
  refine ⟨ai, a', h.lookup _ _ hl, ha', hlen'.trans hlen, ?_⟩
  intro p t ht
  obtain ⟨l, ta, hl1, hta, hposs⟩ := hops p t ht
  obtain ⟨ta', hta', w⟩ := hw p ta hta
  exact ⟨l, ta', hl1, hta', poss_wraps h l w hposs⟩

theorem yieldRoutable_mono {N : Nat} {A A' K : PE} (h : Ext N A A') (hr : YieldRoutable A K) :
    YieldRoutable A' K := by
  obtain ⟨l, hl, hposs⟩ := hr
  exact ⟨l, hl, poss_wraps h l h.yld hposs⟩

theorem routable_mono {N : Nat} {A A' K : PE} (h : Ext N A A') (hr : Routable A K) : Routable A' K where
  node := fun c k hk => nodeRoutable_mono h (hr.node c k hk)
  yld := yieldRoutable_mono h hr.yld

theorem coversNode_mono {N : Nat} {A A' : PE} (h : Ext N A A') {k : Node} (this : coversNode A k = true) :
    coversNode A' k = true := by
  simp only [coversNode] at this ⊢
  cases hl : A.lookup k.id with
  | none => simp [hl] at this
  | some ai =>
    simp only [hl] at this
    cases ha : A.nodes[ai]? with
    | none => simp [ha] at this
    | some a =>
      simp only [ha, List.all_eq_true, List.contains_eq_mem, decide_eq_true_eq] at this
      obtain ⟨a', ha', _, hops, _⟩ := h.node ai a ha
      simp only [h.lookup _ _ hl, ha', List.all_eq_true, List.contains_eq_mem, decide_eq_true_eq]
      exact fun o ho => hops o (this o ho)

theorem covers_mono {N : Nat} {A A' K : PE} (h : Ext N A A') (hc : covers A K = true) : covers A' K = true := by
  simp only [covers, List.all_eq_true] at hc ⊢
  exact fun k hk => coversNode_mono h (hc k hk)

theorem wrapsL_of {N : Nat} : ∀ (as as' : List Src), as'.length = as.length →
    (∀ (p : Nat) (t : Src), as[p]? = some t → ∃ t', as'[p]? = some t' ∧ Wraps N t t') → WrapsL N as as'
  | [], [], _, _ => .nil
  | [], _ :: _, h, _ => by simp at h
  | _ :: _, [], h, _ => by simp at h
  | a :: as, a' :: as', hlen, h => by
    obtain ⟨t', ht', w⟩ := h 0 a (by simp)
    simp only [List.getElem?_cons_zero, Option.some.injEq] at ht'; subst ht'
    refine .cons w (wrapsL_of as as' (by simpa using hlen) ?_)
    intro p t hp
    simpa using h (p + 1) t (by simpa using hp)

/-- the relation assumed by `combine_keeps_partial` follows from `Ext` at the old number of switches -/
theorem extends_of_ext {A A' : PE} (h : Ext A.switches.length A A') : Extends A A' where
  args := by rw [h.args]
  sw := h.sw
  lookup := h.lookup
  node := by
    intro j n hn
    obtain ⟨n', hn', hid, _, hlen, hw⟩ := h.node j n hn
    exact ⟨n', hn', hid, wrapsL_of _ _ hlen hw⟩
  yld := h.yld

end SnaxVerif.Phs
