import SnaxVerif.Model.Accfg
/-! Inference soundness and the ghost-write simulation for the accfg model (C07, C01, C06).
Ported from design/prototypes/AccfgCore.lean. -/
namespace SnaxVerif.Accfg

variable (cfg : Cfg)

theorem wfB_cons {s : Stmt} {r : Block} (h : wfB (.cons s r) = true) :
    wfS s = true ∧ wfB r = true ∧ ∀ x ∈ usesS s, x ∉ defsB r := by
  simp only [wfB, Bool.and_eq_true, List.all_eq_true, Bool.not_eq_true', List.contains_eq_mem,
    decide_eq_false_iff_not] at h
  exact ⟨h.1.1, h.1.2, h.2⟩

-- ===== facts lemmas =====
theorem meet_le_left {x y : Facts} {a f v} (h : meet x y a f = some v) : x a f = some v := by
  unfold meet at h; split at h <;> simp_all
theorem meet_le_right {x y : Facts} {a f v} (h : meet x y a f = some v) : y a f = some v := by
  unfold meet at h; split at h
  · rename_i heq; rw [← heq]; exact h
  · simp at h
theorem forget_le {F : Facts} {a fs a' f v} (h : forget F a fs a' f = some v) : F a' f = some v := by
  simp only [forget] at h
  split at h
  · split at h
    · split at h
      · exact h
      · simp at h
    · exact h
  · exact h

mutual
theorem localS : (s : Stmt) → ∀ (F F' : Facts) (a : AccId) (f : Field), F a f = F' a f → knownS s F a f = knownS s F' a f
  | .setup b fs, F, F', a, f, h => by
      simp only [knownS, upd]
      split
      · split <;> simp_all
      · exact h
  | .ghost b fs, F, F', a, f, h => by simp only [knownS, forget, h]
  | .launch _ _, F, F', a, f, h => by simpa [knownS] using h
  | .await _, F, F', a, f, h => by simpa [knownS] using h
  | .pure _ _ _, F, F', a, f, h => by simpa [knownS] using h
  | .call _ eff, F, F', a, f, h => by
      simp only [knownS]
      split
      · rfl
      · exact h
  | .ifS _ t e, F, F', a, f, h => by
      have ht := localB t F F' a f h; have he := localB e F F' a f h
      simp only [knownS, meet, ht, he]
  | .forS _ _ _ _ b, F, F', a, f, h => by
      have h1 := localB b F F' a f h
      have hhead : meet F (knownB b F) a f = meet F' (knownB b F') a f := by simp only [meet, h, h1]
      have h2 := localB b _ _ a f hhead
      simp only [knownS, meet, h, h2]
theorem localB : (b : Block) → ∀ (F F' : Facts) (a : AccId) (f : Field), F a f = F' a f → knownB b F a f = knownB b F' a f
  | .nil, F, F', a, f, h => by simpa [knownB] using h
  | .cons s r, F, F', a, f, h => by simp only [knownB]; exact localB r _ _ a f (localS s F F' a f h)
end

mutual
theorem varsS : (s : Stmt) → ∀ (F : Facts) a f x, knownS s F a f = some x → F a f = some x ∨ x ∈ usesS s
  | .setup b fs, F, a, f, x, h => by
      simp only [knownS, upd] at h
      split at h
      · split at h
        · rename_i y hy
          right; simp only [usesS, List.mem_map]
          obtain ⟨l1, l2, hl, _⟩ := List.lookup_eq_some_iff.mp hy
          exact ⟨(f, y), by simp [hl], by simpa using h⟩
        · left; exact h
      · left; exact h
  | .ghost b fs, F, a, f, x, h => by left; exact forget_le (by simpa [knownS] using h)
  | .launch _ _, F, a, f, x, h => by left; simpa [knownS] using h
  | .await _, F, a, f, x, h => by left; simpa [knownS] using h
  | .pure _ _ _, F, a, f, x, h => by left; simpa [knownS] using h
  | .call _ eff, F, a, f, x, h => by
      simp only [knownS] at h; split at h
      · simp [noFacts] at h
      · left; exact h
  | .ifS _ t e, F, a, f, x, h => by
      simp only [knownS] at h
      rcases varsB t F a f x (meet_le_left h) with h1 | h1
      · left; exact h1
      · right; simp [usesS, h1]
  | .forS _ _ _ _ b, F, a, f, x, h => by
      simp only [knownS] at h; left; exact meet_le_left h
theorem varsB : (b : Block) → ∀ (F : Facts) a f x, knownB b F a f = some x → F a f = some x ∨ x ∈ usesB b
  | .nil, F, a, f, x, h => by left; simpa [knownB] using h
  | .cons s r, F, a, f, x, h => by
      simp only [knownB] at h
      rcases varsB r _ a f x h with h1 | h1
      · rcases varsS s F a f x h1 with h2 | h2
        · left; exact h2
        · right; simp [usesB, h2]
      · right; simp [usesB, h1]
end

-- ===== the simulation (covers inference soundness as the special case without ghosts) =====
structure Sim (F : Facts) (s s' : St) : Prop where
  sound : ∀ a f x, F a f = some x → s.regs a f = s.env x
  agree : ∀ a f x, F a f = some x → s.regs a f = s'.regs a f
  env : s.env = s'.env
  tr : s.tr = s'.tr

def Avoids (F : Facts) (ds : List Var) : Prop := ∀ a f x, F a f = some x → x ∉ ds

theorem Sim.weaken {F G : Facts} {s s'} (h : Sim F s s') (hle : ∀ a f x, G a f = some x → F a f = some x) : Sim G s s' :=
  ⟨fun a f x hx => h.sound a f x (hle a f x hx), fun a f x hx => h.agree a f x (hle a f x hx), h.env, h.tr⟩

/-- redefining a variable no fact mentions keeps the simulation -/
theorem Sim.setEnv {F : Facts} {s s'} (h : Sim F s s') (v : Var) (val : Int) (hv : ∀ a f x, F a f = some x → x ≠ v) :
    Sim F { s with env := Accfg.setEnv s.env v val } { s' with env := Accfg.setEnv s'.env v val } :=
  ⟨fun a f x hx => by show s.regs a f = Accfg.setEnv s.env v val x; unfold Accfg.setEnv; rw [if_neg (hv a f x hx)]; exact h.sound a f x hx,
   fun a f x hx => h.agree a f x hx, by simp only [h.env], h.tr⟩

-- side condition: every launch is total for the (forgetful) analysis
mutual
def okS : Stmt → Facts → Prop
  | .launch a lv, F => ∀ f ∈ cfg.fields a, (F a f).isSome
  | .ifS _ t e, F => okB t F ∧ okB e F
  | .forS _ _ _ _ b, F => okB b (meet F (knownB b F))
  | _, _ => True
def okB : Block → Facts → Prop
  | .nil, _ => True
  | .cons s r, F => okS s F ∧ okB r (knownS s F)
end

mutual
theorem simS : (st : Stmt) → wfS st = true → ∀ (F : Facts) (s s' : St), okS cfg st F → Sim F s s' → Avoids F (defsS st) →
    Sim (knownS st F) (execS cfg false st s) (execS cfg true st s')
  | .setup b fs, _, F, s, s', _, h, _ => by
      refine ⟨?_, ?_, h.env, h.tr⟩
      · intro a f x hx
        simp only [knownS, upd] at hx
        simp only [execS, setRegs]
        split at hx
        · rename_i hab; simp only [hab, if_true]
          cases hl : fs.lookup f with
          | some y => simp only [hl] at hx ⊢; cases hx; rfl
          | none => simp only [hl] at hx ⊢; rw [← hab]; exact h.sound a f x hx
        · rename_i hab; simp only [hab, if_false]; exact h.sound a f x hx
      · intro a f x hx
        simp only [knownS, upd] at hx
        simp only [execS, setRegs, ← h.env]
        split at hx
        · rename_i hab; simp only [hab, if_true]
          cases hl : fs.lookup f with
          | some y => simp only [hl]
          | none => simp only [hl] at hx ⊢; rw [← hab]; exact h.agree a f x hx
        · rename_i hab; simp only [hab, if_false]; exact h.agree a f x hx
  | .ghost b fs, _, F, s, s', _, h, _ => by
      refine ⟨?_, ?_, h.env, h.tr⟩
      · intro a f x hx; simp only [knownS] at hx; simpa [execS] using h.sound a f x (forget_le hx)
      · intro a f x hx
        simp only [knownS] at hx
        have hF := forget_le hx
        simp only [execS, if_true, Bool.false_eq_true, if_false, setRegs]
        by_cases hab : a = b
        · simp only [hab, if_true]
          subst hab
          cases hl : fs.lookup f with
          | none => simp only []; exact h.agree a f x hF
          | some y =>
            simp only []
            simp only [forget, if_true, hl] at hx
            split at hx
            · rename_i hy; rw [hy] at hx; cases hx
              rw [← h.env]; exact h.sound a f x hF
            · simp at hx
        · simp only [hab, if_false]; exact h.agree a f x hF
  | .launch b lv, _, F, s, s', hok, h, _ => by
      simp only [okS] at hok
      refine ⟨fun a f x hx => by simpa [execS] using h.sound a f x (by simpa [knownS] using hx),
              fun a f x hx => by simpa [execS] using h.agree a f x (by simpa [knownS] using hx), h.env, ?_⟩
      have hsnap : (cfg.fields b).map (s.regs b) = (cfg.fields b).map (s'.regs b) := by
        apply List.map_congr_left
        intro f hf
        obtain ⟨x, hx⟩ := Option.isSome_iff_exists.mp (hok f hf)
        exact h.agree b f x hx
      simp only [execS, h.tr, ← h.env, hsnap]
  | .await b, _, F, s, s', _, h, _ => by
      exact ⟨fun a f x hx => by simpa [execS] using h.sound a f x (by simpa [knownS] using hx),
             fun a f x hx => by simpa [execS] using h.agree a f x (by simpa [knownS] using hx), h.env,
             by simp only [execS, h.tr]⟩
  | .pure d op args, _, F, s, s', _, h, ha => by
      have hne : ∀ a f x, F a f = some x → x ≠ d := fun a f x hx e => ha a f x hx (by simp [defsS, e])
      have := h.setEnv d (op.eval cfg (args.map s.env)) hne
      simpa [execS, knownS, h.env] using this
  | .call tag eff, _, F, s, s', _, h, _ => by
      cases eff with
      | true =>
        exact ⟨fun a f x hx => by simp [knownS, noFacts] at hx, fun a f x hx => by simp [knownS, noFacts] at hx,
               h.env, by simp only [execS, h.tr]⟩
      | false =>
        exact ⟨fun a f x hx => by simpa [execS] using h.sound a f x (by simpa [knownS] using hx),
               fun a f x hx => by simpa [execS] using h.agree a f x (by simpa [knownS] using hx), h.env,
               by simp only [execS, h.tr]⟩
  | .ifS c t e, hwf, F, s, s', hok, h, ha => by
      simp only [wfS, Bool.and_eq_true] at hwf; simp only [okS] at hok
      simp only [knownS, execS, ← h.env]
      split
      · exact (simB t hwf.1 F s s' hok.1 h (fun a f x hx hm => ha a f x hx (by simp [defsS, hm]))).weaken
          (fun a f x hx => meet_le_left hx)
      · exact (simB e hwf.2 F s s' hok.2 h (fun a f x hx hm => ha a f x hx (by simp [defsS, hm]))).weaken
          (fun a f x hx => meet_le_right hx)
  | .forS lb ub step iv b, hwf, F, s, s', hok, h, ha => by
      simp only [wfS, Bool.and_eq_true] at hwf; simp only [okS] at hok; simp only [defsS] at ha
      have hav : Avoids (meet F (knownB b F)) (defsB b) :=
        fun a f x hx hm => ha a f x (meet_le_left hx) (by simp [hm])
      have hiv : ∀ a f x, meet F (knownB b F) a f = some x → x ≠ iv :=
        fun a f x hx e => ha a f x (meet_le_left hx) (by simp [e])
      -- one iteration, both runs
      have stepSim : ∀ (i : Nat) (l stp : Int) u u', Sim (meet F (knownB b F)) u u' →
          Sim (knownB b (meet F (knownB b F)))
            (execB cfg false b { u with env := setEnv u.env iv (l + i * stp) })
            (execB cfg true b { u' with env := setEnv u'.env iv (l + i * stp) }) :=
        fun i l stp u u' hu => simB b hwf _ _ _ hok (hu.setEnv iv _ hiv) hav
      have back : ∀ u u', Sim (knownB b (meet F (knownB b F))) u u' → Sim (meet F (knownB b F)) u u' := by
        intro u u' hu
        apply hu.weaken
        intro a f x hx
        have h1 : F a f = some x := meet_le_left hx
        have h2 : knownB b F a f = some x := meet_le_right hx
        have hloc := localB b (meet F (knownB b F)) F a f (by rw [hx, h1])
        rw [hloc, h2]
      have loop : ∀ (n k : Nat) (l stp : Int) u u', Sim (meet F (knownB b F)) u u' →
          (n = 0 ∨ Sim (knownB b (meet F (knownB b F)))
            (iterFrom (fun i u => execB cfg false b { u with env := setEnv u.env iv (l + i * stp) }) n k u)
            (iterFrom (fun i u => execB cfg true b { u with env := setEnv u.env iv (l + i * stp) }) n k u')) ∧
          Sim (meet F (knownB b F))
            (iterFrom (fun i u => execB cfg false b { u with env := setEnv u.env iv (l + i * stp) }) n k u)
            (iterFrom (fun i u => execB cfg true b { u with env := setEnv u.env iv (l + i * stp) }) n k u') := by
        intro n
        induction n with
        | zero => intro k l stp u u' hu; exact ⟨Or.inl rfl, by simpa [iterFrom] using hu⟩
        | succ n ih =>
          intro k l stp u u' hu
          have h1 := stepSim k l stp u u' hu
          have h2 := back _ _ h1
          rcases ih (k + 1) l stp _ _ h2 with ⟨hk, hk'⟩
          refine ⟨Or.inr ?_, by simpa [iterFrom] using hk'⟩
          simp only [iterFrom]
          rcases hk with rfl | hk
          · simpa [iterFrom] using h1
          · exact hk
      have h0 : Sim (meet F (knownB b F)) s s' := h.weaken (fun a f x hx => meet_le_left hx)
      simp only [knownS, execS, ← h.env]
      rcases loop (tripCount (s.env lb) (s.env ub) (s.env step)) 0 (s.env lb) (s.env step) s s' h0 with ⟨hk, _⟩
      rcases hk with hz | hk
      · rw [hz]; simpa [iterFrom] using h.weaken (fun a f x hx => meet_le_left hx)
      · exact hk.weaken (fun a f x hx => meet_le_right hx)
theorem simB : (b : Block) → wfB b = true → ∀ (F : Facts) (s s' : St), okB cfg b F → Sim F s s' → Avoids F (defsB b) →
    Sim (knownB b F) (execB cfg false b s) (execB cfg true b s')
  | .nil, _, F, s, s', _, h, _ => by simpa [knownB, execB] using h
  | .cons st r, hwf, F, s, s', hok, h, ha => by
      simp only [okB] at hok
      obtain ⟨hws, hwr, huse⟩ := wfB_cons hwf
      simp only [knownB, execB]
      have h1 := simS st hws F s s' hok.1 h (fun a f x hx hm => ha a f x hx (by simp [defsB, hm]))
      apply simB r hwr _ _ _ hok.2 h1
      intro a f x hx hmem
      rcases varsS st F a f x hx with h2 | h2
      · exact ha a f x h2 (by simp [defsB, hmem])
      · exact huse x h2 hmem
end

/-- C01/C06 core: added register writes are unobservable when every launch stays total -/
theorem ghost_writes_unobservable (b : Block) (hwf : wfB b = true) (hok : okB cfg b noFacts) (s : St) :
    (execB cfg true b s).tr = (execB cfg false b s).tr :=
  ((simB cfg b hwf _ s s hok ⟨fun a f x h => by simp [noFacts] at h, fun a f x h => by simp [noFacts] at h, rfl, rfl⟩
    (fun a f x h => by simp [noFacts] at h)).tr).symm

-- ===== C07: inference soundness (original run, no totality needed) =====
def Sound (F : Facts) (s : St) : Prop := ∀ a f x, F a f = some x → s.regs a f = s.env x

theorem Sound.setEnv {F : Facts} {s : St} (h : Sound F s) (v : Var) (val : Int) (hv : ∀ a f x, F a f = some x → x ≠ v) :
    Sound F { s with env := Accfg.setEnv s.env v val } :=
  fun a f x hx => by show s.regs a f = Accfg.setEnv s.env v val x; unfold Accfg.setEnv; rw [if_neg (hv a f x hx)]; exact h a f x hx

mutual
theorem soundS : (st : Stmt) → wfS st = true → ∀ (F : Facts) (s : St), Sound F s → Avoids F (defsS st) →
    Sound (knownS st F) (execS cfg false st s)
  | .setup b fs, _, F, s, h, _ => by
      intro a f x hx
      simp only [knownS, upd] at hx
      simp only [execS, setRegs]
      split at hx
      · rename_i hab; simp only [hab, if_true]
        cases hl : fs.lookup f with
        | some y => simp only [hl] at hx ⊢; cases hx; rfl
        | none => simp only [hl] at hx ⊢; rw [← hab]; exact h a f x hx
      · rename_i hab; simp only [hab, if_false]; exact h a f x hx
  | .ghost b fs, _, F, s, h, _ => by
      intro a f x hx; simp only [knownS] at hx; simpa [execS] using h a f x (forget_le hx)
  | .launch b lv, _, F, s, h, _ => fun a f x hx => by simpa [execS] using h a f x (by simpa [knownS] using hx)
  | .await b, _, F, s, h, _ => fun a f x hx => by simpa [execS] using h a f x (by simpa [knownS] using hx)
  | .pure d op args, _, F, s, h, ha => by
      have hne : ∀ a f x, F a f = some x → x ≠ d := fun a f x hx e => ha a f x hx (by simp [defsS, e])
      simpa [execS, knownS] using h.setEnv d (op.eval cfg (args.map s.env)) hne
  | .call tag eff, _, F, s, h, _ => by
      cases eff with
      | true => intro a f x hx; simp [knownS, noFacts] at hx
      | false => exact fun a f x hx => by simpa [execS] using h a f x (by simpa [knownS] using hx)
  | .ifS c t e, hwf, F, s, h, ha => by
      simp only [wfS, Bool.and_eq_true] at hwf
      simp only [knownS, execS]
      split
      · exact fun a f x hx => soundB t hwf.1 F s h (fun a f x hx hm => ha a f x hx (by simp [defsS, hm])) a f x (meet_le_left hx)
      · exact fun a f x hx => soundB e hwf.2 F s h (fun a f x hx hm => ha a f x hx (by simp [defsS, hm])) a f x (meet_le_right hx)
  | .forS lb ub step iv b, hwf, F, s, h, ha => by
      simp only [wfS, Bool.and_eq_true] at hwf; simp only [defsS] at ha
      have hav : Avoids (meet F (knownB b F)) (defsB b) :=
        fun a f x hx hm => ha a f x (meet_le_left hx) (by simp [hm])
      have hiv : ∀ a f x, meet F (knownB b F) a f = some x → x ≠ iv :=
        fun a f x hx e => ha a f x (meet_le_left hx) (by simp [e])
      have back : ∀ u, Sound (knownB b (meet F (knownB b F))) u → Sound (meet F (knownB b F)) u := by
        intro u hu a f x hx
        have h1 : F a f = some x := meet_le_left hx
        have h2 : knownB b F a f = some x := meet_le_right hx
        have hloc := localB b (meet F (knownB b F)) F a f (by rw [hx, h1])
        exact hu a f x (by rw [hloc, h2])
      have loop : ∀ (n k : Nat) (l stp : Int) u, Sound (meet F (knownB b F)) u →
          (n = 0 ∨ Sound (knownB b (meet F (knownB b F)))
            (iterFrom (fun i u => execB cfg false b { u with env := setEnv u.env iv (l + i * stp) }) n k u)) ∧
          Sound (meet F (knownB b F))
            (iterFrom (fun i u => execB cfg false b { u with env := setEnv u.env iv (l + i * stp) }) n k u) := by
        intro n
        induction n with
        | zero => intro k l stp u hu; exact ⟨Or.inl rfl, by simpa [iterFrom] using hu⟩
        | succ n ih =>
          intro k l stp u hu
          have h1 := soundB b hwf _ _ (hu.setEnv iv (l + k * stp) hiv) hav
          have h2 := back _ h1
          rcases ih (k + 1) l stp _ h2 with ⟨hk, hk'⟩
          refine ⟨Or.inr ?_, by simpa [iterFrom] using hk'⟩
          simp only [iterFrom]
          rcases hk with rfl | hk
          · simpa [iterFrom] using h1
          · exact hk
      have h0 : Sound (meet F (knownB b F)) s := fun a f x hx => h a f x (meet_le_left hx)
      simp only [knownS, execS]
      rcases loop (tripCount (s.env lb) (s.env ub) (s.env step)) 0 (s.env lb) (s.env step) s h0 with ⟨hk, _⟩
      rcases hk with hz | hk
      · rw [hz]; exact fun a f x hx => by simpa [iterFrom] using h a f x (meet_le_left hx)
      · exact fun a f x hx => hk a f x (meet_le_right hx)
theorem soundB : (b : Block) → wfB b = true → ∀ (F : Facts) (s : St), Sound F s → Avoids F (defsB b) →
    Sound (knownB b F) (execB cfg false b s)
  | .nil, _, F, s, h, _ => by simpa [knownB, execB] using h
  | .cons st r, hwf, F, s, h, ha => by
      obtain ⟨hws, hwr, huse⟩ := wfB_cons hwf
      simp only [knownB, execB]
      have h1 := soundS st hws F s h (fun a f x hx hm => ha a f x hx (by simp [defsB, hm]))
      apply soundB r hwr _ _ h1
      intro a f x hx hmem
      rcases varsS st F a f x hx with h2 | h2
      · exact ha a f x h2 (by simp [defsB, hmem])
      · exact huse x h2 hmem
end

/-- C07 in the unified model: with nothing assumed at function entry, every inferred fact holds after any program,
    for every environment, register file, clobber behaviour, branch outcome and trip count -/
theorem infer_sound (b : Block) (hwf : wfB b = true) (s : St) : Sound (knownB b noFacts) (execB cfg false b s) :=
  soundB cfg b hwf _ s (by intro a f x h; simp [noFacts] at h) (by intro a f x h; simp [noFacts] at h)


end SnaxVerif.Accfg
