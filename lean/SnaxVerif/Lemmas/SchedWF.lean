import SnaxVerif.Lemmas.Backtrack
/-! Well-formedness is preserved by the transformations; image invariant of the backtracking. -/
namespace SnaxVerif.Sched
open List

theorem rotate_ok {d : Nat} {s s1 : Schedule} (h : rotate d s = .ok s1) :
    s1 = rotateRaw d s ∧ d ≤ s.n ∧ s.n ≠ 0 := by
  unfold rotate at h
  split at h
  · simp at h
  · next hc =>
    simp only [Except.ok.injEq] at h
    exact ⟨h.symm, by omega, by omega⟩

theorem tile_ok {i t : Nat} {s c : Schedule} (h : tile i t s = .ok c) :
    c = tileRaw i t s ∧ i < s.n ∧ t ≠ 0 ∧ s.bounds.getD i 0 / t ≠ 0 := by
  unfold tile at h
  split at h
  · simp at h
  · split at h
    · simp at h
    · split at h
      · simp at h
      · simp only [Except.ok.injEq] at h
        exact ⟨h.symm, by omega, by assumption, by assumption⟩

theorem length_rotList {α} (d : Nat) (l : List α) (h1 : 1 ≤ d) (hd : d ≤ l.length) :
    (rotList d l).length = l.length := by
  simp only [rotList, length_append, length_drop, length_take]
  omega

theorem mem_rotList {α} {d : Nat} {l : List α} {a : α} (h : a ∈ rotList d l) : a ∈ l := by
  simp only [rotList, mem_append] at h
  rcases h with (h | h) | h
  · exact mem_of_mem_take (mem_of_mem_drop h)
  · exact mem_of_mem_take h
  · exact mem_of_mem_drop h

theorem WF_rotateRaw {d : Nat} {s : Schedule} (hwf : WF s) (h1 : 1 ≤ d) (hd : d ≤ s.n) : WF (rotateRaw d s) := by
  refine ⟨fun b hb => hwf.1 b (mem_rotList hb), ?_⟩
  intro o ho r hr
  simp only [rotateRaw, mem_map] at ho
  obtain ⟨o', ho', rfl⟩ := ho
  simp only [Operand.mapRows, mem_map] at hr
  obtain ⟨r', hr', rfl⟩ := hr
  have := hwf.2 o' ho' r' hr'
  simp only [rotateRaw]
  have hn : s.n = s.bounds.length := rfl
  rw [length_rotList d r' h1 (by omega), length_rotList d s.bounds h1 (by omega), this]

theorem mem_tileList {α} {x y a : α} {i : Nat} {l : List α} (h : a ∈ tileList x y i l) : a = x ∨ a = y ∨ a ∈ l := by
  simp only [tileList, mem_append, mem_cons] at h
  rcases h with (h | h | h | h) | h
  · exact Or.inr (Or.inr (mem_of_mem_take h))
  · exact Or.inl h
  · exact Or.inr (Or.inl h)
  · simp at h
  · exact Or.inr (Or.inr (mem_of_mem_drop h))

theorem WF_tileRaw {i t : Nat} {s : Schedule} (hwf : WF s) (hi : i < s.n) (ht : t ≠ 0)
    (hq : s.bounds.getD i 0 / t ≠ 0) : WF (tileRaw i t s) := by
  refine ⟨?_, ?_⟩
  · intro b hb
    rcases mem_tileList hb with rfl | rfl | hb
    · exact Nat.pos_of_ne_zero hq
    · exact Nat.pos_of_ne_zero ht
    · exact hwf.1 b hb
  · intro o ho r hr
    simp only [tileRaw, mem_map] at ho
    obtain ⟨o', ho', rfl⟩ := ho
    simp only [Operand.mapRows, mem_map] at hr
    obtain ⟨r', hr', rfl⟩ := hr
    have := hwf.2 o' ho' r' hr'
    simp only [tileRaw, tileRow]
    have hn : s.n = s.bounds.length := rfl
    rw [length_tileList _ _ _ _ (by omega), length_tileList _ _ _ _ (by omega), this]

theorem length_keepBy_eq {α β} : ∀ (m : List Bool) (a : List α) (b : List β), a.length = b.length →
    (keepBy m a).length = (keepBy m b).length
  | [], a, b, _ => by cases a <;> cases b <;> simp [keepBy]
  | m :: ms, [], [], _ => by simp [keepBy]
  | m :: ms, [], _ :: _, h => by simp at h
  | m :: ms, _ :: _, [], h => by simp at h
  | m :: ms, x :: a, y :: b, h => by
    have ih := length_keepBy_eq ms a b (by simpa using h)
    cases m <;> simp [keepBy, ih]

theorem mem_keepBy {α} : ∀ {m : List Bool} {l : List α} {a : α}, a ∈ keepBy m l → a ∈ l
  | [], l, a, h => by cases l <;> simp [keepBy] at h
  | m :: ms, [], a, h => by simp [keepBy] at h
  | m :: ms, x :: l, a, h => by
    cases m with
    | false => simp only [keepBy] at h; exact mem_cons_of_mem _ (mem_keepBy (by simpa using h))
    | true =>
      simp only [keepBy, if_true, mem_cons] at h
      rcases h with rfl | h
      · simp
      · exact mem_cons_of_mem _ (mem_keepBy h)

theorem WF_maskSched {mask : List Bool} {s : Schedule} (hwf : WF s) : WF (maskSched mask s) := by
  refine ⟨fun b hb => hwf.1 b (mem_keepBy hb), ?_⟩
  intro o ho r hr
  simp only [maskSched, mem_map] at ho
  obtain ⟨o', ho', rfl⟩ := ho
  simp only [Operand.mapRows, mem_map] at hr
  obtain ⟨r', hr', rfl⟩ := hr
  exact length_keepBy_eq mask r' s.bounds (hwf.2 o' ho' r' hr')

theorem canonicalize_eq_clearUnused (s : Schedule) : canonicalize s = clearUnused s := rfl

/-- one loop iteration keeps well-formedness and the image (up to order), also for the candidate -/
theorem btStep_image {mtch : Template → Schedule → Except Err Bool} {checks : List (Template → Schedule → Bool)}
    {tmpl : Template} {k : Nat} {s s1 : Schedule} {cand : Option Schedule} (hwf : WF s) (_hk : k ≤ s.n)
    (h : btStep mtch checks tmpl k s = .ok (s1, cand)) :
    (WF s1 ∧ (imageS s1).Perm (imageS s)) ∧ s1.n = s.n ∧
    ∀ c, cand = some c → WF c ∧ (imageS c).Perm (imageS s) := by
  obtain ⟨hrot, hk0, hc⟩ := btStep_ok h
  obtain ⟨rfl, hd, _⟩ := rotate_ok hrot
  have h1 : 1 ≤ s.n - k + 1 := by omega
  have hd' : s.n - k + 1 ≤ s.n := by omega
  have hwf1 := WF_rotateRaw hwf h1 hd'
  have him1 := rotateRaw_image _ s hwf h1 hd'
  have hn1 : (rotateRaw (s.n - k + 1) s).n = s.n := by
    simp only [rotateRaw]; exact length_rotList _ _ h1 hd'
  refine ⟨⟨hwf1, him1⟩, hn1, ?_⟩
  intro c hcand
  obtain ⟨_, _, hcase⟩ := hc c hcand
  rcases hcase with ⟨rfl, _⟩ | ⟨htb, hmod, htile⟩
  · exact ⟨hwf1, him1⟩
  · obtain ⟨rfl, hi, ht, hq⟩ := tile_ok htile
    refine ⟨WF_tileRaw hwf1 hi ht hq, ?_⟩
    rw [tileRaw_image _ _ _ hwf1 hi hmod]
    exact him1

end SnaxVerif.Sched

namespace SnaxVerif.Sched
open List

/-- what the constructor accepts is well-formed: the `WF` hypothesis of the C03/C16 theorems is exactly the
guard of `SchedulePattern.__init__` -/
theorem construct_wf {bounds : List Int} {ops : List Operand} {s : Schedule}
    (h : construct bounds ops = .ok s) : WF s := by
  unfold construct at h
  split at h
  · simp at h
  · next hb =>
    split at h
    · simp at h
    · next ho =>
      simp only [Except.ok.injEq] at h
      subst h
      refine ⟨?_, ?_⟩
      · intro b hbm
        simp only [mem_map] at hbm
        obtain ⟨z, hz, rfl⟩ := hbm
        have : ¬ z ≤ 0 := by
          intro hz0
          exact hb (List.any_eq_true.mpr ⟨z, hz, by simpa using hz0⟩)
        omega
      · intro o hom r hr
        simp only [length_map]
        by_contra hne
        exact ho (List.any_eq_true.mpr ⟨o, hom, List.any_eq_true.mpr ⟨r, hr, by simpa using hne⟩⟩)

end SnaxVerif.Sched
