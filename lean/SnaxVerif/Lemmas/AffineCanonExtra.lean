import SnaxVerif.Lemmas.Affine
/-! Facts about the affine canonicaliser added in the deepening round (C19). Core Lean only. -/
namespace SnaxVerif
namespace AExpr

theorem smartAdd_nonconst (s o : AExpr) (hs : s.isConst = false) (ho : o.isConst = false) :
    smartAdd s o = bin .add s o := by
  unfold smartAdd
  split
  · simp [isConst] at hs
  · simp [isConst] at hs
  · simp [isConst] at ho
  · rfl

theorem constRight_fst_nonconst (l r : AExpr) (h : ¬ (l.isConst = true ∧ r.isConst = true)) :
    (constRight l r).1.isConst = false := by
  unfold constRight
  split
  · next hl => simp only []; cases hr : r.isConst with
    | false => rfl
    | true => exact absurd ⟨hl, hr⟩ h
  · next hl => simpa using hl

theorem getDim_some_nonconst (e : AExpr) (d : Nat) (h : getDim e = some d) : e.isConst = false := by
  cases e <;> simp_all [getDim, isConst]

/-- The branch "xdsl already simplified the sum: return new_expr" of `canonicalize_addition` (added by
fix F18 in front of the operand swap) is dead: when the swap fires, neither operand is a constant, so
xDSL's smart `+` builds a plain `Add`. -/
theorem addOrder_swap_is_add (l r : AExpr) (hl : l.isConst = false) (hre : addReorder l r = true) :
    smartAdd r l = bin .add r l := by
  apply smartAdd_nonconst r l _ hl
  unfold addReorder at hre
  cases hd : getDim r with
  | none => simp [hd] at hre
  | some d => exact getDim_some_nonconst r d hd

end AExpr
end SnaxVerif
