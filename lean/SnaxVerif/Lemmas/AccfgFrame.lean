import SnaxVerif.Lemmas.AccfgRules
/-! Frame lemmas for the accfg semantics: side-effect-free code, untouched variables, block append. -/
namespace SnaxVerif.Accfg

variable (cfg : Cfg)

theorem iterFrom_inv {σ} (f : Nat → σ → σ) (P : σ → Prop) (hP : ∀ i s, P s → P (f i s)) :
    ∀ n k s, P s → P (iterFrom f n k s)
  | 0, _, _, h => h
  | n+1, k, s, h => by simp only [iterFrom]; exact iterFrom_inv f P hP n (k+1) _ (hP k s h)

/-- relational version: two runs of (possibly different) iteration functions stay related -/
theorem iterFrom_rel {σ τ} (f : Nat → σ → σ) (g : Nat → τ → τ) (R : σ → τ → Prop)
    (hR : ∀ i s t, R s t → R (f i s) (g i t)) : ∀ n k s t, R s t → R (iterFrom f n k s) (iterFrom g n k t)
  | 0, _, _, _, h => h
  | n+1, k, s, t, h => by simp only [iterFrom]; exact iterFrom_rel f g R hR n (k+1) _ _ (hR k s t h)

theorem execB_append (gh : Bool) : (b c : Block) → ∀ st, execB cfg gh (b.append c) st = execB cfg gh c (execB cfg gh b st)
  | .nil, c, st => by simp [Block.append, execB]
  | .cons s r, c, st => by simp only [Block.append, execB]; exact execB_append gh r c _

theorem ofList_append (l1 l2 : List Stmt) : Block.ofList (l1 ++ l2) = (Block.ofList l1).append (Block.ofList l2) := by
  induction l1 with
  | nil => rfl
  | cons s r ih => simp [Block.ofList, Block.append, ih]

theorem ofList_toList : (b : Block) → Block.ofList b.toList = b
  | .nil => rfl
  | .cons s r => by simp [Block.toList, Block.ofList, ofList_toList r]

/-- Side-effect-free code neither reads nor writes the registers and emits no event. -/
def RegsIrrelevant (gh : Bool) (f : St → St) : Prop :=
  ∀ st R T, f { st with regs := R, tr := T } = { f st with regs := R, tr := T }

mutual
theorem sefS_frame (gh : Bool) : (s : Stmt) → sefS s = true → ∀ (st : St) (R : Regs) (T : List Event),
    execS cfg gh s { st with regs := R, tr := T } = { execS cfg gh s st with regs := R, tr := T }
  | .pure d op args, _, st, R, T => by simp [execS]
  | .ifS c t e, h, st, R, T => by
      simp only [sefS, Bool.and_eq_true] at h
      simp only [execS]
      split
      · exact sefB_frame gh t h.1 st R T
      · exact sefB_frame gh e h.2 st R T
  | .forS lb ub step iv b, h, st, R, T => by
      simp only [sefS] at h
      simp only [execS]
      exact iterFrom_rel _ _ (fun (u v : St) => u = { v with regs := R, tr := T })
        (fun i u v huv => by
          subst huv
          exact sefB_frame gh b h { v with env := setEnv v.env iv (st.env lb + ↑i * st.env step) } R T)
        _ 0 _ _ rfl
  | .setup _ _, h, _, _, _ => by simp [sefS] at h
  | .ghost _ _, h, _, _, _ => by simp [sefS] at h
  | .launch _ _, h, _, _, _ => by simp [sefS] at h
  | .await _, h, _, _, _ => by simp [sefS] at h
  | .call _ _, h, _, _, _ => by simp [sefS] at h
theorem sefB_frame (gh : Bool) : (b : Block) → sefB b = true → ∀ (st : St) (R : Regs) (T : List Event),
    execB cfg gh b { st with regs := R, tr := T } = { execB cfg gh b st with regs := R, tr := T }
  | .nil, _, st, R, T => by simp [execB]
  | .cons s r, h, st, R, T => by
      simp only [sefB, Bool.and_eq_true] at h
      simp only [execB]
      rw [sefS_frame gh s h.1 st R T]
      exact sefB_frame gh r h.2 _ R T
end

theorem sefB_regs (gh : Bool) (b : Block) (h : sefB b = true) (st : St) :
    (execB cfg gh b st).regs = st.regs ∧ (execB cfg gh b st).tr = st.tr := by
  have := sefB_frame cfg gh b h st st.regs st.tr
  have e : ({ st with regs := st.regs, tr := st.tr } : St) = st := rfl
  rw [e] at this
  constructor
  · rw [this]
  · rw [this]

/- A variable that the code does not define keeps its value. -/
mutual
theorem envS_frame (gh : Bool) : (s : Stmt) → ∀ (x : Var), x ∉ defsS s → ∀ st, (execS cfg gh s st).env x = st.env x
  | .setup _ _, _, _, _ => rfl
  | .ghost _ _, _, _, st => by simp only [execS]; split <;> rfl
  | .launch _ _, _, _, _ => rfl
  | .await _, _, _, _ => rfl
  | .call _ _, _, _, _ => rfl
  | .pure d op args, x, hx, st => by
      have : x ≠ d := by simpa [defsS] using hx
      simp [execS, setEnv, this]
  | .ifS c t e, x, hx, st => by
      simp only [defsS, List.mem_append, not_or] at hx
      simp only [execS]
      split
      · exact envB_frame gh t x hx.1 st
      · exact envB_frame gh e x hx.2 st
  | .forS lb ub step iv b, x, hx, st => by
      simp only [defsS, List.mem_cons, not_or] at hx
      simp only [execS]
      exact iterFrom_inv _ (fun (u : St) => u.env x = st.env x)
        (fun i u hu => by
          rw [envB_frame gh b x hx.2]
          simp [setEnv, hx.1, hu]) _ 0 st rfl
theorem envB_frame (gh : Bool) : (b : Block) → ∀ (x : Var), x ∉ defsB b → ∀ st, (execB cfg gh b st).env x = st.env x
  | .nil, _, _, _ => rfl
  | .cons s r, x, hx, st => by
      simp only [defsB, List.mem_append, not_or] at hx
      simp only [execB]
      rw [envB_frame gh r x hx.2, envS_frame gh s x hx.1]
end

end SnaxVerif.Accfg
