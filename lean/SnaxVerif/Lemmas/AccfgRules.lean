import SnaxVerif.Lemmas.AccfgPoints
import SnaxVerif.Model.AccfgRules
/-! Rewrites at a position preserve the execution when the local rewrite does (C01). -/
namespace SnaxVerif.Accfg

variable (cfg : Cfg)

theorem iterFrom_congr {σ} (f g : Nat → σ → σ) (P : σ → Prop) (hP : ∀ i s, P s → P (f i s))
    (hfg : ∀ i s, P s → g i s = f i s) : ∀ n k s, P s → iterFrom g n k s = iterFrom f n k s
  | 0, _, _, _ => rfl
  | n+1, k, s, h => by
      simp only [iterFrom]; rw [hfg k s h]; exact iterFrom_congr f g P hP hfg n (k + 1) (f k s) (hP k s h)

theorem nodupB_cons {s : Stmt} {r : Block} (h : nodupB (.cons s r) = true) : nodupS s = true ∧ nodupB r = true := by
  simpa [nodupB] using h

/-- a local rewrite that keeps the machine state of the block it rewrites, whenever the facts in front
of the block hold -/
def LocalOK (rw : Facts → Block → Nat → Option Block) : Prop :=
  ∀ F b i b', rw F b i = some b' → wfB b = true → nodupB b = true →
    ∀ st, Sound F st → Avoids F (defsB b) → execB cfg false b' st = execB cfg false b st

mutual
theorem rewriteS_exec {rw} (hrw : LocalOK cfg rw) : (s : Stmt) → ∀ (k : Nat) (p : List Nat) (F : Facts) (s' : Stmt),
    rewriteS rw k p s F = some s' → wfS s = true → nodupS s = true →
    ∀ st, Sound F st → Avoids F (defsS s) → execS cfg false s' st = execS cfg false s st
  | .ifS c t e, k, p, F, s', h, hwf, hn, st, hs, ha => by
      simp only [wfS, Bool.and_eq_true] at hwf; simp only [nodupS, Bool.and_eq_true] at hn
      simp only [rewriteS] at h
      split at h
      · simp only [Option.map_eq_some_iff] at h
        obtain ⟨t', ht, rfl⟩ := h
        simp only [execS]
        split
        · exact rewriteB_exec hrw t p F t' ht hwf.1 hn.1 st hs (fun a f x hx hm => ha a f x hx (by simp [defsS, hm]))
        · rfl
      · split at h
        · simp only [Option.map_eq_some_iff] at h
          obtain ⟨e', he, rfl⟩ := h
          simp only [execS]
          split
          · rfl
          · exact rewriteB_exec hrw e p F e' he hwf.2 hn.2 st hs (fun a f x hx hm => ha a f x hx (by simp [defsS, hm]))
        · cases h
  | .forS lb ub step iv b, k, p, F, s', h, hwf, hn, st, hs, ha => by
      simp only [wfS] at hwf; simp only [nodupS] at hn; simp only [defsS] at ha
      simp only [rewriteS] at h
      split at h
      · simp only [Option.map_eq_some_iff] at h
        obtain ⟨b', hb, rfl⟩ := h
        simp only [execS]
        have hav : Avoids (headFacts b F) (defsB b) :=
          fun a f x hx hm => ha a f x (meet_le_left hx) (by simp [hm])
        have hiv : ∀ a f x, headFacts b F a f = some x → x ≠ iv :=
          fun a f x hx e => ha a f x (meet_le_left hx) (by simp [e])
        have h0 : Sound (headFacts b F) st := fun a f x hx => hs a f x (meet_le_left hx)
        exact iterFrom_congr _ _ (Sound (headFacts b F))
          (fun i u hu => head_step cfg b hwf F iv ha (st.env lb) (st.env step) i u hu)
          (fun i u hu => rewriteB_exec hrw b p _ b' hb hwf hn _ (hu.setEnv iv _ hiv) hav) _ _ _ h0
      · cases h
  | .setup _ _, _, _, _, _, h, _, _, _, _, _ => by simp [rewriteS] at h
  | .ghost _ _, _, _, _, _, h, _, _, _, _, _ => by simp [rewriteS] at h
  | .launch _ _, _, _, _, _, h, _, _, _, _, _ => by simp [rewriteS] at h
  | .await _, _, _, _, _, h, _, _, _, _, _ => by simp [rewriteS] at h
  | .pure _ _ _, _, _, _, _, h, _, _, _, _, _ => by simp [rewriteS] at h
  | .call _ _, _, _, _, _, h, _, _, _, _, _ => by simp [rewriteS] at h
theorem rewriteB_exec {rw} (hrw : LocalOK cfg rw) : (b : Block) → ∀ (path : List Nat) (F : Facts) (b' : Block),
    rewriteB rw path b F = some b' → wfB b = true → nodupB b = true →
    ∀ st, Sound F st → Avoids F (defsB b) → execB cfg false b' st = execB cfg false b st
  | b, [i], F, b', h, hwf, hn, st, hs, ha => by
      simp only [rewriteB] at h
      exact hrw F b i b' h hwf hn st hs ha
  | .cons s r, 0 :: k :: p, F, b', h, hwf, hn, st, hs, ha => by
      simp only [rewriteB, Option.map_eq_some_iff] at h
      obtain ⟨s', hs', rfl⟩ := h
      obtain ⟨hws, _, _⟩ := wfB_cons hwf
      simp only [execB]
      rw [rewriteS_exec hrw s k p F s' hs' hws (nodupB_cons hn).1 st hs
        (fun a f x hx hm => ha a f x hx (by simp [defsB, hm]))]
  | .cons s r, (i+1) :: k :: p, F, b', h, hwf, hn, st, hs, ha => by
      simp only [rewriteB, Option.map_eq_some_iff] at h
      obtain ⟨r', hr', rfl⟩ := h
      obtain ⟨hws, hwr, huse⟩ := wfB_cons hwf
      simp only [execB]
      have hA : Avoids F (defsS s) := fun a f x hx hm => ha a f x hx (by simp [defsB, hm])
      apply rewriteB_exec hrw r (i :: k :: p) _ r' hr' hwr (nodupB_cons hn).2 _ (soundS cfg s hws F st hs hA)
      intro a f x hx hmem
      rcases varsS s F a f x hx with h2 | h2
      · exact ha a f x h2 (by simp [defsB, hmem])
      · exact huse x h2 hmem
  | .nil, [], _, _, h, _, _, _, _, _ => by simp [rewriteB] at h
  | .nil, _ :: _ :: _, _, _, h, _, _, _, _, _ => by simp [rewriteB] at h
  | .cons _ _, [], _, _, h, _, _, _, _, _ => by simp [rewriteB] at h
end

/-! ### simplify -/

theorem lookup_filter (P : Field × Var → Bool) : ∀ (fs : List (Field × Var)) (f : Field),
    (fs.map (·.1)).Nodup →
    (fs.filter P).lookup f = match fs.lookup f with
      | some x => if P (f, x) then some x else none
      | none => none
  | [], f, _ => by simp
  | (k, v) :: rest, f, hnd => by
    have hnd' : (rest.map (·.1)).Nodup := (List.nodup_cons.mp hnd).2
    have hk : k ∉ rest.map (·.1) := (List.nodup_cons.mp hnd).1
    have ih := lookup_filter P rest f hnd'
    by_cases hfk : f = k
    · subst hfk
      have hnone : rest.lookup f = none := by
        rw [List.lookup_eq_none_iff]
        intro p hp
        have : f ≠ p.1 := fun e => hk (by simp only [List.mem_map]; exact ⟨p, hp, e.symm⟩)
        simpa using this
      by_cases hP : P (f, v)
      · simp [List.filter_cons, hP, List.lookup_cons]
      · simp only [List.filter_cons, hP, Bool.false_eq_true, if_false, List.lookup_cons, beq_self_eq_true]
        rw [ih, hnone]
    · have hne : (f == k) = false := by simpa using hfk
      by_cases hP : P (k, v)
      · simp [List.filter_cons, hP, List.lookup_cons, hne, ih]
      · simp [List.filter_cons, hP, List.lookup_cons, hne, ih]

theorem setRegs_dropKnown {F : Facts} {s : St} (a : AccId) (fs : List (Field × Var))
    (hs : Sound F s) (hnd : (fs.map (·.1)).Nodup) :
    setRegs s.regs s.env a (dropKnown F a fs) = setRegs s.regs s.env a fs := by
  funext a' f
  simp only [setRegs, dropKnown]
  split
  · rename_i hab; subst hab
    rw [lookup_filter _ fs f hnd]
    cases h1 : fs.lookup f with
    | none => rfl
    | some x =>
      simp only
      by_cases hk : F a' f = some x
      · simp only [hk, bne_self_eq_false, Bool.false_eq_true, if_false]
        exact hs a' f x hk
      · simp [hk]
  · rfl


theorem simplifyRw_ok' : (b : Block) → ∀ (F : Facts) (i : Nat) (b' : Block), simplifyRw F b i = some b' →
    wfB b = true → nodupB b = true → ∀ st, Sound F st → Avoids F (defsB b) →
    execB cfg false b' st = execB cfg false b st
  | .nil, F, i, b', h, _, _, _, _, _ => by simp [simplifyRw] at h
  | .cons s r, F, 0, b', h, hwf, hn, st, hs, ha => by
      cases s with
      | setup a fs =>
        simp only [simplifyRw] at h
        split at h
        · cases h
        · injection h with h; subst h
          have hnd : (fs.map (·.1)).Nodup := by
            have := (nodupB_cons hn).1; simpa [nodupS] using this
          simp only [execB, execS]
          rw [setRegs_dropKnown a fs hs hnd]
      | _ => simp [simplifyRw] at h
  | .cons s r, F, i+1, b', h, hwf, hn, st, hs, ha => by
      obtain ⟨hws, hwr, huse⟩ := wfB_cons hwf
      simp only [simplifyRw, Option.map_eq_some_iff] at h
      obtain ⟨r', hr', rfl⟩ := h
      simp only [execB]
      have hA : Avoids F (defsS s) := fun a f x hx hm => ha a f x hx (by simp [defsB, hm])
      apply simplifyRw_ok' r _ i r' hr' hwr (nodupB_cons hn).2 _ (soundS cfg s hws F st hs hA)
      intro a f x hx hmem
      rcases varsS s F a f x hx with h2 | h2
      · exact ha a f x h2 (by simp [defsB, hmem])
      · exact huse x h2 hmem

theorem simplifyRw_ok : LocalOK cfg simplifyRw :=
  fun F b i b' h hwf hn st hs ha => simplifyRw_ok' cfg b F i b' h hwf hn st hs ha

/-! ### elide -/

theorem setRegs_nil (r : Regs) (env : Env) (a : AccId) : setRegs r env a [] = r := by
  funext a' f; simp [setRegs]

theorem elideRw_ok' : (b : Block) → ∀ (L : AccId → Bool) (F : Facts) (i : Nat) (b' : Block),
    elideRw L F b i = some b' → ∀ st, execB cfg false b' st = execB cfg false b st
  | .nil, L, F, i, b', h, _ => by simp [elideRw] at h
  | .cons s r, L, F, 0, b', h, st => by
      simp only [elideRw] at h
      split at h
      · split at h
        · injection h with h; subst h
          simp only [execB, execS, setRegs_nil]
        · cases h
      · cases h
  | .cons s r, L, F, i+1, b', h, st => by
      simp only [elideRw, Option.map_eq_some_iff] at h
      obtain ⟨r', hr', rfl⟩ := h
      simp only [execB]
      exact elideRw_ok' r _ F i r' hr' _

theorem elideRw_ok (L : AccId → Bool) : LocalOK cfg (elideRw L) :=
  fun F b i b' h _ _ st _ _ => elideRw_ok' cfg b L F i b' h st

end SnaxVerif.Accfg
