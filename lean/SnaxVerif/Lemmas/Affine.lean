import SnaxVerif.Model.Affine
/-! Helper lemmas for the affine-expression model (C19, C10). -/
namespace SnaxVerif
namespace AExpr

/-- `r` evaluates to the same value wherever `e` evaluates (Python: does not raise). -/
def Refines (e r : AExpr) : Prop := ∀ env v, e.eval env = some v → r.eval env = some v

theorem Refines.refl (e : AExpr) : Refines e e := fun _ _ h => h
theorem Refines.trans {a b c : AExpr} (h1 : Refines a b) (h2 : Refines b c) : Refines a c :=
  fun env v h => h2 env v (h1 env v h)
theorem Refines.of_eq {a b : AExpr} (h : ∀ env, b.eval env = a.eval env) : Refines a b :=
  fun env v hv => by rw [h env]; exact hv

@[simp] theorem eval_dim (env : Nat → Int) (i : Nat) : (dim i).eval env = some (env i) := rfl
@[simp] theorem eval_const (env : Nat → Int) (c : Int) : (const c).eval env = some c := rfl
theorem eval_bin (env : Nat → Int) (k : BinKind) (a b : AExpr) :
    (bin k a b).eval env = (a.eval env).bind fun x => (b.eval env).bind fun y => evalBin k x y := rfl

theorem smartAddC_eval (env : Nat → Int) : ∀ (s : AExpr) (c : Int),
    (smartAddC s c).eval env = (bin .add s (const c)).eval env := by
  intro s
  induction s with
  | dim i => intro c; unfold smartAddC; split <;> simp_all [eval_bin, evalBin]
  | const a => intro c; simp [smartAddC, eval_bin, evalBin]
  | bin k l r ihl ihr =>
    intro c
    unfold smartAddC
    split
    · cases ‹bin k l r = const _›
    · next l' r' c' heq =>
      injection heq with hk hl hr
      subst hk hl hr
      split
      · subst_vars; simp [eval_bin, evalBin]
      · rw [ihl]; simp [eval_bin, evalBin]; cases eval env l <;> simp [Int.add_assoc]
    · split
      · subst_vars; simp [eval_bin (k := .add) (b := const 0), evalBin]
      · rfl

theorem smartAdd_eval (env : Nat → Int) (s o : AExpr) :
    (smartAdd s o).eval env = (bin .add s o).eval env := by
  unfold smartAdd
  split
  · simp [eval_bin, evalBin, Int.add_comm]
  · rw [smartAddC_eval]; simp [eval_bin, evalBin]; cases eval env o <;> simp [Int.add_comm]
  · rw [smartAddC_eval]
  · rfl

theorem smartMulC_eval (env : Nat → Int) : ∀ (s : AExpr) (c : Int),
    (smartMulC s c).eval env = (bin .mul s (const c)).eval env := by
  intro s
  induction s with
  | dim i => intro c; unfold smartMulC; split <;> simp_all [eval_bin, evalBin]
  | const a => intro c; simp [smartMulC, eval_bin, evalBin]
  | bin k l r ihl ihr =>
    intro c
    unfold smartMulC
    split
    · cases ‹bin k l r = const _›
    · next l' r' c' heq =>
      injection heq with hk hl hr
      subst hk hl hr
      split
      · subst_vars; simp [eval_bin, evalBin]
      · rw [ihl]; simp [eval_bin, evalBin]; cases eval env l <;> simp [Int.mul_assoc]
    · next l' r' heq =>
      injection heq with hk hl hr
      subst hk hl hr
      split
      · subst_vars; simp [eval_bin (k := .mul) (b := const 1), evalBin]
      · rw [smartAdd_eval, eval_bin, ihl, ihr]; simp [eval_bin, evalBin]
        cases eval env l <;> cases eval env r <;> simp [Int.add_mul]
    · split
      · subst_vars; simp [eval_bin (k := .mul) (b := const 1), evalBin]
      · rfl

theorem add_comm_eval (env : Nat → Int) (a b : AExpr) :
    (bin .add a b).eval env = (bin .add b a).eval env := by
  simp [eval_bin, evalBin]; cases eval env a <;> cases eval env b <;> simp [Int.add_comm]

theorem mul_comm_eval (env : Nat → Int) (a b : AExpr) :
    (bin .mul a b).eval env = (bin .mul b a).eval env := by
  simp [eval_bin, evalBin]; cases eval env a <;> cases eval env b <;> simp [Int.mul_comm]

theorem add_assoc_eval (env : Nat → Int) (a b c : AExpr) :
    (bin .add a (bin .add b c)).eval env = (bin .add (bin .add a b) c).eval env := by
  simp [eval_bin, evalBin]
  cases eval env a <;> cases eval env b <;> cases eval env c <;> simp [Int.add_assoc]

theorem add_congr_eval (env : Nat → Int) {a a' b b' : AExpr} (k : BinKind)
    (ha : a'.eval env = a.eval env) (hb : b'.eval env = b.eval env) :
    (bin k a' b').eval env = (bin k a b).eval env := by
  simp [eval_bin, ha, hb]

theorem addAssoc_eval (env : Nat → Int) (l r : AExpr) :
    (addAssoc l r).eval env = (bin .add l r).eval env := by
  unfold addAssoc
  split
  · rw [smartAdd_eval, add_congr_eval env .add rfl (smartAdd_eval env _ _), add_assoc_eval]
  · rfl

theorem addOrder_eval (env : Nat → Int) (l r : AExpr) :
    (addOrder l r).eval env = (bin .add l r).eval env := by
  unfold addOrder
  split
  · split
    · next l' r' heq => rw [addAssoc_eval, ← heq, smartAdd_eval, add_comm_eval]
    · rw [smartAdd_eval, add_comm_eval]
  · exact addAssoc_eval env l r

theorem constRight_add (env : Nat → Int) (l r : AExpr) :
    (bin .add (constRight l r).1 (constRight l r).2).eval env = (bin .add l r).eval env := by
  unfold constRight; split
  · exact add_comm_eval env _ _
  · rfl

theorem constRight_mul (env : Nat → Int) (l r : AExpr) :
    (bin .mul (constRight l r).1 (constRight l r).2).eval env = (bin .mul l r).eval env := by
  unfold constRight; split
  · exact mul_comm_eval env _ _
  · rfl

theorem canonAdd_eval (env : Nat → Int) (l r : AExpr) :
    (canonAdd l r).eval env = (bin .add l r).eval env := by
  unfold canonAdd
  split
  · simp [eval_bin, evalBin]
  · simp only []
    split
    · next h =>
      rw [← constRight_add env l r, h]; simp [eval_bin, evalBin]
    · rw [addOrder_eval, constRight_add]

theorem mulDistribute_eval (env : Nat → Int) (l r : AExpr) :
    (mulDistribute l r).eval env = (bin .mul l r).eval env := by
  unfold mulDistribute
  split
  · next c =>
    split
    · next h => subst h; simp [eval_bin, evalBin]
    · split
      · next ll lr =>
        rw [smartAdd_eval, add_congr_eval env .add (smartMulC_eval env _ _) (smartMulC_eval env _ _)]
        simp [eval_bin, evalBin]
        cases eval env ll <;> cases eval env lr <;> simp [Int.add_mul]
      · rfl
  · rfl

theorem canonMul_eval (env : Nat → Int) (l r : AExpr) :
    (canonMul l r).eval env = (bin .mul l r).eval env := by
  unfold canonMul
  split
  · simp [eval_bin, evalBin]
  · simp only []
    rw [mulDistribute_eval, constRight_mul]

theorem canonFdiv_eval (env : Nat → Int) (l r : AExpr) :
    (canonFdiv l r).eval env = (bin .fdiv l r).eval env := by
  unfold canonFdiv
  split
  · next h => subst h; simp [eval_bin, evalBin]
  · rfl

theorem canonMod_refines (l r : AExpr) : Refines (bin .mod l r) (canonMod l r) := by
  intro env v h
  unfold canonMod
  split
  · next hr =>
    subst hr
    simp [eval_bin, evalBin] at h
    cases hl : eval env l with
    | none => simp [hl] at h
    | some x => simp [hl] at h; simp [← h]
  · exact h

theorem canonRule_refines (k : BinKind) (l r : AExpr) : Refines (bin k l r) (canonRule k l r) := by
  cases k
  · exact Refines.of_eq (fun env => canonAdd_eval env l r)
  · exact Refines.of_eq (fun env => canonMul_eval env l r)
  · exact Refines.of_eq (fun env => canonFdiv_eval env l r)
  · exact canonMod_refines l r
  · exact Refines.refl _

theorem Refines.bin (k : BinKind) {a a' b b' : AExpr} (ha : Refines a a') (hb : Refines b b') :
    Refines (bin k a b) (bin k a' b') := by
  intro env v h
  rw [eval_bin] at h ⊢
  cases hx : eval env a with
  | none => simp [hx] at h
  | some x =>
    cases hy : eval env b with
    | none => simp [hx, hy] at h
    | some y =>
      rw [ha env x hx, hb env y hy]
      simpa [hx, hy] using h

/-- Soundness of the fuelled canonicaliser: wherever the original evaluates, the result
evaluates to the same value. -/
theorem canon_refines : ∀ (f : Nat) (e r : AExpr), canon f e = some r → Refines e r := by
  intro f
  induction f with
  | zero => intro e r h; simp [canon] at h
  | succ f ih =>
    intro e r h
    unfold canon at h
    split at h
    · injection h with h; subst h; exact Refines.refl _
    · injection h with h; subst h; exact Refines.refl _
    · next k l r0 =>
      split at h
      · next l' r' hl hr =>
        have hstep : Refines (.bin k l r0) (canonRule k l' r') :=
          (Refines.bin k (ih _ _ hl) (ih _ _ hr)).trans (canonRule_refines k l' r')
        simp only [] at h
        split at h
        · injection h with h; subst h; exact hstep
        · exact hstep.trans (ih _ _ h)
      · cases h

/-- More fuel never changes an answer. -/
theorem canon_mono : ∀ (f : Nat) (e r : AExpr), canon f e = some r → canon (f + 1) e = some r := by
  intro f
  induction f with
  | zero => intro e r h; simp [canon] at h
  | succ f ih =>
    intro e r h
    unfold canon at h
    split at h
    · injection h with h; subst h; simp [canon]
    · injection h with h; subst h; simp [canon]
    · next k l r0 =>
      split at h
      · next l' r' hl hr =>
        simp only [] at h
        unfold canon
        simp only [ih _ _ hl, ih _ _ hr]
        split at h
        · next hn => rw [if_pos hn]; exact h
        · next hn => rw [if_neg hn]; exact ih _ _ h
      · cases h

theorem canon_mono_le {f f' : Nat} (hle : f ≤ f') {e r : AExpr} (h : canon f e = some r) :
    canon f' e = some r := by
  induction hle with
  | refl => exact h
  | step _ ih => exact canon_mono _ _ _ ih

/-- The result of the canonicaliser is a fixed point of it (same or more fuel). -/
theorem canon_fixed : ∀ (f : Nat) (e r : AExpr), canon f e = some r → canon f r = some r := by
  intro f
  induction f with
  | zero => intro e r h; simp [canon] at h
  | succ f ih =>
    intro e r h
    have h' := h
    unfold canon at h
    split at h
    · injection h with h; subst h; exact h'
    · injection h with h; subst h; exact h'
    · next k l r0 =>
      split at h
      · next l' r' hl hr =>
        simp only [] at h
        split at h
        · next hn => injection h with h; rw [hn] at h; subst h; exact h'
        · exact canon_mono _ _ _ (ih _ _ h)
      · cases h

end AExpr
end SnaxVerif
