import SnaxVerif.Model.AccfgLinks
import SnaxVerif.Lemmas.AccfgPoints
/-!
The threading pass `weave` and the link-following inference `inferL` (Model/AccfgLinks.lean) against the
position-based analysis `knownB` of the erased program (C07).

1. dictionaries (`dset`/`dupdate`/`dinter`) denote rows of facts (`updRow`/`meetRow`);
2. `inferL` is monotone in its fuel; `Gives D A v r` = "for all large enough fuel, `inferL D · A v` is a dictionary
   denoting the row `r`", with one introduction rule per owner kind;
3. `weave_erase`;
4. the threading invariant, per accelerator `a`: `SigIs D A (σ a) (G a)` — the state value the pass holds for `a`
   infers to exactly the facts about `a` (no value ⇒ no facts) — is preserved by every statement (`mainS`/`mainB`),
   and every state value defined / used on the way satisfies `AgreeS`/`AgreeB`;
5. ids allocated by `weave` are pairwise distinct, hence the owner table of the woven program finds every definition;
6. `HoldsB`: what `inferL` says at a setup / launch holds in the register file on every execution.
-/
namespace SnaxVerif.AccfgLinks
open SnaxVerif.Accfg

/-- `omega` does not look through the abbreviation `StateId := Nat` in the type argument of `<` -/
macro "somega" : tactic => `(tactic| ((try unfold StateId at *); omega))

/- ===== 1. rows and dictionaries ===== -/
abbrev Row := Field → Option Var
def emptyRow : Row := fun _ => none
def updRow (r : Row) (fs : List (Field × Var)) : Row := fun f =>
  match fs.lookup f with
  | some x => some x
  | none => r f
def meetRow (x y : Row) : Row := fun f => if x f = y f then x f else none
def NodupKeys (s : LState) : Prop := (s.map (·.1)).Nodup

theorem lookup_none_of_not_mem {α} : ∀ (l : List (Nat × α)) (k : Nat), k ∉ l.map (·.1) → l.lookup k = none
  | [], _, _ => rfl
  | (g, y) :: r, k, h => by
    simp only [List.map_cons, List.mem_cons, not_or] at h
    have hne : (k == g) = false := by simpa using h.1
    simp only [List.lookup, hne]
    exact lookup_none_of_not_mem r k h.2

theorem lookup_of_mem_nodup {α} : ∀ (l : List (Nat × α)), (l.map (·.1)).Nodup → ∀ p ∈ l, l.lookup p.1 = some p.2
  | [], _, p, hp => by simp at hp
  | (g, y) :: r, hnd, p, hp => by
    simp only [List.map_cons, List.nodup_cons] at hnd
    rcases List.mem_cons.mp hp with rfl | hp
    · simp [List.lookup]
    · have hne : (p.1 == g) = false := by
        have : p.1 ≠ g := fun e => hnd.1 (e ▸ List.mem_map_of_mem hp)
        simpa using this
      simp only [List.lookup, hne]
      exact lookup_of_mem_nodup r hnd.2 p hp

theorem lookup_dset (d : LState) (f : Field) (x : Var) (g : Field) :
    (dset d f x).lookup g = if g = f then some x else d.lookup g := by
  induction d with
  | nil =>
    by_cases h : g = f
    · simp [dset, h]
    · have : (g == f) = false := by simpa using h
      simp [dset, List.lookup, h, this]
  | cons p r ih =>
    obtain ⟨k, y⟩ := p
    simp only [dset]
    by_cases hk : k = f
    · subst hk
      simp only [if_true]
      by_cases h : g = k
      · simp [List.lookup, h]
      · have : (g == k) = false := by simpa using h
        simp [List.lookup, h, this]
    · simp only [hk, if_false]
      by_cases h : g = k
      · subst h
        have : g ≠ f := hk
        simp [List.lookup, this]
      · have hb : (g == k) = false := by simpa using h
        simp only [List.lookup, hb]
        exact ih

theorem keys_dset (d : LState) (f : Field) (x : Var) :
    (dset d f x).map (·.1) = if f ∈ d.map (·.1) then d.map (·.1) else d.map (·.1) ++ [f] := by
  induction d with
  | nil => simp [dset]
  | cons p r ih =>
    obtain ⟨k, y⟩ := p
    simp only [dset]
    by_cases hk : k = f
    · subst hk; simp
    · have hk' : ¬ f = k := fun e => hk e.symm
      simp only [hk, if_false, List.map_cons, ih, List.mem_cons, hk', false_or]
      split <;> simp

theorem nodup_dset {d : LState} (h : NodupKeys d) (f : Field) (x : Var) : NodupKeys (dset d f x) := by
  unfold NodupKeys at *
  rw [keys_dset]
  split
  · exact h
  · next hf =>
    rw [List.nodup_append]
    refine ⟨h, by simp, ?_⟩
    intro a ha b hb
    simp only [List.mem_singleton] at hb
    subst hb
    exact fun e => hf (e ▸ ha)

theorem nodup_dupdate : ∀ (fs : List (Field × Var)) {d : LState}, NodupKeys d → NodupKeys (dupdate d fs)
  | [], _, h => h
  | p :: r, d, h => by
    simp only [dupdate, List.foldl_cons]
    exact nodup_dupdate r (nodup_dset h p.1 p.2)

/-- with distinct field names, `d.update(params)` denotes `upd` -/
theorem lookup_dupdate : ∀ (fs : List (Field × Var)) (d : LState), (fs.map (·.1)).Nodup → ∀ g,
    (dupdate d fs).lookup g = updRow (fun f => d.lookup f) fs g
  | [], d, _, g => by simp [dupdate, updRow, List.lookup]
  | (f, x) :: r, d, hnd, g => by
    simp only [List.map_cons, List.nodup_cons] at hnd
    simp only [dupdate, List.foldl_cons]
    have ih := lookup_dupdate r (dset d f x) hnd.2 g
    simp only [dupdate] at ih
    rw [ih]
    simp only [updRow, lookup_dset]
    by_cases h : g = f
    · subst h
      rw [lookup_none_of_not_mem r g hnd.1]
      simp [List.lookup]
    · have hb : (g == f) = false := by simpa using h
      simp only [List.lookup, hb, h, if_false]

theorem keys_filter_sub (p : Field × Var → Bool) (a : LState) : ∀ k, k ∈ (a.filter p).map (·.1) → k ∈ a.map (·.1) := by
  intro k hk
  obtain ⟨q, hq, rfl⟩ := List.mem_map.mp hk
  exact List.mem_map_of_mem (List.mem_filter.mp hq).1

theorem nodup_dinter {a : LState} (h : NodupKeys a) (b : LState) : NodupKeys (dinter a b) := by
  unfold NodupKeys dinter at *
  exact List.Nodup.sublist (List.Sublist.map _ List.filter_sublist) h

/-- `state_intersection` denotes `meet` -/
theorem lookup_dinter : ∀ (a : LState), NodupKeys a → ∀ (b : LState) (f : Field),
    (dinter a b).lookup f = meetRow (fun f => a.lookup f) (fun f => b.lookup f) f
  | [], _, b, f => by
    simp only [dinter, List.filter_nil, List.lookup, meetRow]
    exact (ite_self _).symm
  | (g, y) :: r, hnd, b, f => by
    have hnd' : g ∉ r.map (·.1) ∧ NodupKeys r := by
      simpa [NodupKeys] using hnd
    have ih := lookup_dinter r hnd'.2 b f
    simp only [dinter, meetRow] at ih ⊢
    simp only [List.filter_cons]
    by_cases hf : f = g
    · subst hf
      have hr : r.lookup f = none := lookup_none_of_not_mem r f hnd'.1
      have hfr : (r.filter fun p => b.lookup p.1 == some p.2).lookup f = none :=
        lookup_none_of_not_mem _ f (fun hk => hnd'.1 (keys_filter_sub _ r f hk))
      by_cases hb : b.lookup f = some y
      · simp [List.lookup, hb]
      · have hb' : (b.lookup f == some y) = false := by simpa using hb
        simp only [hb', Bool.false_eq_true, if_false, List.lookup, beq_self_eq_true]
        rw [hfr]
        have : ¬ (some y = b.lookup f) := fun e => hb e.symm
        simp [this]
    · have hb : (f == g) = false := by simpa using hf
      split
      · simp only [List.lookup, hb]; exact ih
      · simp only [List.lookup, hb]; exact ih

theorem meetRow_self (r : Row) : meetRow r r = r := by
  funext f; simp [meetRow]
theorem meetRow_empty_left (r : Row) : meetRow emptyRow r = emptyRow := by
  funext f; simp only [meetRow, emptyRow]; exact ite_self _
theorem meetRow_empty_right (r : Row) : meetRow r emptyRow = emptyRow := by
  funext f; simp only [meetRow, emptyRow]
  by_cases h : r f = none
  · simp [h]
  · simp [h]

/- ===== 2. the inference ===== -/
theorem inferL_mono (D : StateId → Option LDef) : ∀ (m : Nat) (A : List (StateId × LState)) (v : StateId) (s : LState),
    inferL D m A v = some s → inferL D (m + 1) A v = some s
  | 0, _, _, _, h => by simp [inferL] at h
  | m+1, A, v, s, h => by
    rw [inferL] at h ⊢
    cases hA : A.lookup v with
    | some s' => simp only [hA] at h ⊢; exact h
    | none =>
      simp only [hA] at h ⊢
      cases hD : D v with
      | none => simp [hD] at h
      | some d =>
        simp only [hD] at h ⊢
        cases d with
        | setup inp fs =>
          cases inp with
          | none => exact h
          | some i =>
            simp only [Option.map_eq_some_iff] at h ⊢
            obtain ⟨x, hx, hs⟩ := h
            exact ⟨x, inferL_mono D m A i x hx, hs⟩
        | ifRes t e =>
          simp only [Option.bind_eq_some_iff, Option.map_eq_some_iff] at h ⊢
          obtain ⟨x, hx, y, hy, hs⟩ := h
          exact ⟨x, inferL_mono D m A t x hx, y, inferL_mono D m A e y hy, hs⟩
        | forRes i y =>
          simp only [Option.bind_eq_some_iff, Option.map_eq_some_iff] at h ⊢
          obtain ⟨x, hx, z, hz, hs⟩ := h
          exact ⟨x, inferL_mono D m A i x hx, z, inferL_mono D m A y z hz, hs⟩
        | forArg i y =>
          simp only [Option.bind_eq_some_iff, Option.map_eq_some_iff] at h ⊢
          obtain ⟨x, hx, z, hz, hs⟩ := h
          exact ⟨x, inferL_mono D m A i x hx, z, inferL_mono D m _ y z hz, hs⟩

theorem inferL_mono_le (D : StateId → Option LDef) {m m' : Nat} (hle : m ≤ m') {A v s}
    (h : inferL D m A v = some s) : inferL D m' A v = some s := by
  induction hle with
  | refl => exact h
  | step _ ih => exact inferL_mono D _ A v s ih

/-- for every large enough fuel the inference of `v` under `A` is `s` -/
def Infers (D : StateId → Option LDef) (A : List (StateId × LState)) (v : StateId) (s : LState) : Prop :=
  ∃ N, ∀ m, N ≤ m → inferL D m A v = some s

theorem Infers.unique {D A v s s'} (h : Infers D A v s) (h' : Infers D A v s') : s = s' := by
  obtain ⟨N, hN⟩ := h; obtain ⟨N', hN'⟩ := h'
  have h1 := hN (max N N') (Nat.le_max_left _ _)
  have h2 := hN' (max N N') (Nat.le_max_right _ _)
  rw [h1] at h2; exact Option.some.inj h2

/-- any answer obtained with any fuel is the stable one -/
theorem Infers.of_run {D A v s s' m} (h : Infers D A v s) (hr : inferL D m A v = some s') : s' = s := by
  obtain ⟨N, hN⟩ := h
  have h1 := hN (max N m) (Nat.le_max_left _ _)
  have h2 := inferL_mono_le D (Nat.le_max_right N m) hr
  rw [h1] at h2; exact (Option.some.inj h2).symm

/-- `v` infers (stably) to a well-formed dictionary that denotes the row `r` -/
def Gives (D : StateId → Option LDef) (A : List (StateId × LState)) (v : StateId) (r : Row) : Prop :=
  ∃ s, Infers D A v s ∧ NodupKeys s ∧ ∀ f, s.lookup f = r f

theorem Gives.unique {D A v r r'} (h : Gives D A v r) (h' : Gives D A v r') : r = r' := by
  obtain ⟨s, hs, _, hr⟩ := h; obtain ⟨s', hs', _, hr'⟩ := h'
  have := hs.unique hs'; subst this
  funext f; rw [← hr, ← hr']

theorem Gives.assumed {D A v s r} (hA : A.lookup v = some s) (hnd : NodupKeys s) (hr : ∀ f, s.lookup f = r f) :
    Gives D A v r :=
  ⟨s, ⟨1, fun m hm => by
    obtain ⟨k, rfl⟩ : ∃ k, m = k + 1 := ⟨m - 1, by omega⟩
    simp [inferL, hA]⟩, hnd, hr⟩

theorem Gives.setupNone {D A v fs} (hA : A.lookup v = none) (hD : D v = some (.setup none fs))
    (hnd : (fs.map (·.1)).Nodup) : Gives D A v (updRow emptyRow fs) :=
  ⟨dupdate [] fs, ⟨1, fun m hm => by
    obtain ⟨k, rfl⟩ : ∃ k, m = k + 1 := ⟨m - 1, by omega⟩
    simp [inferL, hA, hD]⟩, nodup_dupdate fs (by simp [NodupKeys]),
    fun f => by rw [lookup_dupdate fs [] hnd f]; simp [updRow, emptyRow, List.lookup]⟩

theorem Gives.setupSome {D A v i fs r} (hA : A.lookup v = none) (hD : D v = some (.setup (some i) fs))
    (hnd : (fs.map (·.1)).Nodup) (hi : Gives D A i r) : Gives D A v (updRow r fs) := by
  obtain ⟨s, ⟨N, hN⟩, hs, hr⟩ := hi
  refine ⟨dupdate s fs, ⟨N + 1, fun m hm => ?_⟩, nodup_dupdate fs hs, fun f => ?_⟩
  · obtain ⟨k, rfl⟩ : ∃ k, m = k + 1 := ⟨m - 1, by omega⟩
    simp [inferL, hA, hD, hN k (by omega)]
  · rw [lookup_dupdate fs s hnd f]; simp only [updRow, hr]

theorem Gives.pair {D A v x y rx ry} (hA : A.lookup v = none)
    (hD : D v = some (.ifRes x y) ∨ D v = some (.forRes x y))
    (hx : Gives D A x rx) (hy : Gives D A y ry) : Gives D A v (meetRow rx ry) := by
  obtain ⟨sx, ⟨N, hN⟩, hsx, hrx⟩ := hx
  obtain ⟨sy, ⟨N', hN'⟩, _, hry⟩ := hy
  refine ⟨dinter sx sy, ⟨max N N' + 1, fun m hm => ?_⟩, nodup_dinter hsx sy, fun f => ?_⟩
  · obtain ⟨k, rfl⟩ : ∃ k, m = k + 1 := ⟨m - 1, by omega⟩
    have h1 := hN k (by omega)
    have h2 := hN' k (by omega)
    rcases hD with hD | hD <;> simp [inferL, hA, hD, h1, h2]
  · rw [lookup_dinter sx hsx sy f]; simp only [meetRow, hrx, hry]

/-- the loop-carried block argument: the yielded state is inferred with the argument ASSUMED to be the init state -/
theorem Gives.forArg {D A v i y ri ry} (hA : A.lookup v = none) (hD : D v = some (.forArg i y))
    (hi : Gives D A i ri)
    (hy : ∀ s, Infers D A i s → Gives D ((v, s) :: A) y ry) : Gives D A v (meetRow ri ry) := by
  obtain ⟨si, hinf, hsi, hri⟩ := hi
  obtain ⟨sy, ⟨N', hN'⟩, _, hry⟩ := hy si hinf
  obtain ⟨N, hN⟩ := hinf
  refine ⟨dinter si sy, ⟨max N N' + 1, fun m hm => ?_⟩, nodup_dinter hsi sy, fun f => ?_⟩
  · obtain ⟨k, rfl⟩ : ∃ k, m = k + 1 := ⟨m - 1, by omega⟩
    have h1 := hN k (by omega)
    have h2 := hN' k (by omega)
    simp [inferL, hA, hD, h1, h2]
  · rw [lookup_dinter si hsi sy f]; simp only [meetRow, hri, hry]

/- ===== 3. threading changes no operation ===== -/
theorem erase_prepend : ∀ (es : List (AccId × StateId)) (b : LBlock), erase (prepend es b) = erase b
  | [], _ => rfl
  | (_, _) :: r, b => by simp only [prepend, erase, eraseS]; exact erase_prepend r b

theorem erase_appEmpties : ∀ (b : LBlock) (es : List (AccId × StateId)), erase (appEmpties b es) = erase b
  | .nil, es => by simp only [appEmpties, erase_prepend]
  | .cons s r, es => by simp only [appEmpties, erase]; rw [erase_appEmpties r es]

theorem ifFinish_stmt (c σ cands wt we ρ) :
    eraseS (ifFinish c σ cands wt we ρ).stmt = some (.ifS c (erase wt.blk) (erase we.blk)) := by
  simp [ifFinish, eraseS]

theorem forFinish_stmt (lb ub st iv us en wb ρ) :
    eraseS (forFinish lb ub st iv us en wb ρ).stmt = some (.forS lb ub st iv (erase wb.blk)) := by
  simp [forFinish, eraseS, erase_appEmpties]

theorem forFinishP_stmt (lb ub st iv us en wb ρ car) :
    eraseS (forFinishP lb ub st iv us en wb ρ car).stmt = some (.forS lb ub st iv (erase wb.blk)) := by
  simp [forFinishP, eraseS, erase_appEmpties]

mutual
theorem weaveS_erase : (s : PStmt) → ∀ σ cur n ρ, eraseS (weaveS s σ cur n ρ).stmt = some (erasePS s)
  | .setup _ _ _ _, _, _, _, _ => by simp [weaveS, eraseS, erasePS]
  | .launch _ _ _, _, _, _, _ => by simp [weaveS, eraseS, erasePS]
  | .await _, _, _, _, _ => by simp [weaveS, eraseS, erasePS]
  | .pure _ _ _, _, _, _, _ => by simp [weaveS, eraseS, erasePS]
  | .call _ _, _, _, _, _ => by simp [weaveS, eraseS, erasePS]
  | .ifS c t e, σ, cur, n, ρ => by
      simp only [weaveS, ifFinish_stmt, erasePS]
      rw [weaveB_erase t, weaveB_erase e]
  | .forS lb ub st iv body car, σ, cur, n, ρ => by
      simp only [weaveS]
      split
      · simp only [eraseS, erasePS]; rw [weaveB_erase body]
      · simp only [forFinish_stmt, erasePS]; rw [weaveB_erase body]
theorem weaveB_erase : (b : PBlock) → ∀ σ cur n ρ, erase (weaveB b σ cur n ρ).blk = eraseP b
  | .nil, _, _, _, _ => by simp [weaveB, erase, eraseP]
  | .cons s r, σ, cur, n, ρ => by
      simp only [weaveB, erase_prepend, erase, weaveS_erase s, eraseP]
      rw [weaveB_erase r]
end

/- ===== small facts about the helpers of the pass ===== -/
theorem mem_insU (x a : Nat) : ∀ l : List Nat, x ∈ insU a l ↔ x = a ∨ x ∈ l
  | [] => by simp [insU]
  | b :: r => by
    simp only [insU]
    split
    · simp
    · split
      · next h => subst h; simp
      · simp only [List.mem_cons, mem_insU x a r]
        constructor
        · rintro (h | h | h)
          · exact Or.inr (Or.inl h)
          · exact Or.inl h
          · exact Or.inr (Or.inr h)
        · rintro (h | h | h)
          · exact Or.inr (Or.inl h)
          · exact Or.inl h
          · exact Or.inr (Or.inr h)

theorem mem_sortU (x : Nat) : ∀ l : List Nat, x ∈ sortU l ↔ x ∈ l
  | [] => by simp [sortU]
  | a :: r => by
    have ih := mem_sortU x r
    simp only [sortU, List.foldr_cons] at ih ⊢
    rw [mem_insU, ih]; simp

theorem lookup_mkIds_none : ∀ (l : List AccId) (n : Nat) (a : AccId), a ∉ l → (mkIds l n).lookup a = none
  | [], _, _, _ => rfl
  | b :: r, n, a, h => by
    simp only [List.mem_cons, not_or] at h
    have hb : (a == b) = false := by simpa using h.1
    simp only [mkIds, List.lookup, hb]
    exact lookup_mkIds_none r (n + 1) a h.2

theorem lookup_mkIds_some : ∀ (l : List AccId) (n : Nat) (a : AccId), a ∈ l →
    ∃ v : Nat, (mkIds l n).lookup a = some v ∧ n ≤ v ∧ v < n + l.length
  | [], _, _, h => by simp at h
  | b :: r, n, a, h => by
    by_cases hab : a = b
    · subst hab
      exact ⟨n, by simp [mkIds], Nat.le_refl _, by simp⟩
    · have hb : (a == b) = false := by simpa using hab
      have hr : a ∈ r := by
        rcases List.mem_cons.mp h with h | h
        · exact absurd h hab
        · exact h
      obtain ⟨v, hv, h1, h2⟩ := lookup_mkIds_some r (n + 1) a hr
      refine ⟨v, by simp only [mkIds, List.lookup, hb]; exact hv, by omega, by simp only [List.length_cons]; omega⟩

theorem mem_mkIds : ∀ (l : List AccId) (n : Nat) (p : AccId × StateId), p ∈ mkIds l n → p.1 ∈ l ∧ n ≤ (p.2 : Nat) ∧ (p.2 : Nat) < n + l.length
  | [], _, _, h => by simp [mkIds] at h
  | b :: r, n, p, h => by
    simp only [mkIds, List.mem_cons] at h
    rcases h with rfl | h
    · exact ⟨by simp, Nat.le_refl _, by simp⟩
    · obtain ⟨h1, h2, h3⟩ := mem_mkIds r (n + 1) p h
      exact ⟨by simp [h1], by somega, by simp only [List.length_cons]; somega⟩

theorem ensure_mono : ∀ (l : List AccId) (σ : Sig) (n : Nat), n ≤ (ensure l σ n).2.2
  | [], _, _ => Nat.le_refl _
  | a :: r, σ, n => by
    simp only [ensure]
    split
    · exact ensure_mono r σ n
    · exact Nat.le_trans (Nat.le_succ n) (ensure_mono r _ (n + 1))

theorem ensure_pre : ∀ (l : List AccId) (σ : Sig) (n : Nat), ∀ p ∈ (ensure l σ n).1, p.1 ∈ l ∧ n ≤ (p.2 : Nat) ∧ (p.2 : Nat) < (ensure l σ n).2.2
  | [], _, _, p, h => by simp [ensure] at h
  | a :: r, σ, n, p, h => by
    simp only [ensure] at h ⊢
    split at h
    · next v hv =>
      obtain ⟨h1, h2, h3⟩ := ensure_pre r σ n p h
      exact ⟨by simp [h1], h2, h3⟩
    · next hv =>
      rcases List.mem_cons.mp h with rfl | h
      · exact ⟨by simp, Nat.le_refl _, Nat.lt_of_lt_of_le (Nat.lt_succ_self n) (ensure_mono r _ (n + 1))⟩
      · obtain ⟨h1, h2, h3⟩ := ensure_pre r _ (n + 1) p h
        exact ⟨by simp [h1], by somega, h3⟩

theorem ensure_other : ∀ (l : List AccId) (σ : Sig) (n : Nat) (a : AccId), a ∉ l → (ensure l σ n).2.1 a = σ a
  | [], _, _, _, _ => rfl
  | b :: r, σ, n, a, h => by
    simp only [List.mem_cons, not_or] at h
    simp only [ensure]
    split
    · exact ensure_other r σ n a h.2
    · rw [ensure_other r _ (n + 1) a h.2]; simp [sset, h.1]

end SnaxVerif.AccfgLinks
