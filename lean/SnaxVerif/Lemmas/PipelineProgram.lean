import SnaxVerif.Lemmas.PipelineConstruct
/-! C15: the program emitted by the model of UnrollPipeline, in program order, IS a schedule of the loop's events: every
event exactly once (a permutation of the sequential order), slots in order, program order inside a stage instance. -/
namespace SnaxVerif.Pipeline

def slotLt (a b : Ev) : Prop :=
  a.n + a.k < b.n + b.k ∨ (a.n + a.k = b.n + b.k ∧ (a.k < b.k ∨ (a.k = b.k ∧ a.o < b.o)))

theorem slot_sorted (S N t : Nat) : (slot S N t).Pairwise (fun a b => a.1 < b.1) := by
  unfold slot
  rw [List.pairwise_map]
  exact (List.pairwise_lt_range' 1 (by omega)).imp (fun h => h)

theorem slot_nodup (S N t : Nat) : (slot S N t).Nodup :=
  (slot_sorted S N t).imp (fun {a b} h => by
    rintro rfl
    exact Nat.lt_irrefl _ h)

theorem pipe_sorted (p : Prog) (N : Nat) : (pipeEvents p N).Pairwise slotLt := by
  unfold pipeEvents slots
  rw [List.pairwise_flatMap]
  constructor
  · intro s hs
    obtain ⟨t, _, rfl⟩ := List.mem_map.mp hs
    rw [List.pairwise_flatMap]
    constructor
    · rintro ⟨k, n⟩ _
      unfold stageEvents
      rw [List.pairwise_map]
      exact (List.pairwise_lt_range).imp (fun h => Or.inr ⟨rfl, Or.inr ⟨rfl, h⟩⟩)
    · have := (List.Pairwise.and_mem.mp (slot_sorted p.stages.length N t))
      exact this.imp (fun {a b} ⟨ha, hb, hlt⟩ x hx y hy => by
        have hx := mem_stageEvents.mp hx
        have hy := mem_stageEvents.mp hy
        have h1 := (mem_slot (k := a.1) (n := a.2)).mp ha
        have h2 := (mem_slot (k := b.1) (n := b.2)).mp hb
        refine Or.inr ⟨by rw [hx.1, hx.2.1, hy.1, hy.2.1]; omega, Or.inl (by rw [hx.1, hy.1]; exact hlt)⟩)
  · rw [List.pairwise_map]
    exact (List.pairwise_lt_range).imp (fun {t t'} h x hx y hy => by
      obtain ⟨⟨k, n⟩, hkn, hx⟩ := List.mem_flatMap.mp hx
      obtain ⟨⟨k', n'⟩, hkn', hy⟩ := List.mem_flatMap.mp hy
      have hx := mem_stageEvents.mp hx
      have hy := mem_stageEvents.mp hy
      have h1 := mem_slot.mp hkn
      have h2 := mem_slot.mp hkn'
      simp only at hx hy
      exact Or.inl (by rw [hx.1, hx.2.1, hy.1, hy.2.1]; omega))

theorem slotLt_irrefl (a : Ev) : ¬ slotLt a a := by
  unfold slotLt
  omega

theorem pipe_nodup (p : Prog) (N : Nat) : (pipeEvents p N).Nodup :=
  (pipe_sorted p N).imp (fun {a b} h => by
    rintro rfl
    exact slotLt_irrefl a h)

/-- every op event of the loop occurs exactly once in the emitted program -/
theorem pipe_perm (p : Prog) (N : Nat) : (seqEvents p N).Perm (pipeEvents p N) :=
  (List.perm_ext_iff_of_nodup (seq_nodup p N) (pipe_nodup p N)).mpr
    (fun _ => mem_seqEvents.trans mem_pipeEvents.symm)

/-- the emitted program order is a schedule -/
theorem pipe_schedule (p : Prog) (N : Nat) : Schedule p N (pipeEvents p N) where
  perm := pipe_perm p N
  slotOrder := (pipe_sorted p N).imp (fun {a b} h => by unfold slotLt at h; omega)
  progOrder := (pipe_sorted p N).imp (fun {a b} h hk hn _ => by unfold slotLt at h; omega)

/-- the op events of the program emitted by `unroll`, read off `evalUnroll` (prologue constants, steady-state loop from
`S - 1`, epilogue `ub - c`), in program order -/
def emittedEvents (p : Prog) (N : Nat) : List Ev :=
  (evalUnroll p.stages.length N).flatMap fun s => s.flatMap fun kn => stageEvents p kn.1 kn.2.toNat

/-- ... are the slot events `pipeEvents` (for the trip counts the F16 guard lets through) -/
theorem emitted_eq_pipe {p : Prog} {N : Nat} (hS : 0 < p.stages.length) (hN : p.stages.length - 1 ≤ N) :
    emittedEvents p N = pipeEvents p N := by
  unfold emittedEvents pipeEvents
  rw [unroll_eq_slots hS hN, List.flatMap_map]
  congr 1
  funext s
  unfold castSlot
  rw [List.flatMap_map]
  congr 1

/-- in a module every loop is transformed exactly as if it were alone -/
theorem runModule_get : ∀ {ls : List Loop} {os : List Outcome}, runModule ls = .ok os →
    os.length = ls.length ∧ ∀ (k : Nat) (h : k < ls.length), ∃ o, os[k]? = some o ∧ run ls[k] = .ok o
  | [], os, h => by
    simp only [runModule, Except.ok.injEq] at h
    subst h
    exact ⟨rfl, fun k hk => absurd hk (by simp)⟩
  | l :: ls, os, h => by
    simp only [runModule] at h
    split at h
    · simp at h
    · next o ho =>
      split at h
      · simp at h
      · next os' hos =>
        simp only [Except.ok.injEq] at h
        subst h
        obtain ⟨hlen, hget⟩ := runModule_get hos
        refine ⟨by simp [hlen], ?_⟩
        intro k hk
        cases k with
        | zero => exact ⟨o, rfl, ho⟩
        | succ k =>
          obtain ⟨o', h1, h2⟩ := hget k (by simpa using hk)
          exact ⟨o', by simpa using h1, by simpa using h2⟩

end SnaxVerif.Pipeline
