import SnaxVerif.Lemmas.AffineTransform
/-! `from_affine_map (to_affine_map t) = t` and the well-formedness facts that discharge the shape
hypotheses of `compose_eval` (C19). Core Lean only. -/
namespace SnaxVerif
namespace AT
open AExpr

/-- what `from_affine_map` needs of a result expression to convert it exactly -/
def good (n : Nat) (e : AExpr) : Bool := noDivMod e && mulConstSide e && dimsBelow n e

theorem good_const (n : Nat) (c : Int) : good n (.const c) = true := rfl

theorem good_dim (n k : Nat) (h : k < n) : good n (.dim k) = true := by
  simp [good, noDivMod, mulConstSide, dimsBelow, h]

theorem good_add (n : Nat) (a b : AExpr) : good n (.bin .add a b) = (good n a && good n b) := by
  simp only [good, noDivMod, mulConstSide, dimsBelow]
  cases noDivMod a <;> cases noDivMod b <;> cases mulConstSide a <;> cases mulConstSide b <;>
    cases dimsBelow n a <;> cases dimsBelow n b <;> simp

theorem good_mul_const (n : Nat) (a : AExpr) (c : Int) : good n (.bin .mul a (.const c)) = good n a := by
  simp only [good, noDivMod, mulConstSide, dimsBelow, dimFree]
  cases noDivMod a <;> cases mulConstSide a <;> cases dimsBelow n a <;> cases dimFree a <;> simp

theorem good_smartAddC (n : Nat) : ∀ (s : AExpr) (c : Int), good n s = true → good n (smartAddC s c) = true := by
  intro s
  induction s with
  | dim i => intro c h; unfold smartAddC; split <;> simp_all [good_add, good_const]
  | const a => intro c _; simp [smartAddC, good_const]
  | bin k l r ihl _ =>
    intro c h
    unfold smartAddC
    split
    · cases ‹bin k l r = const _›
    · next l' r' c' heq =>
      injection heq with hk hl hr
      subst hk hl hr
      split
      · exact h
      · rw [good_add] at h
        exact ihl _ (by simp_all)
    · split
      · exact h
      · rw [good_add, h, good_const]; rfl

theorem good_smartAdd (n : Nat) (s o : AExpr) (hs : good n s = true) (ho : good n o = true) :
    good n (smartAdd s o) = true := by
  unfold smartAdd
  split
  · exact good_const _ _
  · exact good_smartAddC n _ _ ho
  · exact good_smartAddC n _ _ hs
  · rw [good_add, hs, ho]; rfl

theorem good_smartMulC_dim (n k : Nat) (a : Int) (h : k < n) : good n (smartMulC (.dim k) a) = true := by
  unfold smartMulC
  split
  · exact good_dim n k h
  · rw [good_mul_const]; exact good_dim n k h

theorem good_toMapRowFrom (n : Nat) : ∀ (row : List Int) (k : Nat) (acc : AExpr), good n acc = true →
    k + row.length ≤ n → good n (toMapRowFrom k acc row) = true := by
  intro row
  induction row with
  | nil => intro k acc h _; exact h
  | cons a row ih =>
    intro k acc h hk
    unfold toMapRowFrom
    simp only [List.length_cons] at hk
    apply ih (k + 1) _ _ (by omega)
    split
    · exact h
    · exact good_smartAdd n _ _ h (good_smartMulC_dim n k a (by omega))

theorem good_toMapRow (n : Nat) (row : List Int) (b : Int) (h : row.length ≤ n) : good n (toMapRow row b) = true :=
  good_toMapRowFrom n row 0 (.const b) (good_const n b) (by omega)

/-! ### unit responses of a row -/

theorem dot_oneList_none (n : Nat) (row : List Int) (h : row.length = n) : dot row (oneList n none) = 0 := by
  rw [dot_eq_sumTo n row _ h (by simp [oneList])]
  apply sumTo_eq_zero
  intro d _
  have := envOf_oneList_none n d
  unfold envOf at this
  rw [this]; simp

theorem dot_oneList_some (n j : Nat) (row : List Int) (h : row.length = n) (hj : j < n) :
    dot row (oneList n (some j)) = row.getD j 0 := by
  rw [dot_eq_sumTo n row _ h (by simp [oneList])]
  rw [← sumTo_indicator n j (fun d => row.getD d 0) hj]
  apply sumTo_congr
  intro d hd
  have := envOf_oneList_some n j d hd
  unfold envOf at this
  rw [this, Int.mul_comm]

theorem evalAt_toMapRow (row : List Int) (b : Int) (x : List Int) :
    evalAt (toMapRow row b) x = dot row x + b := by
  unfold evalAt; rw [toMapRow_eval]; rfl

/-- the matrix row recovered from the unit responses of `toMapRow row b` -/
theorem unit_row (n : Nat) (row : List Int) (b : Int) (h : row.length = n) :
    ((List.range n).map fun d => evalAt (toMapRow row b) (oneList n (some d)) - evalAt (toMapRow row b) (oneList n none))
      = row := by
  have hrow := map_getD_range row
  rw [h] at hrow
  refine Eq.trans ?_ hrow
  apply List.map_congr_left
  intro d hd
  have hd' : d < n := List.mem_range.mp hd
  rw [evalAt_toMapRow, evalAt_toMapRow, dot_oneList_some n d row h hd', dot_oneList_none n row h]
  omega

theorem unit_bias (n : Nat) (row : List Int) (b : Int) (h : row.length = n) :
    evalAt (toMapRow row b) (oneList n none) = b := by
  rw [evalAt_toMapRow, dot_oneList_none n row h]; omega

theorem zipWith_recover {α β γ} (g : α → β → γ) (fa : γ → α) (fb : γ → β) :
    ∀ (A : List α) (b : List β), A.length = b.length → (∀ a ∈ A, ∀ y ∈ b, fa (g a y) = a ∧ fb (g a y) = y) →
      (List.zipWith g A b).map fa = A ∧ (List.zipWith g A b).map fb = b := by
  intro A
  induction A with
  | nil => intro b h _; cases b with
    | nil => simp
    | cons _ _ => simp at h
  | cons a A ih =>
    intro b h hg
    cases b with
    | nil => simp at h
    | cons y b =>
      obtain ⟨h1, h2⟩ := ih b (by simpa using h)
        (fun a' ha' y' hy' => hg a' (List.mem_cons_of_mem _ ha') y' (List.mem_cons_of_mem _ hy'))
      obtain ⟨g1, g2⟩ := hg a List.mem_cons_self y List.mem_cons_self
      simp [h1, h2, g1, g2]

theorem wf_iff (t : Transform) : t.wf = true ↔ t.A.length = t.b.length ∧ ∀ r ∈ t.A, r.length = t.nd := by
  simp [Transform.wf]

/-- `from_affine_map(to_affine_map(t)) == t` for every well-formed transform. -/
theorem fromMap_toMap' (t : Transform) (hwf : t.wf = true) : fromMap t.nd t.toMap = .ok t := by
  obtain ⟨hlen, hrows⟩ := (wf_iff t).mp hwf
  have hgood : ∀ e ∈ t.toMap, good t.nd e = true := by
    intro e he
    unfold Transform.toMap at he
    obtain ⟨i, hi, rfl⟩ := List.mem_iff_getElem.mp he
    simp only [List.getElem_zipWith]
    apply good_toMapRow
    rw [hrows _ (List.getElem_mem _)]
    exact Nat.le_refl _
  unfold fromMap
  rw [if_neg, if_neg]
  · obtain ⟨tn, tA, tb⟩ := t
    simp only [Transform.toMap] at hgood hrows hlen ⊢
    congr 1
    have := zipWith_recover toMapRow
      (fun e => (List.range tn).map fun d => evalAt e (oneList tn (some d)) - evalAt e (oneList tn none))
      (fun e => evalAt e (oneList tn none)) tA tb hlen
      (fun a ha y _ => ⟨unit_row tn a y (hrows a ha), unit_bias tn a y (hrows a ha)⟩)
    simp only [this.1, this.2]
  · intro hc
    simp only [List.any_eq_true, Bool.not_eq_true', ] at hc
    obtain ⟨e, he, hb⟩ := hc
    have := hgood e he
    simp only [good, Bool.and_eq_true] at this
    rw [this.2] at hb; cases hb
  · intro hc
    simp only [List.any_eq_true, Bool.not_eq_true'] at hc
    obtain ⟨e, he, hb⟩ := hc
    have := hgood e he
    simp only [good, Bool.and_eq_true] at this
    rw [this.1.1] at hb; cases hb

/-! ### shapes -/

theorem compose_wf' (s o c : Transform) (hs : s.wf = true) (hc : s.compose o = .ok c) : c.wf = true := by
  obtain ⟨hlen, _⟩ := (wf_iff s).mp hs
  unfold Transform.compose at hc
  split at hc
  · cases hc
  · injection hc with hc
    subst hc
    rw [wf_iff]
    refine ⟨by simp [matMul, vecAdd, matVec, hlen], ?_⟩
    intro r hr
    simp only [matMul, List.mem_map] at hr
    obtain ⟨r0, _, rfl⟩ := hr
    simp

theorem toMap_length (t : Transform) (hwf : t.wf = true) : t.toMap.length = t.b.length := by
  obtain ⟨hlen, _⟩ := (wf_iff t).mp hwf
  simp [Transform.toMap, hlen]

/-! ### `__eq__` and batch `eval` -/

theorem stretch_self {α} (n : Nat) (l : List α) (h : l.length = n) : stretch n l = l := by
  unfold stretch
  split
  · simp at h; subst h; rfl
  · rfl

theorem zipEq_all : ∀ a b : List Int, a.length = b.length →
    (List.zipWith (· == ·) a b).all id = decide (a = b) := by
  intro a
  induction a with
  | nil => intro b h; cases b with
    | nil => simp
    | cons _ _ => simp at h
  | cons x a ih =>
    intro b h
    cases b with
    | nil => simp at h
    | cons y b =>
      have := ih b (by simpa using h)
      simp only [List.zipWith_cons_cons, List.all_cons, id, this]
      by_cases hxy : x = y <;> by_cases hab : a = b <;> simp [hxy, hab]

theorem allEq1_same (a b : List Int) (h : a.length = b.length) : allEq1 a b = decide (a = b) := by
  unfold allEq1
  have hn : (if a.length = 1 then b.length else a.length) = a.length := by split <;> simp [h]
  simp only [hn]
  rw [stretch_self _ a rfl, stretch_self _ b h.symm, zipEq_all a b h]

theorem zipAllEq1_all (n : Nat) : ∀ A B : List (List Int), A.length = B.length →
    (∀ r ∈ A, r.length = n) → (∀ r ∈ B, r.length = n) →
    (List.zipWith allEq1 A B).all id = decide (A = B) := by
  intro A
  induction A with
  | nil => intro B h _ _; cases B with
    | nil => simp
    | cons _ _ => simp at h
  | cons x A ih =>
    intro B h hA hB
    cases B with
    | nil => simp at h
    | cons y B =>
      have := ih B (by simpa using h) (fun r hr => hA r (List.mem_cons_of_mem _ hr))
        (fun r hr => hB r (List.mem_cons_of_mem _ hr))
      have hxy := allEq1_same x y (by rw [hA x List.mem_cons_self, hB y List.mem_cons_self])
      simp only [List.zipWith_cons_cons, List.all_cons, id, this, hxy]
      by_cases h1 : x = y <;> by_cases h2 : A = B <;> simp [h1, h2]

theorem allEq2_same (n : Nat) (A B : List (List Int)) (h : A.length = B.length)
    (hA : ∀ r ∈ A, r.length = n) (hB : ∀ r ∈ B, r.length = n) : allEq2 A B = decide (A = B) := by
  unfold allEq2
  have hn : (if A.length = 1 then B.length else A.length) = A.length := by split <;> simp [h]
  simp only [hn]
  rw [stretch_self _ A rfl, stretch_self _ B h.symm, zipAllEq1_all n A B h hA hB]

theorem compat_self (n : Nat) : compat n n = true := by simp [compat]

/-- `__eq__` on two transforms of the same shape decides equality. -/
theorem eqNp_sameShape (s o : Transform) (hs : s.wf = true) (ho : o.wf = true)
    (hnd : s.nd = o.nd) (hrows : s.A.length = o.A.length) : s.eqNp o = .ok (decide (s = o)) := by
  obtain ⟨hsl, hsr⟩ := (wf_iff s).mp hs
  obtain ⟨hol, hor⟩ := (wf_iff o).mp ho
  have hb : s.b.length = o.b.length := by omega
  unfold Transform.eqNp
  rw [hnd, hrows, hb, compat_self, compat_self, compat_self,
    allEq2_same o.nd s.A o.A hrows (by rw [← hnd]; exact hsr) hor, allEq1_same s.b o.b hb]
  obtain ⟨sn, sA, sb⟩ := s
  obtain ⟨on, oA, ob⟩ := o
  simp only at hnd
  subst hnd
  by_cases hA : sA = oA <;> by_cases hbb : sb = ob <;> simp [hA, hbb]

theorem eqFixed_iff (s o : Transform) : s.eqFixed o = true ↔ s = o := by
  obtain ⟨sn, sA, sb⟩ := s
  obtain ⟨on, oA, ob⟩ := o
  simp [Transform.eqFixed, and_assoc]

theorem evalBatch_mapM (t : Transform) : ∀ xs : List (List Int), (∀ x ∈ xs, x.length = t.nd) →
    t.evalBatch xs t.nd = xs.mapM t.eval := by
  intro xs
  induction xs with
  | nil => intro _; simp [Transform.evalBatch, pure, Except.pure]
  | cons x xs ih =>
    intro h
    have hx := h x List.mem_cons_self
    have := ih (fun y hy => h y (List.mem_cons_of_mem _ hy))
    simp only [Transform.evalBatch, ne_eq, not_true_eq_false, if_false] at this ⊢
    rw [List.mapM_cons, ← this]
    simp [Transform.eval, hx, bind, Except.bind, pure, Except.pure]

end AT
end SnaxVerif
