import SnaxVerif.Lemmas.AccfgPull
/-! The greedy driver's erase of a trivially dead (side-effect-free, unused) statement preserves registers and
trace (C01). -/
namespace SnaxVerif.Accfg

variable (cfg : Cfg)

/-- equal registers and trace, equal environment outside `D` -/
def EqOff (D : Var → Prop) (u v : St) : Prop :=
  u.regs = v.regs ∧ u.tr = v.tr ∧ ∀ x, ¬ D x → u.env x = v.env x

theorem EqOff.setEnv {D : Var → Prop} {u v : St} (h : EqOff D u v) (x : Var) (val : Int) :
    EqOff D { u with env := Accfg.setEnv u.env x val } { v with env := Accfg.setEnv v.env x val } :=
  ⟨h.1, h.2.1, fun y hy => by simp only [Accfg.setEnv]; split; rfl; exact h.2.2 y hy⟩

theorem map_env_eq {D : Var → Prop} {u v : St} (h : EqOff D u v) (l : List Var) (hl : ∀ x ∈ l, ¬ D x) :
    l.map u.env = l.map v.env :=
  List.map_congr_left (fun x hx => h.2.2 x (hl x hx))

/- the same code run on related states gives related states, when it reads nothing in `D` -/
mutual
theorem sameS_sim (D : Var → Prop) : (s : Stmt) → (∀ x ∈ readsS s, ¬ D x) → ∀ u v, EqOff D u v →
    EqOff D (execS cfg false s u) (execS cfg false s v)
  | .setup a fs, hr, u, v, h => by
      have henv : ∀ p ∈ fs, u.env p.2 = v.env p.2 :=
        fun p hp => h.2.2 p.2 (hr p.2 (by simp only [readsS]; exact List.mem_map_of_mem hp))
      refine ⟨?_, h.2.1, h.2.2⟩
      simp only [execS]
      rw [setRegs_eq_setVals, setRegs_eq_setVals, h.1]
      congr 1
      exact List.map_congr_left (fun p hp => by rw [henv p hp])
  | .ghost a fs, _, u, v, h => by simpa [execS] using h
  | .launch a lv, hr, u, v, h => by
      refine ⟨h.1, ?_, h.2.2⟩
      simp only [execS]
      rw [h.1, h.2.1, map_env_eq h lv (by simpa [readsS] using hr)]
  | .await a, _, u, v, h => ⟨h.1, by simp only [execS]; rw [h.2.1], h.2.2⟩
  | .pure d op args, hr, u, v, h => by
      have := map_env_eq h args (by simpa [readsS] using hr)
      simp only [execS]; rw [this]
      exact h.setEnv d _
  | .call t eff, _, u, v, h => ⟨by simp only [execS]; rw [h.1], by simp only [execS]; rw [h.2.1], h.2.2⟩
  | .ifS c t e, hr, u, v, h => by
      simp only [readsS, List.mem_cons, List.mem_append] at hr
      have hc : u.env c = v.env c := h.2.2 c (hr c (Or.inl rfl))
      simp only [execS, hc]
      split
      · exact sameB_sim D t (fun x hx => hr x (Or.inr (Or.inl hx))) u v h
      · exact sameB_sim D e (fun x hx => hr x (Or.inr (Or.inr hx))) u v h
  | .forS lb ub step iv b, hr, u, v, h => by
      simp only [readsS, List.mem_cons] at hr
      have h1 : u.env lb = v.env lb := h.2.2 lb (hr lb (Or.inl rfl))
      have h2 : u.env ub = v.env ub := h.2.2 ub (hr ub (Or.inr (Or.inl rfl)))
      have h3 : u.env step = v.env step := h.2.2 step (hr step (Or.inr (Or.inr (Or.inl rfl))))
      simp only [execS, h1, h2, h3]
      exact iterFrom_rel
        (fun i x => execB cfg false b { x with env := Accfg.setEnv x.env iv (v.env lb + ↑i * v.env step) })
        (fun i y => execB cfg false b { y with env := Accfg.setEnv y.env iv (v.env lb + ↑i * v.env step) }) (EqOff D)
        (fun i x y hxy => sameB_sim D b (fun z hz => hr z (Or.inr (Or.inr (Or.inr hz)))) _ _
          (hxy.setEnv iv (v.env lb + ↑i * v.env step)))
        _ 0 u v h
theorem sameB_sim (D : Var → Prop) : (b : Block) → (∀ x ∈ readsB b, ¬ D x) → ∀ u v, EqOff D u v →
    EqOff D (execB cfg false b u) (execB cfg false b v)
  | .nil, _, u, v, h => by simpa [execB] using h
  | .cons s r, hr, u, v, h => by
      simp only [readsB, List.mem_append] at hr
      simp only [execB]
      exact sameB_sim D r (fun x hx => hr x (Or.inr hx)) _ _
        (sameS_sim D s (fun x hx => hr x (Or.inl hx)) u v h)
end

/-- executing an extra side-effect-free statement on the right keeps the relation, off its own definitions -/
theorem extra_sef (D : Var → Prop) (s : Stmt) (hs : sefS s = true) (hD : ∀ x ∈ defsS s, D x) (u v : St)
    (h : EqOff D u v) : EqOff D u (execS cfg false s v) := by
  have hf := sefS_frame cfg false s hs v v.regs v.tr
  have e : ({ v with regs := v.regs, tr := v.tr } : St) = v := rfl
  rw [e] at hf
  refine ⟨?_, ?_, ?_⟩
  · rw [hf]; exact h.1
  · rw [hf]; exact h.2.1
  · intro x hx
    rw [envS_frame cfg false s x (fun hm => hx (hD x hm)) v]
    exact h.2.2 x hx

theorem dceRw_sim (D : Var → Prop) (F : Facts) : (b : Block) → ∀ (i : Nat) (b' : Block) (s : Stmt), dceRw F b i = some b' →
    stmtAtL b.toList i = some s → (∀ x ∈ defsS s, D x) → (∀ x ∈ readsB b', ¬ D x) →
    ∀ u v, EqOff D u v → EqOff D (execB cfg false b' u) (execB cfg false b v)
  | .nil, i, b', s, h, _, _, _, _, _, _ => by simp [dceRw] at h
  | .cons t r, 0, b', s, h, hs, hD, hr, u, v, huv => by
      simp only [dceRw] at h
      split at h
      · next hsef =>
        injection h with h; subst h
        simp only [Block.toList, stmtAtL] at hs
        injection hs with hs; subst hs
        simp only [execB]
        exact sameB_sim cfg D r hr _ _ (extra_sef cfg D t hsef hD u v huv)
      · cases h
  | .cons t r, i+1, b', s, h, hs, hD, hr, u, v, huv => by
      simp only [dceRw, Option.map_eq_some_iff] at h
      obtain ⟨r', hr', rfl⟩ := h
      simp only [Block.toList, stmtAtL] at hs
      simp only [readsB, List.mem_append] at hr
      simp only [execB]
      exact dceRw_sim D F r i r' s hr' hs hD (fun x hx => hr x (Or.inr hx)) _ _
        (sameS_sim cfg D t (fun x hx => hr x (Or.inl hx)) u v huv)

mutual
theorem dceS_pos (D : Var → Prop) : (s : Stmt) → ∀ (k : Nat) (p : List Nat) (F : Facts) (s' : Stmt) (d : Stmt),
    rewriteS dceRw k p s F = some s' → stmtAtS k p s = some d → (∀ x ∈ defsS d, D x) → (∀ x ∈ readsS s', ¬ D x) →
    ∀ u v, EqOff D u v → EqOff D (execS cfg false s' u) (execS cfg false s v)
  | .ifS c t e, k, p, F, s', d, h, hd, hD, hr, u, v, huv => by
      simp only [rewriteS] at h
      simp only [stmtAtS] at hd
      split at h
      · next hk =>
        simp only [hk, if_true] at hd
        simp only [Option.map_eq_some_iff] at h
        obtain ⟨t', ht, rfl⟩ := h
        simp only [readsS, List.mem_cons, List.mem_append] at hr
        have hc : u.env c = v.env c := huv.2.2 c (hr c (Or.inl rfl))
        simp only [execS, hc]
        split
        · exact dceB_pos D t p F t' d ht hd hD (fun x hx => hr x (Or.inr (Or.inl hx))) u v huv
        · exact sameB_sim cfg D e (fun x hx => hr x (Or.inr (Or.inr hx))) u v huv
      · next hk =>
        split at h
        · next hk1 =>
          simp only [hk, hk1, if_true, if_false] at hd
          simp only [Option.map_eq_some_iff] at h
          obtain ⟨e', he, rfl⟩ := h
          simp only [readsS, List.mem_cons, List.mem_append] at hr
          have hc : u.env c = v.env c := huv.2.2 c (hr c (Or.inl rfl))
          simp only [execS, hc]
          split
          · exact sameB_sim cfg D t (fun x hx => hr x (Or.inr (Or.inl hx))) u v huv
          · exact dceB_pos D e p F e' d he hd hD (fun x hx => hr x (Or.inr (Or.inr hx))) u v huv
        · cases h
  | .forS lb ub step iv b, k, p, F, s', d, h, hd, hD, hr, u, v, huv => by
      simp only [rewriteS] at h
      simp only [stmtAtS] at hd
      split at h
      · next hk =>
        simp only [hk, if_true] at hd
        simp only [Option.map_eq_some_iff] at h
        obtain ⟨b', hb, rfl⟩ := h
        simp only [readsS, List.mem_cons] at hr
        have h1 : u.env lb = v.env lb := huv.2.2 lb (hr lb (Or.inl rfl))
        have h2 : u.env ub = v.env ub := huv.2.2 ub (hr ub (Or.inr (Or.inl rfl)))
        have h3 : u.env step = v.env step := huv.2.2 step (hr step (Or.inr (Or.inr (Or.inl rfl))))
        simp only [execS, h1, h2, h3]
        exact iterFrom_rel
          (fun i x => execB cfg false b' { x with env := Accfg.setEnv x.env iv (v.env lb + ↑i * v.env step) })
          (fun i y => execB cfg false b { y with env := Accfg.setEnv y.env iv (v.env lb + ↑i * v.env step) }) (EqOff D)
          (fun i x y hxy => dceB_pos D b p _ b' d hb hd hD (fun z hz => hr z (Or.inr (Or.inr (Or.inr hz)))) _ _
            (hxy.setEnv iv (v.env lb + ↑i * v.env step)))
          _ 0 u v huv
      · cases h
  | .setup _ _, _, _, _, _, _, h, _, _, _, _, _, _ => by simp [rewriteS] at h
  | .ghost _ _, _, _, _, _, _, h, _, _, _, _, _, _ => by simp [rewriteS] at h
  | .launch _ _, _, _, _, _, _, h, _, _, _, _, _, _ => by simp [rewriteS] at h
  | .await _, _, _, _, _, _, h, _, _, _, _, _, _ => by simp [rewriteS] at h
  | .pure _ _ _, _, _, _, _, _, h, _, _, _, _, _, _ => by simp [rewriteS] at h
  | .call _ _, _, _, _, _, _, h, _, _, _, _, _, _ => by simp [rewriteS] at h
theorem dceB_pos (D : Var → Prop) : (b : Block) → ∀ (path : List Nat) (F : Facts) (b' : Block) (d : Stmt),
    rewriteB dceRw path b F = some b' → stmtAtB path b = some d → (∀ x ∈ defsS d, D x) → (∀ x ∈ readsB b', ¬ D x) →
    ∀ u v, EqOff D u v → EqOff D (execB cfg false b' u) (execB cfg false b v)
  | b, [i], F, b', d, h, hd, hD, hr, u, v, huv => by
      simp only [rewriteB] at h
      simp only [stmtAtB] at hd
      exact dceRw_sim cfg D F b i b' d h hd hD hr u v huv
  | .cons s r, 0 :: k :: p, F, b', d, h, hd, hD, hr, u, v, huv => by
      simp only [rewriteB, Option.map_eq_some_iff] at h
      obtain ⟨s', hs', rfl⟩ := h
      simp only [stmtAtB] at hd
      simp only [readsB, List.mem_append] at hr
      simp only [execB]
      exact sameB_sim cfg D r (fun x hx => hr x (Or.inr hx)) _ _
        (dceS_pos D s k p F s' d hs' hd hD (fun x hx => hr x (Or.inl hx)) u v huv)
  | .cons s r, (i+1) :: k :: p, F, b', d, h, hd, hD, hr, u, v, huv => by
      simp only [rewriteB, Option.map_eq_some_iff] at h
      obtain ⟨r', hr', rfl⟩ := h
      simp only [stmtAtB] at hd
      simp only [readsB, List.mem_append] at hr
      simp only [execB]
      exact dceB_pos D r (i :: k :: p) _ r' d hr' hd hD (fun x hx => hr x (Or.inr hx)) _ _
        (sameS_sim cfg D s (fun x hx => hr x (Or.inl hx)) u v huv)
  | .nil, [], _, _, _, h, _, _, _, _, _, _ => by simp [rewriteB] at h
  | .nil, _ :: _ :: _, _, _, _, h, _, _, _, _, _, _ => by simp [rewriteB] at h
  | .cons _ _, [], _, _, _, h, _, _, _, _, _, _ => by simp [rewriteB] at h
end

/-- **dce.** Erasing a side-effect-free statement whose results nothing reads preserves registers and trace. -/
theorem dce_trace (path : List Nat) (b b' : Block) (h : applyRule .dce path b = some b')
    (hside : dceSide path b b' = true) (st : St) :
    (execB cfg false b' st).regs = (execB cfg false b st).regs ∧ (execB cfg false b' st).tr = (execB cfg false b st).tr := by
  unfold dceSide at hside
  split at hside
  · next d hd =>
    simp only [List.all_eq_true, Bool.not_eq_true', List.contains_eq_mem, decide_eq_false_iff_not] at hside
    have := dceB_pos cfg (fun x => x ∈ defsS d) b path noFacts b' d h hd (fun x hx => hx)
      (fun x hx hm => hside x hm hx) st st ⟨rfl, rfl, fun _ _ => rfl⟩
    exact ⟨this.1, this.2.1⟩
  · cases hside

end SnaxVerif.Accfg
