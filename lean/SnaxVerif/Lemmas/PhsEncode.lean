import SnaxVerif.Lemmas.PhsHistory
/-! C20: `encode` (the model of `convert_generic_body_to_phs`) produces kernels (`kwf`, given that the `get_id`
names are distinct) that compute the function of the `linalg.generic` body. Core Lean only. -/
namespace SnaxVerif.Phs

variable [Variant]

theorem encodeNodes_spec (b : KBody) : ∀ (ops : List KOp) (j : Nat) (seen : List String) (ns : List Node),
    encodeNodes b ops j seen = .ok ns → ns.length = ops.length ∧
    ∀ (k : Nat) (o : KOp), ops[k]? = some o → ∃ n : Node, ns[k]? = some n ∧ n.ops = [o.name] ∧
      n.operands = o.operands.map b.conv ∧ n.sw = j + k
  | [], _, _, ns, h => by
    simp only [encodeNodes, Except.ok.injEq] at h; subst h
    exact ⟨rfl, fun k o hk => by simp at hk⟩
  | o :: r, j, seen, ns, h => by
    unfold encodeNodes at h
    split at h
    · simp at h
    next key _ =>
      simp only at h
      split at h
      · simp at h
      next ns' h' =>
        injection h with h; subst h
        obtain ⟨hl, hs⟩ := encodeNodes_spec b r (j + 1) _ ns' h'
        refine ⟨by simp [hl], ?_⟩
        intro k o' hk
        cases k with
        | zero => simp at hk; subst hk; exact ⟨_, List.getElem?_cons_zero, rfl, rfl, rfl⟩
        | succ k =>
          obtain ⟨n, hn, h1, h2, h3⟩ := hs k o' (by simpa using hk)
          exact ⟨n, by simpa using hn, h1, h2, by omega⟩

theorem conv_noMux (b : KBody) (x : KSrc) : (b.conv x).hasMux = false := by
  cases x <;> rfl

theorem srcMuxOk_noMux (A : PE) {t : Src} (h : t.hasMux = false) : srcMuxOk A t = true := by
  cases t <;> simp_all [Src.hasMux, srcMuxOk]

theorem wf_body_parts {b : KBody} (h : b.wf = true) :
    (∀ (j : Nat) (o : KOp), b.ops[j]? = some o → ∀ x, x ∈ o.operands → b.srcOk j x = true) ∧
      b.srcOk b.ops.length b.yld = true := by
  simp only [KBody.wf, Bool.and_eq_true, List.all_eq_true, List.mem_range] at h
  refine ⟨?_, h.2⟩
  intro j o hj x hx
  have := h.1 j (lt_of_getElem? hj)
  simp only [hj, List.all_eq_true] at this
  exact this x hx

/-- what `encode` returns -/
theorem encode_shape {b : KBody} {K : PE} (h : encode b = .ok K) :
    b.wf = true ∧ K.yld = b.conv b.yld ∧ K.switches = (List.range b.ops.length).map .choose ∧
    K.argTys = ((List.range b.argTys.length).filter b.argUsed).filterMap (b.argTys[·]?) ∧
    K.nodes.length = b.ops.length ∧
    ∀ (k : Nat) (o : KOp), b.ops[k]? = some o → ∃ n : Node, K.nodes[k]? = some n ∧ n.ops = [o.name] ∧
      n.operands = o.operands.map b.conv ∧ n.sw = k := by
  unfold encode at h
  split at h
  · simp at h
  next hwf =>
    split at h
    · simp at h
    next ns hns =>
      injection h with h; subst h
      obtain ⟨hl, hs⟩ := encodeNodes_spec b b.ops 0 [] ns hns
      refine ⟨by simpa using hwf, rfl, rfl, rfl, hl, ?_⟩
      intro k o hk
      obtain ⟨n, hn, h1, h2, h3⟩ := hs k o hk
      exact ⟨n, hn, h1, h2, by omega⟩

/-- **`encode` produces kernels**, provided the `get_id` names came out distinct -/
theorem encode_kwf {b : KBody} {K : PE} (h : encode b = .ok K) (hu : uniqueIds K.nodes = true) : K.kwf = true := by
  obtain ⟨hwf, hy, hsw, _, hlen, hnodes⟩ := encode_shape h
  obtain ⟨hops, hyok⟩ := wf_body_parts hwf
  -- every node of K is the image of an operation
  have hnode : ∀ (k : Nat) (n : Node), K.nodes[k]? = some n → ∃ o : KOp, b.ops[k]? = some o ∧ n.ops = [o.name] ∧
      n.operands = o.operands.map b.conv ∧ n.sw = k := by
    intro k n hn
    have hk : k < b.ops.length := by rw [← hlen]; exact lt_of_getElem? hn
    obtain ⟨n', hn', h1, h2, h3⟩ := hnodes k _ (List.getElem?_eq_getElem hk)
    rw [hn] at hn'; injection hn' with hn'; subst hn'
    exact ⟨_, List.getElem?_eq_getElem hk, h1, h2, h3⟩
  have hrefOk : ∀ (below : Nat) (x : KSrc), below ≤ K.nodes.length → b.srcOk below x = true →
      srcRefOk K (b.conv x) = true := by
    intro below x hb hx
    cases x with
    | arg i => rfl
    | res j =>
      simp only [KBody.srcOk, decide_eq_true_eq] at hx
      simp only [KBody.conv, srcRefOk]
      rw [List.getElem?_eq_getElem (by omega)]; rfl
  simp only [PE.kwf, PE.wf, Bool.and_eq_true, List.all_eq_true]
  refine ⟨⟨⟨⟨⟨⟨hu, ?_⟩, ?_⟩, ?_⟩, ?_⟩, ?_⟩, ?_⟩
  · -- nodeOk
    intro n hn
    obtain ⟨k, hk, hkn⟩ := List.getElem_of_mem hn
    obtain ⟨o, _, h1, h2, _⟩ := hnode k n (by rw [List.getElem?_eq_getElem hk, hkn])
    simp only [nodeOk, h1, h2, Bool.and_eq_true, List.all_eq_true, List.mem_map]
    refine ⟨⟨by simp, ?_⟩, by simp [classFun]⟩
    rintro t ⟨x, _, rfl⟩
    exact srcMuxOk_noMux K (conv_noMux b x)
  · rw [hy]; exact srcMuxOk_noMux K (conv_noMux b _)
  · -- nodeSwOk
    intro j hj
    have hj' : j < K.nodes.length := List.mem_range.mp hj
    obtain ⟨o, _, _, _, h3⟩ := hnode j _ (List.getElem?_eq_getElem hj')
    simp only [nodeSwOk, List.getElem?_eq_getElem hj', decide_eq_true_eq, h3, hsw]
    rw [List.getElem?_map, List.getElem?_range (by omega)]; rfl
  · -- concrete
    simp only [PE.isConcrete, Bool.and_eq_true, List.all_eq_true, Bool.not_eq_true']
    refine ⟨?_, by rw [hy]; exact conv_noMux b _⟩
    intro n hn
    obtain ⟨k, hk, hkn⟩ := List.getElem_of_mem hn
    obtain ⟨o, _, h1, h2, _⟩ := hnode k n (by rw [List.getElem?_eq_getElem hk, hkn])
    have hany : n.anyMux = false := by
      simp only [Node.anyMux, h2, List.any_eq_false, List.mem_map]
      rintro t ⟨x, _, rfl⟩
      simp [conv_noMux b x]
    simp [h1, hany]
  · -- switch targets
    simp only [swTargetsOk, List.all_eq_true, hsw, List.mem_map, List.mem_range]
    rintro u ⟨j, hj, rfl⟩
    simp only
    rw [List.getElem?_eq_getElem (by omega)]; rfl
  · -- references
    simp only [PE.refsOk, Bool.and_eq_true, List.all_eq_true]
    refine ⟨?_, by rw [hy]; exact hrefOk _ _ (by omega) hyok⟩
    intro n hn t ht
    obtain ⟨k, hk, hkn⟩ := List.getElem_of_mem hn
    obtain ⟨o, ho, _, h2, _⟩ := hnode k n (by rw [List.getElem?_eq_getElem hk, hkn])
    rw [h2] at ht
    obtain ⟨x, hx, rfl⟩ := List.mem_map.mp ht
    exact hrefOk k x (by omega) (hops k o ho x hx)

/-! ### `encode` is sound -/

theorem evalOps_spec {V : Type} (sem : OpCode → List V → V) (inp : List V) : ∀ (ops : List KOp) (res0 res : List V),
    evalOps sem inp ops res0 = some res → ∃ new, res = res0 ++ new ∧ new.length = ops.length ∧
      ∀ (k : Nat) (o : KOp), ops[k]? = some o → ∃ vs, mapOpt (lookupV inp (res0 ++ new.take k)) o.operands = some vs ∧
        new[k]? = some (sem o.name vs)
  | [], res0, res, h => by
    simp only [evalOps, Option.some.injEq] at h; subst h
    exact ⟨[], by simp, rfl, fun k o hk => by simp at hk⟩
  | o :: r, res0, res, h => by
    unfold evalOps at h
    split at h
    · simp at h
    next vs hvs =>
      obtain ⟨new', hres, hlen, hs⟩ := evalOps_spec sem inp r _ res h
      refine ⟨sem o.name vs :: new', by rw [hres]; simp, by simp [hlen], ?_⟩
      intro k o' hk
      cases k with
      | zero => simp at hk; subst hk; exact ⟨vs, by simpa using hvs, by simp⟩
      | succ k =>
        obtain ⟨vs', h1, h2⟩ := hs k o' (by simpa using hk)
        refine ⟨vs', ?_, by simpa using h2⟩
        have : res0 ++ (sem o.name vs :: new').take (k + 1) = res0 ++ [sem o.name vs] ++ new'.take k := by simp
        rw [this]; exact h1

theorem filterMap_getElem? {α β} (f : α → Option β) : ∀ (L : List α), (∀ x, x ∈ L → ∃ y, f x = some y) →
    ∀ (k : Nat), (L.filterMap f)[k]? = (L[k]?).bind f
  | [], _, k => by simp
  | x :: r, h, k => by
    obtain ⟨y, hy⟩ := h x (by simp)
    rw [List.filterMap_cons_some hy]
    cases k with
    | zero => simp [hy]
    | succ k => simpa using filterMap_getElem? f r (fun x' hx' => h x' (by simp [hx'])) k

theorem filter_range_index (p : Nat → Bool) : ∀ (n i : Nat), i < n → p i = true →
    ((List.range n).filter p)[((List.range i).filter p).length]? = some i
  | 0, i, h, _ => by omega
  | n + 1, i, h, hp => by
    rw [List.range_succ, List.filter_append]
    by_cases hi : i < n
    · have ih := filter_range_index p n i hi hp
      rw [List.getElem?_append_left (lt_of_getElem? ih)]; exact ih
    · have : i = n := by omega
      subst this
      rw [List.getElem?_append_right (Nat.le_refl _)]
      simp [hp]

theorem used_arg_index {V : Type} (b : KBody) (inp : List V) (hlen : inp.length = b.argTys.length) {i : Nat}
    (hi : i < b.argTys.length) (hu : b.argUsed i = true) {K : PE}
    (hK : K.argTys = ((List.range b.argTys.length).filter b.argUsed).filterMap (b.argTys[·]?)) :
    b.renum i < K.argTys.length ∧ (b.usedInputs inp)[b.renum i]? = inp[i]? := by
  have hidx := filter_range_index b.argUsed b.argTys.length i hi hu
  have hL : ∀ x, x ∈ (List.range b.argTys.length).filter b.argUsed → x < b.argTys.length := by
    intro x hx
    exact List.mem_range.mp (List.mem_filter.mp hx).1
  constructor
  · have : K.argTys[b.renum i]? = b.argTys[i]? := by
      rw [hK, filterMap_getElem? _ _ (fun x hx => ⟨_, List.getElem?_eq_getElem (hL x hx)⟩)]
      show (((List.range b.argTys.length).filter b.argUsed)[((List.range i).filter b.argUsed).length]?).bind _ = _
      rw [hidx]; rfl
    rw [List.getElem?_eq_getElem hi] at this
    exact lt_of_getElem? this
  · unfold KBody.usedInputs
    rw [filterMap_getElem? _ _ (fun x hx => ⟨_, List.getElem?_eq_getElem (by rw [hlen]; exact hL x hx)⟩)]
    show (((List.range b.argTys.length).filter b.argUsed)[((List.range i).filter b.argUsed).length]?).bind _ = _
    rw [hidx]; rfl

theorem argUsed_of_operand {b : KBody} {k : Nat} {o : KOp} (ho : b.ops[k]? = some o) {i : Nat}
    (hx : KSrc.arg i ∈ o.operands) : b.argUsed i = true := by
  simp only [KBody.argUsed, Bool.or_eq_true, List.any_eq_true]
  exact .inl ⟨o, List.mem_of_getElem? ho, .arg i, hx, by simp [KSrc.isArg]⟩

theorem argUsed_of_yld {b : KBody} {i : Nat} (h : b.yld = .arg i) : b.argUsed i = true := by
  simp [KBody.argUsed, h, KSrc.isArg]

/-- **`encode` is sound**: the encoded kernel delivers, on the values of the block arguments that are used, the
value of the `linalg.generic` body -/
theorem encode_sound_aux {V : Type} (sem : OpCode → List V → V) {b : KBody} {K : PE} (h : encode b = .ok K)
    (inp : List V) (hlen : inp.length = b.argTys.length) (v : V) (hv : b.eval sem inp = some v) :
    Computes sem K (fun _ => 0) (b.usedInputs inp) K.yld v := by
  obtain ⟨hwf, hy, _, hargs, hnl, hnodes⟩ := encode_shape h
  obtain ⟨hops, hyok⟩ := wf_body_parts hwf
  unfold KBody.eval at hv
  split at hv
  · simp at hv
  next res hres =>
    obtain ⟨new, hnew, hrl, hspec⟩ := evalOps_spec sem inp b.ops [] res hres
    simp only [List.nil_append] at hnew hspec; subst hnew
    -- a source that is in range evaluates in K to what the body looks up
    have hsrc : ∀ (below : Nat) (x : KSrc) (w : V), (∀ j, j < below → j < res.length →
          ∀ w', res[j]? = some w' → Computes sem K (fun _ => 0) (b.usedInputs inp) (.node j) w') →
        b.srcOk below x = true → below ≤ res.length → (∀ i, x = .arg i → b.argUsed i = true) →
        lookupV inp res x = some w → Computes sem K (fun _ => 0) (b.usedInputs inp) (b.conv x) w := by
      intro below x w ih hok hb hused hl
      cases x with
      | arg i =>
        simp only [KBody.srcOk, decide_eq_true_eq] at hok
        obtain ⟨h1, h2⟩ := used_arg_index b inp hlen hok (hused i rfl) hargs
        simp only [lookupV] at hl
        exact .arg h1 (by rw [h2]; exact hl)
      | res j =>
        simp only [KBody.srcOk, decide_eq_true_eq] at hok
        simp only [lookupV] at hl
        exact ih j hok (by omega) w hl
    have hnode : ∀ (j : Nat), j < res.length → ∀ w, res[j]? = some w →
        Computes sem K (fun _ => 0) (b.usedInputs inp) (.node j) w := by
      intro j
      induction j using Nat.strongRecOn with
      | _ j ih =>
        intro hj w hw
        have hjo : j < b.ops.length := by omega
        obtain ⟨n, hn, hno, hnop, _⟩ := hnodes j _ (List.getElem?_eq_getElem hjo)
        obtain ⟨vs, hvs, hrj⟩ := hspec j _ (List.getElem?_eq_getElem hjo)
        rw [hw] at hrj; injection hrj with hrj; subst hrj
        obtain ⟨hvl, hvp⟩ := mapOpt_some _ _ _ hvs
        refine .node hn (by simp [hno]) (by rw [hnop, List.length_map]; exact hvl) ?_
        intro p h1 h2
        have hp : p < b.ops[j].operands.length := by rw [hnop, List.length_map] at h1; exact h1
        have hlook := hvp p hp h2
        have hx : b.ops[j].operands[p] ∈ b.ops[j].operands := List.getElem_mem hp
        have hok := hops j _ (List.getElem?_eq_getElem hjo) _ hx
        -- lookups in the prefix are lookups in the final result list
        have hpre : lookupV inp res b.ops[j].operands[p] = some vs[p] := by
          cases hxe : b.ops[j].operands[p] with
          | arg i => rw [hxe] at hlook; exact hlook
          | res j' =>
            rw [hxe] at hlook hok
            simp only [KBody.srcOk, decide_eq_true_eq] at hok
            simp only [lookupV] at hlook ⊢
            rw [List.getElem?_take] at hlook
            simpa [hok] using hlook
        have := hsrc j b.ops[j].operands[p] vs[p] (fun j' hj' hj'' w' hw' => ih j' hj' hj'' w' hw') hok (by omega)
          (fun i hi => argUsed_of_operand (List.getElem?_eq_getElem hjo) (hi ▸ hx)) hpre
        simpa [hnop] using this
    rw [hy]
    exact hsrc res.length b.yld v (fun j _ hj w' hw' => hnode j hj w' hw') (by rw [hrl]; exact hyok) (Nat.le_refl _)
      (fun i hi => argUsed_of_yld hi) hv

/-- the body is total on inputs of the right length -/
theorem evalOps_total {V : Type} (sem : OpCode → List V → V) (b : KBody) (inp : List V)
    (hlen : inp.length = b.argTys.length) : ∀ (ops : List KOp) (res0 : List V),
    (∀ (k : Nat) (o : KOp), ops[k]? = some o → ∀ x, x ∈ o.operands → b.srcOk (res0.length + k) x = true) →
    ∃ res, evalOps sem inp ops res0 = some res ∧ res.length = res0.length + ops.length
  | [], res0, _ => ⟨res0, rfl, by simp⟩
  | o :: r, res0, h => by
    have hvs : ∃ vs, mapOpt (lookupV inp res0) o.operands = some vs := by
      have : ∀ (l : List KSrc), (∀ x, x ∈ l → b.srcOk res0.length x = true) → ∃ vs, mapOpt (lookupV inp res0) l = some vs := by
        intro l
        induction l with
        | nil => intro _; exact ⟨[], rfl⟩
        | cons x xs ih =>
          intro hx
          obtain ⟨vs, hvs⟩ := ih (fun y hy => hx y (by simp [hy]))
          have hxo := hx x (by simp)
          have : ∃ w, lookupV inp res0 x = some w := by
            cases x with
            | arg i =>
              simp only [KBody.srcOk, decide_eq_true_eq] at hxo
              exact ⟨_, by simp only [lookupV]; exact List.getElem?_eq_getElem (by omega)⟩
            | res j =>
              simp only [KBody.srcOk, decide_eq_true_eq] at hxo
              exact ⟨_, by simp only [lookupV]; exact List.getElem?_eq_getElem hxo⟩
          obtain ⟨w, hw⟩ := this
          exact ⟨w :: vs, by simp [mapOpt, hw, hvs]⟩
      exact this o.operands (fun x hx => by simpa using h 0 o (by simp) x hx)
    obtain ⟨vs, hvs⟩ := hvs
    obtain ⟨res, hres, hl⟩ := evalOps_total sem b inp hlen r (res0 ++ [sem o.name vs]) (by
      intro k o' hk x hx
      have := h (k + 1) o' (by simpa using hk) x hx
      simpa [Nat.add_assoc, Nat.add_comm 1 k] using this)
    refine ⟨res, by simp [evalOps, hvs, hres], by rw [hl]; simp; omega⟩

theorem body_total {V : Type} (sem : OpCode → List V → V) (b : KBody) (hwf : b.wf = true) (inp : List V)
    (hlen : inp.length = b.argTys.length) : ∃ v, b.eval sem inp = some v := by
  obtain ⟨hops, hyok⟩ := wf_body_parts hwf
  obtain ⟨res, hres, hl⟩ := evalOps_total sem b inp hlen b.ops [] (by
    intro k o hk x hx; simpa using hops k o hk x hx)
  simp only [List.length_nil, Nat.zero_add] at hl
  unfold KBody.eval
  rw [hres]
  cases hy : b.yld with
  | arg i =>
    rw [hy] at hyok
    simp only [KBody.srcOk, decide_eq_true_eq] at hyok
    exact ⟨_, by simp only [lookupV]; exact List.getElem?_eq_getElem (by omega)⟩
  | res j =>
    rw [hy] at hyok
    simp only [KBody.srcOk, decide_eq_true_eq] at hyok
    exact ⟨_, by simp only [lookupV]; exact List.getElem?_eq_getElem (by omega)⟩

/-! ### the `get_id` names of an encoded kernel are distinct -/

theorem split_underscore : ∀ (xr yr ar br : List Char), '_' ∉ xr → '_' ∉ yr →
    xr ++ '_' :: ar = yr ++ '_' :: br → xr = yr ∧ ar = br
  | [], [], _, _, _, _, h => by simp at h; exact ⟨rfl, h⟩
  | [], d :: yr, _, _, _, hy, h => by
    simp only [List.nil_append, List.cons_append, List.cons.injEq] at h
    exact absurd (by rw [← h.1]; simp) hy
  | c :: xr, [], _, _, hx, _, h => by
    simp only [List.nil_append, List.cons_append, List.cons.injEq] at h
    exact absurd (by rw [h.1]; simp) hx
  | c :: xr, d :: yr, ar, br, hx, hy, h => by
    simp only [List.cons_append, List.cons.injEq] at h
    obtain ⟨h1, h2⟩ := split_underscore xr yr ar br (fun m => hx (by simp [m])) (fun m => hy (by simp [m])) h.2
    exact ⟨by rw [h.1, h1], h2⟩

theorem id_inj {a b : String} {c d : Nat} (h : (a ++ "_") ++ toString c = (b ++ "_") ++ toString d) :
    a = b ∧ c = d := by
  have hl := congrArg String.toList h
  simp only [String.toList_append, Nat.toString_eq_repr, Nat.toList_repr] at hl
  have hu : ("_" : String).toList = ['_'] := rfl
  rw [hu] at hl
  have hr := congrArg List.reverse hl
  simp only [List.reverse_append, List.reverse_cons, List.reverse_nil, List.nil_append, List.singleton_append] at hr
  obtain ⟨h1, h2⟩ := split_underscore _ _ _ _
    (by simp) (by simp) hr
  have hcd : Nat.toDigits 10 c = Nat.toDigits 10 d := by simpa using congrArg List.reverse h1
  have hab : a.toList = b.toList := by simpa using congrArg List.reverse h2
  refine ⟨String.toList_inj.mp hab, ?_⟩
  rw [← Nat.ofDigitChars_ten_toDigits (n := c), ← Nat.ofDigitChars_ten_toDigits (n := d), hcd]

theorem findId_eq_none {id : String} : ∀ (l : List Node) (p : Nat), (∀ n, n ∈ l → n.id ≠ id) → findId id l p = none
  | [], _, _ => rfl
  | x :: r, p, h => by
    simp only [findId, if_neg (h x (by simp))]
    exact findId_eq_none r (p + 1) (fun n hn => h n (by simp [hn]))

def countKey (key : String) (seen : List String) : Nat := (seen.filter (· = key)).length

theorem countKey_append (key : String) (seen : List String) (k2 : String) :
    countKey key (seen ++ [k2]) = countKey key seen + (if k2 = key then 1 else 0) := by
  simp only [countKey, List.filter_append, List.length_append]
  by_cases h : k2 = key <;> simp [List.filter, h]

theorem keyOf_form {b : KBody} {o : KOp} {key : String} (h : b.keyOf o = some key) : ∃ k', key = k' ++ "_" := by
  simp only [KBody.keyOf, Option.map_eq_some_iff] at h
  obtain ⟨tys, _, rfl⟩ := h
  exact ⟨_, rfl⟩

theorem encodeNodes_ids (b : KBody) : ∀ (ops : List KOp) (j : Nat) (seen : List String) (ns : List Node),
    encodeNodes b ops j seen = .ok ns → uniqueIds ns = true ∧
      ∀ n, n ∈ ns → ∃ (k' : String) (cnt : Nat), n.id = (k' ++ "_") ++ toString cnt ∧ countKey (k' ++ "_") seen ≤ cnt
  | [], _, _, ns, h => by
    simp only [encodeNodes, Except.ok.injEq] at h; subst h
    exact ⟨rfl, fun n hn => by simp at hn⟩
  | o :: r, j, seen, ns, h => by
    unfold encodeNodes at h
    split at h
    · simp at h
    next key hkey =>
      simp only at h
      split at h
      · simp at h
      next ns' h' =>
        injection h with h; subst h
        obtain ⟨k0, rfl⟩ := keyOf_form hkey
        obtain ⟨hu, hf⟩ := encodeNodes_ids b r (j + 1) _ ns' h'
        refine ⟨?_, ?_⟩
        · simp only [uniqueIds, Bool.and_eq_true, Option.isNone_iff_eq_none]
          refine ⟨findId_eq_none _ _ ?_, hu⟩
          intro n hn heq
          obtain ⟨k', cnt, hid, hc⟩ := hf n hn
          rw [hid] at heq
          obtain ⟨hk, hcnt⟩ := id_inj heq
          subst hk
          rw [countKey_append] at hc
          simp only [if_true] at hc
          have : countKey (k' ++ "_") seen = (List.filter (fun x => decide (x = k' ++ "_")) seen).length := rfl
          omega
        · intro n hn
          rcases List.mem_cons.mp hn with rfl | hn
          · exact ⟨k0, _, rfl, Nat.le_refl _⟩
          · obtain ⟨k', cnt, hid, hc⟩ := hf n hn
            refine ⟨k', cnt, hid, ?_⟩
            rw [countKey_append] at hc
            omega

theorem encode_uniqueIds {b : KBody} {K : PE} (h : encode b = .ok K) : uniqueIds K.nodes = true := by
  unfold encode at h
  split at h
  · simp at h
  · split at h
    · simp at h
    next ns hns =>
      injection h with h; subst h
      exact (encodeNodes_ids b b.ops 0 [] ns hns).1

/-- **`encode` produces kernels** -/
theorem encode_kwf_full {b : KBody} {K : PE} (h : encode b = .ok K) : K.kwf = true :=
  encode_kwf h (encode_uniqueIds h)

end SnaxVerif.Phs
