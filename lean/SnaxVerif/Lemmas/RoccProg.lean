import SnaxVerif.Lemmas.CsrLower
import SnaxVerif.Lemmas.Rocc
/-! Whole-program RoCC refinement: the per-op theorems composed along a run. -/
namespace SnaxVerif.CsrLower
open SnaxVerif.RegMap (Dict lookup)

variable {σ : Type}

/-! ### per-op: register files after the emitted instructions -/

/-- names are `<instr>.rs1/.rs2` and every mentioned instruction is declared -/
def RoccNames (decl : Dict) (ps : List (String × Var)) : Prop :=
  (∀ p ∈ ps, WF p.1) ∧ (∀ p ∈ ps, ∃ f, (instrOf p.1 ++ ".rs1", f) ∈ decl)

theorem hasInstr_of_mem {ps : List (String × Var)} {k : String} {v : Var} (h : (k, v) ∈ ps) :
    hasInstr ps (instrOf (instrOf k ++ ".rs1")) = true := by
  rw [instrOf_rs1]; unfold hasInstr; rw [List.any_eq_true]; exact ⟨_, h, by simp⟩

/-- generic: instructions that all carry `applySetup`, covering every configured key -/
theorem execR_eq_applySetup (val : Var → Int) (ps : List (String × Var)) (regs : RegsR) (l : List RStmt)
    (hcar : ∀ i f a b, RStmt.insn i f a b ∈ l →
      rvalOf val a = applySetup val ps regs (i ++ ".rs1") ∧ rvalOf val b = applySetup val ps regs (i ++ ".rs2"))
    (hcov : ∀ k v, lastLookup ps k = some v → Written l k) :
    execR val l regs = applySetup val ps regs := by
  funext k
  obtain ⟨h1, h2⟩ := execR_spec val (applySetup val ps regs) l regs hcar k
  by_cases hw : Written l k
  · exact h1 hw
  · rw [h2 hw, applySetup_eq]
    cases hl : lastLookup ps k with
    | none => rfl
    | some v => exact absurd (hcov k v hl) hw

theorem rocc_setup_state_eq (decl : Dict) (ps st : List (String × Var)) (val : Var → Int) (regs : RegsR)
    (l : List RStmt) (hprev : PrevSound val st regs) (hn : RoccNames decl ps)
    (h : roccSetup decl ps (some st) = .ok l) : execR val l regs = applySetup val ps regs := by
  apply execR_eq_applySetup
  · intro i f a b hm
    simp only [roccSetup] at h
    split at h
    · obtain ⟨i', f', a', b', he, _, ha, hb⟩ := roccEmit_sound ps (fromState st) true decl l h _ hm
      cases he
      exact ⟨operand_fromState_sound hprev ps _ _ ha, operand_fromState_sound hprev ps _ _ hb⟩
    · cases h
  · intro k v hl
    have hmem := lastLookup_some_mem hl
    obtain ⟨f, hf⟩ := hn.2 _ hmem
    simp only [roccSetup] at h
    split at h
    · obtain ⟨a, b, hm⟩ := roccEmit_complete ps (fromState st) true decl l h _ hf (isRs1_rs1 _) (hasInstr_of_mem hmem)
      rw [instrOf_rs1] at hm
      exact ⟨_, _, _, _, hm, hn.1 _ hmem⟩
    · cases h

theorem rocc_first_setup_eq (decl : Dict) (ps : List (String × Var)) (val : Var → Int) (regs : RegsR)
    (l : List RStmt) (hnever : NeverSetZero ps regs) (hn : RoccNames decl ps)
    (h : roccSetup decl ps none = .ok l) : execR val l regs = applySetup val ps regs := by
  simp only [roccSetup] at h
  split at h
  · cases h
  · next l' hl' =>
    cases h
    have hpre : ∀ s ∈ (if complete ps (fun _ => none) then [] else [RStmt.const0]), s = RStmt.const0 := by
      intro s hs; split at hs
      · cases hs
      · simpa using hs
    apply execR_eq_applySetup
    · intro i f a b hm
      have hm' : RStmt.insn i f a b ∈ l' := by
        rcases List.mem_append.mp hm with hm | hm
        · cases hpre _ hm
        · exact hm
      obtain ⟨i', f', a', b', he, hi, ha, hb⟩ := roccEmit_sound ps _ true decl l' hl' _ hm'
      cases he
      unfold hasInstr at hi
      rw [List.any_eq_true] at hi
      obtain ⟨p, hp, hpi⟩ := hi
      have hpi : instrOf p.1 = i := by simpa using hpi
      have key : ∀ k x, (k = i ++ ".rs1" ∨ k = i ++ ".rs2") → operand ps (fun _ => some RVal.default0) k = some x →
          rvalOf val x = applySetup val ps regs k := by
        intro k x hk hx
        rw [applySetup_eq]
        unfold operand at hx
        cases hl : lastLookup ps k with
        | some v => rw [hl] at hx; cases hx; rfl
        | none =>
          rw [hl] at hx; cases hx
          exact (hnever p hp k (by rw [hpi]; exact hk) hl).symm
      exact ⟨key _ _ (Or.inl rfl) ha, key _ _ (Or.inr rfl) hb⟩
    · intro k v hl
      have hmem := lastLookup_some_mem hl
      obtain ⟨f, hf⟩ := hn.2 _ hmem
      obtain ⟨a, b, hm⟩ := roccEmit_complete ps _ true decl l' hl' _ hf (isRs1_rs1 _) (hasInstr_of_mem hmem)
      rw [instrOf_rs1] at hm
      rw [written_append_const0 _ hpre]
      exact ⟨_, _, _, _, hm, hn.1 _ hmem⟩

theorem rocc_launch_eq (decl : Dict) (ps : List (String × Var)) (val : Var → Int) (regs : RegsR)
    (l : List RStmt) (hn : RoccNames decl ps) (h : roccLaunch decl ps = .ok l) :
    execR val l regs = applySetup val ps regs := by
  simp only [roccLaunch] at h
  split at h
  · apply execR_eq_applySetup
    · intro i f a b hm
      obtain ⟨i', f', a', b', he, _, ha, hb⟩ := roccEmit_sound ps _ false decl l h _ hm
      cases he
      have key : ∀ k x, operand ps (fun _ => none) k = some x → rvalOf val x = applySetup val ps regs k := by
        intro k x hx
        rw [applySetup_eq]
        unfold operand at hx
        cases hl : lastLookup ps k with
        | some v => rw [hl] at hx; cases hx; rfl
        | none => rw [hl] at hx; cases hx
      exact ⟨key _ _ ha, key _ _ hb⟩
    · intro k v hl
      have hmem := lastLookup_some_mem hl
      obtain ⟨f, hf⟩ := hn.2 _ hmem
      obtain ⟨a, b, hm⟩ := roccEmit_all ps _ decl l h _ hf (isRs1_rs1 _)
      rw [instrOf_rs1] at hm
      exact ⟨_, _, _, _, hm, hn.1 _ hmem⟩
  · cases h

/-! ### the run -/

def execRCL (sem : Sem σ) : List CStmt → M σ → M σ
  | [], m => m
  | st :: l, m => execRCL sem l (execRCS sem st m)

theorem execRCB_prepend (sem : Sem σ) (l : List CStmt) (q : CBlock) (m : M σ) :
    execRCB sem (CBlock.prepend l q) m = execRCB sem q (execRCL sem l m) := by
  induction l generalizing m with
  | nil => rfl
  | cons st l ih => simp [CBlock.prepend, execRCB, execRCL, ih]

theorem execRCL_leaf (sem : Sem σ) (l : List CStmt) (h : ∀ x ∈ l, x.isLeaf = true) (m : M σ) : execRCL sem l m = m := by
  induction l generalizing m with
  | nil => rfl
  | cons x l ih =>
    have hx := h x List.mem_cons_self
    have : execRCS sem x m = m := by cases x <;> simp_all [CStmt.isLeaf, execRCS]
    simp only [execRCL, this]
    exact ih (fun y hy => h y (List.mem_cons_of_mem _ hy)) m

theorem execR_cons (val : Var → Int) (x : RStmt) (l : List RStmt) (r : RegsR) :
    execR val (x :: l) r = execR val l (execR val [x] r) := by
  cases x <;> simp [execR]

theorem execRCL_rocc (sem : Sem σ) (l : List RStmt) (m : M σ) :
    execRCL sem (l.map CStmt.rocc) m = (m.1, execR (fun v => sem.val v m.1) l m.2.1, m.2.2) := by
  induction l generalizing m with
  | nil => rfl
  | cons x l ih =>
    simp only [List.map_cons, execRCL, execRCS, ih]
    rw [execR_cons (fun v => sem.val v m.1) x l]

/-- the hypotheses of the per-op theorems hold along the iterations of a loop -/
def IterPts (f : Nat → M σ → M σ) (P : Nat → M σ → Prop) : Nat → Nat → M σ → Prop
  | 0, _, _ => True
  | n + 1, i, m => P i m ∧ IterPts f P n (i + 1) (f i m)

mutual
/-- at every RoCC op the accfg-level run reaches: its accelerator is declared, its names are well formed and
declared, and — setup with input state — the inferred previous state is sound for the registers at that point
(C07's conclusion) or — setup without input state — the operands it does not give were never set -/
def PtsS (ds : List Decl) (sem : Sem σ) : Stmt → M σ → Prop
  | .setupR acc ps prev, m => ∃ d, findDecl ds acc = some d ∧ RoccNames d.fields ps ∧
      (match prev with
       | some st => PrevSound (fun v => sem.val v m.1) st m.2.1
       | none => NeverSetZero ps m.2.1)
  | .launchR acc ps, m => ∃ d, findDecl ds acc = some d ∧ RoccNames d.launch ps
  | .ifS tag _ t e, m => if sem.cond tag m.1 then PtsB ds sem t m else PtsB ds sem e m
  | .forS tag sl b, m =>
    IterPts (fun i m' => assignM sem ((fData sl).map (fun x => (x.2.1, x.2.2.2))) (execRB sem b (sem.iter tag i m'.1, m'.2)))
      (fun i m' => PtsB ds sem b (sem.iter tag i m'.1, m'.2))
      (sem.trips tag m.1) 0 (assignM sem ((fData sl).map (fun x => (x.2.1, x.2.2.1))) m)
  | _, _ => True
def PtsB (ds : List Decl) (sem : Sem σ) : Block → M σ → Prop
  | .nil, _ => True
  | .cons st r, m => PtsS ds sem st m ∧ PtsB ds sem r (execRS sem st m)
end

theorem iterM_congr (f g : Nat → M σ → M σ) (P : Nat → M σ → Prop) (h : ∀ i m, P i m → g i m = f i m) :
    ∀ n i m, IterPts f P n i m → iterM g n i m = iterM f n i m := by
  intro n
  induction n with
  | zero => intro i m _; rfl
  | succ n ih =>
    intro i m hp
    obtain ⟨h0, hr⟩ := hp
    simp only [iterM, h i m h0]
    exact ih (i + 1) (f i m) hr

mutual
theorem roccS_refines (ds : List Decl) (sem : Sem σ) : (st : Stmt) → (l : List CStmt) → lowerStmt ds st = .ok l →
    ∀ m, PtsS ds sem st m → execRCL sem l m = execRS sem st m
  | .setup acc ps, l, h, m, _ => by
    simp only [lowerStmt] at h
    split at h
    · cases h
    · next d _ => simpa [execRS] using execRCL_leaf sem l (lowerSetup_leaf d ps l h) m
  | .launch acc ps, l, h, m, _ => by
    simp only [lowerStmt] at h
    split at h
    · cases h
    · next d _ => simpa [execRS] using execRCL_leaf sem l (lowerLaunch_leaf d ps l h) m
  | .launchG acc ps n mm sh mu, l, h, m, _ => by
    simp only [lowerStmt] at h
    split at h
    · cases h
    · next d _ => simpa [execRS] using execRCL_leaf sem l (lowerLaunchG_leaf d ps n mm sh mu l h) m
  | .await acc, l, h, m, _ => by
    simp only [lowerStmt] at h
    split at h
    · cases h
    · next d _ => cases h; simpa [execRS] using execRCL_leaf sem _ (lowerAwait_leaf d) m
  | .setupR acc ps prev, l, h, m, hp => by
    obtain ⟨d, hd, hn, hpp⟩ := hp
    simp only [lowerStmt, hd] at h
    split at h
    · cases h
    · next r hr =>
      cases h
      rw [execRCL_rocc]
      simp only [execRS]
      cases prev with
      | some st => rw [rocc_setup_state_eq d.fields ps st _ _ r hpp hn hr]
      | none => rw [rocc_first_setup_eq d.fields ps _ _ r hpp hn hr]
  | .launchR acc ps, l, h, m, hp => by
    obtain ⟨d, hd, hn⟩ := hp
    simp only [lowerStmt, hd] at h
    split at h
    · cases h
    · next r hr =>
      cases h
      rw [execRCL_rocc]
      simp only [execRS]
      rw [rocc_launch_eq d.launch ps _ _ r hn hr]
  | .awaitR acc, l, h, m, _ => by
    simp only [lowerStmt] at h
    split at h
    · cases h
    · cases h; rfl
  | .op tag n, l, h, m, _ => by
    simp only [lowerStmt] at h
    cases h
    simp [execRCL, execRCS, execRS]
  | .ifS tag sl t e, l, h, m, hp => by
    simp only [lowerStmt] at h
    split at h
    · cases h
    · next e' he =>
      split at h
      · cases h
      · next t' ht =>
        cases h
        simp only [execRCL, execRCS, execRS, iData_filter]
        simp only [PtsS] at hp
        split
        · next hc => rw [if_pos hc] at hp; rw [roccB_refines ds sem t t' ht m hp]
        · next hc => rw [if_neg hc] at hp; rw [roccB_refines ds sem e e' he m hp]
  | .forS tag sl b, l, h, m, hp => by
    simp only [lowerStmt] at h
    split at h
    · cases h
    · next b' hb =>
      cases h
      simp only [execRCL, execRCS, execRS, fData_filter]
      simp only [PtsS] at hp
      congr 1
      exact iterM_congr _ _ _ (fun i m' hm' => by rw [roccB_refines ds sem b b' hb _ hm']) _ _ _ hp
theorem roccB_refines (ds : List Decl) (sem : Sem σ) : (b : Block) → (q : CBlock) → lowerBlock ds b = .ok q →
    ∀ m, PtsB ds sem b m → execRCB sem q m = execRB sem b m
  | .nil, q, h, m, _ => by
    simp only [lowerBlock] at h
    cases h; rfl
  | .cons st r, q, h, m, hp => by
    simp only [lowerBlock] at h
    split at h
    · cases h
    · next r' hr =>
      split at h
      · cases h
      · next l hl =>
        cases h
        obtain ⟨hs, hrp⟩ := hp
        rw [execRCB_prepend, roccS_refines ds sem st l hl m hs]
        simp only [execRB]
        exact roccB_refines ds sem r r' hr _ hrp
end

end SnaxVerif.CsrLower
