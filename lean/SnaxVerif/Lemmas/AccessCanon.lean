import SnaxVerif.Model.AccessCanon
import SnaxVerif.Lemmas.AffineTransform
/-! Helper lemmas for `AccessPattern.canonicalize / inner_dims` (C19). Core Lean only. -/
namespace SnaxVerif
namespace AP
open AT

theorem InBox.length : ∀ (bs : List Bound) (x : List Int), InBox bs x → x.length = bs.length := by
  intro bs
  induction bs with
  | nil => intro x h; cases x with
    | nil => rfl
    | cons _ _ => exact absurd h (by simp [InBox])
  | cons b bs ih => intro x h; cases x with
    | nil => exact absurd h (by simp [InBox])
    | cons x xs => simp only [InBox] at h; simp [ih xs h.2.2]

theorem select_length {α} (keep : Bound → Bool) : ∀ (bs : List Bound) (l : List α), l.length = bs.length →
    (select (bs.map keep) l).length = (bs.filter keep).length := by
  intro bs
  induction bs with
  | nil => intro l _; cases l <;> simp [select]
  | cons b bs ih =>
    intro l h
    cases l with
    | nil => simp at h
    | cons a as =>
      have := ih as (by simpa using h)
      simp only [List.map_cons, select, List.filter_cons]
      split <;> simp [this]

/-- what the evaluation theorem needs of a "keep this dimension" test: a removed dimension of a point
of the box carries index 0 -/
def DropsZero (k : Bound → Bool) : Prop :=
  ∀ (b : Bound) (x : Int), k b = false → 0 ≤ x → (∀ n, b = some n → x < n) → x = 0

theorem keepFixed_dropsZero : DropsZero keepFixed := by
  intro b x hk h0 hb
  cases b with
  | none => simp [keepFixed] at hk
  | some n =>
    simp only [keepFixed, decide_eq_false_iff_not, ne_eq, Decidable.not_not] at hk
    have := hb n rfl
    omega

theorem keep_dropsZero : DropsZero keep := by
  intro b x hk h0 hb
  cases b with
  | none => simp [keep] at hk
  | some n =>
    simp only [keep, decide_eq_false_iff_not] at hk
    have := hb n rfl
    omega

/-- a removed dimension of a point of the box carries index 0 -/
theorem dropped_zero {b : Bound} {x : Int} (hk : keep b = false) (h0 : 0 ≤ x) (hb : ∀ n, b = some n → x < n) :
    x = 0 := by
  cases b with
  | none => simp [keep] at hk
  | some n =>
    simp only [keep, decide_eq_false_iff_not] at hk
    have := hb n rfl
    omega

theorem dot_select (keep : Bound → Bool) (hkz : DropsZero keep) :
    ∀ (bs : List Bound) (row x : List Int), InBox bs x → row.length = bs.length →
    dot (select (bs.map keep) row) (select (bs.map keep) x) = dot row x := by
  intro bs
  induction bs with
  | nil => intro row x _ hr; cases row with
    | nil => simp [select, dot]
    | cons _ _ => simp at hr
  | cons b bs ih =>
    intro row x hx hr
    cases x with
    | nil => exact absurd hx (by simp [InBox])
    | cons x0 xs =>
      cases row with
      | nil => simp at hr
      | cons a as =>
        simp only [InBox] at hx
        have := ih as xs hx.2.2 (by simpa using hr)
        simp only [List.map_cons, select]
        cases hk : keep b with
        | true => simp [dot, this]
        | false =>
          have hz := hkz b x0 hk hx.1 hx.2.1
          subst hz
          simp [dot, this]

theorem inBox_select (keep : Bound → Bool) : ∀ (bs : List Bound) (x : List Int), InBox bs x →
    InBox (bs.filter keep) (select (bs.map keep) x) := by
  intro bs
  induction bs with
  | nil => intro x h; cases x with
    | nil => simp [select, InBox]
    | cons _ _ => exact absurd h (by simp [InBox])
  | cons b bs ih =>
    intro x h
    cases x with
    | nil => exact absurd h (by simp [InBox])
    | cons x0 xs =>
      simp only [InBox] at h
      simp only [List.map_cons, select, List.filter_cons]
      cases hk : keep b with
      | true => simp only [if_true, InBox]; exact ⟨h.1, h.2.1, ih xs h.2.2⟩
      | false => simpa using ih xs h.2.2

/-- every removed static bound is at least 1 (so that index 0 exists) -/
def DroppedPositive (bs : List Bound) : Prop := ∀ b ∈ bs, ∀ n, b = some n → 1 ≤ n

/-- the same, for the dimensions a given test removes -/
def DroppedPositiveBy (k : Bound → Bool) (bs : List Bound) : Prop :=
  ∀ b ∈ bs, k b = false → ∀ n, b = some n → 1 ≤ n

theorem droppedPositiveBy_of (k : Bound → Bool) (bs : List Bound) (h : DroppedPositive bs) :
    DroppedPositiveBy k bs := fun b hb _ n hn => h b hb n hn

/-- fix FC19a only removes dimensions whose bound is exactly 1 -/
theorem droppedPositiveBy_keepFixed (bs : List Bound) : DroppedPositiveBy keepFixed bs := by
  intro b _ hk n hn
  subst hn
  simp only [keepFixed, decide_eq_false_iff_not, ne_eq, Decidable.not_not] at hk
  omega

theorem select_embed (keep : Bound → Bool) : ∀ (bs : List Bound) (y : List Int), y.length = (bs.filter keep).length →
    select (bs.map keep) (embed (bs.map keep) y) = y := by
  intro bs
  induction bs with
  | nil => intro y h; cases y with
    | nil => simp [select, embed]
    | cons _ _ => simp at h
  | cons b bs ih =>
    intro y h
    simp only [List.map_cons, List.filter_cons] at h ⊢
    cases hk : keep b with
    | true =>
      rw [hk] at h
      cases y with
      | nil => simp at h
      | cons y0 ys => simp only [embed, select, if_true]; rw [ih ys (by simpa using h)]
    | false =>
      rw [hk] at h
      simp only [embed, select, Bool.false_eq_true, if_false]
      exact ih y (by simpa using h)

theorem inBox_embed (keep : Bound → Bool) : ∀ (bs : List Bound) (y : List Int), DroppedPositiveBy keep bs →
    InBox (bs.filter keep) y → InBox bs (embed (bs.map keep) y) := by
  intro bs
  induction bs with
  | nil => intro y _ h; cases y with
    | nil => simp [embed, InBox]
    | cons _ _ => exact absurd h (by simp [InBox])
  | cons b bs ih =>
    intro y hp h
    have hp' : DroppedPositiveBy keep bs := fun b' hb' => hp b' (List.mem_cons_of_mem _ hb')
    simp only [List.map_cons, List.filter_cons] at h ⊢
    cases hk : keep b with
    | true =>
      rw [hk] at h
      cases y with
      | nil => exact absurd h (by simp [InBox])
      | cons y0 ys =>
        simp only [if_true, InBox] at h
        simp only [embed, InBox]
        exact ⟨h.1, h.2.1, ih ys hp' h.2.2⟩
    | false =>
      rw [hk] at h
      simp only [Bool.false_eq_true, if_false] at h
      simp only [embed, InBox]
      refine ⟨Int.le_refl 0, ?_, ih y hp' h⟩
      intro n hn
      have := hp b List.mem_cons_self hk n hn
      omega

theorem keep_filter (keep : Bound → Bool) (bs : List Bound) : ∀ b ∈ bs.filter keep, keep b = true := by
  intro b hb
  exact (List.mem_filter.mp hb).2

theorem select_all_true {α} (keep : Bound → Bool) : ∀ (bs : List Bound) (l : List α), (∀ b ∈ bs, keep b = true) →
    l.length = bs.length → select (bs.map keep) l = l := by
  intro bs
  induction bs with
  | nil => intro l _ h; cases l with
    | nil => rfl
    | cons _ _ => simp at h
  | cons b bs ih =>
    intro l hk h
    cases l with
    | nil => simp at h
    | cons a as =>
      simp only [List.map_cons, select, hk b List.mem_cons_self, if_true]
      rw [ih as (fun b' hb' => hk b' (List.mem_cons_of_mem _ hb')) (by simpa using h)]

/-- `row · (0,…,0,y) = row[k:] · y` -/
theorem dot_drop : ∀ (k : Nat) (row y : List Int),
    dot row (List.replicate k 0 ++ y) = dot (row.drop k) y := by
  intro k
  induction k with
  | zero => intro row y; simp
  | succ k ih =>
    intro row y
    cases row with
    | nil => simp [dot]
    | cons a as =>
      simp only [List.replicate_succ, List.cons_append, dot, List.drop_succ_cons]
      rw [ih as y]; simp

theorem schedCheck_filter (keep : Bound → Bool) : ∀ bs : List Bound, schedCheck bs = .ok () → schedCheck (bs.filter keep) = .ok () := by
  intro bs
  induction bs with
  | nil => intro h; exact h
  | cons b bs ih =>
    intro h
    cases b with
    | none => simp [schedCheck] at h
    | some n =>
      simp only [schedCheck] at h
      split at h
      · cases h
      · next hn =>
        simp only [List.filter_cons]
        split
        · simp only [schedCheck, if_neg hn]; exact ih h
        · exact ih h


/-! ### the theorems, for an arbitrary "keep this dimension" test -/

theorem canonWith_eval (k : Bound → Bool) (hkz : DropsZero k) (p : Pattern) (h : p.valid) (x : List Int)
    (hx : InBox p.bounds x) :
    InBox (p.canonicalizeWith k).bounds (select (p.bounds.map k) x) ∧
    (p.canonicalizeWith k).t.eval (select (p.bounds.map k) x) = p.t.eval x := by
  obtain ⟨hn, hrows, _⟩ := h
  have hxl := InBox.length _ _ hx
  refine ⟨inBox_select k _ _ hx, ?_⟩
  unfold Transform.eval Pattern.canonicalizeWith
  simp only [select_length k p.bounds x hxl, ne_eq, not_true_eq_false, if_false]
  rw [if_neg (by rw [hxl, hn]; exact fun h => h rfl)]
  congr 2
  unfold matVec
  rw [List.map_map]
  apply List.map_congr_left
  intro r hr
  exact dot_select k hkz p.bounds r x hx (by rw [hrows r hr, hn])

theorem canonWith_valid (k : Bound → Bool) (p : Pattern) (h : p.valid)
    (hc : construct p.cls p.bounds p.t = .ok p) :
    (p.canonicalizeWith k).valid ∧
    construct p.cls (p.canonicalizeWith k).bounds (p.canonicalizeWith k).t = .ok (p.canonicalizeWith k) := by
  obtain ⟨hn, hrows, hb⟩ := h
  refine ⟨⟨rfl, ?_, by simpa [Pattern.canonicalizeWith] using hb⟩, ?_⟩
  · intro r hr
    simp only [Pattern.canonicalizeWith, List.mem_map] at hr ⊢
    obtain ⟨r0, hr0, rfl⟩ := hr
    exact select_length k p.bounds r0 (by rw [hrows r0 hr0, hn])
  · unfold construct at hc ⊢
    by_cases hs : p.cls = .schedule
    · simp only [hs, if_true] at hc ⊢
      cases hsc : schedCheck p.bounds with
      | error e => simp [hsc] at hc
      | ok u =>
        have := schedCheck_filter k p.bounds hsc
        simp only [Pattern.canonicalizeWith, this, ne_eq, not_true_eq_false, if_false, hs]
    · simp only [hs, if_false, Pattern.canonicalizeWith, ne_eq, not_true_eq_false]

theorem canonWith_idem (k : Bound → Bool) (p : Pattern) (h : p.valid) :
    (p.canonicalizeWith k).canonicalizeWith k = p.canonicalizeWith k := by
  obtain ⟨hn, hrows, _⟩ := h
  have hf : (p.bounds.filter k).filter k = p.bounds.filter k := by
    rw [List.filter_filter]; simp
  unfold Pattern.canonicalizeWith
  simp only [hf, List.map_map]
  congr 2
  apply List.map_congr_left
  intro r hr
  simp only [Function.comp]
  exact select_all_true k (p.bounds.filter k) _ (keep_filter k p.bounds)
    (select_length k p.bounds r (by rw [hrows r hr, hn]))

theorem canonWith_onto (k : Bound → Bool) (hkz : DropsZero k) (p : Pattern) (h : p.valid)
    (hpos : DroppedPositiveBy k p.bounds) (y : List Int) (hy : InBox (p.canonicalizeWith k).bounds y) :
    InBox p.bounds (embed (p.bounds.map k) y) ∧
    select (p.bounds.map k) (embed (p.bounds.map k) y) = y ∧
    p.t.eval (embed (p.bounds.map k) y) = (p.canonicalizeWith k).t.eval y := by
  have hyl := InBox.length _ _ hy
  have hin := inBox_embed k p.bounds y hpos hy
  have hsel := select_embed k p.bounds y hyl
  refine ⟨hin, hsel, ?_⟩
  have := (canonWith_eval k hkz p h _ hin).2
  rw [hsel] at this
  exact this.symm

end AP
end SnaxVerif
