import SnaxVerif.Model.Casts
import SnaxVerif.Lemmas.Tsl
/-!
Correctness of `transform_constant` (`relayout`, C12): when the strides of the destination layout, sorted by
descending step, form a mixed-radix chain, the element with logical index `idx` ends up at position
`addr s idx` of the re-laid-out data.
-/
namespace SnaxVerif.Casts
open SnaxVerif SnaxVerif.Tsl

/-- row-major position of an index vector in a box (missing indices count as 0) -/
def rowMajor : List Nat → List Nat → Nat
  | [], _ => 0
  | _ :: ns, idx => idx.headD 0 * (ns.foldr (· * ·) 1) + rowMajor ns idx.tail

/-- the strides, sorted by descending step, form a mixed-radix chain: every stride with bound > 1 has as step
    the product of the bounds of the strides after it -/
def isChain : List WStride → Bool
  | [] => true
  | s :: r => (s.bound == 1 || s.step == prodW r) && isChain r

/-! ### sorting is a permutation -/

theorem insAsc_perm (x : WStride) : ∀ l, (insAsc x l).Perm (x :: l)
  | [] => List.Perm.refl _
  | y :: r => by
    simp only [insAsc]
    split
    · exact List.Perm.refl _
    · exact ((insAsc_perm x r).cons y).trans (List.Perm.swap x y r)

theorem sortAsc_perm : ∀ l, (sortAsc l).Perm l
  | [] => List.Perm.refl _
  | x :: r => (insAsc_perm x (sortAsc r)).trans ((sortAsc_perm r).cons x)

theorem sortDesc_perm (l : List WStride) : (sortDesc l).Perm l :=
  (List.reverse_perm _).trans (sortAsc_perm l)

theorem sum_map_perm {l l' : List WStride} (h : l.Perm l') (f : WStride → Nat) :
    (l.map f).sum = (l'.map f).sum :=
  (h.map f).sum_nat

theorem prodW_perm {l l' : List WStride} (h : l.Perm l') : prodW l = prodW l' := by
  induction h with
  | nil => rfl
  | cons x _ ih => simp only [prodW, ih]
  | swap x y l => simp only [prodW]; rw [Nat.mul_left_comm]
  | trans _ _ ih1 ih2 => exact ih1.trans ih2

theorem prodW_append : ∀ (a b : List WStride), prodW (a ++ b) = prodW a * prodW b
  | [], b => by simp [prodW]
  | x :: a, b => by simp only [List.cons_append, prodW, prodW_append a b, Nat.mul_assoc]

theorem prodW_tagDim (W : Nat) : ∀ t, prodW (tagDim W t) = prodB t
  | [] => rfl
  | s :: r => by simp only [tagDim, prodW, prodB, prodW_tagDim W r]

theorem prodW_tagAll : ∀ s, prodW (tagAll s) = size s
  | [] => rfl
  | t :: ts => by simp only [tagAll, prodW_append, prodW_tagDim, prodW_tagAll ts, size]

theorem bound_pos_of_prodW_pos : ∀ (l : List WStride), 0 < prodW l → ∀ x ∈ l, 0 < x.bound
  | [], _, _, hx => by cases hx
  | s :: r, h, x, hx => by
    simp only [prodW] at h
    rcases List.mem_cons.mp hx with rfl | hx
    · exact Nat.pos_of_mul_pos_right h
    · exact bound_pos_of_prodW_pos r (Nat.pos_of_mul_pos_left h) x hx

/-! ### decoding an address along a chain -/

/-- `srcIdx` is periodic with period `prodW` -/
theorem srcIdx_add_mul : ∀ (l : List WStride) (a k : Nat), srcIdx l (a + k * prodW l) = srcIdx l a
  | [], _, _ => rfl
  | s :: r, a, k => by
    simp only [srcIdx, prodW]
    have h := srcIdx_add_mul r a (k * s.bound)
    rw [Nat.mul_assoc] at h
    rw [h]
    congr 2
    rcases Nat.eq_zero_or_pos (prodW r) with h0 | h0
    · simp [h0]
    · rw [← Nat.mul_assoc, Nat.add_mul_div_right _ _ h0, Nat.add_mul_mod_self_right]

/-- an address that is written with digits along a chain is decoded digit by digit -/
theorem decode : ∀ (S : List WStride) (dig : WStride → Nat), isChain S = true → (∀ x ∈ S, dig x < x.bound) →
    (S.map fun x => x.step * dig x).sum < prodW S ∧
    srcIdx S (S.map fun x => x.step * dig x).sum = (S.map fun x => x.w * dig x).sum
  | [], _, _, _ => by simp [prodW, srcIdx]
  | s :: r, dig, hch, hd => by
    simp only [isChain, Bool.and_eq_true, Bool.or_eq_true, beq_iff_eq] at hch
    obtain ⟨hs, hr⟩ := hch
    obtain ⟨ih1, ih2⟩ := decode r dig hr (fun x hx => hd x (by simp [hx]))
    have hds := hd s (by simp)
    have hP : 0 < prodW r := by omega
    simp only [List.map_cons, List.sum_cons, prodW, srcIdx]
    generalize hA : (r.map fun x => x.step * dig x).sum = A at ih1 ih2 ⊢
    rcases hs with hs | hs
    · have h0 : dig s = 0 := by omega
      rw [h0, hs, Nat.mul_zero, Nat.zero_add, Nat.one_mul, Nat.mod_one, Nat.zero_mul, Nat.zero_add, Nat.mul_zero,
        Nat.zero_add]
      exact ⟨ih1, ih2⟩
    · rw [hs]
      have hdiv : (prodW r * dig s + A) / prodW r = dig s := by
        rw [Nat.mul_add_div hP, Nat.div_eq_of_lt ih1, Nat.add_zero]
      have hper : srcIdx r (prodW r * dig s + A) = srcIdx r A := by
        rw [Nat.add_comm, Nat.mul_comm]; exact srcIdx_add_mul r A (dig s)
      rw [hdiv, hper, Nat.mod_eq_of_lt hds, ih2, Nat.mul_comm (dig s)]
      refine ⟨?_, rfl⟩
      calc prodW r * dig s + A < prodW r * dig s + prodW r := by omega
        _ = prodW r * (dig s + 1) := by rw [Nat.mul_add, Nat.mul_one]
        _ ≤ prodW r * s.bound := Nat.mul_le_mul_left _ hds
        _ = s.bound * prodW r := Nat.mul_comm _ _

/-! ### the row-major numbering -/

theorem foldr_shape : ∀ s : SLayout, (shape s).foldr (· * ·) 1 = size s
  | [] => rfl
  | t :: ts => by
    have ih := foldr_shape ts
    simp only [shape, List.map_cons, List.foldr_cons, size] at ih ⊢
    rw [ih]

theorem rowMajor_cons (t : List SStride) (ts : SLayout) (i : Nat) (is : List Nat) :
    rowMajor (shape (t :: ts)) (i :: is) = i * size ts + rowMajor (shape ts) is := by
  rw [← foldr_shape ts]; rfl

theorem rowMajor_lt : ∀ (s : SLayout) (idx : List Nat), InBox (shape s) idx → rowMajor (shape s) idx < size s
  | [], _, _ => by simp [shape, rowMajor, size]
  | t :: ts, [], h => by simp [shape, InBox] at h
  | t :: ts, i :: is, h => by
    rw [rowMajor_cons]
    simp only [shape, List.map_cons, InBox] at h
    obtain ⟨hi, hbox⟩ := h
    have hlt := rowMajor_lt ts is hbox
    simp only [size]
    calc i * size ts + rowMajor (shape ts) is < i * size ts + size ts := by omega
      _ = (i + 1) * size ts := by rw [Nat.add_mul, Nat.one_mul]
      _ ≤ prodB t * size ts := Nat.mul_le_mul_right _ hi

/-! ### the digits of a row-major position -/

theorem sum_w_tagDim (W R : Nat) : ∀ t,
    ((tagDim W t).map fun x => x.w * ((R / x.w) % x.bound)).sum = W * ((R / W) % prodB t)
  | [] => by simp [tagDim, prodB, Nat.mod_one]
  | s :: r => by
    simp only [tagDim, List.map_cons, List.sum_cons, prodB, sum_w_tagDim W R r]
    rw [Nat.mul_comm s.bound, Nat.mod_mul, Nat.mul_comm (prodB r) W, ← Nat.div_div_eq_div_mul]
    ring

/-- mixed-radix reconstruction: the digits, weighted with the row-major weights, give the position back -/
theorem sum_w_tagAll (R : Nat) : ∀ s,
    ((tagAll s).map fun x => x.w * ((R / x.w) % x.bound)).sum = R % size s
  | [] => by simp [tagAll, size, Nat.mod_one]
  | t :: ts => by
    simp only [tagAll, List.map_append, List.sum_append, sum_w_tagDim, sum_w_tagAll R ts, size]
    rw [Nat.mul_comm (prodB t), Nat.mod_mul, Nat.add_comm]

theorem sum_step_tagDim (W R : Nat) : ∀ t,
    ((tagDim W t).map fun x => x.step * ((R / x.w) % x.bound)).sum = addrIn t (R / W)
  | [] => rfl
  | s :: r => by
    simp only [tagDim, List.map_cons, List.sum_cons, addrIn, sum_step_tagDim W R r]
    rw [Nat.mul_comm s.bound, Nat.mod_mul_right_div_self, Nat.mul_comm (prodB r) W, ← Nat.div_div_eq_div_mul]

/-- the digits of the row-major position of `idx`, weighted with the steps, give the address of `idx` -/
theorem sum_step_tagAll : ∀ (s : SLayout) (R : Nat) (idx : List Nat), InBox (shape s) idx →
    R % size s = rowMajor (shape s) idx →
    ((tagAll s).map fun x => x.step * ((R / x.w) % x.bound)).sum = addr s idx
  | [], _, _, _, _ => rfl
  | t :: ts, R, [], h, _ => by simp [shape, InBox] at h
  | t :: ts, R, i :: is, h, hR => by
    rw [rowMajor_cons] at hR
    simp only [shape, List.map_cons, InBox] at h
    obtain ⟨hi, hbox⟩ := h
    have hlt := rowMajor_lt ts is hbox
    simp only [size] at hR
    have hZ : 0 < size ts := by omega
    have h1 : R % size ts = rowMajor (shape ts) is := by
      have := Nat.mod_mul_left_mod R (prodB t) (size ts)
      rw [hR, Nat.add_comm, Nat.add_mul_mod_self_right, Nat.mod_eq_of_lt hlt] at this
      exact this.symm
    have h2 : (R / size ts) % prodB t = i := by
      have := Nat.mod_mul (x := R) (a := size ts) (b := prodB t)
      rw [Nat.mul_comm, hR, h1] at this
      apply Nat.eq_of_mul_eq_mul_left hZ
      rw [Nat.mul_comm _ i]
      omega
    have h3 : addrIn t (R / size ts) = addrIn t i := by
      have := addrIn_add_mul t ((R / size ts) % prodB t) (R / size ts / prodB t)
      rw [Nat.mul_comm, Nat.mod_add_div, h2] at this
      exact this
    simp only [tagAll, List.map_append, List.sum_append, sum_step_tagDim, addr, List.headD_cons, List.tail_cons]
    rw [h3, sum_step_tagAll ts R is hbox h1, addrDim_eq_addrIn t i hi]

/-! ### the main theorem -/

theorem relayout_length (data : List Int) (s : SLayout) : (relayout data s).length = data.length := by
  simp [relayout]

-- `hpos` is part of the agreed statement but not needed: `idx ∈ points (shape s)` already forces all bounds > 0
set_option linter.unusedVariables false in
/-- When the strides sorted by descending step form a mixed-radix chain, `relayout` puts the element with
    logical index `idx` (row-major position `rowMajor (shape s) idx` in `data`) at position `addr s idx`. -/
theorem relayout_correct (data : List Int) (s : SLayout) (hpos : SPos s) (hlen : data.length = size s)
    (hch : isChain (sortDesc (tagAll s)) = true) (idx : List Nat) (hidx : idx ∈ points (shape s)) :
    addr s idx < data.length ∧ rowMajor (shape s) idx < data.length ∧
    (relayout data s)[addr s idx]? = data[rowMajor (shape s) idx]? := by
  have hbox := (mem_points_iff _ _).mp hidx
  have hR := rowMajor_lt s idx hbox
  generalize hRdef : rowMajor (shape s) idx = R at hR ⊢
  have hperm := sortDesc_perm (tagAll s)
  have hprod : prodW (sortDesc (tagAll s)) = size s := (prodW_perm hperm).trans (prodW_tagAll s)
  have hdig : ∀ x ∈ sortDesc (tagAll s), (R / x.w) % x.bound < x.bound := fun x hx =>
    Nat.mod_lt _ (bound_pos_of_prodW_pos _ (by rw [hprod]; omega) x hx)
  obtain ⟨h1, h2⟩ := decode _ (fun x => (R / x.w) % x.bound) hch hdig
  have hA : ((sortDesc (tagAll s)).map fun x => x.step * ((R / x.w) % x.bound)).sum = addr s idx :=
    (sum_map_perm hperm _).trans (sum_step_tagAll s R idx hbox (by rw [hRdef]; exact Nat.mod_eq_of_lt hR))
  have hB : ((sortDesc (tagAll s)).map fun x => x.w * ((R / x.w) % x.bound)).sum = R :=
    (sum_map_perm hperm _).trans ((sum_w_tagAll R s).trans (Nat.mod_eq_of_lt hR))
  rw [hA] at h1 h2
  rw [hB] at h2
  rw [hprod] at h1
  have ha : addr s idx < data.length := by omega
  have hr : R < data.length := by omega
  refine ⟨ha, hr, ?_⟩
  simp only [relayout, List.getElem?_map, List.getElem?_range ha, Option.map_some, h2]
  rw [List.getElem?_eq_getElem hr, List.getD_eq_getElem?_getD, List.getElem?_eq_getElem hr, Option.getD_some]

/-! ### a dense layout is a chain -/

/-- all sums of digits times steps, in the order of `all_values` -/
def vals : List WStride → List Nat
  | [] => [0]
  | x :: r => bsum ((List.range x.bound).map (x.step * ·)) (vals r)

theorem mem_bsum (A B : List Nat) (x : Nat) : x ∈ bsum A B ↔ ∃ a ∈ A, ∃ b ∈ B, x = a + b := by
  simp only [bsum, List.mem_flatMap, List.mem_map]
  constructor
  · rintro ⟨a, ha, b, hb, rfl⟩; exact ⟨a, ha, b, hb, rfl⟩
  · rintro ⟨a, ha, b, hb, rfl⟩; exact ⟨a, ha, b, hb, rfl⟩

theorem length_bsum (A B : List Nat) : (bsum A B).length = A.length * B.length := by
  induction A with
  | nil => simp [bsum]
  | cons a A ih =>
    simp only [bsum, List.flatMap_cons, List.length_append, List.length_map, List.length_cons] at ih ⊢
    rw [ih, Nat.succ_mul, Nat.add_comm]

theorem flatMap_comm_perm {α β γ : Type} (l₁ : List α) (l₂ : List β) (f : α → β → List γ) :
    (l₁.flatMap fun a => l₂.flatMap fun b => f a b).Perm (l₂.flatMap fun b => l₁.flatMap fun a => f a b) := by
  induction l₁ with
  | nil => simp
  | cons _ l₁ ih =>
    simp only [List.flatMap_cons]
    exact (ih.append_left _).trans (List.flatMap_append_perm l₂ _ _)

theorem bsum_comm_perm (A B : List Nat) : (bsum A B).Perm (bsum B A) := by
  have h := flatMap_comm_perm A B fun a b => [a + b]
  simp only [← List.map_eq_flatMap] at h
  have e : (B.flatMap fun b => A.map fun a => a + b) = bsum B A :=
    List.flatMap_congr fun b _ => List.map_congr_left fun a _ => Nat.add_comm a b
  rw [e] at h
  exact h

theorem bsum_perm_right (A : List Nat) {B B' : List Nat} (h : B.Perm B') : (bsum A B).Perm (bsum A B') :=
  List.Perm.flatMap_left A fun _ _ => h.map _

theorem bsum_perm_left {A A' : List Nat} (B : List Nat) (h : A.Perm A') : (bsum A B).Perm (bsum A' B) :=
  h.flatMap_right _

theorem vals_perm {l l' : List WStride} (h : l.Perm l') : (vals l).Perm (vals l') := by
  induction h with
  | nil => exact List.Perm.refl _
  | cons x _ ih => exact bsum_perm_right _ ih
  | swap x y l =>
    simp only [vals]
    rw [← bsum_assoc, ← bsum_assoc]
    exact bsum_perm_left _ (bsum_comm_perm _ _)
  | trans _ _ ih1 ih2 => exact ih1.trans ih2

theorem length_vals : ∀ l, (vals l).length = prodW l
  | [] => rfl
  | x :: r => by simp only [vals, length_bsum, List.length_map, List.length_range, length_vals r, prodW]

theorem vals_append : ∀ (a b : List WStride), vals (a ++ b) = bsum (vals a) (vals b)
  | [], b => by simp only [List.nil_append, vals, bsum_zero_left]
  | x :: a, b => by simp only [List.cons_append, vals, vals_append a b, bsum_assoc]

theorem vals_tagDim (W : Nat) : ∀ t, (∀ x ∈ t, 0 < x.bound) → vals (tagDim W t) = enumDim t
  | [], _ => rfl
  | s :: r, h => by
    have hr : ∀ x ∈ r, 0 < x.bound := fun x hx => h x (by simp [hx])
    simp only [tagDim, vals, vals_tagDim W r hr]
    exact enumDim_cons s r hr

theorem vals_tagAll : ∀ s, SPos s → vals (tagAll s) = (points (shape s)).map (addr s)
  | [], _ => rfl
  | t :: ts, hpos => by
    have ht : ∀ x ∈ t, 0 < x.bound := fun x hx => (hpos t (by simp) x hx).2
    have hts : SPos ts := fun t' ht' => hpos t' (by simp [ht'])
    simp only [tagAll, vals_append, vals_tagDim _ t ht, vals_tagAll ts hts, shape, List.map_cons]
    rw [map_addr_points_cons]
    rfl

theorem pos_tagDim (W : Nat) : ∀ t, (∀ x ∈ t, 0 < x.step ∧ 0 < x.bound) →
    ∀ x ∈ tagDim W t, 0 < x.step ∧ 0 < x.bound
  | [], _, x, hx => by cases hx
  | s :: r, h, x, hx => by
    simp only [tagDim, List.mem_cons] at hx
    rcases hx with rfl | hx
    · exact h s (by simp)
    · exact pos_tagDim W r (fun y hy => h y (by simp [hy])) x hx

theorem pos_tagAll : ∀ s, SPos s → ∀ x ∈ tagAll s, 0 < x.step ∧ 0 < x.bound
  | [], _, x, hx => by cases hx
  | t :: ts, hpos, x, hx => by
    simp only [tagAll, List.mem_append] at hx
    rcases hx with hx | hx
    · exact pos_tagDim _ t (hpos t (by simp)) x hx
    · exact pos_tagAll ts (fun t' ht' => hpos t' (by simp [ht'])) x hx

theorem prodW_pos : ∀ (l : List WStride), (∀ x ∈ l, 0 < x.bound) → 0 < prodW l
  | [], _ => Nat.one_pos
  | s :: r, h => Nat.mul_pos (h s (by simp)) (prodW_pos r fun x hx => h x (by simp [hx]))

theorem zero_mem_vals : ∀ (l : List WStride), (∀ x ∈ l, 0 < x.bound) → 0 ∈ vals l
  | [], _ => by simp [vals]
  | s :: r, h => by
    simp only [vals, mem_bsum, List.mem_map, List.mem_range]
    exact ⟨0, ⟨0, h s (by simp), rfl⟩, 0, zero_mem_vals r (fun x hx => h x (by simp [hx])), rfl⟩

/-- the sums along a chain stay below the product of the bounds -/
theorem chain_vals_lt : ∀ (r : List WStride), isChain r = true → ∀ a ∈ vals r, a < prodW r
  | [], _, a, ha => by simp [vals] at ha; simp [ha, prodW]
  | s :: r, hch, a, ha => by
    simp only [isChain, Bool.and_eq_true, Bool.or_eq_true, beq_iff_eq] at hch
    obtain ⟨hs, hr⟩ := hch
    simp only [vals, mem_bsum, List.mem_map, List.mem_range] at ha
    obtain ⟨_, ⟨d, hd, rfl⟩, v, hv, rfl⟩ := ha
    have hv' := chain_vals_lt r hr v hv
    simp only [prodW]
    rcases hs with hs | hs
    · have : d = 0 := by omega
      subst this
      rw [hs]; omega
    · rw [hs]
      calc prodW r * d + v < prodW r * d + prodW r := by omega
        _ = prodW r * (d + 1) := by rw [Nat.mul_add, Nat.mul_one]
        _ ≤ prodW r * s.bound := Nat.mul_le_mul_left _ hd
        _ = s.bound * prodW r := Nat.mul_comm _ _

/-- every number below the product of the bounds is a sum along a chain -/
theorem chain_vals_mem : ∀ (r : List WStride), isChain r = true → ∀ a, a < prodW r → a ∈ vals r
  | [], _, a, ha => by simp only [prodW] at ha; simp [vals]; omega
  | s :: r, hch, a, ha => by
    simp only [isChain, Bool.and_eq_true, Bool.or_eq_true, beq_iff_eq] at hch
    obtain ⟨hs, hr⟩ := hch
    simp only [prodW] at ha
    simp only [vals, mem_bsum, List.mem_map, List.mem_range]
    rcases hs with hs | hs
    · rw [hs, Nat.one_mul] at ha
      exact ⟨0, ⟨0, by omega, rfl⟩, a, chain_vals_mem r hr a ha, by omega⟩
    · have hP : 0 < prodW r := by
        rcases Nat.eq_zero_or_pos (prodW r) with h0 | h0
        · rw [h0] at ha; omega
        · exact h0
      refine ⟨s.step * (a / prodW r), ⟨a / prodW r, (Nat.div_lt_iff_lt_mul hP).mpr ha, rfl⟩, a % prodW r,
        chain_vals_mem r hr _ (Nat.mod_lt _ hP), ?_⟩
      rw [hs]; exact (Nat.div_add_mod a (prodW r)).symm

/-- a sum that uses one of the strides `pre` is at least as large as the smallest of their steps -/
theorem vals_overshoot (m : Nat) (r : List WStride) : ∀ (pre : List WStride), (∀ x ∈ pre, m ≤ x.step) →
    ∀ a ∈ vals (pre ++ r), a ∈ vals r ∨ m ≤ a
  | [], _, a, ha => Or.inl ha
  | x :: pre, h, a, ha => by
    simp only [List.cons_append, vals, mem_bsum, List.mem_map, List.mem_range] at ha
    obtain ⟨_, ⟨d, _, rfl⟩, v, hv, rfl⟩ := ha
    rcases Nat.eq_zero_or_pos d with rfl | hd
    · rw [Nat.mul_zero, Nat.zero_add]
      exact vals_overshoot m r pre (fun y hy => h y (by simp [hy])) v hv
    · right
      have h1 : m ≤ x.step := h x (by simp)
      have h2 : x.step * 1 ≤ x.step * d := Nat.mul_le_mul_left _ hd
      omega

/-- injectivity: the unit vector of a stride with bound > 1 cannot collide with a sum of the later strides -/
theorem vals_nodup_step (pre : List WStride) (s : WStride) (r : List WStride)
    (hnd : (vals (pre ++ s :: r)).Nodup) (hpre : ∀ x ∈ pre, 0 < x.bound) (hs : 2 ≤ s.bound)
    (h0 : 0 ∈ vals r) : s.step ∉ vals r := by
  intro hmem
  rw [vals_append] at hnd
  have h1 := (List.nodup_flatMap.mp hnd).1 0 (zero_mem_vals pre hpre)
  have h2 : (vals (s :: r)).Nodup := h1.of_map
  have h3 := (List.nodup_flatMap.mp h2).2
  have hsub : [s.step * 0, s.step * 1].Sublist ((List.range s.bound).map (s.step * ·)) := by
    have : (List.range 2).Sublist (List.range s.bound) := List.range_sublist.mpr hs
    exact this.map (s.step * ·)
  have h4 := h3.sublist hsub
  simp only [List.pairwise_cons, List.mem_singleton, forall_eq, Function.onFun] at h4
  have h5 := h4.1
  rw [List.disjoint_left] at h5
  apply h5 (a := s.step)
  · simp only [List.mem_map]; exact ⟨s.step, hmem, by omega⟩
  · simp only [List.mem_map]; exact ⟨0, h0, by omega⟩

/-- strides sorted by descending step whose sums enumerate `0 … N-1` without repetition form a chain
    (`pre` = the strides with the larger steps that the induction has already passed) -/
theorem chain_of_dense : ∀ (r pre : List WStride), (∀ x ∈ pre ++ r, 0 < x.step ∧ 0 < x.bound) →
    (vals (pre ++ r)).Perm (List.range (prodW (pre ++ r))) →
    (pre ++ r).Pairwise (fun a b => b.step ≤ a.step) → isChain r = true
  | [], _, _, _, _ => rfl
  | s :: r, pre, hpos, hG, hsort => by
    have hassoc : pre ++ s :: r = (pre ++ [s]) ++ r := by simp
    have hc : isChain r = true := by
      apply chain_of_dense r (pre ++ [s])
      · rw [← hassoc]; exact hpos
      · rw [← hassoc]; exact hG
      · rw [← hassoc]; exact hsort
    simp only [isChain, Bool.and_eq_true, Bool.or_eq_true, beq_iff_eq]
    refine ⟨?_, hc⟩
    by_cases hb : s.bound = 1
    · exact Or.inl hb
    right
    have hsb : 2 ≤ s.bound := by
      have := (hpos s (by simp)).2
      omega
    have hpre : ∀ x ∈ pre, 0 < x.bound := fun x hx => (hpos x (by simp [hx])).2
    have hrb : ∀ x ∈ r, 0 < x.bound := fun x hx => (hpos x (by simp [hx])).2
    have hP : 0 < prodW r := prodW_pos r hrb
    have hnd : (vals (pre ++ s :: r)).Nodup := hG.nodup_iff.mpr List.nodup_range
    have hnot := vals_nodup_step pre s r hnd hpre hsb (zero_mem_vals r hrb)
    rcases Nat.lt_trichotomy s.step (prodW r) with hlt | heq | hgt
    · exact absurd (chain_vals_mem r hc _ hlt) hnot
    · exact heq
    · exfalso
      have hN : prodW r < prodW (pre ++ s :: r) := by
        rw [prodW_append]
        simp only [prodW]
        have h1 : 0 < prodW pre := prodW_pos pre hpre
        calc prodW r < 1 * (2 * prodW r) := by omega
          _ ≤ prodW pre * (s.bound * prodW r) :=
            Nat.mul_le_mul h1 (Nat.mul_le_mul_right _ hsb)
      have hmem : prodW r ∈ vals (pre ++ s :: r) := hG.mem_iff.mpr (List.mem_range.mpr hN)
      rw [hassoc] at hmem
      have hge : ∀ x ∈ pre ++ [s], s.step ≤ x.step := by
        intro x hx
        rcases List.mem_append.mp hx with hx | hx
        · exact (List.pairwise_append.mp hsort).2.2 x hx s (by simp)
        · rw [List.mem_singleton.mp hx]
      rcases vals_overshoot s.step r (pre ++ [s]) hge _ hmem with h | h
      · exact absurd (chain_vals_lt r hc _ h) (Nat.lt_irrefl _)
      · omega

theorem insAsc_sorted (x : WStride) : ∀ l, l.Pairwise (fun a b => a.step ≤ b.step) →
    (insAsc x l).Pairwise (fun a b => a.step ≤ b.step)
  | [], _ => by simp [insAsc]
  | y :: r, h => by
    obtain ⟨hy, hr⟩ := List.pairwise_cons.mp h
    simp only [insAsc]
    split
    · rename_i hxy
      refine List.pairwise_cons.mpr ⟨?_, h⟩
      intro z hz
      rcases List.mem_cons.mp hz with rfl | hz
      · exact hxy
      · exact Nat.le_trans hxy (hy z hz)
    · rename_i hxy
      refine List.pairwise_cons.mpr ⟨?_, insAsc_sorted x r hr⟩
      intro z hz
      rcases List.mem_cons.mp ((insAsc_perm x r).mem_iff.mp hz) with rfl | hz
      · omega
      · exact hy z hz

theorem sortAsc_sorted : ∀ l, (sortAsc l).Pairwise (fun a b => a.step ≤ b.step)
  | [] => List.Pairwise.nil
  | x :: r => insAsc_sorted x _ (sortAsc_sorted r)

theorem sortDesc_sorted (l : List WStride) : (sortDesc l).Pairwise (fun a b => b.step ≤ a.step) :=
  List.pairwise_reverse.mpr (sortAsc_sorted l)

/-- A dense layout (the addresses of the box are a permutation of `0 … N-1`; this is what `is_dense()` checks,
    see `dense_iff_perm`) has strides that form a mixed-radix chain when sorted by descending step, i.e. the
    hypothesis of `relayout_correct` holds for every layout that `transform_constant` accepts. -/
theorem dense_isChain (s : SLayout) (hpos : SPos s)
    (hd : ((points (shape s)).map (addr s)).Perm (List.range (points (shape s)).length)) :
    isChain (sortDesc (tagAll s)) = true := by
  have hperm := sortDesc_perm (tagAll s)
  have hlen : (points (shape s)).length = prodW (sortDesc (tagAll s)) := by
    rw [prodW_perm hperm, ← length_vals, vals_tagAll s hpos, List.length_map]
  rw [hlen, ← vals_tagAll s hpos] at hd
  apply chain_of_dense _ []
  · intro x hx
    exact pos_tagAll s hpos x (hperm.mem_iff.mp (by simpa using hx))
  · simpa using (vals_perm hperm).trans hd
  · simpa using sortDesc_sorted (tagAll s)

/-! ### tiles of a global (`ApplyLayoutCastSubviewGlobal`) -/

/-- With one more, outermost, stride `⟨cur, rem⟩` for the tiles, element `i` of tile `q` of a dimension sits at
`cur * q` plus its address inside the tile. -/
theorem outerTile_addrDim (cur rem : Nat) (t : List SStride) (ht : ∀ x ∈ t, 0 < x.bound) (q i : Nat)
    (hi : i < prodB t) : addrDim (⟨cur, rem⟩ :: t) (prodB t * q + i) = cur * q + addrDim t i := by
  have hP := prodB_pos t ht
  show cur * ((prodB t * q + i) / prodB t) + addrIn t (prodB t * q + i) = cur * q + addrDim t i
  rw [addrIn_mul_add, Nat.mul_add_div hP, Nat.div_eq_of_lt hi, Nat.add_zero, addrDim_eq_addrIn t i hi]

/-- `i` is an index inside a tile and tile number `q` lies inside the shape, in every dimension -/
def TileIn : SLayout → List Nat → List Nat → List Nat → Prop
  | [], [], [], [] => True
  | t :: ts, sh :: shs, q :: qs, i :: is => i < prodB t ∧ (q + 1) * prodB t ≤ sh ∧ TileIn ts shs qs is
  | _, _, _, _ => False

theorem addr_cons (t : List SStride) (ts : SLayout) (p : Nat) (ps : List Nat) :
    addr (t :: ts) (p :: ps) = addrDim t p + addr ts ps := rfl

/-- the whole layout: element `i` of tile `q` sits at the address of the first element of the tile plus the address
of `i` under the tile layout -/
theorem outerTiles_addr : ∀ (l : SLayout) (shape : List Nat) (cur : Nat) (q i : List Nat),
    (∀ t ∈ l, ∀ x ∈ t, 0 < x.bound) → TileIn l shape q i →
    addr (outerTiles l shape cur) (tilePoint l q i) = addr (outerTiles l shape cur) (tileBase l q) + addr l i
  | [], [], _, [], [], _, _ => rfl
  | [], [], _, [], _ :: _, _, h => h.elim
  | [], [], _, _ :: _, _, _, h => h.elim
  | [], _ :: _, _, _, _, _, h => by cases h
  | t :: ts, [], _, _, _, _, h => by cases h
  | t :: ts, sh :: shs, _, [], _, _, h => by cases h
  | t :: ts, sh :: shs, _, q :: qs, [], _, h => by cases h
  | t :: ts, sh :: shs, cur, q :: qs, i :: is, hpos, h => by
    obtain ⟨hi, hq, hrest⟩ := h
    have ht : ∀ x ∈ t, 0 < x.bound := hpos t (by simp)
    have hts : ∀ t' ∈ ts, ∀ x ∈ t', 0 < x.bound := fun t' ht' => hpos t' (by simp [ht'])
    have hP := prodB_pos t ht
    simp only [outerTiles, tilePoint, tileBase]
    split
    next hrem =>
      rw [addr_cons, addr_cons, addr_cons, outerTile_addrDim cur _ t ht q i hi,
        outerTiles_addr ts shs _ qs is hts hrest]
      have h0 := outerTile_addrDim cur (sh / prodB t) t ht q 0 hP
      rw [Nat.add_zero, addrDim_zero, Nat.add_zero] at h0
      rw [h0]
      omega
    next hrem =>
      have hq0 : q = 0 := by
        have : q + 1 ≤ sh / prodB t := (Nat.le_div_iff_mul_le hP).mpr hq
        omega
      subst hq0
      rw [addr_cons, addr_cons, addr_cons, outerTiles_addr ts shs _ qs is hts hrest]
      simp only [Nat.mul_zero, Nat.zero_add, addrDim_zero]
      omega

end SnaxVerif.Casts
