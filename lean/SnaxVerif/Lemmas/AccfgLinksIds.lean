import SnaxVerif.Lemmas.AccfgLinksMain
/-! State ids allocated by `weave` do not clash: the owner table of the woven program (`tableOf`, first match) finds
the definition of every state value. Then the invariant at top level: `weave_agree`. -/
namespace SnaxVerif.AccfgLinks
open SnaxVerif.Accfg

/-- all keys in `[lo, hi)`, and two entries with the same key are the same definition -/
def KeysOK (l : List (StateId × LDef)) (lo hi : Nat) : Prop :=
  (∀ p ∈ l, lo ≤ (p.1 : Nat) ∧ (p.1 : Nat) < hi) ∧ ∀ p ∈ l, ∀ q ∈ l, p.1 = q.1 → p.2 = q.2

theorem KeysOK.nil (lo hi : Nat) : KeysOK [] lo hi := ⟨by simp, by simp⟩

theorem KeysOK.mono {l lo hi lo' hi'} (h : KeysOK l lo hi) (h1 : lo' ≤ lo) (h2 : hi ≤ hi') : KeysOK l lo' hi' :=
  ⟨fun p hp => by have := h.1 p hp; somega, h.2⟩

theorem KeysOK.union {l l1 l2 : List (StateId × LDef)} {lo mid hi : Nat}
    (hmem : ∀ p, p ∈ l → p ∈ l1 ∨ p ∈ l2) (h1 : KeysOK l1 lo mid) (h2 : KeysOK l2 mid hi)
    (hlm : lo ≤ mid) (hmh : mid ≤ hi) : KeysOK l lo hi := by
  refine ⟨?_, ?_⟩
  · intro p hp
    rcases hmem p hp with h | h
    · have := h1.1 p h; somega
    · have := h2.1 p h; somega
  · intro p hp q hq hpq
    rcases hmem p hp with hp1 | hp2
    · rcases hmem q hq with hq1 | hq2
      · exact h1.2 p hp1 q hq1 hpq
      · have := h1.1 p hp1; have := h2.1 q hq2; rw [hpq] at *; somega
    · rcases hmem q hq with hq1 | hq2
      · have := h2.1 p hp2; have := h1.1 q hq1; rw [hpq] at *; somega
      · exact h2.2 p hp2 q hq2 hpq

theorem KeysOK.append {l1 l2 : List (StateId × LDef)} {lo mid hi : Nat} (h1 : KeysOK l1 lo mid)
    (h2 : KeysOK l2 mid hi) (hlm : lo ≤ mid) (hmh : mid ≤ hi) : KeysOK (l1 ++ l2) lo hi :=
  KeysOK.union (fun _ hp => List.mem_append.mp hp) h1 h2 hlm hmh

theorem lookup_of_consistent : ∀ (l : List (StateId × LDef)),
    (∀ p ∈ l, ∀ q ∈ l, p.1 = q.1 → p.2 = q.2) → ∀ p ∈ l, l.lookup p.1 = some p.2
  | [], _, p, hp => by simp at hp
  | x :: r, hc, p, hp => by
    obtain ⟨k, d⟩ := x
    by_cases hk : p.1 = k
    · have : (p.1 == k) = true := by simpa using hk
      simp only [List.lookup, this]
      have := hc p hp (k, d) (by simp) hk
      simp only at this; rw [this]
    · have hb : (p.1 == k) = false := by simpa using hk
      simp only [List.lookup, hb]
      have hpr : p ∈ r := by
        rcases List.mem_cons.mp hp with h | h
        · rw [h] at hk; exact absurd rfl hk
        · exact h
      exact lookup_of_consistent r (fun p hp q hq => hc p (by simp [hp]) q (by simp [hq])) p hpr

theorem lookup_mkIds_inj : ∀ (l : List AccId) (n : Nat) (a a' : AccId) (v : StateId),
    (mkIds l n).lookup a = some v → (mkIds l n).lookup a' = some v → a = a'
  | [], _, _, _, _, h, _ => by simp [mkIds] at h
  | b :: r, n, a, a', v, h, h' => by
    simp only [mkIds, List.lookup] at h h'
    by_cases hab : a = b
    · by_cases hab' : a' = b
      · rw [hab, hab']
      · have hb' : (a' == b) = false := by simpa using hab'
        have hb : (a == b) = true := by simpa using hab
        simp only [hb, hb'] at h h'
        have hmem : a' ∈ r := by
          by_cases hm : a' ∈ r
          · exact hm
          · rw [lookup_mkIds_none r (n + 1) a' hm] at h'; simp at h'
        obtain ⟨w, hw, h1, _⟩ := lookup_mkIds_some r (n + 1) a' hmem
        rw [hw] at h'
        have : (w : Nat) = v := by simpa using h'
        have : (n : Nat) = v := by simpa using h
        omega
    · have hb : (a == b) = false := by simpa using hab
      by_cases hab' : a' = b
      · have hb' : (a' == b) = true := by simpa using hab'
        simp only [hb, hb'] at h h'
        have hmem : a ∈ r := by
          by_cases hm : a ∈ r
          · exact hm
          · rw [lookup_mkIds_none r (n + 1) a hm] at h; simp at h
        obtain ⟨w, hw, h1, _⟩ := lookup_mkIds_some r (n + 1) a hmem
        rw [hw] at h
        have : (w : Nat) = v := by simpa using h
        have : (n : Nat) = v := by simpa using h'
        omega
      · have hb' : (a' == b) = false := by simpa using hab'
        simp only [hb, hb'] at h h'
        exact lookup_mkIds_inj r (n + 1) a a' v h h'

/-- entries `(id of a, def of a)` for `a` in a list, with ids looked up in `mkIds l n` -/
theorem keysOK_mkIds (l : List AccId) (n : Nat) (mk : AccId → LDef) :
    KeysOK (l.map fun a => (((mkIds l n).lookup a).getD 0, mk a)) n (n + l.length) := by
  refine ⟨?_, ?_⟩
  · intro p hp
    obtain ⟨a, ha, rfl⟩ := List.mem_map.mp hp
    obtain ⟨v, hv, h1, h2⟩ := lookup_mkIds_some l n a ha
    simp only [hv, Option.getD_some]
    exact ⟨h1, h2⟩
  · intro p hp q hq hpq
    obtain ⟨a, ha, rfl⟩ := List.mem_map.mp hp
    obtain ⟨a', ha', rfl⟩ := List.mem_map.mp hq
    obtain ⟨v, hv, _, _⟩ := lookup_mkIds_some l n a ha
    obtain ⟨v', hv', _, _⟩ := lookup_mkIds_some l n a' ha'
    simp only [hv, hv', Option.getD_some] at hpq ⊢
    subst hpq
    rw [lookup_mkIds_inj l n a a' v hv hv']

theorem keysOK_empties (l : List AccId) (σ : Sig) (n : Nat) :
    KeysOK ((ensure l σ n).1.map fun p => (p.2, LDef.setup none [])) n (ensure l σ n).2.2 := by
  refine ⟨?_, ?_⟩
  · intro p hp
    obtain ⟨x, hx, rfl⟩ := List.mem_map.mp hp
    obtain ⟨_, h1, h2⟩ := ensure_pre l σ n x hx
    exact ⟨h1, h2⟩
  · intro p hp q hq _
    obtain ⟨x, _, rfl⟩ := List.mem_map.mp hp
    obtain ⟨y, _, rfl⟩ := List.mem_map.mp hq
    rfl

theorem ifFinish_nxt (c σ cands wt we ρ) :
    (ifFinish c σ cands wt we ρ).nxt = we.nxt + (ifChanged σ wt.sig we.sig cands).length := rfl
theorem ifFinish_pre (c σ cands wt we ρ) : (ifFinish c σ cands wt we ρ).pre = [] := rfl
theorem forFinish_nxt (lb ub st iv us en wb ρ) :
    (forFinish lb ub st iv us en wb ρ).nxt = (ensure us wb.sig wb.nxt).2.2 + us.length := rfl

mutual
theorem keysS : (s : PStmt) → ∀ σ cur n ρ, KeysOK (wsDefs (weaveS s σ cur n ρ)) n (weaveS s σ cur n ρ).nxt
  | .setup a fs out inp, σ, cur, n, ρ => by
      simp only [wsDefs, weaveS, ldefsS, List.map_nil, List.nil_append]
      exact ⟨by simp, by simp⟩
  | .launch _ _ _, _, _, n, _ => by simpa [wsDefs, weaveS, ldefsS] using KeysOK.nil n n
  | .await _, _, _, n, _ => by simpa [wsDefs, weaveS, ldefsS] using KeysOK.nil n n
  | .pure _ _ _, _, _, n, _ => by simpa [wsDefs, weaveS, ldefsS] using KeysOK.nil n n
  | .call _ _, _, _, n, _ => by simpa [wsDefs, weaveS, ldefsS] using KeysOK.nil n n
  | .ifS c t e, σ, cur, n, ρ => by
      simp only [weaveS, wsDefs, ifFinish_pre, ifFinish_stmt_eq, ifFinish_nxt, ldefsS, List.map_nil, List.nil_append]
      have ht := keysB t σ noSig n ρ
      have he := keysB e σ noSig (weaveB t σ noSig n ρ).nxt ρ
      have hmt := weaveB_mono t σ noSig n ρ
      have hme := weaveB_mono e σ noSig (weaveB t σ noSig n ρ).nxt ρ
      refine KeysOK.append ht (KeysOK.append he ?_ hme (Nat.le_add_right _ _)) hmt (by omega)
      have := keysOK_mkIds (ifChanged σ (weaveB t σ noSig n ρ).sig (weaveB e σ noSig (weaveB t σ noSig n ρ).nxt ρ).sig
        (sortU (accsPB t ++ accsPB e))) (weaveB e σ noSig (weaveB t σ noSig n ρ).nxt ρ).nxt
        (fun a => LDef.ifRes (((weaveB t σ noSig n ρ).sig a).getD 0)
          (((weaveB e σ noSig (weaveB t σ noSig n ρ).nxt ρ).sig a).getD 0))
      simpa [ifResOf, List.map_map, Function.comp_def] using this
  | .forS lb ub st iv body car, σ, cur, n, ρ => by
      simp only [weaveS]
      split
      · simp only [wsDefs, ldefsS, List.map_nil, List.nil_append, List.append_nil]
        exact keysB body σ noSig n ρ
      · generalize sortU (accsPB body ++ car.map (·.acc)) = us
        have hpre := keysOK_empties us σ n
        have hm1 := ensure_mono us σ n
        generalize ensure us σ n = en at *
        generalize (car.map fun k => (k.arg, (((mkIds us en.2.2).lookup k.acc).getD 0))) ++ ρ = ρb
        have hb := keysB body (forBodySig us en) noSig (en.2.2 + us.length) ρb
        have hm2 := weaveB_mono body (forBodySig us en) noSig (en.2.2 + us.length) ρb
        generalize weaveB body (forBodySig us en) noSig (en.2.2 + us.length) ρb = wb at *
        have hpost := keysOK_empties us wb.sig wb.nxt
        have hm3 := ensure_mono us wb.sig wb.nxt
        simp only [wsDefs, forFinish_pre, forFinish_stmt_eq, forFinish_nxt, ldefsS]
        have hargs : KeysOK ((forCarOf us en wb).map fun c => (c.arg, LDef.forArg c.init c.yld)) en.2.2
            (en.2.2 + us.length) := by
          have := keysOK_mkIds us en.2.2 (fun a => LDef.forArg ((en.2.1 a).getD 0)
            (((ensure us wb.sig wb.nxt).2.1 a).getD 0))
          simpa [forCarOf, List.map_map, Function.comp_def] using this
        have hress : KeysOK ((forCarOf us en wb).map fun c => (c.res, LDef.forRes c.init c.yld))
            (ensure us wb.sig wb.nxt).2.2 ((ensure us wb.sig wb.nxt).2.2 + us.length) := by
          have := keysOK_mkIds us (ensure us wb.sig wb.nxt).2.2 (fun a => LDef.forRes ((en.2.1 a).getD 0)
            (((ensure us wb.sig wb.nxt).2.1 a).getD 0))
          simpa [forCarOf, List.map_map, Function.comp_def] using this
        have hbody : KeysOK (ldefsB (appEmpties wb.blk (ensure us wb.sig wb.nxt).1)) (en.2.2 + us.length)
            (ensure us wb.sig wb.nxt).2.2 :=
          KeysOK.union (fun p hp => (mem_ldefs_appEmpties _ _ _).mp hp) hb hpost hm2 hm3
        exact KeysOK.append hpre (KeysOK.append hargs (KeysOK.append hbody hress (by omega) (by omega))
          (by omega) (by omega)) hm1 (by omega)
theorem keysB : (b : PBlock) → ∀ σ cur n ρ, KeysOK (ldefsB (weaveB b σ cur n ρ).blk) n (weaveB b σ cur n ρ).nxt
  | .nil, _, _, n, _ => by simpa [weaveB, ldefsB] using KeysOK.nil n n
  | .cons s r, σ, cur, n, ρ => by
      simp only [weaveB, ldefs_prepend, ldefsB]
      have hs := keysS s σ cur n ρ
      have hr := keysB r (weaveS s σ cur n ρ).sig (weaveS s σ cur n ρ).cur (weaveS s σ cur n ρ).nxt
        (weaveS s σ cur n ρ).rho
      have hm1 := weaveS_mono s σ cur n ρ
      have hm2 := weaveB_mono r (weaveS s σ cur n ρ).sig (weaveS s σ cur n ρ).cur (weaveS s σ cur n ρ).nxt
        (weaveS s σ cur n ρ).rho
      rw [← List.append_assoc]
      exact KeysOK.append hs hr hm1 hm2
end

/-- the owner table of the woven program finds every definition -/
theorem tableOf_weave (p : PBlock) : ∀ q ∈ ldefsB (weave p), tableOf (weave p) q.1 = some q.2 := by
  intro q hq
  exact lookup_of_consistent _ (keysB p noSig noSig 0 []).2 q hq

/-- **the links agree with the position-based facts** (all accelerators, any nesting) -/
theorem weave_agree (p : PBlock) (hnd : nodupPB p = true) (a : AccId) :
    AgreeB a (tableOf (weave p)) [] (weave p) noFacts :=
  (mainB a (tableOf (weave p)) p noSig noSig 0 [] [] noFacts hnd (tableOf_weave p) (fun _ _ => rfl)
    (by simp only [noSig, SigIs]; rfl) (by simp [noSig])).2

/- the repaired pass never leaves the IR malformed -/
mutual
theorem badS : (s : PStmt) → ∀ σ cur n ρ, (weaveS s σ cur n ρ).bad = false
  | .setup _ _ _ _, _, _, _, _ => by simp [weaveS]
  | .launch _ _ _, _, _, _, _ => by simp [weaveS]
  | .await _, _, _, _, _ => by simp [weaveS]
  | .pure _ _ _, _, _, _, _ => by simp [weaveS]
  | .call _ _, _, _, _, _ => by simp [weaveS]
  | .ifS c t e, σ, cur, n, ρ => by
      simp [weaveS, ifFinish, badB t, badB e]
  | .forS lb ub st iv body car, σ, cur, n, ρ => by
      simp only [weaveS]
      split
      · exact badB body _ _ _ _
      · simp [forFinish, badB body]
theorem badB : (b : PBlock) → ∀ σ cur n ρ, (weaveB b σ cur n ρ).bad = false
  | .nil, _, _, _, _ => by simp [weaveB]
  | .cons s r, σ, cur, n, ρ => by
      simp [weaveB, badS s, badB r]
end

end SnaxVerif.AccfgLinks
