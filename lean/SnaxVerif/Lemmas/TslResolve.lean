import SnaxVerif.Lemmas.Tsl
/-! Helper lemmas for C10, deepening round: the loop-nest view of the bound/step ops, the resolved layout of
dynamic layouts (injectivity of the contiguity chain), canonicalisation of dynamic layouts. -/
namespace SnaxVerif.Tsl
open SnaxVerif

/-! ### loop nest = enumeration -/

theorem allValuesFrom_nest : ∀ (L : List SStride) (acc : List Nat), (∀ x ∈ L, 0 < x.step ∧ 0 < x.bound) →
    allValuesFrom (L.map SStride.toStride) acc = .ok (bsum acc (nestValues (L.map fun x => (x.bound, x.step))))
  | [], acc, _ => by simp [allValuesFrom, nestValues, bsum_zero_right]
  | s :: r, acc, hpos => by
    have hs := hpos s (by simp)
    have hr : ∀ x ∈ r, 0 < x.step ∧ 0 < x.bound := fun x hx => hpos x (by simp [hx])
    simp only [List.map_cons, allValuesFrom, allValues_static s hs]
    rw [allValuesFrom_nest r _ hr, bsum_assoc]
    congr 2
    simp only [bsum, nestValues, List.flatMap_map]

/-- the layout with every step multiplied by the element size -/
def scaleS (el : Nat) (s : SLayout) : SLayout := s.map (·.map fun x => ⟨x.step * el, x.bound⟩)

theorem prodB_scale (el : Nat) : ∀ (t : List SStride), prodB (t.map fun x => ⟨x.step * el, x.bound⟩) = prodB t
  | [] => rfl
  | s :: r => by simp [prodB, prodB_scale el r]

theorem addrIn_scale (el : Nat) : ∀ (t : List SStride) (i : Nat),
    addrIn (t.map fun x => ⟨x.step * el, x.bound⟩) i = el * addrIn t i
  | [], _ => by simp [addrIn]
  | s :: r, i => by
    simp only [List.map_cons, addrIn, prodB_scale, addrIn_scale el r]
    ring

theorem addrDim_scale (el : Nat) (t : List SStride) (i : Nat) :
    addrDim (t.map fun x => ⟨x.step * el, x.bound⟩) i = el * addrDim t i := by
  cases t with
  | nil => simp [addrDim]
  | cons s r =>
    simp only [List.map_cons, addrDim, prodB_scale, addrIn_scale]
    ring

theorem addr_scale (el : Nat) : ∀ (s : SLayout) (idx : List Nat), addr (scaleS el s) idx = el * addr s idx
  | [], _ => by simp [scaleS, addr]
  | t :: ts, idx => by
    have ih := addr_scale el ts idx.tail
    simp only [scaleS, List.map_cons, addr] at ih ⊢
    rw [addrDim_scale, ih]
    ring

theorem shape_scale (el : Nat) (s : SLayout) : shape (scaleS el s) = shape s := by
  simp only [shape, scaleS, List.map_map]
  apply List.map_congr_left
  intro t _
  simp [prodB_scale]

theorem spos_scale (el : Nat) (hel : 0 < el) (s : SLayout) (h : SPos s) : SPos (scaleS el s) := by
  intro t ht x hx
  simp only [scaleS, List.mem_map] at ht
  obtain ⟨t0, ht0, rfl⟩ := ht
  simp only [List.mem_map] at hx
  obtain ⟨x0, hx0, rfl⟩ := hx
  exact ⟨Nat.mul_pos (h t0 ht0 x0 hx0).1 hel, (h t0 ht0 x0 hx0).2⟩

/-- the loop nest over the literal bounds and the steps × el of a static positive layout visits exactly
    `el · addr` over the logical box, in row-major order -/
theorem nest_static (s : SLayout) (el : Nat) (hel : 0 < el) (hpos : SPos s) :
    nestValues (nestOf (s.map (·.map (·.bound))) (s.map (·.map (·.step * el))))
      = (points (shape s)).map fun p => el * addr s p := by
  have h1 : nestOf (s.map (·.map (·.bound))) (s.map (·.map (·.step * el)))
      = (scaleS el s).flatten.map fun x => (x.bound, x.step) := by
    simp only [nestOf, scaleS]
    rw [← List.map_flatten, ← List.map_flatten, ← List.map_flatten, List.zip_map', List.map_map]
    rfl
  have h2 := allValuesFrom_layout (scaleS el s) [] [0] (spos_scale el hel s hpos)
  have h3 := allValuesFrom_nest (scaleS el s).flatten [0] (by
    intro x hx
    obtain ⟨t, ht, hxt⟩ := List.mem_flatten.mp hx
    exact spos_scale el hel s hpos t ht x hxt)
  rw [← List.map_flatten] at h2
  simp only [List.append_nil] at h2
  rw [h3] at h2
  simp only [allValuesFrom, bsum_zero_left, Except.ok.injEq] at h2
  rw [h1, h2, shape_scale]
  apply List.map_congr_left
  intro p _
  exact addr_scale el s p

/-! ### `resolve` on static layouts -/

theorem zip_rebuild : ∀ (s : SLayout),
    (((s.map (·.map (·.step * 1))).zip (s.map (·.map (·.bound)))).map fun p =>
      (p.1.zip p.2).map fun q => (⟨q.1, q.2⟩ : SStride)) = s
  | [] => rfl
  | t :: ts => by
    simp only [List.map_cons, List.zip_cons_cons, zip_rebuild ts, List.cons.injEq, and_true]
    rw [List.zip_map', List.map_map]
    conv => rhs; rw [← List.map_id t]
    apply List.map_congr_left
    intro x _
    simp

theorem resolve_ofStatic (s : SLayout) (off : Option Int) (sh : List Nat) (hlen : sh.length = s.length)
    (hs : s ≠ []) (hne : ∀ t ∈ s, t ≠ []) : resolve (ofStatic s off) sh = .ok s := by
  have hb : boundsAt (ofStatic s off).ts sh = .ok (s.map (·.map (·.bound))) := boundsAt_static s sh hlen hne
  simp only [resolve, hb, stepsAt_ofStatic s off 1 hs hne, zip_rebuild]

/-! ### the contiguity chain is one-to-one above the static tiles -/

theorem dot_decomp (el : Nat) : ∀ (L : List (Stride × Nat)) (seed : Nat) (ds : List Nat),
    dotDigits (stepsRev el L seed) ds = statSum el L ds + seed * dynVal L ds
  | [], _, ds => by cases ds <;> simp [stepsRev, dotDigits, statSum, dynVal]
  | (s, b) :: r, seed, [] => by cases h : s.step <;> simp [stepsRev, h, dotDigits, statSum, dynVal]
  | (s, b) :: r, seed, d :: ds => by
    cases h : s.step with
    | some st =>
      simp only [stepsRev, h, dotDigits, statSum, dynVal, dot_decomp el r seed ds]
      ring
    | none =>
      simp only [stepsRev, h, dotDigits, statSum, dynVal, dot_decomp el r (seed * b) ds]
      ring

theorem statSum_le (el : Nat) : ∀ (L : List (Stride × Nat)) (ds : List Nat), InRange (L.map (·.2)) ds →
    statSum el L ds ≤ statSpan el L
  | [], ds, _ => by cases ds <;> simp [statSum, statSpan]
  | (s, b) :: r, [], h => by simp [InRange] at h
  | (s, b) :: r, d :: ds, h => by
    simp only [List.map_cons, InRange] at h
    have ih := statSum_le el r ds h.2
    cases hs : s.step with
    | none => simp only [statSum, statSpan, hs]; omega
    | some st =>
      simp only [statSum, statSpan, hs]
      have : d * (st * el) ≤ (b - 1) * (st * el) := Nat.mul_le_mul_right _ (by omega)
      omega

/-- quotient and remainder are unique -/
theorem add_mul_inj (s a b x y : Nat) (ha : a < s) (hb : b < s) (h : a + s * x = b + s * y) : a = b ∧ x = y := by
  have h1 : (a + s * x) % s = a := by rw [Nat.add_mul_mod_self_left, Nat.mod_eq_of_lt ha]
  have h2 : (b + s * y) % s = b := by rw [Nat.add_mul_mod_self_left, Nat.mod_eq_of_lt hb]
  have hab : a = b := by rw [← h1, ← h2, h]
  subst hab
  have hs : 0 < s := by omega
  have : s * x = s * y := by omega
  exact ⟨rfl, Nat.eq_of_mul_eq_mul_left hs this⟩

theorem digits_eq : ∀ (L : List (Stride × Nat)) (ds es : List Nat),
    InRange (L.map (·.2)) ds → InRange (L.map (·.2)) es →
    statDigits L ds = statDigits L es → dynVal L ds = dynVal L es → ds = es
  | [], [], [], _, _, _, _ => rfl
  | [], _ :: _, _, h, _, _, _ => by simp [InRange] at h
  | [], [], _ :: _, _, h, _, _ => by simp [InRange] at h
  | (s, b) :: r, [], _, h, _, _, _ => by simp [InRange] at h
  | (s, b) :: r, _ :: _, [], _, h, _, _ => by simp [InRange] at h
  | (s, b) :: r, d :: ds, e :: es, hd, he, hst, hdv => by
    simp only [List.map_cons, InRange] at hd he
    cases hs : s.step with
    | some st =>
      simp only [statDigits, hs, List.singleton_append, List.cons.injEq] at hst
      simp only [dynVal, hs] at hdv
      rw [hst.1, digits_eq r ds es hd.2 he.2 hst.2 hdv]
    | none =>
      simp only [statDigits, hs, List.nil_append] at hst
      simp only [dynVal, hs] at hdv
      obtain ⟨h1, h2⟩ := add_mul_inj b d e _ _ hd.1 he.1 hdv
      rw [h1, digits_eq r ds es hd.2 he.2 hst h2]

/-- the resolved steps are one-to-one on the runtime box when the static tiles are one-to-one and stay below
    the seed of the dynamic chain -/
theorem stepsRev_injective (el : Nat) (L : List (Stride × Nat)) (seed : Nat)
    (hspan : statSpan el L < seed)
    (hstat : ∀ ds es, InRange (L.map (·.2)) ds → InRange (L.map (·.2)) es →
      statSum el L ds = statSum el L es → statDigits L ds = statDigits L es)
    (ds es : List Nat) (hd : InRange (L.map (·.2)) ds) (he : InRange (L.map (·.2)) es)
    (h : dotDigits (stepsRev el L seed) ds = dotDigits (stepsRev el L seed) es) : ds = es := by
  rw [dot_decomp, dot_decomp] at h
  have h1 := statSum_le el L ds hd
  have h2 := statSum_le el L es he
  obtain ⟨ha, hv⟩ := add_mul_inj seed _ _ _ _ (by omega) (by omega) h
  exact digits_eq L ds es hd he (hstat ds es hd he ha) hv

theorem stepsAt_flat (l : Layout) (bounds : List (List Nat)) (el : Nat) (steps : List (List Nat))
    (h : stepsAt l bounds el = .ok steps) :
    steps.flatten.reverse = stepsRev el (l.strides.zip bounds.flatten).reverse (seedOf l bounds el) := by
  obtain ⟨hlen, hsteps⟩ := stepsAt_ok l bounds el steps h
  rw [hsteps, flatten_regroup, List.reverse_reverse]
  rw [List.length_reverse, length_stepsRev, List.length_reverse, List.length_zip, ← hlen, Nat.min_self,
    length_flatten_strides]

/-! ### `get_step_ops` with fix FC10a -/

/-- the seed of the dynamic chain with fix FC10a -/
def seedN1 (l : Layout) (bounds : List (List Nat)) (el : Nat) : Nat :=
  if (maxStep l.strides 0 (l.strides.length - 1) 0).2 = 0 then el else seedOf l bounds el

theorem stepsAtN1_ok (l : Layout) (bounds : List (List Nat)) (el : Nat) (steps : List (List Nat))
    (h : stepsAtN1 l bounds el = .ok steps) :
    l.strides.length = bounds.flatten.length ∧
      steps = regroup l.ts (stepsRev el (l.strides.zip bounds.flatten).reverse (seedN1 l bounds el)).reverse := by
  unfold stepsAtN1 at h
  simp only at h
  split at h
  · cases h
  · split at h
    · cases h
    · rename_i hlen
      refine ⟨by simpa using hlen, ?_⟩
      rcases hm : maxStep l.strides 0 (l.strides.length - 1) 0 with ⟨p, v⟩
      simp only [hm] at h
      injection h with h
      rw [← h, seedN1, seedOf, hm]

theorem stepsAtN1_flat (l : Layout) (bounds : List (List Nat)) (el : Nat) (steps : List (List Nat))
    (h : stepsAtN1 l bounds el = .ok steps) :
    steps.flatten.reverse = stepsRev el (l.strides.zip bounds.flatten).reverse (seedN1 l bounds el) := by
  obtain ⟨hlen, hsteps⟩ := stepsAtN1_ok l bounds el steps h
  rw [hsteps, flatten_regroup, List.reverse_reverse]
  rw [List.length_reverse, length_stepsRev, List.length_reverse, List.length_zip, ← hlen, Nat.min_self,
    length_flatten_strides]

theorem maxStep_nil_val (pos bp bv : Nat) : (maxStep [] pos bp bv).2 = bv := rfl

/-- with a positive static step somewhere the fixed code is the code as found -/
theorem stepsAtN1_eq (l : Layout) (bounds : List (List Nat)) (el : Nat)
    (hv : (maxStep l.strides 0 (l.strides.length - 1) 0).2 ≠ 0) : stepsAtN1 l bounds el = stepsAt l bounds el := by
  have hflat : l.strides ≠ [] := by
    intro h0
    rw [h0] at hv
    exact hv rfl
  unfold stepsAtN1 stepsAt
  simp only
  split
  · rfl
  · split
    · rfl
    · rfl

theorem stepsAtN1_scale (l : Layout) (bounds : List (List Nat)) (el : Nat) :
    stepsAtN1 l bounds el = (stepsAtN1 l bounds 1).map (·.map (·.map (· * el))) := by
  unfold stepsAtN1
  simp only
  split
  · rfl
  · split
    · rfl
    · rcases maxStep l.strides 0 (l.strides.length - 1) 0 with ⟨p, v⟩
      simp only [Except.map, Nat.mul_one]
      congr 1
      by_cases hv : v = 0
      · simp only [hv, if_true]
        have := stepsRev_scale el (l.strides.zip bounds.flatten).reverse 1
        rw [Nat.one_mul] at this
        rw [this, ← List.map_reverse, regroup_map_steps]
      · simp only [if_neg hv]
        rw [show bounds.flatten.getD p 0 * (v * el) = bounds.flatten.getD p 0 * v * el by ring, stepsRev_scale,
          ← List.map_reverse, regroup_map_steps]

/-- no static step at all: `maxStep` returns value 0 -/
theorem maxStep_allDyn (l : List Stride) (h : ∀ x ∈ l, x.step = none) (pos bp : Nat) :
    (maxStep l pos bp 0).2 = 0 := by
  rcases maxStep_attained l pos bp 0 with h0 | ⟨j, _, h2, h3⟩
  · rw [h0]
  · exfalso
    cases hj : l[j]? with
    | none => simp [hj] at h2
    | some x =>
      have hx : x ∈ l := List.mem_of_getElem? hj
      simp [hj, h x hx] at h2

theorem statSpan_allDyn (el : Nat) : ∀ (L : List (Stride × Nat)), (∀ p ∈ L, p.1.step = none) → statSpan el L = 0
  | [], _ => rfl
  | (s, b) :: r, h => by
    have hs : s.step = none := h (s, b) (by simp)
    simp only [statSpan, hs, Nat.zero_add]
    exact statSpan_allDyn el r fun p hp => h p (by simp [hp])

theorem statDigits_allDyn : ∀ (L : List (Stride × Nat)) (ds : List Nat), (∀ p ∈ L, p.1.step = none) →
    statDigits L ds = []
  | [], ds, _ => by cases ds <;> rfl
  | (s, b) :: r, [], _ => rfl
  | (s, b) :: r, d :: ds, h => by
    have hs : s.step = none := h (s, b) (by simp)
    simp only [statDigits, hs, List.nil_append]
    exact statDigits_allDyn r ds fun p hp => h p (by simp [hp])

theorem dynProd_allDyn : ∀ (L : List (Stride × Nat)), (∀ p ∈ L, p.1.step = none) →
    dynProd L = prodL (L.map (·.2))
  | [], _ => rfl
  | (s, b) :: r, h => by
    have hs : s.step = none := h (s, b) (by simp)
    simp only [dynProd, hs, List.map_cons, prodL]
    rw [dynProd_allDyn r fun p hp => h p (by simp [hp])]

theorem mem_zip_reverse_step (l : Layout) (fb : List Nat) (h : ∀ x ∈ l.strides, x.step = none) :
    ∀ p ∈ (l.strides.zip fb).reverse, p.1.step = none := by
  intro p hp
  rw [List.mem_reverse] at hp
  exact h p.1 (List.of_mem_zip hp).1

/-! ### layouts with dynamic outermost bounds, dimension by dimension -/

theorem stepsRev_append (el : Nat) : ∀ (X Y : List (Stride × Nat)) (dyn : Nat),
    stepsRev el (X ++ Y) dyn = stepsRev el X dyn ++ stepsRev el Y (dyn * dynProd X)
  | [], Y, dyn => by simp [stepsRev, dynProd]
  | (s, b) :: r, Y, dyn => by
    cases h : s.step with
    | some st => simp [stepsRev, h, dynProd, stepsRev_append el r Y dyn]
    | none => simp [stepsRev, h, dynProd, stepsRev_append el r Y (dyn * b), Nat.mul_assoc]

theorem dynProd_append : ∀ (X Y : List (Stride × Nat)), dynProd (X ++ Y) = dynProd X * dynProd Y
  | [], Y => by simp [dynProd]
  | (s, b) :: r, Y => by simp [dynProd, dynProd_append r Y, Nat.mul_assoc]

theorem dynProd_reverse : ∀ (X : List (Stride × Nat)), dynProd X.reverse = dynProd X
  | [] => rfl
  | (s, b) :: r => by
    rw [List.reverse_cons, dynProd_append, dynProd_reverse r]
    simp [dynProd, Nat.mul_comm]

/-- the (stride, extent) pairs of one dimension with a dynamic outermost bound, at runtime extent `n` -/
def blockOf (d : DynDim) (n : Nat) : List (Stride × Nat) :=
  (⟨d.1, none⟩, n / prodB d.2) :: d.2.map fun x => (x.toStride, x.bound)

theorem dynProd_inner (r : List SStride) : dynProd (r.map fun x => (x.toStride, x.bound)) = 1 := by
  induction r with
  | nil => rfl
  | cons x r ih =>
    simp only [SStride.toStride] at ih
    simp only [List.map_cons, dynProd, SStride.toStride, ih, Nat.mul_one]

theorem dynProd_blockOf (d : DynDim) (n : Nat) :
    dynProd (blockOf d n) = match d.1 with | some _ => 1 | none => n / prodB d.2 := by
  simp only [blockOf, dynProd, dynProd_inner, Nat.mul_one]
  cases d.1 <;> rfl

/-- right-to-left pass over the dimensions: steps per dimension (steps in units of `el`), and the value of the
    dynamic chain after the pass -/
def dynSteps (el seed : Nat) : List (DynDim × Nat) → List (List Nat) × Nat
  | [] => ([], seed)
  | (d, n) :: rest =>
    let r := dynSteps el seed rest
    match d.1 with
    | some st => ((st * el :: d.2.map (·.step * el)) :: r.1, r.2)
    | none => ((r.2 :: d.2.map (·.step * el)) :: r.1, r.2 * (n / prodB d.2))

theorem stepsRev_blockOf_reverse (el : Nat) (d : DynDim) (n dyn : Nat) :
    stepsRev el (blockOf d n).reverse dyn
      = ((match d.1 with | some st => st * el | none => dyn) :: d.2.map (·.step * el)).reverse := by
  have hin : (d.2.map fun x => (x.toStride, x.bound)).reverse
      = (d.2.reverse.map fun x => (x, x.bound)).map fun p => (p.1.toStride, p.2) := by
    rw [List.map_map, ← List.map_reverse]; rfl
  have hdp : dynProd (List.map (fun p => (p.1.toStride, p.2)) (List.map (fun x => (x, x.bound)) d.2.reverse)) = 1 := by
    rw [List.map_map]; exact dynProd_inner d.2.reverse
  simp only [blockOf, List.reverse_cons]
  rw [stepsRev_append, hin, stepsRev_static, hdp, Nat.mul_one]
  cases h : d.1 <;> simp [stepsRev, h, List.map_map, Function.comp_def, List.map_reverse]

/-- the flat (stride, extent) list of a layout of such dimensions -/
def blocksOf (dn : List (DynDim × Nat)) : List (Stride × Nat) := (dn.map fun p => blockOf p.1 p.2).flatten

theorem dynSteps_spec (el seed : Nat) : ∀ (dn : List (DynDim × Nat)),
    stepsRev el (blocksOf dn).reverse seed = (dynSteps el seed dn).1.flatten.reverse ∧
      (dynSteps el seed dn).2 = seed * dynProd (blocksOf dn).reverse
  | [] => by simp [blocksOf, dynSteps, stepsRev, dynProd]
  | (d, n) :: rest => by
    obtain ⟨ih1, ih2⟩ := dynSteps_spec el seed rest
    have hb : blocksOf ((d, n) :: rest) = blockOf d n ++ blocksOf rest := by simp [blocksOf]
    rw [hb, List.reverse_append, stepsRev_append, ih1, ← ih2, stepsRev_blockOf_reverse, dynProd_append,
      dynProd_reverse (blockOf d n), dynProd_blockOf, ← Nat.mul_assoc, ← ih2]
    cases h : d.1 <;> simp [dynSteps, h]

theorem regroup_flatten_of_lengths : ∀ (ts : List TStride) (gs : List (List Nat)),
    ts.map List.length = gs.map List.length → regroup ts gs.flatten = gs
  | [], [], _ => rfl
  | [], _ :: _, h => by simp at h
  | _ :: _, [], h => by simp at h
  | t :: ts, g :: gs, h => by
    simp only [List.map_cons, List.cons.injEq] at h
    simp only [regroup, List.flatten_cons]
    rw [List.take_left' h.1.symm, List.drop_left' h.1.symm, regroup_flatten_of_lengths ts gs h.2]

theorem dynSteps_lengths (el seed : Nat) : ∀ (dn : List (DynDim × Nat)),
    (dn.map fun p => p.1.toTStride.length) = (dynSteps el seed dn).1.map List.length
  | [] => rfl
  | (d, n) :: rest => by
    have ih := dynSteps_lengths el seed rest
    have hl : (d.toTStride).length = d.2.length + 1 := by simp [DynDim.toTStride]
    cases h : d.1 with
    | some st => simp only [List.map_cons, dynSteps, h, ih, hl]; simp
    | none => simp only [List.map_cons, dynSteps, h, ih, hl]; simp

theorem strides_zip_bounds : ∀ (ds : List DynDim) (sh : List Nat), sh.length = ds.length →
    ((ds.map DynDim.toTStride).flatten).zip (List.zipWith DynDim.boundsFor ds sh).flatten
      = blocksOf (ds.zip sh)
  | [], _, _ => by simp [blocksOf]
  | _ :: _, [], h => by simp at h
  | d :: ds, n :: sh, h => by
    have ih := strides_zip_bounds ds sh (by simpa using h)
    simp only [List.map_cons, List.flatten_cons, List.zipWith_cons_cons, List.zip_cons_cons, blocksOf] at ih ⊢
    rw [List.zip_append (by simp [DynDim.toTStride, DynDim.boundsFor]), ih]
    congr 1
    simp only [DynDim.toTStride, DynDim.boundsFor, blockOf, List.zip_cons_cons, List.zip_map', List.cons.injEq, true_and]

/-- **what `get_step_ops` computes on a layout whose dimensions are `[?, inner…]`**: the right-to-left pass
    `dynSteps`, started from the seed -/
theorem stepsAt_dyn (ds : List DynDim) (off : Option Int) (sh : List Nat) (el : Nat) (hlen : sh.length = ds.length)
    (steps : List (List Nat))
    (h : stepsAt ⟨ds.map DynDim.toTStride, off⟩ (List.zipWith DynDim.boundsFor ds sh) el = .ok steps) :
    steps = (dynSteps el (seedOf ⟨ds.map DynDim.toTStride, off⟩ (List.zipWith DynDim.boundsFor ds sh) el)
      (ds.zip sh)).1 := by
  obtain ⟨_, hsteps⟩ := stepsAt_ok _ _ _ _ h
  rw [hsteps]
  simp only [Layout.strides]
  rw [strides_zip_bounds ds sh hlen, (dynSteps_spec el _ (ds.zip sh)).1, List.reverse_reverse]
  apply regroup_flatten_of_lengths
  have hz : (ds.zip sh).map (fun p => p.1) = ds := by
    rw [List.map_fst_zip]; omega
  have hl : (ds.map DynDim.toTStride).map List.length = (ds.zip sh).map fun p => p.1.toTStride.length := by
    conv => lhs; rw [← hz]
    simp [List.map_map, Function.comp_def]
  rw [hl]
  exact dynSteps_lengths el _ (ds.zip sh)

/-! ### the resolved static layout of such a layout, and its canonical form -/

/-- the static layout that the ops describe (steps in elements), built right to left like `dynSteps` -/
def resolvedOf (seed : Nat) : List (DynDim × Nat) → SLayout × Nat
  | [] => ([], seed)
  | (d, n) :: rest =>
    let r := resolvedOf seed rest
    match d.1 with
    | some st => ((⟨st, n / prodB d.2⟩ :: d.2) :: r.1, r.2)
    | none => ((⟨r.2, n / prodB d.2⟩ :: d.2) :: r.1, r.2 * (n / prodB d.2))

theorem rebuild_inner (r : List SStride) :
    ((r.map (·.step)).zip (r.map (·.bound))).map (fun q => (⟨q.1, q.2⟩ : SStride)) = r := by
  rw [List.zip_map', List.map_map]
  conv => rhs; rw [← List.map_id r]
  apply List.map_congr_left
  intro x _
  rfl

theorem rebuild_dynSteps (seed : Nat) : ∀ (dn : List (DynDim × Nat)),
    (((dynSteps 1 seed dn).1.zip (dn.map fun p => p.1.boundsFor p.2)).map fun p =>
        (p.1.zip p.2).map fun q => (⟨q.1, q.2⟩ : SStride)) = (resolvedOf seed dn).1 ∧
      (dynSteps 1 seed dn).2 = (resolvedOf seed dn).2
  | [] => ⟨rfl, rfl⟩
  | (⟨hd, inner⟩, n) :: rest => by
    obtain ⟨ih1, ih2⟩ := rebuild_dynSteps seed rest
    simp only [DynDim.boundsFor] at ih1
    have hmul : inner.map (fun x => x.step * 1) = inner.map (·.step) := by simp
    cases hd with
    | some st =>
      refine ⟨?_, ?_⟩
      · simp only [dynSteps, resolvedOf, hmul, List.map_cons, List.zip_cons_cons, DynDim.boundsFor, Nat.mul_one,
          ih1, rebuild_inner]
      · simp only [dynSteps, resolvedOf, ih2]
    | none =>
      refine ⟨?_, ?_⟩
      · simp only [dynSteps, resolvedOf, hmul, List.map_cons, List.zip_cons_cons, DynDim.boundsFor,
          ih1, ih2, rebuild_inner]
      · simp only [dynSteps, resolvedOf, ih2]

theorem zipWith_boundsFor (ds : List DynDim) (sh : List Nat) :
    List.zipWith DynDim.boundsFor ds sh = (ds.zip sh).map fun p => p.1.boundsFor p.2 := by
  rw [List.zip_eq_zipWith, List.map_zipWith]

/-- **`resolve` on a layout whose dimensions are `[?, inner…]`** -/
theorem resolve_dyn (ds : List DynDim) (off : Option Int) (sh : List Nat) (hlen : sh.length = ds.length)
    (hpos : ∀ d ∈ ds, ∀ x ∈ d.2, 0 < x.bound) (R : SLayout)
    (h : resolve ⟨ds.map DynDim.toTStride, off⟩ sh = .ok R) :
    R = (resolvedOf (seedOf ⟨ds.map DynDim.toTStride, off⟩ (List.zipWith DynDim.boundsFor ds sh) 1) (ds.zip sh)).1 := by
  unfold resolve at h
  simp only [boundsAt_dynamic ds sh hlen hpos] at h
  cases hs : stepsAt ⟨ds.map DynDim.toTStride, off⟩ (List.zipWith DynDim.boundsFor ds sh) 1 with
  | error e => simp [hs] at h
  | ok steps =>
    simp only [hs] at h
    injection h with h
    rw [← h, stepsAt_dyn ds off sh 1 hlen steps hs, zipWith_boundsFor]
    exact (rebuild_dynSteps _ (ds.zip sh)).1

/-- canonicalisation of a dimension with a dynamic outermost bound touches the static inner tiles only -/
def canonD (d : DynDim) : DynDim := (d.1, canonS d.2)

theorem truthy_none : truthy none = false := rfl

theorem canonT_dyn (d : DynDim) : canonT d.toTStride = (canonD d).toTStride := by
  obtain ⟨st, r⟩ := d
  simp only [DynDim.toTStride, canonD, canonT, canonT_static]
  cases hc : canonS r with
  | nil => rfl
  | cons h t =>
    simp only [List.map_cons]
    rw [if_neg (by simp)]
    have : squashable h.toStride ⟨st, none⟩ = false := by
      simp [squashable, truthy_none]
    rw [this]
    rfl

theorem canonicalize_dyn (ds : List DynDim) (off : Option Int) :
    Layout.canonicalize ⟨ds.map DynDim.toTStride, off⟩ = ⟨(ds.map canonD).map DynDim.toTStride, off⟩ := by
  simp only [Layout.canonicalize, List.map_map]
  congr 1
  apply List.map_congr_left
  intro d _
  exact canonT_dyn d

theorem addr_resolvedOf_canon (seed : Nat) : ∀ (dn : List (DynDim × Nat)),
    (resolvedOf seed (dn.map fun p => (canonD p.1, p.2))).2 = (resolvedOf seed dn).2 ∧
      ∀ idx, addr (resolvedOf seed (dn.map fun p => (canonD p.1, p.2))).1 idx = addr (resolvedOf seed dn).1 idx
  | [] => ⟨rfl, fun _ => rfl⟩
  | (⟨hd, inner⟩, n) :: rest => by
    obtain ⟨ih2, ih1⟩ := addr_resolvedOf_canon seed rest
    simp only [canonD] at ih1 ih2
    have hP : prodB (canonS inner) = prodB inner := prodB_canonS inner
    cases hd with
    | some st =>
      refine ⟨?_, ?_⟩
      · simp only [List.map_cons, resolvedOf, canonD, ih2]
      · intro idx
        simp only [List.map_cons, resolvedOf, canonD, hP, addr, addrDim, addrIn_canonS, ih1]
    | none =>
      refine ⟨?_, ?_⟩
      · simp only [List.map_cons, resolvedOf, canonD, ih2, hP]
      · intro idx
        simp only [List.map_cons, resolvedOf, canonD, hP, addr, addrDim, addrIn_canonS, ih1, ih2]

theorem zip_map_canonD (ds : List DynDim) (sh : List Nat) :
    (ds.map canonD).zip sh = (ds.zip sh).map fun p => (canonD p.1, p.2) := by
  induction ds generalizing sh with
  | nil => simp
  | cons d ds ih => cases sh <;> simp [ih]

theorem canonS_bound_pos : ∀ (l : List SStride), (∀ x ∈ l, 0 < x.bound) → ∀ x ∈ canonS l, 0 < x.bound
  | [], _ => by simp [canonS]
  | s :: r, hpos => by
    have ih := canonS_bound_pos r fun x hx => hpos x (by simp [hx])
    have hs := hpos s (by simp)
    simp only [canonS]
    cases hc : canonS r with
    | nil => simpa using hs
    | cons h t =>
      rw [hc] at ih
      have hh := ih h (by simp)
      have ht : ∀ x ∈ t, 0 < x.bound := fun x hx => ih x (by simp [hx])
      simp only
      split
      · exact ih
      · split
        · intro x hx
          rcases List.mem_cons.mp hx with rfl | hx
          · exact Nat.mul_pos hh hs
          · exact ht x hx
        · intro x hx
          rcases List.mem_cons.mp hx with rfl | hx
          · exact hs
          · exact ih x hx

end SnaxVerif.Tsl
