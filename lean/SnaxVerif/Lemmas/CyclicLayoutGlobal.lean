import SnaxVerif.Lemmas.CyclicLayoutDeep
import SnaxVerif.Model.CyclicLayoutGlobal
/-!
Lemmas for the layout of a whole `memref.global` derived from the layout of its tile
(`ApplyLayoutCastSubviewGlobal`): the start stride `max(bound * step)` is at least the span of
every layout chosen by `set-memory-layout` (also after canonicalisation dropped unit strides), so
putting the other tiles behind it keeps all addresses distinct.
-/
namespace SnaxVerif.CyclicLayout

/-! ## a stride that witnesses the span -/

/-- `push_inv`'s decomposition as a lemma of its own -/
theorem push_decomp {S : Layout} {d : Nat} {l : List Stride} {st : Stride}
    (hS : S[d]? = some l) (hP : 0 < prodB l) (idx : List Nat) (hb : InBox (S.set d (st :: l)) idx) :
    ∃ i, idx[d]? = some i ∧ InBox S (idx.set d (i % prodB l)) ∧ i / prodB l < st.bound ∧
      addr (S.set d (st :: l)) idx = st.step * (i / prodB l) + addr S (idx.set d (i % prodB l)) := by
  have hd : d < S.length := lt_length_of_getElem? hS
  have hdi : d < idx.length := by rw [hb.1, List.length_set]; exact hd
  refine ⟨idx[d], List.getElem?_eq_getElem hdi, ?_⟩
  obtain ⟨h1, h2⟩ := inbox_lower hS hP hb (List.getElem?_eq_getElem hdi)
  exact ⟨h1, h2, addr_set S idx d l st _ hS (List.getElem?_eq_getElem hdi) hP⟩

/-- `x` bounds all addresses and is 1 or the extent `step * bound` of a stride with a bound ≥ 2
(such a stride survives canonicalisation with at least that extent) -/
def Top (S : Layout) (x : Nat) : Prop :=
  SpanLt S x ∧ (x = 1 ∨ ∃ l ∈ S, ∃ p ∈ l, 2 ≤ p.bound ∧ p.step * p.bound = x)

theorem mem_set_of_mem {S : Layout} {d : Nat} {l l' v : List Stride} (hS : S[d]? = some l) (h : l' ∈ S) :
    l' ∈ S.set d v ∨ l' = l := by
  obtain ⟨e, he, hget⟩ := List.getElem_of_mem h
  by_cases hed : d = e
  · subst hed
    right
    rw [List.getElem?_eq_getElem he] at hS
    rw [← hget]; exact Option.some.inj hS
  · left
    have : (S.set d v)[e]? = some l' := by
      rw [List.getElem?_set_ne hed, List.getElem?_eq_getElem he, hget]
    exact List.mem_of_getElem? this

theorem top_push {S : Layout} {d : Nat} {l : List Stride} {st : Stride} {cur : Nat}
    (hS : S[d]? = some l) (hP : 0 < prodB l) (hcur : cur ≤ st.step) (hb : 0 < st.bound)
    (hsp : SpanLt S cur) (hinj : Inj S) (hT : ∃ x, Top S x) : ∃ x, Top (S.set d (st :: l)) x := by
  have hd : d < S.length := lt_length_of_getElem? hS
  have hnew : (st :: l) ∈ S.set d (st :: l) := List.mem_of_getElem? (List.getElem?_set_self hd)
  by_cases h1 : st.bound = 1
  · obtain ⟨x, hx, hw⟩ := hT
    refine ⟨x, ?_, ?_⟩
    · intro idx hbx
      obtain ⟨i, _, hb0, hq, he⟩ := push_decomp hS hP idx hbx
      have hq0 : i / prodB l = 0 := Nat.lt_one_iff.mp (h1 ▸ hq)
      rw [he, hq0, Nat.mul_zero, Nat.zero_add]
      exact hx _ hb0
    · rcases hw with hw | ⟨l', hl', p, hp, hp2, hpx⟩
      · exact Or.inl hw
      · right
        rcases mem_set_of_mem (v := st :: l) hS hl' with h | h
        · exact ⟨l', h, p, hp, hp2, hpx⟩
        · subst h; exact ⟨st :: l', hnew, p, by simp [hp], hp2, hpx⟩
  · refine ⟨st.step * st.bound, (push_inv hS hP hcur hsp hinj).1, Or.inr ⟨st :: l, hnew, st, by simp, by omega, rfl⟩⟩

theorem top_stepCol {c : Cfg} {S S' : Layout} {cur cur' k b : Nat} {col : List Int}
    (hpos : ∀ n ∈ c.shape, 0 < n) (hI : Inv c.shape S cur) (hT : ∃ x, Top S x)
    (h : stepCol c (S, cur) k b col = .ok (S', cur')) : ∃ x, Top S' x := by
  rcases stepCol_cases h with ⟨h1, _⟩ | ⟨d, l, n, cu, hl, hn, hcu, h1, h2⟩
  · subst h1; exact hT
  · have hI' := inv_stepCol hpos hI h
    subst h1 h2
    have hnpos := hpos n (List.mem_of_getElem? hn)
    have hPpos : 0 < prodB l := Nat.pos_of_dvd_of_pos (hI.dvd d l n hl hn) hnpos
    have hd : d < S.length := lt_length_of_getElem? hl
    have hnewdvd := hI'.dvd d _ n (List.getElem?_set_self hd) hn
    have hnewpos : 0 < prodB (⟨cu, layoutBound c d (prodNZ l) n b⟩ :: l) := Nat.pos_of_dvd_of_pos hnewdvd hnpos
    have hb : 0 < layoutBound c d (prodNZ l) n b := by
      simp only [prodB] at hnewpos
      exact Nat.pos_of_mul_pos_right hnewpos
    exact top_push (st := ⟨cu, _⟩) hl hPpos hcu hb hI.span hI.inj hT

theorem top_walk {c : Cfg} (hpos : ∀ n ∈ c.shape, 0 < n) :
    ∀ (cols : List (Nat × List Int)) (k : Nat) (S : Layout) (cur : Nat) (S' : Layout) (cur' : Nat),
      Inv c.shape S cur → (∃ x, Top S x) → walk c cols k (S, cur) = .ok (S', cur') → ∃ x, Top S' x
  | [], _, _, _, _, _, _, hT, h => by simp only [walk] at h; cases h; exact hT
  | (b, col) :: rest, k, S, cur, S', cur', hI, hT, h => by
    simp only [walk] at h
    split at h
    · cases h
    · rename_i st' hst
      obtain ⟨S1, cur1⟩ := st'
      exact top_walk hpos rest (k + 1) S1 cur1 S' cur' (inv_stepCol hpos hI hst) (top_stepCol hpos hI hT hst) h

theorem top_fillStep {shape : List Nat} (hpos : ∀ n ∈ shape, 0 < n) (st : Layout × Nat) (d : Nat)
    (hI : Inv shape st.1 st.2) (hT : ∃ x, Top st.1 x) : ∃ x, Top (fillStep shape st d).1 x := by
  obtain ⟨S, cur⟩ := st
  simp only at hI hT
  unfold fillStep
  simp only []
  split
  · rename_i l n hl hn
    have hnpos : 0 < n := hpos n (List.mem_of_getElem? hn)
    have hdvd := hI.dvd d l n hl hn
    have hPpos : 0 < prodB l := Nat.pos_of_dvd_of_pos hdvd hnpos
    rw [prodNZ_eq_prodB l hPpos]
    split
    · have hrem : (n + prodB l - 1) / prodB l * prodB l = n := by
        rw [ceil_of_dvd hPpos hdvd, Nat.div_mul_cancel hdvd]
      have hb : 0 < (n + prodB l - 1) / prodB l := by
        rcases Nat.eq_zero_or_pos ((n + prodB l - 1) / prodB l) with h0 | h0
        · rw [h0] at hrem; omega
        · exact h0
      exact top_push (st := ⟨cur, _⟩) hl hPpos (Nat.le_refl _) hb hI.span hI.inj hT
    · exact hT
  · exact hT

theorem top_fill_fold {shape : List Nat} (hpos : ∀ n ∈ shape, 0 < n) :
    ∀ (ds : List Nat) (st : Layout × Nat), Inv shape st.1 st.2 → (∃ x, Top st.1 x) →
      ∃ x, Top (ds.foldl (fillStep shape) st).1 x
  | [], _, _, hT => hT
  | d :: ds, st, hI, hT => by
    simp only [List.foldl]
    exact top_fill_fold hpos ds _ (fillStep_inv hpos st d hI).1 (top_fillStep hpos st d hI hT)

/-! ## canonicalisation keeps a stride at least as large as every stride with bound ≥ 2 -/

theorem canon_prod_ge : ∀ (l : List Stride), AllPos l → ∀ p ∈ l, 2 ≤ p.bound →
    ∃ q ∈ canon l, p.step * p.bound ≤ q.step * q.bound
  | [], _, p, hp, _ => by cases hp
  | s :: r, hpos, p, hp, hp2 => by
    have hposr : AllPos r := fun x hx => hpos x (by simp [hx])
    have ih := canon_prod_ge r hposr
    have hsb : 0 < s.bound := (hpos s (by simp)).2
    simp only [canon]
    split
    · rename_i hc
      have hr : r = [] := (canon_nil_iff r).mp hc
      subst hr
      simp at hp; subst hp
      exact ⟨p, by simp, Nat.le_refl _⟩
    · rename_i h t hc
      rw [hc] at ih
      split
      · rename_i hb1
        rcases List.mem_cons.mp hp with h0 | h0
        · subst h0; omega
        · exact ih p h0 hp2
      · split
        · rename_i hsq
          obtain ⟨_, _, hsq, _⟩ := hsq
          rcases List.mem_cons.mp hp with h0 | h0
          · subst h0
            refine ⟨⟨h.step, h.bound * p.bound⟩, by simp, ?_⟩
            show p.step * p.bound ≤ h.step * (h.bound * p.bound)
            rw [← hsq, Nat.mul_assoc]; exact Nat.le_refl _
          · obtain ⟨q, hq, hle⟩ := ih p h0 hp2
            rcases List.mem_cons.mp hq with hq0 | hq0
            · subst hq0
              refine ⟨⟨q.step, q.bound * s.bound⟩, by simp, ?_⟩
              show p.step * p.bound ≤ q.step * (q.bound * s.bound)
              have : q.step * q.bound ≤ q.step * (q.bound * s.bound) :=
                Nat.mul_le_mul_left _ (Nat.le_mul_of_pos_right _ hsb)
              exact Nat.le_trans hle this
            · exact ⟨q, by simp [hq0], hle⟩
        · rcases List.mem_cons.mp hp with h0 | h0
          · subst h0; exact ⟨p, by simp, Nat.le_refl _⟩
          · obtain ⟨q, hq, hle⟩ := ih p h0 hp2
            exact ⟨q, List.mem_cons_of_mem _ hq, hle⟩

/-! ## `max(bound * step)` -/

theorem foldl_max_ge_init (f : Stride → Nat) : ∀ (r : List Stride) (a : Nat), a ≤ r.foldl (fun m q => max m (f q)) a
  | [], a => Nat.le_refl a
  | x :: r, a => Nat.le_trans (Nat.le_max_left a (f x)) (foldl_max_ge_init f r _)

theorem foldl_max_ge_mem (f : Stride → Nat) : ∀ (r : List Stride) (a : Nat) (q : Stride), q ∈ r →
    f q ≤ r.foldl (fun m q => max m (f q)) a
  | [], _, _, h => by cases h
  | x :: r, a, q, h => by
    rcases List.mem_cons.mp h with h0 | h0
    · subst h0
      exact Nat.le_trans (Nat.le_max_right a (f q)) (foldl_max_ge_init f r _)
    · exact foldl_max_ge_mem f r _ q h0

theorem maxProd_ge {L : Layout} {m : Nat} (h : maxProd L = some m) :
    ∀ l ∈ L, ∀ q ∈ l, q.step * q.bound ≤ m := by
  intro l hl q hq
  have hmem : q ∈ L.flatten := List.mem_flatten.mpr ⟨l, hl, hq⟩
  unfold maxProd at h
  split at h
  · rename_i hnil; rw [hnil] at hmem; cases hmem
  · rename_i p r hpr
    cases h
    rw [hpr] at hmem
    rw [Nat.mul_comm]
    rcases List.mem_cons.mp hmem with h0 | h0
    · subst h0; exact foldl_max_ge_init (fun q => q.bound * q.step) r _
    · exact foldl_max_ge_mem (fun q => q.bound * q.step) r _ q h0

theorem maxProd_pos {L : Layout} {m : Nat} (h : maxProd L = some m) (hpos : ∀ l ∈ L, AllPos l) : 0 < m := by
  unfold maxProd at h
  split at h
  · cases h
  · rename_i p r hpr
    cases h
    have hmem : p ∈ L.flatten := by rw [hpr]; simp
    obtain ⟨l, hl, hp⟩ := List.mem_flatten.mp hmem
    have := hpos l hl p hp
    exact Nat.lt_of_lt_of_le (Nat.mul_pos this.2 this.1) (foldl_max_ge_init (fun q => q.bound * q.step) r _)

/-! ## what `set-memory-layout` hands to the global pattern -/

/-- the facts about a chosen layout that the global pattern relies on -/
structure TileFacts (L : Layout) (shape : List Nat) : Prop where
  cov : Covers L shape
  inj : Inj L
  pos : ∀ l ∈ L, AllPos l
  top : ∀ m, maxProd L = some m → SpanLt L m

theorem cyclicLayout_tileFacts {c : Cfg} {L : Layout} (hpos : ∀ n ∈ c.shape, 0 < n)
    (h : cyclicLayout true c = .ok L) : TileFacts L c.shape := by
  have hcov := (cyclicLayout_spec hpos h).1
  have hallpos := cyclicLayout_pos hpos h
  unfold cyclicLayout layoutPre at h
  split at h
  · cases h
  · rename_i S hS
    split at hS
    · cases hS
    · rename_i st hst
      obtain ⟨S1, cur1⟩ := st
      cases hS; cases h
      have hI := inv_walk hpos (revCols c) 0 _ _ S1 cur1 (inv_init c.shape) hst
      have hT0 : ∃ x, Top (initState c.shape).1 x := ⟨1, (inv_init c.shape).span, Or.inl rfl⟩
      have hT := top_walk hpos (revCols c) 0 _ _ S1 cur1 (inv_init c.shape) hT0 hst
      obtain ⟨hI2, _⟩ := fillFixed_spec hpos (S1, cur1) hI
      have hT2 := top_fill_fold hpos (List.range c.shape.length) (S1, cur1) hI hT
      have hP0 : PosInv (initState c.shape).1 (initState c.shape).2 := by
        refine ⟨by simp [initState], ?_⟩
        intro l hl p hp
        simp [initState] at hl
        rw [hl.2] at hp; cases hp
      have hP := pos_walk hpos (revCols c) 0 _ _ S1 cur1 (inv_init c.shape) hP0 hst
      have hP2 := pos_fill_fold hpos (List.range c.shape.length) (S1, cur1) hI hP
      simp only [if_true] at hcov hallpos ⊢
      refine ⟨hcov, inj_map_canon.mpr hI2.inj, hallpos, ?_⟩
      intro m hm
      obtain ⟨x, hx, hw⟩ := hT2
      have hxm : x ≤ m := by
        rcases hw with hw | ⟨l, hl, p, hp, hp2, hpx⟩
        · rw [hw]; exact maxProd_pos hm hallpos
        · obtain ⟨q, hq, hle⟩ := canon_prod_ge l (hP2.2 l hl) p hp hp2
          have := maxProd_ge hm (canon l) (List.mem_map.mpr ⟨l, hl, rfl⟩) q hq
          omega
      intro idx hb
      have hb0 := inbox_map_canon.mp hb
      rw [addr_map_canon _ idx hb0.2]
      exact Nat.lt_of_lt_of_le (hx idx hb0) hxm


/-! ## the loop over the dimensions of the global -/

theorem prodB_pos_of_allpos : ∀ (l : List Stride), AllPos l → 0 < prodB l
  | [], _ => by simp [prodB]
  | s :: r, h => by
    simp only [prodB]
    exact Nat.mul_pos (h s (by simp)).2 (prodB_pos_of_allpos r (fun p hp => h p (by simp [hp])))

structure GInv (L : Layout) (g : List Nat) (S : Layout) (cur k : Nat) : Prop where
  len : S.length = L.length
  inj : Inj S
  span : SpanLt S cur
  ppos : ∀ l ∈ S, 0 < prodB l
  done : ∀ e, e < k → ∀ (l t : List Stride) (n : Nat), S[e]? = some l → L[e]? = some t → g[e]? = some n →
    prodB l = (if n / prodB t > 1 then n / prodB t * prodB t else prodB t)
  rest : ∀ e, k ≤ e → S[e]? = L[e]?

theorem global_step {L : Layout} {g : List Nat} {S : Layout} {cur k : Nat} (hI : GInv L g S cur k) :
    GInv L g (globalStep L g (S, cur) k).1 (globalStep L g (S, cur) k).2 (k + 1) := by
  unfold globalStep
  simp only []
  split
  · rename_i t l n hL hS hg
    have hlt : l = t := by
      have := hI.rest k (Nat.le_refl _)
      rw [hS, hL] at this; exact Option.some.inj this
    subst hlt
    have hk : k < S.length := lt_length_of_getElem? hS
    have hP : 0 < prodB l := hI.ppos l (List.mem_of_getElem? hS)
    split
    · rename_i hrem
      obtain ⟨hsp, hinj⟩ := push_inv (st := ⟨cur, n / prodB l⟩) hS hP (Nat.le_refl _) hI.span hI.inj
      refine ⟨by rw [List.length_set]; exact hI.len, hinj, hsp, ?_, ?_, ?_⟩
      · intro l' hl'
        rcases List.mem_or_eq_of_mem_set hl' with h | h
        · exact hI.ppos l' h
        · subst h; simp only [prodB]; exact Nat.mul_pos (by omega) hP
      · intro e he l' t' n' hS' hL' hg'
        by_cases hek : k = e
        · subst hek
          rw [List.getElem?_set_self hk] at hS'; cases hS'
          rw [hL] at hL'; cases hL'
          rw [hg] at hg'; cases hg'
          simp only [prodB]
          rw [if_pos hrem]
        · rw [List.getElem?_set_ne hek] at hS'
          exact hI.done e (by omega) l' t' n' hS' hL' hg'
      · intro e he
        rw [List.getElem?_set_ne (by omega)]
        exact hI.rest e (by omega)
    · rename_i hrem
      refine ⟨hI.len, hI.inj, hI.span, hI.ppos, ?_, fun e he => hI.rest e (by omega)⟩
      intro e he l' t' n' hS' hL' hg'
      by_cases hek : k = e
      · subst hek
        rw [hS] at hS'; cases hS'
        rw [hL] at hL'; cases hL'
        rw [hg] at hg'; cases hg'
        rw [if_neg hrem]
      · exact hI.done e (by omega) l' t' n' hS' hL' hg'
  · rename_i hnone
    refine ⟨hI.len, hI.inj, hI.span, hI.ppos, ?_, fun e he => hI.rest e (by omega)⟩
    intro e he l' t' n' hS' hL' hg'
    by_cases hek : k = e
    · subst hek
      exact absurd hg' (hnone t' l' n' hL' hS')
    · exact hI.done e (by omega) l' t' n' hS' hL' hg'

theorem global_fold {L : Layout} {g : List Nat} {m : Nat} (h0 : GInv L g L m 0) :
    ∀ k, GInv L g ((List.range k).foldl (globalStep L g) (L, m)).1
      ((List.range k).foldl (globalStep L g) (L, m)).2 k
  | 0 => by simpa using h0
  | k + 1 => by
    have ih := global_fold h0 k
    rw [List.range_succ, List.foldl_append]
    simp only [List.foldl_cons, List.foldl_nil]
    exact global_step ih

/-- **the global's layout**: if the tile divides the global in every dimension, the layout derived for
the whole global covers exactly the global's shape and is one-to-one on it -/
theorem globalLayout_spec {L G : Layout} {tile g : List Nat} (hF : TileFacts L tile)
    (hg : globalLayout L g = .ok (some G))
    (hdiv : ∀ (d t n : Nat), tile[d]? = some t → g[d]? = some n → t ∣ n) :
    Covers G g ∧ InjectiveOn G g := by
  unfold globalLayout at hg
  split at hg
  · cases hg
  · rename_i hz
    split at hg
    · cases hg
    · rename_i hlen
      have hlen : g.length = L.length := by
        rcases Nat.lt_trichotomy g.length L.length with h | h | h
        · exact absurd (by omega) hlen
        · exact h
        · exact absurd (by omega) hlen
      split at hg
      · cases hg
      · rename_i m hm
        cases hg
        have h0 : GInv L g L m 0 :=
          ⟨rfl, hF.inj, hF.top m hm, fun l hl => prodB_pos_of_allpos l (hF.pos l hl),
            fun e he => absurd he (Nat.not_lt_zero e), fun _ _ => rfl⟩
        have hI := global_fold h0 L.length
        generalize ((List.range L.length).foldl (globalStep L g) (L, m)).1 = G at hI
        generalize ((List.range L.length).foldl (globalStep L g) (L, m)).2 = cur at hI
        have hcov : Covers G g := by
          refine ⟨by rw [hI.len, hlen], ?_⟩
          intro d l n hl hn
          have hd : d < L.length := by rw [← hI.len]; exact lt_length_of_getElem? hl
          have hdt : d < tile.length := by rw [← hF.cov.1]; exact hd
          have hpt : prodB L[d] = tile[d] :=
            hF.cov.2 d L[d] tile[d] (List.getElem?_eq_getElem hd) (List.getElem?_eq_getElem hdt)
          have hdn := hdiv d tile[d] n (List.getElem?_eq_getElem hdt) hn
          have hnpos : 0 < n := by
            rcases Nat.eq_zero_or_pos n with h | h
            · exfalso
              have : g.any (· = 0) = true :=
                List.any_eq_true.mpr ⟨n, List.mem_of_getElem? hn, by simp [h]⟩
              exact hz this
            · exact h
          have htpos : 0 < tile[d] := by
            rw [← hpt]; exact prodB_pos_of_allpos _ (hF.pos _ (List.getElem_mem hd))
          rw [hI.done d hd l L[d] n hl (List.getElem?_eq_getElem hd) hn, hpt]
          split
          · exact Nat.div_mul_cancel hdn
          · rename_i hle
            obtain ⟨q, hq⟩ := hdn
            rw [hq, Nat.mul_div_cancel_left _ htpos] at hle
            have hq1 : q = 1 := by
              rcases Nat.lt_trichotomy q 1 with h | h | h
              · have : q = 0 := by omega
                rw [this] at hq; omega
              · exact h
              · exact absurd h hle
            rw [hq, hq1, Nat.mul_one]
        refine ⟨hcov, ?_⟩
        intro idx idx' h h' heq
        exact hI.inj idx idx' (inbox_of_inshape hcov h) (inbox_of_inshape hcov h') heq


/-! ## with fix FC12e: the guard establishes the `tileDivides` clause -/

theorem tileDividesB_spec : ∀ (L : Layout) (g : List Nat), tileDividesB L g = true →
    ∀ (d : Nat) (l : List Stride) (n : Nat), L[d]? = some l → g[d]? = some n → prodB l ∣ n
  | [], _, _, d, l, n, hl, _ => by simp at hl
  | _ :: _, [], _, d, l, n, _, hn => by simp at hn
  | l0 :: L, n0 :: g, h, d, l, n, hl, hn => by
    simp only [tileDividesB, List.zip_cons_cons, List.all_cons, Bool.and_eq_true, decide_eq_true_eq] at h
    cases d with
    | zero =>
      simp at hl hn; subst hl hn
      exact Nat.dvd_of_mod_eq_zero h.1
    | succ d =>
      simp at hl hn
      exact tileDividesB_spec L g h.2 d l n hl hn

/-- **the global's layout, repaired code**: whenever the pattern fires, the layout of the whole global
covers exactly the global's shape and is one-to-one on it — no side condition -/
theorem globalLayoutFixed_spec {L G : Layout} {tile g : List Nat} {offs : List (Option Nat)}
    (hF : TileFacts L tile) (hg : globalLayoutFixed L g offs = .ok (some G)) :
    Covers G g ∧ InjectiveOn G g := by
  unfold globalLayoutFixed at hg
  split at hg
  · cases hg
  · split at hg
    · cases hg
    · split at hg
      · cases hg
      · rename_i hguard
        simp only [Bool.or_eq_true, Bool.not_eq_true', not_or, Bool.not_eq_false] at hguard
        apply globalLayout_spec hF hg
        intro d t n ht hn
        have hd : d < L.length := by rw [hF.cov.1]; exact lt_length_of_getElem? ht
        have hL : L[d]? = some L[d] := List.getElem?_eq_getElem hd
        rw [← hF.cov.2 d L[d] t hL ht]
        exact tileDividesB_spec L g hguard.1 d L[d] n hL hn

end SnaxVerif.CyclicLayout
