import SnaxVerif.Model.RegMap
import Mathlib.Data.List.Nodup
/-! Helper lemmas for C04 (a): Python-dict association lists and consecutive address ranges. -/
namespace SnaxVerif.RegMap

/-! ### dict operations -/

theorem mem_dictSet {d : Dict} {k : String} {v : Nat} {e : String × Nat} (h : e ∈ dictSet d k v) :
    e ∈ d ∨ e = (k, v) := by
  unfold dictSet at h
  split at h
  · rw [List.mem_map] at h
    obtain ⟨x, hx, rfl⟩ := h
    by_cases hk : x.1 == k
    · right
      have : x.1 = k := by simpa using hk
      simp [this]
    · left; simpa [hk] using hx
  · rw [List.mem_append] at h
    rcases h with h | h
    · exact Or.inl h
    · right; simpa using h

theorem keys_dictSet (d : Dict) (k : String) (v : Nat) :
    keys (dictSet d k v) = if k ∈ keys d then keys d else keys d ++ [k] := by
  unfold dictSet keys
  by_cases h : d.any (fun e => e.1 == k) = true
  · have hk : k ∈ d.map (·.1) := by
      rw [List.any_eq_true] at h
      obtain ⟨x, hx, hxk⟩ := h
      have : x.1 = k := by simpa using hxk
      exact this ▸ List.mem_map_of_mem hx
    rw [if_pos h, if_pos hk, List.map_map]
    apply List.map_congr_left
    intro e _
    show (if (e.1 == k) = true then (e.1, v) else e).1 = e.1
    split <;> rfl
  · have hk : k ∉ d.map (·.1) := by
      intro hk
      apply h
      rw [List.mem_map] at hk
      obtain ⟨x, hx, rfl⟩ := hk
      rw [List.any_eq_true]
      exact ⟨x, hx, by simp⟩
    rw [if_neg h, if_neg hk]
    simp

theorem keys_nodup_dictSet {d : Dict} (k : String) (v : Nat) (h : (keys d).Nodup) :
    (keys (dictSet d k v)).Nodup := by
  rw [keys_dictSet]
  split
  · exact h
  · next hk =>
    rw [List.nodup_append]
    refine ⟨h, by simp, ?_⟩
    intro a ha b hb
    simp at hb
    subst hb
    intro e; exact hk (e ▸ ha)

/-- `Sub d ps`: `d` is a well-formed dict (distinct keys) all of whose items occur in the raw pair list. -/
def Sub (d : Dict) (ps : List (String × Nat)) : Prop := (keys d).Nodup ∧ ∀ e ∈ d, e ∈ ps

theorem Sub.nil (ps : List (String × Nat)) : Sub [] ps := ⟨by simp [keys], by simp⟩

theorem Sub.mono {d : Dict} {ps qs : List (String × Nat)} (h : Sub d ps) (hs : ∀ e ∈ ps, e ∈ qs) : Sub d qs :=
  ⟨h.1, fun e he => hs e (h.2 e he)⟩

theorem Sub.update {d : Dict} {ps : List (String × Nat)} (qs : List (String × Nat)) (h : Sub d ps) :
    Sub (dictUpdate d qs) (ps ++ qs) := by
  unfold dictUpdate
  induction qs generalizing d ps with
  | nil => simpa using h
  | cons q qs ih =>
    rw [List.foldl_cons]
    have h1 : Sub (dictSet d q.1 q.2) (ps ++ [q]) := by
      refine ⟨keys_nodup_dictSet _ _ h.1, ?_⟩
      intro e he
      rcases mem_dictSet he with h' | h'
      · exact List.mem_append_left _ (h.2 e h')
      · subst h'; simp
    have := ih h1
    simpa [List.append_assoc] using this

theorem Sub.dictOf (ps : List (String × Nat)) : Sub (dictOf ps) ps := by
  have := Sub.update ps (Sub.nil [])
  simpa [RegMap.dictOf] using this

/-- A well-formed dict drawn from raw pairs with pairwise distinct values has pairwise distinct values. -/
theorem Sub.vals_nodup {d : Dict} {ps : List (String × Nat)} (h : Sub d ps) (hp : (ps.map (·.2)).Nodup) :
    (vals d).Nodup := by
  have hd : d.Nodup := List.Nodup.of_map _ h.1
  unfold vals
  apply List.Nodup.map_on _ hd
  intro x hx y hy hxy
  exact List.inj_on_of_nodup_map hp (h.2 x hx) (h.2 y hy) hxy

theorem Sub.vals_subset {d : Dict} {ps : List (String × Nat)} (h : Sub d ps) :
    ∀ a ∈ vals d, a ∈ ps.map (·.2) := by
  intro a ha
  unfold vals at ha
  rw [List.mem_map] at ha
  obtain ⟨e, he, rfl⟩ := ha
  exact List.mem_map_of_mem (h.2 e he)

/-- The injectivity argument shared by all accelerators: if the raw (pre-dict) address lists are pairwise
distinct together with the barrier and the reserved addresses, so is the declared map. -/
theorem addrs_nodup_of_raw (m : RegMap) (rf rl : List (String × Nat))
    (hf : Sub m.fields rf) (hl : Sub m.launch rl)
    (h : (rf.map (·.2) ++ rl.map (·.2) ++ m.barrier :: m.reserved).Nodup) : m.addrs.Nodup := by
  unfold RegMap.addrs
  rw [List.append_assoc (vals m.fields ++ vals m.launch), List.singleton_append]
  rw [List.nodup_append] at h ⊢
  obtain ⟨hAB, hC, hABC⟩ := h
  rw [List.nodup_append] at hAB ⊢
  obtain ⟨hA, hB, hAB'⟩ := hAB
  refine ⟨⟨hf.vals_nodup hA, hl.vals_nodup hB, ?_⟩, hC, ?_⟩
  · intro a ha b hb
    exact hAB' a (hf.vals_subset a ha) b (hl.vals_subset b hb)
  · intro a ha b hb
    apply hABC a _ b hb
    rw [List.mem_append] at ha ⊢
    rcases ha with ha | ha
    · exact Or.inl (hf.vals_subset a ha)
    · exact Or.inr (hl.vals_subset a ha)

/-! ### consecutive addresses -/

theorem vals_enumFrom (b : Nat) (l : List String) : (enumFrom b l).map (·.2) = List.range' b l.length := by
  induction l generalizing b with
  | nil => simp [enumFrom]
  | cons f fs ih => simp [enumFrom, ih, List.range'_succ]

@[simp] theorem length_numbered (p : String) (n : Nat) : (numbered p n).length = n := by simp [numbered]

/-- every key of a raw pair list is a key of the dict built from it (so no lookup of a declared field fails) -/
theorem mem_keys_dictSet_self (d : Dict) (k : String) (v : Nat) : k ∈ keys (dictSet d k v) := by
  rw [keys_dictSet]; split <;> simp_all

theorem mem_keys_dictSet_of_mem {d : Dict} (k : String) (v : Nat) {k' : String} (h : k' ∈ keys d) :
    k' ∈ keys (dictSet d k v) := by
  rw [keys_dictSet]; split <;> simp_all

theorem keys_dictUpdate_complete (d : Dict) (qs : List (String × Nat)) :
    (∀ k ∈ keys d, k ∈ keys (dictUpdate d qs)) ∧ ∀ e ∈ qs, e.1 ∈ keys (dictUpdate d qs) := by
  unfold dictUpdate
  induction qs generalizing d with
  | nil => simp
  | cons q qs ih =>
    rw [List.foldl_cons]
    obtain ⟨h1, h2⟩ := ih (dictSet d q.1 q.2)
    refine ⟨fun k hk => h1 k (mem_keys_dictSet_of_mem _ _ hk), ?_⟩
    intro e he
    rcases List.mem_cons.mp he with rfl | he
    · exact h1 _ (mem_keys_dictSet_self _ _ _)
    · exact h2 e he

theorem lookup_isSome_of_mem_keys {d : Dict} {k : String} (h : k ∈ keys d) : (lookup d k).isSome := by
  unfold lookup keys at *
  rw [List.mem_map] at h
  obtain ⟨e, he, rfl⟩ := h
  rw [Option.isSome_map, List.find?_isSome]
  exact ⟨e, he, by simp⟩

/-- Generic injectivity of the streamer-accelerator layout: setup fields occupy `[b, b+len)`, the streamer
launch register `b+len`, two reserved registers, and everything the accelerator adds lies at or above
`a = b + len + 3` and is pairwise distinct. -/
theorem mkStreamerMap_nodup (b : Nat) (sf : List String) (extraF extraL : Nat → List (String × Nat))
    (barrier : Nat → Nat)
    (hnd : (((extraF (b + sf.length + 3)).map (·.2)) ++ ((extraL (b + sf.length + 3)).map (·.2))
      ++ [barrier (b + sf.length + 3)]).Nodup)
    (hge : ∀ x ∈ (((extraF (b + sf.length + 3)).map (·.2)) ++ ((extraL (b + sf.length + 3)).map (·.2))
      ++ [barrier (b + sf.length + 3)]), b + sf.length + 3 ≤ x) :
    (mkStreamerMap b sf extraF extraL barrier).addrs.Nodup := by
  have ha : (streamerLaunchDict (streamerSetupDict b sf).1 ["launch_streamer"]).1 = b + sf.length + 3 := by
    simp [streamerLaunchDict, streamerSetupDict]
  apply addrs_nodup_of_raw _ (enumFrom b sf ++ extraF (b + sf.length + 3))
    (enumFrom (b + sf.length) ["launch_streamer"] ++ extraL (b + sf.length + 3))
  · unfold mkStreamerMap; simp only [ha]; exact Sub.update _ (Sub.dictOf _)
  · unfold mkStreamerMap; simp only [ha]; exact Sub.update _ (Sub.dictOf _)
  · unfold mkStreamerMap; simp only [ha]
    simp only [List.map_append, vals_enumFrom, streamerSetupDict]
    generalize (extraF (b + sf.length + 3)).map (·.2) = F at *
    generalize (extraL (b + sf.length + 3)).map (·.2) = L at *
    generalize barrier (b + sf.length + 3) = B at *
    generalize sf.length = n at *
    simp only [List.nodup_append, List.mem_append, List.mem_singleton, List.nodup_cons, List.mem_cons,
      List.not_mem_nil, List.nodup_nil, List.mem_range'_1, List.nodup_range', List.length_cons, List.length_nil] at *
    obtain ⟨⟨hF, hL, hFL⟩, _, hFLB⟩ := hnd
    have hgeF : ∀ x ∈ F, b + n + 3 ≤ x := fun x hx => hge x (Or.inl (Or.inl hx))
    have hgeL : ∀ x ∈ L, b + n + 3 ≤ x := fun x hx => hge x (Or.inl (Or.inr hx))
    have hgeB : b + n + 3 ≤ B := hge B (Or.inr (Or.inl rfl))
    refine ⟨⟨⟨List.nodup_range' .., hF, ?_⟩, ⟨List.nodup_range' .., hL, ?_⟩, ?_⟩, ⟨?_, ?_, ?_⟩, ?_⟩
    · intro a ha x hx; have := hgeF x hx; omega
    · intro a ha x hx; have := hgeL x hx; omega
    · intro a ha x hx
      rcases ha with ha | ha <;> rcases hx with hx | hx
      · omega
      · have := hgeL x hx; omega
      · have := hgeF a ha; omega
      · exact hFL a ha x hx
    · rintro (h | h | h) <;> omega
    · rintro (h | h) <;> omega
    · simp
    · intro a ha x hx
      rcases hx with rfl | rfl | rfl | hx
      · rcases ha with (ha | ha) | ha | ha
        · omega
        · exact hFLB a (Or.inl ha) _ (Or.inl rfl)
        · omega
        · exact hFLB a (Or.inr ha) _ (Or.inl rfl)
      · rcases ha with (ha | ha) | ha | ha
        · omega
        · have := hgeF a ha; omega
        · omega
        · have := hgeL a ha; omega
      · rcases ha with (ha | ha) | ha | ha
        · omega
        · have := hgeF a ha; omega
        · omega
        · have := hgeL a ha; omega
      · exact hx.elim

theorem mem_enumFrom_of_mem {f : String} : ∀ (b : Nat) (l : List String), f ∈ l → ∃ e ∈ enumFrom b l, e.1 = f := by
  intro b l
  induction l generalizing b with
  | nil => simp
  | cons x xs ih =>
    intro hm
    rcases List.mem_cons.mp hm with rfl | hm
    · exact ⟨_, List.mem_cons_self, rfl⟩
    · obtain ⟨e, he, hef⟩ := ih (b + 1) hm
      exact ⟨e, List.mem_cons_of_mem _ he, hef⟩

/-- every streamer field and every extra field of a streamer accelerator has an address -/
theorem mkStreamerMap_complete (b : Nat) (sf : List String) (extraF extraL : Nat → List (String × Nat))
    (barrier : Nat → Nat) :
    ∀ f ∈ sf ++ (extraF (streamerLaunchDict (streamerSetupDict b sf).1 ["launch_streamer"]).1).map (·.1),
      (lookup (mkStreamerMap b sf extraF extraL barrier).fields f).isSome := by
  intro f hf
  apply lookup_isSome_of_mem_keys
  unfold mkStreamerMap
  obtain ⟨h1, h2⟩ := keys_dictUpdate_complete (streamerSetupDict b sf).2
    (extraF (streamerLaunchDict (streamerSetupDict b sf).1 ["launch_streamer"]).1)
  rcases List.mem_append.mp hf with hf | hf
  · apply h1
    obtain ⟨_, h3⟩ := keys_dictUpdate_complete [] (enumFrom b sf)
    obtain ⟨e, he, rfl⟩ := mem_enumFrom_of_mem b _ hf
    exact h3 e he
  · rw [List.mem_map] at hf
    obtain ⟨e, he, rfl⟩ := hf
    exact h2 e he

/-! ### the accelerators -/


theorem regMapAlu_nodup (cfg : Cfg) : (regMapAlu cfg).addrs.Nodup := by
  apply mkStreamerMap_nodup
  · simp
  · intro x hx; simp at hx; omega

theorem regMapGemmx_nodup (cfg : Cfg) (n : Nat) : (regMapGemmx cfg n).addrs.Nodup := by
  apply mkStreamerMap_nodup
  · generalize base + (setupFields cfg).length + 3 = a
    simp only [gemmxExtraFields, List.map_append, vals_enumFrom, length_numbered]
    generalize nbShifts n = ns
    simp [List.nodup_append, List.nodup_range', List.mem_range'_1]
    exact ⟨by omega, by omega, by omega, by omega, by omega, by omega, fun x h1 h2 => by omega⟩
  · intro x hx
    generalize base + (setupFields cfg).length + 3 = a at *
    simp only [gemmxExtraFields, List.map_append, vals_enumFrom, length_numbered] at hx
    simp [List.mem_range'_1] at hx
    omega

theorem regMapPhs_nodup (cfg : Cfg) (sw : Nat) : (regMapPhs cfg sw).addrs.Nodup := by
  apply mkStreamerMap_nodup
  all_goals generalize base + (setupFields cfg).length + 3 = a
  · have hs : Sub (phsSwitchDict a sw).2 (enumFrom a (numbered "phs_switch_" sw)) := Sub.dictOf _
    have h1 := hs.vals_nodup (by rw [vals_enumFrom]; exact List.nodup_range' ..)
    have h2 := hs.vals_subset
    simp only [vals_enumFrom, length_numbered, List.mem_range'_1] at h2
    simp only [vals] at h1 h2
    simp only [List.map_append, List.map_cons, List.map_nil, phsSwitchDict, length_numbered] at *
    simp only [List.nodup_append, List.nodup_cons, List.mem_cons, List.mem_append, List.not_mem_nil, List.nodup_nil,
      List.mem_singleton]
    refine ⟨⟨⟨h1, by simp, ?_⟩, by simp, ?_⟩, by simp, ?_⟩
    · intro x hx y hy; have := h2 x hx; rcases hy with rfl | hy <;> [omega; exact hy.elim]
    · intro x hx y hy
      rcases hy with rfl | hy
      · rcases hx with hx | rfl | hx
        · have := h2 x hx; omega
        · omega
        · exact hx.elim
      · exact hy.elim
    · intro x hx y hy
      rcases hy with rfl | hy
      · rcases hx with (hx | rfl | hx) | rfl | hx
        · have := h2 x hx; omega
        · omega
        · exact hx.elim
        · omega
        · exact hx.elim
      · exact hy.elim
  · have hs : Sub (phsSwitchDict a sw).2 (enumFrom a (numbered "phs_switch_" sw)) := Sub.dictOf _
    have h2 := hs.vals_subset
    simp only [vals_enumFrom, length_numbered, List.mem_range'_1, vals] at h2
    intro x hx
    simp only [List.map_append, List.map_cons, List.map_nil, phsSwitchDict, length_numbered, List.mem_append,
      List.mem_cons, List.not_mem_nil] at hx h2
    rcases hx with ((hx | hx | hx) | hx | hx) | hx | hx
    · have := h2 x hx; omega
    all_goals first | omega | exact hx.elim

theorem regMapHwpe_nodup : regMapHwpe.addrs.Nodup := by decide



/-- an xDMA instance has a reader and a writer: the four pointer fields come first -/
theorem xdmaSetupFields_length (s1 s2 : Streamer) (cfg : Cfg) :
    4 ≤ (xdmaSetupFields (s1 :: s2 :: cfg)).length := by
  simp only [xdmaSetupFields, named, alphabet, List.length_cons, List.take_succ_cons, List.zip_cons_cons,
    List.flatMap_cons, List.length_append]
  simp only [List.length_cons, List.length_nil]
  omega

theorem regMapXdma_nodup_of_len (cfg : Cfg) (h4 : 4 ≤ (xdmaSetupFields cfg).length) :
    (regMapXdma cfg).addrs.Nodup := by
  apply addrs_nodup_of_raw _ (enumFrom base ((xdmaSetupFields cfg).take 4)
      ++ enumFrom (base + 2 + 2 * maxMulticastDest) ((xdmaSetupFields cfg).drop 4))
    (enumFrom (base + (xdmaSetupFields cfg).length + 2 * maxMulticastDest - 2) ["launch_start"])
  · exact Sub.update _ (Sub.dictOf _)
  · exact Sub.dictOf _
  · simp only [regMapXdma, List.map_append, vals_enumFrom, maxMulticastDest, List.length_take, List.length_drop]
    generalize (xdmaSetupFields cfg).length = n at *
    generalize base = b
    have : min 4 n = 4 := by omega
    rw [this]
    simp [List.nodup_append, List.nodup_range', List.mem_range'_1]
    refine ⟨⟨⟨by omega, by omega, fun a h1 h2 => by omega⟩, fun a h1 h2 => ⟨by omega, by omega, fun c hc => by omega⟩⟩,
      fun a h1 h2 c hc => by omega⟩

/-! ### completeness: every name an accelerator object uses is declared -/

theorem keys_enumFrom (b : Nat) (l : List String) : (enumFrom b l).map (·.1) = l := by
  induction l generalizing b with
  | nil => rfl
  | cons f fs ih => simp [enumFrom, ih]

theorem regMapGemmx_complete (cfg : Cfg) (n : Nat) :
    ∀ f ∈ gemmxFieldNames cfg n, (lookup (regMapGemmx cfg n).fields f).isSome := by
  intro f hf
  apply mkStreamerMap_complete
  simpa [gemmxFieldNames, gemmxExtraFields, keys_enumFrom, List.append_assoc] using hf

theorem mem_keys_dictOf_enumFrom {f : String} (b : Nat) (l : List String) (h : f ∈ l) :
    f ∈ keys (dictOf (enumFrom b l)) := by
  obtain ⟨e, he, rfl⟩ := mem_enumFrom_of_mem b l h
  exact (keys_dictUpdate_complete [] (enumFrom b l)).2 e he

theorem regMapPhs_complete (cfg : Cfg) (sw : Nat) :
    ∀ f ∈ phsFieldNames cfg sw, (lookup (regMapPhs cfg sw).fields f).isSome := by
  intro f hf
  apply mkStreamerMap_complete
  unfold phsFieldNames at hf
  rw [List.mem_append]
  rcases List.mem_append.mp hf with hf | hf
  · rcases List.mem_append.mp hf with hf | hf
    · exact Or.inl hf
    · right
      have := mem_keys_dictOf_enumFrom (streamerLaunchDict (streamerSetupDict base (setupFields cfg)).1 ["launch_streamer"]).1 _ hf
      unfold keys at this
      rw [List.mem_map] at this ⊢
      obtain ⟨e, he, rfl⟩ := this
      exact ⟨e, List.mem_append_left _ (by simpa [phsSwitchDict] using he), rfl⟩
  · right
    rw [List.mem_singleton] at hf; subst hf
    rw [List.mem_map]
    exact ⟨_, List.mem_append_right _ (List.mem_singleton.mpr rfl), rfl⟩

theorem regMapXdma_complete (cfg : Cfg) :
    ∀ f ∈ xdmaFieldNames cfg, (lookup (regMapXdma cfg).fields f).isSome := by
  intro f hf
  apply lookup_isSome_of_mem_keys
  unfold xdmaFieldNames at hf
  unfold regMapXdma
  simp only
  rw [← List.take_append_drop 4 (xdmaSetupFields cfg)] at hf
  obtain ⟨h1, h2⟩ := keys_dictUpdate_complete (dictOf (enumFrom base ((xdmaSetupFields cfg).take 4)))
    (enumFrom (base + 2 + 2 * maxMulticastDest) ((xdmaSetupFields cfg).drop 4))
  rcases List.mem_append.mp hf with hf | hf
  · exact h1 f (mem_keys_dictOf_enumFrom _ _ hf)
  · obtain ⟨e, he, rfl⟩ := mem_enumFrom_of_mem (base + 2 + 2 * maxMulticastDest) _ hf
    exact h2 e he

/-- launch registers: the names the accelerator objects put into their launch ops are declared -/
theorem mkStreamerMap_launch_complete (b : Nat) (sf : List String) (extraF extraL : Nat → List (String × Nat))
    (barrier : Nat → Nat) :
    ∀ f ∈ "launch_streamer" :: (extraL (streamerLaunchDict (streamerSetupDict b sf).1 ["launch_streamer"]).1).map (·.1),
      (lookup (mkStreamerMap b sf extraF extraL barrier).launch f).isSome := by
  intro f hf
  apply lookup_isSome_of_mem_keys
  unfold mkStreamerMap
  obtain ⟨h1, h2⟩ := keys_dictUpdate_complete (streamerLaunchDict (streamerSetupDict b sf).1 ["launch_streamer"]).2
    (extraL (streamerLaunchDict (streamerSetupDict b sf).1 ["launch_streamer"]).1)
  rcases List.mem_cons.mp hf with rfl | hf
  · apply h1
    exact mem_keys_dictOf_enumFrom _ _ (List.mem_singleton.mpr rfl)
  · rw [List.mem_map] at hf
    obtain ⟨e, he, rfl⟩ := hf
    exact h2 e he
end SnaxVerif.RegMap
