import SnaxVerif.Lemmas.Phs
/-! C20: what a successful `decode` establishes node by node, and the converse simulation (the merged element
delivers nothing the kernel does not deliver). Core Lean only. -/
namespace SnaxVerif.Phs

variable [Variant]

/-- the node-by-node correspondence between a kernel and the configured element -/
def NodeMatch (A K : PE) (swv : Nat → Nat) : Prop :=
  ∀ (c : Nat) (k : Node), K.nodes[c]? = some k → ∃ (ai : Nat) (a : Node), A.nodes[ai]? = some a ∧ a.id = k.id ∧
    (∀ op, k.ops[0]? = some op → a.ops[swv a.sw]? = some op) ∧ a.operands.length = k.operands.length ∧
    ∀ p (h : p < k.operands.length) (h' : p < a.operands.length),
      ∃ l, K.leafOf k.operands[p] = some l ∧ A.follow swv a.operands[p] = some l

theorem decode_facts (A K : PE) (sw : List Nat) (hA : A.wf = true) (hK : uniqueIds K.nodes = true)
    (hcov : covers A K = true) (h : decode A K = .ok sw) :
    K.argTys.length = A.argTys.length ∧ NodeMatch A K (A.assign sw) ∧
      ∃ l, K.leafOf K.yld = some l ∧ A.follow (A.assign sw) A.yld = some l := by
  obtain ⟨_, hargs, pre, m, hpre, hsearch, hsw⟩ := decode_ok h
  have hvalid := search_sound _ _ _ _ hsearch
  obtain ⟨hvn, hvy⟩ := validMapping_true hvalid
  have hne : ∀ (j : Nat) (a : Node), A.nodes[j]? = some a → a.ops ≠ [] := fun j a ha => (wf_node hA ha).1
  obtain ⟨hplen, hpget⟩ := localChoices_get A K A.switches 0 pre hpre
  have hassign : ∀ s u, A.switches[s]? = some u → ∃ q, localChoice A K s u = .ok q ∧ A.assign sw s = preVal m q := by
    intro s u hu
    obtain ⟨q, hq1, hq2⟩ := hpget s u hu
    refine ⟨q, by simpa using hq2, ?_⟩
    simp only [PE.assign, PE.expand, hsw, expandFrom_final A K m hne A.switches 0 pre hpre]
    rw [List.getD_eq_getElem?_getD, List.getElem?_map, hq1]; rfl
  have hmux : ∀ s, A.switches[s]? = some .mux → m s = A.assign sw s := by
    intro s hs
    obtain ⟨q, hq1, hq2⟩ := hassign s _ hs
    simp only [localChoice] at hq1; injection hq1 with hq1; subst hq1
    rw [hq2]; rfl
  have hyl := validOperands_true K A m _ _ hvy
  obtain ⟨l, hl1, hl2⟩ := hyl.2 0 (by simp) (by simp)
  simp only [List.getElem_cons_zero] at hl1 hl2
  rw [follow_congr A m (A.assign sw) hmux A.yld (wf_yield hA)] at hl2
  refine ⟨hargs, ?_, l, hl1, hl2⟩
  intro c k hn
  have hmem : k ∈ K.nodes := List.mem_of_getElem? hn
  obtain ⟨ai, a, hlook, ha, hvo⟩ := validNodes_true K A m K.nodes hvn k hmem
  obtain ⟨a', ha', hid⟩ := lookup_some hlook
  rw [ha] at ha'; injection ha' with ha'; subst ha'
  obtain ⟨hane, haok, hasw, hcf⟩ := wf_node hA ha
  obtain ⟨hlen, hops⟩ := validOperands_true K A m _ _ hvo
  refine ⟨ai, a, ha, hid, ?_, hlen, ?_⟩
  · intro op hop
    obtain ⟨q, hq1, hq2⟩ := hassign a.sw _ hasw
    rw [hq2]
    have hopmem : op ∈ k.ops := List.mem_of_getElem? hop
    have hcova : op ∈ a.ops := by
      simp only [covers, List.all_eq_true] at hcov
      have := hcov k hmem
      simp only [coversNode, hlook, ha, List.all_eq_true, List.contains_eq_mem, decide_eq_true_eq] at this
      exact this op hopmem
    simp only [localChoice, ha] at hq1
    split at hq1
    next h1 =>
      injection hq1 with hq1; subst hq1
      simp only [preVal]
      match hao : a.ops, h1 with
      | [x], _ =>
        rw [hao] at hcova
        simp at hcova; subst hcova; rfl
    next h1 =>
      have hlk : K.lookup a.id = some c := by rw [hid]; exact lookup_of_get hK hn
      simp only [hlk, hn] at hq1
      have hhead : k.ops.head? = some op := by rw [List.head?_eq_getElem?]; exact hop
      simp only [hhead] at hq1
      split at hq1
      next i hi =>
        injection hq1 with hq1; subst hq1
        simp only [preVal]
        obtain ⟨t', ht', hc⟩ := (idxOf_some op a.ops 0 i hi).2
        have : t' = op := hcf t' op (List.mem_of_getElem? ht') hcova hc
        subst this
        simpa using ht'
      · simp at hq1
  · intro p h1 h2
    obtain ⟨l', hl1', hl2'⟩ := hops p h1 h2
    refine ⟨l', hl1', ?_⟩
    rw [← follow_congr A m (A.assign sw) hmux _ (haok _ (List.getElem_mem h2))]
    exact hl2'

/-- converse simulation: whatever the configured element delivers at a source that is routed to a kernel
value, the kernel delivers there -/
theorem sim_rev {V : Type} (sem : OpCode → List V → V) (A K : PE) (swv : Nat → Nat) (inp : List V)
    (hargs : K.argTys.length = A.argTys.length) (huniq : uniqueIds A.nodes = true)
    (hnode : NodeMatch A K swv)
    (hcon : ∀ (c : Nat) (k : Node), K.nodes[c]? = some k → ∃ op, k.ops[0]? = some op) :
    ∀ t v, Computes sem A swv inp t v → ∀ s l, K.leafOf s = some l → A.follow swv t = some l →
      Computes sem K (fun _ => 0) inp s v := by
  intro t v h
  induction h with
  | @arg i v hi hv =>
    intro s l hl hf
    simp only [PE.follow] at hf; injection hf with hf; subst hf
    cases s with
    | arg i' =>
      simp only [PE.leafOf] at hl; injection hl with hl; injection hl with hl; subst hl
      exact .arg (hargs ▸ hi) hv
    | node c =>
      simp only [PE.leafOf] at hl
      cases hn : K.nodes[c]? with
      | none => simp [hn] at hl
      | some n => simp [hn] at hl
    | mux _ _ _ => simp [PE.leafOf] at hl
  | @muxL s0 l0 r0 v hs _ ih =>
    intro s l hl hf
    simp only [PE.follow, if_neg hs] at hf
    exact ih s l hl hf
  | @muxR s0 l0 r0 v hs _ ih =>
    intro s l hl hf
    simp only [PE.follow, if_pos hs] at hf
    exact ih s l hl hf
  | @node j n op vs hn hop hlen hops ih =>
    intro s l hl hf
    simp only [PE.follow, hn, Option.map_some] at hf; injection hf with hf; subst hf
    cases s with
    | arg i' => simp [PE.leafOf] at hl
    | mux _ _ _ => simp [PE.leafOf] at hl
    | node c =>
      simp only [PE.leafOf] at hl
      cases hk : K.nodes[c]? with
      | none => simp [hk] at hl
      | some k =>
        simp only [hk, Option.map_some] at hl; injection hl with hl; injection hl with hl
        obtain ⟨ai, a, ha, hid, hopA, hlenA, hopnds⟩ := hnode c k hk
        have hj : ai = j := uniqueIds_inj A.nodes huniq ai j a n ha hn (by rw [hid, hl])
        subst hj
        rw [hn] at ha; injection ha with ha; subst ha
        obtain ⟨op0, hop0⟩ := hcon c k hk
        have hsel := hopA op0 hop0
        rw [hop] at hsel; injection hsel with hsel; subst hsel
        refine .node hk hop0 (by omega) ?_
        intro p h1 h2
        obtain ⟨l', hl1, hl2⟩ := hopnds p h1 (by omega)
        exact ih p (by omega) h2 _ l' hl1 hl2

end SnaxVerif.Phs
