import SnaxVerif.Lemmas.AccfgMove
import SnaxVerif.Model.AccfgLoopOverlap
/-! Loop-level overlap (rotation of the first setup of a loop body): correctness of the rotation (C06). -/
namespace SnaxVerif.Accfg

variable (cfg : Cfg)

/-! ### lists of pure statements -/

def stepPure (s : Stmt) (e : Env) : Env :=
  match s with
  | .pure d op args => setEnv e d (op.eval cfg (args.map e))
  | _ => e

def runPure : List Stmt → Env → Env
  | [], e => e
  | s :: r, e => runPure r (stepPure cfg s e)

theorem runPure_append (l1 l2 : List Stmt) (e : Env) : runPure cfg (l1 ++ l2) e = runPure cfg l2 (runPure cfg l1 e) := by
  induction l1 generalizing e with
  | nil => rfl
  | cons s r ih => simp [runPure, ih]

theorem exec_pure_list (gh : Bool) : ∀ (l : List Stmt), l.all isPure = true → ∀ st : St,
    execB cfg gh (Block.ofList l) st = { st with env := runPure cfg l st.env }
  | [], _, st => rfl
  | s :: r, h, st => by
      simp only [List.all_cons, Bool.and_eq_true] at h
      cases s with
      | pure d op args =>
        simp only [Block.ofList, execB, execS]
        rw [exec_pure_list gh r h.2]
        simp [runPure, stepPure]
      | _ => simp [isPure] at h

/-- a variable no statement of the list defines keeps its value -/
theorem runPure_frame : ∀ (l : List Stmt) (e : Env) (x : Var), x ∉ l.flatMap pureDef → runPure cfg l e x = e x
  | [], _, _, _ => rfl
  | s :: r, e, x, h => by
      simp only [List.flatMap_cons, List.mem_append, not_or] at h
      simp only [runPure]
      rw [runPure_frame r _ x h.2]
      cases s <;> simp [stepPure, pureDef, setEnv] at h ⊢
      · exact fun hx => absurd hx h.1

/-- the result on a variable depends only on the values of the variables the list reads (and on the variable itself) -/
theorem runPure_congr : ∀ (l : List Stmt) (e e' : Env) (x : Var),
    (∀ y ∈ l.flatMap pureArgs, e y = e' y) → e x = e' x → (∀ y ∈ l.flatMap pureDef, e y = e' y) →
    runPure cfg l e x = runPure cfg l e' x := by
  intro l
  induction l with
  | nil => intro e e' x _ hx _; exact hx
  | cons s r ih =>
    intro e e' x ha hx hd
    simp only [runPure]
    simp only [List.flatMap_cons, List.mem_append] at ha hd
    have key : ∀ y, e y = e' y → stepPure cfg s e y = stepPure cfg s e' y := by
      intro y hy
      cases s with
      | pure d op args =>
        simp only [stepPure, setEnv]
        have : args.map e = args.map e' := List.map_congr_left (fun z hz => ha z (Or.inl (by simpa [pureArgs] using hz)))
        rw [this]; split <;> simp [hy]
      | _ => simpa [stepPure] using hy
    apply ih
    · intro y hy; exact key y (ha y (Or.inr hy))
    · exact key x hx
    · intro y hy; exact key y (hd y (Or.inr hy))

/-! ### a setup that writes what the registers already hold -/

theorem setRegs_noop (regs : Regs) (env : Env) (a : AccId) (fs : List (Field × Var))
    (h : ∀ p ∈ fs, regs a p.1 = env p.2) : setRegs regs env a fs = regs := by
  funext a' f
  simp only [setRegs]
  split
  · next hab =>
    subst hab
    cases hl : fs.lookup f with
    | none => rfl
    | some x =>
      obtain ⟨l1, l2, hfs, _⟩ := List.lookup_eq_some_iff.mp hl
      exact (h (f, x) (by simp [hfs])).symm
  · rfl

end SnaxVerif.Accfg
